"""Reference EBML machinery for generators and oracles, written from RFC 8794 and the property
texts — independent of the Coq model.  Specifications, path semantics, random conformant
documents, a structural encoder with expected reader items, mutators, token (de)serialisation."""
import struct

# ------------------------------------------------------------------ specifications

class Spec:
    """entries: list of (id, ty, path); ty in 'MUISBF'; path = list of parts; part = int id | (min, max)"""

    def __init__(self, entries):
        self.entries = list(entries)
        self.ty = {}
        self.path = {}
        for i, t, p in self.entries:
            if i not in self.ty:
                self.ty[i] = t
                self.path[i] = list(p)

    def s(self):
        if not self.entries:
            return "-"
        out = []
        for i, t, p in self.entries:
            parts = []
            for x in p:
                if isinstance(x, tuple):
                    parts.append("(%s-%s)" % ("" if x[0] is None else x[0], "" if x[1] is None else x[1]))
                else:
                    parts.append("%x" % x)
            out.append("%x:%s:%s" % (i, t, "/".join(parts)))
        return ";".join(out)

    def masters(self):
        return [i for i, t, _ in self.entries if t == "M"]

    def get_path(self, i):
        return self.path.get(i, [])

    def get_type(self, i):
        return self.ty.get(i)


def matches(path, chain):
    """declared path read as a pattern over the chain of open masters (outermost first)"""
    if not path:
        return not chain
    h = path[0]
    if isinstance(h, tuple):
        lo = h[0] or 0
        hi = len(chain) if h[1] is None else min(h[1], len(chain))
        return any(matches(path[1:], chain[k:]) for k in range(lo, hi + 1))
    return bool(chain) and chain[0] == h and matches(path[1:], chain[1:])


def is_ended_by(spec, cur, tid):
    """RFC 8794 6.2 as the property states it: sibling (same declared path), (new instance of) a
    parent, or a root element"""
    pc = spec.get_path(cur)
    if tid in [x for x in pc if not isinstance(x, tuple)]:
        return True
    if spec.get_type(tid) is not None and pc == spec.get_path(tid):
        return True
    return spec.get_type(tid) is not None and spec.get_path(tid) == []


def closed_by(spec, stack, tid):
    """stack: list of (id, known:bool) outermost first.  Number of innermost masters the element
    tid closes: the largest k such that the k innermost are all unknown-size and the outermost of
    them is ended by tid."""
    k = 0
    best = 0
    for (i, known) in reversed(stack):
        if known:
            break
        k += 1
        if is_ended_by(spec, i, tid):
            best = k
    return best


def only_global(path):
    return len(path) > 0 and all(isinstance(x, tuple) for x in path)


# ------------------------------------------------------------------ ids and fixed specs

def valid_id(rng, nbytes):
    lo = 1 << (7 * nbytes)
    while True:
        v = lo + rng.randrange(0, lo - 1)  # data bits not all ones
        if nbytes >= 2 and rng.random() < 0.3:
            # ids with 0x00 / 0xFF bytes after the first one (0x4200, 0x10000081, 0x42ff): byte-wise id handling shows there
            k = rng.randrange(0, nbytes - 1)
            v = (v & ~(0xFF << (8 * k))) | (rng.choice([0x00, 0x00, 0xFF]) << (8 * k))
        if v & (lo - 1) and (v & (lo - 1)) != lo - 1:
            return v


ROOT, PARENT, SUB, LEAFU, LEAFI, LEAFS, LEAFB, LEAFF, INT, CHILD = 0x81, 0x4103, 0x4201, 0x82, 0x83, 0x84, 0x85, 0x86, 0x4101, 0x4102
EBMLH = 0x1A45DFA3
CRC, VOID = 0xBF, 0xEC


def base_spec(extra=()):
    """A fixed specification shaped like the repository's test spec, all six types at two depths."""
    e = [
        (EBMLH, "M", []),
        (ROOT, "M", []),
        (PARENT, "M", [ROOT]),
        (SUB, "M", [ROOT, PARENT]),
        (INT, "U", [ROOT]),
        (CHILD, "B", [ROOT, PARENT]),
        (LEAFU, "U", [ROOT, PARENT, SUB]),
        (LEAFI, "I", [ROOT, PARENT, SUB]),
        (LEAFS, "S", [ROOT, PARENT, SUB]),
        (LEAFB, "B", [ROOT, PARENT, SUB]),
        (LEAFF, "F", [ROOT, PARENT, SUB]),
        (0x4287, "U", [EBMLH]),
        (0x4282, "S", [EBMLH]),
    ]
    e += list(extra)
    e += [(CRC, "B", [(1, None)]), (VOID, "B", [(None, None)])]
    return Spec(e)


def rec_spec():
    """with a recursive master Rec declared Root/(0-) and an element behind an intermediate placeholder"""
    return base_spec(extra=[(0x4301, "M", [ROOT, (0, None)]), (0x4302, "U", [ROOT, (1, 1), SUB]), (0x4303, "I", [ROOT, (0, 2), 0x4301])])


def random_spec(rng, globals_mid=True, multi=False):
    used = {CRC, VOID}

    def new_id():
        while True:
            nb = rng.choice([1, 1, 2, 2, 2, 3, 4, 4, 5, 8])
            v = valid_id(rng, nb)
            if v not in used:
                used.add(v)
                return v

    entries = []
    masters = []  # (id, path)
    nroots = rng.choice([1, 1, 2])
    for _ in range(nroots):
        r = new_id()
        entries.append((r, "M", []))
        masters.append((r, []))
    frontier = list(masters)
    for depth in range(rng.choice([1, 2, 3, 4])):
        nxt = []
        for (m, p) in frontier:
            for _ in range(rng.choice([0, 1, 1, 2])):
                c = new_id()
                entries.append((c, "M", p + [m]))
                masters.append((c, p + [m]))
                nxt.append((c, p + [m]))
        frontier = nxt or frontier[:1]
    for (m, p) in masters:
        for _ in range(rng.choice([0, 1, 2, 3])):
            entries.append((new_id(), rng.choice("UISBF"), p + [m]))
    # a few root-level non-master elements are impossible in EBML (root elements are masters); skip
    if globals_mid and masters:
        for _ in range(rng.choice([0, 1, 2])):
            (m, p) = rng.choice(masters)
            lo = rng.choice([None, 0, 1, 2])
            hi = rng.choice([None, None, 1, 2, 3])
            if hi is not None and lo is not None and hi < lo:
                hi = lo
            if hi == 0:
                hi = 1
            kind = rng.choice(["trail", "trail", "mid", "recm"])
            if kind == "trail":
                entries.append((new_id(), rng.choice("UISBF"), p + [m, (lo, hi)]))
            elif kind == "recm":
                entries.append((new_id(), "M", p + [m, (lo, hi)]))
            else:
                # intermediate placeholder followed by a named master
                (m2, p2) = rng.choice(masters)
                entries.append((new_id(), rng.choice("UISBF"), p + [m, (lo, hi), m2]))
    if multi and masters:
        # paths with several placeholders (only used where asked for: C11)
        def ph():
            lo = rng.choice([None, None, 0, 1, 2])
            hi = rng.choice([None, None, None, 1, 2, 3])
            if hi is not None and lo is not None and hi < lo:
                hi = lo
            if hi == 0:
                hi = 1
            return (lo, hi)
        for _ in range(rng.choice([1, 2, 3])):
            (m, p) = rng.choice(masters)
            (m2, p2) = rng.choice(masters)
            shape = rng.choice(["g/m/g", "p/g/m/g", "g/m/g/m", "p/g/m/g/m"])
            path = ([] if shape.startswith("g") else p + [m]) + [ph(), m2, ph()]
            if shape.endswith("/m"):
                path.append(rng.choice(masters)[0])
            entries.append((new_id(), rng.choice("UISBFM"), path))
    rng.shuffle(entries)
    entries += [(CRC, "B", [(1, None)]), (VOID, "B", [(None, None)])]
    return Spec(entries)


# ------------------------------------------------------------------ tags and tokens

def tag_str(t):
    k = t[0]
    if k in "se":
        return "%s%x" % (k, t[1])
    if k == "m":
        return "m%x(%s)" % (t[1], ";".join(tag_str(c) for c in t[2]))
    if k == "u" or k == "i":
        return "%s%x=%d" % (k, t[1], t[2])
    if k == "f":
        return "f%x=%s" % (t[1], f64_token(t[2]))
    return "%s%x=%s" % (k, t[1], bytes(t[2]).hex())


def is_nan_bits(b):
    return ((b >> 52) & 0x7FF) == 0x7FF and (b & ((1 << 52) - 1)) != 0


def f64_token(bits):
    return "NaN" if is_nan_bits(bits) else "%016x" % bits


def flat(tags):
    out = []
    for t in tags:
        if t[0] == "m":
            out.append(("s", t[1]))
            out.extend(flat(t[2]))
            out.append(("e", t[1]))
        else:
            out.append(t)
    return out


def parse_tag(s):
    t, k = _parse_tag_at(s, 0)
    assert k == len(s), s
    return t


def _parse_tag_at(s, i):
    kind = s[i]
    j = i + 1
    while j < len(s) and s[j] in "0123456789abcdef":
        j += 1
    tid = int(s[i + 1:j], 16)
    if kind in "se":
        return (kind, tid), j
    if kind == "m":
        assert s[j] == "("
        k = j + 1
        cs = []
        if s[k] == ")":
            return ("m", tid, cs), k + 1
        while True:
            c, k = _parse_tag_at(s, k)
            cs.append(c)
            if s[k] == ";":
                k += 1
            else:
                assert s[k] == ")"
                return ("m", tid, cs), k + 1
    assert s[j] == "="
    k = j + 1
    while k < len(s) and s[k] not in ";),":
        k += 1
    v = s[j + 1:k]
    if kind in "ui":
        return (kind, tid, int(v)), k
    if kind == "f":
        return ("f", tid, 0x7FF8000000000000 if v == "NaN" else int(v, 16)), k
    return (kind, tid, bytes.fromhex(v)), k


def parse_items(tokens):
    """R result tokens -> list of ('item', tag, off) | ('err', token) | ('none',) | ('rec', token) | ('bad', token)"""
    out = []
    for tok in tokens:
        if tok == "N":
            out.append(("none",))
        elif tok.startswith("E:"):
            out.append(("err", tok))
        elif tok.startswith("T:"):
            out.append(("rec", tok[2:]))
        elif tok in ("PANIC", "LIMIT", "FUEL") or tok.startswith("BAD") or tok.startswith("CRASH"):
            out.append(("bad", tok))
        else:
            i = tok.rfind("@")
            off = tok[i + 1:]
            try:
                out.append(("item", parse_tag(tok[:i]), None if off == "?" else int(off)))
            except Exception:
                out.append(("bad", tok))
    return out


# ------------------------------------------------------------------ encoding

def id_bytes(i):
    return i.to_bytes(8, "big").lstrip(b"\0")


def size_vint(n, width=None):
    """data size vint avoiding the reserved all-ones pattern"""
    if width is None:
        width = next((L for L in range(1, 8) if n < (1 << (7 * L)) - 1), 8)
    assert n < (1 << (7 * width)) - 1
    return (n | (1 << (7 * width))).to_bytes(width, "big")


UNKNOWN8 = b"\x01" + b"\xff" * 7


def unknown_vint(width):
    return ((1 << (7 * width + 1)) - 1).to_bytes(width, "big")


def uint_payload(v):
    for w in (1, 2, 4):
        if v < (1 << (8 * w)):
            return v.to_bytes(w, "big")
    return v.to_bytes(8, "big")


def sint_payload(z):
    for w in (1, 2, 4):
        if -(1 << (8 * w - 1)) <= z < (1 << (8 * w - 1)):
            return z.to_bytes(w, "big", signed=True)
    return z.to_bytes(8, "big", signed=True)


def payload_of(tag):
    k = tag[0]
    if k == "u":
        return uint_payload(tag[2])
    if k == "i":
        return sint_payload(tag[2])
    if k == "f":
        return tag[2].to_bytes(8, "big")
    return bytes(tag[2])


class Node:
    """document node: elem (tag with value) or master with children; enc: None default / int width / 'u' unknown
    (masters only); for elements `payload` may override the canonical payload bytes (non-canonical encodings)."""

    def __init__(self, tag, enc=None, children=None, payload=None):
        self.tag = tag
        self.enc = enc
        self.children = children
        self.payload = payload

    def is_master(self):
        return self.children is not None


def encode(nodes, base=0, items=None):
    """-> bytes; appends expected flat reader items (tag, offset) to `items` (Start at its offset, End
    with the Start's offset)"""
    out = bytearray()
    for n in nodes:
        off = base + len(out)
        if n.is_master():
            tid = n.tag[1]
            if items is not None:
                items.append((("s", tid), off))
            if n.enc == "u":
                hdr = id_bytes(tid) + UNKNOWN8
                body = encode(n.children, off + len(hdr), items)
            elif isinstance(n.enc, tuple):  # ('u', width): unknown size in another width (reader input only)
                hdr = id_bytes(tid) + unknown_vint(n.enc[1])
                body = encode(n.children, off + len(hdr), items)
            else:
                # the header length depends on the body length; the body's offsets depend on the header length
                sub = []
                body = encode(n.children, 0, sub)
                hdr = id_bytes(tid) + size_vint(len(body), n.enc)
                if items is not None:
                    shift = off + len(hdr)
                    items.extend(_shift(sub, shift))
            out += hdr + body
            if items is not None:
                items.append((("e", tid), off))
        else:
            pl = n.payload if n.payload is not None else payload_of(n.tag)
            out += id_bytes(n.tag[1]) + size_vint(len(pl), n.enc) + pl
            if items is not None:
                items.append((n.tag, off))
    return bytes(out)


def _shift(sub, d):
    return [(t, o + d) for (t, o) in sub]


def nodes_to_tags(nodes, full=lambda n: True):
    """presentation for the writer: masters as Full (when full(n)) or as Start..End"""
    out = []
    for n in nodes:
        if n.is_master():
            if full(n):
                out.append(("m", n.tag[1], nodes_to_full(n.children)))
            else:
                out.append(("s", n.tag[1]))
                out.extend(nodes_to_tags(n.children, full))
                out.append(("e", n.tag[1]))
        else:
            out.append(n.tag)
    return out


def nodes_to_full(nodes):
    return [("m", n.tag[1], nodes_to_full(n.children)) if n.is_master() else n.tag for n in nodes]


def expected_tokens(items):
    return ["%s@%d" % (tag_str(t), o) for (t, o) in items]


# ------------------------------------------------------------------ random values / documents

LEN_LATTICE = [0, 0, 1, 1, 2, 3, 4, 7, 8, 9, 126, 127, 128, 129, 255, 256, 1000, 16382, 16383, 16384, 16385, 65535, 65536, 65537]


def rand_len(rng, big=True):
    r = rng.random()
    if r < 0.7:
        return rng.choice([0, 1, 2, 3, 4, 5, 8, 11])
    if r < 0.93 or not big:
        return rng.choice([0, 1, 2, 7, 8, 9, 126, 127, 128, 129, 200, 255, 256])
    return rng.choice(LEN_LATTICE)


def rand_uint(rng):
    r = rng.random()
    if r < 0.4:
        return rng.randrange(0, 300)
    k = rng.choice([8, 16, 32, 64, 7, 14, 56, 63])
    v = (1 << k) + rng.choice([-2, -1, 0, 1, 2])
    if r < 0.8:
        return max(0, min(v, (1 << 64) - 1))
    return rng.getrandbits(rng.randint(0, 64))


SINT_EDGES = [v for k in (7, 15, 31, 63) for v in ((1 << k) - 1, 1 << k, (1 << k) + 1, -(1 << k) - 1, -(1 << k), -(1 << k) + 1) if -(1 << 63) <= v < (1 << 63)] + \
             [(1 << 32) - 1, 1 << 32, (1 << 31) + 12345, (1 << 32) - 54321, 0xDEADBEEF, (1 << 16) - 1, 1 << 16, (1 << 8) - 1, 1 << 8, -(1 << 32), -(1 << 32) + 1]


def rand_sint(rng):
    r = rng.random()
    if r < 0.25:
        # the edges of the widths 1/2/4/8 of the signed encoder, and the values an UNSIGNED width ladder would place differently
        return rng.choice(SINT_EDGES)
    if r < 0.5:
        return rng.randrange(-300, 300)
    k = rng.choice([7, 8, 15, 16, 31, 32, 63])
    v = rng.choice([-1, 1]) * ((1 << k) + rng.choice([-2, -1, 0, 1, 2]))
    if r < 0.8:
        return max(-(1 << 63), min(v, (1 << 63) - 1))
    return rng.getrandbits(rng.randint(0, 63)) * rng.choice([-1, 1])


SPECIAL_F64 = [0, 1 << 63, 0x3FF0000000000000, 0x7FF0000000000000, 0xFFF0000000000000, 0x7FF8000000000000, 1, 0x000FFFFFFFFFFFFF,
               0x7FEFFFFFFFFFFFFF, 0x400921FB54442D18]


def rand_f64(rng):
    return rng.choice(SPECIAL_F64) if rng.random() < 0.5 else rng.getrandbits(64)


UTF8_SAMPLES = ["", "a", "hello", "héllo", "中文", "\U0001F600", "߿ࠀ￿", "x" * 127, "é" * 64]


def rand_utf8(rng):
    if rng.random() < 0.7:
        return rng.choice(UTF8_SAMPLES).encode()
    n = rand_len(rng, big=False)
    return "".join(chr(rng.choice([rng.randrange(32, 127), rng.randrange(0x80, 0x800), rng.randrange(0x800, 0xD800), rng.randrange(0x10000, 0x110000)])) for _ in range(n // 2)).encode()


def rand_bytes(rng, n):
    return bytes(rng.getrandbits(8) for _ in range(n)) if n < 64 else bytes([rng.getrandbits(8)]) * n


def rand_value_tag(rng, tid, ty, big=True):
    if ty == "U":
        return ("u", tid, rand_uint(rng))
    if ty == "I":
        return ("i", tid, rand_sint(rng))
    if ty == "F":
        return ("f", tid, rand_f64(rng))
    if ty == "S":
        return ("t", tid, rand_utf8(rng))
    return ("b", tid, rand_bytes(rng, rand_len(rng, big)))


def allowed_children(spec, chain):
    return [i for i in spec.ty if matches(spec.get_path(i), chain)]


def rand_forest(rng, spec, chain=(), depth=0, budget=None, unknown_ok=True, widths=True, big=True, unknown_p=0.25):
    """random conformant forest under `chain`.  Unknown-size masters are only generated where the
    reading is unambiguous: the master's declared path has no placeholder, and no element generated
    inside it (through unknown-size masters only) ends it or an enclosing unknown-size master."""
    if budget is None:
        budget = [rng.choice([3, 6, 10, 20])]
    chain = list(chain)
    cands = allowed_children(spec, chain)
    if not cands:
        return []
    nodes = []
    n = rng.choice([0, 1, 1, 2, 2, 3, 4]) if depth else rng.choice([1, 1, 2, 3])
    for _ in range(n):
        if budget[0] <= 0:
            break
        budget[0] -= 1
        tid = rng.choice(cands)
        ty = spec.get_type(tid)
        if ty == "M":
            if depth >= 6:
                continue
            enc = None
            r = rng.random()
            if unknown_ok and r < unknown_p and not any(isinstance(x, tuple) for x in spec.get_path(tid)):
                enc = "u"
            elif widths and r < 0.45:
                enc = rng.choice([1, 2, 3, 4, 8])
            kids = rand_forest(rng, spec, chain + [tid], depth + 1, budget, unknown_ok, widths, big, unknown_p)
            node = Node(("m", tid), enc, kids)
            if isinstance(enc, int):
                try:
                    encode([node])
                except AssertionError:
                    node.enc = None
            nodes.append(node)
        else:
            enc = rng.choice([1, 2, 3, 4, 8]) if widths and rng.random() < 0.2 else None
            tag = rand_value_tag(rng, tid, ty, big)
            node = Node(tag, enc)
            try:
                encode([node])
            except AssertionError:
                node.enc = None
            nodes.append(node)
    return nodes


def unambiguous(spec, nodes, stack=()):
    """C01's hypothesis: with `stack` = list of (id, known) outermost first, no element of the forest
    closes an open unknown-size master other than as a following sibling/ancestor would, i.e. reading
    the encoding reproduces the tree.  Checked by simulating the closing rule."""
    stack = list(stack)
    for n in nodes:
        tid = n.tag[1]
        if closed_by(spec, stack, tid) > 0:
            return False
        if n.is_master():
            known = not (n.enc == "u" or isinstance(n.enc, tuple))
            if not unambiguous(spec, n.children, stack + [(tid, known)]):
                return False
            # what follows an unknown-size master at the same level must close it (and only it)
    return _followers_ok(spec, nodes, stack)


def _last_spine(n):
    """ids of the unknown-size masters left open after n's bytes (n itself if unknown, then its last child …)"""
    out = []
    while n.is_master() and (n.enc == "u" or isinstance(n.enc, tuple)):
        out.append(n.tag[1])
        if not n.children:
            break
        n = n.children[-1]
    return out


def _followers_ok(spec, nodes, stack):
    for a, b in zip(nodes, nodes[1:]):
        spine = _last_spine(a)
        if spine:
            st = list(stack) + [(i, False) for i in spine]
            if closed_by(spec, st, b.tag[1]) != len(spine):
                return False
    return True


def count_nodes(nodes):
    return sum(1 + (count_nodes(n.children) if n.is_master() else 0) for n in nodes)


def rand_doc(rng, spec, **kw):
    """a document that starts at a root element; returns nodes (retry until unambiguous & non-empty)"""
    for _ in range(50):
        nodes = rand_forest(rng, spec, **kw)
        if nodes and unambiguous(spec, nodes):
            return nodes
    return rand_forest(rng, spec, unknown_ok=False, **{k: v for k, v in kw.items() if k != "unknown_ok"}) or []


# ------------------------------------------------------------------ scripts

def compositions(n):
    """all ways to split n bytes into consecutive positive chunks"""
    if n == 0:
        yield []
        return
    for first in range(1, n + 1):
        for rest in compositions(n - first):
            yield [first] + rest


def rand_script(rng, n):
    mode = rng.choice(["one", "geo", "16", "big", "mixed"])
    out = []
    left = n
    while left > 0 and len(out) < 400:
        if mode == "one":
            k = 1
        elif mode == "geo":
            k = min(left, 1 + int(rng.expovariate(0.3)))
        elif mode == "16":
            k = rng.choice([15, 16, 17])
        elif mode == "big":
            k = rng.choice([65535, 65536, 65537])
        else:
            k = rng.choice([1, 2, 3, 7, 8, 9, 15, 16, 17, 100, 65536])
        out.append(k)
        left -= k
    return out


def script_str(s):
    return ",".join(str(x) for x in s) if s else "-"


def cfg_str(allow=0, maxs="def", buffered=(), eof=1, cap="def"):
    return "a%d,m%s,b%s,e%d,c%s" % (allow, maxs, "+".join("%x" % b for b in buffered) if buffered else "-", eof, cap)


# ------------------------------------------------------------------ mutation

def mutate(rng, data):
    b = bytearray(data)
    if not b:
        return bytes([rng.getrandbits(8)])
    k = rng.choice(["flip", "flip", "set", "ins", "del", "trunc", "dup", "size"])
    i = rng.randrange(len(b))
    if k == "flip":
        b[i] ^= 1 << rng.randrange(8)
    elif k == "set":
        b[i] = rng.choice([0, 0xFF, 0x80, 0x81, 0x7F, 0x40, 0x01, rng.getrandbits(8)])
    elif k == "ins":
        b[i:i] = bytes(rng.getrandbits(8) for _ in range(rng.randint(1, 4)))
    elif k == "del":
        del b[i:i + rng.randint(1, 3)]
    elif k == "trunc":
        del b[i:]
    elif k == "dup":
        j = min(len(b), i + rng.randint(1, 8))
        b[i:i] = b[i:j]
    else:
        b[i] = rng.choice([0x80, 0x81, 0x88, 0x89, 0xFF, 0x40, 0x10, 0x01, 0x08])
    return bytes(b)


def header_at(data, off):
    """independent header decode: (id, id_len, size or None(unknown), size_len) or None if incomplete/invalid.
    Convention shared with the code: a first byte 0x00 is the one-byte id 0."""
    if off >= len(data):
        return None
    b0 = data[off]
    if b0 == 0:
        idl, tid = 1, 0
    else:
        idl = 8 - (b0.bit_length() - 1)
        if off + idl > len(data):
            return None
        tid = int.from_bytes(data[off:off + idl], "big")
    p = off + idl
    if p >= len(data) or data[p] == 0:
        return None
    sl = 8 - (data[p].bit_length() - 1)
    if p + sl > len(data):
        return None
    sz = int.from_bytes(data[p:p + sl], "big") - (1 << (7 * sl))
    if sz == (1 << (7 * sl)) - 1:
        sz = None
    return (tid, idl, sz, sl)


def decode_value(ty, payload):
    """documented decoding of a payload (C03/C16); returns a tag-value tuple tail or None if invalid"""
    if ty == "U":
        return int.from_bytes(payload, "big") if len(payload) <= 8 else None
    if ty == "I":
        return int.from_bytes(payload, "big", signed=True) if len(payload) <= 8 else None
    if ty == "F":
        if len(payload) == 8:
            return int.from_bytes(payload, "big")
        if len(payload) == 4:
            (f,) = struct.unpack(">f", payload)
            if f != f:
                return 0x7FF8000000000000
            return int.from_bytes(struct.pack(">d", f), "big")
        return None
    if ty == "S":
        try:
            payload.decode("utf-8")
        except UnicodeDecodeError:
            return None
        return payload
    return payload
