(* C01 (reader half), second class of documents: every master has a KNOWN size, and elements / masters may be declared with
   ARBITRARY paths, global placeholders included; the only requirement on a declared path is that it matches the chain of
   masters the element sits in.  With all sizes known, open masters are closed by exhaustion only (count_ended = 0 below a
   known-size master), so no sibling rule is involved and placeholders create no ambiguity.

   The "document position determined" flag.  The reader validates no hierarchy until it has seen the first element whose
   declared path is placeholder-free; at that element it seeds the implied ancestors named by the path BELOW the masters that
   are already open.  For a document read from its root this is harmless iff that first placeholder-free element sits at top
   level (its path is then []): a placeholder-free element met first INSIDE a master declared with a placeholder is rejected
   by the reader (hierarchy error: its parents are seeded a second time), although the document conforms.  Hence the
   hypothesis [dstart]: the top-level trees before the first tree declared with the empty path contain no element with a
   placeholder-free path.  (It holds in particular when the first top-level element is a root element.) *)
From Ebml Require Import Base Tools Spec Reader Pure Writer Encode
  Proofs.Tactics Proofs.BytesProofs Proofs.VintProofs Proofs.SpecProofs Proofs.ReaderIO Proofs.Refine Proofs.PureProofs
  Proofs.RoundTrip.

Arguments vint_len : simpl never.
Arguments read_vint : simpl never.
Arguments id_bytes : simpl never.
Arguments unknown_marker : simpl never.
Arguments venc : simpl never.

(* ------------------------------------------------------------------ headers, position not yet determined *)
(* hier_ok, or: nothing determined yet and the element's path has a placeholder (no validation takes place) *)
Definition hier_ok_g (c : cfg) (st : pst) (id : N) : Prop :=
  hier_ok c st id \/ (b_det st = false /\ all_ids (get_path (c_sp c) id) = false).

Definition same_io (st st' : pst) : Prop :=
  b_bytes st' = b_bytes st /\ b_off st' = b_off st /\ b_stack st' = b_stack st /\ b_queue st' = b_queue st /\
  b_bad st' = b_bad st /\ b_fuel st' = b_fuel st.

(* the flag after the header of [id] has been accepted *)
Definition det_after (c : cfg) (st : pst) (id : N) : bool := b_det st || all_ids (get_path (c_sp c) id).

Lemma p_header_conf_g c st id ty sl size rest :
  strict c -> idok id -> (1 <= sl <= 8)%nat -> size < 2 ^ (7 * N.of_nat sl) -> wf_bytes rest ->
  b_bytes st = id_bytes id ++ venc sl size ++ rest ->
  get_type (c_sp c) id = Some ty -> (is_numeric (Some ty) = true -> size <= 8) ->
  b_bad st = None -> hier_ok_g c st id ->
  p_invalid_tag_size st (N.of_nat (length (id_bytes id) + sl) + match ebml_size size sl with SKnown n => n | SUnknown => 0 end) = false ->
  size_ok c (ebml_size size sl) ->
  exists st', p_header c st = (st', Ok (id, Some ty, ebml_size size sl, (length (id_bytes id) + sl)%nat)) /\ same_io st st' /\
              b_det st' = det_after c st id.
Proof.
  intros Hstrict Hidok Hsl Hsize Hwf Hb Hty Hnum Hbad Hdet Hroom Hmax.
  destruct Hdet as [Hdet|[Hd Hg]].
  - destruct (p_header_conf c st id ty sl size rest Hstrict Hidok Hsl Hsize Hwf Hb Hty Hnum Hbad Hdet Hroom Hmax)
      as [st' [Hh [S1 [S2 [S3 [S4 [S5 [S6 S7]]]]]]]].
    exists st'. split; [exact Hh|]. split; [repeat split; assumption|]. rewrite S7. unfold det_after.
    destruct Hdet as [[Hd _]|[Hd [_ Hp]]]; [rewrite Hd; reflexivity|]. rewrite Hd, Hp. reflexivity.
  - destruct Hstrict as [Hid [Hhier Hover]]. destruct Hidok as [n [v [Hn [Hv Heq]]]].
    assert (Hidb : id_bytes id = enc n v) by (rewrite Heq; apply id_bytes_enc; assumption).
    assert (Hidl : length (id_bytes id) = n) by (rewrite Hidb; apply enc_length).
    rewrite p_header_unfold. rewrite Hidb in Hb.
    rewrite (p_tag_id_enc st n v _ Hn Hv Hb). rewrite <- Heq. unfold p_hdr_tail.
    assert (Hsk : skipn n (b_bytes st) = enc sl size ++ rest).
    { rewrite Hb. rewrite skipn_app, enc_length, Nat.sub_diag. rewrite skipn_all2 by (rewrite enc_length; lia). reflexivity. }
    rewrite Hsk.
    assert (Hrv : read_vint (firstn 8 (enc sl size ++ rest)) = Ok (Some (size, sl))).
    { rewrite firstn_app, enc_length. rewrite firstn_all2 by (rewrite enc_length; lia).
      apply decode_encode; [exact Hsl|exact Hsize|apply wf_firstn, Hwf]. }
    rewrite Hrv. rewrite Hty.
    assert (Hnum' : is_numeric (Some ty) && (8 <? size) = false).
    { destruct (is_numeric (Some ty)) eqn:E; [|reflexivity]. specialize (Hnum eq_refl). destruct (N.ltb_spec 8 size); [lia|reflexivity]. }
    rewrite Hnum'. rewrite Hid. cbn [negb andb].
    unfold p_hier_step. rewrite Hhier. cbn [negb andb].
    rewrite Hidl in *.
    rewrite Hd, Hg. rewrite Hd. cbn [andb]. rewrite Hbad. rewrite Hover. cbn [negb andb]. rewrite Hroom.
    exists st. split.
    + unfold size_ok in Hmax. destruct (c_max c) as [m|]; destruct (ebml_size size sl) as [k|]; try reflexivity.
      destruct (N.ltb_spec m k); [lia|reflexivity].
    + split; [repeat split|]. unfold det_after. rewrite Hd, Hg. reflexivity.
Qed.

(* st' is st with the cursor advanced over [consumed]; nothing said about the flag *)
Definition advanced_g (st st' : pst) (consumed : list N) : Prop :=
  b_bytes st = consumed ++ b_bytes st' /\ b_off st' = b_off st + N.of_nat (length consumed) /\
  b_stack st' = b_stack st /\ b_queue st' = b_queue st /\ b_bad st' = b_bad st /\ b_fuel st' = b_fuel st.

Lemma pconsume_exact_g st st1 a b : same_io st st1 -> b_bytes st = a ++ b ->
  advanced_g st (pconsume st1 (N.of_nat (length a))) a /\ b_bytes (pconsume st1 (N.of_nat (length a))) = b /\
  b_det (pconsume st1 (N.of_nat (length a))) = b_det st1.
Proof.
  intros [H1 [H2 [H3 [H4 [H5 H6]]]]] Hb. unfold pconsume, advanced_g. cbn. rewrite H1, Hb, splitN_exact. cbn [snd].
  repeat split; try assumption; try reflexivity. rewrite H2. reflexivity.
Qed.

Lemma same_io_refl st : same_io st st.
Proof. repeat split. Qed.

(* reading an encoded leaf element *)
Lemma read_leaf_g c st id ty v pl sl rest :
  strict c -> idok id -> (1 <= sl <= 8)%nat -> N.of_nat (length pl) < 2 ^ (7 * N.of_nat sl) - 1 -> wf_bytes pl -> wf_bytes rest ->
  b_bytes st = enc_tree (RLeaf id v pl sl) ++ rest ->
  get_type (c_sp c) id = Some ty -> ty <> DMaster -> decodes (Some ty) pl v ->
  b_bad st = None -> hier_ok_g c st id ->
  p_invalid_tag_size st (N.of_nat (length (id_bytes id) + sl) + N.of_nat (length pl)) = false ->
  size_ok c (SKnown (N.of_nat (length pl))) ->
  exists st', p_read_tag c st = (st', Ok {| p_tag := TElem id v; p_size := SKnown (N.of_nat (length pl)); p_start := b_off st;
                                            p_data := b_off st + N.of_nat (length (id_bytes id) + sl) |}) /\
              advanced_g st st' (enc_tree (RLeaf id v pl sl)) /\ b_bytes st' = rest /\ b_det st' = det_after c st id.
Proof.
  intros Hstrict Hidok Hsl Hsize Hwfp Hwfr Hb Hty Hnm Hdec Hbad Hhier Hroom Hmax.
  cbn [enc_tree] in Hb. rewrite <- !app_assoc in Hb.
  assert (Hsz : N.of_nat (length pl) < 2 ^ (7 * N.of_nat sl)) by lia.
  pose proof (ebml_size_known _ _ Hsize) as Hes.
  assert (Hroom' : p_invalid_tag_size st (N.of_nat (length (id_bytes id) + sl) +
             match ebml_size (N.of_nat (length pl)) sl with SKnown n => n | SUnknown => 0 end) = false) by (rewrite Hes; exact Hroom).
  assert (Hmax' : size_ok c (ebml_size (N.of_nat (length pl)) sl)) by (rewrite Hes; exact Hmax).
  destruct (p_header_conf_g c st id ty sl (N.of_nat (length pl)) (pl ++ rest) Hstrict Hidok Hsl Hsz (wf_app _ _ Hwfp Hwfr) Hb Hty
              (decodes_numeric ty pl v Hdec) Hbad Hhier Hroom' Hmax') as [st1 [Hh [Hsame Hdet1]]].
  rewrite p_read_tag_unfold, Hh. unfold p_tag_tail. rewrite Hes.
  assert (Hhl : length (id_bytes id ++ venc sl (N.of_nat (length pl))) = (length (id_bytes id) + sl)%nat)
    by (rewrite app_length; unfold venc; rewrite be_bytes_length; reflexivity).
  rewrite app_assoc in Hb.
  destruct (pconsume_exact_g st st1 _ _ Hsame Hb) as [Hadv [Hbytes Hdetc]]. rewrite Hhl in Hadv, Hbytes, Hdetc.
  set (stc := pconsume st1 (N.of_nat (length (id_bytes id) + sl))) in *.
  assert (Hoffc : b_off stc = b_off st + N.of_nat (length (id_bytes id) + sl)).
  { destruct Hadv as [_ [Ho _]]. rewrite Ho, Hhl. reflexivity. }
  assert (Hlt : (blen stc <? N.of_nat (length pl)) = false).
  { unfold blen. rewrite Hbytes, app_length. destruct (N.ltb_spec (N.of_nat (length pl + length rest)) (N.of_nat (length pl))); [lia|reflexivity]. }
  assert (Hraw : fst (splitN (N.of_nat (length pl)) (b_bytes stc)) = pl) by (rewrite Hbytes, splitN_exact; reflexivity).
  destruct (pconsume_exact_g stc stc pl rest (same_io_refl stc) Hbytes) as [Hadv2 [Hbytes2 Hdet2]].
  set (st2 := pconsume stc (N.of_nat (length pl))) in *.
  assert (Hfinal : advanced_g st st2 ((id_bytes id ++ venc sl (N.of_nat (length pl))) ++ pl)).
  { destruct Hadv as [A1 [A2 [A3 [A4 [A5 A6]]]]]. destruct Hadv2 as [B1 [B2 [B3 [B4 [B5 B6]]]]].
    unfold advanced_g. split; [rewrite A1 at 1; rewrite B1; apply app_assoc|]. split; [rewrite B2, A2, !app_length; lia|].
    split; [congruence|]. split; [congruence|]. split; [congruence|congruence]. }
  assert (Henc : (id_bytes id ++ venc sl (N.of_nat (length pl))) ++ pl = enc_tree (RLeaf id v pl sl))
    by (cbn [enc_tree]; rewrite <- app_assoc; reflexivity).
  rewrite Henc in Hfinal.
  exists st2. split; [|split; [exact Hfinal|split; [exact Hbytes2|rewrite Hdet2, Hdetc; exact Hdet1]]].
  rewrite Hoffc.
  destruct ty; try contradiction; rewrite Hlt, Hraw; destruct v; cbn [decodes] in Hdec; try contradiction.
  - rewrite Hdec. reflexivity.
  - rewrite Hdec. reflexivity.
  - destruct Hdec as [-> Hu]. rewrite Hu. reflexivity.
  - subst bs. reflexivity.
  - rewrite Hdec. reflexivity.
Qed.

(* reading the header of an encoded master *)
Lemma read_start_g c st id sz cs rest :
  strict c -> idok id -> wf_bytes rest ->
  (forall sl, sz = Some sl -> (1 <= sl <= 8)%nat /\ flen cs < 2 ^ (7 * N.of_nat sl) - 1) ->
  b_bytes st = id_bytes id ++ node_field sz cs ++ rest ->
  get_type (c_sp c) id = Some DMaster ->
  b_bad st = None -> hier_ok_g c st id ->
  p_invalid_tag_size st (N.of_nat (length (id_bytes id) + node_sl sz) + match node_esz sz cs with SKnown n => n | SUnknown => 0 end) = false ->
  size_ok c (node_esz sz cs) ->
  exists st', p_read_tag c st = (st', Ok {| p_tag := TStart id; p_size := node_esz sz cs; p_start := b_off st;
                                            p_data := b_off st + N.of_nat (length (id_bytes id) + node_sl sz) |}) /\
              advanced_g st st' (id_bytes id ++ node_field sz cs) /\ b_bytes st' = rest /\ b_det st' = det_after c st id.
Proof.
  intros Hstrict Hidok Hwfr Hsz Hb Hty Hbad Hhier Hroom Hmax.
  assert (Hx : exists sl size, (1 <= sl <= 8)%nat /\ size < 2 ^ (7 * N.of_nat sl) /\ node_field sz cs = venc sl size /\
                               ebml_size size sl = node_esz sz cs /\ node_sl sz = sl).
  { destruct sz as [sl|].
    - destruct (Hsz sl eq_refl) as [H1 H2]. exists sl, (flen cs). split; [exact H1|]. split; [lia|]. split; [reflexivity|].
      split; [apply ebml_size_known, H2|reflexivity].
    - exists 8%nat, (2 ^ 56 - 1). split; [lia|]. split; [reflexivity|]. split; [reflexivity|]. split; reflexivity. }
  destruct Hx as [sl [size [Hsl [Hsize [Hfield [Hes Hnsl]]]]]]. rewrite Hfield in Hb. rewrite Hnsl in *.
  assert (Hroom' : p_invalid_tag_size st (N.of_nat (length (id_bytes id) + sl) +
             match ebml_size size sl with SKnown n => n | SUnknown => 0 end) = false) by (rewrite Hes; exact Hroom).
  assert (Hmax' : size_ok c (ebml_size size sl)) by (rewrite Hes; exact Hmax).
  assert (Hnum : is_numeric (Some DMaster) = true -> size <= 8) by discriminate.
  destruct (p_header_conf_g c st id DMaster sl size rest Hstrict Hidok Hsl Hsize Hwfr Hb Hty Hnum Hbad Hhier Hroom' Hmax')
    as [st1 [Hh [Hsame Hdet1]]].
  rewrite p_read_tag_unfold, Hh. unfold p_tag_tail. rewrite Hes.
  assert (Hhl : length (id_bytes id ++ venc sl size) = (length (id_bytes id) + sl)%nat)
    by (rewrite app_length; unfold venc; rewrite be_bytes_length; reflexivity).
  rewrite app_assoc in Hb.
  destruct (pconsume_exact_g st st1 _ _ Hsame Hb) as [Hadv [Hbytes Hdetc]]. rewrite Hhl in Hadv, Hbytes, Hdetc.
  set (stc := pconsume st1 (N.of_nat (length (id_bytes id) + sl))) in *.
  assert (Hoffc : b_off stc = b_off st + N.of_nat (length (id_bytes id) + sl)).
  { destruct Hadv as [_ [Ho _]]. rewrite Ho, Hhl. reflexivity. }
  exists stc. rewrite Hoffc, Hfield. split; [reflexivity|]. split; [exact Hadv|split; [exact Hbytes|rewrite Hdetc; exact Hdet1]].
Qed.

(* ------------------------------------------------------------------ the stack of open masters: all of known size *)
(* a pending frame: known size, its bytes end exactly at pos, its End has not been emitted yet *)
Definition exhF (pos : N) (f : frame) : Prop := exists n, f_size f = SKnown n /\ f_data f + n = pos.
(* the open masters below: known size, and the next [e - pos] bytes still fit into each of them *)
Definition kroom (stk : list frame) (e : N) : Prop := Forall (fun f => exists n, f_size f = SKnown n /\ e <= f_data f + n) stk.

Lemma exhF_exhausted pos f : exhF pos f -> frame_exhausted pos f = true.
Proof. intros [n [Hs Hn]]. unfold frame_exhausted. rewrite Hs. apply N.leb_le. lia. Qed.

Lemma exh_all pos : forall T, Forall (exhF pos) T -> exhausted_count pos T = length T.
Proof.
  induction T as [|f tl IH]; intros H; [reflexivity|]. apply Forall_cons_iff in H. destruct H as [Hf Ht].
  cbn [exhausted_count length]. rewrite (IH Ht). rewrite (exhF_exhausted pos f Hf). destruct tl; reflexivity.
Qed.

Lemma kroom_room stk e : kroom stk e -> room stk e.
Proof.
  unfold kroom, room. intros H. rewrite Forall_forall in *. intros f Hin. destruct (H f Hin) as [n [Hs Hn]]. rewrite Hs. exact Hn.
Qed.

Lemma kroom_mono stk e e' : e' <= e -> kroom stk e -> kroom stk e'.
Proof.
  unfold kroom. intros Hle H. rewrite Forall_forall in *. intros f Hin. destruct (H f Hin) as [n [Hs Hn]]. exists n. split; [exact Hs|lia].
Qed.

Lemma kroom_count sp x stk e : kroom stk e -> count_ended sp x (stack_view stk) = O.
Proof.
  intros H. destruct stk as [|f tl]; [reflexivity|]. apply Forall_cons_iff in H. destruct H as [[n [Hs _]] _].
  cbn [stack_view map count_ended]. unfold frame_known. rewrite Hs. reflexivity.
Qed.

Lemma path_nil_stack stk : path_matches [] (ids_of stk) = true -> stk = [].
Proof.
  unfold ids_of. destruct stk as [|f tl]; [reflexivity|]. cbn [map rev path_matches]. destruct (rev (map f_id tl) ++ [f_id f]) eqn:E; [|discriminate].
  apply app_eq_nil in E. destruct E as [_ E]. discriminate.
Qed.

(* ---- what one parse step does to a state whose pending (exhausted) frames T sit above the open chain stk *)
Record kstep (c : cfg) (st : pst) (T stk : list frame) (x : N) (total : N) : Prop := {
  ks_stack : b_stack st = T ++ stk;
  ks_queue : b_queue st = [];
  ks_bad : b_bad st = None;
  ks_fuel : (1 <= b_fuel st)%nat;
  ks_det : b_det st = true \/ all_ids (get_path (c_sp c) x) = false \/ get_path (c_sp c) x = [];
  ks_pend : Forall (exhF (b_off st)) T;
  ks_room : kroom stk (b_off st + total);
  ks_pos : 0 < total;
  ks_path : path_matches (get_path (c_sp c) x) (ids_of stk) = true;
  ks_nobuf : c_buffered c = []
}.

(* exactly the pending frames are popped, all of them by exhaustion; the element itself closes nothing *)
Lemma kpop c st T stk x total : kstep c st T stk x total ->
  exhausted_count (b_off st) (T ++ stk) = length T /\ count_ended (c_sp c) x (stack_view stk) = O.
Proof.
  intros H. destruct H as [Hs Hq Hb Hf Hd Hpend Hroom Hpos Hpath Hnb]. split.
  - pose proof (room_not_exhausted _ _ _ (kroom_room _ _ Hroom) Hpos) as Hne.
    rewrite (exh_app _ T stk (exh_none _ stk Hne)). apply exh_all, Hpend.
  - eapply kroom_count, Hroom.
Qed.

(* the state after the exhausted masters have been popped, ready to read x *)
Lemma kprep c st T stk x total : kstep c st T stk x total ->
  let st_a := ppop_frames st (exhausted_count (b_off st) (b_stack st)) in
  b_bytes st_a = b_bytes st /\ b_off st_a = b_off st /\ b_bad st_a = None /\ b_det st_a = b_det st /\ b_fuel st_a = b_fuel st /\
  b_queue st_a = map end_item T /\ b_stack st_a = stk /\
  hier_ok_g c st_a x /\ (forall sz, sz <= total -> p_invalid_tag_size st_a sz = false).
Proof.
  intros H. destruct (kpop c st T stk x total H) as [Hk1 Hk2].
  destruct H as [Hs Hq Hb Hf Hd Hpend Hroom Hpos Hpath Hnb]. cbn zeta. rewrite Hs, Hk1.
  unfold ppop_frames, ppush_q, pset_queue, pset_stack. cbn [b_bytes b_off b_bad b_det b_fuel b_queue b_stack]. rewrite Hs, Hq. cbn [app].
  rewrite (firstn_app_le T stk _ (le_n _)), firstn_all, (skipn_app_le T stk _ (le_n _)), skipn_all. cbn [app].
  split; [reflexivity|]. split; [reflexivity|]. split; [exact Hb|]. split; [reflexivity|]. split; [reflexivity|]. split; [reflexivity|].
  split; [reflexivity|]. split.
  - unfold hier_ok_g, hier_ok. cbn [b_det b_stack].
    assert (Hval : validate_tag_path (c_sp c) x (stack_view stk) = true).
    { unfold validate_tag_path. rewrite Hk2. cbn [skipn]. rewrite stack_view_ids. exact Hpath. }
    destruct (b_det st) eqn:Ed.
    + left. left. split; [reflexivity|exact Hval].
    + destruct Hd as [Hd|[Hd|Hd]]; [discriminate|right; split; [reflexivity|exact Hd]|].
      left. right. split; [reflexivity|]. split; [|exact Hd]. rewrite Hd in Hpath. apply path_nil_stack, Hpath.
  - intros sz Hsz. unfold p_invalid_tag_size. cbn [b_stack b_off].
    apply Bool.not_true_is_false. intros Hex. apply existsb_exists in Hex. destruct Hex as [f [Hin Hf']].
    unfold kroom in Hroom. rewrite Forall_forall in Hroom. destruct (Hroom f Hin) as [n [Hsn Hn]]. rewrite Hsn in Hf'.
    apply N.ltb_lt in Hf'. lia.
Qed.

(* one refill of the queue: the pending masters end, then the element that was read *)
Lemma kfinish c st T stk x total p st_b consumed :
  kstep c st T stk x total ->
  p_read_tag c (ppop_frames st (exhausted_count (b_off st) (b_stack st))) = (st_b, Ok p) ->
  advanced_g (ppop_frames st (exhausted_count (b_off st) (b_stack st))) st_b consumed -> consumed <> [] ->
  tag_id (p_tag p) = x -> p_start p = b_off st ->
  let st' := p_read_next (b_fuel st) c st in
  b_bytes st' = b_bytes st_b /\ b_off st' = b_off st_b /\ b_stack st' = new_frame p ++ stk /\
  b_queue st' = map end_item T ++ [QOk (p_tag p) (b_off st)] /\ b_bad st' = None /\ b_fuel st' = b_fuel st /\ b_det st' = b_det st_b.
Proof.
  intros H Hread Hadv Hne Hx Hstart.
  pose proof (kprep c st T stk x total H) as Hprep. cbn zeta in Hprep.
  destruct (kpop c st T stk x total H) as [Hk1 Hk2].
  destruct H as [Hs Hq Hb Hf Hd Hpend Hroom Hpos Hpath Hnb].
  set (st_a := ppop_frames st (exhausted_count (b_off st) (b_stack st))) in *.
  destruct Hprep as [Ha1 [Ha2 [Ha3 [Ha4 [Ha5 [Ha6 [Ha7 _]]]]]]].
  destruct Hadv as [Hb1 [Hb2 [Hb3 [Hb4 [Hb5 Hb6]]]]].
  cbn zeta. destruct (b_fuel st) as [|f] eqn:Ef; [lia|].
  rewrite p_read_next_unfold. cbn zeta. fold st_a.
  unfold p_read_tag_checked. rewrite Hb1. destruct consumed as [|c0 consumed]; [contradiction|]. cbn [app].
  rewrite <- (app_comm_cons consumed (b_bytes st_b) c0) in Hb1.
  rewrite Hread. rewrite Hx. rewrite Hb3, Ha7, Hk2.
  assert (Hq3 : b_queue (ppop_frames st_b O) = map end_item T).
  { unfold ppop_frames, ppush_q, pset_queue, pset_stack. cbn [b_queue b_stack firstn map]. rewrite app_nil_r, Hb4. exact Ha6. }
  assert (Hs3 : b_stack (ppop_frames st_b O) = stk).
  { unfold ppop_frames, ppush_q, pset_queue, pset_stack. cbn [b_queue b_stack skipn]. rewrite Hb3. exact Ha7. }
  assert (Ho3 : forall st0 k, b_bytes (ppop_frames st0 k) = b_bytes st0 /\ b_off (ppop_frames st0 k) = b_off st0 /\
                               b_bad (ppop_frames st0 k) = b_bad st0 /\ b_fuel (ppop_frames st0 k) = b_fuel st0 /\ b_det (ppop_frames st0 k) = b_det st0).
  { intros; repeat split. }
  destruct (Ho3 st_b O) as [Hc1 [Hc2 [Hc3 [Hc4 Hc5]]]].
  unfold new_frame. rewrite Hx.
  destruct (p_tag p) eqn:Et.
  - unfold ppush_q, pset_queue. cbn [b_bytes b_off b_stack b_queue b_bad b_fuel b_det]. rewrite Hq3, Hs3, Hc1, Hc2, Hc3, Hc4, Hc5, Hstart.
    repeat split; try assumption; try congruence.
  - rewrite Hnb. change (mem_id x []) with false. cbn iota. unfold ppush_q, pset_queue, pset_stack. cbn [b_bytes b_off b_stack b_queue b_bad b_fuel b_det].
    rewrite Hq3, Hs3, Hc1, Hc2, Hc3, Hc4, Hc5, Hstart. repeat split; try assumption; try congruence.
  - unfold ppush_q, pset_queue. cbn [b_bytes b_off b_stack b_queue b_bad b_fuel b_det]. rewrite Hq3, Hs3, Hc1, Hc2, Hc3, Hc4, Hc5, Hstart.
    repeat split; try assumption; try congruence.
  - unfold ppush_q, pset_queue. cbn [b_bytes b_off b_stack b_queue b_bad b_fuel b_det]. rewrite Hq3, Hs3, Hc1, Hc2, Hc3, Hc4, Hc5, Hstart.
    repeat split; try assumption; try congruence.
Qed.

(* ... and the run: the Ends of the pending masters, the element, then whatever follows from the new state *)
Lemma kstep_run c st T stk x total p st_b consumed :
  kstep c st T stk x total ->
  p_read_tag c (ppop_frames st (exhausted_count (b_off st) (b_stack st))) = (st_b, Ok p) ->
  advanced_g (ppop_frames st (exhausted_count (b_off st) (b_stack st))) st_b consumed -> consumed <> [] ->
  tag_id (p_tag p) = x -> p_start p = b_off st ->
  exists st', at_ st' (b_bytes st_b) (b_off st_b) (new_frame p ++ stk) (b_fuel st) /\ b_det st' = b_det st_b /\
    forall n, p_run_all (length T + 1 + n) c st = rcat (map end_out T ++ [OItem (p_tag p) (b_off st)]) (p_run_all n c st').
Proof.
  intros H Hread Hadv Hne Hx Hstart.
  pose proof (kfinish c st T stk x total p st_b consumed H Hread Hadv Hne Hx Hstart) as Hfin. cbn zeta in Hfin.
  destruct Hfin as [F1 [F2 [F3 [F4 [F5 [F6 F7]]]]]].
  set (st1 := p_read_next (b_fuel st) c st) in *.
  set (q := map end_pair T ++ [(p_tag p, b_off st)]).
  assert (Hq : b_queue st1 = q_ok q).
  { rewrite F4. unfold q, q_ok. rewrite map_app, map_map. reflexivity. }
  destruct (drain c q st1 Hq F5) as [st0 [[S1 [S2 [S3 [S4 [S5 S6]]]]] [Hq0 Hrun]]].
  exists st0. split.
  - unfold at_. rewrite S1, S2, S3, S5, S6, F1, F2, F3, F5, F6. repeat split. exact Hq0.
  - split; [rewrite S4; exact F7|]. intros n.
    assert (Hlen : (length T + 1 + n = S (length T + n))%nat) by lia. rewrite Hlen.
    rewrite (run_refill c st (length T + n)).
    + fold st1. specialize (Hrun n).
      assert (Hl2 : (length q + n = S (length T + n))%nat) by (unfold q; rewrite app_length, map_length; cbn; lia).
      rewrite Hl2 in Hrun. rewrite Hrun. unfold q, o_ok. rewrite map_app, map_map. cbn [map fst snd app]. reflexivity.
    + apply (ks_queue _ _ _ _ _ _ H).
    + fold st1. rewrite F4. destruct (map end_item T); discriminate.
    + exact F6.
Qed.

(* ------------------------------------------------------------------ known-size trees that conform to a specification *)
Definition rid (t : rtree) : N := match t with RLeaf id _ _ _ => id | RNode id _ _ => id end.

(* [kconf c ids t]: every master of t has a known size; every element of t is declared by the specification with a path —
   placeholders allowed — that MATCHES the chain of masters it sits in; payloads decode, sizes fit their fields *)
Fixpoint kconf (c : cfg) (ids : list N) (t : rtree) : Prop :=
  match t with
  | RLeaf id v pl sl =>
      idok id /\ (1 <= sl <= 8)%nat /\ N.of_nat (length pl) < 2 ^ (7 * N.of_nat sl) - 1 /\ wf_bytes pl /\
      (exists ty, get_type (c_sp c) id = Some ty /\ ty <> DMaster /\ decodes (Some ty) pl v) /\
      path_matches (get_path (c_sp c) id) ids = true /\ size_ok c (SKnown (N.of_nat (length pl)))
  | RNode id sz cs =>
      idok id /\ (exists sl, sz = Some sl /\ (1 <= sl <= 8)%nat /\ flen cs < 2 ^ (7 * N.of_nat sl) - 1) /\
      get_type (c_sp c) id = Some DMaster /\ path_matches (get_path (c_sp c) id) ids = true /\ size_ok c (node_esz sz cs) /\
      (fix all (l : list rtree) : Prop := match l with [] => True | x :: l' => kconf c (ids ++ [id]) x /\ all l' end) cs
  end.

Lemma kconf_node c ids id sz cs : kconf c ids (RNode id sz cs) <->
  idok id /\ (exists sl, sz = Some sl /\ (1 <= sl <= 8)%nat /\ flen cs < 2 ^ (7 * N.of_nat sl) - 1) /\
  get_type (c_sp c) id = Some DMaster /\ path_matches (get_path (c_sp c) id) ids = true /\ size_ok c (node_esz sz cs) /\
  Forall (kconf c (ids ++ [id])) cs.
Proof.
  cbn [kconf].
  assert (H : (fix all (l : list rtree) : Prop := match l with [] => True | x :: l' => kconf c (ids ++ [id]) x /\ all l' end) cs
              <-> Forall (kconf c (ids ++ [id])) cs).
  { induction cs as [|x l IH]; [split; [constructor|trivial]|]. split.
    - intros [Hx Hl]. constructor; [exact Hx|apply IH, Hl].
    - intros HF. apply Forall_cons_iff in HF. destruct HF as [Hx Hl]. split; [exact Hx|apply IH, Hl]. }
  tauto.
Qed.

(* a tree none of whose elements has a placeholder-free path: reading it leaves the position undetermined *)
Fixpoint globb (c : cfg) (t : rtree) : bool :=
  match t with
  | RLeaf id _ _ _ => negb (all_ids (get_path (c_sp c) id))
  | RNode id _ cs => negb (all_ids (get_path (c_sp c) id)) && forallb (globb c) cs
  end.

(* the first element of the document with a placeholder-free path is a top-level element (declared with the empty path) *)
Fixpoint dstart (c : cfg) (l : list rtree) : Prop :=
  match l with
  | [] => True
  | t :: l' => get_path (c_sp c) (rid t) = [] \/ (globb c t = true /\ dstart c l')
  end.

Lemma globb_rid c t : globb c t = true -> all_ids (get_path (c_sp c) (rid t)) = false.
Proof.
  destruct t as [id v pl sl|id sz cs]; cbn [globb rid]; intros H.
  - apply Bool.negb_true_iff, H.
  - apply Bool.andb_true_iff in H. apply Bool.negb_true_iff, H.
Qed.

Lemma root_not_globb c t : get_path (c_sp c) (rid t) = [] -> globb c t = false.
Proof. intros H. destruct (globb c t) eqn:E; [|reflexivity]. apply globb_rid in E. rewrite H in E. discriminate. Qed.

Lemma globb_dstart c : forall l, forallb (globb c) l = true -> dstart c l.
Proof.
  induction l as [|x l IH]; intros H; [exact I|]. cbn [forallb] in H. apply Bool.andb_true_iff in H. destruct H as [Hx Hl].
  cbn [dstart]. right. split; [exact Hx|apply IH, Hl].
Qed.

Lemma kconf_wf c : forall t ids, kconf c ids t -> wf_bytes (enc_tree t) /\ 2 <= tlen t.
Proof.
  induction t as [id v pl sl|id sz cs IH] using rtree_ind'; intros ids H.
  - destruct H as [Hid [Hsl [_ [Hwf _]]]]. destruct (idok_len id Hid) as [Hl Hw]. split.
    + cbn [enc_tree]. apply wf_app; [exact Hw|]. apply wf_app; [apply venc_wf|exact Hwf].
    + rewrite tlen_leaf. cbn [hdr_len]. lia.
  - apply kconf_node in H. destruct H as [Hid [[sl [-> [Hsl Hfl]]] [_ [_ [_ Hcs]]]]]. destruct (idok_len id Hid) as [Hl Hw]. split.
    + rewrite enc_tree_node. apply wf_app; [exact Hw|]. apply wf_app; [apply venc_wf|].
      clear Hfl. induction cs as [|x l IHl]; [constructor|]. cbn [enc_forest].
      apply Forall_cons_iff in IH. destruct IH as [Hx Hl']. apply Forall_cons_iff in Hcs. destruct Hcs as [Hcx Hcl].
      apply wf_app; [apply (Hx _ Hcx)|apply IHl; assumption].
    + rewrite tlen_node, hdr_len_node. cbn [node_sl]. lia.
Qed.

Lemma kconf_wf_forest c ids : forall l, Forall (kconf c ids) l -> wf_bytes (enc_forest l).
Proof.
  induction l as [|x l IH]; intros H; [constructor|]. apply Forall_cons_iff in H. destruct H as [Hx Hl]. cbn [enc_forest].
  apply wf_app; [apply (kconf_wf c x ids Hx)|apply IH, Hl].
Qed.

(* the frames left pending by a known-size tree all end exactly where the tree ends *)
Lemma kspine c : forall t ids off, kconf c ids t -> Forall (exhF (off + tlen t)) (spine_tree off t).
Proof.
  induction t as [id v pl sl|id sz cs IH] using rtree_ind'; intros ids off Hc; [constructor|].
  apply kconf_node in Hc. destruct Hc as [_ [[sl [-> _]] [_ [_ [_ Hcs]]]]].
  rewrite spine_tree_node. apply Forall_app. split.
  - rewrite tlen_node. set (o1 := off + N.of_nat (hdr_len (RNode id (Some sl) cs))).
    replace (off + (N.of_nat (hdr_len (RNode id (Some sl) cs)) + flen cs)) with (o1 + flen cs) by (unfold o1; lia).
    clearbody o1. revert o1. induction cs as [|x l IHl]; intros o1; [constructor|].
    apply Forall_cons_iff in IH. destruct IH as [Hx Hl]. apply Forall_cons_iff in Hcs. destruct Hcs as [Hcx Hcl].
    destruct l as [|y l'].
    + cbn [spine_forest]. rewrite flen_cons, flen_nil, N.add_0_r. apply (Hx _ o1 Hcx).
    + rewrite spine_forest_cons by discriminate. rewrite flen_cons.
      replace (o1 + (tlen x + flen (y :: l'))) with ((o1 + tlen x) + flen (y :: l')) by lia. apply IHl; assumption.
  - cbn [frame_of]. constructor; [|constructor]. unfold exhF. cbn [f_size f_data].
    exists (flen cs). split; [reflexivity|]. rewrite tlen_node. lia.
Qed.

(* ------------------------------------------------------------------ parsing an encoded tree / forest *)
Record kpre (st : pst) (T stk : list frame) (ids : list N) (total : N) : Prop := {
  kp_stack : b_stack st = T ++ stk;
  kp_queue : b_queue st = [];
  kp_bad : b_bad st = None;
  kp_fuel : (1 <= b_fuel st)%nat;
  kp_pend : Forall (exhF (b_off st)) T;
  kp_ids : ids_of stk = ids;
  kp_room : kroom stk (b_off st + total)
}.

Lemma kpre_step c st T stk ids total x : kpre st T stk ids total -> 0 < total ->
  (b_det st = true \/ all_ids (get_path (c_sp c) x) = false \/ get_path (c_sp c) x = []) ->
  path_matches (get_path (c_sp c) x) ids = true -> c_buffered c = [] -> kstep c st T stk x total.
Proof. intros [] ? ? ? ?. subst ids. constructor; assumption. Qed.

Lemma kpre_weaken st T stk ids total total' : total' <= total -> kpre st T stk ids total -> kpre st T stk ids total'.
Proof. intros Hle []. constructor; try assumption. eapply kroom_mono; [|eassumption]. lia. Qed.

Definition KPtree (c : cfg) (t : rtree) : Prop :=
  forall ids, kconf c ids t -> forall st T stk rest,
  kpre st T stk ids (tlen t) -> (b_det st = true \/ globb c t = true \/ get_path (c_sp c) (rid t) = []) ->
  b_bytes st = enc_tree t ++ rest -> wf_bytes rest ->
  exists st', at_ st' rest (b_off st + tlen t) (spine_tree (b_off st) t ++ stk) (b_fuel st) /\
    b_det st' = b_det st || negb (globb c t) /\
    forall n, p_run_all (length (map end_out T ++ items_open_tree (b_off st) t) + n) c st =
              rcat (map end_out T ++ items_open_tree (b_off st) t) (p_run_all n c st').

Lemma kparse_forest c : forall l, Forall (KPtree c) l -> forall ids, Forall (kconf c ids) l -> forall st T stk rest,
  kpre st T stk ids (flen l) -> (b_det st = true \/ dstart c l) -> b_bytes st = enc_forest l ++ rest -> wf_bytes rest ->
  exists st', at_ st' rest (b_off st + flen l) (pend_after (b_off st) l T ++ stk) (b_fuel st) /\
    b_det st' = b_det st || negb (forallb (globb c) l) /\
    forall n, p_run_all (length (outs_forest (b_off st) l T) + n) c st = rcat (outs_forest (b_off st) l T) (p_run_all n c st').
Proof.
  induction l as [|x l IH]; intros HP ids Hconf st T stk rest Hpre Hds Hb Hwf.
  - exists st. split; [|split; [cbn [forallb negb]; rewrite Bool.orb_false_r; reflexivity|intros n; symmetry; apply rcat_nil]].
    destruct Hpre. unfold at_. rewrite flen_nil, N.add_0_r. cbn [enc_forest app] in Hb. cbn [pend_after]. repeat split; assumption.
  - apply Forall_cons_iff in HP. destruct HP as [HPx HPl]. apply Forall_cons_iff in Hconf. destruct Hconf as [Hcx Hcl].
    cbn [enc_forest] in Hb. rewrite <- app_assoc in Hb.
    assert (Hwf1 : wf_bytes (enc_forest l ++ rest)) by (apply wf_app; [apply (kconf_wf_forest c ids l Hcl)|exact Hwf]).
    assert (Hpre1 : kpre st T stk ids (tlen x)) by (apply (kpre_weaken st T stk ids (flen (x :: l))); [rewrite flen_cons; lia|exact Hpre]).
    assert (Hdx : b_det st = true \/ globb c x = true \/ get_path (c_sp c) (rid x) = []).
    { destruct Hds as [Hd|Hd]; [left; exact Hd|]. cbn [dstart] in Hd. destruct Hd as [Hd|[Hd _]]; [right; right; exact Hd|right; left; exact Hd]. }
    destruct (HPx ids Hcx st T stk (enc_forest l ++ rest) Hpre1 Hdx Hb Hwf1) as [st1 [Hat1 [Hdet1 Hrun1]]].
    destruct Hat1 as [A1 [A2 [A3 [A4 [A5 A6]]]]].
    assert (Hpre2 : kpre st1 (spine_tree (b_off st) x) stk ids (flen l)).
    { destruct Hpre as [Hs Hq Hbad Hf Hpend Hids Hroom]. constructor.
      - exact A3.
      - exact A4.
      - exact A5.
      - rewrite A6. exact Hf.
      - rewrite A2. apply (kspine c x ids), Hcx.
      - exact Hids.
      - rewrite A2. rewrite flen_cons in Hroom. rewrite <- N.add_assoc. exact Hroom. }
    assert (Hds2 : b_det st1 = true \/ dstart c l).
    { rewrite Hdet1. destruct Hds as [Hd|Hd]; [left; rewrite Hd; reflexivity|]. cbn [dstart] in Hd. destruct Hd as [Hd|[_ Hd]]; [|right; exact Hd].
      left. rewrite (root_not_globb c x Hd). apply Bool.orb_true_r. }
    destruct (IH HPl ids Hcl st1 (spine_tree (b_off st) x) stk rest Hpre2 Hds2 A1 Hwf) as [st2 [Hat2 [Hd2 Hrun2]]].
    exists st2. rewrite A2, A6 in Hat2. rewrite A2 in Hrun2. split; [|split].
    + rewrite flen_cons, N.add_assoc. destruct l as [|y l']; exact Hat2.
    + rewrite Hd2, Hdet1. cbn [forallb]. destruct (b_det st), (globb c x), (forallb (globb c) l); reflexivity.
    + intros n.
      assert (Ho : outs_forest (b_off st) (x :: l) T =
                   (map end_out T ++ items_open_tree (b_off st) x) ++ outs_forest (b_off st + tlen x) l (spine_tree (b_off st) x)).
      { destruct l as [|y l']; [cbn [outs_forest items_open_forest]; rewrite app_nil_r; reflexivity|].
        unfold outs_forest. rewrite items_open_forest_cons by discriminate. rewrite <- !app_assoc. reflexivity. }
      rewrite Ho, app_length, <- Nat.add_assoc, Hrun1, Hrun2. apply rcat_rcat.
Qed.

Lemma globb_node c id sz cs : globb c (RNode id sz cs) = negb (all_ids (get_path (c_sp c) id)) && forallb (globb c) cs.
Proof. reflexivity. Qed.

Lemma kparse_tree c : strict c -> c_buffered c = [] -> forall t, KPtree c t.
Proof.
  intros Hstrict Hnb. induction t as [id v pl sl|id sz cs IH] using rtree_ind'; unfold KPtree; intros ids Hconf st T stk rest Hpre Hdx Hb Hwf.
  - (* a leaf *)
    destruct Hconf as [Hid [Hsl [Hlen [Hwfp [[ty [Hty [Hnm Hdec]]] [Hpath Hmax]]]]]].
    assert (Hpos : 0 < tlen (RLeaf id v pl sl)).
    { rewrite tlen_leaf. cbn [hdr_len]. lia. }
    assert (Hdx' : b_det st = true \/ all_ids (get_path (c_sp c) id) = false \/ get_path (c_sp c) id = []).
    { destruct Hdx as [Hd|[Hd|Hd]]; [left; exact Hd|right; left; apply (globb_rid c _ Hd)|right; right; exact Hd]. }
    pose proof (kpre_step c st T stk ids _ id Hpre Hpos Hdx' Hpath Hnb) as Hstep.
    pose proof (kprep c st T stk id _ Hstep) as Hprep. cbn zeta in Hprep.
    destruct Hprep as [P1 [P2 [P3 [P4 [P5 [P6 [P7 [Phier Proom]]]]]]]].
    set (st_a := ppop_frames st (exhausted_count (b_off st) (b_stack st))) in *.
    assert (Hba : b_bytes st_a = enc_tree (RLeaf id v pl sl) ++ rest) by (rewrite P1; exact Hb).
    assert (Hroom : p_invalid_tag_size st_a (N.of_nat (length (id_bytes id) + sl) + N.of_nat (length pl)) = false).
    { apply Proom. rewrite tlen_leaf. cbn [hdr_len]. lia. }
    destruct (read_leaf_g c st_a id ty v pl sl rest Hstrict Hid Hsl Hlen Hwfp Hwf Hba Hty Hnm Hdec P3 Phier Hroom Hmax)
      as [st_b [Hread [Hadv [Hrest Hdetb]]]].
    assert (Hne : enc_tree (RLeaf id v pl sl) <> []).
    { intros E. apply (f_equal (@length N)) in E. fold (tlen (RLeaf id v pl sl)) in Hpos. unfold tlen in Hpos. rewrite E in Hpos. cbn in Hpos. lia. }
    rewrite P2 in Hread.
    destruct (kstep_run c st T stk id _ _ st_b _ Hstep Hread Hadv Hne eq_refl eq_refl) as [st' [Hat [Hdet Hrun]]].
    exists st'. split; [|split].
    + destruct Hadv as [_ [Ho _]]. rewrite Hrest, Ho, P2 in Hat. unfold new_frame in Hat. cbn [p_tag app] in Hat. cbn [spine_tree app].
      unfold tlen. exact Hat.
    + rewrite Hdet, Hdetb. unfold det_after. rewrite P4. cbn [globb]. rewrite Bool.negb_involutive. reflexivity.
    + intros n. cbn [items_open_tree]. rewrite app_length, map_length. cbn [length]. cbn [p_tag] in Hrun.
      rewrite Hrun. reflexivity.
  - (* a master: its header, then its children *)
    apply kconf_node in Hconf. destruct Hconf as [Hid [[sl [Esz [Hsl Hfl]]] [Hty [Hpath [Hmax Hcs]]]]]. subst sz.
    assert (Hsz : forall sl0, Some sl = Some sl0 -> (1 <= sl0 <= 8)%nat /\ flen cs < 2 ^ (7 * N.of_nat sl0) - 1).
    { intros sl0 E. injection E as <-. split; assumption. }
    set (t := RNode id (Some sl) cs) in *.
    assert (Hpos : 0 < tlen t).
    { unfold t. rewrite tlen_node, hdr_len_node. destruct (idok_len id Hid). lia. }
    assert (Hdx' : b_det st = true \/ all_ids (get_path (c_sp c) id) = false \/ get_path (c_sp c) id = []).
    { destruct Hdx as [Hd|[Hd|Hd]]; [left; exact Hd|right; left; apply (globb_rid c _ Hd)|right; right; exact Hd]. }
    pose proof (kpre_step c st T stk ids _ id Hpre Hpos Hdx' Hpath Hnb) as Hstep.
    pose proof (kprep c st T stk id _ Hstep) as Hprep. cbn zeta in Hprep.
    destruct Hprep as [P1 [P2 [P3 [P4 [P5 [P6 [P7 [Phier Proom]]]]]]]].
    set (st_a := ppop_frames st (exhausted_count (b_off st) (b_stack st))) in *.
    assert (Hwf1 : wf_bytes (enc_forest cs ++ rest)) by (apply wf_app; [apply (kconf_wf_forest c _ cs Hcs)|exact Hwf]).
    assert (Hba : b_bytes st_a = id_bytes id ++ node_field (Some sl) cs ++ enc_forest cs ++ rest).
    { rewrite P1, Hb. unfold t. rewrite enc_tree_node. fold (node_field (Some sl) cs). rewrite <- !app_assoc. reflexivity. }
    assert (Hroom : p_invalid_tag_size st_a (N.of_nat (length (id_bytes id) + node_sl (Some sl)) +
                       match node_esz (Some sl) cs with SKnown n => n | SUnknown => 0 end) = false).
    { apply Proom. unfold t. rewrite tlen_node, hdr_len_node. cbn [node_esz]. lia. }
    destruct (read_start_g c st_a id (Some sl) cs (enc_forest cs ++ rest) Hstrict Hid Hwf1 Hsz Hba Hty P3 Phier Hroom Hmax)
      as [st_b [Hread [Hadv [Hrest Hdetb]]]].
    assert (Hne : id_bytes id ++ node_field (Some sl) cs <> []).
    { destruct (idok_len id Hid) as [Hl _]. destruct (id_bytes id); [cbn in Hl; lia|discriminate]. }
    rewrite P2 in Hread.
    destruct (kstep_run c st T stk id _ _ st_b _ Hstep Hread Hadv Hne eq_refl eq_refl) as [st1 [Hat1 [Hdet1 Hrun1]]].
    destruct Hadv as [_ [Ho _]]. rewrite Hrest, Ho, P2 in Hat1. unfold new_frame in Hat1. cbn [p_tag p_size p_start p_data tag_id app] in Hat1.
    rewrite app_length, node_field_length in Ho, Hat1. rewrite <- hdr_len_node with (cs := cs) in Hat1. fold t in Hat1.
    set (fr := {| f_id := id; f_size := node_esz (Some sl) cs; f_start := b_off st; f_data := b_off st + N.of_nat (hdr_len t) |}) in *.
    destruct Hat1 as [A1 [A2 [A3 [A4 [A5 A6]]]]].
    assert (Hd1 : b_det st1 = b_det st || all_ids (get_path (c_sp c) id)).
    { rewrite Hdet1, Hdetb. unfold det_after. rewrite P4. reflexivity. }
    assert (Hpre1 : kpre st1 [] (fr :: stk) (ids ++ [id]) (flen cs)).
    { destruct Hpre as [Hs Hq Hbad Hf Hpend Hids Hroom0]. constructor.
      - exact A3.
      - exact A4.
      - exact A5.
      - rewrite A6. exact Hf.
      - constructor.
      - unfold ids_of in *. cbn [map rev]. rewrite Hids. reflexivity.
      - rewrite A2. unfold kroom. constructor.
        + unfold fr. cbn [f_size f_data node_esz]. exists (flen cs). split; [reflexivity|lia].
        + eapply kroom_mono; [|exact Hroom0]. unfold t. rewrite tlen_node. fold t. lia. }
    assert (Hds1 : b_det st1 = true \/ dstart c cs).
    { rewrite Hd1. destruct Hdx as [Hd|[Hd|Hd]].
      - left. rewrite Hd. reflexivity.
      - right. unfold t in Hd. rewrite globb_node in Hd. apply Bool.andb_true_iff in Hd. apply globb_dstart, Hd.
      - left. cbn [rid t] in Hd. rewrite Hd. apply Bool.orb_true_r. }
    destruct (kparse_forest c cs IH (ids ++ [id]) Hcs st1 [] (fr :: stk) rest Hpre1 Hds1 A1 Hwf) as [st2 [Hat2 [Hd2 Hrun2]]].
    exists st2. rewrite A2, A6, pend_after_nil in Hat2. rewrite A2, outs_forest_nil in Hrun2. split; [|split].
    + unfold t at 1 2. rewrite tlen_node, spine_tree_node. fold t. rewrite N.add_assoc, <- app_assoc. exact Hat2.
    + rewrite Hd2, Hd1. unfold t. rewrite globb_node.
      destruct (b_det st), (all_ids (get_path (c_sp c) id)), (forallb (globb c) cs); reflexivity.
    + intros n.
      assert (Hio : items_open_tree (b_off st) t = OItem (TStart id) (b_off st) :: items_open_forest (b_off st + N.of_nat (hdr_len t)) cs) by reflexivity.
      rewrite Hio.
      rewrite app_length, map_length. cbn [length]. cbn [p_tag] in Hrun1.
      replace (length T + S (length (items_open_forest (b_off st + N.of_nat (hdr_len t)) cs)) + n)%nat
        with (length T + 1 + (length (items_open_forest (b_off st + N.of_nat (hdr_len t)) cs) + n))%nat by lia.
      rewrite Hrun1, Hrun2, rcat_rcat. f_equal. rewrite <- app_assoc. reflexivity.
Qed.

(* ------------------------------------------------------------------ the whole document *)
Lemma kitems_le_bytes c : forall t ids off, kconf c ids t -> (length (items_tree off t) <= length (enc_tree t))%nat.
Proof.
  induction t as [id v pl sl|id sz cs IH] using rtree_ind'; intros ids off H.
  - pose proof (kconf_wf c _ ids H) as [_ Hl]. unfold tlen in Hl. cbn [items_tree length]. lia.
  - apply kconf_node in H. destruct H as [Hid [[sl [-> [Hsl _]]] [_ [_ [_ Hcs]]]]].
    rewrite items_tree_node, enc_tree_node. fold (node_field (Some sl) cs). cbn [length]. rewrite !app_length, node_field_length. cbn [length node_sl].
    destruct (idok_len id Hid) as [Hl _].
    assert (Hf : forall o, (length (items_forest o cs) <= length (enc_forest cs))%nat).
    { induction cs as [|x l IHl]; intros o; [cbn; lia|]. apply Forall_cons_iff in IH. destruct IH as [Hx Hl'].
      apply Forall_cons_iff in Hcs. destruct Hcs as [Hcx Hcl]. cbn [items_forest enc_forest]. rewrite !app_length.
      specialize (Hx _ o Hcx). specialize (IHl Hl' Hcl (o + tlen x)). lia. }
    specialize (Hf (off + N.of_nat (hdr_len (RNode id (Some sl) cs)))). lia.
Qed.

Lemma kitems_le_bytes_forest c ids : forall l off, Forall (kconf c ids) l -> (length (items_forest off l) <= length (enc_forest l))%nat.
Proof.
  induction l as [|x l IH]; intros off H; [cbn; lia|]. apply Forall_cons_iff in H. destruct H as [Hx Hl]. cbn [items_forest enc_forest].
  rewrite !app_length. pose proof (kitems_le_bytes c x ids off Hx). specialize (IH (off + tlen x) Hl). lia.
Qed.

(* C01, reader half, documents with known sizes only: the reader yields exactly the items of every conforming encoded
   document, whatever placeholders the declared paths contain and wherever the global elements occur *)
Theorem reader_roundtrip_known c f : strict c -> c_buffered c = [] -> c_emit_eof c = true -> Forall (kconf c []) f -> dstart c f ->
  p_run c (enc_forest f) [RAll] = items_forest 0 f ++ [ONone].
Proof.
  intros Hstrict Hnb He Hconf Hds. unfold p_run. rewrite run_ops_all.
  set (input := enc_forest f). set (st0 := p_init input).
  assert (Hpre : kpre st0 [] [] [] (flen f)).
  { constructor; try reflexivity.
    - unfold st0, p_init, default_fuel. cbn [b_fuel]. lia.
    - constructor.
    - constructor. }
  assert (HP : Forall (KPtree c) f) by (apply Forall_forall; intros t _; apply kparse_tree; assumption).
  assert (Hb0 : b_bytes st0 = enc_forest f ++ []) by (rewrite app_nil_r; reflexivity).
  destruct (kparse_forest c f HP [] Hconf st0 [] [] [] Hpre (or_intror Hds) Hb0 (Forall_nil _)) as [st1 [Hat [_ Hrun]]].
  destruct Hat as [A1 [A2 [A3 [A4 [A5 A6]]]]]. rewrite pend_after_nil, app_nil_r in A3. rewrite outs_forest_nil in Hrun.
  change (b_off st0) with 0 in *.
  assert (Hf1 : (1 <= b_fuel st1)%nat) by (rewrite A6; unfold st0, p_init, default_fuel; cbn [b_fuel]; lia).
  pose proof (kitems_le_bytes_forest c [] f 0 Hconf) as Hle. rewrite <- (open_close_forest f 0), app_length, map_length in Hle.
  set (k := length (items_open_forest 0 f)) in *. set (s := length (spine_forest 0 f)) in *.
  replace (4 * length input + 64)%nat with (k + (s + S (4 * length input + 63 - k - s)))%nat by (unfold input; lia).
  rewrite Hrun. unfold rcat. cbn [snd]. pose proof (eof_ends c st1 (4 * length input + 63 - k - s) A1 A4 A5 Hf1 He) as Hend. rewrite A3 in Hend. fold s in Hend.
  rewrite Hend, app_assoc, open_close_forest. reflexivity.
Qed.

(* the usual case: the document starts with a root element (declared with the empty path) *)
Definition starts_at_root (c : cfg) (f : list rtree) : Prop :=
  match f with [] => True | t :: _ => get_path (c_sp c) (rid t) = [] end.

Lemma starts_at_root_dstart c f : starts_at_root c f -> dstart c f.
Proof. destruct f as [|t f']; intros H; [exact I|]. left. exact H. Qed.

Corollary reader_roundtrip_known_root c f : strict c -> c_buffered c = [] -> c_emit_eof c = true -> Forall (kconf c []) f ->
  starts_at_root c f -> p_run c (enc_forest f) [RAll] = items_forest 0 f ++ [ONone].
Proof. intros H1 H2 H3 H4 H5. apply reader_roundtrip_known; try assumption. apply starts_at_root_dstart, H5. Qed.

Theorem reader_roundtrip_known_tags c f : strict c -> c_buffered c = [] -> c_emit_eof c = true -> Forall (kconf c []) f -> dstart c f ->
  map out_tag (p_run c (enc_forest f) [RAll]) = map Some (tags_forest f) ++ [None].
Proof.
  intros H1 H2 H3 H4 H5. rewrite (reader_roundtrip_known c f H1 H2 H3 H4 H5), map_app, items_tags_forest. reflexivity.
Qed.

Theorem reader_roundtrip_known_buffered c f cap0 script : calm script -> strict c -> c_buffered c = [] -> c_emit_eof c = true ->
  Forall (kconf c []) f -> dstart c f -> run_reader c cap0 script (enc_forest f) [RAll] = items_forest 0 f ++ [ONone].
Proof. intros Hc H1 H2 H3 H4 H5. rewrite buffered_refines_pure by exact Hc. apply reader_roundtrip_known; assumption. Qed.

(* ------------------------------------------------------------------ relation to the placeholder-free class *)
Fixpoint all_known (t : rtree) : Prop :=
  match t with
  | RLeaf _ _ _ _ => True
  | RNode _ sz cs => sz <> None /\ (fix all (l : list rtree) : Prop := match l with [] => True | x :: l' => all_known x /\ all l' end) cs
  end.

Lemma all_known_node id sz cs : all_known (RNode id sz cs) <-> sz <> None /\ Forall all_known cs.
Proof.
  cbn [all_known].
  assert (H : (fix all (l : list rtree) : Prop := match l with [] => True | x :: l' => all_known x /\ all l' end) cs <-> Forall all_known cs).
  { induction cs as [|x l IH]; [split; [constructor|trivial]|]. split.
    - intros [Hx Hl]. constructor; [exact Hx|apply IH, Hl].
    - intros HF. apply Forall_cons_iff in HF. destruct HF as [Hx Hl]. split; [exact Hx|apply IH, Hl]. }
  tauto.
Qed.

(* the known-size documents of the class of Proofs/RoundTrip.v (paths = the chain itself) belong to this class *)
Lemma conf_kconf c : forall t ids, conf c ids t -> all_known t -> kconf c ids t.
Proof.
  induction t as [id v pl sl|id sz cs IH] using rtree_ind'; intros ids Hc Hk.
  - destruct Hc as [H1 [H2 [H3 [H4 [H5 [H6 H7]]]]]]. cbn [kconf]. rewrite H6, path_matches_ids.
    split; [exact H1|]. split; [exact H2|]. split; [exact H3|]. split; [exact H4|]. split; [exact H5|]. split; [reflexivity|exact H7].
  - apply conf_node in Hc. destruct Hc as [H1 [H2 [H3 [H4 [H5 H6]]]]]. apply all_known_node in Hk. destruct Hk as [Hsz Hkc].
    apply kconf_node. split; [exact H1|]. split.
    + destruct sz as [sl|]; [|contradiction]. exists sl. destruct (H2 sl eq_refl) as [Ha Hb]. split; [reflexivity|split; assumption].
    + split; [exact H3|]. split; [rewrite H4; apply path_matches_ids|]. split; [exact H5|].
      clear H2 H5. induction cs as [|x l IHl]; [constructor|].
      apply Forall_cons_iff in IH. destruct IH as [Hx Hl]. apply Forall_cons_iff in H6. destruct H6 as [Hcx Hcl].
      apply Forall_cons_iff in Hkc. destruct Hkc as [Hkx Hkl]. constructor; [apply Hx; assumption|apply IHl; assumption].
Qed.

(* for such documents the start hypothesis holds by itself: the first top-level element has the empty path *)
Lemma conf_starts_at_root c f : Forall (conf c []) f -> starts_at_root c f.
Proof.
  destruct f as [|t f']; intros H; [exact I|]. apply Forall_cons_iff in H. destruct H as [Ht _]. cbn [starts_at_root].
  destruct t as [id v pl sl|id sz cs]; cbn [rid].
  - destruct Ht as [_ [_ [_ [_ [_ [Hp _]]]]]]. exact Hp.
  - apply conf_node in Ht. destruct Ht as [_ [_ [_ [Hp _]]]]. exact Hp.
Qed.
