(* C02 on documents cut on a tag boundary: the strict reader accepts such a stream (the end of the input closes every open
   master, whatever size it declared), and reading it, writing the tags back with default options and reading again is a
   fixpoint as well.  What is written is the COMPLETE document the cut reads as: every open master closed around what is
   there, in the writer's canonical encoding (the declared sizes of the open masters are irrelevant — the writer recomputes
   them from the actual content). *)
From Ebml Require Import Base Tools Spec Writer Reader Pure Encode.
From Ebml Require Import Proofs.Tactics Proofs.BytesProofs Proofs.VintProofs Proofs.DecodersProofs Proofs.SpecProofs Proofs.WriterProofs Proofs.ReaderIO Proofs.Refine Proofs.PureProofs Proofs.RoundTrip Proofs.WriteEnc Proofs.Fixpoint Proofs.Nesting Proofs.Partial Proofs.CutExists Proofs.Recover Proofs.Snapshots.
Import ListNotations.
Local Open Scope N_scope.

(* the complete document a boundary cut reads as: every open master closed around what is there (any size choice would do for
   the closing nodes: [canon] recomputes it) *)
Fixpoint close_levels (L : list level) (f : list rtree) : list rtree :=
  match L with
  | [] => f
  | lv :: L' => lv_f lv ++ [RNode (lv_id lv) (Some (lv_sl lv)) (close_levels L' f)]
  end.

(* ------------------------------------------------------------------ (1) the tags of the first read *)
Lemma open_ends_cons lv L : open_ends (lv :: L) = open_ends L ++ [TEnd (lv_id lv)].
Proof. unfold open_ends. cbn [map rev]. rewrite map_app. reflexivity. Qed.

Lemma close_levels_tags : forall L f, tags_forest (close_levels L f) = tags_levels L ++ tags_forest f ++ open_ends L.
Proof.
  induction L as [|lv L IH]; intros f.
  - unfold open_ends. cbn [close_levels tags_levels map rev app]. rewrite app_nil_r. reflexivity.
  - cbn [close_levels tags_levels]. rewrite tags_forest_app. cbn [tags_forest]. rewrite tags_tree_node, IH, open_ends_cons, app_nil_r.
    rewrite <- !app_assoc. cbn [app]. rewrite <- ?app_assoc. reflexivity.
Qed.

Lemma run_tags_out_tag : forall outs ts, map out_tag outs = map Some ts ++ [None] -> run_tags outs = ts.
Proof.
  induction outs as [|o outs IH]; intros ts H.
  - destruct ts; discriminate H.
  - destruct ts as [|t ts]; cbn [map app] in H.
    + injection H as H1 H2. destruct outs; [|discriminate H2]. destruct o; cbn [out_tag] in H1; try discriminate; reflexivity.
    + injection H as H1 H2. destruct o; cbn [out_tag] in H1; try discriminate. injection H1 as ->.
      cbn [run_tags]. rewrite (IH ts H2). reflexivity.
Qed.

Lemma cut_first_tags c L f : strict c -> c_buffered c = [] -> c_emit_eof c = true -> conf_tdoc c (snapshot_doc L f) ->
  map out_tag (p_run c (enc_tdoc (snapshot_doc L f)) [RAll]) = map Some (tags_forest (close_levels L f)) ++ [None].
Proof.
  intros Hs Hb He Hc. rewrite (truncated_run c _ Hs Hb He Hc), snapshot_out_tag, close_levels_tags. reflexivity.
Qed.

(* ------------------------------------------------------------------ (2) the closed document conforms after re-encoding *)
Definition cfact (c : cfg) (ids : list N) (t : rtree) : Prop := wconf (c_sp c) true ids t /\ rconf c t.

(* [canon_conf] for a master, from the facts that do not involve its declared size: a well-formed id, declared a master below
   the chain of open masters, and the children's facts *)
Lemma canon_conf_node c ids id sz cs :
  idok id -> get_type (c_sp c) id = Some DMaster -> get_path (c_sp c) id = map PId ids ->
  Forall (cfact c (ids ++ [id])) (map canon cs) -> sized c (canon (RNode id sz cs)) ->
  cfact c ids (canon (RNode id sz cs)).
Proof.
  intros Hid Hty Hpath Hall Hs. rewrite canon_node in *. apply sized_node in Hs. destruct Hs as [Hlt [Hmax _]]. split.
  - apply wconf_node. split; [exact Hpath|]. split; [exact Hty|]. split.
    + intros sl' Hsl. injection Hsl as <-. apply min_sl_field, Hlt.
    + eapply Forall_impl; [|exact Hall]. intros t [H1 _]. exact H1.
  - apply rconf_node. split; [exact Hid|]. split; [exact Hmax|]. eapply Forall_impl; [|exact Hall]. intros t [_ H2]. exact H2.
Qed.

Lemma canon_conf_forest c ids : forall l, Forall (conf c ids) l -> Forall (sized c) (map canon l) -> Forall (cfact c ids) (map canon l).
Proof.
  induction l as [|x l IH]; intros Hc Hs; [constructor|]. cbn [map] in *.
  apply Forall_cons_iff in Hc. destruct Hc as [Hcx Hcl]. apply Forall_cons_iff in Hs. destruct Hs as [Hsx Hsl].
  constructor; [apply canon_conf; assumption|apply IH; assumption].
Qed.

Lemma close_levels_conf c : forall L ids inner f, conf_levels c ids L inner -> Forall (conf c (lv_ids ids L)) f ->
  Forall (sized c) (map canon (close_levels L f)) -> Forall (cfact c ids) (map canon (close_levels L f)).
Proof.
  induction L as [|lv L IH]; intros ids inner f HL Hf Hsz.
  - cbn [close_levels lv_ids] in *. apply canon_conf_forest; assumption.
  - destruct HL as [Hlf [Hid [Hty [Hpath [_ [_ [_ HL']]]]]]]. cbn [close_levels lv_ids] in *.
    rewrite map_app in *. apply Forall_app in Hsz. destruct Hsz as [Hs1 Hs2]. apply Forall_app. split.
    + apply canon_conf_forest; assumption.
    + cbn [map] in *. apply Forall_cons_iff in Hs2. destruct Hs2 as [Hsn _]. constructor; [|constructor].
      apply canon_conf_node; try assumption. apply (IH _ inner); try assumption.
      rewrite canon_node in Hsn. apply sized_node in Hsn. apply Hsn.
Qed.

(* ------------------------------------------------------------------ (3) the theorem *)
Theorem read_write_read_cut : forall c L f, strict c -> c_buffered c = [] -> c_emit_eof c = true ->
  conf_tdoc c (snapshot_doc L f) -> Forall (sized c) (map canon (close_levels L f)) ->
  let first := p_run c (enc_tdoc (snapshot_doc L f)) [RAll] in
  let written := run_writer (c_sp c) (map default_write (run_tags first)) [] in
  Forall (fun r => fst r = WOk) (fst written) /\
  snd written = enc_forest (map canon (close_levels L f)) /\
  map out_tag (p_run c (snd written) [RAll]) = map out_tag first.
Proof.
  intros c L f Hs Hb He Hc Hsz. cbn zeta.
  pose proof (cut_first_tags c L f Hs Hb He Hc) as Hfirst.
  rewrite (run_tags_out_tag _ _ Hfirst), Hfirst, <- canon_ops_forest.
  destruct Hc as [HL [Hf _]]. cbn [snapshot_doc td_levels td_f td_tail] in HL, Hf.
  pose proof (close_levels_conf c L [] _ f HL Hf Hsz) as Hcc.
  assert (Hw : Forall (wconf (c_sp c) true []) (map canon (close_levels L f))) by (eapply Forall_impl; [|exact Hcc]; intros t [H1 _]; exact H1).
  assert (Hr : Forall (rconf c) (map canon (close_levels L f))) by (eapply Forall_impl; [|exact Hcc]; intros t [_ H2]; exact H2).
  destruct (writer_encodes (c_sp c) true _ Hw) as [Hok Henc].
  split; [exact Hok|]. split; [exact Henc|].
  rewrite Henc. rewrite reader_roundtrip_tags; try assumption.
  - rewrite canon_tags_forest. reflexivity.
  - rewrite Forall_forall in *. intros t Hin. apply (wconf_conf c true t []); [apply Hw, Hin|apply Hr, Hin].
Qed.

(* the tags both reads yield: everything complete, then the Ends of the masters the cut left open, innermost first *)
Corollary read_write_read_cut_tags : forall c L f, strict c -> c_buffered c = [] -> c_emit_eof c = true ->
  conf_tdoc c (snapshot_doc L f) ->
  map out_tag (p_run c (enc_tdoc (snapshot_doc L f)) [RAll]) = map Some (tags_levels L ++ tags_forest f ++ open_ends L) ++ [None].
Proof. intros c L f Hs Hb He Hc. rewrite (cut_first_tags c L f Hs Hb He Hc), close_levels_tags. reflexivity. Qed.

(* ------------------------------------------------------------------ every prefix of a complete conforming document that ends
   on a tag boundary ([cut_doc], Proofs/CutExists.v) *)
Corollary read_write_read_prefix : forall c f k, strict c -> c_buffered c = [] -> c_emit_eof c = true ->
  Forall (conf c []) f -> (k <= length (enc_forest f))%nat -> td_tail (cut_doc f k) = CutBoundary ->
  let closed := close_levels (td_levels (cut_doc f k)) (td_f (cut_doc f k)) in
  Forall (sized c) (map canon closed) ->
  let first := p_run c (firstn k (enc_forest f)) [RAll] in
  let written := run_writer (c_sp c) (map default_write (run_tags first)) [] in
  Forall (fun r => fst r = WOk) (fst written) /\
  snd written = enc_forest (map canon closed) /\
  map out_tag (p_run c (snd written) [RAll]) = map out_tag first.
Proof.
  intros c f k Hs Hb He Hc Hk Htl. cbn zeta. intros Hsz.
  destruct (cut_doc_correct c f k Hc Hk) as [Hconf Henc]. rewrite <- Henc.
  destruct (cut_doc f k) as [L g tl]. cbn [td_levels td_f td_tail] in *. subst tl.
  exact (read_write_read_cut c L g Hs Hb He Hconf Hsz).
Qed.
