From Coq Require Export Lia ZifyN ZifyNat ZifyBool.
From Ebml Require Export Base.
Ltac Zify.zify_post_hook ::= Z.div_mod_to_equations.

Lemma Nsucc_of_nat n : N.of_nat (S n) = N.succ (N.of_nat n). Proof. lia. Qed.
