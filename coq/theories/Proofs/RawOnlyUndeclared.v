(* Raw tags are handed out ONLY for ids the specification does not declare - under every configuration (no hypothesis on the
   tolerance switches).  Generalises the `no_raw` chain of Proofs/PureProofs.v (which needs c_allow_id c = false): instead of
   "no raw tag at all in strict-id mode" it states "every raw (sub)tag carries an undeclared id" for every cfg.  C13 / C02. *)
From Ebml Require Import Base Tools Spec Reader Pure Proofs.Tactics Proofs.ReaderIO Proofs.Refine Proofs.PureProofs.

Arguments vint_len : simpl never.
Arguments read_vint : simpl never.

(* every raw (sub)tag of t carries an id the specification does not know *)
Fixpoint raw_undeclared (sp : spec) (t : tag) : Prop :=
  match t with
  | TElem id (VRaw _) => get_type sp id = None
  | TElem _ _ | TStart _ | TEnd _ => True
  | TFull _ cs => (fix all (l : list tag) : Prop := match l with [] => True | c :: l' => raw_undeclared sp c /\ all l' end) cs
  end.

(* what the run theorems state about one output of the reader *)
Definition rout_raw_undeclared (c : cfg) (o : rout) : Prop :=
  match o with OItem t _ => raw_undeclared (c_sp c) t | _ => True end.

Lemma raw_undeclared_full sp id cs : raw_undeclared sp (TFull id cs) <-> Forall (raw_undeclared sp) cs.
Proof.
  cbn [raw_undeclared]. induction cs as [|x cs IH]; [split; [constructor|auto]|].
  split; [intros [H1 H2]; constructor; [exact H1|apply IH, H2]|intros H; inversion H; subst; split; [assumption|apply IH; assumption]].
Qed.

(* in strict-id mode the two notions agree in one direction: a tag without raw parts trivially satisfies raw_undeclared *)
Lemma no_raw_raw_undeclared sp : forall t, no_raw t -> raw_undeclared sp t.
Proof.
  fix IH 1. intros t. destruct t as [id v|id|id|id cs].
  - destruct v; cbn; try (intros; exact I). intros [].
  - intros _. exact I.
  - intros _. exact I.
  - intros H. apply raw_undeclared_full. apply no_raw_full in H.
    induction cs as [|x cs IHcs]; [constructor|]. inversion H; subst. constructor; [apply IH; assumption|apply IHcs; assumption].
Qed.

(* ---- one tag: the type a successful header reports is the declared type of the id it reports *)
Lemma p_header_ty c st st' id ty esz hl : p_header c st = (st', Ok (id, ty, esz, hl)) -> ty = get_type (c_sp c) id.
Proof. intros H. destruct (p_header_ok_facts _ _ _ _ _ _ _ H) as [_ [_ [Hty _]]]. exact Hty. Qed.

(* a tag read successfully is raw only if its id is undeclared (any configuration) *)
Lemma p_read_tag_raw_undeclared c st st' p : p_read_tag c st = (st', Ok p) -> raw_undeclared (c_sp c) (p_tag p).
Proof.
  rewrite p_read_tag_unfold. destruct (p_header c st) as [st1 [[[[id ty] esz] hl]|e0|]] eqn:Eh; try discriminate.
  pose proof (p_header_ty c st st1 id ty esz hl Eh) as Hty.
  unfold p_tag_tail. destruct ty as [[]|]; try (intros H; inversion H; subst; exact I);
    (destruct esz as [size|]; [|discriminate]); (destruct (_ <? size); [discriminate|]);
    try (destruct (arr_to_u64 _); intros H; inversion H; subst; exact I);
    try (destruct (arr_to_i64 _); intros H; inversion H; subst; exact I);
    try (destruct (arr_to_f64 _); intros H; inversion H; subst; exact I);
    try (destruct (utf8_valid _); intros H; inversion H; subst; exact I);
    intros H; inversion H; subst; try exact I.
  cbn [p_tag raw_undeclared]. symmetry. exact Hty.
Qed.

(* exact characterisation (both directions): the tag read is a raw element exactly when its id is undeclared; in particular a tag
   read for a declared id is never raw - the raw constructor is used only in the `get_type = None` branch of p_read_tag *)
Theorem p_read_tag_raw_iff c st st' p : p_read_tag c st = (st', Ok p) ->
  (get_type (c_sp c) (tag_id (p_tag p)) = None <-> exists bs, p_tag p = TElem (tag_id (p_tag p)) (VRaw bs)).
Proof.
  intros H. destruct (p_read_tag_mirrors c st st' p H) as [_ [idl [hl [payload [_ [_ [_ [_ [_ [_ Hm]]]]]]]]]].
  destruct (p_tag p) as [id v|id|id|id cs]; cbn [tag_id]; try contradiction.
  - destruct Hm as [_ [Hd _]]. unfold decodes in Hd. split.
    + intros Hn. rewrite Hn in Hd. destruct v; try contradiction. eexists; reflexivity.
    + intros [bs Hq]. inversion Hq; subst v. destruct (get_type (c_sp c) id) as [[]|]; try contradiction. reflexivity.
  - destruct Hm as [Hm _]. split; [rewrite Hm; discriminate|intros [bs Hq]; discriminate].
Qed.

Corollary p_read_tag_declared_not_raw c st st' p : p_read_tag c st = (st', Ok p) ->
  get_type (c_sp c) (tag_id (p_tag p)) <> None -> no_raw (p_tag p).
Proof.
  intros H Hd. pose proof (p_read_tag_raw_iff c st st' p H) as [_ Hi].
  destruct (p_tag p) as [id v|id|id|id cs] eqn:Ep; try exact I.
  - destruct v; try exact I. exfalso. apply Hd. apply Hi. eexists; reflexivity.
  - destruct (p_read_tag_mirrors c st st' p H) as [_ [idl [hl [payload [_ [_ [_ [_ [_ [_ Hm]]]]]]]]]]. rewrite Ep in Hm. contradiction.
Qed.

(* ---- the emission queue only ever holds tags whose raw parts have undeclared ids *)
Definition qitem_ru (c : cfg) (q : qitem) : Prop :=
  match q with QErr _ => True | QOk t _ => raw_undeclared (c_sp c) t end.
Definition queue_ru (c : cfg) (st : pst) : Prop := Forall (qitem_ru c) (b_queue st).

Lemma roll_up_raw_undeclared sp : forall fuel l, Forall (raw_undeclared sp) l -> Forall (raw_undeclared sp) (roll_up fuel l).
Proof.
  induction fuel as [|f IH]; intros l H; cbn [roll_up]; [exact H|].
  destruct l as [|x l]; [constructor|]. inversion H as [|? ? Hx Hl]; subst.
  destruct x; try (constructor; [assumption|apply IH; assumption]).
  destruct (split_child_forall (raw_undeclared sp) id l O Hl) as [A B]. destruct (split_child id O l) as [sub rest]. cbn [fst snd] in *.
  constructor; [apply raw_undeclared_full, IH, A|apply IH, B].
Qed.

Lemma qtags_raw_undeclared c l : Forall (qitem_ru c) l -> Forall (raw_undeclared (c_sp c)) (qtags l).
Proof.
  induction 1 as [|q l Hq _ IH]; cbn; [constructor|].
  destruct q as [t o|e]; cbn; [constructor; [exact Hq|exact IH]|exact IH].
Qed.

Lemma p_bm_finish_ru c tid ts pre st pos : queue_ru c st -> queue_ru c (p_bm_finish tid ts pre st pos).
Proof.
  intros H. unfold p_bm_finish, queue_ru in *.
  destruct (nth_error (skipn pre (b_queue st)) (pos - pre)) as [[t o|e]|] eqn:En; cbn [pset_queue pset_bad b_queue].
  - apply Forall_app. split; [apply forall_firstn, H|]. apply Forall_app. split; [|apply forall_skipn, forall_skipn, H].
    constructor; [|constructor]. cbn [qitem_ru]. unfold roll_up_children. apply raw_undeclared_full, roll_up_raw_undeclared.
    apply qtags_raw_undeclared. apply forall_firstn, forall_skipn, H.
  - apply Forall_app. split; [apply forall_firstn, H|]. constructor; [|constructor]. exact I.
  - exact H.
Qed.

Lemma queue_ru_same c st st' : b_queue st' = b_queue st -> queue_ru c st -> queue_ru c st'.
Proof. unfold queue_ru. intros ->. auto. Qed.

Lemma queue_ru_push c st items : queue_ru c st -> Forall (qitem_ru c) items -> queue_ru c (ppush_q st items).
Proof. intros H Hi. unfold queue_ru, ppush_q. cbn. apply Forall_app. split; assumption. Qed.

Lemma queue_ru_pop c st k : queue_ru c st -> queue_ru c (ppop_frames st k).
Proof.
  intros H. unfold ppop_frames. apply queue_ru_push; [exact H|].
  apply Forall_forall. intros q Hq. apply in_map_iff in Hq. destruct Hq as [f [<- _]]. cbn. exact I.
Qed.

Lemma rn_bm_queue_ru c : forall fuel,
  (forall st, queue_ru c st -> queue_ru c (p_read_next fuel c st)) /\
  (forall tid ts pre pos st, queue_ru c st -> queue_ru c (p_buffer_master fuel c tid ts pre pos st)).
Proof.
  induction fuel as [|f [IH1 IH2]].
  - split; intros; assumption.
  - split.
    + intros st H. rewrite p_read_next_unfold. cbn zeta.
      set (st1 := ppop_frames st _). assert (H1 : queue_ru c st1) by (apply queue_ru_pop, H).
      unfold p_read_tag_checked. destruct (b_bytes st1) eqn:Eb.
      * destruct (c_emit_eof c); [apply queue_ru_pop, H1|exact H1].
      * pose proof (p_read_tag_queue c st1) as Hq.
        destruct (p_read_tag c st1) as [st2 r2] eqn:Er. cbn [fst] in Hq.
        assert (H2 : queue_ru c st2) by (eapply queue_ru_same; eassumption).
        destruct r2 as [p|e|].
        -- assert (Hitem : Forall (qitem_ru c) [QOk (p_tag p) (p_start p)]).
           { constructor; [|constructor]. cbn [qitem_ru]. eapply p_read_tag_raw_undeclared; eassumption. }
           destruct (p_tag p) eqn:Ep; try (apply queue_ru_push; [apply queue_ru_pop, H2|exact Hitem]).
           destruct (mem_id _ _).
           ++ apply IH2. eapply queue_ru_same; [|apply queue_ru_pop, H2]. reflexivity.
           ++ apply queue_ru_push; [|exact Hitem]. eapply queue_ru_same; [|apply queue_ru_pop, H2]. reflexivity.
        -- apply queue_ru_push; [exact H2|]. constructor; [|constructor]. exact I.
        -- exact H2.
    + intros tid ts pre pos st H. rewrite p_buffer_master_unfold. cbn zeta.
      destruct (_ <=? pos)%nat.
      * pose proof (IH1 st H) as H1. destruct (b_bad (p_read_next f c st)); [exact H1|].
        destruct (_ <=? pos)%nat.
        -- apply queue_ru_push; [exact H1|]. constructor; [|constructor]. exact I.
        -- destruct (scan_queue _ _ _) as [p [|]]; [apply p_bm_finish_ru, H1|apply IH2, H1].
      * destruct (scan_queue _ _ _) as [p [|]]; [apply p_bm_finish_ru, H|apply IH2, H].
Qed.

Lemma p_next_ru c st : queue_ru c st ->
  queue_ru c (fst (p_next c st)) /\
  match snd (p_next c st) with NItem t _ => raw_undeclared (c_sp c) t | _ => True end.
Proof.
  intros H. unfold p_next.
  assert (H1 : queue_ru c (match b_queue st with [] => p_read_next (b_fuel st) c st | _ :: _ => st end)).
  { destruct (b_queue st); [apply rn_bm_queue_ru, H|exact H]. }
  set (st1 := match b_queue st with [] => _ | _ => _ end) in *. unfold queue_ru in H1.
  destruct (b_queue st1) as [|[t o|e] q] eqn:Eq; cbn [fst snd].
  - split; [unfold queue_ru; rewrite Eq; constructor|exact I].
  - inversion H1; subst. split; [exact H4|exact H3].
  - inversion H1; subst. split; [exact H4|exact I].
Qed.

Lemma p_recover_loop_ru c : forall fuel st, queue_ru c st -> queue_ru c (fst (p_recover_loop fuel c st)).
Proof.
  induction fuel as [|f IH]; intros st H; cbn [p_recover_loop].
  - exact H.
  - destruct (b_bytes st) eqn:Eb; [exact H|].
    pose proof (p_header_queue c (pconsume st 1)) as Hq.
    destruct (p_header c (pconsume st 1)) as [st2 [h|e|]]; cbn [fst snd] in *.
    + eapply queue_ru_same; [exact Hq|exact H].
    + apply IH. eapply queue_ru_same; [exact Hq|exact H].
    + eapply queue_ru_same; [exact Hq|exact H].
Qed.

Lemma p_try_recover_ru c st : queue_ru c st -> queue_ru c (fst (p_try_recover c st)).
Proof.
  intros H. unfold p_try_recover. pose proof (p_recover_loop_ru c (b_fuel st) st H) as H1.
  destruct (p_recover_loop (b_fuel st) c st) as [st1 [e|]]; cbn [fst snd] in *; exact H1.
Qed.

Lemma p_run_all_ru c : forall limit st, queue_ru c st ->
  queue_ru c (fst (p_run_all limit c st)) /\ Forall (rout_raw_undeclared c) (snd (p_run_all limit c st)).
Proof.
  induction limit as [|l IH]; intros st H; cbn [p_run_all].
  - split; [exact H|repeat constructor].
  - destruct (p_next_ru c st H) as [H1 Hr]. destruct (p_next c st) as [st1 r]. cbn [fst snd] in *.
    destruct (b_bad st1) as [b|]; [split; [exact H1|destruct b; repeat constructor]|].
    destruct r as [t o|e|].
    + destruct (IH st1 H1) as [H2 Ho]. destruct (p_run_all l c st1) as [st2 outs]. cbn [fst snd] in *.
      split; [exact H2|constructor; [exact Hr|exact Ho]].
    + split; [exact H1|repeat constructor].
    + split; [exact H1|repeat constructor].
Qed.

Lemma p_run_ops_ru c limit : forall ops st, queue_ru c st -> Forall (rout_raw_undeclared c) (snd (p_run_ops c limit st ops)).
Proof.
  induction ops as [|op ops IH]; intros st H; cbn [p_run_ops]; [constructor|]. destruct op.
  - destruct (p_next_ru c st H) as [H1 Hr]. destruct (p_next c st) as [st1 r]. cbn [fst snd] in *.
    destruct (b_bad st1) as [b|]; [destruct b; repeat constructor|].
    specialize (IH st1 H1). destruct (p_run_ops c limit st1 ops) as [st2 outs]. cbn [snd] in *.
    constructor; [destruct r; cbn [rout_raw_undeclared]; try exact I; exact Hr|exact IH].
  - pose proof (p_try_recover_ru c st H) as H1. destruct (p_try_recover c st) as [st1 r]. cbn [fst snd] in *.
    destruct (b_bad st1) as [b|]; [destruct b; repeat constructor|].
    specialize (IH st1 H1). destruct (p_run_ops c limit st1 ops) as [st2 outs]. cbn [snd] in *.
    constructor; [destruct r; exact I|exact IH].
  - destruct (p_run_all_ru c limit st H) as [H1 Ho]. destruct (p_run_all limit c st) as [st1 outs1]. cbn [fst snd] in *.
    destruct (b_bad st1); [exact Ho|].
    specialize (IH st1 H1). destruct (p_run_ops c limit st1 ops) as [st2 outs]. cbn [snd] in *.
    apply Forall_app. split; assumption.
Qed.

(* for EVERY configuration c (whatever its tolerance switches), every input and every sequence of next()/try_recover()/drain
   calls: every item the abstract reader yields is such that each raw tag in it (the item itself, or any descendant of a
   buffered master) carries an id for which the specification c_sp c declares no type *)
Theorem run_raw_only_undeclared : forall c input ops,
  Forall (fun o => match o with OItem t _ => raw_undeclared (c_sp c) t | _ => True end) (p_run c input ops).
Proof. intros c input ops. unfold p_run. apply (p_run_ops_ru c). unfold queue_ru. cbn. constructor. Qed.

(* the same for the buffered machine, for every initial capacity, on every source whose read script is calm (never pauses, never fails) *)
Theorem buffered_run_raw_only_undeclared : forall c cap0 script input ops, calm script ->
  Forall (fun o => match o with OItem t _ => raw_undeclared (c_sp c) t | _ => True end) (run_reader c cap0 script input ops).
Proof. intros c cap0 script input ops Hc. rewrite buffered_refines_pure by exact Hc. apply run_raw_only_undeclared. Qed.

Print Assumptions run_raw_only_undeclared.
Print Assumptions buffered_run_raw_only_undeclared.
Print Assumptions p_read_tag_raw_iff.
