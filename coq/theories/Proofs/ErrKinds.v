(* C13 / C11: which error a header check reports, where, and why. *)
From Ebml Require Import Base Tools Spec Reader Pure.
From Ebml Require Import Proofs.Tactics Proofs.ReaderIO Proofs.Refine Proofs.PureProofs.
Import ListNotations.
Local Open Scope N_scope.

Lemma p_hier_step_err_fields c st id ty st1 e : p_hier_step c st id ty = (st1, Some e) ->
  c_allow_hier c = false /\ ty <> None /\ b_det st1 = true /\
  validate_tag_path (c_sp c) id (stack_view (b_stack st1)) = false /\
  e = RHierarchy id (match b_stack st1 with f :: _ => Some (f_id f) | [] => None end).
Proof.
  unfold p_hier_step. destruct (c_allow_hier c); cbn [negb andb]; [intros H; inversion H|].
  destruct ty as [d|]; [|intros H; inversion H].
  set (s1 := if b_det st then Some st else _). destruct s1 as [s|]; [|intros H; inversion H].
  destruct (b_det s) eqn:Ed; cbn [andb]; [|intros H; inversion H].
  destruct (validate_tag_path (c_sp c) id (stack_view (b_stack s))) eqn:Ev; cbn [negb]; intros H; inversion H; subst.
  repeat split; try assumption; discriminate.
Qed.

(* every error of a header check carries the offset of the offending element (the cursor); its kind is that of the first check
   that fails, in the order: id bytes present, size field well-formed, numeric size <= 8, id known, hierarchy, containment in
   the enclosing known-size masters, size limit *)
Theorem header_error_kinds c st st' e : p_header c st = (st', Err e) ->
  (exists oid, e = REof (b_off st) oid None None) \/
  exists id idl, p_tag_id st = Ok (id, idl) /\
    (e = RInvalidTagData (b_off st) id \/
     (e = RInvalidTagId (b_off st) id /\ get_type (c_sp c) id = None /\ c_allow_id c = false) \/
     (e = RHierarchy id (match b_stack st' with f :: _ => Some (f_id f) | [] => None end) /\ c_allow_hier c = false /\
      get_type (c_sp c) id <> None /\ validate_tag_path (c_sp c) id (stack_view (b_stack st')) = false) \/
     (exists n hl, e = ROversized (b_off st) id n /\ c_allow_over c = false /\ p_invalid_tag_size st' (N.of_nat hl + n) = true) \/
     (exists n m, e = RInvalidSize (b_off st) id n /\ c_max c = Some m /\ m < n)).
Proof.
  rewrite p_header_unfold. destruct (p_tag_id st) as [[id idl]|e0|] eqn:Et; [|intros H; inversion H; subst|intros H; inversion H].
  - unfold p_hdr_tail.
    destruct (read_vint _) as [[[size sl]|]|e1|].
    + intros H. right. exists id, idl. split; [reflexivity|]. revert H.
      destruct (is_numeric _ && _); [intros H; inversion H; subst; left; reflexivity|].
      destruct (negb (c_allow_id c) && match get_type (c_sp c) id with None => true | Some _ => false end) eqn:Eid.
      * intros H; inversion H; subst. right. left. apply Bool.andb_true_iff in Eid. destruct Eid as [E1 E2].
        split; [reflexivity|]. split; [destruct (get_type (c_sp c) id); [discriminate|reflexivity]|destruct (c_allow_id c); [discriminate|reflexivity]].
      * destruct (p_hier_step c st id (get_type (c_sp c) id)) as [st1 [e1|]] eqn:Eh.
        -- intros H; inversion H; subst. destruct (p_hier_step_err_fields _ _ _ _ _ _ Eh) as [H1 [H2 [H3 [H4 H5]]]].
           right. right. left. split; [exact H5|]. split; [exact H1|]. split; [exact H2|exact H4].
        -- destruct (b_bad st1); [intros H; inversion H|].
           destruct (negb (c_allow_over c) && p_invalid_tag_size st1 _) eqn:Eo.
           ++ intros H; inversion H; subst. right. right. right. left. apply Bool.andb_true_iff in Eo. destruct Eo as [E1 E2].
              eexists. exists (idl + sl)%nat. split; [reflexivity|]. split; [destruct (c_allow_over c); [discriminate|reflexivity]|exact E2].
           ++ destruct (c_max c) as [m|] eqn:Em; destruct (ebml_size size sl) as [n|] eqn:Es; try (intros H; inversion H; fail).
              destruct (N.ltb_spec m n) as [Hmn|Hmn]; intros H; inversion H; subst.
              right. right. right. right. exists n, m. split; [reflexivity|]. split; [reflexivity|exact Hmn].
    + intros H; inversion H; subst. left. eexists. reflexivity.
    + intros H; inversion H; subst. right. exists id, idl. split; [reflexivity|]. left. reflexivity.
    + intros H; inversion H.
  - left. unfold p_tag_id in Et. destruct (b_bytes st') as [|b0 tl]; [inversion Et; subst; eexists; reflexivity|].
    destruct (b0 =? 0); [discriminate|]. destruct (_ <? _); inversion Et; subst. eexists; reflexivity.
Qed.

(* C11: the fields of the reader's hierarchy error *)
Corollary hierarchy_error_fields c st st' id par : p_header c st = (st', Err (RHierarchy id par)) ->
  exists idl, p_tag_id st = Ok (id, idl) /\ par = match b_stack st' with f :: _ => Some (f_id f) | [] => None end /\
              c_allow_hier c = false /\ get_type (c_sp c) id <> None /\
              validate_tag_path (c_sp c) id (stack_view (b_stack st')) = false.
Proof.
  intros H. destruct (header_error_kinds c st st' _ H) as [[oid Ho]|[id0 [idl [Ht Hk]]]]; [discriminate Ho|].
  destruct Hk as [Hk|[[Hk _]|[[Hk [H1 [H2 H3]]]|[[n [hl [Hk _]]]|[n [m [Hk _]]]]]]]; try discriminate Hk.
  injection Hk as <- ->. exists idl. repeat split; assumption.
Qed.
