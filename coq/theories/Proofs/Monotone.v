(* C13 (monotonicity): for inputs that start at a root element, the successful items of the strict parse are a prefix of
   those of any more tolerant parse of the same bytes.
   The strict reader and a reader that differs from it only in the three tolerance switches are run side by side on the same
   state.  As long as the strict reader has met no fault the two states agree in everything except the flag
   "document path determined" (a reader that tolerates hierarchy problems never looks at it and never sets it); a strict step
   that succeeds has passed every check, so the tolerant step - which performs a subset of the checks on the same data -
   succeeds with the same result.  At the first fault of the strict reader the two queues share everything that was queued
   before the fault; what the tolerant reader does afterwards is irrelevant, except that it must not end in a panic or run out
   of its recursion budget while items that the strict reader still delivers are queued: for buffered masters this needs
   well-formed bytes (Termination.v / the panic-freedom argument below); Props/C13.v has the example for non-bytes. *)
From Ebml Require Import Base Tools Spec Reader Pure Proofs.Tactics Proofs.BytesProofs Proofs.VintProofs Proofs.DecodersProofs
  Proofs.ReaderIO Proofs.Refine Proofs.PureProofs Proofs.RoundTrip Proofs.NoPanic Proofs.Termination.

Arguments vint_len : simpl never.
Arguments read_vint : simpl never.

(* ------------------------------------------------------------------ the statement's vocabulary *)
(* [ct] is [cs] up to the three tolerance switches *)
Definition same_but_tolerances (cs ct : cfg) : Prop :=
  c_sp ct = c_sp cs /\ c_max ct = c_max cs /\ c_buffered ct = c_buffered cs /\ c_emit_eof ct = c_emit_eof cs.

(* the input starts at a root element: if it begins with an element id at all, that id is declared with the empty path *)
Definition starts_at_root (c : cfg) (input : list N) : Prop :=
  forall id len, p_tag_id (p_init input) = Ok (id, len) -> is_root (c_sp c) id = true.

(* the items (tag and offset) a run yields before its first outcome that is not an item *)
Fixpoint items_before_error (outs : list rout) : list (tag * N) :=
  match outs with
  | OItem t off :: tl => (t, off) :: items_before_error tl
  | _ => []
  end.

Lemma starts_at_root_intro c input id len :
  p_tag_id (p_init input) = Ok (id, len) -> is_root (c_sp c) id = true -> starts_at_root c input.
Proof. intros H1 H2 id' len' H. rewrite H1 in H. inversion H; subst. exact H2. Qed.

Lemma is_root_spec sp id : is_root sp id = true -> (exists d, get_type sp id = Some d) /\ get_path sp id = [].
Proof.
  unfold is_root. destruct (get_type sp id) as [d|]; [|discriminate]. destruct (get_path sp id); [|discriminate].
  intros _. split; [exists d; reflexivity|reflexivity].
Qed.

(* ------------------------------------------------------------------ a state with another "path determined" flag *)
Definition wd (s : pst) (d : bool) : pst :=
  {| b_bytes := b_bytes s; b_off := b_off s; b_stack := b_stack s; b_queue := b_queue s; b_last := b_last s; b_det := d;
     b_bad := b_bad s; b_fuel := b_fuel s |}.

Lemma wd_id s : wd s (b_det s) = s.
Proof. destruct s; reflexivity. Qed.
Lemma wd_consume s d k : pconsume (wd s d) k = wd (pconsume s k) d.
Proof. reflexivity. Qed.
Lemma wd_pop s d k : ppop_frames (wd s d) k = wd (ppop_frames s k) d.
Proof. reflexivity. Qed.
Lemma wd_push s d items : ppush_q (wd s d) items = wd (ppush_q s items) d.
Proof. reflexivity. Qed.
Lemma wd_frame s d stk : pset_stack (wd s d) stk (b_det (wd s d)) = wd (pset_stack s stk (b_det s)) d.
Proof. reflexivity. Qed.
Lemma wd_bad s d b : pset_bad (wd s d) b = wd (pset_bad s b) d.
Proof. reflexivity. Qed.
Lemma wd_tag_id s d : p_tag_id (wd s d) = p_tag_id s.
Proof. reflexivity. Qed.
Lemma wd_bytes s d : b_bytes (wd s d) = b_bytes s. Proof. reflexivity. Qed.
Lemma wd_off s d : b_off (wd s d) = b_off s. Proof. reflexivity. Qed.
Lemma wd_stack s d : b_stack (wd s d) = b_stack s. Proof. reflexivity. Qed.
Lemma wd_queue s d : b_queue (wd s d) = b_queue s. Proof. reflexivity. Qed.
Lemma wd_badf s d : b_bad (wd s d) = b_bad s. Proof. reflexivity. Qed.
Lemma wd_fuel s d : b_fuel (wd s d) = b_fuel s. Proof. reflexivity. Qed.
Lemma wd_det s d : b_det (wd s d) = d. Proof. reflexivity. Qed.
Lemma wd_oversize s d k : p_invalid_tag_size (wd s d) k = p_invalid_tag_size s k. Proof. reflexivity. Qed.

Section Mono.
Variables cs ct : cfg.
Hypothesis Hstrict : strict cs.
Hypothesis Hsame : same_but_tolerances cs ct.

Lemma sp_t : c_sp ct = c_sp cs. Proof. apply Hsame. Qed.
Lemma max_t : c_max ct = c_max cs. Proof. apply Hsame. Qed.
Lemma buf_t : c_buffered ct = c_buffered cs. Proof. apply Hsame. Qed.
Lemma eof_t : c_emit_eof ct = c_emit_eof cs. Proof. apply Hsame. Qed.
Lemma s_id : c_allow_id cs = false. Proof. apply Hstrict. Qed.
Lemma s_hier : c_allow_hier cs = false. Proof. apply Hstrict. Qed.
Lemma s_over : c_allow_over cs = false. Proof. apply Hstrict. Qed.

(* the flag of the tolerant state: arbitrary when hierarchy problems are tolerated, the strict one otherwise *)
Definition side (s : pst) (d : bool) : Prop := c_allow_hier ct = false -> d = b_det s.

(* the first element is a root element or the path is already determined *)
Definition Rooted (s : pst) : Prop :=
  b_det s = true \/ (forall id len, p_tag_id s = Ok (id, len) -> is_root (c_sp cs) id = true).

Lemma rooted_same s s' : b_bytes s' = b_bytes s -> b_off s' = b_off s -> b_det s' = b_det s -> Rooted s -> Rooted s'.
Proof.
  intros Hb Ho Hd [H|H]; [left; congruence|right].
  intros id len Ht. apply (H id len). rewrite <- Ht. unfold p_tag_id, blen. rewrite Hb, Ho. reflexivity.
Qed.

(* ------------------------------------------------------------------ the hierarchy step *)
(* strict: with the path determined or a root element the step never panics and seeds nothing *)
Lemma hier_strict s id dty s' r : (b_det s = true \/ is_root (c_sp cs) id = true) -> p_hier_step cs s id (Some dty) = (s', r) ->
  (s' = s /\ b_det s = true) \/ (b_det s = false /\ s' = pset_stack s (b_stack s ++ []) true).
Proof.
  intros Hroot. unfold p_hier_step. rewrite s_hier. cbn [negb andb].
  destruct (b_det s) eqn:Ed; cbn zeta iota.
  - rewrite Ed. destruct (true && _); intros H; inversion H; left; split; reflexivity.
  - destruct Hroot as [Hr|Hr]; [discriminate|]. destruct (is_root_spec _ _ Hr) as [_ Hp]. rewrite Hp.
    cbn [all_ids forallb implied_stack flat_map rev]. destruct (_ && _); intros H; inversion H; right; split; reflexivity.
Qed.

Lemma hier_cfg c1 c2 s id ty : c_sp c1 = c_sp c2 -> c_allow_hier c1 = c_allow_hier c2 -> p_hier_step c1 s id ty = p_hier_step c2 s id ty.
Proof. intros H1 H2. unfold p_hier_step. rewrite H1, H2. reflexivity. Qed.

(* tolerant: the same step on the same data (hierarchy checked), or no step at all (hierarchy tolerated) *)
Lemma hier_sim s d id dty : side s d -> b_bad s = None -> (b_det s = true \/ is_root (c_sp cs) id = true) ->
  forall s' r, p_hier_step cs s id (Some dty) = (s', r) ->
  b_bad s' = None /\ b_bytes s' = b_bytes s /\ b_off s' = b_off s /\ b_queue s' = b_queue s /\ (r = None -> b_det s' = true) /\
  ((c_allow_hier ct = false /\ p_hier_step ct (wd s d) id (Some dty) = (wd s' (b_det s'), r)) \/
   (c_allow_hier ct = true /\ p_hier_step ct (wd s d) id (Some dty) = (wd s d, None) /\ wd s d = wd s' d)).
Proof.
  intros Hside Hbad Hroot s' r H.
  assert (G : b_bad s' = None /\ b_bytes s' = b_bytes s /\ b_off s' = b_off s /\ b_queue s' = b_queue s /\ (r = None -> b_det s' = true) /\ wd s d = wd s' d).
  { destruct (hier_strict s id dty s' r Hroot H) as [[-> Hd]|[Hd ->]].
    - split; [exact Hbad|]. split; [reflexivity|]. split; [reflexivity|]. split; [reflexivity|]. split; [intros _; exact Hd|reflexivity].
    - split; [exact Hbad|]. split; [reflexivity|]. split; [reflexivity|]. split; [reflexivity|]. split; [intros _; reflexivity|].
      unfold wd, pset_stack. cbn [b_bytes b_off b_stack b_queue b_last b_det b_bad b_fuel]. rewrite app_nil_r. reflexivity. }
  destruct G as (G1 & G2 & G3 & G4 & G5 & G6). split; [exact G1|]. split; [exact G2|]. split; [exact G3|]. split; [exact G4|]. split; [exact G5|].
  destruct (c_allow_hier ct) eqn:Eh.
  - right. split; [reflexivity|]. split; [|exact G6]. unfold p_hier_step. rewrite Eh. reflexivity.
  - left. split; [reflexivity|]. rewrite (Hside Eh), !wd_id. rewrite <- H. apply hier_cfg; [apply sp_t|rewrite Eh, s_hier; reflexivity].
Qed.

(* ------------------------------------------------------------------ one header / one tag, side by side *)
(* either the two readers agree (same result; the states differ at most in the flag; a strict success leaves the path
   determined), or the strict reader reports an error the tolerant one does not - and the tolerant one did not panic *)
Definition StepOut {A} (ps pt : pst * res rerr A) : Prop :=
  (snd pt = snd ps /\ (exists d', fst pt = wd (fst ps) d' /\ side (fst ps) d') /\ (snd ps <> Panic -> b_bad (fst ps) = None) /\
   (forall h, snd ps = Ok h -> b_det (fst ps) = true))
  \/ (exists e, snd ps = Err e /\ b_bad (fst pt) = None /\ snd pt <> Panic).

Lemma lock_intro {A} s' (r : res rerr A) d' : side s' d' -> (r <> Panic -> b_bad s' = None) -> (forall h, r = Ok h -> b_det s' = true) ->
  StepOut (s', r) (wd s' d', r).
Proof. intros H1 H2 H3. left. split; [reflexivity|]. split; [exists d'; split; [reflexivity|exact H1]|]. split; assumption. Qed.

Lemma div_intro {A} s' e t' (rt : res rerr A) : b_bad t' = None -> rt <> Panic -> StepOut (s', Err e) (t', rt).
Proof. intros H1 H2. right. exists e. split; [reflexivity|]. split; assumption. Qed.

Lemma side_self s : side s (b_det s).
Proof. intros _. reflexivity. Qed.

Lemma header_sim s d : side s d -> b_bad s = None -> Rooted s -> StepOut (p_header cs s) (p_header ct (wd s d)).
Proof.
  intros Hside Hbad Hroot. rewrite !p_header_unfold, wd_tag_id.
  destruct (p_tag_id s) as [[id idl]|e0|] eqn:Et.
  2:{ apply lock_intro; [exact Hside|intros _; exact Hbad|discriminate]. }
  2:{ apply lock_intro; [exact Hside|intros H; exfalso; apply H; reflexivity|discriminate]. }
  assert (Hr : b_det s = true \/ is_root (c_sp cs) id = true).
  { destruct Hroot as [H|H]; [left; exact H|right; exact (H id idl Et)]. }
  unfold p_hdr_tail. rewrite !wd_bytes, !wd_off, sp_t.
  destruct (read_vint _) as [[[size sl]|]|e1|].
  2:{ apply lock_intro; [exact Hside|intros _; exact Hbad|discriminate]. }
  2:{ apply lock_intro; [exact Hside|intros _; exact Hbad|discriminate]. }
  2:{ apply lock_intro; [exact Hside|intros H; exfalso; apply H; reflexivity|discriminate]. }
  destruct (is_numeric _ && _).
  { apply lock_intro; [exact Hside|intros _; exact Hbad|discriminate]. }
  rewrite s_id, s_over, max_t. cbn [negb andb].
  destruct (get_type (c_sp cs) id) as [dty|] eqn:Ety.
  - (* a declared element *)
    rewrite Bool.andb_false_r.
    destruct (p_hier_step cs s id (Some dty)) as [s1 r1] eqn:E1.
    destruct (hier_sim s d id dty Hside Hbad Hr s1 r1 E1) as (G1 & G2 & G3 & G4 & G5 & [[Eh Ht]|[Eh [Ht Hw]]]); rewrite Ht.
    + (* hierarchy checked by both *)
      destruct r1 as [e|]; [apply lock_intro; [apply side_self|intros _; exact G1|discriminate]|].
      rewrite wd_badf, G1, wd_oversize.
      destruct (p_invalid_tag_size s1 _) eqn:Eo.
      * destruct (c_allow_over ct); cbn [negb andb].
        -- destruct (c_max cs); destruct (ebml_size size sl); try destruct (_ <? _); (apply div_intro; [exact G1|discriminate]).
        -- apply lock_intro; [apply side_self|intros _; exact G1|discriminate].
      * rewrite Bool.andb_false_r.
        destruct (c_max cs); destruct (ebml_size size sl); try destruct (_ <? _);
          (apply lock_intro; [apply side_self|intros _; exact G1|intros h _; exact (G5 eq_refl)]).
    + (* hierarchy tolerated *)
      destruct r1 as [e|].
      * rewrite wd_badf, Hbad.
        destruct (negb (c_allow_over ct) && _);
          [|destruct (c_max cs); destruct (ebml_size size sl); try destruct (_ <? _)]; (apply div_intro; [exact Hbad|discriminate]).
      * rewrite Hw, wd_badf, G1, wd_oversize.
        assert (Hs1 : side s1 d) by (intros H; rewrite Eh in H; discriminate).
        destruct (p_invalid_tag_size s1 _) eqn:Eo.
        -- destruct (c_allow_over ct); cbn [negb andb].
           ++ destruct (c_max cs); destruct (ebml_size size sl); try destruct (_ <? _); (apply div_intro; [exact G1|discriminate]).
           ++ apply lock_intro; [exact Hs1|intros _; exact G1|discriminate].
        -- rewrite Bool.andb_false_r.
           destruct (c_max cs); destruct (ebml_size size sl); try destruct (_ <? _);
             (apply lock_intro; [exact Hs1|intros _; exact G1|intros h _; exact (G5 eq_refl)]).
  - (* an unknown id: the strict reader's fault *)
    destruct (c_allow_id ct); cbn [negb andb].
    + assert (Hh : p_hier_step ct (wd s d) id None = (wd s d, None)).
      { unfold p_hier_step. rewrite Bool.andb_false_r. reflexivity. }
      rewrite Hh, wd_badf, Hbad.
      destruct (negb (c_allow_over ct) && _);
        [|destruct (c_max cs); destruct (ebml_size size sl); try destruct (_ <? _)]; (apply div_intro; [exact Hbad|discriminate]).
    + apply lock_intro; [exact Hside|intros _; exact Hbad|discriminate].
Qed.

(* ---- the payload: no configuration involved, the flag is carried along *)
Lemma wd_blen s d : blen (wd s d) = blen s. Proof. reflexivity. Qed.

Lemma tag_tail_wd c1 c2 s d ts h :
  p_tag_tail c2 (wd s d) ts h = (wd (fst (p_tag_tail c1 s ts h)) d, snd (p_tag_tail c1 s ts h)).
Proof.
  destruct h as [[[id ty] esz] hl]. unfold p_tag_tail. cbn zeta. rewrite !wd_consume, !wd_off, !wd_blen, !wd_bytes.
  destruct ty as [[]|]; try reflexivity;
    (destruct esz as [size|]; [|reflexivity]); (destruct (_ <? size); [reflexivity|]); rewrite ?wd_consume;
    try (destruct (arr_to_u64 _); reflexivity); try (destruct (arr_to_i64 _); reflexivity);
    try (destruct (arr_to_f64 _); reflexivity); try (destruct (utf8_valid _); reflexivity); reflexivity.
Qed.

Lemma tag_tail_facts c s ts h :
  b_bad (fst (p_tag_tail c s ts h)) = b_bad s /\ b_det (fst (p_tag_tail c s ts h)) = b_det s /\ snd (p_tag_tail c s ts h) <> Panic.
Proof.
  destruct h as [[[id ty] esz] hl]. unfold p_tag_tail. cbn zeta.
  destruct (decoders_total (fst (splitN match esz with SKnown n => n | SUnknown => 0 end (b_bytes (pconsume s (N.of_nat hl)))))) as [Du [Di Df]].
  destruct ty as [[]|]; try (split; [reflexivity|split; [reflexivity|discriminate]]);
    (destruct esz as [size|]; [|split; [reflexivity|split; [reflexivity|discriminate]]]);
    (destruct (_ <? size); [split; [reflexivity|split; [reflexivity|discriminate]]|]).
  - destruct (arr_to_u64 _); [split; [reflexivity|split; [reflexivity|discriminate]]..|contradiction].
  - destruct (arr_to_i64 _); [split; [reflexivity|split; [reflexivity|discriminate]]..|contradiction].
  - destruct (utf8_valid _); (split; [reflexivity|split; [reflexivity|discriminate]]).
  - split; [reflexivity|split; [reflexivity|discriminate]].
  - destruct (arr_to_f64 _); [split; [reflexivity|split; [reflexivity|discriminate]]..|contradiction].
  - split; [reflexivity|split; [reflexivity|discriminate]].
Qed.

Lemma read_tag_sim s d : side s d -> b_bad s = None -> Rooted s -> StepOut (p_read_tag cs s) (p_read_tag ct (wd s d)).
Proof.
  intros Hside Hbad Hroot. rewrite !p_read_tag_unfold, wd_off. pose proof (header_sim s d Hside Hbad Hroot) as H.
  destruct (p_header cs s) as [s1 rs]. destruct (p_header ct (wd s d)) as [t1 rt].
  destruct H as [[Heq [[d' [Ht Hsd]] [Hb Hdet]]]|[e [He [Hbt Hnp]]]]; cbn [fst snd] in *.
  - subst t1 rt. destruct rs as [h|e|].
    + rewrite (tag_tail_wd cs ct). destruct (tag_tail_facts cs s1 (b_off s) h) as (F1 & F2 & F3).
      destruct (p_tag_tail cs s1 (b_off s) h) as [s2 r2]. cbn [fst snd] in *.
      apply lock_intro.
      * intros Hh. rewrite F2. apply Hsd, Hh.
      * intros _. rewrite F1. apply Hb. discriminate.
      * intros p _. rewrite F2. apply (Hdet h). reflexivity.
    + apply lock_intro; [exact Hsd|intros _; apply Hb; discriminate|discriminate].
    + apply lock_intro; [exact Hsd|intros Hp; exfalso; apply Hp; reflexivity|discriminate].
  - subst rs. destruct rt as [h|e'|]; [|apply div_intro; [exact Hbt|discriminate]|exfalso; apply Hnp; reflexivity].
    destruct (tag_tail_facts ct t1 (b_off s) h) as (F1 & F2 & F3).
    destruct (p_tag_tail ct t1 (b_off s) h) as [t2 r2]. cbn [fst snd] in *.
    apply div_intro; [rewrite F1; exact Hbt|exact F3].
Qed.

(* the strict reader's state keeps "determined or at a root element" *)
Lemma rooted_header s : Rooted s -> Rooted (fst (p_header cs s)).
Proof.
  intros H. destruct (p_header_cases cs s) as [->|[->|(stk & _ & _ & _ & ->)]]; [exact H| |left; reflexivity].
  eapply rooted_same; [| | |exact H]; reflexivity.
Qed.

Lemma rooted_read_tag s : b_bad s = None -> Rooted s -> Rooted (fst (p_read_tag cs s)).
Proof.
  intros Hbad H. pose proof (header_sim s (b_det s) (side_self s) Hbad H) as Hs. pose proof (rooted_header s H) as Hr.
  rewrite p_read_tag_unfold. destruct (p_header cs s) as [s1 rs]. cbn [fst] in Hr.
  destruct rs as [h|e|]; [|exact Hr|exact Hr].
  destruct Hs as [[_ [_ [_ Hdet]]]|[e [He _]]]; [|discriminate]. cbn [fst snd] in Hdet.
  destruct (tag_tail_facts cs s1 (b_off s) h) as (_ & F2 & _). left. rewrite F2. apply (Hdet h). reflexivity.
Qed.

(* ------------------------------------------------------------------ the queue only grows at its end (any configuration) *)
Definition qext (a b : list qitem) : Prop := exists new, b = a ++ new.

Lemma qext_refl a : qext a a.
Proof. exists []. rewrite app_nil_r. reflexivity. Qed.
Lemma qext_app a x : qext a (a ++ x).
Proof. exists x. reflexivity. Qed.
Lemma qext_trans a b c : qext a b -> qext b c -> qext a c.
Proof. intros [x ->] [y ->]. exists (x ++ y). rewrite app_assoc. reflexivity. Qed.
Lemma qext_firstn n a : qext (firstn n a) a.
Proof. exists (skipn n a). rewrite firstn_skipn. reflexivity. Qed.
Lemma qext_firstn_eq n a b : (n <= length a)%nat -> qext a b -> firstn n b = firstn n a /\ (n <= length b)%nat.
Proof.
  intros Hn [x ->]. split; [|rewrite app_length; lia].
  rewrite firstn_app. replace (n - length a)%nat with O by lia. cbn [firstn]. rewrite app_nil_r. reflexivity.
Qed.

(* the part of read_next after the tag has been read *)
Definition rn_cont (f : nat) (c : cfg) (st : pst) (r : option (res rerr ptag)) : pst :=
  match r with
  | Some (Ok p) =>
      let tid := tag_id (p_tag p) in
      let st := ppop_frames st (count_ended (c_sp c) tid (stack_view (b_stack st))) in
      match p_tag p with
      | TStart _ =>
          let st := pset_stack st ({| f_id := tid; f_size := p_size p; f_start := p_start p; f_data := p_data p |} :: b_stack st) (b_det st) in
          if mem_id tid (c_buffered c) then p_buffer_master f c tid (p_start p) (length (b_queue st)) (length (b_queue st)) st
          else ppush_q st [QOk (p_tag p) (p_start p)]
      | _ => ppush_q st [QOk (p_tag p) (p_start p)]
      end
  | Some (Err e) => ppush_q st [QErr e]
  | Some Panic => pset_bad st BPanic
  | None => if c_emit_eof c then ppop_frames st (length (b_stack st)) else st
  end.

Lemma p_read_next_cont f c st :
  p_read_next (S f) c st =
    rn_cont f c (fst (p_read_tag_checked c (ppop_frames st (exhausted_count (b_off st) (b_stack st)))))
                (snd (p_read_tag_checked c (ppop_frames st (exhausted_count (b_off st) (b_stack st))))).
Proof.
  rewrite p_read_next_unfold. cbn zeta. destruct (p_read_tag_checked c _) as [st1 [[p|e|]|]]; reflexivity.
Qed.

Lemma p_read_tag_checked_queue c st : b_queue (fst (p_read_tag_checked c st)) = b_queue st.
Proof.
  unfold p_read_tag_checked. destruct (b_bytes st); [reflexivity|].
  pose proof (p_read_tag_queue c st) as H. destruct (p_read_tag c st). exact H.
Qed.

Lemma finish_prefix tid ts pre st p : qext (firstn pre (b_queue st)) (b_queue (p_bm_finish tid ts pre st p)).
Proof.
  unfold p_bm_finish. destruct (nth_error _ _) as [[t o|e]|]; cbn [pset_queue pset_bad b_queue]; [apply qext_app|apply qext_app|apply qext_firstn].
Qed.

Lemma rn_cont_prefix_of f c
  (IH : forall tid ts pre pos st, (pre <= length (b_queue st))%nat -> (pre <= pos)%nat ->
        qext (firstn pre (b_queue st)) (b_queue (p_buffer_master f c tid ts pre pos st))) st r :
  qext (b_queue st) (b_queue (rn_cont f c st r)).
Proof.
  unfold rn_cont. destruct r as [[p|e|]|].
  - cbn zeta. set (st2 := ppop_frames st _).
    assert (H2 : qext (b_queue st) (b_queue st2)) by apply qext_app.
    destruct (p_tag p); try (eapply qext_trans; [exact H2|apply qext_app]).
    destruct (mem_id _ _); [|eapply qext_trans; [exact H2|apply qext_app]].
    eapply qext_trans; [exact H2|]. set (st3 := pset_stack st2 _ _).
    specialize (IH (tag_id (TStart id)) (p_start p) (length (b_queue st3)) (length (b_queue st3)) st3 (le_n _) (le_n _)).
    rewrite firstn_all in IH. exact IH.
  - apply qext_app.
  - apply qext_refl.
  - destruct (c_emit_eof c); [apply qext_app|apply qext_refl].
Qed.

Lemma rn_bm_prefix c : forall fuel,
  (forall st, qext (b_queue st) (b_queue (p_read_next fuel c st))) /\
  (forall tid ts pre pos st, (pre <= length (b_queue st))%nat -> (pre <= pos)%nat ->
     qext (firstn pre (b_queue st)) (b_queue (p_buffer_master fuel c tid ts pre pos st))).
Proof.
  induction fuel as [|f [IH1 IH2]].
  - split; intros; [apply qext_refl|apply qext_firstn].
  - split.
    + intros st. rewrite p_read_next_cont.
      eapply qext_trans; [|apply rn_cont_prefix_of, IH2]. rewrite p_read_tag_checked_queue. apply qext_app.
    + intros tid ts pre pos st Hpre Hpos. rewrite p_buffer_master_unfold. cbn zeta.
      destruct (_ <=? pos)%nat.
      * pose proof (IH1 st) as H1. destruct (qext_firstn_eq pre _ _ Hpre H1) as [Hf Hl]. set (st1 := p_read_next f c st) in *.
        rewrite <- Hf.
        destruct (b_bad st1); [apply qext_firstn|]. destruct (_ <=? pos)%nat.
        -- eapply qext_trans; [apply qext_firstn|apply qext_app].
        -- destruct (scan_queue _ _ _) as [p found] eqn:Es. destruct (scan_queue_spec _ _ _ _ _ Es) as [S1 _].
           destruct found; [apply finish_prefix|apply IH2; [exact Hl|lia]].
      * destruct (scan_queue _ _ _) as [p found] eqn:Es. destruct (scan_queue_spec _ _ _ _ _ Es) as [S1 _].
        destruct found; [apply finish_prefix|apply IH2; [exact Hpre|lia]].
Qed.

Lemma rn_cont_prefix f c st r : qext (b_queue st) (b_queue (rn_cont f c st r)).
Proof. apply rn_cont_prefix_of, rn_bm_prefix. Qed.

(* without buffered masters the continuation does not touch the panic flag *)
Lemma rn_cont_bad f c st r : c_buffered c = [] -> r <> Some Panic -> b_bad (rn_cont f c st r) = b_bad st.
Proof.
  intros Hb Hr. unfold rn_cont. destruct r as [[p|e|]|]; [|reflexivity|exfalso; apply Hr; reflexivity|destruct (c_emit_eof c); reflexivity].
  cbn zeta. rewrite Hb. cbn [mem_id existsb]. destruct (p_tag p); reflexivity.
Qed.

(* ---- scanning for the end of a buffered master, and finishing it *)
Definition hit (id : N) (x : qitem) : bool := qitem_is_err x || qitem_is_end_of id x.

Lemma scan_app id : forall P x Z pos, Forall (fun y => hit id y = false) P -> hit id x = true ->
  scan_queue id (P ++ x :: Z) pos = ((pos + length P)%nat, true).
Proof.
  induction P as [|y P IH]; intros x Z pos HP Hx; cbn [app scan_queue length].
  - unfold hit in Hx. rewrite Hx. f_equal. lia.
  - apply Forall_cons_iff in HP. destruct HP as [Hy HP]. unfold hit in Hy. rewrite Hy. rewrite (IH x Z (S pos) HP Hx). f_equal. lia.
Qed.

Lemma split_hit id : forall l, Forall (fun y => hit id y = false) l \/
  exists P x Z, l = P ++ x :: Z /\ Forall (fun y => hit id y = false) P /\ hit id x = true.
Proof.
  induction l as [|y l IH]; [left; constructor|].
  destruct (hit id y) eqn:Ey.
  - right. exists [], y, l. split; [reflexivity|]. split; [constructor|exact Ey].
  - destruct IH as [H|(P & x & Z & -> & HP & Hx)].
    + left. constructor; assumption.
    + right. exists (y :: P), x, Z. split; [reflexivity|]. split; [constructor; assumption|exact Hx].
Qed.

Lemma skipn_exact {A} (a b : list A) : skipn (length a) (a ++ b) = b.
Proof. induction a as [|x a IH]; [reflexivity|exact IH]. Qed.

Lemma finish_at tid ts pre st P x Z : b_queue st = P ++ x :: Z -> (pre <= length P)%nat ->
  p_bm_finish tid ts pre st (length P) =
    match x with
    | QOk _ _ => pset_queue st (firstn pre P ++ [QOk (roll_up_children tid (qtags (skipn pre P))) ts] ++ Z)
    | QErr e => pset_queue st (firstn pre P ++ [QErr e])
    end.
Proof.
  intros Hq Hpre. unfold p_bm_finish. rewrite Hq.
  assert (Hs : skipn pre (P ++ x :: Z) = skipn pre P ++ x :: Z).
  { rewrite skipn_app. replace (pre - length P)%nat with O by lia. reflexivity. }
  assert (Hf : firstn pre (P ++ x :: Z) = firstn pre P).
  { rewrite firstn_app. replace (pre - length P)%nat with O by lia. cbn [firstn]. rewrite app_nil_r. reflexivity. }
  assert (Hl : (length P - pre)%nat = length (skipn pre P)) by (rewrite skipn_length; reflexivity).
  rewrite Hs, Hf, Hl. rewrite nth_error_app2 by lia. rewrite Nat.sub_diag. cbn [nth_error].
  destruct x as [t o|e]; [|reflexivity].
  rewrite firstn_app, Nat.sub_diag, firstn_all. cbn [firstn]. rewrite app_nil_r.
  replace (skipn (S (length (skipn pre P))) (skipn pre P ++ QOk t o :: Z)) with Z; [reflexivity|].
  change (QOk t o :: Z) with ([QOk t o] ++ Z). rewrite app_assoc.
  replace (S (length (skipn pre P))) with (length (skipn pre P ++ [QOk t o])) by (rewrite app_length; cbn; lia).
  rewrite skipn_exact. reflexivity.
Qed.

Lemma wd_finish tid ts pre s d p : p_bm_finish tid ts pre (wd s d) p = wd (p_bm_finish tid ts pre s p) d.
Proof. unfold p_bm_finish. rewrite wd_queue. destruct (nth_error _ _) as [[t o|e]|]; reflexivity. Qed.

Lemma finish_same tid ts pre s p :
  b_bytes (p_bm_finish tid ts pre s p) = b_bytes s /\ b_off (p_bm_finish tid ts pre s p) = b_off s /\ b_det (p_bm_finish tid ts pre s p) = b_det s.
Proof. unfold p_bm_finish. destruct (nth_error _ _) as [[t o|e]|]; repeat split. Qed.

(* ------------------------------------------------------------------ read_next / buffer_master, side by side *)
Definition RR (s t : pst) : Prop := exists d, t = wd s d /\ side s d.

(* the strict reader has queued an error; everything queued before it is queued by the tolerant reader too *)
Definition Div (base : list qitem) (s' t' : pst) : Prop :=
  exists cp e rest rest', b_queue s' = base ++ cp ++ QErr e :: rest /\ b_queue t' = base ++ cp ++ rest' /\
                          (c_buffered cs = [] -> b_bad t' = None).

Definition Out (base : list qitem) (s' t' : pst) : Prop :=
  b_bad s' <> None \/ (b_bad t' <> None /\ c_buffered cs <> []) \/ (b_bad s' = None /\ RR s' t' /\ Rooted s') \/ Div base s' t'.

Lemma out_lock base s' d' : b_bad s' = None -> side s' d' -> Rooted s' -> Out base s' (wd s' d').
Proof. intros H1 H2 H3. right; right; left. split; [exact H1|]. split; [exists d'; split; [reflexivity|exact H2]|exact H3]. Qed.

Lemma out_weaken base base' s' t' : qext base base' -> Out base' s' t' -> Out base s' t'.
Proof.
  intros [x ->] [H|[H|[H|(cp & e & rest & rest' & H1 & H2 & H3)]]]; [left; exact H|right; left; exact H|right; right; left; exact H|].
  right; right; right. exists (x ++ cp), e, rest, rest'. rewrite <- !app_assoc in H1, H2. rewrite <- !app_assoc. split; [exact H1|]. split; [exact H2|exact H3].
Qed.

Lemma firstn_app_le {A} n (a b : list A) : (n <= length a)%nat -> firstn n (a ++ b) = firstn n a.
Proof. intros H. rewrite firstn_app. replace (n - length a)%nat with O by lia. cbn [firstn]. rewrite app_nil_r. reflexivity. Qed.

Definition RnSim (f : nat) : Prop := forall s d, side s d -> b_bad s = None -> Rooted s ->
  Out (b_queue s) (p_read_next f cs s) (p_read_next f ct (wd s d)).
Definition BmSim (f : nat) : Prop := forall tid ts pre s d, side s d -> b_bad s = None -> Rooted s -> c_buffered cs <> [] ->
  (pre <= length (b_queue s))%nat ->
  Out (firstn pre (b_queue s)) (p_buffer_master f cs tid ts pre (length (b_queue s)) s)
                               (p_buffer_master f ct tid ts pre (length (b_queue s)) (wd s d)).

Lemma bad_set s b : b_bad (pset_bad s b) <> None.
Proof. unfold pset_bad. cbn [b_bad]. destruct (b_bad s); discriminate. Qed.

(* after a tag on which both readers agree *)
Lemma cont_sim f s1 d' rs : BmSim f -> side s1 d' -> (rs <> Panic -> b_bad s1 = None) -> (forall p, rs = Ok p -> b_det s1 = true) -> Rooted s1 ->
  Out (b_queue s1) (rn_cont f cs s1 (Some rs)) (rn_cont f ct (wd s1 d') (Some rs)).
Proof.
  intros IH2 Hside Hb Hdet Hroot. unfold rn_cont. destruct rs as [p|e|].
  - assert (Hb1 : b_bad s1 = None) by (apply Hb; discriminate). assert (Hd1 : b_det s1 = true) by (apply (Hdet p); reflexivity).
    cbn zeta. rewrite sp_t, wd_stack, wd_pop. set (s2 := ppop_frames s1 _).
    assert (Hq2 : qext (b_queue s1) (b_queue s2)) by apply qext_app.
    destruct (p_tag p) eqn:Ep; try (rewrite wd_push; apply out_lock; [exact Hb1|exact Hside|left; exact Hd1]).
    rewrite wd_frame, wd_stack. set (s3 := pset_stack s2 _ _). rewrite wd_queue, buf_t.
    destruct (mem_id _ _) eqn:Em; [|rewrite wd_push; apply out_lock; [exact Hb1|exact Hside|left; exact Hd1]].
    assert (Hbuf : c_buffered cs <> []) by (intros H0; rewrite H0 in Em; discriminate).
    apply (out_weaken _ (b_queue s3)); [exact Hq2|].
    pose proof (IH2 (tag_id (TStart id)) (p_start p) (length (b_queue s3)) s3 d' Hside Hb1 (or_introl Hd1) Hbuf (le_n _)) as H.
    rewrite firstn_all in H. exact H.
  - rewrite wd_push. apply out_lock; [apply Hb; discriminate|exact Hside|].
    eapply rooted_same; [| | |exact Hroot]; reflexivity.
  - rewrite wd_bad. left. apply bad_set.
Qed.

Lemma rn_bm_sim : forall f, RnSim f /\ BmSim f.
Proof.
  induction f as [|f [IH1 IH2]].
  - split.
    + intros s d Hside Hbad Hroot. left. apply bad_set.
    + intros tid ts pre s d Hside Hbad Hroot Hbuf Hpre. left. apply bad_set.
  - split.
    + (* read_next *)
      intros s d Hside Hbad Hroot. rewrite !p_read_next_cont. rewrite wd_off, wd_stack, wd_pop. set (s0 := ppop_frames s _).
      assert (Hq0 : qext (b_queue s) (b_queue s0)) by apply qext_app.
      assert (Hr0 : Rooted s0) by (eapply rooted_same; [| | |exact Hroot]; reflexivity).
      unfold p_read_tag_checked. rewrite wd_bytes. destruct (b_bytes s0) eqn:Eb; cbn [fst snd].
      * unfold rn_cont. rewrite eof_t. destruct (c_emit_eof cs); [rewrite wd_stack, wd_pop|]; (apply out_lock; [exact Hbad|exact Hside|]);
          (eapply rooted_same; [| | |exact Hroot]; reflexivity).
      * pose proof (read_tag_sim s0 d Hside Hbad Hr0) as H. pose proof (rooted_read_tag s0 Hbad Hr0) as Hr1.
        pose proof (p_read_tag_queue cs s0) as Hqs. pose proof (p_read_tag_queue ct (wd s0 d)) as Hqt.
        destruct (p_read_tag cs s0) as [s1 rs]. destruct (p_read_tag ct (wd s0 d)) as [t1 rt]. cbn [fst snd] in *.
        destruct H as [[Heq [[d' [Ht Hsd]] [Hb Hdet]]]|[e [He [Hbt Hnp]]]]; cbn [fst snd] in *.
        -- subst t1 rt. apply (out_weaken _ (b_queue s1)); [rewrite Hqs; exact Hq0|]. apply cont_sim; assumption.
        -- subst rs. right; right; right. destruct Hq0 as [E1 HE1].
           destruct (rn_cont_prefix f ct t1 (Some rt)) as [new Hnew].
           exists E1, e, [], new. split; [|split].
           ++ cbn [rn_cont ppush_q pset_queue b_queue]. rewrite Hqs, HE1, <- app_assoc. reflexivity.
           ++ rewrite Hnew, Hqt, wd_queue, HE1, <- app_assoc. reflexivity.
           ++ intros H0. rewrite rn_cont_bad; [exact Hbt|rewrite buf_t; exact H0|].
              intros Hp. apply Hnp. inversion Hp. reflexivity.
    + (* buffer_master *)
      intros tid ts pre s d Hside Hbad Hroot Hbuf Hpre.
      set (T := p_buffer_master (S f) ct tid ts pre (length (b_queue s)) (wd s d)).
      assert (HG : qext (firstn pre (b_queue s)) (b_queue T)) by (exact (proj2 (rn_bm_prefix ct (S f)) tid ts pre (length (b_queue s)) (wd s d) Hpre Hpre)).
      assert (HT : T = _) by apply p_buffer_master_unfold. cbn zeta in HT. rewrite wd_queue, Nat.leb_refl in HT.
      rewrite p_buffer_master_unfold. cbn zeta. rewrite Nat.leb_refl.
      pose proof (IH1 s d Hside Hbad Hroot) as H1. pose proof (proj1 (rn_bm_prefix cs f) s) as Hq1.
      set (s1 := p_read_next f cs s) in *. set (t1 := p_read_next f ct (wd s d)) in *.
      destruct (qext_firstn_eq pre _ _ Hpre Hq1) as [Hf1 Hl1].
      destruct (b_bad s1) eqn:Ebs; [left; rewrite Ebs; discriminate|].
      destruct (b_bad t1) eqn:Ebt; [right; left; split; [rewrite HT, Ebt; discriminate|exact Hbuf]|].
      destruct H1 as [H1|[[H1 _]|[(_ & (d1 & Ht1 & Hs1) & Hr1)|(cp & e & rest & rest' & Hqs & Hqt & _)]]];
        [rewrite Ebs in H1; contradiction|rewrite Ebt in H1; contradiction| |].
      * (* the two readers still agree *)
        rewrite Ht1, !wd_queue in HT.
        destruct (length (b_queue s1) <=? length (b_queue s))%nat.
        -- rewrite HT, wd_push. apply out_lock; [exact Ebs|exact Hs1|]. eapply rooted_same; [| | |exact Hr1]; reflexivity.
        -- destruct (scan_queue tid (skipn (length (b_queue s)) (b_queue s1)) (length (b_queue s))) as [p found] eqn:Es.
           destruct found.
           ++ rewrite HT, wd_finish. destruct (finish_same tid ts pre s1 p) as (F1 & F2 & F3).
              destruct (b_bad (p_bm_finish tid ts pre s1 p)) eqn:Ef; [left; rewrite Ef; discriminate|].
              apply out_lock; [exact Ef|intros Hh; rewrite F3; apply Hs1, Hh|]. eapply rooted_same; [exact F1|exact F2|exact F3|exact Hr1].
           ++ destruct (scan_queue_nf _ _ _ _ Es) as [Hp _]. rewrite skipn_length in Hp.
              assert (Hp' : p = length (b_queue s1)) by (destruct Hq1 as [x Hx]; rewrite Hx, app_length in *; lia). clear Hp. subst p.
              rewrite HT, <- Hf1. apply IH2; [exact Hs1|exact Ebs|exact Hr1|exact Hbuf|exact Hl1].
      * (* the strict reader has met its fault inside the buffered master *)
        assert (Hlen : (length (b_queue s1) <=? length (b_queue s))%nat = false).
        { apply Nat.leb_gt. rewrite Hqs, !app_length. cbn [length]. lia. }
        rewrite Hlen, Hqs, skipn_exact.
        assert (Herr : forall e1, Out (firstn pre (b_queue s)) (pset_queue s1 (firstn pre (b_queue s) ++ [QErr e1])) T).
        { intros e1. right; right; right. destruct HG as [new HG]. exists [], e1, [], new.
          split; [reflexivity|]. split; [exact HG|intros H0; contradiction]. }
        destruct (split_hit tid cp) as [Hno|(P & x & Z & HP & Hnp & Hx)].
        -- rewrite (scan_app tid cp (QErr e) rest _ Hno eq_refl). rewrite <- app_length.
           rewrite (finish_at tid ts pre s1 (b_queue s ++ cp) (QErr e) rest); [|rewrite Hqs, <- app_assoc; reflexivity|rewrite app_length; lia].
           rewrite firstn_app_le by exact Hpre. apply Herr.
        -- subst cp. rewrite <- app_assoc, <- app_comm_cons.
           rewrite (scan_app tid P x (Z ++ QErr e :: rest) _ Hnp Hx). rewrite <- app_length.
           rewrite (finish_at tid ts pre s1 (b_queue s ++ P) x (Z ++ QErr e :: rest));
             [|rewrite Hqs, <- !app_assoc, <- app_comm_cons; reflexivity|rewrite app_length; lia].
           rewrite firstn_app_le by exact Hpre.
           destruct x as [t o|e1]; [|apply Herr].
           assert (Hlent : (length (b_queue t1) <=? length (b_queue s))%nat = false).
           { apply Nat.leb_gt. rewrite Hqt, !app_length. cbn [length]. lia. }
           rewrite Hlent, Hqt, skipn_exact, <- app_assoc, <- app_comm_cons in HT.
           rewrite (scan_app tid P (QOk t o) (Z ++ rest') _ Hnp Hx), <- app_length in HT.
           rewrite (finish_at tid ts pre t1 (b_queue s ++ P) (QOk t o) (Z ++ rest')) in HT;
             [|rewrite Hqt, <- !app_assoc, <- app_comm_cons; reflexivity|rewrite app_length; lia].
           rewrite firstn_app_le in HT by exact Hpre.
           right; right; right. exists ([QOk (roll_up_children tid (qtags (skipn pre (b_queue s ++ P)))) ts] ++ Z), e, rest, rest'.
           split; [cbn [pset_queue b_queue]; rewrite <- !app_assoc; reflexivity|].
           split; [rewrite HT; cbn [pset_queue b_queue]; rewrite <- !app_assoc; reflexivity|intros H0; contradiction].
Qed.

(* ------------------------------------------------------------------ the tolerant reader on its own: no panic *)
(* NoPanic.v assumes a specification whose implied-parent seeding never fails; here the seeding is never consulted with a
   non-root element: the path is determined (or the hierarchy is not checked at all) once the first element has been read *)
Definition HS (c : cfg) (st : pst) : Prop := b_det st = true \/ c_allow_hier c = true.
Definition Safe (c : cfg) (st : pst) : Prop :=
  HS c st \/ (forall id len, p_tag_id st = Ok (id, len) -> is_root (c_sp c) id = true).

Lemma safe_same c st st' : b_bytes st' = b_bytes st -> b_off st' = b_off st -> b_det st' = b_det st -> Safe c st -> Safe c st'.
Proof.
  intros Hb Ho Hd [[H|H]|H]; [left; left; congruence|left; right; exact H|right].
  intros id len Ht. apply (H id len). rewrite <- Ht. unfold p_tag_id, blen. rewrite Hb, Ho. reflexivity.
Qed.

Lemma hier_safe c st id : b_bad st = None -> (HS c st \/ is_root (c_sp c) id = true) ->
  b_bad (fst (p_hier_step c st id (get_type (c_sp c) id))) = None /\ HS c (fst (p_hier_step c st id (get_type (c_sp c) id))).
Proof.
  intros Hbad Hs. unfold p_hier_step. destruct (c_allow_hier c) eqn:Eh; cbn [negb andb fst]; [split; [exact Hbad|right; exact Eh]|].
  destruct (get_type (c_sp c) id) as [dty|] eqn:Ety; cbn [fst].
  - destruct (b_det st) eqn:Ed; cbn zeta iota.
    + rewrite Ed. destruct (true && _); cbn [fst]; (split; [exact Hbad|left; exact Ed]).
    + destruct Hs as [[H|H]|H]; [congruence|unfold HS in *; congruence|].
      destruct (is_root_spec _ _ H) as [_ Hp]. rewrite Hp. cbn [all_ids forallb implied_stack flat_map rev].
      destruct (_ && _); cbn [fst]; (split; [exact Hbad|left; reflexivity]).
  - split; [exact Hbad|]. destruct Hs as [H|H]; [exact H|]. destruct (is_root_spec _ _ H) as [[dty Hd] _]. congruence.
Qed.

Lemma header_safe c st : clean st -> Safe c st ->
  clean (fst (p_header c st)) /\ snd (p_header c st) <> Panic /\ Safe c (fst (p_header c st)) /\
  (forall h, snd (p_header c st) = Ok h -> HS c (fst (p_header c st))).
Proof.
  intros [Hn Hw] Hs. rewrite p_header_unfold. pose proof (p_tag_id_nopanic st) as Ht.
  destruct (p_tag_id st) as [[id idl]|e|] eqn:Et; [|split; [split; assumption|split; [discriminate|split; [exact Hs|discriminate]]]|contradiction].
  assert (Hs' : HS c st \/ is_root (c_sp c) id = true) by (destruct Hs as [H|H]; [left; exact H|right; exact (H id idl Et)]).
  unfold p_hdr_tail.
  assert (Hv : read_vint (firstn 8 (skipn idl (b_bytes st))) <> Panic) by (apply read_vint_nopanic, wf_firstn, wf_skipn, Hw).
  destruct (read_vint _) as [[[size sl]|]|e1|]; try (split; [split; assumption|split; [discriminate|split; [exact Hs|discriminate]]]); [|contradiction].
  destruct (is_numeric _ && _); [split; [split; assumption|split; [discriminate|split; [exact Hs|discriminate]]]|].
  destruct (negb (c_allow_id c) && _); [split; [split; assumption|split; [discriminate|split; [exact Hs|discriminate]]]|].
  destruct (hier_safe c st id Hn Hs') as [Hh Hhs].
  destruct (p_hier_step_pos c st id (get_type (c_sp c) id)) as [Hb _].
  destruct (p_hier_step _ _ _ _) as [st1 [e1|]]; cbn [fst snd] in *.
  - split; [split; [exact Hh|rewrite Hb; exact Hw]|split; [discriminate|split; [left; exact Hhs|discriminate]]].
  - rewrite Hh. destruct (_ && _); [cbn [fst snd]; split; [split; [exact Hh|rewrite Hb; exact Hw]|split; [discriminate|split; [left; exact Hhs|discriminate]]]|].
    destruct (c_max c); destruct (ebml_size size sl); try destruct (_ <? _); cbn [fst snd];
      (split; [split; [exact Hh|rewrite Hb; exact Hw]|split; [discriminate|split; [left; exact Hhs|intros h _; exact Hhs]]]).
Qed.

Lemma read_tag_safe c st : clean st -> Safe c st ->
  clean (fst (p_read_tag c st)) /\ snd (p_read_tag c st) <> Panic /\ Safe c (fst (p_read_tag c st)).
Proof.
  intros Hc Hs. rewrite p_read_tag_unfold. destruct (header_safe c st Hc Hs) as (H1 & H2 & H3 & H4).
  destruct (p_header c st) as [st1 [h|e|]]; cbn [fst snd] in *; [|split; [exact H1|split; [discriminate|exact H3]]|contradiction].
  destruct (tag_tail_facts c st1 (b_off st) h) as (F1 & F2 & F3). specialize (H4 h eq_refl).
  destruct h as [[[id ty] esz] hl].
  destruct (p_tag_tail c st1 (b_off st) (id, ty, esz, hl)) as [st2 r2] eqn:Et. cbn [fst snd] in *.
  assert (Hc2 : clean st2).
  { destruct (p_tag_tail_state c st1 (b_off st) id ty esz hl st2 r2 Et) as [->|[sz ->]]; [apply clean_consume, H1|apply clean_consume, clean_consume, H1]. }
  split; [exact Hc2|]. split; [exact F3|].
  left. destruct H4 as [H|H]; [left; rewrite F2; exact H|right; exact H].
Qed.

Lemma rn_bm_safe c : forall fuel,
  (forall st, clean st -> Safe c st -> nopanic (p_read_next fuel c st) /\ Safe c (p_read_next fuel c st)) /\
  (forall tid ts pre pos st, clean st -> Safe c st -> (pre <= pos)%nat ->
     nopanic (p_buffer_master fuel c tid ts pre pos st) /\ Safe c (p_buffer_master fuel c tid ts pre pos st)).
Proof.
  induction fuel as [|f [IH1 IH2]].
  - split; intros; (split; [apply nopanic_fuel, clean_nopanic; assumption|eapply safe_same; [| | |eassumption]; reflexivity]).
  - split.
    + intros st Hc Hs. rewrite p_read_next_unfold. cbn zeta.
      set (st1 := ppop_frames st _). assert (H1 : clean st1) by (eapply clean_logic; [| |exact Hc]; reflexivity).
      assert (Hs1 : Safe c st1) by (eapply safe_same; [| | |exact Hs]; reflexivity).
      unfold p_read_tag_checked. destruct (b_bytes st1) eqn:Eb.
      * destruct (c_emit_eof c); (split; [apply clean_nopanic; eapply clean_logic; [| |exact H1]; reflexivity|eapply safe_same; [| | |exact Hs1]; reflexivity]).
      * destruct (read_tag_safe c st1 H1 Hs1) as (H2 & Hr & Hs2). destruct (p_read_tag c st1) as [st2 r2]. cbn [fst snd] in *.
        destruct r2 as [p|e|]; [| |contradiction].
        -- destruct (p_tag p); try (split; [apply clean_nopanic; eapply clean_logic; [| |exact H2]; reflexivity|eapply safe_same; [| | |exact Hs2]; reflexivity]).
           destruct (mem_id _ _); [|split; [apply clean_nopanic; eapply clean_logic; [| |exact H2]; reflexivity|eapply safe_same; [| | |exact Hs2]; reflexivity]].
           apply IH2; [eapply clean_logic; [| |exact H2]; reflexivity|eapply safe_same; [| | |exact Hs2]; reflexivity|lia].
        -- split; [apply clean_nopanic; eapply clean_logic; [| |exact H2]; reflexivity|eapply safe_same; [| | |exact Hs2]; reflexivity].
    + intros tid ts pre pos st Hc Hs Hpre. rewrite p_buffer_master_unfold. cbn zeta.
      destruct (Nat.leb_spec (length (b_queue st)) pos) as [Hle|Hgt].
      * destruct (IH1 st Hc Hs) as [H1 Hs1]. destruct (b_bad (p_read_next f c st)) eqn:Eb; [split; assumption|].
        assert (Hc1 : clean (p_read_next f c st)) by (split; [exact Eb|apply H1]).
        destruct (Nat.leb_spec (length (b_queue (p_read_next f c st))) pos) as [Hle1|Hgt1].
        -- split; [apply clean_nopanic; eapply clean_logic; [| |exact Hc1]; reflexivity|eapply safe_same; [| | |exact Hs1]; reflexivity].
        -- destruct (scan_queue tid (skipn pos (b_queue (p_read_next f c st))) pos) as [p found] eqn:Es.
           destruct (scan_queue_spec _ _ _ _ _ Es) as [S1 S2]. destruct found.
           ++ destruct (finish_same tid ts pre (p_read_next f c st) p) as (F1 & F2 & F3).
              split; [|eapply safe_same; [exact F1|exact F2|exact F3|exact Hs1]].
              apply clean_nopanic, p_bm_finish_nopanic; [exact Hc1|lia|]. specialize (S2 eq_refl). rewrite skipn_length in S2. lia.
           ++ apply IH2; [exact Hc1|exact Hs1|lia].
      * destruct (scan_queue tid (skipn pos (b_queue st)) pos) as [p found] eqn:Es.
        destruct (scan_queue_spec _ _ _ _ _ Es) as [S1 S2]. destruct found.
        -- destruct (finish_same tid ts pre st p) as (F1 & F2 & F3).
           split; [|eapply safe_same; [exact F1|exact F2|exact F3|exact Hs]].
           apply clean_nopanic, p_bm_finish_nopanic; [exact Hc|lia|]. specialize (S2 eq_refl). rewrite skipn_length in S2. lia.
        -- apply IH2; [exact Hc|exact Hs|lia].
Qed.

(* the invariant of the tolerant run: clean, past (or at) the root element, recursion budget sufficient *)
Definition TInv (t : pst) : Prop := clean t /\ Safe ct t /\ Termination.Inv t.

Lemma tol_rn_ok t : TInv t -> b_bad (p_read_next (b_fuel t) ct t) = None /\ TInv (p_read_next (b_fuel t) ct t).
Proof.
  intros (Hc & Hs & Hi). destruct (proj1 (rn_bm_safe ct (b_fuel t)) t Hc Hs) as [Hnp Hs1].
  pose proof Hi as (Hw & Hn & Hf).
  pose proof (proj1 (rn_bm_fuel ct (b_fuel t)) t Hw Hn Hf) as Hnf.
  pose proof (proj1 (rn_bm_mono ct (b_fuel t)) t Hw) as Hm.
  set (t1 := p_read_next (b_fuel t) ct t) in *.
  assert (Hb : b_bad t1 = None) by (destruct Hnp as [[H|H] _]; [exact H|exfalso; exact (Hnf H)]).
  split; [exact Hb|]. split; [split; [exact Hb|apply Hnp]|]. split; [exact Hs1|]. eapply (inv_mono ct); eassumption.
Qed.

Lemma tinv_pop t q o : TInv t -> TInv (pset_last (pset_queue t q) o).
Proof.
  intros (Hc & Hs & Hi). split; [eapply clean_logic; [| |exact Hc]; reflexivity|].
  split; [eapply safe_same; [| | |exact Hs]; reflexivity|]. exact Hi.
Qed.

(* ------------------------------------------------------------------ next() and the drain, side by side *)
(* the strict reader has an error queued; everything queued before it is queued by the tolerant reader too *)
Definition DivQ (s t : pst) : Prop :=
  b_bad t = None /\ exists cp e rest rest', b_queue s = cp ++ QErr e :: rest /\ b_queue t = cp ++ rest'.
Definition Sim2 (s t : pst) : Prop := (b_bad s = None /\ RR s t /\ Rooted s) \/ DivQ s t.
(* what keeps the tolerant reader from panicking / running out of budget on its own *)
Definition Top (t : pst) : Prop := c_buffered cs = [] \/ TInv t.

Lemma top_pop t q o : Top t -> Top (pset_last (pset_queue t q) o).
Proof. intros [H|H]; [left; exact H|right; apply tinv_pop, H]. Qed.

(* as long as the strict reader delivers an item, the tolerant reader delivers the same item *)
Lemma next_sim s t s2 x o : Sim2 s t -> Top t -> p_next cs s = (s2, NItem x o) -> b_bad s2 = None ->
  exists t2, p_next ct t = (t2, NItem x o) /\ b_bad t2 = None /\ Sim2 s2 t2 /\ Top t2.
Proof.
  intros [(Hbad & (d & -> & Hside) & Hroot)|(Hbt & cp & e & rest & rest' & Hqs & Hqt)] Htop Hn Hb2.
  - destruct (b_queue s) as [|x0 q] eqn:Eq.
    + (* both read on *)
      unfold p_next in *. rewrite wd_queue, wd_fuel, Eq. rewrite Eq in Hn.
      pose proof (proj1 (rn_bm_sim (b_fuel s)) s d Hside Hbad Hroot) as Ho. rewrite Eq in Ho.
      assert (Htol : TInv (wd s d) -> b_bad (p_read_next (b_fuel s) ct (wd s d)) = None /\ TInv (p_read_next (b_fuel s) ct (wd s d)))
        by (intros H; exact (tol_rn_ok (wd s d) H)).
      set (s1 := p_read_next (b_fuel s) cs s) in *. set (t1 := p_read_next (b_fuel s) ct (wd s d)) in *.
      destruct (b_queue s1) as [|[x1 o1|e1] q1] eqn:Eq1; inversion Hn; subst s2 x1 o1. clear Hn.
      assert (Hb1 : b_bad s1 = None) by exact Hb2.
      assert (Ht1 : b_bad t1 = None /\ Top t1).
      { destruct Htop as [Hu|Hi]; [|destruct (Htol Hi) as [A B]; split; [exact A|right; exact B]].
        split; [|left; exact Hu].
        destruct Ho as [H|[[_ H]|[(_ & (d1 & -> & _) & _)|(cp & e & rest & rest' & _ & _ & H)]]];
          [contradiction|contradiction|exact Hb1|exact (H Hu)]. }
      destruct Ht1 as [Hbt1 Htop1].
      destruct Ho as [H|[[H _]|[(_ & (d1 & Ht1 & Hs1) & Hr1)|(cp & e & rest & rest' & Hqs & Hqt & _)]]];
        [contradiction|rewrite Hbt1 in H; contradiction| |].
      * rewrite Ht1, wd_queue, Eq1. exists (wd (pset_last (pset_queue s1 q1) o) d1).
        split; [reflexivity|]. split; [exact Hb1|]. split; [|pose proof (top_pop t1 q1 o Htop1) as Hx; rewrite Ht1 in Hx; exact Hx].
        left. split; [exact Hb1|]. split; [exists d1; split; [reflexivity|exact Hs1]|]. eapply rooted_same; [| | |exact Hr1]; reflexivity.
      * cbn [app] in Hqs, Hqt. rewrite Eq1 in Hqs. destruct cp as [|y cp']; cbn [app] in Hqs; [discriminate|].
        inversion Hqs; subst y q1. rewrite Hqt. cbn [app]. exists (pset_last (pset_queue t1 (cp' ++ rest')) o).
        split; [reflexivity|]. split; [exact Hbt1|]. split; [|apply top_pop, Htop1].
        right. split; [exact Hbt1|]. exists cp', e, rest, rest'. split; reflexivity.
    + (* both deliver what is queued *)
      destruct x0 as [x0 o0|e0]; [|unfold p_next in Hn; rewrite Eq in Hn; cbn iota in Hn; rewrite Eq in Hn; discriminate].
      rewrite (p_next_pop cs s x0 o0 q Eq) in Hn. inversion Hn; subst s2 x0 o0. clear Hn.
      exists (wd (pset_last (pset_queue s q) o) d). split; [apply (p_next_pop ct (wd s d) x o q); exact Eq|].
      split; [exact Hbad|]. split; [|apply (top_pop (wd s d) q o Htop)].
      left. split; [exact Hbad|]. split; [exists d; split; [reflexivity|exact Hside]|]. eapply rooted_same; [| | |exact Hroot]; reflexivity.
  - (* the strict reader's error is queued *)
    destruct cp as [|[x0 o0|e0] cp']; cbn [app] in Hqs, Hqt;
      [unfold p_next in Hn; rewrite Hqs in Hn; cbn iota in Hn; rewrite Hqs in Hn; discriminate|
      |unfold p_next in Hn; rewrite Hqs in Hn; cbn iota in Hn; rewrite Hqs in Hn; discriminate].
    rewrite (p_next_pop cs s x0 o0 _ Hqs) in Hn. inversion Hn; subst s2 x0 o0. clear Hn.
    exists (pset_last (pset_queue t (cp' ++ rest')) o). split; [apply (p_next_pop ct t x o _ Hqt)|].
    split; [exact Hbt|]. split; [|apply top_pop, Htop].
    right. split; [exact Hbt|]. exists cp', e, rest, rest'. split; reflexivity.
Qed.

Lemma run_all_sim : forall limit s t, Sim2 s t -> Top t ->
  exists rest, items_before_error (snd (p_run_all limit ct t)) = items_before_error (snd (p_run_all limit cs s)) ++ rest.
Proof.
  induction limit as [|l IH]; intros s t Hsim Htop; cbn [p_run_all]; [exists []; reflexivity|].
  destruct (p_next cs s) as [s2 r] eqn:En.
  destruct (b_bad s2) as [b|] eqn:Eb; [destruct b; eexists; reflexivity|].
  destruct r as [x o|e|]; [|eexists; reflexivity|eexists; reflexivity].
  destruct (next_sim s t s2 x o Hsim Htop En Eb) as (t2 & Hn & Hb & Hsim2 & Htop2). rewrite Hn, Hb.
  destruct (IH s2 t2 Hsim2 Htop2) as [rest Hr].
  destruct (p_run_all l cs s2) as [s3 outs]. destruct (p_run_all l ct t2) as [t3 outt]. cbn [snd items_before_error] in *.
  exists rest. rewrite Hr. reflexivity.
Qed.
End Mono.

(* ------------------------------------------------------------------ the theorems *)
Lemma p_run_drain c input : p_run c input [RAll] = snd (p_run_all (4 * length input + 64) c (p_init input)).
Proof.
  unfold p_run. cbn [p_run_ops]. destruct (p_run_all _ c (p_init input)) as [st1 outs].
  destruct (b_bad st1); cbn [snd]; [reflexivity|apply app_nil_r].
Qed.

Lemma strict_is_prefix_gen cs ct input : strict cs -> same_but_tolerances cs ct -> starts_at_root cs input ->
  wf_bytes input \/ c_buffered cs = [] ->
  exists rest, items_before_error (p_run ct input [RAll]) = items_before_error (p_run cs input [RAll]) ++ rest.
Proof.
  intros Hstrict Hsame Hroot Hmode. rewrite !p_run_drain. apply (run_all_sim cs ct Hstrict Hsame).
  - left. split; [reflexivity|]. split; [exists false; split; [reflexivity|intros _; reflexivity]|]. right. exact Hroot.
  - destruct Hmode as [Hw|Hu]; [right|left; exact Hu].
    split; [split; [reflexivity|exact Hw]|]. split; [|apply inv_init, Hw].
    right. intros id len Ht. destruct Hsame as [Hsp _]. rewrite Hsp. exact (Hroot id len Ht).
Qed.

(* C13, monotonicity: on well-formed bytes that start at a root element, what the strict reader delivers before its first
   error is a prefix of what any reader with more tolerance switched on delivers before its first error - whatever
   masters are buffered *)
Theorem strict_is_prefix : forall cs ct input, strict cs -> same_but_tolerances cs ct -> starts_at_root cs input -> wf_bytes input ->
  exists rest, items_before_error (p_run ct input [RAll]) = items_before_error (p_run cs input [RAll]) ++ rest.
Proof. intros cs ct input H1 H2 H3 H4. apply strict_is_prefix_gen; [exact H1|exact H2|exact H3|left; exact H4]. Qed.

(* without buffered masters the bytes need not even be bytes *)
Theorem strict_is_prefix_unbuffered : forall cs ct input, strict cs -> same_but_tolerances cs ct -> starts_at_root cs input ->
  c_buffered cs = [] ->
  exists rest, items_before_error (p_run ct input [RAll]) = items_before_error (p_run cs input [RAll]) ++ rest.
Proof. intros cs ct input H1 H2 H3 H4. apply strict_is_prefix_gen; [exact H1|exact H2|exact H3|right; exact H4]. Qed.
