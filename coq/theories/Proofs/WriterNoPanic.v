(* C18, writer half of "used with the iterator and writer a derived specification never triggers the 'bad specification' panics".
   After the repair D27 (a tag that answers as_binary() whose id is declared with a non-binary type is written as is, see
   Writer.raw_type) no call sequence whose tags are CONSISTENT with the specification - what the typing of a generated enum
   guarantees: a variant fixes id and value kind, RawTag may carry any id - makes the writer model panic, whatever the destination
   does.  Also: the bytes a raw tag with a declared non-binary id is written with. *)
From Ebml Require Import Base Tools Spec Writer Proofs.Tactics Proofs.SpecProofs Proofs.WriterProofs.
From Coq Require Import Lia List NArith.
Import ListNotations.
Local Open Scope N_scope.

(* ================================================================== raw tags with a declared id are written *)
Lemma append_append st a b : append (append st a) b = append st (a ++ b).
Proof. unfold append, set_buf. cbn [w_open w_buf w_dest w_script]. rewrite <- app_assoc. reflexivity. Qed.

(* RawTag(id, data) under an id declared with a type other than Binary (Master included), unknown-size option off, the id a
   well-formed vint: no hierarchy check, no panic: id, size field, data are appended, exactly as for an undeclared id *)
Lemma buffer_raw_declared sp id data o st ty : get_type sp id = Some ty -> ty <> DBinary -> o_unknown o = false -> is_vint id = true ->
  buffer_tag sp (TElem id (VRaw data)) o st =
  write_payload st id (size_len_of o) (sized_field (length data) (size_len_of o)) data.
Proof.
  intros Hty Hnb Hu Hv.
  assert (Hr : raw_type (TElem id (VRaw data)) (get_type sp id) = None).
  { rewrite Hty. apply raw_type_raw_nonbinary. intros E. inversion E. contradiction. }
  rewrite buffer_tag_eq. unfold should_validate, buffer_act. cbn [tag_id is_master_tag]. rewrite Hr, Hu.
  cbn [is_master_ty andb negb]. unfold write_element. rewrite Hv. reflexivity.
Qed.

Theorem writer_raw_written sp id data o st ty f : get_type sp id = Some ty -> ty <> DBinary -> o_unknown o = false -> is_vint id = true ->
  size_to_vint (N.of_nat (length data)) (size_len_of o) = Some f ->
  buffer_tag sp (TElem id (VRaw data)) o st = (append st (id_bytes id ++ f ++ data), WOk).
Proof.
  intros Hty Hnb Hu Hv Hf. rewrite (buffer_raw_declared sp id data o st ty Hty Hnb Hu Hv).
  unfold write_payload, sized_field. rewrite Hf, append_append. reflexivity.
Qed.

(* default options: the size field exists (it is the shortest one) as soon as the payload is shorter than 2^56-1 bytes *)
Theorem writer_raw_written_default sp id data st ty : get_type sp id = Some ty -> ty <> DBinary -> is_vint id = true ->
  N.of_nat (length data) < 2 ^ 56 - 1 ->
  exists f, size_to_vint (N.of_nat (length data)) O = Some f /\
            buffer_tag sp (TElem id (VRaw data)) o_default st = (append st (id_bytes id ++ f ++ data), WOk).
Proof.
  intros Hty Hnb Hv Hlen. destruct (size_to_vint_default _ Hlen) as [f Ef]. exists f. split; [exact Ef|].
  apply (writer_raw_written sp id data o_default st ty f Hty Hnb eq_refl Hv). exact Ef.
Qed.

(* ================================================================== consistent tags *)
(* what the typing of a generated enum guarantees: a variant fixes id and value kind; RawTag may carry any id *)
Fixpoint tag_consistent (sp : spec) (t : tag) : Prop :=
  match t with
  | TElem _ (VRaw _) => True
  | TElem id (VU _) => get_type sp id = Some DUInt
  | TElem id (VI _) => get_type sp id = Some DSInt
  | TElem id (VF _) => get_type sp id = Some DFloat
  | TElem id (VS _) => get_type sp id = Some DUtf8
  | TElem id (VB _) => get_type sp id = Some DBinary
  | TStart id | TEnd id => get_type sp id = Some DMaster
  | TFull id cs => get_type sp id = Some DMaster /\
                   (fix all (l : list tag) : Prop := match l with [] => True | c :: l' => tag_consistent sp c /\ all l' end) cs
  end.

Lemma tag_consistent_full sp id cs :
  tag_consistent sp (TFull id cs) <-> get_type sp id = Some DMaster /\ Forall (tag_consistent sp) cs.
Proof.
  cbn [tag_consistent].
  assert (H : (fix all (l : list tag) : Prop := match l with [] => True | c :: l' => tag_consistent sp c /\ all l' end) cs
              <-> Forall (tag_consistent sp) cs).
  { induction cs as [|x l IH]; [split; [constructor|trivial]|]. split.
    - intros [Hx Hl]. constructor; [exact Hx|apply IH, Hl].
    - intros HF. apply Forall_cons_iff in HF. destruct HF as [Hx Hl]. split; [exact Hx|apply IH, Hl]. }
  tauto.
Qed.

Definition op_consistent (sp : spec) (op : wop) : Prop :=
  match op with
  | OpWrite t _ | OpWriteUnknown t => tag_consistent sp t
  | OpRaw _ _ | OpFlush | OpIntoInner => True
  end.

(* the type the writer works with, for a consistent element *)
Definition val_ty_ok (ty : option dtype) (v : value) : Prop :=
  match v with
  | VU _ => ty = Some DUInt
  | VI _ => ty = Some DSInt
  | VF _ => ty = Some DFloat
  | VS _ => ty = Some DUtf8
  | VB _ => ty = Some DBinary
  | VRaw _ => ty = Some DBinary \/ ty = None
  end.

Lemma consistent_val_ty sp id v : tag_consistent sp (TElem id v) -> val_ty_ok (raw_type (TElem id v) (get_type sp id)) v.
Proof.
  destruct v; cbn [tag_consistent val_ty_ok]; intros H; raw_simpl; try exact H.
  - rewrite H. reflexivity.
  - destruct (get_type sp id) as [[]|]; cbn [raw_type]; first [left; reflexivity|right; reflexivity].
Qed.

(* ================================================================== the state invariant *)
(* every known-size master that is open started inside of the working buffer: `working_buffer.len() - start` cannot underflow *)
Definition frame_in (n : nat) (fr : N * wsize * nat) : Prop :=
  match snd (fst fr) with WKnown s => (s <= n)%nat | WUnknown => True end.

Definition winv (st : wst) : Prop := Forall (frame_in (length (w_buf st))) (w_open st).

Lemma frame_in_mono n m fr : (n <= m)%nat -> frame_in n fr -> frame_in m fr.
Proof. unfold frame_in. destruct (snd (fst fr)); [lia|trivial]. Qed.

Lemma frames_mono n m o : (n <= m)%nat -> Forall (frame_in n) o -> Forall (frame_in m) o.
Proof. intros Hle H. eapply Forall_impl; [|exact H]. intros fr. apply frame_in_mono, Hle. Qed.

Lemma winv_init script : winv (w_init script).
Proof. constructor. Qed.

Lemma winv_append st bs : winv st -> winv (append st bs).
Proof. unfold winv, append, set_buf. cbn [w_open w_buf]. apply frames_mono. rewrite app_length. lia. Qed.

Lemma winv_start_tag st id sl : winv st -> winv (start_tag st id sl).
Proof.
  unfold winv, start_tag, set_open. cbn [w_open w_buf]. intros H. constructor; [|exact H].
  unfold frame_in. cbn [fst snd]. lia.
Qed.

Lemma winv_start_unknown st id : winv st -> winv (start_unknown_size_tag st id).
Proof.
  unfold winv, start_unknown_size_tag, set_open, set_buf. cbn [w_open w_buf]. intros H. constructor; [exact I|].
  eapply frames_mono; [|exact H]. rewrite app_length. lia.
Qed.

Lemma frames_no_known n o : has_known o = false -> Forall (frame_in n) o.
Proof.
  induction o as [|fr o IH]; [constructor|]. cbn [has_known existsb]. intros H. apply Bool.orb_false_iff in H.
  destruct H as [H1 H2]. constructor; [|apply IH, H2]. unfold frame_in. destruct (snd (fst fr)); [discriminate H1|exact I].
Qed.

Lemma end_tag_inv st id st1 r : winv st -> end_tag st id = (st1, r) -> r <> WPanic /\ winv st1.
Proof.
  unfold winv, end_tag. intros Hi H.
  destruct (w_open st) as [|[[oid sz] sl] rest] eqn:Eo.
  { inversion H; subst. split; [discriminate|rewrite Eo; constructor]. }
  assert (Hst : Forall (frame_in (length (w_buf st))) (w_open st)) by (rewrite Eo; exact Hi).
  apply Forall_cons_iff in Hi. destruct Hi as [Hfr Hrest].
  destruct (oid =? id); [|inversion H; subst; split; [discriminate|exact Hst]].
  destruct sz as [start|].
  - unfold frame_in in Hfr. cbn [fst snd] in Hfr.
    destruct (Nat.ltb_spec (length (w_buf st)) start) as [Hlt|Hge]; [lia|].
    destruct (size_to_vint _ sl) as [sv|]; inversion H; subst; clear H; (split; [discriminate|]); [|exact Hst].
    cbn [set_open set_buf w_open w_buf]. eapply frames_mono; [|exact Hrest].
    rewrite !app_length, firstn_length, skipn_length. lia.
  - inversion H; subst. split; [discriminate|]. cbn [set_open w_open w_buf]. exact Hrest.
Qed.

(* ---- the size fields cannot panic: the width is 0 (default) or one of 1..8 *)
Lemma size_len_of_le o : (size_len_of o <= 8)%nat.
Proof.
  unfold size_len_of. destruct (o_len o) as [n|]; [|lia].
  destruct (Nat.leb_spec 1 n); destruct (Nat.leb_spec n 8); cbn [andb]; lia.
Qed.

Lemma small_size_field_no_panic sl n : (sl <= 8)%nat -> small_size_field sl n <> Panic.
Proof.
  intros Hsl. unfold small_size_field. destruct sl as [|w]; [discriminate|].
  unfold as_vint_with_length. destruct (Nat.leb_spec 1 (S w)); [|lia]. destruct (Nat.leb_spec (S w) 8); [|lia].
  cbn [andb]. unfold bind, check_size_u64. destruct (_ <=? _); discriminate.
Qed.

Lemma sized_field_no_panic len sl : sized_field len sl <> Panic.
Proof. unfold sized_field. destruct (size_to_vint _ _); discriminate. Qed.

Lemma write_payload_inv st id sl field payload st1 r : winv st -> field <> Panic ->
  write_payload st id sl field payload = (st1, r) -> r <> WPanic /\ winv st1.
Proof.
  intros Hi Hf H. unfold write_payload in H.
  destruct field as [f|e|]; [| |contradiction Hf; reflexivity]; inversion H; subst; (split; [discriminate|]);
    repeat apply winv_append; exact Hi.
Qed.

Lemma write_element_inv st id ty v sl st1 r : winv st -> (sl <= 8)%nat -> val_ty_ok ty v ->
  write_element st id ty v sl = (st1, r) -> r <> WPanic /\ winv st1.
Proof.
  intros Hi Hsl Hv H. unfold write_element in H.
  destruct v; cbn [val_ty_ok] in Hv; try (destruct Hv as [Hv|Hv]); subst ty.
  1,2,3: eapply write_payload_inv; [exact Hi|apply small_size_field_no_panic, Hsl|exact H].
  1,2,3: eapply write_payload_inv; [exact Hi|apply sized_field_no_panic|exact H].
  destruct (is_vint id); [eapply write_payload_inv; [exact Hi|apply sized_field_no_panic|exact H]|].
  inversion H; subst. split; [discriminate|exact Hi].
Qed.

(* ================================================================== buffer_tag *)
Definition buffer_np_stmt (sp : spec) (t : tag) : Prop :=
  forall o st st1 r, winv st -> tag_consistent sp t -> buffer_tag sp t o st = (st1, r) -> r <> WPanic /\ winv st1.

Lemma children_np sp cs : Forall (buffer_np_stmt sp) cs -> Forall (tag_consistent sp) cs ->
  forall floor st st1 r, winv st -> children_loop sp floor cs st = (st1, r) -> r <> WPanic /\ winv st1.
Proof.
  induction 1 as [|c cs Hc _ IH]; intros Hcons floor st st1 r Hi H.
  - cbn in H. inversion H; subst. split; [discriminate|exact Hi].
  - apply Forall_cons_iff in Hcons. destruct Hcons as [Hcc Hcl].
    cbn [children_loop] in H. destruct (buffer_tag sp c o_default st) as [st' r'] eqn:Eb.
    destruct (Hc _ _ _ _ Hi Hcc Eb) as [Hr' Hi'].
    destruct r'; [|inversion H; subst; split; [discriminate|exact Hi']|contradiction Hr'; reflexivity].
    destruct (_ <? _)%nat; [inversion H; subst; split; [discriminate|exact Hi']|].
    eapply (IH Hcl); [exact Hi'|exact H].
Qed.

Lemma buffer_np sp : forall t, buffer_np_stmt sp t.
Proof.
  induction t as [id v|id|id|id cs IHcs] using tag_ind'; unfold buffer_np_stmt;
    intros o st st1 r Hi Hc H; rewrite buffer_tag_eq in H; cbn [tag_id is_master_tag is_end] in H.
  - (* element *)
    apply consistent_val_ty in Hc. unfold should_validate, buffer_act in H. cbn [tag_id] in H.
    set (ty := raw_type (TElem id v) (get_type sp id)) in *.
    assert (Hm : is_master_ty ty = false).
    { destruct v; cbn [val_ty_ok] in Hc; try (destruct Hc as [Hc|Hc]); rewrite Hc; reflexivity. }
    rewrite Hm in H. cbn [andb negb] in H.
    destruct (o_unknown o); cbn [andb] in H; [inversion H; subst; split; [discriminate|exact Hi]|].
    destruct (_ && negb _); [inversion H; subst; split; [discriminate|exact Hi]|].
    assert (Hw : write_element st id ty v (size_len_of o) = (st1, r)).
    { destruct ty as [[]|]; exact H. }
    eapply write_element_inv; [exact Hi|apply size_len_of_le|exact Hc|exact Hw].
  - (* start *)
    cbn [tag_consistent] in Hc. raw_simpl. unfold should_validate, buffer_act in H. cbn [tag_id is_end] in H. raw_simpl.
    rewrite Hc in H. cbn [is_master_ty andb negb] in H. rewrite Bool.andb_false_r in H. cbn [andb] in H.
    destruct (negb _); [inversion H; subst; split; [discriminate|exact Hi]|].
    destruct (o_unknown o); inversion H; subst; (split; [discriminate|]); [apply winv_start_unknown, Hi|apply winv_start_tag, Hi].
  - (* end *)
    cbn [tag_consistent] in Hc. raw_simpl. unfold should_validate, buffer_act in H. cbn [tag_id is_end] in H. raw_simpl.
    rewrite Hc in H. cbn [is_master_ty andb negb] in H. rewrite Bool.andb_false_r in H. cbn [andb] in H.
    destruct (o_unknown o); eapply end_tag_inv; eassumption.
  - (* full *)
    apply tag_consistent_full in Hc. destruct Hc as [Hty Hcs].
    raw_simpl. unfold should_validate, buffer_act in H. cbn [tag_id is_end] in H. raw_simpl.
    rewrite Hty in H. cbn [is_master_ty andb negb] in H. rewrite Bool.andb_false_r in H. cbn [andb] in H.
    destruct (negb _); [inversion H; subst; split; [discriminate|exact Hi]|].
    assert (Hfull : forall stS, winv stS ->
              match children_loop sp (S (length (w_open st))) cs stS with
              | (st2, WOk) => end_tag st2 id
              | r0 => r0
              end = (st1, r) -> r <> WPanic /\ winv st1).
    { intros stS HiS Hm. destruct (children_loop sp (S (length (w_open st))) cs stS) as [st2 r2] eqn:Ec.
      destruct (children_np sp cs IHcs Hcs _ _ _ _ HiS Ec) as [Hr2 Hi2].
      destruct r2; [eapply end_tag_inv; eassumption|inversion Hm; subst; split; [discriminate|exact Hi2]|contradiction Hr2; reflexivity]. }
    destruct (o_unknown o).
    + apply (Hfull (start_unknown_size_tag st id)); [apply winv_start_unknown, Hi|exact H].
    + apply (Hfull (start_tag st id (size_len_of o))); [apply winv_start_tag, Hi|exact H].
Qed.

(* a raw tag never makes the writer panic, whatever its id, the specification, the options and the state *)
Theorem buffer_raw_never_panics sp id data o st : snd (buffer_tag sp (TElem id (VRaw data)) o st) <> WPanic.
Proof.
  rewrite buffer_tag_eq. unfold should_validate, buffer_act. cbn [tag_id is_master_tag].
  set (ty := raw_type (TElem id (VRaw data)) (get_type sp id)).
  assert (Hty : ty = Some DBinary \/ ty = None).
  { unfold ty. destruct (get_type sp id) as [[]|]; cbn [raw_type]; first [left; reflexivity|right; reflexivity]. }
  destruct Hty as [-> | ->]; cbn [is_master_ty andb negb]; destruct (o_unknown o); cbn [andb snd]; try discriminate.
  - destruct (negb _); cbn [snd]; [discriminate|]. unfold write_element, write_payload, sized_field.
    destruct (size_to_vint _ _); cbn [snd]; discriminate.
  - unfold write_element. destruct (is_vint id); [|cbn [snd]; discriminate]. unfold write_payload, sized_field.
    destruct (size_to_vint _ _); cbn [snd]; discriminate.
Qed.

(* ================================================================== the calls *)
Lemma flush_if_streaming_inv st st1 r : winv st -> flush_if_streaming st = (st1, r) -> r <> WPanic /\ winv st1.
Proof.
  unfold flush_if_streaming. intros Hi H. destruct (has_known (w_open st)) eqn:Ek.
  - inversion H; subst. split; [discriminate|exact Hi].
  - split.
    + unfold private_flush in H. destruct (write_all _ _ _) as [[d s] [x|]]; inversion H; discriminate.
    + destruct (private_flush_facts _ _ _ H) as [_ [_ Ho]]. unfold winv. rewrite Ho. apply frames_no_known, Ek.
Qed.

Lemma write_advanced_inv sp st t o st1 r : winv st -> tag_consistent sp t ->
  write_advanced sp st t o = (st1, r) -> r <> WPanic /\ winv st1.
Proof.
  unfold write_advanced. intros Hi Hc H. destruct (buffer_tag sp t o st) as [st' r'] eqn:Eb.
  destruct (buffer_np sp t o st st' r' Hi Hc Eb) as [Hr' Hi'].
  destruct r' as [|e|]; [eapply flush_if_streaming_inv; eassumption| |contradiction Hr'; reflexivity].
  inversion H; subst; clear H. split; [discriminate|].
  assert (Hne : WErr e <> WOk) by discriminate.
  destruct (buffer_ext sp t o st st st' (WErr e) (ext_refl st) Eb (or_intror (or_introl Hne))) as [[_ _ _ [suf Hb]] _].
  unfold winv, set_open, set_buf. cbn [w_open w_buf]. rewrite Hb, firstn_app, Nat.sub_diag, firstn_all. cbn [firstn].
  rewrite app_nil_r. exact Hi.
Qed.

Lemma end_all_inv : forall fuel st st1 r, winv st -> end_all fuel st = (st1, r) -> r <> WPanic /\ winv st1.
Proof.
  induction fuel as [|f IH]; intros st st1 r Hi H; cbn [end_all] in H; [inversion H; subst; split; [discriminate|exact Hi]|].
  destruct (w_open st) as [|[[id sz] sl] rest] eqn:Eo; [inversion H; subst; split; [discriminate|exact Hi]|].
  destruct (end_tag st id) as [st2 r2] eqn:Ee. destruct (end_tag_inv _ _ _ _ Hi Ee) as [Hr2 Hi2].
  destruct r2; [eapply IH; eassumption|inversion H; subst; split; [discriminate|exact Hi2]|contradiction Hr2; reflexivity].
Qed.

Lemma flush_inv st st1 r : winv st -> flush st = (st1, r) -> r <> WPanic /\ winv st1.
Proof.
  unfold flush. intros Hi H. destruct (end_all _ _) as [st' r'] eqn:Ee.
  destruct (end_all_inv _ _ _ _ Hi Ee) as [Hr' Hi'].
  destruct r' as [|e|]; [|inversion H; subst; split; [discriminate|exact Hi]|contradiction Hr'; reflexivity].
  apply end_all_closes in Ee; [|lia]. split.
  - unfold private_flush in H. destruct (write_all _ _ _) as [[d s] [x|]]; inversion H; discriminate.
  - destruct (private_flush_facts _ _ _ H) as [_ [_ Ho]]. unfold winv. rewrite Ho, Ee. constructor.
Qed.

Lemma write_raw_inv st id data st1 r : winv st -> write_raw st id data = (st1, r) -> r <> WPanic /\ winv st1.
Proof.
  unfold write_raw. intros Hi H. destruct (write_payload _ _ _ _ _) as [st' r'] eqn:Ew.
  destruct (write_payload_inv _ _ _ _ _ _ _ Hi (sized_field_no_panic _ _) Ew) as [Hr' Hi'].
  destruct r'; [eapply flush_if_streaming_inv; eassumption|inversion H; subst; split; [discriminate|exact Hi']|contradiction Hr'; reflexivity].
Qed.

Theorem wstep_no_panic sp st op st1 r : winv st -> op_consistent sp op -> wstep sp st op = (st1, r) -> r <> WPanic /\ winv st1.
Proof.
  intros Hi Hc H. destruct op as [t o|t|id data| |]; cbn [wstep op_consistent] in *.
  - eapply write_advanced_inv; eassumption.
  - eapply write_advanced_inv; eassumption.
  - eapply write_raw_inv; eassumption.
  - eapply flush_inv; eassumption.
  - eapply flush_inv; eassumption.
Qed.

Theorem wrun_no_panic sp : forall ops st, winv st -> Forall (op_consistent sp) ops ->
  Forall (fun x => fst x <> WPanic) (snd (wrun sp st ops)).
Proof.
  induction ops as [|op ops IH]; intros st Hi Hc; cbn [wrun]; [constructor|].
  apply Forall_cons_iff in Hc. destruct Hc as [Hop Hops].
  destruct (wstep sp st op) as [st1 r] eqn:Es. destruct (wstep_no_panic _ _ _ _ _ Hi Hop Es) as [Hr Hi1].
  specialize (IH st1 Hi1 Hops).
  destruct r; [| |contradiction Hr; reflexivity]; destruct (wrun sp st1 ops) as [st2 rs]; cbn [snd] in *;
    (constructor; [cbn [fst]; discriminate|exact IH]).
Qed.

(* for every specification, every destination script and every call sequence whose written tags are consistent with the
   specification: no call of the run panics *)
Theorem writer_no_panic sp ops script : Forall (op_consistent sp) ops ->
  Forall (fun x => fst x <> WPanic) (fst (run_writer sp ops script)).
Proof.
  intros Hc. unfold run_writer. pose proof (wrun_no_panic sp ops (w_init script) (winv_init script) Hc) as H.
  destruct (wrun sp (w_init script) ops) as [st rs]. exact H.
Qed.
