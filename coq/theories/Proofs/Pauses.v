(* C04, temporary end of file: a source that reports Ok(0) ("nothing right now") at a tag boundary and delivers more later.
   With end-of-stream closing disabled the reader then yields None, keeps its state, and continues on the next call.
   Method: (1) every function of the reader machine is parametric in the part of the read script it does not consume:
   replacing every Pause of the script by a (calm) Chunk 1 commutes with a step that consumes no Pause ([*_par]);
   hence such a step refines the abstract reader ([next_refines_nopause]); (2) a Pause met with an empty window, an empty
   queue and no exhausted frame is a no-op that yields None ([pause_boundary_noop]); (3) gluing the segments gives the
   run theorems ([pauses_many], [pause_one]). *)
From Ebml Require Import Base Tools Spec Reader Pure Proofs.Tactics Proofs.ReaderIO Proofs.Refine Proofs.Termination.

(* ------------------------------------------------------------------ scripts with pauses *)
Fixpoint npause (s : list rd) : nat :=
  match s with [] => O | Pause :: t => S (npause t) | _ :: t => npause t end.
Definition np (st : rst) : nat := npause (r_script st).

(* a source that may pause: no errors, no Chunk 0 *)
Definition calmP_rd (x : rd) : Prop := match x with Chunk n => 0 < n | Pause => True | Fail _ => False end.
Definition calmP (s : list rd) : Prop := Forall calmP_rd s.
Definition GoodP (st : rst) : Prop := WF st /\ calmP (r_script st).

(* the same script without its pauses' effect: every Pause becomes a one-byte read *)
Definition dp_rd (x : rd) : rd := match x with Pause => Chunk 1 | y => y end.
Definition dp (st : rst) : rst := set_script st (map dp_rd (r_script st)).

(* [a] is a later state of [b]: its script is a suffix of [b]'s, the recursion budget is the same *)
Definition sfx (a b : rst) : Prop := (exists u, r_script b = u ++ r_script a) /\ r_fuel a = r_fuel b.

Lemma npause_app u v : npause (u ++ v) = (npause u + npause v)%nat.
Proof. induction u as [|[n| |k] u IH]; cbn [app npause]; lia. Qed.

Lemma calm_npause s : calm s -> npause s = O.
Proof. induction 1 as [|x s Hx Hs IH]; [reflexivity|]. destruct x; cbn in Hx; try contradiction. exact IH. Qed.

Lemma calm_calmP s : calm s -> calmP s.
Proof. apply Forall_impl. intros [n| |k]; cbn; auto. Qed.

Lemma calmP_npause0 s : calmP s -> npause s = O -> calm s.
Proof.
  induction 1 as [|x s Hx Hs IH]; intros Hn; [constructor|].
  destruct x as [n| |k]; cbn [npause] in Hn; [|discriminate|contradiction].
  constructor; [exact Hx|exact (IH Hn)].
Qed.

Lemma calmP_dp s : calmP s -> calm (map dp_rd s).
Proof.
  induction 1 as [|x s Hx Hs IH]; [constructor|]. cbn [map]. constructor; [|exact IH].
  destruct x as [n| |k]; cbn in *; [exact Hx|lia|contradiction].
Qed.

Lemma sfx_refl a : sfx a a.
Proof. split; [exists []; reflexivity|reflexivity]. Qed.
Lemma sfx_trans a b d : sfx a b -> sfx b d -> sfx a d.
Proof. intros [[u Hu] Hf] [[v Hv] Hg]. split; [exists (v ++ u); rewrite Hv, Hu, app_assoc; reflexivity|congruence]. Qed.
Lemma sfx_same a b : r_script a = r_script b -> r_fuel a = r_fuel b -> sfx a b.
Proof. intros H1 H2. split; [exists []; rewrite H1; reflexivity|exact H2]. Qed.
Lemma sfx_np a b : sfx a b -> (np a <= np b)%nat.
Proof. intros [[u Hu] _]. unfold np. rewrite Hu, npause_app. lia. Qed.
Lemma sfx_calmP a b : sfx a b -> calmP (r_script b) -> calmP (r_script a).
Proof. intros [[u Hu] _] H. rewrite Hu in H. apply Forall_app in H. apply H. Qed.
Lemma sfx_fuel a b : sfx a b -> r_fuel a = r_fuel b.
Proof. intros [_ H]. exact H. Qed.

(* the pieces of the state that [dp] leaves alone *)
Lemma abs_dp st : Abs (dp st) = Abs st. Proof. reflexivity. Qed.
Lemma good_dp st : GoodP st -> Good (dp st).
Proof. intros [[Hw Hr] Hc]. split; [split; assumption|apply calmP_dp, Hc]. Qed.
Lemma np_dp_script st : r_script (dp st) = map dp_rd (r_script st). Proof. reflexivity. Qed.

Lemma set_cap_dp st m : set_cap (dp st) m = dp (set_cap st m). Proof. reflexivity. Qed.
Lemma set_stack_dp st stk d : set_stack (dp st) stk d = dp (set_stack st stk d). Proof. reflexivity. Qed.
Lemma set_queue_dp st q : set_queue (dp st) q = dp (set_queue st q). Proof. reflexivity. Qed.
Lemma set_last_dp st l : set_last (dp st) l = dp (set_last st l). Proof. reflexivity. Qed.
Lemma set_bad_dp st b : set_bad (dp st) b = dp (set_bad st b). Proof. reflexivity. Qed.
Lemma push_q_dp st items : push_q (dp st) items = dp (push_q st items). Proof. reflexivity. Qed.
Lemma pop_frames_dp st k : pop_frames (dp st) k = dp (pop_frames st k). Proof. reflexivity. Qed.
Lemma consume_dp st k : consume (dp st) k = dp (consume st k).
Proof. unfold consume. change (r_win (dp st)) with (r_win st). destruct (splitN k (r_win st)). reflexivity. Qed.

Lemma consume_sfx st k : sfx (consume st k) st.
Proof. unfold consume. destruct (splitN k (r_win st)). apply sfx_same; reflexivity. Qed.

(* ------------------------------------------------------------------ parametricity of the machine in the unread script *)
Lemma private_read_par st room :
  sfx (fst (private_read st room)) st /\
  (np (fst (private_read st room)) = np st ->
   private_read (dp st) room = (dp (fst (private_read st room)), snd (private_read st room))).
Proof.
  destruct st as [win wlen off cap rest rlen script stk q last det bad fuel].
  unfold private_read, np, dp, deliver, set_script, upd_io, sfx.
  cbn [r_win r_wlen r_off r_cap r_rest r_rlen r_script r_stack r_queue r_last r_det r_bad r_fuel].
  destruct script as [|[n| |code] s]; cbn [map dp_rd npause].
  - destruct (N.min room rlen =? 0); cbn [fst snd r_script r_fuel].
    + split; [split; [exists []; reflexivity|reflexivity]|reflexivity].
    + destruct (splitN (N.min room rlen) rest) as [a b]. cbn [fst snd r_script r_fuel].
      split; [split; [exists []; reflexivity|reflexivity]|reflexivity].
  - destruct (N.min (N.min n room) rlen =? 0); cbn [fst snd r_script r_fuel].
    + split; [split; [exists [Chunk n]; reflexivity|reflexivity]|reflexivity].
    + destruct (splitN (N.min (N.min n room) rlen) rest) as [a b]. cbn [fst snd r_script r_fuel].
      split; [split; [exists [Chunk n]; reflexivity|reflexivity]|reflexivity].
  - cbn [fst snd r_script r_fuel]. split; [split; [exists [Pause]; reflexivity|reflexivity]|intros H; lia].
  - cbn [fst snd r_script r_fuel]. split; [split; [exists [Fail code]; reflexivity|reflexivity]|reflexivity].
Qed.

Lemma ensure_loop_par n : forall fuel st,
  sfx (fst (ensure_loop fuel n st)) st /\
  (np (fst (ensure_loop fuel n st)) = np st ->
   ensure_loop fuel n (dp st) = (dp (fst (ensure_loop fuel n st)), snd (ensure_loop fuel n st))).
Proof.
  induction fuel as [|f IH]; intros st.
  - cbn [ensure_loop fst snd]. split; [apply sfx_same; reflexivity|intros _; reflexivity].
  - cbn [ensure_loop]. change (r_wlen (dp st)) with (r_wlen st).
    destruct (n <=? r_wlen st); [split; [apply sfx_refl|intros _; reflexivity]|].
    change (set_cap (dp st) (N.max (r_cap (dp st)) n)) with (dp (set_cap st (N.max (r_cap st) n))).
    set (st1 := set_cap st (N.max (r_cap st) n)).
    change (r_cap (dp st1) - r_wlen (dp st1)) with (r_cap st1 - r_wlen st1).
    assert (S0 : sfx st1 st) by (apply sfx_same; reflexivity).
    assert (E0 : np st1 = np st) by reflexivity.
    destruct (private_read_par st1 (r_cap st1 - r_wlen st1)) as [S1 C1].
    destruct (private_read st1 (r_cap st1 - r_wlen st1)) as [st2 r2]. cbn [fst snd] in S1, C1.
    pose proof (sfx_np _ _ S1) as L1.
    destruct r2 as [[|]|e|].
    + destruct (IH st2) as [S2 C2]. pose proof (sfx_np _ _ S2) as L2.
      split; [eapply sfx_trans; [exact S2|eapply sfx_trans; [exact S1|exact S0]]|].
      intros Hn. rewrite C1 by lia. apply C2. lia.
    + cbn [fst snd]. split; [eapply sfx_trans; [exact S1|exact S0]|]. intros Hn. rewrite C1 by lia. reflexivity.
    + cbn [fst snd]. split; [eapply sfx_trans; [exact S1|exact S0]|]. intros Hn. rewrite C1 by lia. reflexivity.
    + cbn [fst snd]. split; [eapply sfx_trans; [exact S1|exact S0]|]. intros Hn. rewrite C1 by lia. reflexivity.
Qed.

Lemma ensure_par n st :
  sfx (fst (ensure n st)) st /\
  (np (fst (ensure n st)) = np st -> ensure n (dp st) = (dp (fst (ensure n st)), snd (ensure n st))).
Proof.
  unfold ensure. change (length (r_script (dp st))) with (length (map dp_rd (r_script st))). rewrite map_length.
  apply ensure_loop_par.
Qed.

Lemma peek_tag_id_fst st : fst (peek_tag_id st) = fst (ensure 8 st).
Proof.
  unfold peek_tag_id. destruct (ensure 8 st) as [st1 [b|e|]]; cbn [fst]; try reflexivity.
  destruct (r_win st1) as [|b0 w]; [reflexivity|]. destruct (b0 =? 0); [reflexivity|].
  destruct (r_wlen st1 <? _); reflexivity.
Qed.

Lemma peek_tag_id_par st :
  sfx (fst (peek_tag_id st)) st /\
  (np (fst (peek_tag_id st)) = np st -> peek_tag_id (dp st) = (dp (fst (peek_tag_id st)), snd (peek_tag_id st))).
Proof.
  rewrite peek_tag_id_fst. destruct (ensure_par 8 st) as [S1 C1]. split; [exact S1|]. intros Hn. specialize (C1 Hn).
  unfold peek_tag_id. rewrite C1. destruct (ensure 8 st) as [st1 [b|e|]]; cbn [fst snd]; try reflexivity.
  change (r_win (dp st1)) with (r_win st1). change (r_wlen (dp st1)) with (r_wlen st1).
  destruct (r_win st1) as [|b0 w]; [reflexivity|]. destruct (b0 =? 0); [reflexivity|].
  destruct (r_wlen st1 <? _); reflexivity.
Qed.

(* the parse-logic part of a header: no I/O *)
Definition keeps (a b : rst) : Prop := r_script a = r_script b /\ r_fuel a = r_fuel b.
Lemma keeps_sfx a b : keeps a b -> sfx a b.
Proof. intros [H1 H2]. apply sfx_same; assumption. Qed.
Lemma keeps_np a b : keeps a b -> np a = np b.
Proof. intros [H1 _]. unfold np. rewrite H1. reflexivity. Qed.

Lemma hier_step_par c st id ty :
  keeps (fst (hier_step c st id ty)) st /\
  hier_step c (dp st) id ty = (dp (fst (hier_step c st id ty)), snd (hier_step c st id ty)).
Proof.
  unfold hier_step. change (r_det (dp st)) with (r_det st). change (r_stack (dp st)) with (r_stack st).
  destruct (negb (c_allow_hier c) && _); [|split; [split; reflexivity|reflexivity]].
  destruct (r_det st) eqn:Ed.
  - change (r_det (dp st)) with (r_det st). change (r_stack (dp st)) with (r_stack st). rewrite Ed. cbn [andb].
    destruct (negb (validate_tag_path _ _ _)); (split; [split; reflexivity|reflexivity]).
  - destruct (all_ids _).
    + destruct (implied_stack _ _) as [stk|].
      * cbn [set_stack r_det r_stack andb dp set_script upd_io].
        destruct (negb (validate_tag_path _ _ _)); (split; [split; reflexivity|reflexivity]).
      * split; [split; reflexivity|reflexivity].
    + change (r_det (dp st)) with (r_det st). rewrite Ed. cbn [andb]. split; [split; reflexivity|reflexivity].
Qed.

Lemma hdr_tail_par c st id idl :
  keeps (fst (hdr_tail c st id idl)) st /\
  hdr_tail c (dp st) id idl = (dp (fst (hdr_tail c st id idl)), snd (hdr_tail c st id idl)).
Proof.
  unfold hdr_tail. change (r_win (dp st)) with (r_win st). change (r_off (dp st)) with (r_off st).
  destruct (read_vint _) as [[[size size_len]|]| |]; try (split; [split; reflexivity|reflexivity]).
  destruct (is_numeric _ && _); [split; [split; reflexivity|reflexivity]|].
  destruct (negb (c_allow_id c) && _); [split; [split; reflexivity|reflexivity]|].
  destruct (hier_step_par c st id (get_type (c_sp c) id)) as [K1 C1]. rewrite C1.
  destruct (hier_step c st id (get_type (c_sp c) id)) as [st1 e1]. cbn [fst snd] in *.
  destruct e1; [split; [exact K1|reflexivity]|].
  change (r_bad (dp st1)) with (r_bad st1). destruct (r_bad st1); [split; [exact K1|reflexivity]|].
  change (is_invalid_tag_size (dp st1)) with (is_invalid_tag_size st1).
  destruct (negb (c_allow_over c) && _); [split; [exact K1|reflexivity]|].
  destruct (c_max c) as [m|]; destruct (ebml_size size size_len) as [n|]; try destruct (m <? n);
    (split; [exact K1|reflexivity]).
Qed.

Lemma peek_header_par c st :
  sfx (fst (peek_header c st)) st /\
  (np (fst (peek_header c st)) = np st -> peek_header c (dp st) = (dp (fst (peek_header c st)), snd (peek_header c st))).
Proof.
  rewrite !peek_header_unfold.
  destruct (ensure_par 16 st) as [S1 C1]. destruct (ensure 16 st) as [st1 r1]. cbn [fst snd] in S1, C1.
  pose proof (sfx_np _ _ S1) as L1.
  destruct r1 as [b1|e1|].
  2:{ cbn [fst snd]. split; [exact S1|]. intros Hn. rewrite C1 by exact Hn. reflexivity. }
  2:{ cbn [fst snd]. split; [exact S1|]. intros Hn. rewrite C1 by exact Hn. reflexivity. }
  destruct (peek_tag_id_par st1) as [S2 C2]. destruct (peek_tag_id st1) as [st2 r2]. cbn [fst snd] in S2, C2.
  pose proof (sfx_np _ _ S2) as L2.
  destruct r2 as [[id idl]|e2|].
  2:{ cbn [fst snd]. split; [eapply sfx_trans; eassumption|]. intros Hn. rewrite C1 by lia. rewrite C2 by lia. reflexivity. }
  2:{ cbn [fst snd]. split; [eapply sfx_trans; eassumption|]. intros Hn. rewrite C1 by lia. rewrite C2 by lia. reflexivity. }
  destruct (hdr_tail_par c st2 id idl) as [K3 C3]. pose proof (keeps_np _ _ K3) as E3.
  split; [eapply sfx_trans; [apply keeps_sfx, K3|eapply sfx_trans; eassumption]|].
  intros Hn. rewrite C1 by lia. rewrite C2 by lia. exact C3.
Qed.

Lemma tag_tail_par c st ts h :
  sfx (fst (tag_tail c st ts h)) st /\
  (np (fst (tag_tail c st ts h)) = np st -> tag_tail c (dp st) ts h = (dp (fst (tag_tail c st ts h)), snd (tag_tail c st ts h))).
Proof.
  destruct h as [[[id ty] esz] hl]. unfold tag_tail. rewrite consume_dp.
  pose proof (consume_sfx st (N.of_nat hl)) as Sc. set (stc := consume st (N.of_nat hl)) in *.
  change (r_off (dp stc)) with (r_off stc).
  destruct ty as [[]|]; destruct esz as [size|]; cbv beta iota;
    try (split; [exact Sc|intros _; reflexivity]).
  all: change (set_cap (dp stc) (N.max (r_cap (dp stc)) size)) with (dp (set_cap stc (N.max (r_cap stc) size)));
    set (st1 := set_cap stc (N.max (r_cap stc) size));
    assert (S1 : sfx st1 st) by (eapply sfx_trans; [apply sfx_same; reflexivity|exact Sc]);
    destruct (ensure_par size st1) as [S2 C2]; destruct (ensure size st1) as [st2 r2]; cbn [fst snd] in S2, C2;
    pose proof (sfx_np _ _ S1) as L1; pose proof (sfx_np _ _ S2) as L2;
    assert (S3 : sfx st2 st) by (eapply sfx_trans; eassumption);
    destruct r2 as [[|]|e|];
    try (cbn [fst snd]; split; [exact S3|intros Hn; rewrite C2 by lia; reflexivity]).
  all: pose proof (consume_sfx st2 size) as S4; pose proof (sfx_np _ _ S4) as L4;
    assert (S5 : sfx (consume st2 size) st) by (eapply sfx_trans; eassumption).
  all: match goal with |- context [splitN ?k (r_win ?s)] => destruct (splitN k (r_win s)) as [raw rest'] eqn:Esp end.
  all: try match goal with |- context [arr_to_u64 ?r] => destruct (arr_to_u64 r) eqn:Ea end.
  all: try match goal with |- context [arr_to_i64 ?r] => destruct (arr_to_i64 r) eqn:Ea end.
  all: try match goal with |- context [arr_to_f64 ?r] => destruct (arr_to_f64 r) eqn:Ea end.
  all: try match goal with |- context [utf8_valid ?r] => destruct (utf8_valid r) eqn:Ea end.
  all: cbn [fst snd]; (split; [exact S5|]); intros Hn; rewrite C2 by lia;
    change (r_win (dp st2)) with (r_win st2); rewrite Esp, consume_dp, ?Ea; reflexivity.
Qed.

Lemma read_tag_par c st :
  sfx (fst (read_tag c st)) st /\
  (np (fst (read_tag c st)) = np st -> read_tag c (dp st) = (dp (fst (read_tag c st)), snd (read_tag c st))).
Proof.
  rewrite !read_tag_unfold. change (r_off (dp st)) with (r_off st).
  destruct (peek_header_par c st) as [S1 C1]. destruct (peek_header c st) as [st1 r1]. cbn [fst snd] in S1, C1.
  pose proof (sfx_np _ _ S1) as L1.
  destruct r1 as [h|e|].
  2:{ cbn [fst snd]. split; [exact S1|]. intros Hn. rewrite C1 by exact Hn. reflexivity. }
  2:{ cbn [fst snd]. split; [exact S1|]. intros Hn. rewrite C1 by exact Hn. reflexivity. }
  destruct (tag_tail_par c st1 (r_off st) h) as [S2 C2]. pose proof (sfx_np _ _ S2) as L2.
  split; [eapply sfx_trans; eassumption|]. intros Hn. rewrite C1 by lia. apply C2. lia.
Qed.

Lemma read_tag_checked_par c st :
  sfx (fst (read_tag_checked c st)) st /\
  (np (fst (read_tag_checked c st)) = np st ->
   read_tag_checked c (dp st) = (dp (fst (read_tag_checked c st)), snd (read_tag_checked c st))).
Proof.
  unfold read_tag_checked. change (r_wlen (dp st)) with (r_wlen st).
  destruct (r_wlen st =? 0).
  - destruct (ensure_par 1 st) as [S1 C1]. destruct (ensure 1 st) as [st1 r1]. cbn [fst snd] in S1, C1.
    pose proof (sfx_np _ _ S1) as L1.
    destruct r1 as [[|]|e|].
    2:{ cbn [fst snd]. split; [exact S1|]. intros Hn. rewrite C1 by exact Hn. reflexivity. }
    2:{ cbn [fst snd]. split; [exact S1|]. intros Hn. rewrite C1 by exact Hn. reflexivity. }
    2:{ cbn [fst snd]. split; [exact S1|]. intros Hn. rewrite C1 by exact Hn. reflexivity. }
    destruct (read_tag_par c st1) as [S2 C2]. destruct (read_tag c st1) as [st2 r2]. cbn [fst snd] in *.
    pose proof (sfx_np _ _ S2) as L2.
    split; [eapply sfx_trans; eassumption|]. intros Hn. rewrite C1 by lia. rewrite C2 by lia. reflexivity.
  - destruct (read_tag_par c st) as [S2 C2]. destruct (read_tag c st) as [st2 r2]. cbn [fst snd] in *.
    split; [exact S2|]. intros Hn. rewrite C2 by exact Hn. reflexivity.
Qed.

Lemma bm_finish_par tid ts pre st pos :
  keeps (bm_finish tid ts pre st pos) st /\ bm_finish tid ts pre (dp st) pos = dp (bm_finish tid ts pre st pos).
Proof.
  unfold bm_finish. change (r_queue (dp st)) with (r_queue st).
  destruct (nth_error (skipn pre (r_queue st)) (pos - pre)) as [[t o|e]|]; (split; [split; reflexivity|reflexivity]).
Qed.

Lemma rn_bm_par c : forall fuel,
  (forall st, sfx (read_next fuel c st) st /\
              (np (read_next fuel c st) = np st -> read_next fuel c (dp st) = dp (read_next fuel c st))) /\
  (forall tid ts pre pos st, sfx (buffer_master fuel c tid ts pre pos st) st /\
              (np (buffer_master fuel c tid ts pre pos st) = np st ->
               buffer_master fuel c tid ts pre pos (dp st) = dp (buffer_master fuel c tid ts pre pos st))).
Proof.
  induction fuel as [|f [IH1 IH2]].
  - split; intros; (split; [apply sfx_same; reflexivity|intros _; reflexivity]).
  - split.
    + intros st. rewrite !read_next_unfold. cbn zeta.
      change (exhausted_count (r_off (dp st)) (r_stack (dp st))) with (exhausted_count (r_off st) (r_stack st)).
      rewrite pop_frames_dp.
      set (st1 := pop_frames st (exhausted_count (r_off st) (r_stack st))).
      assert (S0 : sfx st1 st) by (apply sfx_same; reflexivity). assert (E0 : np st1 = np st) by reflexivity.
      destruct (read_tag_checked_par c st1) as [S2 C2]. destruct (read_tag_checked c st1) as [st2 r2]. cbn [fst snd] in S2, C2.
      pose proof (sfx_np _ _ S2) as L2. assert (S3 : sfx st2 st) by (eapply sfx_trans; eassumption).
      destruct r2 as [[p|e|]|].
      * set (st3 := pop_frames st2 (count_ended (c_sp c) (tag_id (p_tag p)) (stack_view (r_stack st2)))).
        assert (E3 : np st3 = np st2) by reflexivity.
        assert (S4 : sfx st3 st) by (eapply sfx_trans; [apply sfx_same; reflexivity|exact S3]).
        assert (Hc : np st3 = np st -> read_tag_checked c (dp st1) = (dp st2, Some (Ok p))) by (intros Hn; apply C2; lia).
        destruct (p_tag p) eqn:Et; try (split; [exact S4|intros Hn; rewrite (Hc Hn); cbv beta iota; rewrite Et; reflexivity]).
        set (st4 := set_stack st3 _ (r_det st3)).
        assert (E4 : np st4 = np st3) by reflexivity.
        assert (S5 : sfx st4 st) by (eapply sfx_trans; [apply sfx_same; reflexivity|exact S4]).
        destruct (mem_id _ (c_buffered c)) eqn:Em.
        2:{ split; [exact S5|]. intros Hn. rewrite (Hc Hn). cbv beta iota. rewrite Et, Em. reflexivity. }
        destruct (IH2 (tag_id (TStart id)) (p_start p) (length (r_queue st4)) (length (r_queue st4)) st4) as [S6 C6].
        pose proof (sfx_np _ _ S6) as L6.
        split; [eapply sfx_trans; eassumption|].
        intros Hn. assert (Hn3 : np st3 = np st) by (pose proof (sfx_np _ _ S5); lia).
        rewrite (Hc Hn3). cbv beta iota. rewrite Et, Em.
        refine (eq_trans _ (C6 _)); [reflexivity|lia].
      * split; [exact S3|intros Hn; rewrite C2 by (change (np (push_q st2 [QErr e])) with (np st2) in Hn; lia); reflexivity].
      * split; [exact S3|intros Hn; rewrite C2 by (change (np (set_bad st2 BPanic)) with (np st2) in Hn; lia); reflexivity].
      * destruct (c_emit_eof c).
        -- split; [exact S3|intros Hn; rewrite C2 by (change (np (pop_frames st2 (length (r_stack st2)))) with (np st2) in Hn; lia); reflexivity].
        -- split; [exact S3|intros Hn; rewrite C2 by lia; reflexivity].
    + intros tid ts pre pos st. rewrite !buffer_master_unfold. cbn zeta. change (r_queue (dp st)) with (r_queue st).
      destruct (length (r_queue st) <=? pos)%nat.
      * destruct (IH1 st) as [S1 C1]. pose proof (sfx_np _ _ S1) as L1. set (st1 := read_next f c st) in *.
        destruct (r_bad st1) eqn:Eb.
        { split; [exact S1|]. intros Hn. rewrite C1 by exact Hn. change (r_bad (dp st1)) with (r_bad st1). rewrite Eb. reflexivity. }
        destruct (length (r_queue st1) <=? pos)%nat eqn:El.
        { split; [exact S1|]. intros Hn. rewrite C1 by exact Hn. change (r_bad (dp st1)) with (r_bad st1). rewrite Eb.
          change (r_queue (dp st1)) with (r_queue st1). rewrite El. reflexivity. }
        destruct (scan_queue tid (skipn pos (r_queue st1)) pos) as [p found] eqn:Es. destruct found.
        -- destruct (bm_finish_par tid ts pre st1 p) as [K2 C2]. pose proof (keeps_np _ _ K2) as E2.
           split; [eapply sfx_trans; [apply keeps_sfx, K2|exact S1]|]. intros Hn. rewrite C1 by lia.
           change (r_bad (dp st1)) with (r_bad st1). rewrite Eb. change (r_queue (dp st1)) with (r_queue st1). rewrite El, Es. exact C2.
        -- destruct (IH2 tid ts pre p st1) as [S2 C2]. pose proof (sfx_np _ _ S2) as L2.
           split; [eapply sfx_trans; eassumption|]. intros Hn. rewrite C1 by lia.
           change (r_bad (dp st1)) with (r_bad st1). rewrite Eb. change (r_queue (dp st1)) with (r_queue st1). rewrite El, Es. apply C2. lia.
      * destruct (scan_queue tid (skipn pos (r_queue st)) pos) as [p found] eqn:Es. destruct found.
        -- destruct (bm_finish_par tid ts pre st p) as [K2 C2]. split; [apply keeps_sfx, K2|intros _; exact C2].
        -- apply IH2.
Qed.

Lemma next_par c st :
  sfx (fst (next c st)) st /\
  (np (fst (next c st)) = np st -> next c (dp st) = (dp (fst (next c st)), snd (next c st))).
Proof.
  unfold next. change (r_queue (dp st)) with (r_queue st). change (r_fuel (dp st)) with (r_fuel st).
  assert (H : sfx (match r_queue st with [] => read_next (r_fuel st) c st | _ :: _ => st end) st /\
              (np (match r_queue st with [] => read_next (r_fuel st) c st | _ :: _ => st end) = np st ->
               match r_queue st with [] => read_next (r_fuel st) c (dp st) | _ :: _ => dp st end =
               dp (match r_queue st with [] => read_next (r_fuel st) c st | _ :: _ => st end))).
  { destruct (r_queue st); [apply rn_bm_par|split; [apply sfx_refl|intros _; reflexivity]]. }
  set (st1 := match r_queue st with [] => read_next (r_fuel st) c st | _ :: _ => st end) in *.
  destruct H as [S1 C1].
  assert (Hq : forall X, r_queue (dp X) = r_queue X) by reflexivity.
  destruct (r_queue st1) as [|[t o|e] q] eqn:Eq; cbn [fst snd].
  - split; [exact S1|]. intros Hn. rewrite (C1 Hn), Hq, Eq. reflexivity.
  - split; [eapply sfx_trans; [apply sfx_same; reflexivity|exact S1]|]. intros Hn.
    rewrite (C1 Hn), Hq, Eq. reflexivity.
  - split; [eapply sfx_trans; [apply sfx_same; reflexivity|exact S1]|]. intros Hn.
    rewrite (C1 Hn), Hq, Eq. reflexivity.
Qed.

(* ------------------------------------------------------------------ a step that consumes no Pause refines the abstract reader *)
Lemma next_sfx c st : sfx (fst (next c st)) st.
Proof. apply next_par. Qed.

Theorem next_refines_nopause c st : GoodP st -> np (fst (next c st)) = np st ->
  GoodP (fst (next c st)) /\ Abs (fst (next c st)) = fst (p_next c (Abs st)) /\ snd (next c st) = snd (p_next c (Abs st)).
Proof.
  intros HG Hn. destruct (next_par c st) as [S1 C1]. specialize (C1 Hn).
  destruct (next_refines c (dp st) (good_dp st HG)) as [[HW _] [HA HR]].
  rewrite C1 in HW, HA, HR. cbn [fst snd] in HW, HA, HR. rewrite abs_dp in HA. rewrite abs_dp in HA.
  split; [split; [exact HW|eapply sfx_calmP; [exact S1|apply HG]]|]. split; [exact HA|exact HR].
Qed.

(* ------------------------------------------------------------------ a Pause met at a tag boundary *)
(* the state after the call that met the pause: only the script (and a zero capacity) changed *)
Definition after_pause (st : rst) (s : list rd) : rst :=
  upd_io st (r_win st) (r_wlen st) (r_off st) (N.max (r_cap st) 1) (r_rest st) (r_rlen st) s.

Lemma private_read_pause st room s : r_script st = Pause :: s -> private_read st room = (set_script st s, Ok false).
Proof. intros H. unfold private_read. rewrite H. reflexivity. Qed.

Lemma ensure_pause st s : r_script st = Pause :: s -> r_wlen st = 0 ->
  ensure 1 st = (set_script (set_cap st (N.max (r_cap st) 1)) s, Ok false).
Proof.
  intros Hs Hw. unfold ensure. cbn [ensure_loop]. rewrite Hw. replace (1 <=? 0) with false by reflexivity.
  rewrite (private_read_pause _ _ s) by exact Hs. reflexivity.
Qed.

Lemma read_tag_checked_pause c st s : r_script st = Pause :: s -> r_wlen st = 0 ->
  read_tag_checked c st = (set_script (set_cap st (N.max (r_cap st) 1)) s, None).
Proof.
  intros Hs Hw. unfold read_tag_checked. rewrite Hw. replace (0 =? 0) with true by reflexivity.
  rewrite (ensure_pause st s Hs Hw). reflexivity.
Qed.

Theorem pause_boundary_noop c st s :
  c_emit_eof c = false ->
  r_script st = Pause :: s -> r_wlen st = 0 -> r_queue st = [] -> exhausted_count (r_off st) (r_stack st) = O ->
  (1 <= r_fuel st)%nat ->
  next c st = (after_pause st s, NNone).
Proof.
  intros He Hs Hw Hq Hx Hf. unfold next. rewrite Hq.
  destruct (r_fuel st) as [|f] eqn:Ef; [lia|]. rewrite read_next_unfold. cbn zeta. rewrite Hx.
  rewrite (read_tag_checked_pause c (pop_frames st 0) s) by assumption. rewrite He.
  assert (Hst : set_script (set_cap (pop_frames st 0) (N.max (r_cap (pop_frames st 0)) 1)) s = after_pause st s).
  { clear - Hq. destruct st as [win wlen off cap rest rlen script stk q last det bad fuel].
    cbn [r_queue] in Hq. subst q. reflexivity. }
  rewrite Hst. change (r_queue (after_pause st s)) with (r_queue st). rewrite Hq. reflexivity.
Qed.

Lemma after_pause_facts st s : WF st ->
  WF (after_pause st s) /\ Abs (after_pause st s) = Abs st /\ r_script (after_pause st s) = s /\
  r_bad (after_pause st s) = r_bad st /\ r_fuel (after_pause st s) = r_fuel st /\ r_cap (after_pause st s) = N.max (r_cap st) 1.
Proof. intros [Hw Hr]. repeat split; assumption. Qed.

(* ------------------------------------------------------------------ runs *)
(* [steps c st a st']: successive next() calls from [st] yield the items [a] and lead to [st'] *)
Inductive steps (c : cfg) : rst -> list rout -> rst -> Prop :=
| steps_nil st : steps c st [] st
| steps_cons st st1 t off outs st2 :
    next c st = (st1, NItem t off) -> r_bad st1 = None -> steps c st1 outs st2 ->
    steps c st (OItem t off :: outs) st2.

Lemma steps_sfx c st a st' : steps c st a st' -> sfx st' st.
Proof.
  induction 1 as [st|st st1 t off outs st2 Hn Hb Hs IH]; [apply sfx_refl|].
  eapply sfx_trans; [exact IH|]. pose proof (next_sfx c st) as H. rewrite Hn in H. exact H.
Qed.

Lemma steps_bad c st a st' : steps c st a st' -> r_bad st = None -> r_bad st' = None.
Proof. induction 1; auto. Qed.

Lemma steps_run_all c st a st' : steps c st a st' -> forall l,
  run_all (length a + l) c st = (fst (run_all l c st'), a ++ snd (run_all l c st')).
Proof.
  induction 1 as [st|st st1 t off outs st2 Hn Hb Hs IH]; intros l.
  - cbn [length app Nat.add]. destruct (run_all l c st); reflexivity.
  - cbn [length Nat.add run_all]. rewrite Hn, Hb, (IH l). reflexivity.
Qed.

Lemma p_run_all_more c : forall l st, ~ In OLimit (snd (p_run_all l c st)) ->
  forall d, p_run_all (l + d) c st = p_run_all l c st.
Proof.
  induction l as [|l IH]; intros st Hno d.
  - exfalso. apply Hno. left. reflexivity.
  - cbn [Nat.add p_run_all] in *. destruct (p_next c st) as [st1 r]. destruct (b_bad st1); [reflexivity|].
    destruct r as [t o|e|]; try reflexivity.
    rewrite IH; [reflexivity|]. intros Hin. apply Hno. destruct (p_run_all l c st1). right. exact Hin.
Qed.

Lemma p_run_all_nonempty c l st : snd (p_run_all l c st) <> [].
Proof.
  destruct l as [|l]; cbn [p_run_all]; [discriminate|].
  destruct (p_next c st) as [st1 r]. destruct (b_bad st1); [discriminate|].
  destruct r; try discriminate. destruct (p_run_all l c st1). discriminate.
Qed.

(* a segment that consumes no Pause is a segment of the abstract run *)
Lemma steps_abs c st a st' : steps c st a st' -> GoodP st -> np st' = np st ->
  GoodP st' /\
  forall limit, ~ In OLimit (snd (p_run_all limit c (Abs st))) ->
    exists l, limit = (length a + l)%nat /\ snd (p_run_all limit c (Abs st)) = a ++ snd (p_run_all l c (Abs st')).
Proof.
  induction 1 as [st|st st1 t off outs st2 Hn Hb Hs IH]; intros HG Hnp.
  - split; [exact HG|]. intros limit _. exists limit. split; reflexivity.
  - pose proof (next_sfx c st) as S1. rewrite Hn in S1. cbn [fst] in S1. pose proof (steps_sfx _ _ _ _ Hs) as S2.
    pose proof (sfx_np _ _ S1) as L1. pose proof (sfx_np _ _ S2) as L2.
    assert (Hn1 : np (fst (next c st)) = np st) by (rewrite Hn; cbn [fst]; lia).
    destruct (next_refines_nopause c st HG Hn1) as [HG1 [HA1 HR1]].
    rewrite Hn in HG1, HA1, HR1. cbn [fst snd] in HG1, HA1, HR1.
    assert (Hn2 : np st2 = np st1) by lia.
    destruct (IH HG1 Hn2) as [HG2 Hrun]. split; [exact HG2|].
    intros [|limit] Hno; [exfalso; apply Hno; left; reflexivity|].
    cbn [p_run_all] in Hno |- *. destruct (p_next c (Abs st)) as [pst1 pr1]. cbn [fst snd] in HA1, HR1. subst pst1 pr1.
    change (b_bad (Abs st1)) with (r_bad st1) in *. rewrite Hb in *.
    destruct (Hrun limit) as [l [El Eo]].
    { intros Hin. apply Hno. destruct (p_run_all limit c (Abs st1)). right. exact Hin. }
    exists l. split; [cbn [length Nat.add]; lia|]. destruct (p_run_all limit c (Abs st1)) as [x y]. cbn [snd] in *.
    rewrite Eo. reflexivity.
Qed.

(* [paused_run c st segs st']: the run from [st] meets each Pause of its script at a tag boundary — after the items of a
   segment the window and the queue are empty, no open master is exhausted, and the next read() is the Pause; nothing but
   reads of the calm script part [u] happened before — and reaches [st'] after the last of these pauses *)
Inductive paused_run (c : cfg) : rst -> list (list rout) -> rst -> Prop :=
| pr_done st : paused_run c st [] st
| pr_seg st u s a stp segs st' :
    r_script st = u ++ Pause :: s -> calm u ->
    steps c st a stp ->
    r_script stp = Pause :: s -> r_wlen stp = 0 -> r_queue stp = [] -> exhausted_count (r_off stp) (r_stack stp) = O ->
    paused_run c (fst (next c stp)) segs st' ->
    paused_run c st (a :: segs) st'.

Lemma run_ops_RAll c limit st rest :
  run_ops c limit st (RAll :: rest) =
  let (st1, outs) := run_all limit c st in
  match r_bad st1 with
  | Some _ => (st1, outs)
  | None => let (st2, outs2) := run_ops c limit st1 rest in (st2, outs ++ outs2)
  end.
Proof. reflexivity. Qed.

Lemma paused_run_calmP c : c_emit_eof c = false -> forall st segs st', paused_run c st segs st' ->
  (1 <= r_fuel st)%nat -> calm (r_script st') -> calmP (r_script st).
Proof.
  intros He. induction 1 as [st|st u s a stp segs st' Hscr Hu Hst Hp Hw Hq Hx Hrun IH]; intros Hf Hc.
  - apply calm_calmP, Hc.
  - pose proof (sfx_fuel _ _ (steps_sfx _ _ _ _ Hst)) as Ef.
    assert (Hf' : (1 <= r_fuel stp)%nat) by lia.
    rewrite (pause_boundary_noop c stp s He Hp Hw Hq Hx Hf') in IH. cbn [fst] in IH.
    rewrite Hscr. apply Forall_app. split; [apply calm_calmP, Hu|]. constructor; [exact I|].
    apply IH; [exact Hf'|exact Hc].
Qed.

Lemma paused_run_outputs c : c_emit_eof c = false -> forall st segs st', paused_run c st segs st' ->
  GoodP st -> r_bad st = None -> (1 <= r_fuel st)%nat -> calm (r_script st') ->
  forall limit, ~ In OLimit (snd (p_run_all limit c (Abs st))) ->
  snd (run_ops c limit st (repeat RAll (S (length segs)))) =
    concat (map (fun a => a ++ [ONone]) segs) ++ snd (p_run_all limit c (Abs st')) /\
  snd (p_run_all limit c (Abs st)) = concat segs ++ snd (p_run_all limit c (Abs st')).
Proof.
  intros He. induction 1 as [st|st u s a stp segs st' Hscr Hu Hst Hp Hw Hq Hx Hrun IH]; intros HG Hb Hf Hc limit Hno.
  - cbn [length repeat map concat app]. rewrite run_ops_RAll.
    assert (HGood : Good st) by (split; [apply HG|exact Hc]).
    destruct (run_all_refines c limit st HGood) as [_ [_ Hr]].
    destruct (run_all limit c st) as [st1 outs]. cbn [snd] in Hr.
    split; [|reflexivity]. destruct (r_bad st1); [exact Hr|]. cbn [run_ops snd]. rewrite app_nil_r. exact Hr.
  - assert (Hnp : np stp = np st).
    { unfold np. rewrite Hscr, Hp, npause_app, (calm_npause u Hu). reflexivity. }
    destruct (steps_abs c st a stp Hst HG Hnp) as [HGp Habs].
    pose proof (sfx_fuel _ _ (steps_sfx _ _ _ _ Hst)) as Ef.
    assert (Hf' : (1 <= r_fuel stp)%nat) by lia.
    pose proof (steps_bad _ _ _ _ Hst Hb) as Hbp.
    pose proof (pause_boundary_noop c stp s He Hp Hw Hq Hx Hf') as Enext.
    rewrite Enext in IH. cbn [fst] in IH.
    destruct (after_pause_facts stp s (proj1 HGp)) as [W' [A' [S' [B' [F' _]]]]].
    assert (HG' : GoodP (after_pause stp s)).
    { split; [exact W'|]. rewrite S'. destruct HGp as [_ Hcp]. rewrite Hp in Hcp. inversion Hcp; assumption. }
    destruct (Habs limit Hno) as [l [El Eo]].
    assert (Hno_l : ~ In OLimit (snd (p_run_all l c (Abs stp)))).
    { intros Hin. apply Hno. rewrite Eo. apply in_or_app. right. exact Hin. }
    destruct l as [|l']; [exfalso; apply Hno_l; left; reflexivity|].
    assert (Emore : p_run_all limit c (Abs stp) = p_run_all (S l') c (Abs stp)).
    { rewrite El, Nat.add_comm. apply p_run_all_more. exact Hno_l. }
    assert (Hno' : ~ In OLimit (snd (p_run_all limit c (Abs (after_pause stp s))))).
    { rewrite A', Emore. exact Hno_l. }
    assert (Hb' : r_bad (after_pause stp s) = None) by (rewrite B'; exact Hbp).
    assert (Hf'' : (1 <= r_fuel (after_pause stp s))%nat) by (rewrite F'; exact Hf').
    destruct (IH HG' Hb' Hf'' Hc limit Hno') as [E1 E2].
    change (repeat RAll (S (length (a :: segs)))) with (RAll :: repeat RAll (S (length segs))).
    rewrite run_ops_RAll.
    assert (Erun : run_all limit c st = (after_pause stp s, a ++ [ONone])).
    { rewrite El, (steps_run_all c st a stp Hst (S l')). cbn [run_all]. rewrite Enext, Hb'. reflexivity. }
    rewrite Erun, Hb'.
    destruct (run_ops c limit (after_pause stp s) (repeat RAll (S (length segs)))) as [st2 outs2]. cbn [snd] in E1 |- *.
    cbn [map concat]. split.
    + rewrite E1, <- !app_assoc. reflexivity.
    + rewrite Eo, <- Emore, <- A', E2, <- app_assoc. reflexivity.
Qed.

Lemma p_run_RAll c input : p_run c input [RAll] = snd (p_run_all (4 * length input + 64) c (p_init input)).
Proof.
  unfold p_run. cbn [p_run_ops]. destruct (p_run_all (4 * length input + 64) c (p_init input)) as [st1 outs].
  destruct (b_bad st1); cbn [snd]; [reflexivity|apply app_nil_r].
Qed.

(* C04, pauses: a source that reports temporary end of file any number of times, each time at a tag boundary.  Draining the
   reader once more after every None gives the items of the slice run, segment by segment, with one None per pause *)
Theorem pauses_many c cap0 script input segs st' :
  c_emit_eof c = false ->
  paused_run c (r_init cap0 script input) segs st' -> calm (r_script st') ->
  ~ In OLimit (p_run c input [RAll]) ->
  exists b, b <> [] /\
    p_run c input [RAll] = concat segs ++ b /\
    run_reader c cap0 script input (repeat RAll (S (length segs))) = concat (map (fun a => a ++ [ONone]) segs) ++ b.
Proof.
  intros He Hrun Hc Hno. rewrite p_run_RAll in *.
  assert (Hf : (1 <= r_fuel (r_init cap0 script input))%nat) by (cbn; unfold default_fuel; lia).
  assert (HG : GoodP (r_init cap0 script input)).
  { split; [split; reflexivity|]. exact (paused_run_calmP c He _ _ _ Hrun Hf Hc). }
  destruct (paused_run_outputs c He _ _ _ Hrun HG eq_refl Hf Hc (4 * length input + 64)%nat Hno) as [E1 E2].
  exists (snd (p_run_all (4 * length input + 64) c (Abs st'))).
  split; [apply p_run_all_nonempty|]. split; [exact E2|exact E1].
Qed.

(* one pause: the script is [s1 ++ Pause :: s2] with calm [s1], [s2], and the Pause is met at a tag boundary after the items [a] *)
Theorem pause_one c cap0 s1 s2 input a stp :
  c_emit_eof c = false -> calm s1 -> calm s2 ->
  steps c (r_init cap0 (s1 ++ Pause :: s2) input) a stp ->
  r_script stp = Pause :: s2 -> r_wlen stp = 0 -> r_queue stp = [] -> exhausted_count (r_off stp) (r_stack stp) = O ->
  ~ In OLimit (p_run c input [RAll]) ->
  exists b, b <> [] /\
    p_run c input [RAll] = a ++ b /\
    run_reader c cap0 (s1 ++ Pause :: s2) input [RAll; RAll] = a ++ [ONone] ++ b.
Proof.
  intros He H1 H2 Hst Hp Hw Hq Hx Hno.
  assert (Hf : (1 <= r_fuel stp)%nat).
  { rewrite (sfx_fuel _ _ (steps_sfx _ _ _ _ Hst)). cbn. unfold default_fuel. lia. }
  pose proof (pause_boundary_noop c stp s2 He Hp Hw Hq Hx Hf) as Enext.
  assert (Hrun : paused_run c (r_init cap0 (s1 ++ Pause :: s2) input) [a] (fst (next c stp))).
  { apply (pr_seg c _ s1 s2 a stp [] _); try assumption; [reflexivity|apply pr_done]. }
  assert (Hc : calm (r_script (fst (next c stp)))) by (rewrite Enext; exact H2).
  destruct (pauses_many c cap0 _ input [a] _ He Hrun Hc Hno) as [b [Hb [E1 E2]]].
  exists b. split; [exact Hb|]. cbn [concat map length repeat] in E1, E2. rewrite app_nil_r in E1. rewrite app_nil_r in E2.
  split; [exact E1|]. rewrite E2, <- app_assoc. reflexivity.
Qed.

(* the call bound is not reached on well-formed bytes (Proofs/Termination.v), for specifications of moderate depth *)
Corollary pauses_many_wf c cap0 script input segs st' :
  c_emit_eof c = false -> wf_bytes input -> (slack c < 2 * length input + 64)%nat ->
  paused_run c (r_init cap0 script input) segs st' -> calm (r_script st') ->
  exists b, b <> [] /\
    p_run c input [RAll] = concat segs ++ b /\
    run_reader c cap0 script input (repeat RAll (S (length segs))) = concat (map (fun a => a ++ [ONone]) segs) ++ b.
Proof.
  intros He Hw Hs Hrun Hc. apply (pauses_many c cap0 script input segs st' He Hrun Hc).
  apply drain_within_limit; assumption.
Qed.
