(* C02, second class of documents: reading, re-writing under default options and reading again is a fixpoint for documents whose
   masters all have a KNOWN size and whose elements are declared with arbitrary paths — global placeholders included — that
   match the chain of masters they sit in ([kconf], [dstart] of Proofs/RoundTripKnown.v; writer half Proofs/WriteEncG.v).
   Also: the canonical re-encoding is idempotent, so one round of read -> write reaches a byte-level fixpoint — re-writing the
   second read reproduces the bytes of the first re-write exactly, for both classes. *)
From Ebml Require Import Base Tools Spec Writer Reader Pure Encode.
From Ebml Require Import Proofs.Tactics Proofs.BytesProofs Proofs.VintProofs Proofs.DecodersProofs Proofs.SpecProofs Proofs.WriterProofs Proofs.PureProofs Proofs.RoundTrip Proofs.RoundTripKnown Proofs.WriteEnc Proofs.WriteEncG Proofs.Fixpoint.
Import ListNotations.
Local Open Scope N_scope.

(* ------------------------------------------------------------------ the canonical re-encoding stays in the second class *)
(* every master of the re-encoding has a known size (both definitions of [all_known]: the reader's and the writer's) *)
Lemma canon_all_known : forall t, RoundTripKnown.all_known (canon t).
Proof.
  induction t as [id v pl sl|id sz cs IH] using rtree_ind'; [exact I|].
  rewrite canon_node. apply RoundTripKnown.all_known_node. split; [discriminate|].
  induction cs as [|x l IHl]; [constructor|]. apply Forall_cons_iff in IH. destruct IH as [Hx Hl].
  cbn [map]. constructor; [exact Hx|apply IHl, Hl].
Qed.

Lemma canon_all_known_w : forall t, WriteFull.all_known (canon t).
Proof.
  induction t as [id v pl sl|id sz cs IH] using rtree_ind'; [exact I|].
  rewrite canon_node. apply WriteFull.all_known_node. split; [discriminate|].
  induction cs as [|x l IHl]; [constructor|]. apply Forall_cons_iff in IH. destruct IH as [Hx Hl].
  cbn [map]. constructor; [exact Hx|apply IHl, Hl].
Qed.

(* ids are kept, hence everything that depends on the declared paths only *)
Lemma rid_canon t : rid (canon t) = rid t.
Proof. destruct t as [id v pl sl|id sz cs]; reflexivity. Qed.

Lemma globb_canon c : forall t, globb c (canon t) = globb c t.
Proof.
  induction t as [id v pl sl|id sz cs IH] using rtree_ind'; [reflexivity|].
  rewrite canon_node, !globb_node. f_equal.
  induction cs as [|x l IHl]; [reflexivity|]. apply Forall_cons_iff in IH. destruct IH as [Hx Hl].
  cbn [map forallb]. rewrite Hx, (IHl Hl). reflexivity.
Qed.

Lemma dstart_canon c : forall l, dstart c l -> dstart c (map canon l).
Proof.
  induction l as [|x l IH]; intros H; [exact I|]. cbn [map dstart] in *. rewrite rid_canon, globb_canon.
  destruct H as [H|[Hg Hl]]; [left; exact H|right; split; [exact Hg|apply IH, Hl]].
Qed.

(* [canon_conf] of Proofs/Fixpoint.v with matched paths: the re-encoding is what the writer accepts under default options
   ([wconfg]) and carries what the reader needs ([rconf]) *)
Lemma canon_confg c : forall t ids, kconf c ids t -> sized c (canon t) -> wconfg (c_sp c) true ids (canon t) /\ rconf c (canon t).
Proof.
  induction t as [id v pl sl|id sz cs IH] using rtree_ind'; intros ids Hc Hs.
  - destruct Hc as [Hid [_ [_ [Hwf [[ty [Hty [Hnm Hdec]]] [Hpath _]]]]]]. cbn [canon] in *. destruct Hs as [Hlt Hmax].
    destruct (decodes_shape ty pl v Hwf Hnm Hdec) as [Hshape Hvok]. split.
    + split; [exact Hpath|]. exists ty. split; [exact Hty|]. split; [exact Hnm|]. split; [exact Hshape|]. split; [reflexivity|].
      apply min_sl_field, Hlt.
    + split; [exact Hid|]. split; [exact Hvok|exact Hmax].
  - apply kconf_node in Hc. destruct Hc as [Hid [_ [Hty [Hpath [_ Hcs]]]]]. rewrite canon_node in *.
    apply sized_node in Hs. destruct Hs as [Hlt [Hmax Hss]].
    assert (Hall : Forall (fun t => wconfg (c_sp c) true (ids ++ [id]) t /\ rconf c t) (map canon cs)).
    { clear Hlt Hmax. induction cs as [|x l IHl]; [constructor|]. cbn [map] in *.
      apply Forall_cons_iff in IH. destruct IH as [Hx Hl]. apply Forall_cons_iff in Hcs. destruct Hcs as [Hcx Hcl].
      apply Forall_cons_iff in Hss. destruct Hss as [Hsx Hsl].
      constructor; [apply Hx; assumption|apply IHl; assumption]. }
    split.
    + apply wconfg_node. split; [exact Hpath|]. split; [exact Hty|]. split.
      * intros sl' Hsl. injection Hsl as <-. apply min_sl_field, Hlt.
      * eapply Forall_impl; [|exact Hall]. intros t [H1 _]. exact H1.
    + apply rconf_node. split; [exact Hid|]. split; [exact Hmax|]. eapply Forall_impl; [|exact Hall]. intros t [_ H2]. exact H2.
Qed.

Lemma canon_kconf c t ids : kconf c ids t -> sized c (canon t) -> kconf c ids (canon t).
Proof.
  intros Hc Hs. destruct (canon_confg c t ids Hc Hs) as [Hw Hr]. apply (wconfg_kconf c true); [exact Hw|exact Hr|apply canon_all_known_w].
Qed.

Lemma canon_kconf_forest c ids : forall l, Forall (kconf c ids) l -> Forall (sized c) (map canon l) -> Forall (kconf c ids) (map canon l).
Proof.
  induction l as [|x l IH]; intros Hc Hs; [constructor|]. cbn [map] in *.
  apply Forall_cons_iff in Hc. destruct Hc as [Hcx Hcl]. apply Forall_cons_iff in Hs. destruct Hs as [Hsx Hsl].
  constructor; [apply canon_kconf; assumption|apply IH; assumption].
Qed.

(* ------------------------------------------------------------------ A. the fixpoint theorem for the second class *)
(* C02 on known-size documents with matched (possibly global) paths: whatever encoding choices the document makes (padded
   integers, 4-byte floats, empty integer payloads, wide size fields), the tags the strict reader yields are accepted by the
   writer under default options, its output is the canonical encoding, and that reads back as the same tags *)
Theorem read_write_read_known : forall c f, strict c -> c_buffered c = [] -> c_emit_eof c = true -> Forall (kconf c []) f -> dstart c f ->
  Forall (sized c) (map canon f) ->
  let first := p_run c (enc_forest f) [RAll] in
  let written := run_writer (c_sp c) (map default_write (run_tags first)) [] in
  Forall (fun r => fst r = WOk) (fst written) /\ snd written = enc_forest (map canon f) /\
  map out_tag (p_run c (snd written) [RAll]) = map out_tag first.
Proof.
  intros c f Hs Hb He Hc Hd Hsz. cbn zeta.
  rewrite (reader_roundtrip_known c f Hs Hb He Hc Hd), run_tags_app, run_tags_items_forest. cbn [run_tags]. rewrite app_nil_r.
  rewrite <- canon_ops_forest.
  assert (Hw : Forall (wconfg (c_sp c) true []) (map canon f)).
  { clear Hs Hb He Hd. induction f as [|x l IH]; [constructor|]. cbn [map] in *.
    apply Forall_cons_iff in Hc. destruct Hc as [Hcx Hcl]. apply Forall_cons_iff in Hsz. destruct Hsz as [Hsx Hsl].
    constructor; [apply (canon_confg c x [] Hcx Hsx)|apply IH; assumption]. }
  destruct (writer_encodes_g (c_sp c) true (map canon f) Hw) as [Hok Henc].
  split; [exact Hok|]. split; [exact Henc|].
  rewrite Henc. rewrite reader_roundtrip_known_tags; try assumption.
  - rewrite canon_tags_forest, map_app, items_tags_forest. reflexivity.
  - apply canon_kconf_forest; assumption.
  - apply dstart_canon, Hd.
Qed.

(* ------------------------------------------------------------------ B. idempotence, and the byte-level fixpoint *)
(* the re-encoding depends on the values and on the lengths of their canonical payloads only *)
Lemma canon_idem : forall t, canon (canon t) = canon t.
Proof.
  induction t as [id v pl sl|id sz cs IH] using rtree_ind'; [reflexivity|].
  rewrite !canon_node.
  assert (Hm : map canon (map canon cs) = map canon cs).
  { induction cs as [|x l IHl]; [reflexivity|]. apply Forall_cons_iff in IH. destruct IH as [Hx Hl].
    cbn [map]. rewrite Hx, (IHl Hl). reflexivity. }
  rewrite Hm. reflexivity.
Qed.

Lemma canon_idem_forest : forall l, map canon (map canon l) = map canon l.
Proof. induction l as [|x l IH]; [reflexivity|]. cbn [map]. rewrite canon_idem, IH. reflexivity. Qed.

(* a document of the first class (placeholder-free paths, any subset of masters of unknown size) is, after one re-encoding,
   in BOTH classes: all its masters have a known size *)
Lemma canon_conf_forest c ids : forall l, Forall (conf c ids) l -> Forall (sized c) (map canon l) -> Forall (conf c ids) (map canon l).
Proof.
  induction l as [|x l IH]; intros Hc Hs; [constructor|]. cbn [map] in *.
  apply Forall_cons_iff in Hc. destruct Hc as [Hcx Hcl]. apply Forall_cons_iff in Hs. destruct Hs as [Hsx Hsl].
  constructor; [|apply IH; assumption].
  destruct (canon_conf c x ids Hcx Hsx) as [Hw Hr]. apply (wconf_conf c true); assumption.
Qed.

Theorem canon_in_both_classes c f : Forall (conf c []) f -> Forall (sized c) (map canon f) ->
  Forall (conf c []) (map canon f) /\ Forall (kconf c []) (map canon f) /\ dstart c (map canon f).
Proof.
  intros Hc Hs. pose proof (canon_conf_forest c [] f Hc Hs) as Hcc. split; [exact Hcc|]. split.
  - rewrite Forall_forall in *. intros t Hin. apply conf_kconf; [apply Hcc, Hin|].
    apply in_map_iff in Hin. destruct Hin as [x [<- _]]. apply canon_all_known.
  - apply starts_at_root_dstart, conf_starts_at_root, Hcc.
Qed.

(* the documents of either class *)
Definition fix_class (c : cfg) (f : list rtree) : Prop := Forall (conf c []) f \/ (Forall (kconf c []) f /\ dstart c f).

Lemma fix_class_round c f : strict c -> c_buffered c = [] -> c_emit_eof c = true -> fix_class c f -> Forall (sized c) (map canon f) ->
  let written := run_writer (c_sp c) (map default_write (run_tags (p_run c (enc_forest f) [RAll]))) [] in
  Forall (fun r => fst r = WOk) (fst written) /\ snd written = enc_forest (map canon f).
Proof.
  intros Hs Hb He [Hc|[Hc Hd]] Hsz; cbn zeta.
  - destruct (read_write_read c f Hs Hb He Hc Hsz) as [H1 [H2 _]]. split; assumption.
  - destruct (read_write_read_known c f Hs Hb He Hc Hd Hsz) as [H1 [H2 _]]. split; assumption.
Qed.

Lemma fix_class_canon c f : fix_class c f -> Forall (sized c) (map canon f) -> fix_class c (map canon f).
Proof.
  intros [Hc|[Hc Hd]] Hsz.
  - left. apply canon_conf_forest; assumption.
  - right. split; [apply canon_kconf_forest; assumption|apply dstart_canon, Hd].
Qed.

(* one round reaches the fixpoint at the BYTE level: the writer accepts the tags of the second read as well and emits exactly
   the bytes it emitted for the tags of the first read — for the documents of both classes *)
Theorem rewrite_is_stable : forall c f, strict c -> c_buffered c = [] -> c_emit_eof c = true ->
  (Forall (conf c []) f \/ (Forall (kconf c []) f /\ dstart c f)) -> Forall (sized c) (map canon f) ->
  let first := p_run c (enc_forest f) [RAll] in
  let written := run_writer (c_sp c) (map default_write (run_tags first)) [] in
  let second := p_run c (snd written) [RAll] in
  let written2 := run_writer (c_sp c) (map default_write (run_tags second)) [] in
  Forall (fun r => fst r = WOk) (fst written2) /\ snd written2 = snd written.
Proof.
  intros c f Hs Hb He Hcl Hsz. cbn zeta.
  destruct (fix_class_round c f Hs Hb He Hcl Hsz) as [_ Henc]. cbn zeta in Henc. rewrite Henc.
  assert (Hsz2 : Forall (sized c) (map canon (map canon f))) by (rewrite canon_idem_forest; exact Hsz).
  destruct (fix_class_round c (map canon f) Hs Hb He (fix_class_canon c f Hcl Hsz) Hsz2) as [Hok2 Henc2]. cbn zeta in Hok2, Henc2.
  split; [exact Hok2|]. rewrite Henc2, canon_idem_forest. reflexivity.
Qed.
