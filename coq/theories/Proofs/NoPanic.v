(* C05 (panic freedom): on well-formed bytes and a specification whose path ids are masters, no call of the abstract reader
   reaches a panic site (slice index, unwrap/expect, "Bad specification implementation", explicit panic!).  The only way a run
   of the model can be cut short is the recursion budget (BFuel), which is reported separately. *)
From Ebml Require Import Base Tools Spec Reader Pure Proofs.Tactics Proofs.BytesProofs Proofs.VintProofs Proofs.DecodersProofs Proofs.ReaderIO Proofs.Refine Proofs.PureProofs.

Arguments vint_len : simpl never.
Arguments read_vint : simpl never.

(* what the "Bad specification implementation" panic of the implied-parent seeding depends on (proved of every derived
   specification in Props/C18.v) *)
Definition implied_ok (sp : spec) : Prop := forall id, implied_stack sp (get_path sp id) <> None.

Definition clean (st : pst) : Prop := b_bad st = None /\ wf_bytes (b_bytes st).
(* no panic so far: either untouched or out of recursion budget *)
Definition nopanic (st : pst) : Prop := (b_bad st = None \/ b_bad st = Some BFuel) /\ wf_bytes (b_bytes st).

Lemma clean_nopanic st : clean st -> nopanic st.
Proof. intros [H1 H2]. split; [left; exact H1|exact H2]. Qed.

Lemma wf_splitN_snd : forall l k, wf_bytes l -> wf_bytes (snd (splitN k l)).
Proof.
  induction l as [|x l IH]; intros k H; cbn [splitN]; [constructor|].
  destruct (k =? 0); [exact H|]. inversion H as [|? ? Hx Hl]; subst. specialize (IH (N.pred k) Hl). destruct (splitN (N.pred k) l). exact IH.
Qed.

Lemma clean_consume st k : clean st -> clean (pconsume st k).
Proof. intros [H1 H2]. split; [exact H1|apply wf_splitN_snd, H2]. Qed.

Lemma nopanic_fuel st : nopanic st -> nopanic (pset_bad st BFuel).
Proof. intros [[H|H] Hw]; (split; [|exact Hw]); unfold pset_bad; cbn; rewrite H; [right|right]; reflexivity. Qed.

Section NP.
Variable c : cfg.
Hypothesis Hsp : implied_ok (c_sp c).

Lemma p_hier_step_clean st id ty : b_bad st = None -> b_bad (fst (p_hier_step c st id ty)) = None.
Proof.
  intros H. unfold p_hier_step. destruct (negb _ && _); [|exact H].
  destruct (b_det st); [destruct (_ && _); exact H|].
  destruct (all_ids _); [|destruct (_ && _); exact H].
  destruct (implied_stack (c_sp c) (get_path (c_sp c) id)) eqn:E; [destruct (_ && _); exact H|].
  exfalso. exact (Hsp id E).
Qed.

Lemma p_tag_id_nopanic st : p_tag_id st <> Panic.
Proof. unfold p_tag_id. destruct (b_bytes st) as [|b0 tl]; [discriminate|]. destruct (b0 =? 0); [discriminate|]. destruct (_ <? _); discriminate. Qed.

Lemma p_header_clean st : clean st -> clean (fst (p_header c st)) /\ snd (p_header c st) <> Panic.
Proof.
  intros [Hn Hw]. rewrite p_header_unfold. pose proof (p_tag_id_nopanic st) as Ht.
  destruct (p_tag_id st) as [[id idl]|e|]; [|split; [split; assumption|discriminate]|contradiction].
  unfold p_hdr_tail.
  assert (Hv : read_vint (firstn 8 (skipn idl (b_bytes st))) <> Panic) by (apply read_vint_nopanic, wf_firstn, wf_skipn, Hw).
  destruct (read_vint _) as [[[size sl]|]|e1|]; try (split; [split; assumption|discriminate]); [|contradiction].
  destruct (is_numeric _ && _); [split; [split; assumption|discriminate]|].
  destruct (negb (c_allow_id c) && _); [split; [split; assumption|discriminate]|].
  pose proof (p_hier_step_clean st id (get_type (c_sp c) id) Hn) as Hh.
  destruct (p_hier_step_pos c st id (get_type (c_sp c) id)) as [Hb _].
  destruct (p_hier_step _ _ _ _) as [st1 [e1|]]; cbn [fst snd] in *.
  - split; [split; [exact Hh|rewrite Hb; exact Hw]|discriminate].
  - rewrite Hh. destruct (_ && _); [cbn [fst snd]; split; [split; [exact Hh|rewrite Hb; exact Hw]|discriminate]|].
    destruct (c_max c); destruct (ebml_size size sl); try destruct (_ <? _); cbn [fst snd]; (split; [split; [exact Hh|rewrite Hb; exact Hw]|discriminate]).
Qed.

Lemma p_read_tag_clean st : clean st -> clean (fst (p_read_tag c st)) /\ snd (p_read_tag c st) <> Panic.
Proof.
  intros Hc. rewrite p_read_tag_unfold. destruct (p_header_clean st Hc) as [H1 H2].
  destruct (p_header c st) as [st1 [[[[id ty] esz] hl]|e|]]; cbn [fst snd] in *; [|split; [exact H1|discriminate]|contradiction].
  unfold p_tag_tail. pose proof (clean_consume st1 (N.of_nat hl) H1) as Hc1. set (stc := pconsume st1 (N.of_nat hl)) in *.
  destruct (decoders_total (fst (splitN match esz with SKnown n => n | SUnknown => 0 end (b_bytes stc)))) as [Du [Di Df]].
  destruct ty as [[]|]; try (split; [exact Hc1|discriminate]);
    (destruct esz as [size|]; [|split; [exact Hc1|discriminate]]);
    (destruct (_ <? size); [split; [exact Hc1|discriminate]|]);
    pose proof (clean_consume stc size Hc1) as Hc2.
  - destruct (arr_to_u64 _); [split; [exact Hc2|discriminate]|split; [exact Hc2|discriminate]|contradiction].
  - destruct (arr_to_i64 _); [split; [exact Hc2|discriminate]|split; [exact Hc2|discriminate]|contradiction].
  - destruct (utf8_valid _); split; try exact Hc2; discriminate.
  - split; [exact Hc2|discriminate].
  - destruct (arr_to_f64 _); [split; [exact Hc2|discriminate]|split; [exact Hc2|discriminate]|contradiction].
  - split; [exact Hc2|discriminate].
Qed.

(* scan_queue finds a position inside the queue *)
Lemma scan_queue_spec id : forall l pos p found, scan_queue id l pos = (p, found) ->
  (pos <= p)%nat /\ (found = true -> (p - pos < length l)%nat).
Proof.
  induction l as [|x l IH]; intros pos p found H; cbn [scan_queue] in H.
  - inversion H; subst. split; [lia|discriminate].
  - destruct (_ || _).
    + inversion H; subst. split; [lia|intros _; cbn; lia].
    + destruct (IH _ _ _ H) as [H1 H2]. split; [lia|intros Hf; specialize (H2 Hf); cbn; lia].
Qed.

Lemma clean_logic st st' : b_bad st' = b_bad st -> b_bytes st' = b_bytes st -> clean st -> clean st'.
Proof. intros H1 H2 [A B]. split; congruence. Qed.
Lemma nopanic_logic st st' : b_bad st' = b_bad st -> b_bytes st' = b_bytes st -> nopanic st -> nopanic st'.
Proof. intros H1 H2 [A B]. split; [rewrite H1; exact A|rewrite H2; exact B]. Qed.

Lemma p_bm_finish_nopanic tid ts pre st pos : clean st -> (pre <= pos)%nat -> (pos < length (b_queue st))%nat ->
  clean (p_bm_finish tid ts pre st pos).
Proof.
  intros Hc Hp Hl. unfold p_bm_finish.
  destruct (nth_error (skipn pre (b_queue st)) (pos - pre)) as [[t o|e]|] eqn:En.
  - eapply clean_logic; [| |exact Hc]; reflexivity.
  - eapply clean_logic; [| |exact Hc]; reflexivity.
  - exfalso. apply nth_error_None in En. rewrite skipn_length in En. lia.
Qed.

Lemma rn_bm_nopanic : forall fuel,
  (forall st, clean st -> nopanic (p_read_next fuel c st)) /\
  (forall tid ts pre pos st, clean st -> (pre <= pos)%nat -> nopanic (p_buffer_master fuel c tid ts pre pos st)).
Proof.
  induction fuel as [|f [IH1 IH2]].
  - split; intros; apply nopanic_fuel, clean_nopanic; assumption.
  - split.
    + intros st Hc. rewrite p_read_next_unfold. cbn zeta.
      set (st1 := ppop_frames st _). assert (H1 : clean st1) by (eapply clean_logic; [| |exact Hc]; reflexivity).
      unfold p_read_tag_checked. destruct (b_bytes st1) eqn:Eb.
      * destruct (c_emit_eof c); apply clean_nopanic; [eapply clean_logic; [| |exact H1]; reflexivity|exact H1].
      * destruct (p_read_tag_clean st1 H1) as [H2 Hr]. destruct (p_read_tag c st1) as [st2 r2]. cbn [fst snd] in *.
        destruct r2 as [p|e|]; [| |contradiction].
        -- destruct (p_tag p); try (apply clean_nopanic; eapply clean_logic; [| |exact H2]; reflexivity).
           destruct (mem_id _ _); [|apply clean_nopanic; eapply clean_logic; [| |exact H2]; reflexivity].
           apply IH2; [eapply clean_logic; [| |exact H2]; reflexivity|lia].
        -- apply clean_nopanic. eapply clean_logic; [| |exact H2]; reflexivity.
    + intros tid ts pre pos st Hc Hpre. rewrite p_buffer_master_unfold. cbn zeta.
      destruct (Nat.leb_spec (length (b_queue st)) pos) as [Hle|Hgt].
      * pose proof (IH1 st Hc) as H1. destruct (b_bad (p_read_next f c st)) eqn:Eb; [exact H1|].
        assert (Hc1 : clean (p_read_next f c st)) by (split; [exact Eb|apply H1]).
        destruct (Nat.leb_spec (length (b_queue (p_read_next f c st))) pos) as [Hle1|Hgt1].
        -- apply clean_nopanic. eapply clean_logic; [| |exact Hc1]; reflexivity.
        -- destruct (scan_queue tid (skipn pos (b_queue (p_read_next f c st))) pos) as [p found] eqn:Es.
           destruct (scan_queue_spec _ _ _ _ _ Es) as [S1 S2]. destruct found.
           ++ apply clean_nopanic, p_bm_finish_nopanic; [exact Hc1|lia|]. specialize (S2 eq_refl). rewrite skipn_length in S2. lia.
           ++ apply IH2; [exact Hc1|lia].
      * destruct (scan_queue tid (skipn pos (b_queue st)) pos) as [p found] eqn:Es.
        destruct (scan_queue_spec _ _ _ _ _ Es) as [S1 S2]. destruct found.
        -- apply clean_nopanic, p_bm_finish_nopanic; [exact Hc|lia|]. specialize (S2 eq_refl). rewrite skipn_length in S2. lia.
        -- apply IH2; [exact Hc|lia].
Qed.

Lemma p_next_nopanic st : clean st -> nopanic (fst (p_next c st)).
Proof.
  intros Hc. unfold p_next.
  assert (H1 : nopanic (match b_queue st with [] => p_read_next (b_fuel st) c st | _ :: _ => st end)).
  { destruct (b_queue st); [apply rn_bm_nopanic, Hc|apply clean_nopanic, Hc]. }
  set (st1 := match b_queue st with [] => _ | _ => _ end) in *.
  destruct (b_queue st1) as [|[t o|e] q]; [exact H1|eapply nopanic_logic; [| |exact H1]; reflexivity..].
Qed.

Lemma p_recover_loop_nopanic : forall fuel st, clean st -> nopanic (fst (p_recover_loop fuel c st)).
Proof.
  induction fuel as [|f IH]; intros st Hc; cbn [p_recover_loop]; [apply nopanic_fuel, clean_nopanic, Hc|].
  destruct (b_bytes st) eqn:Eb; [apply clean_nopanic, Hc|].
  destruct (p_header_clean (pconsume st 1) (clean_consume st 1 Hc)) as [H1 Hr].
  destruct (p_header c (pconsume st 1)) as [st2 [h|e|]]; cbn [fst snd] in *; [apply clean_nopanic, H1|apply IH, H1|contradiction].
Qed.

Lemma p_try_recover_nopanic st : clean st -> nopanic (fst (p_try_recover c st)).
Proof.
  intros Hc. unfold p_try_recover. pose proof (p_recover_loop_nopanic (b_fuel st) st Hc) as H1.
  destruct (p_recover_loop (b_fuel st) c st) as [st1 [e|]]; cbn [fst] in *; [exact H1|eapply nopanic_logic; [| |exact H1]; reflexivity].
Qed.

Definition no_panic_out (o : rout) : Prop := o <> OPanic.

Lemma bad_out_fuel st : nopanic st -> forall b, b_bad st = Some b -> bad_out b <> OPanic.
Proof. intros [[H|H] _] b Hb; rewrite H in Hb; inversion Hb; subst; discriminate. Qed.

Lemma nopanic_clean st : nopanic st -> b_bad st = None -> clean st.
Proof. intros [_ Hw] Hb. split; assumption. Qed.

Lemma p_run_all_nopanic : forall limit st, clean st ->
  Forall no_panic_out (snd (p_run_all limit c st)) /\ nopanic (fst (p_run_all limit c st)).
Proof.
  induction limit as [|l IH]; intros st Hc; cbn [p_run_all].
  - split; [repeat constructor; discriminate|apply clean_nopanic, Hc].
  - pose proof (p_next_nopanic st Hc) as H1. destruct (p_next c st) as [st1 r]. cbn [fst] in H1.
    destruct (b_bad st1) as [b|] eqn:Eb.
    + split; [constructor; [eapply bad_out_fuel; eassumption|constructor]|exact H1].
    + pose proof (nopanic_clean st1 H1 Eb) as Hc1. destruct r as [t o|e|].
      * destruct (IH st1 Hc1) as [A B]. destruct (p_run_all l c st1) as [st2 outs]. cbn [fst snd] in *.
        split; [constructor; [discriminate|exact A]|exact B].
      * split; [repeat constructor; discriminate|exact H1].
      * split; [repeat constructor; discriminate|exact H1].
Qed.

Lemma p_run_ops_nopanic limit : forall ops st, clean st -> Forall no_panic_out (snd (p_run_ops c limit st ops)).
Proof.
  induction ops as [|op ops IH]; intros st Hc; cbn [p_run_ops]; [constructor|]. destruct op.
  - pose proof (p_next_nopanic st Hc) as H1. destruct (p_next c st) as [st1 r]. cbn [fst] in H1.
    destruct (b_bad st1) as [b|] eqn:Eb; [constructor; [eapply bad_out_fuel; eassumption|constructor]|].
    specialize (IH st1 (nopanic_clean st1 H1 Eb)). destruct (p_run_ops c limit st1 ops) as [st2 outs]. cbn [snd] in *.
    constructor; [destruct r; discriminate|exact IH].
  - pose proof (p_try_recover_nopanic st Hc) as H1. destruct (p_try_recover c st) as [st1 r]. cbn [fst] in H1.
    destruct (b_bad st1) as [b|] eqn:Eb; [constructor; [eapply bad_out_fuel; eassumption|constructor]|].
    specialize (IH st1 (nopanic_clean st1 H1 Eb)). destruct (p_run_ops c limit st1 ops) as [st2 outs]. cbn [snd] in *.
    constructor; [destruct r; discriminate|exact IH].
  - destruct (p_run_all_nopanic limit st Hc) as [A B]. destruct (p_run_all limit c st) as [st1 outs1]. cbn [fst snd] in *.
    destruct (b_bad st1) as [b|] eqn:Eb; [exact A|].
    specialize (IH st1 (nopanic_clean st1 B Eb)). destruct (p_run_ops c limit st1 ops) as [st2 outs]. cbn [snd] in *.
    apply Forall_app. split; assumption.
Qed.

End NP.

(* C05: no call panics — for every consistent specification, configuration, well-formed byte stream and interleaving of
   next()/try_recover() *)
Theorem run_never_panics c input ops : implied_ok (c_sp c) -> wf_bytes input -> Forall no_panic_out (p_run c input ops).
Proof. intros Hsp Hw. unfold p_run. apply p_run_ops_nopanic; [exact Hsp|]. split; [reflexivity|exact Hw]. Qed.

Corollary buffered_run_never_panics c cap0 script input ops : implied_ok (c_sp c) -> wf_bytes input -> calm script ->
  Forall no_panic_out (run_reader c cap0 script input ops).
Proof. intros Hsp Hw Hc. rewrite buffered_refines_pure by exact Hc. apply run_never_panics; assumption. Qed.

(* fused: once the input is exhausted, nothing is queued and no master is open, next() keeps returning None *)
Theorem exhausted_is_fused c st f : b_bytes st = [] -> b_queue st = [] -> b_stack st = [] -> b_fuel st = S f ->
  snd (p_next c st) = NNone /\ b_bytes (fst (p_next c st)) = [] /\ b_queue (fst (p_next c st)) = [] /\ b_stack (fst (p_next c st)) = [] /\
  b_fuel (fst (p_next c st)) = S f.
Proof.
  intros Hb Hq Hs Hf. destruct st as [bytes off stack queue last det bad fuel]. cbn in Hb, Hq, Hs, Hf. subst.
  unfold p_next. cbn [b_queue b_fuel]. rewrite p_read_next_unfold. cbn.
  destruct (c_emit_eof c); cbn; repeat split; reflexivity.
Qed.
