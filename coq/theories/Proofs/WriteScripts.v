(* C09: the writer's observable behaviour (per-call results, bytes delivered after every call, final bytes) does not depend
   on how the destination accepts the bytes, as long as it never fails hard: any pattern of short writes (at least one byte
   each) and Interrupted errors gives the run of the destination that takes everything at once. *)
From Ebml Require Import Base Tools Spec Writer Proofs.Tactics Proofs.SpecProofs Proofs.WriterProofs.

(* a destination that never fails hard: every write accepts at least one byte, or is interrupted *)
Definition benign (s : list wr) : Prop :=
  Forall (fun w => match w with WAcc (S _) => True | WInt => True | _ => False end) s.

Lemma benign_nil : benign [].
Proof. constructor. Qed.

(* ------------------------------------------------------------------ write_all under a benign script *)
Lemma write_all_nil data dest : write_all [] data dest = (dest ++ data, [], None).
Proof. destruct data; cbn [write_all]; [rewrite app_nil_r|]; reflexivity. Qed.

Lemma write_all_acc n s b data dest :
  write_all (WAcc (S n) :: s) (b :: data) dest = write_all s (skipn (S n) (b :: data)) (dest ++ firstn (S n) (b :: data)).
Proof. reflexivity. Qed.

Lemma write_all_int s b data dest : write_all (WInt :: s) (b :: data) dest = write_all s (b :: data) dest.
Proof. reflexivity. Qed.

Lemma write_all_benign : forall s data dest, benign s ->
  exists s', benign s' /\ write_all s data dest = (dest ++ data, s', None).
Proof.
  induction s as [|w s IH]; intros data dest Hb.
  - exists []. split; [exact benign_nil|apply write_all_nil].
  - destruct data as [|b data].
    + exists (w :: s). split; [exact Hb|]. cbn [write_all]. rewrite app_nil_r. reflexivity.
    + apply Forall_cons_iff in Hb. destruct Hb as [Hw Hb].
      destruct w as [n| | |c]; [destruct n as [|n]|..]; try contradiction.
      * destruct (IH (skipn (S n) (b :: data)) (dest ++ firstn (S n) (b :: data)) Hb) as [s' [Hb' E]].
        exists s'. split; [exact Hb'|]. rewrite write_all_acc, E, <- app_assoc, firstn_skipn. reflexivity.
      * rewrite write_all_int. apply IH. exact Hb.
Qed.

(* ------------------------------------------------------------------ the script field is carried along by everything that
   only buffers *)
Definition with_script (st : wst) (s : list wr) : wst :=
  {| w_open := w_open st; w_buf := w_buf st; w_dest := w_dest st; w_script := s |}.

Definition lift (s : list wr) (p : wst * wres) : wst * wres := (with_script (fst p) s, snd p).

Lemma with_script_id st : with_script st (w_script st) = st.
Proof. destruct st; reflexivity. Qed.

Lemma end_tag_ws st s id : end_tag (with_script st s) id = lift s (end_tag st id).
Proof.
  unfold end_tag. cbn [with_script w_open w_buf].
  destruct (w_open st) as [|[[oid sz] sl] rest]; [reflexivity|].
  destruct (oid =? id); [|reflexivity].
  destruct sz as [start|]; [|reflexivity].
  destruct (length (w_buf st) <? start)%nat; [reflexivity|].
  destruct (size_to_vint _ sl); reflexivity.
Qed.

Lemma write_payload_ws st s id sl field payload :
  write_payload (with_script st s) id sl field payload = lift s (write_payload st id sl field payload).
Proof. unfold write_payload. destruct field; reflexivity. Qed.

Lemma write_element_ws st s id ty v sl :
  write_element (with_script st s) id ty v sl = lift s (write_element st id ty v sl).
Proof.
  unfold write_element.
  destruct ty as [[]|]; destruct v; try reflexivity; try apply write_payload_ws;
    destruct (is_vint id); try reflexivity; apply write_payload_ws.
Qed.

Definition buffer_ws_stmt (sp : spec) (t : tag) : Prop :=
  forall o st s, buffer_tag sp t o (with_script st s) = lift s (buffer_tag sp t o st).

Lemma children_ws sp cs : Forall (buffer_ws_stmt sp) cs ->
  forall floor st s, children_loop sp floor cs (with_script st s) = lift s (children_loop sp floor cs st).
Proof.
  induction 1 as [|c cs Hc _ IH]; intros floor st s.
  - reflexivity.
  - cbn [children_loop]. rewrite (Hc o_default st s).
    destruct (buffer_tag sp c o_default st) as [st' r']. cbn [lift fst snd].
    destruct r'; try reflexivity.
    cbn [with_script w_open]. destruct (_ <? _)%nat; [reflexivity|]. apply IH.
Qed.

Lemma buffer_tag_ws sp : forall t, buffer_ws_stmt sp t.
Proof.
  induction t as [id v|id|id|id cs IHcs] using tag_ind'; unfold buffer_ws_stmt; intros o st s;
    rewrite (buffer_tag_eq sp _ o (with_script st s)), (buffer_tag_eq sp _ o st);
    cbn [tag_id is_master_tag is_end with_script w_open]; raw_simpl.
  all: destruct (o_unknown o && negb (is_master_ty _)); [reflexivity|].
  all: destruct (is_master_ty _ && negb _); [reflexivity|].
  all: destruct (should_validate sp _ && negb _); [reflexivity|].
  all: unfold buffer_act; cbn [tag_id]; raw_simpl.
  - destruct (o_unknown o); [reflexivity|].
    destruct (raw_type (TElem id v) (get_type sp id)) as [[]|]; try reflexivity; apply write_element_ws.
  - destruct (o_unknown o); [reflexivity|].
    destruct (get_type sp id) as [[]|]; try reflexivity; destruct (is_vint id); reflexivity.
  - destruct (o_unknown o); [apply end_tag_ws|].
    destruct (get_type sp id) as [[]|]; try reflexivity; try apply end_tag_ws; destruct (is_vint id); reflexivity.
  - assert (Hfull : forall stS,
              match children_loop sp (S (length (w_open st))) cs (with_script stS s) with
              | (st2, WOk) => end_tag st2 id
              | r0 => r0
              end = lift s match children_loop sp (S (length (w_open st))) cs stS with
                           | (st2, WOk) => end_tag st2 id
                           | r0 => r0
                           end).
    { intros stS. rewrite (children_ws sp cs IHcs).
      destruct (children_loop sp (S (length (w_open st))) cs stS) as [st2 r2]. cbn [lift fst snd].
      destruct r2; try reflexivity. apply end_tag_ws. }
    destruct (o_unknown o); [apply (Hfull (start_unknown_size_tag st id))|].
    destruct (get_type sp id) as [[]|]; try reflexivity;
      try (apply (Hfull (start_tag st id (size_len_of o))));
      destruct (is_vint id); reflexivity.
Qed.

Lemma end_all_ws : forall fuel st s, end_all fuel (with_script st s) = lift s (end_all fuel st).
Proof.
  induction fuel as [|f IH]; intros st s; cbn [end_all]; [reflexivity|].
  cbn [with_script w_open].
  destruct (w_open st) as [|[[id sz] sl] rest] eqn:Eo; [reflexivity|].
  rewrite end_tag_ws.
  destruct (end_tag st id) as [st2 r2]. cbn [lift fst snd].
  destruct r2; try reflexivity. apply IH.
Qed.

(* ------------------------------------------------------------------ the calls that hand bytes over: under a benign script
   they do what they do under the empty script (the destination that takes everything at once), and leave a benign script *)
Lemma private_flush_benign st s : benign s ->
  exists s', benign s' /\ private_flush (with_script st s) = lift s' (private_flush (with_script st [])).
Proof.
  intros Hb. unfold private_flush. cbn [with_script w_open w_buf w_dest w_script].
  destruct (write_all_benign s (w_buf st) (w_dest st) Hb) as [s' [Hb' E]].
  exists s'. split; [exact Hb'|]. rewrite E, write_all_nil. reflexivity.
Qed.

Lemma flush_if_streaming_benign st s : benign s ->
  exists s', benign s' /\ flush_if_streaming (with_script st s) = lift s' (flush_if_streaming (with_script st [])).
Proof.
  intros Hb. unfold flush_if_streaming. cbn [with_script w_open].
  destruct (has_known (w_open st)); [exists s; split; [exact Hb|reflexivity]|].
  apply private_flush_benign. exact Hb.
Qed.

Lemma write_advanced_benign sp st t o s : benign s ->
  exists s', benign s' /\ write_advanced sp (with_script st s) t o = lift s' (write_advanced sp (with_script st []) t o).
Proof.
  intros Hb. unfold write_advanced.
  rewrite (buffer_tag_ws sp t o st s), (buffer_tag_ws sp t o st []).
  destruct (buffer_tag sp t o st) as [st1 r]. cbn [lift fst snd].
  destruct r as [|e|].
  - apply flush_if_streaming_benign. exact Hb.
  - exists s. split; [exact Hb|reflexivity].
  - exists s. split; [exact Hb|reflexivity].
Qed.

Lemma write_raw_benign st id data s : benign s ->
  exists s', benign s' /\ write_raw (with_script st s) id data = lift s' (write_raw (with_script st []) id data).
Proof.
  intros Hb. unfold write_raw. rewrite !write_payload_ws.
  destruct (write_payload st id 0 (sized_field (length data) 0) data) as [st1 r]. cbn [lift fst snd].
  destruct r as [|e|].
  - apply flush_if_streaming_benign. exact Hb.
  - exists s. split; [exact Hb|reflexivity].
  - exists s. split; [exact Hb|reflexivity].
Qed.

Lemma flush_benign st s : benign s ->
  exists s', benign s' /\ flush (with_script st s) = lift s' (flush (with_script st [])).
Proof.
  intros Hb. unfold flush. cbn [with_script w_open]. rewrite !end_all_ws.
  destruct (end_all (length (w_open st)) st) as [st1 r]. cbn [lift fst snd].
  destruct r as [|e|].
  - apply private_flush_benign. exact Hb.
  - exists s. split; [exact Hb|reflexivity].
  - exists s. split; [exact Hb|reflexivity].
Qed.

Lemma wstep_benign sp st op s : benign s ->
  exists s', benign s' /\ wstep sp (with_script st s) op = lift s' (wstep sp (with_script st []) op).
Proof.
  intros Hb. destruct op as [t o|t|id data| |]; cbn [wstep].
  - apply write_advanced_benign. exact Hb.
  - apply write_advanced_benign. exact Hb.
  - apply write_raw_benign. exact Hb.
  - apply flush_benign. exact Hb.
  - apply flush_benign. exact Hb.
Qed.

(* one call from states that differ in their (benign) scripts only: same result, states that differ in their (benign)
   scripts only *)
Lemma wstep_sim sp st op s1 s2 : benign s1 -> benign s2 ->
  exists st' r s1' s2', benign s1' /\ benign s2' /\
    wstep sp (with_script st s1) op = (with_script st' s1', r) /\
    wstep sp (with_script st s2) op = (with_script st' s2', r).
Proof.
  intros H1 H2.
  destruct (wstep_benign sp st op s1 H1) as [s1' [B1 E1]].
  destruct (wstep_benign sp st op s2 H2) as [s2' [B2 E2]].
  destruct (wstep sp (with_script st []) op) as [st' r].
  exists st', r, s1', s2'. split; [exact B1|]. split; [exact B2|]. split; [exact E1|exact E2].
Qed.

Lemma wrun_sim sp : forall ops st s1 s2, benign s1 -> benign s2 ->
  exists st' rs s1' s2', benign s1' /\ benign s2' /\
    wrun sp (with_script st s1) ops = (with_script st' s1', rs) /\
    wrun sp (with_script st s2) ops = (with_script st' s2', rs).
Proof.
  induction ops as [|op ops IH]; intros st s1 s2 H1 H2; cbn [wrun].
  - exists st, [], s1, s2. split; [exact H1|]. split; [exact H2|]. split; reflexivity.
  - destruct (wstep_sim sp st op s1 s2 H1 H2) as [st1 [r [s1' [s2' [B1 [B2 [E1 E2]]]]]]].
    rewrite E1, E2.
    destruct (IH st1 s1' s2' B1 B2) as [st' [rs [s1'' [s2'' [C1 [C2 [F1 F2]]]]]]].
    destruct r as [|e|].
    + rewrite F1, F2. exists st', ((WOk, length (w_dest st1)) :: rs), s1'', s2''.
      split; [exact C1|]. split; [exact C2|]. split; reflexivity.
    + rewrite F1, F2. exists st', ((WErr e, length (w_dest st1)) :: rs), s1'', s2''.
      split; [exact C1|]. split; [exact C2|]. split; reflexivity.
    + exists st1, [(WPanic, length (w_dest st1))], s1', s2'.
      split; [exact B1|]. split; [exact B2|]. split; reflexivity.
Qed.

(* ------------------------------------------------------------------ whole runs *)
(* any two destinations that never fail hard see the same run: the same result for every call, the same number of bytes
   delivered after every call, the same final bytes *)
Theorem script_irrelevant2 : forall sp ops s1 s2, benign s1 -> benign s2 -> run_writer sp ops s1 = run_writer sp ops s2.
Proof.
  intros sp ops s1 s2 H1 H2. unfold run_writer.
  change (w_init s1) with (with_script (w_init []) s1). change (w_init s2) with (with_script (w_init []) s2).
  destruct (wrun_sim sp ops (w_init []) s1 s2 H1 H2) as [st' [rs [s1' [s2' [_ [_ [E1 E2]]]]]]].
  rewrite E1, E2. reflexivity.
Qed.

Theorem script_irrelevant : forall sp ops s, benign s -> run_writer sp ops s = run_writer sp ops [].
Proof. intros sp ops s Hb. apply script_irrelevant2; [exact Hb|exact benign_nil]. Qed.

(* the remaining script of such a run is still benign, and the final writer state is otherwise the same *)
Theorem script_irrelevant_state : forall sp ops s, benign s ->
  let st := fst (wrun sp (w_init s) ops) in let st0 := fst (wrun sp (w_init []) ops) in
  w_open st = w_open st0 /\ w_buf st = w_buf st0 /\ w_dest st = w_dest st0 /\ benign (w_script st).
Proof.
  intros sp ops s Hb.
  change (w_init s) with (with_script (w_init []) s). change (w_init []) with (with_script (w_init []) []) at 2.
  destruct (wrun_sim sp ops (w_init []) s [] Hb benign_nil) as [st' [rs [s1' [s2' [B1 [_ [E1 E2]]]]]]].
  rewrite E1, E2. cbn. split; [reflexivity|]. split; [reflexivity|]. split; [reflexivity|exact B1].
Qed.
