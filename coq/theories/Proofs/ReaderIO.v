(* The refill machinery of the reader model (private_read / ensure_data_read): on a source that never pauses or fails,
   refilling is transparent — it only moves bytes from the undelivered input into the buffer window, and its answer
   depends only on how many bytes remain in total.  Basis of C04 (chunking/capacity independence) and C17. *)
From Ebml Require Import Base Tools Spec Reader Proofs.Tactics.

Arguments N.min : simpl never.
Arguments N.max : simpl never.

(* ---- splitN *)
Lemma splitN_spec : forall l k, k <= N.of_nat (length l) ->
  let (a, b) := splitN k l in a ++ b = l /\ N.of_nat (length a) = k.
Proof.
  induction l as [|x l IH]; intros k Hk; cbn [splitN].
  - cbn in Hk. split; [reflexivity|cbn; lia].
  - destruct (N.eqb_spec k 0) as [->|Hnz]; [split; reflexivity|].
    specialize (IH (N.pred k)). cbn [length] in Hk.
    destruct (splitN (N.pred k) l) as [a b]. destruct IH as [Hab Hlen]; [lia|].
    split; [cbn; rewrite Hab; reflexivity|cbn [length]; lia].
Qed.

Lemma splitN_app l k : k <= N.of_nat (length l) -> fst (splitN k l) ++ snd (splitN k l) = l /\ N.of_nat (length (fst (splitN k l))) = k.
Proof. intros H. pose proof (splitN_spec l k H) as S. destruct (splitN k l). exact S. Qed.

(* ---- well-formed cached lengths, calm scripts *)
Definition WF (st : rst) : Prop :=
  r_wlen st = N.of_nat (length (r_win st)) /\ r_rlen st = N.of_nat (length (r_rest st)).

(* a calm source: every read returns data while data remains (no Ok(0) before the end, no error) *)
Definition calm_rd (x : rd) : Prop := match x with Chunk n => 0 < n | Pause => False | Fail _ => False end.
Definition calm (s : list rd) : Prop := Forall calm_rd s.

Definition total (st : rst) : list N := r_win st ++ r_rest st.

(* everything of the state except buffering: window/rest split, capacity, script *)
Definition same_logic (a b : rst) : Prop :=
  r_off a = r_off b /\ r_stack a = r_stack b /\ r_queue a = r_queue b /\ r_last a = r_last b /\
  r_det a = r_det b /\ r_bad a = r_bad b /\ r_fuel a = r_fuel b.

Lemma same_logic_refl a : same_logic a a. Proof. repeat split. Qed.
Lemma same_logic_trans a b c : same_logic a b -> same_logic b c -> same_logic a c.
Proof. unfold same_logic. intuition congruence. Qed.
Lemma same_logic_sym a b : same_logic a b -> same_logic b a.
Proof. unfold same_logic. intuition congruence. Qed.

Lemma deliver_facts st k s : WF st -> k <= r_rlen st ->
  WF (deliver st k s) /\ total (deliver st k s) = total st /\ same_logic (deliver st k s) st /\
  r_wlen (deliver st k s) = r_wlen st + k /\ r_rlen (deliver st k s) = r_rlen st - k /\
  r_script (deliver st k s) = s /\ r_cap (deliver st k s) = r_cap st.
Proof.
  intros [Hw Hr] Hk. unfold deliver. rewrite Hr in Hk. destruct (splitN_app (r_rest st) k Hk) as [Hab Hlen].
  destruct (splitN k (r_rest st)) as [a b]. cbn [fst snd] in *. unfold total, WF, upd_io. cbn.
  repeat split.
  - rewrite app_length. lia.
  - rewrite <- Hab, app_length in Hr. lia.
  - rewrite <- app_assoc, Hab. reflexivity.
Qed.

(* ---- private_read on a calm script *)
Lemma private_read_calm st room : WF st -> calm (r_script st) -> 0 < room ->
  let (st', r) := private_read st room in
  WF st' /\ calm (r_script st') /\ total st' = total st /\ same_logic st' st /\ r_cap st' = r_cap st /\
  (length (r_script st') <= length (r_script st))%nat /\
  (r_script st = [] -> r_script st' = []) /\
  ((r = Ok true /\ r_wlen st < r_wlen st' /\ r_wlen st' <= r_wlen st + room /\
    (r_script st = [] -> r_wlen st' = r_wlen st + N.min room (r_rlen st)) /\
    (length (r_script st') < length (r_script st) \/ r_script st = [])%nat) \/
   (r = Ok false /\ r_rlen st = 0 /\ r_win st' = r_win st /\ r_rest st' = r_rest st /\ r_wlen st' = r_wlen st /\ r_rlen st' = 0)).
Proof.
  intros HWF Hcalm Hroom. unfold private_read. destruct (r_script st) as [|x s] eqn:Es.
  - destruct (N.eqb_spec (N.min room (r_rlen st)) 0) as [E|E].
    + rewrite Es. split; [exact HWF|]. split; [constructor|]. split; [reflexivity|]. split; [apply same_logic_refl|].
      split; [reflexivity|]. split; [lia|]. split; [auto|].
      right. destruct HWF. repeat split; try reflexivity; lia.
    + assert (Hk : N.min room (r_rlen st) <= r_rlen st) by lia.
      destruct (deliver_facts st (N.min room (r_rlen st)) [] HWF Hk) as [H1 [H2 [H3 [H4 [H5 [H6 H7]]]]]].
      rewrite H6. split; [exact H1|]. split; [constructor|]. split; [exact H2|]. split; [exact H3|].
      split; [exact H7|]. split; [cbn; lia|]. split; [auto|].
      left. split; [reflexivity|]. split; [lia|]. split; [lia|]. split; [intros _; lia|right; reflexivity].
  - inversion Hcalm as [|? ? Hx Hs]; subst. destruct x as [n| |c]; try contradiction. cbn in Hx.
    destruct (N.eqb_spec (N.min (N.min n room) (r_rlen st)) 0) as [E|E].
    + destruct HWF as [Hw Hr].
      split; [split; assumption|]. split; [exact Hs|]. split; [reflexivity|]. split; [repeat split|].
      split; [reflexivity|]. split; [cbn; lia|]. split; [discriminate|].
      right. cbn. repeat split; try reflexivity; try assumption; lia.
    + assert (Hk : N.min (N.min n room) (r_rlen st) <= r_rlen st) by lia.
      destruct (deliver_facts st (N.min (N.min n room) (r_rlen st)) s HWF Hk) as [H1 [H2 [H3 [H4 [H5 [H6 H7]]]]]].
      rewrite H6. split; [exact H1|]. split; [exact Hs|]. split; [exact H2|]. split; [exact H3|].
      split; [exact H7|]. split; [cbn; lia|]. split; [discriminate|].
      left. split; [reflexivity|]. split; [lia|]. split; [lia|]. split; [discriminate|left; cbn; lia].
Qed.

Lemma total_len st : WF st -> N.of_nat (length (total st)) = r_wlen st + r_rlen st.
Proof. intros [Hw Hr]. unfold total. rewrite app_length. lia. Qed.

Lemma set_cap_facts st c : WF st -> WF (set_cap st c) /\ total (set_cap st c) = total st /\ same_logic (set_cap st c) st /\
  r_script (set_cap st c) = r_script st /\ r_wlen (set_cap st c) = r_wlen st /\ r_rlen (set_cap st c) = r_rlen st /\ r_cap (set_cap st c) = c /\
  r_win (set_cap st c) = r_win st /\ r_rest (set_cap st c) = r_rest st.
Proof. intros [Hw Hr]. unfold set_cap, upd_io, WF, total, same_logic. cbn. repeat split; assumption. Qed.

(* what ensure_data_read(n) does on a calm source *)
Definition ensure_post (n : N) (st st' : rst) (r : res rerr bool) : Prop :=
  WF st' /\ calm (r_script st') /\ total st' = total st /\ same_logic st' st /\
  r_cap st <= r_cap st' /\ r_cap st' <= N.max (r_cap st) n /\ r_wlen st <= r_wlen st' /\
  (length (r_script st') <= length (r_script st))%nat /\
  ((r = Ok true /\ n <= r_wlen st') \/ (r = Ok false /\ r_wlen st' < n /\ r_rlen st' = 0)).

Lemma ensure_loop_calm n : forall fuel st, WF st -> calm (r_script st) ->
  ((1 <= fuel)%nat /\ n <= r_wlen st) \/ ((length (r_script st) + 1 <= fuel)%nat /\ r_rlen st = 0) \/ (length (r_script st) + 2 <= fuel)%nat ->
  ensure_post n st (fst (ensure_loop fuel n st)) (snd (ensure_loop fuel n st)).
Proof.
  induction fuel as [|f IH]; intros st HWF Hcalm Hfuel; [lia|].
  cbn [ensure_loop]. destruct (N.leb_spec n (r_wlen st)) as [Hle|Hgt].
  - cbn [fst snd]. unfold ensure_post. split; [exact HWF|]. split; [exact Hcalm|]. split; [reflexivity|]. split; [apply same_logic_refl|].
    split; [lia|]. split; [lia|]. split; [lia|]. split; [lia|]. left. split; [reflexivity|exact Hle].
  - destruct (set_cap_facts st (N.max (r_cap st) n) HWF) as [W1 [T1 [L1 [S1 [WL1 [RL1 [C1 [Wi1 Re1]]]]]]]].
    set (st1 := set_cap st (N.max (r_cap st) n)) in *.
    assert (Hroom : 0 < r_cap st1 - r_wlen st1) by lia.
    assert (Hcalm1 : calm (r_script st1)) by (rewrite S1; exact Hcalm).
    pose proof (private_read_calm st1 _ W1 Hcalm1 Hroom) as HP.
    destruct (private_read st1 (r_cap st1 - r_wlen st1)) as [st2 r2].
    destruct HP as [W2 [Cm2 [T2 [L2 [C2 [Len2 [Emp2 Hcases]]]]]]].
    destruct Hcases as [[-> [Hgrow [Hub [Hexact Hshort]]]]|[-> [Hr0 [Hw2 [Hre2 [Hwl2 Hrl2]]]]]].
    + (* data arrived: loop *)
      assert (Hpre : ((1 <= f)%nat /\ n <= r_wlen st2) \/ ((length (r_script st2) + 1 <= f)%nat /\ r_rlen st2 = 0) \/ (length (r_script st2) + 2 <= f)%nat).
      { destruct Hfuel as [[_ Hx]|[[Hf Hx]|Hf]]; [lia| |].
        - (* nothing remained: the read could not have delivered *)
          pose proof (total_len st1 W1). pose proof (total_len st2 W2). rewrite T2 in H0. lia.
        - destruct Hshort as [Hs|Hs].
          + right. right. rewrite S1 in Hs. lia.
          + specialize (Hexact Hs). rewrite S1 in Hs. rewrite (Emp2 ltac:(rewrite S1; exact Hs)). rewrite Hs in Hf. cbn in Hf |- *.
            destruct (N.le_gt_cases (r_cap st1 - r_wlen st1) (r_rlen st1)) as [Hc|Hc].
            * left. split; [lia|]. lia.
            * right. left. split; [lia|]. pose proof (total_len st1 W1). pose proof (total_len st2 W2). rewrite T2 in H0. lia. }
      specialize (IH st2 W2 Cm2 Hpre). destruct (ensure_loop f n st2) as [st3 r3]. cbn [fst snd] in *.
      destruct IH as [W3 [Cm3 [T3 [L3 [C3a [C3b [Wl3 [Len3 Hc3]]]]]]]].
      unfold ensure_post. split; [exact W3|]. split; [exact Cm3|]. split; [congruence|].
      split; [eapply same_logic_trans; [exact L3|eapply same_logic_trans; [exact L2|exact L1]]|].
      split; [lia|]. split; [lia|]. split; [lia|]. split; [rewrite S1 in Len2; lia|]. exact Hc3.
    + (* the source is exhausted *)
      cbn [fst snd]. unfold ensure_post. split; [exact W2|]. split; [exact Cm2|]. split; [congruence|].
      split; [eapply same_logic_trans; [exact L2|exact L1]|].
      split; [lia|]. split; [lia|]. split; [lia|]. split; [rewrite S1 in Len2; lia|].
      right. split; [reflexivity|]. split; [lia|exact Hrl2].
Qed.

Lemma ensure_calm n st : WF st -> calm (r_script st) ->
  ensure_post n st (fst (ensure n st)) (snd (ensure n st)).
Proof. intros HWF Hc. unfold ensure. apply ensure_loop_calm; [exact HWF|exact Hc|]. right. right. lia. Qed.

(* the answer of ensure depends only on the total number of bytes that remain *)
Lemma ensure_answer n st : WF st -> calm (r_script st) ->
  snd (ensure n st) = Ok (n <=? r_wlen st + r_rlen st).
Proof.
  intros HWF Hc. pose proof (ensure_calm n st HWF Hc) as [W' [_ [T' [_ [_ [_ [_ [_ Hcase]]]]]]]].
  pose proof (total_len st HWF). pose proof (total_len _ W'). rewrite T' in H0.
  destruct Hcase as [[-> Hn]|[-> [Hlt Hr0]]].
  - destruct (N.leb_spec n (r_wlen st + r_rlen st)); [reflexivity|lia].
  - destruct (N.leb_spec n (r_wlen st + r_rlen st)); [lia|reflexivity].
Qed.
