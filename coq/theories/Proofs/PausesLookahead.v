(* C04, temporary end of file, continued: pauses swallowed by the look-ahead.  peek_valid_tag_header asks for 16 bytes
   (and peek_tag_id for 8) but uses whatever it gets; an Ok(0) answer to these reads is not reported.  If the tag at the
   cursor is already complete in the buffer window, such a call yields the same item as the abstract reader, whatever the
   look-ahead reads meet ([next_refines_lookahead]).  Together with Proofs/Pauses.v: runs over scripts with any number of
   pauses, each either met at a tag boundary (None) or swallowed while a complete tag is buffered ([pauses_lookahead]). *)
From Ebml Require Import Base Tools Spec Reader Pure Proofs.Tactics Proofs.ReaderIO Proofs.Refine Proofs.PureProofs Proofs.Termination Proofs.Pauses.

Arguments vint_len : simpl never.
Arguments from_be : simpl never.
Arguments read_vint : simpl never.

(* ------------------------------------------------------------------ the refill loop on a source that may pause *)
Lemma private_read_calmP st room : WF st -> calmP (r_script st) -> 0 < room ->
  let (st', r) := private_read st room in
  WF st' /\ calmP (r_script st') /\ total st' = total st /\ same_logic st' st /\ r_cap st' = r_cap st /\
  (length (r_script st') <= length (r_script st))%nat /\
  (r_script st = [] -> r_script st' = []) /\
  ((r = Ok true /\ r_wlen st < r_wlen st' /\
    (r_script st = [] -> r_wlen st' = r_wlen st + N.min room (r_rlen st)) /\
    (length (r_script st') < length (r_script st) \/ r_script st = [])%nat) \/
   (r = Ok false /\ r_wlen st' = r_wlen st /\ r_rlen st' = r_rlen st)).
Proof.
  intros HWF Hcalm Hroom. unfold private_read. destruct (r_script st) as [|x s] eqn:Es.
  - destruct (N.eqb_spec (N.min room (r_rlen st)) 0) as [E|E].
    + rewrite Es. split; [exact HWF|]. split; [constructor|]. split; [reflexivity|]. split; [apply same_logic_refl|].
      split; [reflexivity|]. split; [lia|]. split; [auto|].
      right. repeat split; reflexivity.
    + assert (Hk : N.min room (r_rlen st) <= r_rlen st) by lia.
      destruct (deliver_facts st (N.min room (r_rlen st)) [] HWF Hk) as [H1 [H2 [H3 [H4 [H5 [H6 H7]]]]]].
      rewrite H6. split; [exact H1|]. split; [constructor|]. split; [exact H2|]. split; [exact H3|].
      split; [exact H7|]. split; [cbn; lia|]. split; [auto|].
      left. split; [reflexivity|]. split; [lia|]. split; [intros _; lia|right; reflexivity].
  - inversion Hcalm as [|? ? Hx Hs]; subst. destruct x as [n| |c]; [| |contradiction].
    + cbn in Hx. destruct (N.eqb_spec (N.min (N.min n room) (r_rlen st)) 0) as [E|E].
      * destruct HWF as [Hw Hr].
        split; [split; assumption|]. split; [exact Hs|]. split; [reflexivity|]. split; [repeat split|].
        split; [reflexivity|]. split; [cbn; lia|]. split; [discriminate|].
        right. cbn. repeat split; reflexivity.
      * assert (Hk : N.min (N.min n room) (r_rlen st) <= r_rlen st) by lia.
        destruct (deliver_facts st (N.min (N.min n room) (r_rlen st)) s HWF Hk) as [H1 [H2 [H3 [H4 [H5 [H6 H7]]]]]].
        rewrite H6. split; [exact H1|]. split; [exact Hs|]. split; [exact H2|]. split; [exact H3|].
        split; [exact H7|]. split; [cbn; lia|]. split; [discriminate|].
        left. split; [reflexivity|]. split; [lia|]. split; [discriminate|left; cbn; lia].
    + destruct HWF as [Hw Hr].
      split; [split; assumption|]. split; [exact Hs|]. split; [reflexivity|]. split; [repeat split|].
      split; [reflexivity|]. split; [cbn; lia|]. split; [discriminate|].
      right. cbn. repeat split; reflexivity.
Qed.

Definition ensureP_post (n : N) (st st' : rst) (r : res rerr bool) : Prop :=
  WF st' /\ calmP (r_script st') /\ total st' = total st /\ same_logic st' st /\ r_wlen st <= r_wlen st' /\
  (exists b, r = Ok b) /\ (r = Ok true -> n <= r_wlen st') /\ (r = Ok false -> r_wlen st' < n).

Lemma ensure_loop_calmP n : forall fuel st, WF st -> calmP (r_script st) ->
  ((1 <= fuel)%nat /\ n <= r_wlen st) \/ ((length (r_script st) + 1 <= fuel)%nat /\ r_rlen st = 0) \/ (length (r_script st) + 2 <= fuel)%nat ->
  ensureP_post n st (fst (ensure_loop fuel n st)) (snd (ensure_loop fuel n st)).
Proof.
  induction fuel as [|f IH]; intros st HWF Hcalm Hfuel; [lia|].
  cbn [ensure_loop]. destruct (N.leb_spec n (r_wlen st)) as [Hle|Hgt].
  - cbn [fst snd]. unfold ensureP_post. split; [exact HWF|]. split; [exact Hcalm|]. split; [reflexivity|]. split; [apply same_logic_refl|].
    split; [lia|]. split; [exists true; reflexivity|]. split; [intros _; exact Hle|discriminate].
  - destruct (set_cap_facts st (N.max (r_cap st) n) HWF) as [W1 [T1 [L1 [S1 [WL1 [RL1 [C1 [Wi1 Re1]]]]]]]].
    set (st1 := set_cap st (N.max (r_cap st) n)) in *.
    assert (Hroom : 0 < r_cap st1 - r_wlen st1) by lia.
    assert (Hcalm1 : calmP (r_script st1)) by (rewrite S1; exact Hcalm).
    pose proof (private_read_calmP st1 _ W1 Hcalm1 Hroom) as HP.
    destruct (private_read st1 (r_cap st1 - r_wlen st1)) as [st2 r2].
    destruct HP as [W2 [Cm2 [T2 [L2 [C2 [Len2 [Emp2 Hcases]]]]]]].
    destruct Hcases as [[-> [Hgrow [Hexact Hshort]]]|[-> [Hwl2 Hrl2]]].
    + assert (Hpre : ((1 <= f)%nat /\ n <= r_wlen st2) \/ ((length (r_script st2) + 1 <= f)%nat /\ r_rlen st2 = 0) \/ (length (r_script st2) + 2 <= f)%nat).
      { pose proof (total_len st1 W1) as Ht1. pose proof (total_len st2 W2) as Ht2. rewrite T2 in Ht2.
        destruct Hfuel as [[_ Hx]|[[Hf Hx]|Hf]]; [lia|lia|].
        destruct Hshort as [Hs|Hs].
        - right. right. rewrite S1 in Hs. lia.
        - specialize (Hexact Hs). rewrite S1 in Hs. assert (Hs1 : r_script st1 = []) by (rewrite S1; exact Hs).
          rewrite (Emp2 Hs1). rewrite Hs in Hf. cbn [length] in Hf |- *.
          destruct (N.le_gt_cases (r_cap st1 - r_wlen st1) (r_rlen st1)) as [Hc|Hc].
          + left. split; [lia|]. lia.
          + right. left. split; [lia|]. lia. }
      specialize (IH st2 W2 Cm2 Hpre). destruct (ensure_loop f n st2) as [st3 r3]. cbn [fst snd] in *.
      destruct IH as [W3 [Cm3 [T3 [L3 [Wl3 [Hb3 [Hc3 Hd3]]]]]]].
      unfold ensureP_post. split; [exact W3|]. split; [exact Cm3|]. split; [congruence|].
      split; [eapply same_logic_trans; [exact L3|eapply same_logic_trans; [exact L2|exact L1]]|].
      split; [lia|]. split; [exact Hb3|]. split; [exact Hc3|exact Hd3].
    + cbn [fst snd]. unfold ensureP_post. split; [exact W2|]. split; [exact Cm2|]. split; [congruence|].
      split; [eapply same_logic_trans; [exact L2|exact L1]|].
      split; [lia|]. split; [exists false; reflexivity|]. split; [discriminate|intros _; lia].
Qed.

Lemma ensure_calmP n st : WF st -> calmP (r_script st) -> ensureP_post n st (fst (ensure n st)) (snd (ensure n st)).
Proof. intros HWF Hc. unfold ensure. apply ensure_loop_calmP; [exact HWF|exact Hc|]. right. right. lia. Qed.

Lemma ensure_viewP n st : GoodP st ->
  GoodP (fst (ensure n st)) /\ Abs (fst (ensure n st)) = Abs st /\ r_wlen st <= r_wlen (fst (ensure n st)) /\
  r_off (fst (ensure n st)) = r_off st /\
  (exists b, snd (ensure n st) = Ok b) /\ (snd (ensure n st) = Ok true -> n <= r_wlen (fst (ensure n st))) /\
  (snd (ensure n st) = Ok false -> r_wlen (fst (ensure n st)) < n).
Proof.
  intros [HWF Hc]. destruct (ensure_calmP n st HWF Hc) as [W' [C' [T' [L' [Wl [Hb [Ht Hf]]]]]]].
  split; [split; assumption|]. split; [apply abs_same; assumption|]. split; [exact Wl|].
  split; [apply L'|]. split; [exact Hb|]. split; assumption.
Qed.

Lemma ensure_sat n st : n <= r_wlen st -> ensure n st = (st, Ok true).
Proof. intros H. unfold ensure. cbn [ensure_loop]. destruct (N.leb_spec n (r_wlen st)); [reflexivity|lia]. Qed.

(* ------------------------------------------------------------------ list and vint facts *)
Lemma consume_refinesP st k : GoodP st -> k <= r_wlen st ->
  GoodP (consume st k) /\ Abs (consume st k) = pconsume (Abs st) k /\
  r_wlen (consume st k) = r_wlen st - k /\ r_off (consume st k) = r_off st + k.
Proof.
  intros [[Hw Hr] Hc] Hk. unfold consume. rewrite Hw in Hk.
  pose proof (splitN_snd_len (r_win st) k Hk) as Hlen. pose proof (splitN_snd_app (r_win st) k (r_rest st) Hk) as Happ.
  destruct (splitN k (r_win st)) as [a b] eqn:Es. cbn [snd] in *.
  split; [split; [split; cbn; [lia|exact Hr]|exact Hc]|].
  split; [|cbn; split; reflexivity].
  unfold Abs, pconsume, total. cbn. rewrite Happ. reflexivity.
Qed.

Lemma read_vint_prefix a b v n : (1 <= n)%nat -> read_vint (a ++ b) = Ok (Some (v, n)) -> (n <= length a)%nat ->
  read_vint a = Ok (Some (v, n)).
Proof.
  intros Hn H Hl. destruct a as [|b0 tl]; [cbn in Hl; lia|]. cbn [app] in H. unfold read_vint in *.
  destruct (b0 =? 0); [discriminate|]. cbv zeta in *. set (len := vint_len b0) in *.
  destruct (Nat.ltb_spec (length (b0 :: tl ++ b)) len) as [|_]; [discriminate|].
  destruct (b0 <? _); [discriminate|].
  destruct (two64 <=? from_be_acc _ (firstn (len - 1) (tl ++ b))) eqn:E2; [discriminate|].
  inversion H; subst n. cbn [length] in Hl.
  assert (Hf : firstn (len - 1) (tl ++ b) = firstn (len - 1) tl).
  { rewrite firstn_app. replace (len - 1 - length tl)%nat with O by lia. cbn [firstn]. apply app_nil_r. }
  rewrite Hf in *. destruct (Nat.ltb_spec (length (b0 :: tl)) len) as [Hlt|_]; [cbn [length] in Hlt; lia|].
  rewrite E2. reflexivity.
Qed.

Lemma window_vint st idl size sl : WF st -> wf_bytes (total st) ->
  read_vint (firstn 8 (skipn idl (total st))) = Ok (Some (size, sl)) -> N.of_nat (idl + sl) <= r_wlen st ->
  read_vint (firstn 8 (skipn idl (r_win st))) = Ok (Some (size, sl)).
Proof.
  intros [Hw Hr] Hwf Hv Hfit.
  assert (Hbuf : wf_bytes (firstn 8 (skipn idl (total st)))) by (apply BytesProofs.wf_firstn, BytesProofs.wf_skipn, Hwf).
  destruct (VintProofs.read_vint_some _ _ _ Hbuf Hv) as [[Hs1 Hs8] _].
  unfold total in Hv. rewrite skipn_app in Hv. replace (idl - length (r_win st))%nat with O in Hv by lia. cbn [skipn] in Hv.
  rewrite firstn_app in Hv.
  apply (read_vint_prefix _ _ _ _ Hs1 Hv). rewrite firstn_length, skipn_length. lia.
Qed.

Lemma io_same_goodP a b : io_same a b -> GoodP b -> GoodP a.
Proof. intros [H1 [H2 [H3 [H4 [H5 [H6 _]]]]]] [[Hw Hr] Hc]. unfold GoodP, WF. rewrite H1, H2, H3, H4, H6. auto. Qed.

(* ------------------------------------------------------------------ the header, when it is complete in the window *)
Lemma peek_tag_id_fits st id idl : GoodP st -> wf_bytes (total st) ->
  p_tag_id (Abs st) = Ok (id, idl) -> N.of_nat idl <= r_wlen st ->
  GoodP (fst (peek_tag_id st)) /\ Abs (fst (peek_tag_id st)) = Abs st /\ snd (peek_tag_id st) = Ok (id, idl) /\
  r_wlen st <= r_wlen (fst (peek_tag_id st)) /\ r_off (fst (peek_tag_id st)) = r_off st.
Proof.
  intros HG Hwf Et Hfit. pose proof (p_tag_id_pos (Abs st) id idl Hwf Et) as Hpos.
  unfold peek_tag_id. destruct (ensure_viewP 8 st HG) as [HG1 [HA1 [Hwl [Hoff [[b Hb] _]]]]].
  destruct (ensure 8 st) as [st1 r1]. cbn [fst snd] in *. subst r1.
  assert (Ht1 : total st1 = total st) by (change (b_bytes (Abs st1) = b_bytes (Abs st)); rewrite HA1; reflexivity).
  destruct HG1 as [W1 C1]. pose proof W1 as [Hw1 _].
  unfold p_tag_id in Et. cbn [Abs b_bytes b_off] in Et. rewrite <- Ht1 in Et. unfold blen in Et. cbn [Abs b_bytes] in Et. rewrite <- Ht1 in Et.
  destruct (r_win st1) as [|b0 w] eqn:Ew; [cbn [length] in Hw1; lia|].
  unfold total in Et. rewrite Ew in Et. cbn [app] in Et.
  destruct (b0 =? 0).
  - inversion Et; subst. cbn [fst snd]. split; [split; assumption|]. split; [exact HA1|]. split; [reflexivity|]. split; [exact Hwl|exact Hoff].
  - destruct (N.of_nat (length (b0 :: w ++ r_rest st1)) <? N.of_nat (vint_len b0)); [discriminate|].
    inversion Et as [[Hid Hlen]]. clear Et.
    destruct (N.ltb_spec (r_wlen st1) (N.of_nat (vint_len b0))) as [Hlt|_]; [lia|].
    cbn [fst snd]. split; [split; assumption|]. split; [exact HA1|]. split; [|split; [exact Hwl|exact Hoff]].
    f_equal. f_equal. f_equal.
    change (b0 :: w ++ r_rest st1) with ((b0 :: w) ++ r_rest st1). rewrite firstn_app.
    replace (vint_len b0 - length (b0 :: w))%nat with O by lia. cbn [firstn]. rewrite app_nil_r. reflexivity.
Qed.

(* peek_valid_tag_header after the id: only the size bytes are looked at *)
Lemma hdr_tail_refines_gen c st id id_len : WF st ->
  read_vint (firstn 8 (skipn id_len (r_win st))) = read_vint (firstn 8 (skipn id_len (total st))) ->
  io_same (fst (hdr_tail c st id id_len)) st /\
  Abs (fst (hdr_tail c st id id_len)) = fst (p_hdr_tail c (Abs st) id id_len) /\
  snd (hdr_tail c st id id_len) = snd (p_hdr_tail c (Abs st) id id_len).
Proof.
  intros HWF Hv. unfold hdr_tail, p_hdr_tail. cbn [Abs b_bytes b_off]. rewrite Hv.
  destruct (read_vint (firstn 8 (skipn id_len (total st)))) as [[[size size_len]|]| |] eqn:Ev;
    try (split; [apply io_same_refl|split; reflexivity]).
  destruct (is_numeric _ && _); [split; [apply io_same_refl|split; reflexivity]|].
  destruct (negb (c_allow_id c) && _); [split; [apply io_same_refl|split; reflexivity]|].
  destruct (hier_step_refines c st id (get_type (c_sp c) id)) as [Hio [Habs Hres]].
  destruct (hier_step c st id (get_type (c_sp c) id)) as [st1 e1]. destruct (p_hier_step c (Abs st) id (get_type (c_sp c) id)) as [pst1 pe1].
  cbn [fst snd] in *. subst pst1 pe1.
  destruct e1; [split; [exact Hio|split; reflexivity]|].
  cbn [Abs b_bad]. destruct (r_bad st1); [split; [exact Hio|split; reflexivity]|].
  assert (Hinv : forall sz, p_invalid_tag_size (Abs st1) sz = is_invalid_tag_size st1 sz) by reflexivity.
  rewrite Hinv.
  assert (Hoff : r_off st1 = r_off st) by apply Hio.
  destruct (negb (c_allow_over c) && _); [rewrite ?Hoff; split; [exact Hio|split; reflexivity]|].
  destruct (c_max c) as [m|]; destruct (ebml_size size size_len) as [n|];
    try destruct (m <? n); rewrite ?Hoff; (split; [exact Hio|split; reflexivity]).
Qed.

Lemma peek_header_fits c st pst1 h : GoodP st -> wf_bytes (total st) ->
  p_header c (Abs st) = (pst1, Ok h) -> N.of_nat (snd h) <= r_wlen st ->
  GoodP (fst (peek_header c st)) /\ Abs (fst (peek_header c st)) = pst1 /\ snd (peek_header c st) = Ok h /\
  r_wlen st <= r_wlen (fst (peek_header c st)) /\ r_off (fst (peek_header c st)) = r_off st.
Proof.
  intros HG Hwf Eh Hfit. destruct h as [[[id ty] esz] hl]. cbn [snd] in Hfit.
  destruct (p_header_ok_facts _ _ _ _ _ _ _ Eh) as (_ & _ & _ & idl & size & sl & Et & Ev & Hhl & _ & _).
  rewrite peek_header_unfold.
  destruct (ensure_viewP 16 st HG) as [HG1 [HA1 [Hwl1 [Hoff1 [[b Hb] _]]]]].
  destruct (ensure 16 st) as [st1 r1]. cbn [fst snd] in *. subst r1.
  assert (Ht1 : total st1 = total st) by (change (b_bytes (Abs st1) = b_bytes (Abs st)); rewrite HA1; reflexivity).
  assert (Hwf1 : wf_bytes (total st1)) by (rewrite Ht1; exact Hwf).
  assert (Et1 : p_tag_id (Abs st1) = Ok (id, idl)) by (rewrite HA1; exact Et).
  assert (Hfit1 : N.of_nat idl <= r_wlen st1) by lia.
  destruct (peek_tag_id_fits st1 id idl HG1 Hwf1 Et1 Hfit1) as [HG2 [HA2 [Hr2 [Hwl2 Hoff2]]]].
  destruct (peek_tag_id st1) as [st2 r2]. cbn [fst snd] in *. subst r2.
  assert (Ht2 : total st2 = total st) by (change (b_bytes (Abs st2) = b_bytes (Abs st)); rewrite HA2, HA1; reflexivity).
  assert (Hv : read_vint (firstn 8 (skipn idl (r_win st2))) = read_vint (firstn 8 (skipn idl (total st2)))).
  { assert (Ev2 : read_vint (firstn 8 (skipn idl (total st2))) = Ok (Some (size, sl))) by (rewrite Ht2; exact Ev).
    rewrite Ev2. apply window_vint; [apply HG2|rewrite Ht2; exact Hwf|exact Ev2|lia]. }
  destruct (hdr_tail_refines_gen c st2 id idl (proj1 HG2) Hv) as [Hio [Habs Hres]].
  assert (Eh2 : p_hdr_tail c (Abs st2) id idl = (pst1, Ok (id, ty, esz, hl))).
  { rewrite HA2, HA1. rewrite p_header_unfold, Et in Eh. exact Eh. }
  rewrite Eh2 in Habs, Hres. cbn [fst snd] in Habs, Hres.
  split; [exact (io_same_goodP _ _ Hio HG2)|]. split; [exact Habs|]. split; [exact Hres|].
  destruct Hio as [_ [Hwl3 [_ [_ [_ [_ [Hoff3 _]]]]]]]. rewrite Hwl3, Hoff3. split; [lia|congruence].
Qed.

(* ------------------------------------------------------------------ the payload, when it is complete in the window *)
Definition need (h : N * option dtype * esize * nat) : N :=
  match snd (fst (fst h)) with
  | Some DMaster => 0
  | _ => match snd (fst h) with SKnown n => n | SUnknown => 0 end
  end.

Lemma set_cap_goodP st cp : GoodP st -> GoodP (set_cap st cp) /\ Abs (set_cap st cp) = Abs st.
Proof.
  intros [HWF Hc]. destruct (set_cap_facts st cp HWF) as [W [T [L [S _]]]].
  split; [split; [exact W|rewrite S; exact Hc]|apply abs_same; assumption].
Qed.

Lemma tag_tail_fits c st ts h : GoodP st -> N.of_nat (snd h) + need h <= r_wlen st ->
  GoodP (fst (tag_tail c st ts h)) /\ Abs (fst (tag_tail c st ts h)) = fst (p_tag_tail c (Abs st) ts h) /\
  snd (tag_tail c st ts h) = snd (p_tag_tail c (Abs st) ts h).
Proof.
  intros HG Hfit. destruct h as [[[id ty] esz] hl]. unfold need in Hfit. cbn [snd fst] in Hfit. unfold tag_tail, p_tag_tail.
  assert (Hhl : N.of_nat hl <= r_wlen st) by lia.
  destruct (consume_refinesP st (N.of_nat hl) HG Hhl) as [HGc [HAc [Hwc Hoc]]].
  set (stc := consume st (N.of_nat hl)) in *. rewrite <- HAc.
  assert (Hoff : b_off (Abs stc) = r_off stc) by reflexivity. rewrite Hoff.
  assert (Master : forall t, GoodP (fst (stc, @Ok rerr ptag t)) /\ Abs (fst (stc, @Ok rerr ptag t)) = fst (Abs stc, @Ok rerr ptag t) /\
                             snd (stc, @Ok rerr ptag t) = snd (Abs stc, @Ok rerr ptag t)).
  { intros t. cbn [fst snd]. split; [exact HGc|]. split; reflexivity. }
  destruct esz as [size|].
  2:{ destruct ty as [[]|]; try apply Master; cbn [fst snd]; (split; [exact HGc|]; split; reflexivity). }
  destruct ty as [[]|]; try apply Master.
  all: assert (Hsz : size <= r_wlen stc) by lia.
  all: destruct (set_cap_goodP stc (N.max (r_cap stc) size) HGc) as [HG1 HA1].
  all: rewrite (ensure_sat size (set_cap stc (N.max (r_cap stc) size))) by exact Hsz.
  all: set (st1 := set_cap stc (N.max (r_cap stc) size)) in *.
  all: assert (Hb : (blen (Abs stc) <? size) = false)
         by (apply N.ltb_ge; unfold blen; cbn [Abs b_bytes]; rewrite (total_len stc (proj1 HGc)); lia).
  all: rewrite Hb.
  all: assert (Hraw : fst (splitN size (r_win st1)) = fst (splitN size (b_bytes (Abs stc))))
         by (cbn [Abs b_bytes]; unfold total; symmetry; apply splitN_fst_app; destruct HGc as [[Hw _] _]; change (r_win st1) with (r_win stc); lia).
  all: destruct (consume_refinesP st1 size HG1 Hsz) as [HG2 [HA2 _]]; rewrite HA1 in HA2.
  all: destruct (splitN size (r_win st1)) as [raw rest'] eqn:Es; cbn [fst] in Hraw; rewrite <- Hraw.
  all: set (st2 := consume st1 size) in *; rewrite <- HA2.
  all: assert (Fin : forall (r : res rerr ptag), GoodP (fst (st2, r)) /\ Abs (fst (st2, r)) = fst (Abs st2, r) /\ snd (st2, r) = snd (Abs st2, r))
         by (intros r; cbn [fst snd]; split; [exact HG2|split; reflexivity]).
  all: try (destruct (arr_to_u64 raw); apply Fin).
  all: try (destruct (arr_to_i64 raw); apply Fin).
  all: try (destruct (arr_to_f64 raw); apply Fin).
  all: try (destruct (utf8_valid raw); apply Fin).
  all: apply Fin.
Qed.

Lemma p_tag_tail_off c pst ts h pst' p : p_tag_tail c pst ts h = (pst', Ok p) ->
  b_off pst' = b_off pst + N.of_nat (snd h) + need h.
Proof.
  destruct h as [[[id ty] esz] hl]. unfold p_tag_tail, need. cbn [snd fst]. cbn zeta.
  destruct ty as [[]|]; try (intros H; inversion H; cbn [pconsume b_off]; lia);
    (destruct esz as [size|]; [|intros H; inversion H]);
    (destruct (_ <? size); [intros H; inversion H|]);
    try (destruct (arr_to_u64 _)); try (destruct (arr_to_i64 _)); try (destruct (arr_to_f64 _)); try (destruct (utf8_valid _));
    intros H; inversion H; cbn [pconsume b_off]; lia.
Qed.

(* read_tag when the tag at the cursor is complete in the window *)
Lemma read_tag_fits c st pst' p : GoodP st -> wf_bytes (total st) ->
  p_read_tag c (Abs st) = (pst', Ok p) -> b_off pst' <= r_off st + r_wlen st ->
  GoodP (fst (read_tag c st)) /\ Abs (fst (read_tag c st)) = pst' /\ snd (read_tag c st) = Ok p.
Proof.
  intros HG Hwf Er Hfit. rewrite p_read_tag_unfold in Er. rewrite read_tag_unfold.
  destruct (p_header c (Abs st)) as [pst1 [h|e|]] eqn:Eh; try discriminate.
  pose proof (p_tag_tail_off c pst1 (b_off (Abs st)) h pst' p Er) as Hoff.
  assert (Ho1 : b_off pst1 = r_off st).
  { destruct h as [[[id ty] esz] hl]. destruct (p_header_ok_facts _ _ _ _ _ _ _ Eh) as (_ & Ho & _). exact Ho. }
  assert (Hfit1 : N.of_nat (snd h) <= r_wlen st) by lia.
  destruct (peek_header_fits c st pst1 h HG Hwf Eh Hfit1) as [HG1 [HA1 [Hr1 [Hwl1 Hoff1]]]].
  destruct (peek_header c st) as [st1 r1]. cbn [fst snd] in *. subst r1.
  assert (Hfit2 : N.of_nat (snd h) + need h <= r_wlen st1) by lia.
  destruct (tag_tail_fits c st1 (r_off st) h HG1 Hfit2) as [HG2 [HA2 Hr2]].
  rewrite HA1 in HA2, Hr2. change (b_off (Abs st)) with (r_off st) in Er. rewrite Er in HA2, Hr2. cbn [fst snd] in HA2, Hr2.
  split; [exact HG2|]. split; [exact HA2|exact Hr2].
Qed.

(* ------------------------------------------------------------------ one call *)
(* the tag this call reads is complete in the window when its header is peeked: the abstract reader reads a tag there
   (no error) that ends inside the window.  [st1] is the state in which read_tag starts *)
Definition lookahead_ok (c : cfg) (st : rst) : Prop :=
  let st0 := pop_frames st (exhausted_count (r_off st) (r_stack st)) in
  let st1 := if r_wlen st0 =? 0 then fst (ensure 1 st0) else st0 in
  1 <= r_wlen st1 /\ exists pst' p, p_read_tag c (Abs st1) = (pst', Ok p) /\ b_off pst' <= r_off st1 + r_wlen st1.

Lemma buf_same_goodP a b : buf_same a b -> GoodP b -> GoodP a.
Proof. intros [H1 [H2 [H3 [H4 H5]]]] [[Hw Hr] Hc]. unfold GoodP, WF. rewrite H1, H2, H3, H4, H5. auto. Qed.
Lemma goodP_set_stack st stk det : GoodP st -> GoodP (set_stack st stk det).
Proof. apply buf_same_goodP. repeat split. Qed.
Lemma goodP_set_queue st q : GoodP st -> GoodP (set_queue st q).
Proof. apply buf_same_goodP. repeat split. Qed.
Lemma goodP_set_last st l : GoodP st -> GoodP (set_last st l).
Proof. apply buf_same_goodP. repeat split. Qed.
Lemma goodP_set_bad st b : GoodP st -> GoodP (set_bad st b).
Proof. apply buf_same_goodP. repeat split. Qed.
Lemma goodP_push_q st items : GoodP st -> GoodP (push_q st items).
Proof. apply goodP_set_queue. Qed.
Lemma goodP_pop_frames st k : GoodP st -> GoodP (pop_frames st k).
Proof. intros H. unfold pop_frames. apply goodP_push_q, goodP_set_stack, H. Qed.

Lemma read_tag_checked_fits c st0 : GoodP st0 -> wf_bytes (total st0) ->
  (let st1 := if r_wlen st0 =? 0 then fst (ensure 1 st0) else st0 in
   1 <= r_wlen st1 /\ exists pst' p, p_read_tag c (Abs st1) = (pst', Ok p) /\ b_off pst' <= r_off st1 + r_wlen st1) ->
  GoodP (fst (read_tag_checked c st0)) /\ Abs (fst (read_tag_checked c st0)) = fst (p_read_tag_checked c (Abs st0)) /\
  snd (read_tag_checked c st0) = snd (p_read_tag_checked c (Abs st0)).
Proof.
  intros HG Hwf. cbn zeta. unfold read_tag_checked, p_read_tag_checked.
  assert (Hne : forall st1, WF st1 -> 1 <= r_wlen st1 -> total st1 = total st0 ->
                  match b_bytes (Abs st0) with [] => (Abs st0, None) | _ :: _ => let (st2, r) := p_read_tag c (Abs st0) in (st2, Some r) end =
                  let (st2, r) := p_read_tag c (Abs st0) in (st2, Some r)).
  { intros st1 [Hw1 _] H1 Ht. cbn [Abs b_bytes]. rewrite <- Ht. unfold total. destruct (r_win st1); [cbn [length] in Hw1; lia|reflexivity]. }
  destruct (N.eqb_spec (r_wlen st0) 0) as [Hz|Hnz].
  - intros [H1 [pst' [p [Er Hfit]]]].
    destruct (ensure_viewP 1 st0 HG) as [HG1 [HA1 [_ [_ [[b Hb] [_ Hfalse]]]]]].
    destruct (ensure 1 st0) as [st1 r1]. cbn [fst snd] in *. subst r1.
    destruct b; [|specialize (Hfalse eq_refl); lia].
    assert (Ht1 : total st1 = total st0) by (change (b_bytes (Abs st1) = b_bytes (Abs st0)); rewrite HA1; reflexivity).
    rewrite (Hne st1 (proj1 HG1) H1 Ht1).
    assert (Hwf1 : wf_bytes (total st1)) by (rewrite Ht1; exact Hwf).
    destruct (read_tag_fits c st1 pst' p HG1 Hwf1 Er Hfit) as [HG2 [HA2 Hr2]].
    rewrite HA1 in Er. rewrite Er. destruct (read_tag c st1) as [st2 r2]. cbn [fst snd] in *. subst r2.
    split; [exact HG2|]. split; [exact HA2|reflexivity].
  - intros [H1 [pst' [p [Er Hfit]]]].
    rewrite (Hne st0 (proj1 HG) H1 eq_refl).
    destruct (read_tag_fits c st0 pst' p HG Hwf Er Hfit) as [HG2 [HA2 Hr2]].
    rewrite Er. destruct (read_tag c st0) as [st2 r2]. cbn [fst snd] in *. subst r2.
    split; [exact HG2|]. split; [exact HA2|reflexivity].
Qed.

Lemma read_next_fits c f st : c_buffered c = [] -> GoodP st -> wf_bytes (total st) -> lookahead_ok c st ->
  GoodP (read_next (S f) c st) /\ Abs (read_next (S f) c st) = p_read_next (S f) c (Abs st).
Proof.
  intros Hbuf HG Hwf Hla. rewrite read_next_unfold, p_read_next_unfold. cbn zeta. unfold lookahead_ok in Hla. cbn zeta in Hla.
  set (st1 := pop_frames st (exhausted_count (r_off st) (r_stack st))) in *.
  assert (HG1 : GoodP st1) by (apply goodP_pop_frames, HG).
  change (ppop_frames (Abs st) (exhausted_count (b_off (Abs st)) (b_stack (Abs st)))) with (Abs st1).
  assert (Hwf1 : wf_bytes (total st1)) by exact Hwf.
  destruct (read_tag_checked_fits c st1 HG1 Hwf1 Hla) as [HG2 [HA2 Hr2]].
  destruct (read_tag_checked c st1) as [st2 r2]. destruct (p_read_tag_checked c (Abs st1)) as [pst2 pr2].
  cbn [fst snd] in *. subst pst2 pr2.
  destruct r2 as [[p|e|]|].
  - set (st3 := pop_frames st2 (count_ended (c_sp c) (tag_id (p_tag p)) (stack_view (r_stack st2)))).
    assert (HG3 : GoodP st3) by (apply goodP_pop_frames, HG2).
    change (ppop_frames (Abs st2) (count_ended (c_sp c) (tag_id (p_tag p)) (stack_view (b_stack (Abs st2))))) with (Abs st3).
    destruct (p_tag p); try (split; [apply goodP_push_q, HG3|reflexivity]).
    set (st4 := set_stack st3 _ _).
    assert (HG4 : GoodP st4) by (apply goodP_set_stack, HG3).
    rewrite Hbuf. cbn [mem_id existsb]. split; [apply goodP_push_q, HG4|reflexivity].
  - split; [apply goodP_push_q, HG2|reflexivity].
  - split; [apply goodP_set_bad, HG2|reflexivity].
  - destruct (c_emit_eof c); [split; [apply goodP_pop_frames, HG2|reflexivity]|split; [exact HG2|reflexivity]].
Qed.

(* a call that reads a tag already complete in the window refines the abstract reader, whatever its look-ahead reads meet *)
Theorem next_refines_lookahead c st : c_buffered c = [] -> GoodP st -> wf_bytes (total st) ->
  r_queue st = [] -> (1 <= r_fuel st)%nat -> lookahead_ok c st ->
  GoodP (fst (next c st)) /\ Abs (fst (next c st)) = fst (p_next c (Abs st)) /\ snd (next c st) = snd (p_next c (Abs st)).
Proof.
  intros Hbuf HG Hwf Hq Hf Hla. unfold next, p_next. cbn [Abs b_queue b_fuel]. rewrite Hq.
  destruct (r_fuel st) as [|f] eqn:Ef; [lia|].
  destruct (read_next_fits c f st Hbuf HG Hwf Hla) as [HG1 HA1]. rewrite <- HA1.
  set (st1 := read_next (S f) c st) in *.
  cbn [Abs b_queue]. destruct (r_queue st1) as [|[t o|e] q].
  - split; [exact HG1|split; reflexivity].
  - split; [apply goodP_set_last, goodP_set_queue, HG1|split; reflexivity].
  - split; [apply goodP_set_queue, HG1|split; reflexivity].
Qed.

Lemma p_next_wf c pst : wf_bytes (b_bytes pst) -> wf_bytes (b_bytes (fst (p_next c pst))).
Proof.
  intros Hw. unfold p_next.
  assert (H : wf_bytes (b_bytes (match b_queue pst with [] => p_read_next (b_fuel pst) c pst | _ :: _ => pst end))).
  { destruct (b_queue pst); [|exact Hw]. destruct (rn_bm_mono c (b_fuel pst)) as [H _]. apply (H pst Hw). }
  destruct (b_queue (match b_queue pst with [] => _ | _ => _ end)) as [|[t o|e] q]; exact H.
Qed.

(* ------------------------------------------------------------------ runs *)
(* a call is harmless if it consumes no Pause, or reads a tag that is complete in the window *)
Definition step_ok (c : cfg) (st : rst) : Prop :=
  np (fst (next c st)) = np st \/ (r_queue st = [] /\ lookahead_ok c st).

(* the invariant of a run *)
Definition RunInv (st : rst) : Prop := GoodP st /\ wf_bytes (total st) /\ (1 <= r_fuel st)%nat.

Lemma next_refines_ok c st : c_buffered c = [] -> RunInv st -> step_ok c st ->
  RunInv (fst (next c st)) /\ Abs (fst (next c st)) = fst (p_next c (Abs st)) /\ snd (next c st) = snd (p_next c (Abs st)).
Proof.
  intros Hbuf (HG & Hwf & Hf) Hok.
  assert (H : GoodP (fst (next c st)) /\ Abs (fst (next c st)) = fst (p_next c (Abs st)) /\ snd (next c st) = snd (p_next c (Abs st))).
  { destruct Hok as [Hn|[Hq Hla]]; [apply next_refines_nopause; assumption|apply next_refines_lookahead; assumption]. }
  destruct H as [HG1 [HA1 HR1]]. split; [|split; assumption].
  split; [exact HG1|]. split.
  - change (wf_bytes (b_bytes (Abs (fst (next c st))))). rewrite HA1. apply p_next_wf. exact Hwf.
  - rewrite (sfx_fuel _ _ (next_sfx c st)). exact Hf.
Qed.

Inductive stepsL (c : cfg) : rst -> list rout -> rst -> Prop :=
| stepsL_nil st : stepsL c st [] st
| stepsL_cons st st1 t off outs st2 :
    next c st = (st1, NItem t off) -> r_bad st1 = None -> step_ok c st -> stepsL c st1 outs st2 ->
    stepsL c st (OItem t off :: outs) st2.

Lemma stepsL_steps c st a st' : stepsL c st a st' -> steps c st a st'.
Proof. induction 1; [constructor|econstructor; eassumption]. Qed.

Lemma stepsL_abs c st a st' : c_buffered c = [] -> stepsL c st a st' -> RunInv st ->
  RunInv st' /\
  forall limit, ~ In OLimit (snd (p_run_all limit c (Abs st))) ->
    exists l, limit = (length a + l)%nat /\ snd (p_run_all limit c (Abs st)) = a ++ snd (p_run_all l c (Abs st')).
Proof.
  intros Hbuf. induction 1 as [st|st st1 t off outs st2 Hn Hb Hok Hs IH]; intros HI.
  - split; [exact HI|]. intros limit _. exists limit. split; reflexivity.
  - destruct (next_refines_ok c st Hbuf HI Hok) as [HI1 [HA1 HR1]].
    rewrite Hn in HI1, HA1, HR1. cbn [fst snd] in HI1, HA1, HR1.
    destruct (IH HI1) as [HI2 Hrun]. split; [exact HI2|].
    intros [|limit] Hno; [exfalso; apply Hno; left; reflexivity|].
    cbn [p_run_all] in Hno |- *. destruct (p_next c (Abs st)) as [pst1 pr1]. cbn [fst snd] in HA1, HR1. subst pst1 pr1.
    change (b_bad (Abs st1)) with (r_bad st1) in *. rewrite Hb in *.
    destruct (Hrun limit) as [l [El Eo]].
    { intros Hin. apply Hno. destruct (p_run_all limit c (Abs st1)). right. exact Hin. }
    exists l. split; [cbn [length Nat.add]; lia|]. destruct (p_run_all limit c (Abs st1)) as [x y]. cbn [snd] in *.
    rewrite Eo. reflexivity.
Qed.

(* every call of a drain, up to and including the one that ends it, is harmless *)
Inductive drainL (c : cfg) : rst -> Prop :=
| drainL_item st st1 t off :
    step_ok c st -> next c st = (st1, NItem t off) -> r_bad st1 = None -> drainL c st1 -> drainL c st
| drainL_end st :
    step_ok c st -> (r_bad (fst (next c st)) <> None \/ forall t off, snd (next c st) <> NItem t off) -> drainL c st.

Lemma drainL_refines c st : c_buffered c = [] -> drainL c st -> RunInv st ->
  forall limit, snd (run_all limit c st) = snd (p_run_all limit c (Abs st)).
Proof.
  intros Hbuf. induction 1 as [st st1 t off Hok Hn Hb Hd IH|st Hok Hend]; intros HI [|limit]; try reflexivity.
  - destruct (next_refines_ok c st Hbuf HI Hok) as [HI1 [HA1 HR1]].
    rewrite Hn in HI1, HA1, HR1. cbn [fst snd] in HI1, HA1, HR1.
    cbn [run_all p_run_all]. rewrite Hn. destruct (p_next c (Abs st)) as [pst1 pr1]. cbn [fst snd] in HA1, HR1. subst pst1 pr1.
    change (b_bad (Abs st1)) with (r_bad st1). rewrite Hb.
    specialize (IH HI1 limit). destruct (run_all limit c st1) as [x y]. destruct (p_run_all limit c (Abs st1)) as [x' y'].
    cbn [snd] in *. rewrite IH. reflexivity.
  - destruct (next_refines_ok c st Hbuf HI Hok) as [HI1 [HA1 HR1]].
    cbn [run_all p_run_all]. destruct (next c st) as [st1 r1]. destruct (p_next c (Abs st)) as [pst1 pr1].
    cbn [fst snd] in *. subst pst1 pr1. change (b_bad (Abs st1)) with (r_bad st1).
    destruct (r_bad st1) as [b|]; [reflexivity|].
    destruct r1 as [t off|e|]; try reflexivity.
    exfalso. destruct Hend as [H|H]; [apply H; reflexivity|exact (H t off eq_refl)].
Qed.

(* segments that end with a Pause met at a tag boundary, then a drain to the end *)
Inductive paused_runL (c : cfg) : rst -> list (list rout) -> Prop :=
| prL_done st : drainL c st -> paused_runL c st []
| prL_seg st s a stp segs :
    stepsL c st a stp ->
    r_script stp = Pause :: s -> r_wlen stp = 0 -> r_queue stp = [] -> exhausted_count (r_off stp) (r_stack stp) = O ->
    paused_runL c (fst (next c stp)) segs ->
    paused_runL c st (a :: segs).

Lemma paused_runL_outputs c : c_emit_eof c = false -> c_buffered c = [] -> forall st segs, paused_runL c st segs ->
  RunInv st -> r_bad st = None ->
  forall limit, ~ In OLimit (snd (p_run_all limit c (Abs st))) ->
  exists b, b <> [] /\
    snd (run_ops c limit st (repeat RAll (S (length segs)))) = concat (map (fun a => a ++ [ONone]) segs) ++ b /\
    snd (p_run_all limit c (Abs st)) = concat segs ++ b.
Proof.
  intros He Hbuf. induction 1 as [st Hd|st s a stp segs Hst Hp Hw Hq Hx Hrun IH]; intros HI Hb limit Hno.
  - exists (snd (p_run_all limit c (Abs st))). split; [apply p_run_all_nonempty|].
    cbn [length repeat map concat app]. rewrite run_ops_RAll.
    pose proof (drainL_refines c st Hbuf Hd HI limit) as Hr.
    destruct (run_all limit c st) as [st1 outs]. cbn [snd] in Hr.
    split; [|reflexivity]. destruct (r_bad st1); [exact Hr|]. cbn [run_ops snd]. rewrite app_nil_r. exact Hr.
  - destruct (stepsL_abs c st a stp Hbuf Hst HI) as [HIp Habs].
    destruct HIp as (HGp & Hwfp & Hf').
    pose proof (steps_bad _ _ _ _ (stepsL_steps _ _ _ _ Hst) Hb) as Hbp.
    pose proof (pause_boundary_noop c stp s He Hp Hw Hq Hx Hf') as Enext.
    rewrite Enext in IH. cbn [fst] in IH.
    destruct (after_pause_facts stp s (proj1 HGp)) as [W' [A' [S' [B' [F' _]]]]].
    assert (HI' : RunInv (after_pause stp s)).
    { split; [split; [exact W'|]|split].
      - rewrite S'. destruct HGp as [_ Hcp]. rewrite Hp in Hcp. inversion Hcp; assumption.
      - change (wf_bytes (b_bytes (Abs (after_pause stp s)))). rewrite A'. exact Hwfp.
      - rewrite F'. exact Hf'. }
    destruct (Habs limit Hno) as [l [El Eo]].
    assert (Hno_l : ~ In OLimit (snd (p_run_all l c (Abs stp)))).
    { intros Hin. apply Hno. rewrite Eo. apply in_or_app. right. exact Hin. }
    destruct l as [|l']; [exfalso; apply Hno_l; left; reflexivity|].
    assert (Emore : p_run_all limit c (Abs stp) = p_run_all (S l') c (Abs stp)).
    { rewrite El, Nat.add_comm. apply p_run_all_more. exact Hno_l. }
    assert (Hno' : ~ In OLimit (snd (p_run_all limit c (Abs (after_pause stp s))))).
    { rewrite A', Emore. exact Hno_l. }
    assert (Hb' : r_bad (after_pause stp s) = None) by (rewrite B'; exact Hbp).
    destruct (IH HI' Hb' limit Hno') as [b [Hbne [E1 E2]]].
    exists b. split; [exact Hbne|].
    change (repeat RAll (S (length (a :: segs)))) with (RAll :: repeat RAll (S (length segs))).
    rewrite run_ops_RAll.
    assert (Erun : run_all limit c st = (after_pause stp s, a ++ [ONone])).
    { rewrite El, (steps_run_all c st a stp (stepsL_steps _ _ _ _ Hst) (S l')). cbn [run_all]. rewrite Enext, Hb'. reflexivity. }
    rewrite Erun, Hb'.
    destruct (run_ops c limit (after_pause stp s) (repeat RAll (S (length segs)))) as [st2 outs2]. cbn [snd] in E1 |- *.
    cbn [map concat]. split.
    + rewrite E1, <- !app_assoc. reflexivity.
    + rewrite Eo, <- Emore, <- A', E2, <- app_assoc. reflexivity.
Qed.

(* C04, pauses, general form: a source that may report temporary end of file any number of times (a script of Chunk n, n > 0,
   and Pause entries).  If every Pause is either met at a tag boundary or swallowed by the look-ahead of a call whose tag is
   complete in the buffer, then draining once more after every None yields the slice run with one None per boundary pause *)
Theorem pauses_lookahead c cap0 script input segs :
  c_emit_eof c = false -> c_buffered c = [] -> wf_bytes input -> calmP script ->
  paused_runL c (r_init cap0 script input) segs ->
  ~ In OLimit (p_run c input [RAll]) ->
  exists b, b <> [] /\
    p_run c input [RAll] = concat segs ++ b /\
    run_reader c cap0 script input (repeat RAll (S (length segs))) = concat (map (fun a => a ++ [ONone]) segs) ++ b.
Proof.
  intros He Hbuf Hwf Hc Hrun Hno. rewrite p_run_RAll in *.
  assert (HI : RunInv (r_init cap0 script input)).
  { split; [split; [split; reflexivity|exact Hc]|]. split; [exact Hwf|]. cbn. unfold default_fuel. lia. }
  destruct (paused_runL_outputs c He Hbuf _ _ Hrun HI eq_refl (4 * length input + 64)%nat Hno) as [b [Hb [E1 E2]]].
  exists b. split; [exact Hb|]. split; [exact E2|exact E1].
Qed.

(* in particular, with any end-of-stream setting: pauses that are all swallowed by the look-ahead change nothing *)
Theorem pauses_swallowed c cap0 script input :
  c_buffered c = [] -> wf_bytes input -> calmP script -> drainL c (r_init cap0 script input) ->
  run_reader c cap0 script input [RAll] = p_run c input [RAll].
Proof.
  intros Hbuf Hwf Hc Hd. rewrite p_run_RAll. unfold run_reader, run_reader_st. rewrite run_ops_RAll.
  assert (HI : RunInv (r_init cap0 script input)).
  { split; [split; [split; reflexivity|exact Hc]|]. split; [exact Hwf|]. cbn. unfold default_fuel. lia. }
  pose proof (drainL_refines c _ Hbuf Hd HI (4 * length input + 64)%nat) as Hr.
  destruct (run_all (4 * length input + 64) c (r_init cap0 script input)) as [st1 outs]. cbn [snd] in Hr.
  destruct (r_bad st1); cbn [run_ops snd]; [exact Hr|rewrite app_nil_r; exact Hr].
Qed.
