(* Parsing a document along a path of open masters ("levels"): the machinery behind the truncation (C12) and recovery (C14)
   theorems.  A level is a run of complete sibling trees followed by the header of a master that stays open. *)
From Ebml Require Import Base Tools Spec Writer Reader Pure Encode.
From Ebml Require Import Proofs.Tactics Proofs.BytesProofs Proofs.VintProofs Proofs.DecodersProofs Proofs.SpecProofs Proofs.ReaderIO Proofs.Refine Proofs.PureProofs Proofs.RoundTrip.
Import ListNotations.
Local Open Scope N_scope.

(* ------------------------------------------------------------------ a master header with an arbitrary declared size *)
Definition fsize_ok (sl : nat) (osz : option N) : Prop :=
  match osz with Some n => (1 <= sl <= 8)%nat /\ n < 2 ^ (7 * N.of_nat sl) - 1 | None => True end.
Definition fld (sl : nat) (osz : option N) : list N := match osz with Some n => venc sl n | None => unknown_marker end.
Definition fesz (osz : option N) : esize := match osz with Some n => SKnown n | None => SUnknown end.
Definition fsl (sl : nat) (osz : option N) : nat := match osz with Some _ => sl | None => 8%nat end.
Definition fknown (osz : option N) : N := match osz with Some n => n | None => 0 end.

Lemma fld_length sl osz : length (fld sl osz) = fsl sl osz.
Proof. destruct osz; [apply venc_length|reflexivity]. Qed.

Lemma read_start_gen c st id sl osz rest :
  strict c -> idok id -> wf_bytes rest -> fsize_ok sl osz ->
  b_bytes st = id_bytes id ++ fld sl osz ++ rest ->
  get_type (c_sp c) id = Some DMaster ->
  b_bad st = None -> hier_ok c st id ->
  p_invalid_tag_size st (N.of_nat (length (id_bytes id) + fsl sl osz) + fknown osz) = false ->
  size_ok c (fesz osz) ->
  exists st', p_read_tag c st = (st', Ok {| p_tag := TStart id; p_size := fesz osz; p_start := b_off st;
                                            p_data := b_off st + N.of_nat (length (id_bytes id) + fsl sl osz) |}) /\
              advanced st st' (id_bytes id ++ fld sl osz) /\ b_bytes st' = rest.
Proof.
  intros Hstrict Hidok Hwfr Hsz Hb Hty Hbad Hhier Hroom Hmax.
  assert (Hx : exists sl' size, (1 <= sl' <= 8)%nat /\ size < 2 ^ (7 * N.of_nat sl') /\ fld sl osz = venc sl' size /\
                                ebml_size size sl' = fesz osz /\ fsl sl osz = sl').
  { destruct osz as [n|].
    - destruct Hsz as [H1 H2]. exists sl, n. split; [exact H1|]. split; [lia|]. split; [reflexivity|].
      split; [apply ebml_size_known, H2|reflexivity].
    - exists 8%nat, (2 ^ 56 - 1). split; [lia|]. split; [reflexivity|]. split; [reflexivity|]. split; reflexivity. }
  destruct Hx as [sl' [size [Hsl [Hsize [Hfield [Hes Hnsl]]]]]]. rewrite Hfield in Hb. rewrite Hnsl in *.
  assert (Hk : match ebml_size size sl' with SKnown n => n | SUnknown => 0 end = fknown osz) by (rewrite Hes; destruct osz; reflexivity).
  assert (Hroom' : p_invalid_tag_size st (N.of_nat (length (id_bytes id) + sl') + match ebml_size size sl' with SKnown n => n | SUnknown => 0 end) = false)
    by (rewrite Hk; exact Hroom).
  assert (Hmax' : size_ok c (ebml_size size sl')) by (rewrite Hes; exact Hmax).
  assert (Hnum : is_numeric (Some DMaster) = true -> size <= 8) by discriminate.
  destruct (p_header_conf c st id DMaster sl' size rest Hstrict Hidok Hsl Hsize Hwfr Hb Hty Hnum Hbad Hhier Hroom' Hmax') as [st1 [Hh Hsame]].
  rewrite p_read_tag_unfold, Hh. unfold p_tag_tail. rewrite Hes.
  assert (Hhl : length (id_bytes id ++ venc sl' size) = (length (id_bytes id) + sl')%nat)
    by (rewrite app_length; unfold venc; rewrite be_bytes_length; reflexivity).
  rewrite app_assoc in Hb.
  destruct (pconsume_exact st st1 _ _ Hsame Hb) as [Hadv Hbytes]. rewrite Hhl in Hadv, Hbytes.
  set (stc := pconsume st1 (N.of_nat (length (id_bytes id) + sl'))) in *.
  assert (Hoffc : b_off stc = b_off st + N.of_nat (length (id_bytes id) + sl')).
  { destruct Hadv as [_ [Ho _]]. rewrite Ho, Hhl. reflexivity. }
  exists stc. rewrite Hoffc, Hfield. split; [reflexivity|]. split; [exact Hadv|exact Hbytes].
Qed.

Definition mframe (off : N) (id : N) (sl : nat) (osz : option N) : frame :=
  {| f_id := id; f_size := fesz osz; f_start := off; f_data := off + N.of_nat (length (id_bytes id) + fsl sl osz) |}.

(* reading the header of a master that stays open: the pending masters end, the Start comes out, and the reader is inside *)
Lemma open_master c st T stk ids total id sl osz rest inner :
  strict c -> c_buffered c = [] -> pre c st T stk ids total ->
  idok id -> wf_bytes rest -> fsize_ok sl osz -> b_bytes st = id_bytes id ++ fld sl osz ++ rest ->
  get_type (c_sp c) id = Some DMaster -> get_path (c_sp c) id = map PId ids -> size_ok c (fesz osz) ->
  N.of_nat (length (id_bytes id) + fsl sl osz) + fknown osz <= total ->
  N.of_nat (length (id_bytes id) + fsl sl osz) + inner <= total -> (forall n, osz = Some n -> inner <= n) ->
  exists st1, pre c st1 [] (mframe (b_off st) id sl osz :: stk) (ids ++ [id]) inner /\ b_bytes st1 = rest /\
    b_off st1 = b_off st + N.of_nat (length (id_bytes id) + fsl sl osz) /\ b_fuel st1 = b_fuel st /\ b_det st1 = true /\
    forall n, p_run_all (length T + 1 + n) c st = rcat (map end_out T ++ [OItem (TStart id) (b_off st)]) (p_run_all n c st1).
Proof.
  intros Hstrict Hnb Hpre Hid Hwf Hsz Hb Hty Hpath Hmax Htot Hinner Hin.
  set (hl := N.of_nat (length (id_bytes id) + fsl sl osz)) in *.
  assert (Hpos : 0 < total).
  { destruct (idok_len id Hid) as [Hl _]. unfold hl in Htot. lia. }
  assert (Htyn : get_type (c_sp c) id <> None) by (rewrite Hty; discriminate).
  pose proof (pre_step c st T stk ids _ id Hpre Hpos Hpath Htyn Hnb) as Hstep.
  pose proof (prep c st T stk ids id _ Hstep) as Hprep. cbn zeta in Hprep.
  destruct Hprep as [P1 [P2 [P3 [P4 [P5 [P6 [P7 [Phier Proom]]]]]]]].
  set (st_a := ppop_frames st (exhausted_count (b_off st) (b_stack st))) in *.
  assert (Hba : b_bytes st_a = id_bytes id ++ fld sl osz ++ rest) by (rewrite P1; exact Hb).
  assert (Hroom : p_invalid_tag_size st_a (hl + fknown osz) = false) by (apply Proom; exact Htot).
  destruct (read_start_gen c st_a id sl osz rest Hstrict Hid Hwf Hsz Hba Hty P3 Phier Hroom Hmax) as [st_b [Hread [Hadv Hrest]]].
  assert (Hne : id_bytes id ++ fld sl osz <> []).
  { destruct (idok_len id Hid) as [Hl _]. destruct (id_bytes id); [cbn in Hl; lia|discriminate]. }
  rewrite P2 in Hread.
  destruct (step_run c st T stk ids id _ _ st_b _ Hstep Hread Hadv Hne eq_refl eq_refl) as [st1 [Hat1 [Hdet1 Hrun1]]].
  destruct Hadv as [_ [Ho _]]. rewrite Hrest, Ho, P2 in Hat1. unfold new_frame in Hat1. cbn [p_tag p_size p_start p_data tag_id app] in Hat1.
  rewrite app_length, fld_length in Ho, Hat1. fold hl in Ho, Hat1. fold (mframe (b_off st) id sl osz) in Hat1.
  destruct Hat1 as [A1 [A2 [A3 [A4 [A5 A6]]]]].
  exists st1. split; [|split; [exact A1|split; [exact A2|split; [exact A6|split; [exact Hdet1|exact Hrun1]]]]].
  destruct Hpre as [Hs Hq Hbad Hf Hd Hpend Hsib Hids Hchain Hroom0]. constructor.
  - exact A3.
  - exact A4.
  - exact A5.
  - rewrite A6. exact Hf.
  - left. exact Hdet1.
  - constructor.
  - intros d Hn. contradiction Hn. reflexivity.
  - unfold ids_of in *. cbn [map rev mframe f_id]. rewrite Hids. reflexivity.
  - apply chain_snoc; assumption.
  - rewrite A2. unfold room. constructor.
    + cbn [mframe f_size f_data]. fold hl. destruct osz as [n|]; cbn [fesz]; [specialize (Hin n eq_refl); lia|exact I].
    + eapply room_mono; [|exact Hroom0]. lia.
Qed.

(* ------------------------------------------------------------------ the masters left pending by a forest *)
Lemma pend_after_cons off x l T : pend_after off (x :: l) T = pend_after (off + tlen x) l (spine_tree off x).
Proof. destruct l; reflexivity. Qed.

Lemma pend_after_ok c ids : forall l off T, Forall (conf c ids) l ->
  Forall (pendF off) T -> (forall d, T <> [] -> get_path (c_sp c) (f_id (last T d)) = map PId ids) ->
  Forall (pendF (off + flen l)) (pend_after off l T) /\
  (forall d, pend_after off l T <> [] -> get_path (c_sp c) (f_id (last (pend_after off l T) d)) = map PId ids).
Proof.
  induction l as [|x l IH]; intros off T Hc HT Hsib.
  - cbn [pend_after]. rewrite flen_nil, N.add_0_r. split; assumption.
  - inversion Hc as [|? ? Hx Hl]; subst. rewrite pend_after_cons, flen_cons, N.add_assoc. apply IH; [exact Hl|apply spine_pend|].
    intros d Hne. destruct (spine_last off x d Hne) as [id [sz [cs [Ex Hid]]]]. rewrite Hid. apply (conf_path c ids x Hx id sz cs Ex).
Qed.

Lemma pre_after_forest c st st1 T stk ids total l :
  pre c st T stk ids total -> Forall (conf c ids) l -> flen l <= total ->
  at_ st1 (b_bytes st1) (b_off st + flen l) (pend_after (b_off st) l T ++ stk) (b_fuel st) ->
  (b_det st = true -> b_det st1 = true) -> (l <> [] -> b_det st1 = true) ->
  pre c st1 (pend_after (b_off st) l T) stk ids (total - flen l).
Proof.
  intros Hpre Hc Hle [_ [A2 [A3 [A4 [A5 A6]]]]] Hd1 Hd2.
  destruct Hpre as [Hs Hq Hbad Hf Hd Hpend Hsib Hids Hchain Hroom].
  destruct (pend_after_ok c ids l (b_off st) T Hc Hpend Hsib) as [Hp2 Hs2]. constructor.
  - exact A3.
  - exact A4.
  - exact A5.
  - rewrite A6. exact Hf.
  - destruct l as [|x l'].
    + cbn [pend_after]. destruct Hd as [Hd|Hd]; [left; apply Hd1, Hd|right; exact Hd].
    + left. apply Hd2. discriminate.
  - rewrite A2. exact Hp2.
  - exact Hs2.
  - exact Hids.
  - exact Hchain.
  - rewrite A2. eapply room_mono; [|exact Hroom]. lia.
Qed.

(* ------------------------------------------------------------------ levels *)
Record level : Type := { lv_f : list rtree; lv_id : N; lv_sl : nat; lv_size : option N }.

Definition lv_hl (lv : level) : N := N.of_nat (length (id_bytes (lv_id lv)) + fsl (lv_sl lv) (lv_size lv)).

Fixpoint enc_levels (L : list level) : list N :=
  match L with
  | [] => []
  | lv :: L' => enc_forest (lv_f lv) ++ id_bytes (lv_id lv) ++ fld (lv_sl lv) (lv_size lv) ++ enc_levels L'
  end.
Definition levels_len (L : list level) : N := N.of_nat (length (enc_levels L)).

Lemma levels_len_cons lv L : levels_len (lv :: L) = flen (lv_f lv) + lv_hl lv + levels_len L.
Proof. unfold levels_len, lv_hl, flen. cbn [enc_levels]. rewrite !app_length, fld_length. lia. Qed.

(* [inner]: the declared extent of the content at the innermost level (at least the bytes that are there).  The extent of
   a level: its complete trees, the header, and the declared size of the master (or, for unknown size, the extent inside) *)
Fixpoint levels_ext (L : list level) (inner : N) : N :=
  match L with
  | [] => inner
  | lv :: L' => flen (lv_f lv) + lv_hl lv + match lv_size lv with Some n => n | None => levels_ext L' inner end
  end.

Fixpoint conf_levels (c : cfg) (ids : list N) (L : list level) (inner : N) : Prop :=
  match L with
  | [] => True
  | lv :: L' =>
      Forall (conf c ids) (lv_f lv) /\ idok (lv_id lv) /\ get_type (c_sp c) (lv_id lv) = Some DMaster /\
      get_path (c_sp c) (lv_id lv) = map PId ids /\ fsize_ok (lv_sl lv) (lv_size lv) /\ size_ok c (fesz (lv_size lv)) /\
      (forall n, lv_size lv = Some n -> levels_ext L' inner <= n) /\
      conf_levels c (ids ++ [lv_id lv]) L' inner
  end.

(* the outputs while descending, and where the reader stands afterwards *)
Fixpoint lv_outs (off : N) (T : list frame) (L : list level) : list rout :=
  match L with
  | [] => []
  | lv :: L' =>
      outs_forest off (lv_f lv) T ++ map end_out (pend_after off (lv_f lv) T) ++
      OItem (TStart (lv_id lv)) (off + flen (lv_f lv)) :: lv_outs (off + flen (lv_f lv) + lv_hl lv) [] L'
  end.
Fixpoint lv_T (off : N) (T : list frame) (L : list level) : list frame :=
  match L with [] => T | lv :: L' => lv_T (off + flen (lv_f lv) + lv_hl lv) [] L' end.
Fixpoint lv_stk (off : N) (stk : list frame) (L : list level) : list frame :=
  match L with
  | [] => stk
  | lv :: L' => lv_stk (off + flen (lv_f lv) + lv_hl lv) (mframe (off + flen (lv_f lv)) (lv_id lv) (lv_sl lv) (lv_size lv) :: stk) L'
  end.
Fixpoint lv_ids (ids : list N) (L : list level) : list N :=
  match L with [] => ids | lv :: L' => lv_ids (ids ++ [lv_id lv]) L' end.

Lemma wf_enc_levels c : forall L ids inner, conf_levels c ids L inner -> wf_bytes (enc_levels L).
Proof.
  induction L as [|lv L IH]; intros ids inner H; [constructor|]. destruct H as [Hf [Hid [_ [_ [Hsz [_ [_ HL]]]]]]].
  cbn [enc_levels]. apply wf_app; [apply (conf_wf_forest c ids _ Hf)|]. apply wf_app; [apply (idok_len _ Hid)|].
  apply wf_app; [|apply (IH _ _ HL)]. destruct (lv_size lv); [apply venc_wf|repeat constructor].
Qed.

Lemma descend c : strict c -> c_buffered c = [] -> forall L ids st T stk rest inner,
  conf_levels c ids L inner -> pre c st T stk ids (levels_ext L inner) -> b_bytes st = enc_levels L ++ rest -> wf_bytes rest ->
  exists st', pre c st' (lv_T (b_off st) T L) (lv_stk (b_off st) stk L) (lv_ids ids L) inner /\ b_bytes st' = rest /\
    b_off st' = b_off st + levels_len L /\ b_fuel st' = b_fuel st /\ (b_det st = true -> b_det st' = true) /\ (L <> [] -> b_det st' = true) /\
    forall n, p_run_all (length (lv_outs (b_off st) T L) + n) c st = rcat (lv_outs (b_off st) T L) (p_run_all n c st').
Proof.
  intros Hstrict Hnb. induction L as [|lv L IH]; intros ids st T stk rest inner Hc Hpre Hb Hwf.
  - exists st. cbn [lv_T lv_stk lv_ids lv_outs enc_levels app length levels_ext] in *. unfold levels_len. cbn [enc_levels length].
    rewrite N.add_0_r. split; [exact Hpre|]. split; [exact Hb|]. split; [reflexivity|]. split; [reflexivity|]. split; [auto|].
    split; [intros H; contradiction H; reflexivity|intros n; symmetry; apply rcat_nil].
  - destruct Hc as [Hf [Hid [Hty [Hpath [Hsz [Hmax [Hin HL]]]]]]]. cbn [levels_ext] in Hpre.
    cbn [enc_levels] in Hb. rewrite <- !app_assoc in Hb.
    set (f := lv_f lv) in *. set (id := lv_id lv) in *. set (sl := lv_sl lv) in *. set (osz := lv_size lv) in *.
    set (ext' := levels_ext L inner) in *.
    assert (HwL : wf_bytes (enc_levels L ++ rest)) by (apply wf_app; [apply (wf_enc_levels c L _ _ HL)|exact Hwf]).
    assert (Hw1 : wf_bytes (id_bytes id ++ fld sl osz ++ enc_levels L ++ rest)).
    { apply wf_app; [apply (idok_len _ Hid)|]. apply wf_app; [destruct osz; [apply venc_wf|repeat constructor]|exact HwL]. }
    (* the complete trees of this level *)
    assert (HP : Forall (Ptree c) f) by (apply Forall_forall; intros t _; apply parse_tree; assumption).
    assert (Hpre0 : pre c st T stk ids (flen f)) by (eapply pre_weaken; [|exact Hpre]; lia).
    destruct (parse_forest c f HP ids Hf st T stk _ Hpre0 Hb Hw1) as [st1 [Hat1 [Hd1 [Hd1' Hrun1]]]].
    assert (Hat1' : at_ st1 (b_bytes st1) (b_off st + flen f) (pend_after (b_off st) f T ++ stk) (b_fuel st)).
    { destruct Hat1 as [A1 [A2 [A3 [A4 [A5 A6]]]]]. repeat split; assumption. }
    set (tot := flen f + lv_hl lv + match osz with Some n => n | None => ext' end) in *.
    assert (Hle : flen f <= tot) by (unfold tot; lia).
    pose proof (pre_after_forest c st st1 T stk ids _ f Hpre Hf Hle Hat1' Hd1 Hd1') as Hpre1.
    destruct Hat1 as [A1 [A2 [A3 [A4 [A5 A6]]]]].
    (* the header of the master that stays open *)
    assert (Hhl : lv_hl lv = N.of_nat (length (id_bytes id) + fsl sl osz)) by reflexivity.
    assert (Htot : N.of_nat (length (id_bytes id) + fsl sl osz) + fknown osz <= tot - flen f).
    { rewrite <- Hhl. unfold tot. destruct osz as [n|]; cbn [fknown]; lia. }
    assert (Hinner : N.of_nat (length (id_bytes id) + fsl sl osz) + ext' <= tot - flen f).
    { rewrite <- Hhl. unfold tot. destruct osz as [n|] eqn:Eo; [specialize (Hin n eq_refl); lia|lia]. }
    destruct (open_master c st1 _ stk ids _ id sl osz (enc_levels L ++ rest) ext' Hstrict Hnb Hpre1 Hid HwL Hsz A1 Hty Hpath Hmax Htot Hinner Hin)
      as [st2 [Hpre2 [B1 [B2 [B3 [B4 Hrun2]]]]]].
    rewrite A2 in Hpre2, B2, Hrun2. rewrite <- Hhl in B2.
    destruct (IH (ids ++ [id]) st2 [] _ rest inner HL Hpre2 B1 Hwf) as [st3 [Hpre3 [C1 [C2 [C3 [Hd3 [_ Hrun3]]]]]]].
    rewrite B2 in Hpre3, C2, Hrun3.
    exists st3. cbn [lv_T lv_stk lv_ids lv_outs]. fold f id sl osz.
    split; [exact Hpre3|]. split; [exact C1|]. split; [rewrite C2, levels_len_cons; fold f; lia|]. split; [congruence|].
    split; [intros _; apply Hd3, B4|]. split; [intros _; apply Hd3, B4|].
    intros n. rewrite !app_length, map_length. cbn [length].
    replace (length (outs_forest (b_off st) f T) +
             (length (pend_after (b_off st) f T) + S (length (lv_outs (b_off st + flen f + lv_hl lv) [] L))) + n)%nat
      with (length (outs_forest (b_off st) f T) +
            (length (pend_after (b_off st) f T) + 1 + (length (lv_outs (b_off st + flen f + lv_hl lv) [] L) + n)))%nat by lia.
    rewrite Hrun1, Hrun2, Hrun3, !rcat_rcat. f_equal. rewrite <- !app_assoc. reflexivity.
Qed.

(* ------------------------------------------------------------------ the input ends inside a tag *)
Definition pfx (p l : list N) : Prop := exists q, l = p ++ q /\ q <> [].

Lemma vint_prefix_needmore L v p : (1 <= L <= 8)%nat -> v < 2 ^ (7 * N.of_nat L) -> pfx p (enc L v) -> read_vint p = Ok None.
Proof.
  intros HL Hv [q [Hq Hne]]. destruct p as [|b0 tl]; [reflexivity|].
  destruct L as [|w]; [lia|]. destruct (enc_hd w v ltac:(lia) Hv) as [b [t [He [Hb Hl]]]].
  assert (Hlen : length (enc (S w) v) = S w) by apply enc_length.
  rewrite Hq in He, Hlen. cbn [app] in He. injection He as <- _. rewrite app_length in Hlen.
  assert (length q <> 0%nat) by (destruct q; [contradiction Hne; reflexivity|discriminate]).
  unfold read_vint. destruct (N.eqb_spec b0 0); [lia|]. rewrite Hl.
  destruct (Nat.ltb_spec (length (b0 :: tl)) (S w)); [reflexivity|lia].
Qed.

Lemma id_prefix_eof st id p : idok id -> pfx p (id_bytes id) -> p <> [] -> b_bytes st = p ->
  p_tag_id st = Err (REof (b_off st) None None None).
Proof.
  intros [n [v [Hn [Hv Hid]]]] [q [Hq Hne]] Hp Hb. rewrite Hid, id_bytes_enc in Hq by assumption.
  destruct n as [|w]; [lia|]. destruct (enc_hd w v ltac:(lia) Hv) as [b [t [He [Hb0 Hl]]]].
  assert (Hlen : length (enc (S w) v) = S w) by apply enc_length.
  rewrite Hq in He, Hlen. destruct p as [|b0 tl]; [contradiction Hp; reflexivity|]. cbn [app] in He. injection He as <- _.
  rewrite app_length in Hlen. assert (length q <> 0%nat) by (destruct q; [contradiction Hne; reflexivity|discriminate]).
  unfold p_tag_id, blen. rewrite Hb. destruct (N.eqb_spec b0 0); [lia|]. rewrite Hl.
  destruct (N.ltb_spec (N.of_nat (length (b0 :: tl))) (N.of_nat (S w))); [reflexivity|lia].
Qed.

Lemma size_prefix_eof c st id p sl osz : idok id -> fsize_ok sl osz -> pfx p (fld sl osz) -> b_bytes st = id_bytes id ++ p ->
  p_header c st = (st, Err (REof (b_off st) (Some id) None None)).
Proof.
  intros Hidok Hsz Hp Hb. pose proof Hidok as [n [v [Hn [Hv Hid]]]].
  assert (Hidb : id_bytes id = enc n v) by (rewrite Hid; apply id_bytes_enc; assumption).
  rewrite Hidb in Hb. rewrite p_header_unfold, (p_tag_id_enc st n v p Hn Hv Hb), <- Hid. unfold p_hdr_tail.
  assert (Hsk : skipn n (b_bytes st) = p).
  { rewrite Hb. rewrite <- (enc_length n v) at 1. rewrite skipn_app, skipn_all, Nat.sub_diag. reflexivity. }
  rewrite Hsk.
  assert (Hx : exists L s, (1 <= L <= 8)%nat /\ s < 2 ^ (7 * N.of_nat L) /\ fld sl osz = enc L s).
  { destruct osz as [m|]; [destruct Hsz as [H1 H2]; exists sl, m; split; [exact H1|split; [lia|reflexivity]]|].
    exists 8%nat, (2 ^ 56 - 1). split; [lia|]. split; reflexivity. }
  destruct Hx as [L [s [HL [Hs HE]]]]. rewrite HE in Hp.
  assert (Hpl : (length p < 8)%nat).
  { destruct Hp as [q [Hq Hne]]. apply (f_equal (@length N)) in Hq. rewrite enc_length, app_length in Hq.
    assert (length q <> 0%nat) by (destruct q; [contradiction Hne; reflexivity|discriminate]). lia. }
  rewrite firstn_all2 by lia. rewrite (vint_prefix_needmore L s p HL Hs Hp). reflexivity.
Qed.

(* the run: the Ends of the masters that are complete, then the error *)
Lemma run_err c : forall q st e n, b_queue st = q_ok q ++ [QErr e] -> b_bad st = None ->
  snd (p_run_all (length q + S n) c st) = o_ok q ++ [OErr e].
Proof.
  induction q as [|[t o] q IH]; intros st e n Hq Hb.
  - cbn [q_ok map app length Nat.add] in *. cbn [p_run_all]. unfold p_next. rewrite Hq. cbn iota. rewrite Hq.
    cbn [pset_queue b_bad]. rewrite Hb. reflexivity.
  - cbn [q_ok map fst snd app] in Hq. cbn [length Nat.add p_run_all].
    rewrite (p_next_pop c st t o (q_ok q ++ [QErr e]) Hq).
    set (st1 := pset_last (pset_queue st (q_ok q ++ [QErr e])) o).
    assert (Hb1 : b_bad st1 = None) by exact Hb. rewrite Hb1.
    specialize (IH st1 e n eq_refl Hb1). destruct (p_run_all (length q + S n) c st1) as [st2 outs]. cbn [snd] in *. rewrite IH. reflexivity.
Qed.

Lemma err_run c st Sk e st2 : b_stack st = Sk -> b_queue st = [] -> b_bad st = None -> (1 <= b_fuel st)%nat -> b_bytes st <> [] ->
  p_read_tag c (ppop_frames st (exhausted_count (b_off st) Sk)) = (st2, Err e) ->
  b_queue st2 = b_queue (ppop_frames st (exhausted_count (b_off st) Sk)) -> b_bad st2 = None -> b_fuel st2 = b_fuel st ->
  forall n, snd (p_run_all (exhausted_count (b_off st) Sk + S n) c st) = map end_out (firstn (exhausted_count (b_off st) Sk) Sk) ++ [OErr e].
Proof.
  intros Hs Hq Hbad Hf Hne Hread Hq2 Hb2 Hf2 n.
  set (k1 := exhausted_count (b_off st) Sk) in *.
  assert (Hrn : p_read_next (b_fuel st) c st = ppush_q st2 [QErr e]).
  { destruct (b_fuel st) as [|f] eqn:Ef; [lia|]. rewrite p_read_next_unfold. cbn zeta. rewrite Hs. fold k1.
    unfold p_read_tag_checked.
    assert (Hb1 : b_bytes (ppop_frames st k1) = b_bytes st) by reflexivity. rewrite Hb1.
    destruct (b_bytes st) as [|b0 tl] eqn:Eb; [contradiction Hne; reflexivity|]. rewrite Hread. reflexivity. }
  assert (Hqn : b_queue (ppush_q st2 [QErr e]) = q_ok (map end_pair (firstn k1 Sk)) ++ [QErr e]).
  { unfold ppush_q, pset_queue. cbn [b_queue]. rewrite Hq2. unfold ppop_frames, ppush_q, pset_queue, pset_stack. cbn [b_queue b_stack].
    rewrite Hq, Hs. cbn [app]. unfold q_ok. rewrite map_map. reflexivity. }
  replace (k1 + S n)%nat with (S (k1 + n)) by lia.
  rewrite (run_refill c st (k1 + n) Hq); rewrite Hrn.
  - pose proof (run_err c (map end_pair (firstn k1 Sk)) (ppush_q st2 [QErr e]) e n Hqn Hb2) as Hr.
    rewrite map_length, firstn_length in Hr.
    assert (Hk : (k1 <= length Sk)%nat) by apply exh_le. rewrite Nat.min_l in Hr by exact Hk.
    replace (S (k1 + n)) with (k1 + S n)%nat by lia. rewrite Hr. unfold o_ok. rewrite map_map. reflexivity.
  - rewrite Hqn. destruct (q_ok _); discriminate.
  - exact Hf2.
Qed.

Definition root_id (t : rtree) : N := match t with RLeaf id _ _ _ | RNode id _ _ => id end.
(* a cut of fewer bytes than this leaves the tag incomplete (a master counts as complete once its header is) *)
Definition cut_limit (x : rtree) : nat := match x with RLeaf _ _ _ _ => length (enc_tree x) | RNode _ _ _ => hdr_len x end.
(* the error the documentation promises: the start offset of the incomplete tag; the id iff the id bytes are complete; the size
   iff the header is complete; the payload bytes that are there *)
Definition cut_error (off : N) (x : rtree) (k : nat) : rerr :=
  if (k <? length (id_bytes (root_id x)))%nat then REof off None None None
  else if (k <? hdr_len x)%nat then REof off (Some (root_id x)) None None
  else match x with
       | RLeaf id _ pl _ => REof off (Some id) (Some (N.of_nat (length pl))) (Some (firstn (k - hdr_len x) pl))
       | RNode id _ _ => REof off (Some id) None None
       end.

Lemma firstn_pfx {A} k (l : list A) : (k < length l)%nat -> exists q, l = firstn k l ++ q /\ q <> [].
Proof.
  intros H. exists (skipn k l). split; [symmetry; apply firstn_skipn|]. intros E. apply (f_equal (@length A)) in E.
  rewrite skipn_length in E. cbn in E. lia.
Qed.

Lemma header_err_read c st e : p_header c st = (st, Err e) -> p_read_tag c st = (st, Err e).
Proof. intros H. rewrite p_read_tag_unfold, H. reflexivity. Qed.

Lemma truncated_tag c st T stk ids ext x k : strict c -> c_buffered c = [] -> pre c st T stk ids ext -> conf c ids x -> tlen x <= ext ->
  (0 < k < cut_limit x)%nat -> b_bytes st = firstn k (enc_tree x) ->
  forall n, snd (p_run_all (exhausted_count (b_off st) (T ++ stk) + S n) c st) =
            map end_out (firstn (exhausted_count (b_off st) (T ++ stk)) (T ++ stk)) ++ [OErr (cut_error (b_off st) x k)].
Proof.
  intros Hstrict Hnb Hpre Hconf Hext Hk Hb.
  assert (Hidx : idok (root_id x) /\ get_path (c_sp c) (root_id x) = map PId ids /\ get_type (c_sp c) (root_id x) <> None).
  { destruct x as [id v pl sl|id sz cs].
    - destruct Hconf as [Hid [_ [_ [_ [[ty [Hty _]] [Hpath _]]]]]]. cbn [root_id]. rewrite Hty. repeat split; try assumption. discriminate.
    - apply conf_node in Hconf. destruct Hconf as [Hid [_ [Hty [Hpath _]]]]. cbn [root_id]. rewrite Hty. repeat split; try assumption. discriminate. }
  destruct Hidx as [Hid [Hpath Htyn]].
  assert (Hpos : 0 < ext) by (pose proof (conf_wf c x ids Hconf) as [_ H2]; lia).
  pose proof (pre_step c st T stk ids _ (root_id x) Hpre Hpos Hpath Htyn Hnb) as Hstep.
  pose proof (prep c st T stk ids (root_id x) _ Hstep) as Hprep. cbn zeta in Hprep.
  destruct Hprep as [P1 [P2 [P3 [P4 [P5 [P6 [P7 [Phier Proom]]]]]]]].
  pose proof Hpre as [Hs Hq Hbad Hf _ _ _ _ _ _]. rewrite Hs in *.
  set (k1 := exhausted_count (b_off st) (T ++ stk)) in *.
  set (st_a := ppop_frames st k1) in *.
  assert (Hne : b_bytes st <> []).
  { rewrite Hb. intros E. apply (f_equal (@length N)) in E. rewrite firstn_length in E. cbn [length] in E.
    pose proof (conf_wf c x ids Hconf) as [_ H2]. unfold tlen in H2. lia. }
  set (idb := id_bytes (root_id x)) in *.
  destruct (idok_len _ Hid) as [Hidl Hidw]. fold idb in Hidl, Hidw.
  (* the encoding as id ++ field ++ body *)
  assert (Henc : exists sl osz body, enc_tree x = idb ++ fld sl osz ++ body /\ fsize_ok sl osz /\ hdr_len x = (length idb + fsl sl osz)%nat).
  { destruct x as [id v pl sl|id sz cs].
    - destruct Hconf as [_ [Hsl [Hlt _]]]. exists sl, (Some (N.of_nat (length pl))), pl. split; [reflexivity|]. split; [split; assumption|reflexivity].
    - apply conf_node in Hconf. destruct Hconf as [_ [Hsz _]]. rewrite enc_tree_node. destruct sz as [sl|].
      + exists sl, (Some (flen cs)), (enc_forest cs). split; [reflexivity|]. split; [apply Hsz; reflexivity|reflexivity].
      + exists 8%nat, None, (enc_forest cs). split; [reflexivity|]. split; [exact I|reflexivity]. }
  destruct Henc as [sl0 [osz [body [Henc [Hfs Hhl]]]]].
  unfold cut_error. fold idb.
  destruct (Nat.ltb_spec k (length idb)) as [Hk1|Hk1].
  - (* inside the id *)
    assert (Hp : b_bytes st_a = firstn k idb).
    { rewrite P1, Hb, Henc, firstn_app. replace (k - length idb)%nat with O by lia. cbn [firstn]. apply app_nil_r. }
    destruct (firstn_pfx k idb Hk1) as [q [Hqq Hqn]].
    assert (Hpn : firstn k idb <> []).
    { intros E. apply (f_equal (@length N)) in E. rewrite firstn_length in E. cbn in E. lia. }
    pose proof (id_prefix_eof st_a (root_id x) (firstn k idb) Hid (ex_intro _ q (conj Hqq Hqn)) Hpn Hp) as Hti.
    assert (Hh : p_header c st_a = (st_a, Err (REof (b_off st_a) None None None))) by (rewrite p_header_unfold, Hti; reflexivity).
    rewrite P2 in Hh. apply (err_run c st (T ++ stk) _ st_a Hs Hq Hbad Hf Hne (header_err_read c st_a _ Hh)); [reflexivity|exact P3|reflexivity].
  - destruct (Nat.ltb_spec k (hdr_len x)) as [Hk2|Hk2].
    + (* inside the size field *)
      rewrite Hhl in Hk2.
      assert (Hp : b_bytes st_a = idb ++ firstn (k - length idb) (fld sl0 osz)).
      { rewrite P1, Hb, Henc, firstn_app, firstn_all2 by lia. f_equal. rewrite firstn_app.
        replace (k - length idb - length (fld sl0 osz))%nat with O by (rewrite fld_length; lia). cbn [firstn]. apply app_nil_r. }
      assert (Hpf : pfx (firstn (k - length idb) (fld sl0 osz)) (fld sl0 osz)) by (apply firstn_pfx; rewrite fld_length; lia).
      pose proof (size_prefix_eof c st_a (root_id x) _ sl0 osz Hid Hfs Hpf Hp) as Hh. rewrite P2 in Hh.
      apply (err_run c st (T ++ stk) _ st_a Hs Hq Hbad Hf Hne (header_err_read c st_a _ Hh)); [reflexivity|exact P3|reflexivity].
    + (* inside the payload of an element *)
      destruct x as [id v pl sl|id sz cs]; [|cbn [cut_limit] in Hk; lia].
      destruct Hconf as [_ [Hsl [Hlt [Hwfp [[ty [Hty [Hnm Hdec]]] [_ Hmax]]]]]]. cbn [root_id] in *.
      cbn [cut_limit enc_tree hdr_len] in Hk, Hk2. rewrite !app_length, venc_length in Hk. change (id_bytes id) with idb in Hk, Hk2 |- *.
      set (hl := (length idb + sl)%nat) in *.
      set (p := firstn (k - hl) pl).
      assert (Hp : b_bytes st_a = idb ++ venc sl (N.of_nat (length pl)) ++ p).
      { rewrite P1, Hb. cbn [enc_tree]. fold idb. rewrite firstn_app, firstn_all2 by lia. f_equal.
        rewrite firstn_app, firstn_all2 by (rewrite venc_length; lia). f_equal. rewrite venc_length. unfold p, hl. f_equal. lia. }
      assert (Hwp : wf_bytes p) by (apply wf_firstn, Hwfp).
      assert (Hsz : N.of_nat (length pl) < 2 ^ (7 * N.of_nat sl)) by lia.
      pose proof (ebml_size_known _ _ Hlt) as Hes.
      assert (Hroom : p_invalid_tag_size st_a (N.of_nat hl + match ebml_size (N.of_nat (length pl)) sl with SKnown n => n | SUnknown => 0 end) = false).
      { rewrite Hes. apply Proom. rewrite tlen_leaf in Hext. cbn [hdr_len] in Hext. fold idb hl in Hext. exact Hext. }
      assert (Hmax' : size_ok c (ebml_size (N.of_nat (length pl)) sl)) by (rewrite Hes; exact Hmax).
      destruct (p_header_conf c st_a id ty sl (N.of_nat (length pl)) p Hstrict Hid Hsl Hsz Hwp Hp Hty (decodes_numeric ty pl v Hdec) P3 Phier Hroom Hmax')
        as [st1 [Hh [S1 [S2 [S3 [S4 [S5 [S6 S7]]]]]]]].
      assert (Hhl' : length (idb ++ venc sl (N.of_nat (length pl))) = hl) by (rewrite app_length, venc_length; reflexivity).
      assert (Hp' : b_bytes st_a = (idb ++ venc sl (N.of_nat (length pl))) ++ p) by (rewrite Hp, app_assoc; reflexivity).
      destruct (pconsume_exact st_a st1 _ _ (conj S1 (conj S2 (conj S3 (conj S4 (conj S5 (conj S6 S7)))))) Hp') as [Hadv Hbytes].
      rewrite Hhl' in Hadv, Hbytes. set (stc := pconsume st1 (N.of_nat hl)) in *.
      assert (Hplen : (length p < length pl)%nat) by (unfold p; rewrite firstn_length; lia).
      assert (Hread : p_read_tag c st_a = (stc, Err (REof (b_off st_a) (Some id) (Some (N.of_nat (length pl))) (Some p)))).
      { rewrite p_read_tag_unfold, Hh. unfold p_tag_tail. rewrite Hes. change (length (id_bytes id) + sl)%nat with hl. fold stc.
        assert (Hlt2 : (blen stc <? N.of_nat (length pl)) = true) by (unfold blen; rewrite Hbytes; apply N.ltb_lt; lia).
        rewrite Hbytes.
        destruct ty; try (contradiction Hnm; reflexivity); rewrite Hlt2; reflexivity. }
      rewrite P2 in Hread. destruct Hadv as [_ [_ [_ [A4 [A5 [A6 _]]]]]].
      replace (k - hdr_len (RLeaf id v pl sl))%nat with (k - hl)%nat by reflexivity. fold p.
      apply (err_run c st (T ++ stk) _ stc Hs Hq Hbad Hf Hne Hread); [exact A4|rewrite A5; exact P3|rewrite A6; exact P5].
Qed.

(* ------------------------------------------------------------------ how many outputs *)
Lemma outs_pend_len c ids : forall l off T, Forall (conf c ids) l ->
  (length (outs_forest off l T) + length (pend_after off l T) <= length T + length (enc_forest l))%nat.
Proof.
  intros l off T Hc. destruct l as [|x l']; [cbn [outs_forest pend_after enc_forest length]; lia|].
  unfold outs_forest, pend_after. rewrite app_length, map_length.
  pose proof (items_le_bytes_forest c ids (x :: l') off Hc) as Hle.
  rewrite <- (open_close_forest (x :: l') off), app_length, map_length in Hle. lia.
Qed.

Lemma lv_len c : forall L ids off T stk inner, conf_levels c ids L inner ->
  (length (lv_outs off T L) + length (lv_T off T L) + length (lv_stk off stk L) <= length T + length stk + 2 * length (enc_levels L))%nat.
Proof.
  induction L as [|lv L IH]; intros ids off T stk inner Hc; [cbn; lia|].
  destruct Hc as [Hf [Hid [_ [_ [Hsz [_ [_ HL]]]]]]]. cbn [lv_outs lv_T lv_stk enc_levels].
  rewrite !app_length, map_length. cbn [length]. rewrite ?app_length.
  pose proof (outs_pend_len c ids (lv_f lv) off T Hf) as H1.
  specialize (IH (ids ++ [lv_id lv]) (off + flen (lv_f lv) + lv_hl lv) []
                 (mframe (off + flen (lv_f lv)) (lv_id lv) (lv_sl lv) (lv_size lv) :: stk) inner HL). cbn [length] in IH.
  destruct (idok_len _ Hid) as [Hl _]. rewrite fld_length.
  assert (Hs : (1 <= fsl (lv_sl lv) (lv_size lv))%nat) by (destruct (lv_size lv); cbn; [destruct Hsz; lia|lia]).
  lia.
Qed.

(* ------------------------------------------------------------------ C12: truncated documents *)
Inductive cut_tail : Type := CutBoundary | CutTag (x : rtree) (k : nat).
Definition tail_bytes (tl : cut_tail) : list N := match tl with CutBoundary => [] | CutTag x k => firstn k (enc_tree x) end.
Definition tail_ext (tl : cut_tail) : N := match tl with CutBoundary => 0 | CutTag x _ => tlen x end.

(* a document cut somewhere: the masters open at the cut (each with the complete trees before it and its declared size), the
   complete trees at the innermost level, and either nothing more (the cut is on a tag boundary) or the first k bytes of a tag *)
Record tdoc : Type := { td_levels : list level; td_f : list rtree; td_tail : cut_tail }.
Definition enc_tdoc (td : tdoc) : list N := enc_levels (td_levels td) ++ enc_forest (td_f td) ++ tail_bytes (td_tail td).

Definition conf_tdoc (c : cfg) (td : tdoc) : Prop :=
  conf_levels c [] (td_levels td) (flen (td_f td) + tail_ext (td_tail td)) /\
  Forall (conf c (lv_ids [] (td_levels td))) (td_f td) /\
  match td_tail td with
  | CutBoundary => True
  | CutTag x k => conf c (lv_ids [] (td_levels td)) x /\ (0 < k < cut_limit x)%nat
  end.

Definition out_tdoc (td : tdoc) : list rout :=
  let L := td_levels td in
  let off1 := levels_len L in
  let T1 := lv_T 0 [] L in
  let stk1 := lv_stk 0 [] L in
  let P := pend_after off1 (td_f td) T1 ++ stk1 in
  let off2 := off1 + flen (td_f td) in
  lv_outs 0 [] L ++ outs_forest off1 (td_f td) T1 ++
  match td_tail td with
  | CutBoundary => map end_out P ++ [ONone]
  | CutTag x k => map end_out (firstn (exhausted_count off2 P) P) ++ [OErr (cut_error off2 x k)]
  end.

Lemma wf_firstn_enc c ids x k : conf c ids x -> wf_bytes (firstn k (enc_tree x)).
Proof. intros H. apply wf_firstn. apply (conf_wf c x ids H). Qed.

Theorem truncated_run c td : strict c -> c_buffered c = [] -> c_emit_eof c = true -> conf_tdoc c td ->
  p_run c (enc_tdoc td) [RAll] = out_tdoc td.
Proof.
  intros Hstrict Hnb He [HL [Hf Htl]]. unfold p_run. rewrite run_ops_all.
  destruct td as [L f tl]. cbn [td_levels td_f td_tail] in *. unfold enc_tdoc, out_tdoc. cbn [td_levels td_f td_tail].
  set (input := enc_levels L ++ enc_forest f ++ tail_bytes tl). set (st0 := p_init input).
  set (inner := flen f + tail_ext tl) in *.
  assert (Hwt : wf_bytes (tail_bytes tl)).
  { destruct tl as [|x k]; [constructor|]. destruct Htl as [Hx _]. apply (wf_firstn_enc c _ x k Hx). }
  assert (Hwf1 : wf_bytes (enc_forest f ++ tail_bytes tl)) by (apply wf_app; [apply (conf_wf_forest c _ f Hf)|exact Hwt]).
  assert (Hpre0 : pre c st0 [] [] [] (levels_ext L inner)).
  { constructor; try reflexivity.
    - unfold st0, p_init, default_fuel. cbn [b_fuel]. lia.
    - right. repeat split.
    - constructor.
    - intros d Hn. contradiction Hn. reflexivity.
    - intros i a Hn. destruct i; discriminate.
    - constructor. }
  destruct (descend c Hstrict Hnb L [] st0 [] [] _ inner HL Hpre0 eq_refl Hwf1) as [st1 [Hpre1 [B1 [B2 [B3 [_ [_ Hrun1]]]]]]].
  change (b_off st0) with 0 in *. rewrite N.add_0_l in B2.
  set (T1 := lv_T 0 [] L) in *. set (stk1 := lv_stk 0 [] L) in *. set (ids1 := lv_ids [] L) in *.
  assert (HP : Forall (Ptree c) f) by (apply Forall_forall; intros t _; apply parse_tree; assumption).
  assert (Hpre1' : pre c st1 T1 stk1 ids1 (flen f)) by (eapply pre_weaken; [|exact Hpre1]; unfold inner; lia).
  destruct (parse_forest c f HP ids1 Hf st1 T1 stk1 _ Hpre1' B1 Hwt) as [st2 [Hat2 [Hd2 [Hd2' Hrun2]]]].
  rewrite B2 in Hat2, Hrun2.
  assert (Hat2' : at_ st2 (b_bytes st2) (b_off st1 + flen f) (pend_after (b_off st1) f T1 ++ stk1) (b_fuel st1)).
  { rewrite B2. destruct Hat2 as [A1 [A2 [A3 [A4 [A5 A6]]]]]. repeat split; assumption. }
  assert (Hle : flen f <= inner) by (unfold inner; lia).
  pose proof (pre_after_forest c st1 st2 T1 stk1 ids1 inner f Hpre1 Hf Hle Hat2' Hd2 Hd2') as Hpre2. rewrite B2 in Hpre2.
  destruct Hat2 as [A1 [A2 [A3 [A4 [A5 A6]]]]].
  set (P := pend_after (levels_len L) f T1 ++ stk1) in *.
  (* counting *)
  pose proof (lv_len c L [] 0 [] [] inner HL) as Hc1. cbn [length] in Hc1. fold T1 stk1 in Hc1.
  pose proof (outs_pend_len c ids1 f (levels_len L) T1 Hf) as Hc2.
  assert (HPl : length P = (length (pend_after (levels_len L) f T1) + length stk1)%nat) by (unfold P; apply app_length).
  assert (Hin : length input = (length (enc_levels L) + (length (enc_forest f) + length (tail_bytes tl)))%nat)
    by (unfold input; rewrite !app_length; reflexivity).
  assert (Hf2 : (1 <= b_fuel st2)%nat) by (rewrite A6, B3; unfold st0, p_init, default_fuel; cbn [b_fuel]; lia).
  set (a := length (lv_outs 0 [] L)) in *. set (b := length (outs_forest (levels_len L) f T1)) in *.
  destruct tl as [|x k].
  - (* the cut is on a tag boundary: every open master ends, then None *)
    cbn [tail_bytes] in *. 
    replace (4 * length input + 64)%nat with (a + (b + (length P + S (4 * length input + 63 - a - b - length P))))%nat by lia.
    rewrite Hrun1, Hrun2.
    pose proof (eof_ends c st2 (4 * length input + 63 - a - b - length P) A1 A4 A5 Hf2 He) as Hend. rewrite A3 in Hend. fold P in Hend.
    unfold rcat. cbn [snd]. rewrite Hend. reflexivity.
  - (* the cut is inside a tag *)
    destruct Htl as [Hx Hk]. cbn [tail_bytes tail_ext] in *.
    assert (Hext : tlen x <= inner - flen f) by (unfold inner; lia).
    pose proof (truncated_tag c st2 _ stk1 ids1 _ x k Hstrict Hnb Hpre2 Hx Hext Hk A1) as Htr. rewrite A2 in Htr. fold P in Htr.
    set (k1 := exhausted_count (levels_len L + flen f) P) in *.
    assert (Hk1 : (k1 <= length P)%nat) by apply exh_le.
    replace (4 * length input + 64)%nat with (a + (b + (k1 + S (4 * length input + 63 - a - b - k1))))%nat by lia.
    rewrite Hrun1, Hrun2. unfold rcat. cbn [snd]. rewrite Htr. reflexivity.
Qed.
