(* Audit round, item A2: the base chain of the nesting checkers is pinned.
   C06_strict_items_well_nested / C06_eof_closes_all / C06_run_extents / C03_end_offsets are stated with an existential base
   chain (the implied ancestors of a mid-document start).  An arbitrary base absorbs any number of unmatched Ends before the
   first element with a placeholder-free path.  Here:
   (1) pure facts about [chk]: the first element with a placeholder-free path DETERMINES the base, given that what precedes it
       is accepted from the empty base; in particular a run whose first item is a root element is accepted with base [];
   (2) a reader invariant: before the first error / try_recover call the items that precede the first placeholder-free element
       ARE accepted from the empty base and leave nothing open, so the base is exactly the chain of ancestors that element's
       declared path names;
   (3) the same base serves the offset checker [chk_off] and the byte-range checker [chk_ext]. *)
From Ebml Require Import Base Tools Spec Reader Pure Proofs.Tactics Proofs.ReaderIO Proofs.Refine Proofs.PureProofs Proofs.SpecProofs
  Proofs.Nesting Proofs.BufferSim Proofs.Tiling Proofs.Extents.

Arguments vint_len : simpl never.
Arguments read_vint : simpl never.

(* ------------------------------------------------------------------ (1) pure facts about the checker *)
(* the ids a declared path names, outermost first *)
Definition path_ids (p : list part) : list N := flat_map (fun x => match x with PId i => [i] | PGlobal _ _ => [] end) p.

(* the base chain a placeholder-free declared path stands for: its ids, innermost first *)
Definition base_of (sp : spec) (id : N) : list N := rev (path_ids (get_path sp id)).

Lemma all_ids_matches : forall p c, all_ids p = true -> path_matches p c = true -> c = path_ids p.
Proof.
  induction p as [|h p IH]; intros c Ha Hm.
  - destruct c; [reflexivity|discriminate Hm].
  - destruct h as [id|mn mx]; [|discriminate Ha]. cbn [all_ids forallb] in Ha. fold (all_ids p) in Ha.
    cbn [path_matches] in Hm. destruct c as [|d c]; [discriminate Hm|].
    apply andb_true_iff in Hm. destruct Hm as [H1 H2]. apply N.eqb_eq in H1. subst d.
    cbn [path_ids flat_map app]. f_equal. apply IH; assumption.
Qed.

Lemma path_ids_nil_root : forall p, all_ids p = true -> path_ids p = [] -> p = [].
Proof. intros [|[id|mn mx] p] Ha H; [reflexivity|discriminate H|discriminate Ha]. Qed.

Lemma all_ids_path_ids_length : forall p, all_ids p = true -> length (path_ids p) = length p.
Proof.
  induction p as [|h p IH]; intros Ha; [reflexivity|]. destruct h as [id|mn mx]; [|discriminate Ha].
  cbn [all_ids forallb] in Ha. fold (all_ids p) in Ha. cbn [path_ids flat_map app length]. f_equal. apply IH, Ha.
Qed.

(* the reader's implied ancestors of a placeholder-free path are exactly that chain *)
Lemma implied_stack_ids sp p stk : implied_stack sp p = Some stk -> map f_id stk = rev (path_ids p).
Proof.
  unfold implied_stack. destruct (forallb _ p); [|discriminate]. intros H. inversion H; subst. clear H.
  rewrite map_rev. f_equal. induction p as [|x p IH]; [reflexivity|]. cbn [flat_map path_ids]. rewrite map_app, IH.
  destruct x; reflexivity.
Qed.

(* undetermined runs stay undetermined on every prefix *)
Lemma chk_undet_prefix sp : forall a b open o, chk sp open false (a ++ b) = Some (o, false) ->
  exists o', chk sp open false a = Some (o', false).
Proof.
  intros a b open o H. rewrite chk_app in H. destruct (chk sp open false a) as [[o' d]|] eqn:E; [|discriminate H].
  destruct d; [apply chk_det_mono in H; discriminate H|]. exists o'. reflexivity.
Qed.

(* an undetermined run contains no Start / element with a placeholder-free path *)
Lemma chk_undet_no_ids sp : forall items open o, chk sp open false items = Some (o, false) ->
  forall x, In x items -> is_se x = true -> all_ids (get_path sp (tag_id x)) = false.
Proof.
  induction items as [|t items IH]; intros open o H x Hin Hse; [contradiction Hin|].
  cbn [chk] in H. destruct t as [id v|id|id|id cs].
  - destruct (elem_chk sp open false id) as [[|]|] eqn:E; [apply chk_det_mono in H; discriminate H| |discriminate H].
    destruct Hin as [<-|Hin]; [|eapply IH; eassumption]. cbn [tag_id].
    unfold elem_chk in E. destruct (get_type sp id); [|discriminate E]. cbn [orb] in E.
    destruct (all_ids (get_path sp id)); [|reflexivity]. destruct (path_matches _ _); discriminate E.
  - destruct (elem_chk sp open false id) as [[|]|] eqn:E; [apply chk_det_mono in H; discriminate H| |discriminate H].
    destruct Hin as [<-|Hin]; [|eapply IH; eassumption]. cbn [tag_id].
    unfold elem_chk in E. destruct (get_type sp id); [|discriminate E]. cbn [orb] in E.
    destruct (all_ids (get_path sp id)); [|reflexivity]. destruct (path_matches _ _); discriminate E.
  - destruct open as [|x0 open']; [discriminate H|]. destruct (x0 =? id); [|discriminate H].
    destruct Hin as [<-|Hin]; [discriminate Hse|]. eapply IH; eassumption.
  - discriminate H.
Qed.

(* THE BASE IS DETERMINED: if what precedes the first placeholder-free Start / element [x] is accepted from the empty base
   (leaving the chain [o] open), then every base from which the whole sequence is accepted satisfies: the declared path of [x]
   names exactly the masters of [o] on top of the base *)
Lemma chk_base_determined sp base pre o x rest :
  chk sp [] false pre = Some (o, false) -> is_se x = true -> all_ids (get_path sp (tag_id x)) = true ->
  chk sp base false (pre ++ x :: rest) <> None ->
  rev (o ++ base) = path_ids (get_path sp (tag_id x)).
Proof.
  intros Hpre Hse Ha H. pose proof (chk_rebase sp pre [] o Hpre base) as Hr. cbn [app] in Hr.
  rewrite chk_app, Hr in H.
  assert (He : elem_chk sp (o ++ base) false (tag_id x) <> None).
  { destruct x as [id v|id|id|id cs]; try discriminate Hse; cbn [chk tag_id] in *;
      (destruct (elem_chk sp (o ++ base) false id); [discriminate|contradiction H; reflexivity]). }
  unfold elem_chk in He. destruct (get_type sp (tag_id x)); [|contradiction He; reflexivity].
  rewrite Ha in He. cbn [orb] in He.
  destruct (path_matches (get_path sp (tag_id x)) (rev (o ++ base))) eqn:Em; [|contradiction He; reflexivity].
  apply all_ids_matches; assumption.
Qed.

(* when everything before [x] is closed again ([o = []]) the base is the chain named by the declared path of [x] *)
Corollary chk_base_is_path sp base pre x rest :
  chk sp [] false pre = Some ([], false) -> is_se x = true -> all_ids (get_path sp (tag_id x)) = true ->
  chk sp base false (pre ++ x :: rest) <> None -> base = base_of sp (tag_id x).
Proof.
  intros Hpre Hse Ha H. pose proof (chk_base_determined sp base pre [] x rest Hpre Hse Ha H) as E. cbn [app] in E.
  unfold base_of. rewrite <- E, rev_involutive. reflexivity.
Qed.

(* a sequence that begins with a root element (declared with the empty path) is accepted from the empty base only *)
Corollary chk_root_base sp base x rest : is_se x = true -> get_path sp (tag_id x) = [] ->
  chk sp base false (x :: rest) <> None -> base = [].
Proof.
  intros Hse Hp H. assert (Ha : all_ids (get_path sp (tag_id x)) = true) by (rewrite Hp; reflexivity).
  rewrite (chk_base_is_path sp base [] x rest eq_refl Hse Ha H). unfold base_of. rewrite Hp. reflexivity.
Qed.

(* C06_strict_items_well_nested, rooted: a run whose first item is a root element is accepted with the EMPTY base, for every
   sequence of operations (items after errors and recoveries included) *)
Theorem strict_items_well_nested_rooted : forall c input ops,
  c_allow_id c = false -> c_allow_hier c = false -> c_buffered c = [] ->
  forall x rest, out_tags (p_run c input ops) = x :: rest -> is_se x = true -> get_path (c_sp c) (tag_id x) = [] ->
  chk (c_sp c) [] false (out_tags (p_run c input ops)) <> None.
Proof.
  intros c input ops Hid Hh Hbuf x rest E Hse Hp.
  destruct (strict_items_well_nested c input ops Hid Hh Hbuf) as [base H].
  rewrite E in H. rewrite <- (chk_root_base (c_sp c) base x rest Hse Hp H), E. exact H.
Qed.

(* C06_eof_closes_all, rooted *)
Theorem eof_closes_all_rooted : forall c input,
  c_allow_id c = false -> c_allow_hier c = false -> c_buffered c = [] -> c_emit_eof c = true ->
  forall outs x rest, p_run c input [RAll] = outs ++ [ONone] -> out_tags outs = x :: rest -> is_se x = true ->
  get_path (c_sp c) (tag_id x) = [] -> chk (c_sp c) [] false (out_tags outs) = Some ([], true).
Proof.
  intros c input Hid Hh Hbuf Heof outs x rest Hrun E Hse Hp.
  destruct (eof_closes_all c input Hid Hh Hbuf Heof outs Hrun) as [base [det H]].
  assert (Hb : base = []).
  { apply (chk_root_base (c_sp c) base x rest Hse Hp). rewrite <- E, H. discriminate. }
  subst base. rewrite H. f_equal. f_equal.
  (* the first item determines the position *)
  rewrite E in H. cbn [chk] in H.
  assert (He : elem_chk (c_sp c) [] false (tag_id x) = Some true \/ elem_chk (c_sp c) [] false (tag_id x) = None).
  { unfold elem_chk. destruct (get_type (c_sp c) (tag_id x)); [|right; reflexivity]. rewrite Hp. cbn. left. reflexivity. }
  destruct x as [id v|id|id|id cs]; try discriminate Hse; cbn [tag_id] in He;
    (destruct He as [He|He]; rewrite He in H; [apply chk_det_mono in H; exact H|discriminate H]).
Qed.

(* ------------------------------------------------------------------ (2) the reader invariant *)
(* what one header / one tag does to the reader's position: nothing, or - in an undetermined state, for an id whose declared
   path is placeholder-free - it seeds the implied ancestors of that id below the open masters and becomes determined *)
Definition flip (sp : spec) (st st' : pst) (id : N) : Prop :=
  (b_det st' = b_det st /\ b_stack st' = b_stack st) \/
  (b_det st = false /\ b_det st' = true /\ all_ids (get_path sp id) = true /\
   exists stk, implied_stack sp (get_path sp id) = Some stk /\ b_stack st' = b_stack st ++ stk).

Lemma p_hier_step_flip c st id ty : flip (c_sp c) st (fst (p_hier_step c st id ty)) id.
Proof.
  unfold p_hier_step. destruct (negb _ && _); [|left; split; reflexivity].
  destruct (b_det st) eqn:Ed; [destruct (_ && _); left; split; reflexivity|].
  destruct (all_ids _) eqn:Ea; [|destruct (_ && _); left; split; reflexivity].
  destruct (implied_stack _ _) as [stk|] eqn:Ei.
  - assert (H : flip (c_sp c) st (pset_stack st (b_stack st ++ stk) true) id).
    { right. split; [exact Ed|]. split; [reflexivity|]. split; [exact Ea|]. exists stk. split; [exact Ei|reflexivity]. }
    destruct (_ && _); exact H.
  - left. split; reflexivity.
Qed.

Lemma p_header_flip c st st1 id ty esz hl : p_header c st = (st1, Ok (id, ty, esz, hl)) -> flip (c_sp c) st st1 id.
Proof.
  intros H. rewrite p_header_unfold in H.
  destruct (p_tag_id st) as [[id0 idl]|e0|]; try discriminate H.
  unfold p_hdr_tail in H. destruct (read_vint _) as [[[size sl]|]|e1|]; try discriminate H.
  destruct (is_numeric _ && _); [discriminate H|]. destruct (negb (c_allow_id c) && _); [discriminate H|].
  pose proof (p_hier_step_flip c st id0 (get_type (c_sp c) id0)) as Hf.
  destruct (p_hier_step c st id0 (get_type (c_sp c) id0)) as [st2 [e2|]]; [discriminate H|]. cbn [fst] in Hf.
  destruct (b_bad st2); [discriminate H|]. destruct (_ && _); [discriminate H|].
  destruct (c_max c); destruct (ebml_size size sl); try destruct (_ <? _); try discriminate H;
    inversion H; subst; exact Hf.
Qed.

Lemma p_read_tag_flip c st st2 p : p_read_tag c st = (st2, Ok p) -> flip (c_sp c) st st2 (tag_id (p_tag p)).
Proof.
  intros H. rewrite p_read_tag_unfold in H. destruct (p_header c st) as [st1 [[[[id ty] esz] hl]|e|]] eqn:Eh; try discriminate H.
  pose proof (p_header_flip _ _ _ _ _ _ _ Eh) as Hf.
  destruct (p_tag_tail_facts _ _ _ _ _ _ _ _ _ H) as [A [_ [C D]]]. destruct (D p eq_refl) as [D1 _]. rewrite D1.
  unfold flip in *. rewrite A, C. exact Hf.
Qed.

(* a placeholder-free path that validates against a stack consisting of open masters on top of ITS OWN implied ancestors:
   the element ends every one of the open masters *)
Lemma seeded_validates sp id (S1 stk : list frame) :
  all_ids (get_path sp id) = true -> implied_stack sp (get_path sp id) = Some stk ->
  validate_tag_path sp id (stack_view (S1 ++ stk)) = true ->
  firstn (count_ended sp id (stack_view (S1 ++ stk))) (S1 ++ stk) = S1.
Proof.
  intros Ha Hi Hv. unfold validate_tag_path in Hv. set (n := count_ended sp id (stack_view (S1 ++ stk))) in *.
  apply (all_ids_matches _ _ Ha) in Hv.
  assert (Hlen : length (rev (map fst (skipn n (stack_view (S1 ++ stk))))) = length (path_ids (get_path sp id))) by (rewrite Hv; reflexivity).
  rewrite rev_length, map_length, skipn_length in Hlen. unfold stack_view in Hlen. rewrite map_length, app_length in Hlen.
  pose proof (implied_stack_ids sp _ stk Hi) as Hids.
  assert (Hl2 : length stk = length (path_ids (get_path sp id))) by (rewrite <- (map_length f_id), Hids, rev_length; reflexivity).
  destruct (count_ended_closes sp id (stack_view (S1 ++ stk))) as [Hle _]. fold n in Hle.
  unfold stack_view in Hle. rewrite map_length, app_length in Hle.
  assert (Hn : n = length S1) by lia.
  rewrite Hn, firstn_app, Nat.sub_diag, firstn_all. cbn [firstn]. apply app_nil_r.
Qed.

(* [Und sp l]: [l] is accepted from the empty base and contains no placeholder-free element yet *)
Definition Und (sp : spec) (l : list tag) : Prop := exists o, chk sp [] false l = Some (o, false).

(* [Pin sp l]: [l] = [pre] (accepted from the empty base, undetermined, leaving [o] open), the Ends of all of [o], the first
   Start / element [x] with a placeholder-free declared path, anything *)
Definition Pin (sp : spec) (l : list tag) : Prop :=
  exists pre o x rest, l = pre ++ map TEnd o ++ x :: rest /\ chk sp [] false pre = Some (o, false) /\
    is_se x = true /\ all_ids (get_path sp (tag_id x)) = true.

Lemma Pin_app sp a b : Pin sp a -> Pin sp (a ++ b).
Proof.
  intros [pre [o [x [rest [E [H1 [H2 H3]]]]]]]. exists pre, o, x, (rest ++ b).
  split; [rewrite E, <- !app_assoc; reflexivity|]. split; [exact H1|split; assumption].
Qed.

Lemma U_prefix sp a b : Und sp (a ++ b) -> Und sp a.
Proof. intros [o H]. destruct (chk_undet_prefix sp a b [] o H) as [o' H']. exists o'. exact H'. Qed.

(* prefixes *)
Lemma Pin_prefix sp a b : Pin sp (a ++ b) -> Und sp a \/ Pin sp a.
Proof.
  intros [pre [o [x [rest [E [H1 [H2 H3]]]]]]].
  assert (Hfull : chk sp [] false (pre ++ map TEnd o) = Some ([], false)).
  { rewrite chk_app, H1. rewrite <- (app_nil_r o) at 1. apply chk_ends. }
  rewrite app_assoc in E. set (A := pre ++ map TEnd o) in *.
  (* compare a with A ++ [x] *)
  destruct (Nat.le_gt_cases (length a) (length A)) as [Hle|Hgt].
  - left. assert (Ha : a = firstn (length a) A).
    { apply (f_equal (firstn (length a))) in E. rewrite firstn_app, firstn_all, Nat.sub_diag in E. cbn [firstn] in E.
      rewrite app_nil_r in E. rewrite firstn_app in E.
      replace (length a - length A)%nat with O in E by lia. cbn [firstn] in E. rewrite app_nil_r in E. exact E. }
    apply (U_prefix sp a (skipn (length a) A)). rewrite Ha at 1. rewrite firstn_skipn. exists []. exact Hfull.
  - right. assert (Ha : a = A ++ x :: firstn (length a - S (length A)) rest).
    { apply (f_equal (firstn (length a))) in E. rewrite firstn_app, firstn_all, Nat.sub_diag in E. cbn [firstn] in E.
      rewrite app_nil_r in E. rewrite firstn_app in E.
      rewrite (firstn_all2 A) in E by lia.
      destruct (length a - length A)%nat as [|k] eqn:Ek; [lia|]. cbn [firstn] in E.
      replace (length a - S (length A))%nat with k by lia. exact E. }
    exists pre, o, x, (firstn (length a - S (length A)) rest). split; [|split; [exact H1|split; assumption]].
    rewrite Ha at 1. unfold A. rewrite <- app_assoc. reflexivity.
Qed.

Definition Pinned (sp : spec) (l : list tag) : Prop := Und sp l \/ Pin sp l.

Lemma Pinned_prefix sp a b : Pinned sp (a ++ b) -> Pinned sp a.
Proof. intros [H|H]; [left; eapply U_prefix, H|apply (Pin_prefix sp a b H)]. Qed.

Definition has_err (q : list qitem) : Prop := exists e, In (QErr e) q.

(* the invariant: everything handed out or queued is still undetermined - and then the reader is, or an error is queued -,
   or the first placeholder-free element has come, preceded by the Ends of everything open *)
Definition PK (sp : spec) (em : list tag) (st : pst) : Prop :=
  (Und sp (em ++ qtags (b_queue st)) /\ (b_det st = false \/ has_err (b_queue st))) \/ Pin sp (em ++ qtags (b_queue st)).

(* an undetermined reader state: the checker's base is empty *)
Lemma JS_undet sp em st : JS sp em st -> b_det st = false ->
  chk sp [] false (em ++ qtags (b_queue st)) = Some (map f_id (b_stack st), false).
Proof.
  intros [base [d [H [H1 H2]]]] Ed. rewrite (H2 Ed) in H. destruct d; [rewrite (H1 eq_refl) in Ed; discriminate Ed|]. exact H.
Qed.

Lemma p_read_next_PK c em : c_allow_id c = false -> c_allow_hier c = false -> c_buffered c = [] ->
  forall fuel st, JS (c_sp c) em st -> b_det st = false -> b_bad (p_read_next fuel c st) = None ->
  PK (c_sp c) em (p_read_next fuel c st).
Proof.
  intros Hid Hh Hbuf fuel st HJ Ed Hbad.
  pose proof (p_read_next_J c em Hid Hh Hbuf fuel st HJ) as HJ'.
  destruct (b_det (p_read_next fuel c st)) eqn:Ed'.
  2:{ left. split; [|left; exact Ed']. eexists. apply (JS_undet _ _ _ HJ' Ed'). }
  destruct fuel as [|f]; [cbn [p_read_next pset_bad b_det] in Ed'; rewrite Ed in Ed'; discriminate Ed'|].
  revert Ed' Hbad HJ'. rewrite p_read_next_unfold. cbn zeta.
  set (st1 := ppop_frames st _).
  assert (H1 : JS (c_sp c) em st1) by (apply JS_pop, HJ).
  assert (Ed1 : b_det st1 = false) by exact Ed.
  pose proof (JS_undet _ _ _ H1 Ed1) as Hu1.
  unfold p_read_tag_checked. destruct (b_bytes st1) eqn:Eb.
  { destruct (c_emit_eof c); cbn [ppop_frames ppush_q pset_queue pset_stack b_det]; intros Ed'; rewrite Ed1 in Ed'; discriminate Ed'. }
  destruct (p_read_tag c st1) as [st2 r2] eqn:Er.
  pose proof (p_read_tag_queue c st1) as Hq. rewrite Er in Hq. cbn [fst] in Hq.
  destruct (p_read_tag_J _ _ _ _ _ Hid Hh Er H1) as [H2 Hf].
  destruct r2 as [p|e|].
  - destruct (Hf p eq_refl) as [Hfa Hse]. pose proof (p_read_tag_flip _ _ _ _ Er) as Hfl.
    set (ne := count_ended (c_sp c) (tag_id (p_tag p)) (stack_view (b_stack st2))).
    assert (Hd2 : forall s, b_det s = b_det st2 -> b_det s = true ->
              firstn ne (b_stack st2) = b_stack st1 /\ all_ids (get_path (c_sp c) (tag_id (p_tag p))) = true).
    { intros s Es Ht. rewrite Es in Ht. destruct Hfl as [[A _]|[_ [_ [Ha [stk [Hi Hs]]]]]]; [rewrite A, Ed1 in Ht; discriminate Ht|].
      split; [|exact Ha]. destruct Hfa as [_ [Hv _]]. specialize (Hv Ht). unfold ne. rewrite Hs in *.
      apply seeded_validates; assumption. }
    assert (Fin : forall s, b_det s = b_det st2 ->
              b_queue s = b_queue st2 ++ map end_item (firstn ne (b_stack st2)) ++ [QOk (p_tag p) (p_start p)] ->
              b_det s = true -> b_bad s = None -> JS (c_sp c) em s -> PK (c_sp c) em s).
    { intros s Es Eq Ht _ _. destruct (Hd2 s Es Ht) as [Hn Ha]. right.
      exists (em ++ qtags (b_queue st1)), (map f_id (b_stack st1)), (p_tag p), [].
      split; [|split; [exact Hu1|split; assumption]].
      rewrite Eq, Hq, !qtags_app, qtags_ends, Hn. cbn [qtags flat_map app]. rewrite <- !app_assoc. reflexivity. }
    destruct (p_tag p) as [id v|id|id|id cs] eqn:Ep; try discriminate Hse; cbn [tag_id] in *.
    + apply Fin; [reflexivity|]. cbn [ppop_frames ppush_q pset_queue pset_stack b_queue b_stack]. rewrite <- app_assoc. reflexivity.
    + rewrite Hbuf. cbn [mem_id existsb]. apply Fin; [reflexivity|].
      cbn [ppop_frames ppush_q pset_queue pset_stack b_queue b_stack]. rewrite <- app_assoc. reflexivity.
  - intros _ _ _. left. split.
    + unfold ppush_q. cbn [pset_queue b_queue]. rewrite Hq, qtags_app. cbn [qtags flat_map]. rewrite !app_nil_r.
      eexists. exact Hu1.
    + right. exists e. unfold ppush_q. cbn [pset_queue b_queue]. apply in_or_app. right. left. reflexivity.
  - intros _ Hb. cbn [pset_bad b_bad] in Hb. destruct (b_bad st2); discriminate Hb.
Qed.

Lemma p_next_PK c em st : c_allow_id c = false -> c_allow_hier c = false -> c_buffered c = [] ->
  JS (c_sp c) em st -> PK (c_sp c) em st -> b_bad (fst (p_next c st)) = None -> (forall e, snd (p_next c st) <> NErr e) ->
  PK (c_sp c) (em ++ nres_tags (snd (p_next c st))) (fst (p_next c st)).
Proof.
  intros Hid Hh Hbuf HJ HK. unfold p_next.
  set (stA := match b_queue st with [] => p_read_next (b_fuel st) c st | _ :: _ => st end).
  intros Hbad Hne.
  assert (Hb : b_bad stA = None).
  { revert Hbad. destruct (b_queue stA) as [|[t o|e] q]; cbn [fst pset_last pset_queue b_bad]; auto. }
  assert (HA : PK (c_sp c) em stA).
  { subst stA. destruct (b_queue st) as [|q0 ql] eqn:Eq; [|exact HK].
    destruct HK as [[HU [Ed|[e He]]]|HP].
    - apply p_read_next_PK; assumption.
    - rewrite Eq in He. contradiction He.
    - right. rewrite Eq in HP. cbn [qtags flat_map] in HP. rewrite app_nil_r in HP. apply Pin_app, HP. }
  clearbody stA. destruct (b_queue stA) as [|[t o|e] q] eqn:EqA; cbn [fst snd nres_tags] in *.
  - rewrite app_nil_r. exact HA.
  - unfold PK in *. cbn [pset_last pset_queue b_queue b_det]. rewrite EqA in HA. cbn [qtags flat_map] in HA.
    rewrite <- app_assoc. cbn [app]. destruct HA as [[HU [Ed|[e He]]]|HP]; [left; split; [exact HU|left; exact Ed]| |right; exact HP].
    left. split; [exact HU|]. right. exists e. destruct He as [He|He]; [discriminate He|exact He].
  - contradiction (Hne e). reflexivity.
Qed.

Lemma PK_Pinned sp em st : PK sp em st -> Pinned sp em.
Proof. intros [[H _]|H]; [left; eapply U_prefix, H|apply (Pin_prefix _ _ _ H)]. Qed.

(* what is proved of the items of a clean prefix: the structure, and acceptance from some base *)
Definition PG (sp : spec) (l : list tag) : Prop := Pinned sp l /\ accepted sp l.

Lemma JPK_PG sp em st : JS sp em st -> PK sp em st -> PG sp em.
Proof. intros HJ HK. split; [eapply PK_Pinned, HK|eapply JS_accepted, HJ]. Qed.

Lemma out_tags_item t o outs : out_tags (OItem t o :: outs) = t :: out_tags outs.
Proof. reflexivity. Qed.

Section PinRuns.
Variable c : cfg.
Hypothesis Hid : c_allow_id c = false.
Hypothesis Hh : c_allow_hier c = false.
Hypothesis Hbuf : c_buffered c = [].

Lemma p_run_all_PK : forall limit em st, JS (c_sp c) em st -> PK (c_sp c) em st ->
  PG (c_sp c) (em ++ out_tags (clean_prefix (snd (p_run_all limit c st)))) /\
  (forallb clean (snd (p_run_all limit c st)) = true -> b_bad (fst (p_run_all limit c st)) = None ->
   JS (c_sp c) (em ++ out_tags (snd (p_run_all limit c st))) (fst (p_run_all limit c st)) /\
   PK (c_sp c) (em ++ out_tags (snd (p_run_all limit c st))) (fst (p_run_all limit c st))).
Proof.
  induction limit as [|l IH]; intros em st HJ HK; cbn [p_run_all].
  - cbn [fst snd clean_prefix clean out_tags flat_map app]. rewrite app_nil_r.
    split; [eapply JPK_PG; eassumption|intros _ _; split; assumption].
  - pose proof (p_next_J c em st Hid Hh Hbuf HJ) as HJ1. pose proof (p_next_PK c em st Hid Hh Hbuf HJ HK) as HK1.
    destruct (p_next c st) as [st1 r]. cbn [fst snd] in HJ1, HK1.
    destruct (b_bad st1) as [b|] eqn:Eb.
    { cbn [fst snd clean_prefix forallb]. rewrite clean_bad_out. cbn [out_tags flat_map andb]. rewrite app_nil_r.
      split; [eapply JPK_PG; eassumption|discriminate]. }
    destruct r as [t o|e|]; cbn [nres_tags] in *.
    + assert (HK2 : PK (c_sp c) (em ++ [t]) st1) by (apply HK1; [reflexivity|discriminate]).
      specialize (IH _ _ HJ1 HK2). destruct (p_run_all l c st1) as [st2 outs]. cbn [fst snd] in *.
      cbn [clean_prefix clean forallb andb]. rewrite !out_tags_item.
      change (t :: ?x) with ([t] ++ x). rewrite !app_assoc. exact IH.
    + cbn [fst snd clean_prefix clean forallb andb out_tags flat_map]. rewrite app_nil_r.
      split; [eapply JPK_PG; eassumption|discriminate].
    + cbn [fst snd clean_prefix clean forallb andb out_tags flat_map app]. rewrite app_nil_r in *.
      assert (HK2 : PK (c_sp c) em st1) by (apply HK1; [reflexivity|discriminate]).
      split; [eapply JPK_PG; eassumption|intros _ _; split; assumption].
Qed.

Lemma p_run_ops_PK limit : forall ops em st, JS (c_sp c) em st -> PK (c_sp c) em st ->
  PG (c_sp c) (em ++ out_tags (clean_prefix (snd (p_run_ops c limit st ops)))).
Proof.
  induction ops as [|op ops IH]; intros em st HJ HK; cbn [p_run_ops].
  - cbn [snd clean_prefix out_tags flat_map]. rewrite app_nil_r. eapply JPK_PG; eassumption.
  - destruct op.
    + pose proof (p_next_J c em st Hid Hh Hbuf HJ) as HJ1. pose proof (p_next_PK c em st Hid Hh Hbuf HJ HK) as HK1.
      destruct (p_next c st) as [st1 r]. cbn [fst snd] in HJ1, HK1.
      destruct (b_bad st1) as [b|] eqn:Eb.
      { cbn [snd clean_prefix]. rewrite clean_bad_out. cbn [out_tags flat_map]. rewrite app_nil_r. eapply JPK_PG; eassumption. }
      destruct r as [t o|e|]; cbn [nres_tags] in *.
      * assert (HK2 : PK (c_sp c) (em ++ [t]) st1) by (apply HK1; [reflexivity|discriminate]).
        specialize (IH _ _ HJ1 HK2). destruct (p_run_ops c limit st1 ops) as [st2 outs]. cbn [snd] in *.
        cbn [clean_prefix clean]. rewrite out_tags_item.
        change (t :: ?x) with ([t] ++ x). rewrite app_assoc. exact IH.
      * destruct (p_run_ops c limit st1 ops) as [st2 outs]. cbn [snd clean_prefix clean out_tags flat_map].
        rewrite app_nil_r. eapply JPK_PG; eassumption.
      * rewrite app_nil_r in *. assert (HK2 : PK (c_sp c) em st1) by (apply HK1; [reflexivity|discriminate]).
        specialize (IH _ _ HJ1 HK2). destruct (p_run_ops c limit st1 ops) as [st2 outs]. cbn [snd] in *.
        cbn [clean_prefix clean]. exact IH.
    + destruct (p_try_recover c st) as [st1 r]. destruct (b_bad st1) as [b|].
      { cbn [snd clean_prefix]. rewrite clean_bad_out. cbn [out_tags flat_map]. rewrite app_nil_r. eapply JPK_PG; eassumption. }
      destruct (p_run_ops c limit st1 ops) as [st2 outs].
      destruct r as [e|]; cbn [snd clean_prefix clean out_tags flat_map]; rewrite app_nil_r; eapply JPK_PG; eassumption.
    + destruct (p_run_all_PK limit em st HJ HK) as [Ha Hj].
      destruct (p_run_all limit c st) as [st1 outs1]. cbn [fst snd] in *.
      destruct (b_bad st1) eqn:Eb; [exact Ha|].
      specialize (IH (em ++ out_tags outs1) st1). destruct (p_run_ops c limit st1 ops) as [st2 outs]. cbn [snd] in *.
      rewrite clean_prefix_app. destruct (forallb clean outs1); [|exact Ha].
      rewrite out_tags_app, app_assoc. destruct (Hj eq_refl eq_refl) as [A B]. apply IH; assumption.
Qed.

End PinRuns.

Lemma PK_init sp input : PK sp [] (p_init input).
Proof. left. split; [exists []; reflexivity|left; reflexivity]. Qed.

(* from the structure and acceptance from SOME base to acceptance from THE base *)
Lemma PG_pinned sp l : PG sp l ->
  (exists o, chk sp [] false l = Some (o, false)) \/
  (exists pre o x rest, l = pre ++ map TEnd o ++ x :: rest /\ chk sp [] false pre = Some (o, false) /\
     is_se x = true /\ all_ids (get_path sp (tag_id x)) = true /\ chk sp (base_of sp (tag_id x)) false l <> None).
Proof.
  intros [[HU|[pre [o [x [rest [E [H1 [H2 H3]]]]]]]] [base Hacc]]; [left; exact HU|right].
  exists pre, o, x, rest. split; [exact E|]. split; [exact H1|]. split; [exact H2|]. split; [exact H3|].
  assert (Hfull : chk sp [] false (pre ++ map TEnd o) = Some ([], false)).
  { rewrite chk_app, H1. rewrite <- (app_nil_r o) at 1. apply chk_ends. }
  rewrite app_assoc in E. rewrite E in Hacc.
  rewrite <- (chk_base_is_path sp base _ x rest Hfull H2 H3 Hacc), E. exact Hacc.
Qed.

(* C06_strict_items_well_nested with the base pinned, for the items yielded before the first error or try_recover call:
   EITHER no Start / element with a placeholder-free declared path is among them and they are accepted from the EMPTY base
   (and the checker is still undetermined), OR they are [pre ++ Ends ++ x :: rest] where [x] is the first Start / element
   with a placeholder-free declared path, [pre] is accepted from the empty base leaving [o] open, the Ends close all of [o],
   and the whole sequence is accepted from the base [base_of sp x] = the masters named by the declared path of [x] *)
Theorem clean_items_pinned : forall c input ops,
  c_allow_id c = false -> c_allow_hier c = false -> c_buffered c = [] ->
  let items := out_tags (clean_prefix (p_run c input ops)) in
  (exists o, chk (c_sp c) [] false items = Some (o, false)) \/
  (exists pre o x rest, items = pre ++ map TEnd o ++ x :: rest /\ chk (c_sp c) [] false pre = Some (o, false) /\
     is_se x = true /\ all_ids (get_path (c_sp c) (tag_id x)) = true /\
     chk (c_sp c) (base_of (c_sp c) (tag_id x)) false items <> None).
Proof.
  intros c input ops Hid Hh Hbuf. cbn zeta. apply PG_pinned. unfold p_run.
  apply (p_run_ops_PK c Hid Hh Hbuf _ ops [] (p_init input)); [apply JS_init|apply PK_init].
Qed.

Lemma out_tags_clean_run_all c limit st :
  out_tags (clean_prefix (snd (p_run_all limit c st))) = out_tags (snd (p_run_all limit c st)).
Proof. rewrite <- !out_items_tags, clean_prefix_run_all. reflexivity. Qed.

(* a drain: all its items *)
Theorem drain_items_pinned : forall c input,
  c_allow_id c = false -> c_allow_hier c = false -> c_buffered c = [] ->
  let items := out_tags (p_run c input [RAll]) in
  (exists o, chk (c_sp c) [] false items = Some (o, false)) \/
  (exists pre o x rest, items = pre ++ map TEnd o ++ x :: rest /\ chk (c_sp c) [] false pre = Some (o, false) /\
     is_se x = true /\ all_ids (get_path (c_sp c) (tag_id x)) = true /\
     chk (c_sp c) (base_of (c_sp c) (tag_id x)) false items <> None).
Proof.
  intros c input Hid Hh Hbuf. pose proof (clean_items_pinned c input [RAll] Hid Hh Hbuf) as H. cbn zeta in *.
  rewrite p_run_RAll in *. rewrite out_tags_clean_run_all in H. exact H.
Qed.

(* C06_eof_closes_all with the base pinned: a drain that ends with None closes everything, from the empty base when no
   placeholder-free element occurs, else from the base named by the first one *)
Theorem eof_closes_all_pinned : forall c input,
  c_allow_id c = false -> c_allow_hier c = false -> c_buffered c = [] -> c_emit_eof c = true ->
  forall outs, p_run c input [RAll] = outs ++ [ONone] ->
  chk (c_sp c) [] false (out_tags outs) = Some ([], false) \/
  (exists pre o x rest, out_tags outs = pre ++ map TEnd o ++ x :: rest /\ chk (c_sp c) [] false pre = Some (o, false) /\
     is_se x = true /\ all_ids (get_path (c_sp c) (tag_id x)) = true /\
     chk (c_sp c) (base_of (c_sp c) (tag_id x)) false (out_tags outs) = Some ([], true)).
Proof.
  intros c input Hid Hh Hbuf Heof outs Hrun.
  destruct (eof_closes_all c input Hid Hh Hbuf Heof outs Hrun) as [base [det H]].
  pose proof (drain_items_pinned c input Hid Hh Hbuf) as HP. cbn zeta in HP.
  rewrite Hrun, out_tags_app in HP. cbn [out_tags flat_map] in HP. rewrite app_nil_r in HP.
  destruct HP as [[o HU]|[pre [o [x [rest [E [H1 [H2 [H3 H4]]]]]]]]].
  - left. pose proof (chk_rebase _ _ [] o HU base) as Hr. cbn [app] in Hr. rewrite Hr in H. injection H as A B.
    destruct o as [|x0 o']; [exact HU|discriminate A].
  - right. exists pre, o, x, rest. split; [exact E|]. split; [exact H1|]. split; [exact H2|]. split; [exact H3|].
    assert (Hfull : chk (c_sp c) [] false (pre ++ map TEnd o) = Some ([], false)).
    { rewrite chk_app, H1. rewrite <- (app_nil_r o) at 1. apply chk_ends. }
    assert (Hb : base = base_of (c_sp c) (tag_id x)).
    { apply (chk_base_is_path (c_sp c) base _ x rest Hfull H2 H3). rewrite <- app_assoc, <- E, H. discriminate. }
    rewrite <- Hb, H. f_equal. f_equal.
    (* determined from [x] on *)
    rewrite E, app_assoc, chk_app in H. pose proof (chk_rebase _ _ [] [] Hfull base) as Hr. cbn [app] in Hr. rewrite Hr in H.
    assert (He : elem_chk (c_sp c) base false (tag_id x) = None \/ elem_chk (c_sp c) base false (tag_id x) = Some true).
    { unfold elem_chk. destruct (get_type (c_sp c) (tag_id x)); [|left; reflexivity]. rewrite H3. cbn [orb].
      destruct (path_matches _ _); [right|left]; reflexivity. }
    destruct x as [id v|id|id|id cs]; try discriminate H2; cbn [tag_id chk] in *;
      (destruct He as [He|He]; rewrite He in H; [discriminate H|apply chk_det_mono in H; exact H]).
Qed.

(* ------------------------------------------------------------------ (3) the same base serves the other two checkers *)
Definition zbase (base : list N) : list (N * N) := map (fun i => (i, 0)) base.
Definition ebase (base : list N) : list entry := map (fun i => (i, 0, @None N)) base.

Lemma zbase_zero base : zero_base (zbase base).
Proof. unfold zero_base, zbase. apply Forall_forall. intros x Hx. apply in_map_iff in Hx. destruct Hx as [i [<- _]]. reflexivity. Qed.

Lemma ebase_nobase base : nobase (ebase base).
Proof. unfold nobase, ebase. apply Forall_forall. intros x Hx. apply in_map_iff in Hx. destruct Hx as [i [<- _]]. split; reflexivity. Qed.

Lemma out_pairs_tags outs : map fst (out_pairs outs) = out_tags outs.
Proof.
  induction outs as [|o outs IH]; [reflexivity|]. destruct o; cbn [out_pairs out_items out_tags flat_map app all_q] in *; try exact IH.
  change (all_q (QOk t off :: flat_map (fun o => match o with OItem t0 off0 => [QOk t0 off0] | _ => [] end) outs))
    with ((t, off) :: out_pairs outs). cbn [map fst]. f_equal. exact IH.
Qed.

(* whatever base the offset checker accepts a sequence from, it accepts it from (the ids of) any base the nesting checker
   accepts its tags from: the Ends that reach into the base name the same masters in both, at offset 0 *)
Lemma chk_off_same_base sp : forall items openO baseO base d, zero_base baseO ->
  chk_off (openO ++ baseO) items <> None -> chk sp (map fst openO ++ base) d (map fst items) <> None ->
  chk_off (openO ++ zbase base) items <> None.
Proof.
  induction items as [|[t o] items IH]; intros openO baseO base d Hz H1 H2; [discriminate|].
  cbn [map fst chk chk_off] in *. destruct t as [id v|id|id|id cs].
  - destruct (elem_chk sp _ d id) as [d'|]; [|contradiction H2; reflexivity]. eapply IH; eassumption.
  - destruct (elem_chk sp _ d id) as [d'|]; [|contradiction H2; reflexivity].
    apply (IH ((id, o) :: openO) baseO base d' Hz H1 H2).
  - destruct openO as [|[i o'] openO'].
    + cbn [app map] in *. destruct baseO as [|[i o'] baseO']; [contradiction H1; reflexivity|].
      destruct base as [|b base']; [contradiction H2; reflexivity|].
      apply Forall_cons_iff in Hz. destruct Hz as [Hz0 Hz]. cbn [snd] in Hz0. subst o'.
      destruct (b =? id) eqn:Eb; [|contradiction H2; reflexivity].
      destruct ((i =? id) && (0 =? o)) eqn:Ec; [|contradiction H1; reflexivity].
      apply andb_true_iff in Ec. destruct Ec as [_ Eo]. cbn [zbase map]. rewrite Eb, Eo. cbn [andb].
      apply (IH [] baseO' base' d Hz H1 H2).
    + cbn [app map fst] in *. destruct ((i =? id) && (o' =? o)); [|contradiction H1; reflexivity].
      destruct (i =? id); [|contradiction H2; reflexivity]. eapply IH; eassumption.
  - contradiction H1. reflexivity.
Qed.

Lemma chk_ext_same_base sp input : forall items openE baseE base cur d, nobase baseE ->
  chk_ext input (openE ++ baseE) cur items <> None ->
  chk sp (map (fun e : entry => fst (fst e)) openE ++ base) d (map fst items) <> None ->
  chk_ext input (openE ++ ebase base) cur items <> None.
Proof.
  induction items as [|[t o] items IH]; intros openE baseE base cur d Hz H1 H2; [discriminate|].
  cbn [map fst chk chk_ext] in *. destruct t as [id v|id|id|id cs].
  - destruct (elem_chk sp _ d id) as [d'|]; [|contradiction H2; reflexivity].
    destruct (hdr_at input o) as [[hl [n|]]|]; try (contradiction H1; reflexivity).
    rewrite (ends_after_base _ _ _ Hz), (ends_at_or_after_base _ _ _ Hz) in H1.
    rewrite (ends_after_base _ _ _ (ebase_nobase base)), (ends_at_or_after_base _ _ _ (ebase_nobase base)).
    destruct (_ && _); [|contradiction H1; reflexivity]. eapply IH; eassumption.
  - destruct (elem_chk sp _ d id) as [d'|]; [|contradiction H2; reflexivity].
    destruct (hdr_at input o) as [[hl esz]|]; [|contradiction H1; reflexivity]. cbv zeta in *.
    rewrite (ends_after_base _ _ _ Hz), (ends_at_or_after_base _ _ _ Hz) in H1.
    rewrite (ends_after_base _ _ _ (ebase_nobase base)), (ends_at_or_after_base _ _ _ (ebase_nobase base)).
    destruct (_ && _); [|contradiction H1; reflexivity].
    apply (IH ((id, o, match esz with SKnown n => Some (o + N.of_nat hl + n) | SUnknown => None end) :: openE) baseE base _ d' Hz H1 H2).
  - destruct openE as [|[[i o'] hi] openE'].
    + cbn [app map] in *. destruct baseE as [|[[i o'] hi] baseE']; [contradiction H1; reflexivity|].
      destruct base as [|b base']; [contradiction H2; reflexivity|].
      apply Forall_cons_iff in Hz. destruct Hz as [[Hz0 Hz1] Hz]. cbn [fst snd] in Hz0, Hz1. subst o' hi.
      destruct (b =? id) eqn:Eb; [|contradiction H2; reflexivity].
      destruct ((i =? id) && (0 =? o) && true) eqn:Ec; [|contradiction H1; reflexivity].
      apply andb_true_iff in Ec. destruct Ec as [Ec _]. apply andb_true_iff in Ec. destruct Ec as [_ Eo].
      cbn [ebase map]. rewrite Eb, Eo. cbn [andb].
      apply (IH [] baseE' base' cur d Hz H1 H2).
    + cbn [app map fst] in *. destruct ((i =? id) && (o' =? o) && _); [|contradiction H1; reflexivity].
      destruct (i =? id); [|contradiction H2; reflexivity]. eapply IH; eassumption.
  - contradiction H1. reflexivity.
Qed.

Lemma clean_prefix_is_prefix : forall outs, exists rest, outs = clean_prefix outs ++ rest.
Proof.
  induction outs as [|o outs [rest IH]]; [exists []; reflexivity|]. cbn [clean_prefix].
  destruct (clean o); [exists rest; cbn [app]; rewrite <- IH; reflexivity|exists (o :: outs); reflexivity].
Qed.

(* C03_end_offsets, rooted: with unknown ids and hierarchy errors not tolerated, a run whose first item is a root element has
   all its End offsets matched from the EMPTY base (every sequence of operations, errors and recoveries included) *)
Theorem run_end_offsets_rooted : forall c input ops,
  c_allow_id c = false -> c_allow_hier c = false -> c_buffered c = [] ->
  forall x rest, out_tags (p_run c input ops) = x :: rest -> is_se x = true -> get_path (c_sp c) (tag_id x) = [] ->
  chk_off [] (out_pairs (p_run c input ops)) <> None.
Proof.
  intros c input ops Hid Hh Hbuf x rest E Hse Hp.
  destruct (run_end_offsets c input ops Hbuf) as [baseO [Hz HO]].
  pose proof (strict_items_well_nested_rooted c input ops Hid Hh Hbuf x rest E Hse Hp) as HN.
  apply (chk_off_same_base (c_sp c) _ [] baseO [] false Hz HO). rewrite out_pairs_tags. exact HN.
Qed.

(* C06_run_extents, rooted: ... and its byte ranges are accepted from the EMPTY base, up to the first error or try_recover *)
Theorem run_extents_rooted : forall c input ops,
  c_allow_id c = false -> c_allow_hier c = false -> c_allow_over c = false -> c_buffered c = [] ->
  forall x rest, out_tags (p_run c input ops) = x :: rest -> is_se x = true -> get_path (c_sp c) (tag_id x) = [] ->
  chk_ext input [] 0 (out_pairs (clean_prefix (p_run c input ops))) <> None.
Proof.
  intros c input ops Hid Hh Hov Hbuf x rest E Hse Hp.
  destruct (run_extents c input ops Hov Hbuf) as [baseE [Hz HE]].
  pose proof (strict_items_well_nested_rooted c input ops Hid Hh Hbuf x rest E Hse Hp) as HN.
  apply (chk_ext_same_base (c_sp c) input _ [] baseE [] 0 false Hz HE). rewrite out_pairs_tags.
  destruct (clean_prefix_is_prefix (p_run c input ops)) as [r Hr]. rewrite Hr, out_tags_app in HN at 1.
  eapply chk_prefix, HN.
Qed.

(* the base of a tag sequence, pinned: empty while no placeholder-free element has come; else the chain named by the declared
   path of the first one, everything before it being accepted from the empty base and closed again *)
Definition pinned_base (sp : spec) (tags : list tag) (base : list N) : Prop :=
  (base = [] /\ exists o, chk sp [] false tags = Some (o, false)) \/
  (exists pre o x rest, tags = pre ++ map TEnd o ++ x :: rest /\ chk sp [] false pre = Some (o, false) /\
     is_se x = true /\ all_ids (get_path sp (tag_id x)) = true /\ base = base_of sp (tag_id x)).

(* all three checkers, one pinned base, for the items yielded before the first error or try_recover call *)
Theorem clean_prefix_pinned_all : forall c input ops,
  c_allow_id c = false -> c_allow_hier c = false -> c_buffered c = [] ->
  let cp := clean_prefix (p_run c input ops) in
  exists base, pinned_base (c_sp c) (out_tags cp) base /\
    chk (c_sp c) base false (out_tags cp) <> None /\
    chk_off (zbase base) (out_pairs cp) <> None /\
    (c_allow_over c = false -> chk_ext input (ebase base) 0 (out_pairs cp) <> None).
Proof.
  intros c input ops Hid Hh Hbuf. cbn zeta.
  destruct (clean_prefix_is_prefix (p_run c input ops)) as [r Hr].
  assert (Hex : exists base, pinned_base (c_sp c) (out_tags (clean_prefix (p_run c input ops))) base /\
            chk (c_sp c) base false (out_tags (clean_prefix (p_run c input ops))) <> None).
  { destruct (clean_items_pinned c input ops Hid Hh Hbuf) as [[o HU]|[pre [o [x [rest [E [H1 [H2 [H3 H4]]]]]]]]].
    - exists []. split; [left; split; [reflexivity|exists o; exact HU]|rewrite HU; discriminate].
    - exists (base_of (c_sp c) (tag_id x)). split; [|exact H4]. right. exists pre, o, x, rest.
      split; [exact E|]. split; [exact H1|]. split; [exact H2|]. split; [exact H3|reflexivity]. }
  destruct Hex as [base [HP HN]]. exists base. split; [exact HP|]. split; [exact HN|]. split.
  - destruct (run_end_offsets c input ops Hbuf) as [baseO [Hz HO]].
    rewrite Hr, out_pairs_app in HO. apply chk_off_prefix in HO.
    apply (chk_off_same_base (c_sp c) _ [] baseO base false Hz HO). rewrite out_pairs_tags. exact HN.
  - intros Hov. destruct (run_extents c input ops Hov Hbuf) as [baseE [Hz HE]].
    apply (chk_ext_same_base (c_sp c) input _ [] baseE base 0 false Hz HE). rewrite out_pairs_tags. exact HN.
Qed.

Corollary clean_end_offsets_pinned : forall c input ops,
  c_allow_id c = false -> c_allow_hier c = false -> c_buffered c = [] ->
  let cp := clean_prefix (p_run c input ops) in
  exists base, pinned_base (c_sp c) (out_tags cp) base /\ chk_off (zbase base) (out_pairs cp) <> None.
Proof.
  intros c input ops Hid Hh Hbuf. destruct (clean_prefix_pinned_all c input ops Hid Hh Hbuf) as [base [H1 [_ [H3 _]]]].
  exists base. split; assumption.
Qed.

Corollary clean_extents_pinned : forall c input ops,
  c_allow_id c = false -> c_allow_hier c = false -> c_allow_over c = false -> c_buffered c = [] ->
  let cp := clean_prefix (p_run c input ops) in
  exists base, pinned_base (c_sp c) (out_tags cp) base /\ chk_ext input (ebase base) 0 (out_pairs cp) <> None.
Proof.
  intros c input ops Hid Hh Hov Hbuf. destruct (clean_prefix_pinned_all c input ops Hid Hh Hbuf) as [base [H1 [_ [_ H4]]]].
  exists base. split; [exact H1|exact (H4 Hov)].
Qed.

(* ------------------------------------------------------------------ B8: a clean drain tiles the WHOLE input *)
(* next() answers None only when read_next queued nothing, i.e. (no panic site, budget left) at the end of the input *)
Lemma p_read_next_quiet_bytes c : c_buffered c = [] -> forall fuel st,
  b_queue (p_read_next fuel c st) = [] -> b_bad (p_read_next fuel c st) = None -> b_bytes (p_read_next fuel c st) = [].
Proof.
  intros Hbuf. destruct fuel as [|f]; intros st.
  - cbn [p_read_next pset_bad b_bad]. intros _ Hb. destruct (b_bad st); discriminate.
  - rewrite p_read_next_unfold. cbn zeta. set (st1 := ppop_frames st _).
    unfold p_read_tag_checked. destruct (b_bytes st1) eqn:Eb.
    + intros _ _. destruct (c_emit_eof c); [|exact Eb]. unfold ppop_frames, ppush_q. cbn [pset_queue pset_stack b_bytes]. exact Eb.
    + destruct (p_read_tag c st1) as [st2 [p|e|]].
      * destruct (p_tag p) as [id v|id|id|id cs]; cbn [tag_id]; try rewrite Hbuf; cbn [mem_id existsb];
          unfold ppush_q; cbn [pset_queue b_queue]; intros Hq; apply app_eq_nil in Hq; destruct Hq as [_ Hq]; discriminate.
      * unfold ppush_q; cbn [pset_queue b_queue]; intros Hq; apply app_eq_nil in Hq; destruct Hq as [_ Hq]; discriminate.
      * cbn [pset_bad b_bad]. intros _ Hb. destruct (b_bad st2); discriminate.
Qed.

Lemma p_next_none_bytes c st : c_buffered c = [] ->
  snd (p_next c st) = NNone -> b_bad (fst (p_next c st)) = None ->
  b_queue (fst (p_next c st)) = [] /\ b_bytes (fst (p_next c st)) = [].
Proof.
  intros Hbuf. unfold p_next. destruct (b_queue st) as [|q0 ql] eqn:Eq.
  - destruct (b_queue (p_read_next (b_fuel st) c st)) as [|[t o|e] q] eqn:E1; cbn [fst snd]; try discriminate.
    intros _ Hb. split; [exact E1|]. apply p_read_next_quiet_bytes; assumption.
  - rewrite Eq. destruct q0 as [t o|e]; cbn [snd]; discriminate.
Qed.

Lemma p_run_all_none_bytes c : c_buffered c = [] -> forall limit st outs,
  snd (p_run_all limit c st) = outs ++ [ONone] ->
  b_bad (fst (p_run_all limit c st)) = None /\ b_queue (fst (p_run_all limit c st)) = [] /\
  b_bytes (fst (p_run_all limit c st)) = [] /\ forallb clean (snd (p_run_all limit c st)) = true.
Proof.
  intros Hbuf. induction limit as [|l IH]; intros st outs; cbn [p_run_all].
  - cbn [snd]. intros H. apply single_tail in H. destruct H as [_ H]. discriminate.
  - pose proof (p_next_none_bytes c st Hbuf) as Hn. destruct (p_next c st) as [st1 r]. cbn [fst snd] in Hn.
    destruct (b_bad st1) as [b|] eqn:Eb.
    { cbn [snd]. intros H. apply single_tail in H. destruct H as [_ H]. destruct b; discriminate. }
    destruct r as [t o|e|].
    + specialize (IH st1). destruct (p_run_all l c st1) as [st2 outs2]. cbn [fst snd] in *.
      destruct outs as [|x outs0]; cbn [app]; intros H; [discriminate|].
      injection H as _ H. cbn [forallb clean andb]. apply (IH outs0), H.
    + cbn [snd]. intros H. apply single_tail in H. destruct H as [_ H]. discriminate.
    + cbn [fst snd]. intros _. destruct (Hn eq_refl eq_refl) as [A B]. split; [exact Eb|]. split; [exact A|]. split; [exact B|reflexivity].
Qed.

(* C03: when a drain (nothing buffered, any tolerance settings) ends with None - no error, no cut -, its Start and element items
   tile the WHOLE input: the tiling ends at offset [length input] with no byte left over *)
Theorem clean_drain_tiles_whole_input : forall c input, c_buffered c = [] ->
  forall outs, p_run c input [RAll] = outs ++ [ONone] ->
  Tiles (c_sp c) 0 input (non_end_items (p_run c input [RAll])) (N.of_nat (length input)) [].
Proof.
  intros c input Hbuf outs. rewrite p_run_RAll. set (limit := (4 * length input + 64)%nat). intros Hrun.
  destruct (p_run_all_none_bytes c Hbuf limit (p_init input) outs Hrun) as [Hb [Hq [Hy Hcl]]].
  destruct (p_run_all_T c input Hbuf limit [] (p_init input) (TI_init _ _) eq_refl) as [_ HT].
  destruct (HT Hcl Hb) as [off [rest [Ht Hc]]]. cbn [app] in Ht. rewrite Hq in Ht, Hc. cbn [ne_q flat_map] in Ht. rewrite app_nil_r in Ht.
  destruct (Hc Hb (Forall_nil _)) as [_ Hr]. rewrite Hy in Hr. subst rest.
  destruct (Tiles_explicit _ _ _ _ _ _ Ht) as [segs [E1 [_ [E3 _]]]]. rewrite app_nil_r in E1.
  replace (N.of_nat (length input)) with off; [exact Ht|]. rewrite E3, E1. lia.
Qed.

(* ------------------------------------------------------------------ (4) every run, errors and recoveries included *)
(* Past the first error the base need not be the chain of an element that is ever emitted
   (C06_ex_pinned_after_error_counterexample).  What holds of EVERY run: the base is empty, or it is the chain of masters named
   by the placeholder-free declared path of some id - the id at whose header the reader determined its position -, each of
   them declared a master, and the items the reader had produced up to that point are accepted from the empty base. *)
Definition Based (sp : spec) (base : list N) (items : list tag) : Prop :=
  base = [] \/
  exists id pre post, all_ids (get_path sp id) = true /\ base = base_of sp id /\
    Forall (fun i => get_type sp i = Some DMaster) base /\ items = pre ++ post /\ Und sp pre.

Lemma Based_app sp base a b : Based sp base a -> Based sp base (a ++ b).
Proof.
  intros [H|[id [pre [post [H1 [H2 [H3 [H4 H5]]]]]]]]; [left; exact H|right].
  exists id, pre, (post ++ b). split; [exact H1|]. split; [exact H2|]. split; [exact H3|]. split; [rewrite H4, app_assoc; reflexivity|exact H5].
Qed.

Lemma Based_prefix sp base a b : Based sp base (a ++ b) -> Based sp base a.
Proof.
  intros [H|[id [pre [post [H1 [H2 [H3 [H4 H5]]]]]]]]; [left; exact H|right].
  destruct (Nat.le_gt_cases (length a) (length pre)) as [Hle|Hgt].
  - exists id, a, []. split; [exact H1|]. split; [exact H2|]. split; [exact H3|]. split; [symmetry; apply app_nil_r|].
    apply (U_prefix sp a (skipn (length a) pre)).
    assert (Ha : a = firstn (length a) pre).
    { apply (f_equal (firstn (length a))) in H4. rewrite firstn_app, firstn_all, Nat.sub_diag in H4. cbn [firstn] in H4.
      rewrite app_nil_r in H4. rewrite firstn_app in H4. replace (length a - length pre)%nat with O in H4 by lia.
      cbn [firstn] in H4. rewrite app_nil_r in H4. exact H4. }
    rewrite Ha at 1. rewrite firstn_skipn. exact H5.
  - exists id, pre, (firstn (length a - length pre) post). split; [exact H1|]. split; [exact H2|]. split; [exact H3|]. split; [|exact H5].
    apply (f_equal (firstn (length a))) in H4. rewrite firstn_app, firstn_all, Nat.sub_diag in H4. cbn [firstn] in H4.
    rewrite app_nil_r in H4. rewrite firstn_app in H4. rewrite (firstn_all2 pre) in H4 by lia. exact H4.
Qed.

Lemma implied_stack_masters sp p stk : implied_stack sp p = Some stk -> all_ids p = true ->
  Forall (fun i => get_type sp i = Some DMaster) (rev (path_ids p)).
Proof.
  unfold implied_stack. destruct (forallb _ p) eqn:E; [|discriminate]. intros _ Ha. apply Forall_rev.
  induction p as [|x p IH]; [constructor|]. destruct x as [i|mn mx]; [|discriminate Ha].
  cbn [forallb] in E. apply andb_true_iff in E. destruct E as [E1 E2]. cbn [all_ids forallb] in Ha. fold (all_ids p) in Ha.
  cbn [path_ids flat_map app]. constructor; [|apply IH; assumption].
  unfold is_master_ty in E1. destruct (get_type sp i) as [[]|]; try discriminate E1. reflexivity.
Qed.

Definition inv2 (sp : spec) (items : list tag) (ids : list N) (det : bool) : Prop :=
  exists base d, chk sp base false items = Some (ids, d) /\ (d = true -> det = true) /\ (det = false -> base = []) /\
                 Based sp base items.

Lemma inv_ends2 sp items a b det : inv2 sp items (a ++ b) det -> inv2 sp (items ++ map TEnd a) b det.
Proof.
  intros [base [d [H [H1 [H2 HB]]]]]. exists base, d. split; [|split; [exact H1|split; [exact H2|apply Based_app, HB]]].
  rewrite chk_app, H. apply chk_ends.
Qed.

Lemma inv_seed2 sp items ids stk id : all_ids (get_path sp id) = true -> implied_stack sp (get_path sp id) = Some stk ->
  inv2 sp items ids false -> inv2 sp items (ids ++ map f_id stk) true.
Proof.
  intros Ha Hi [base [d [H [H1 [H2 _]]]]]. rewrite (H2 eq_refl) in H.
  destruct d; [discriminate (H1 eq_refl)|].
  exists (map f_id stk), false. split; [|split; [discriminate|split; [discriminate|]]].
  - apply (chk_rebase sp items [] ids H (map f_id stk)).
  - right. exists id, items, []. split; [exact Ha|]. split; [apply (implied_stack_ids sp _ _ Hi)|].
    split; [rewrite (implied_stack_ids sp _ _ Hi); apply (implied_stack_masters sp _ _ Hi Ha)|].
    split; [symmetry; apply app_nil_r|exists ids; exact H].
Qed.

Lemma inv_elem_chk2 sp items ids det id :
  inv2 sp items ids det -> get_type sp id <> None ->
  (det = true -> path_matches (get_path sp id) (rev ids) = true) ->
  (det = false -> all_ids (get_path sp id) = false) ->
  exists base d d', chk sp base false items = Some (ids, d) /\ elem_chk sp ids d id = Some d' /\
                    (d' = true -> det = true) /\ (det = false -> base = []) /\ Based sp base items.
Proof.
  intros [base [d [H [H1 [H2 HB]]]]] Hty Hpm Hai. exists base, d.
  unfold elem_chk. destruct (get_type sp id); [|contradiction].
  destruct det.
  - rewrite (Hpm eq_refl). destruct (d || all_ids _); eexists; (split; [exact H|split; [reflexivity|split; [reflexivity|split; [exact H2|exact HB]]]]).
  - rewrite (Hai eq_refl). destruct d; [discriminate (H1 eq_refl)|]. cbn [orb].
    exists false. split; [exact H|split; [reflexivity|split; [discriminate|split; [exact H2|exact HB]]]].
Qed.

Lemma inv_start2 sp items ids det id :
  inv2 sp items ids det -> get_type sp id <> None ->
  (det = true -> path_matches (get_path sp id) (rev ids) = true) ->
  (det = false -> all_ids (get_path sp id) = false) ->
  inv2 sp (items ++ [TStart id]) (id :: ids) det.
Proof.
  intros HI Hty Hpm Hai. destruct (inv_elem_chk2 _ _ _ _ _ HI Hty Hpm Hai) as [base [d [d' [H [He [H1 [H2 HB]]]]]]].
  exists base, d'. split; [|split; [exact H1|split; [exact H2|apply Based_app, HB]]]. rewrite chk_app, H. cbn [chk]. rewrite He. reflexivity.
Qed.

Lemma inv_elem2 sp items ids det id v :
  inv2 sp items ids det -> get_type sp id <> None ->
  (det = true -> path_matches (get_path sp id) (rev ids) = true) ->
  (det = false -> all_ids (get_path sp id) = false) ->
  inv2 sp (items ++ [TElem id v]) ids det.
Proof.
  intros HI Hty Hpm Hai. destruct (inv_elem_chk2 _ _ _ _ _ HI Hty Hpm Hai) as [base [d [d' [H [He [H1 [H2 HB]]]]]]].
  exists base, d'. split; [|split; [exact H1|split; [exact H2|apply Based_app, HB]]]. rewrite chk_app, H. cbn [chk]. rewrite He. reflexivity.
Qed.

(* ------------------------------------------------------------------ the invariant on reader states *)
(* [em]: the tags handed out so far *)
Definition JS2 (sp : spec) (em : list tag) (st : pst) : Prop :=
  inv2 sp (em ++ qtags (b_queue st)) (map f_id (b_stack st)) (b_det st).

Lemma JS_same2 sp em st st' :
  b_stack st' = b_stack st -> b_queue st' = b_queue st -> b_det st' = b_det st -> JS2 sp em st -> JS2 sp em st'.
Proof. unfold JS2. intros -> -> ->. auto. Qed.

Lemma JS_pop2 sp em st k : JS2 sp em st -> JS2 sp em (ppop_frames st k).
Proof.
  unfold JS2, ppop_frames, ppush_q. cbn [pset_queue pset_stack b_queue b_stack b_det]. intros H.
  rewrite qtags_app, qtags_ends, app_assoc. apply inv_ends2. rewrite <- map_app, firstn_skipn. exact H.
Qed.

Lemma JS_push_err2 sp em st e : JS2 sp em st -> JS2 sp em (ppush_q st [QErr e]).
Proof.
  unfold JS2, ppush_q. cbn [pset_queue b_queue b_stack b_det]. intros H.
  rewrite qtags_app. cbn [qtags flat_map]. rewrite !app_nil_r. exact H.
Qed.

Lemma JS_push_elem2 sp em st id v off :
  JS2 sp em st -> get_type sp id <> None ->
  (b_det st = true -> path_matches (get_path sp id) (rev (map f_id (b_stack st))) = true) ->
  (b_det st = false -> all_ids (get_path sp id) = false) ->
  JS2 sp em (ppush_q st [QOk (TElem id v) off]).
Proof.
  unfold JS2, ppush_q. cbn [pset_queue b_queue b_stack b_det]. intros H Hty Hpm Hai.
  rewrite qtags_app. cbn [qtags flat_map]. rewrite app_nil_r, app_assoc. apply inv_elem2; assumption.
Qed.

Lemma JS_push_start2 sp em st f off :
  JS2 sp em st -> get_type sp (f_id f) <> None ->
  (b_det st = true -> path_matches (get_path sp (f_id f)) (rev (map f_id (b_stack st))) = true) ->
  (b_det st = false -> all_ids (get_path sp (f_id f)) = false) ->
  JS2 sp em (ppush_q (pset_stack st (f :: b_stack st) (b_det st)) [QOk (TStart (f_id f)) off]).
Proof.
  unfold JS2, ppush_q. cbn [pset_queue pset_stack b_queue b_stack b_det map]. intros H Hty Hpm Hai.
  rewrite qtags_app. cbn [qtags flat_map]. rewrite app_nil_r, app_assoc. apply inv_start2; assumption.
Qed.

(* what a successful header in strict mode says about its id, in terms of the state it leaves behind *)
(* ------------------------------------------------------------------ header *)
Lemma p_hier_step_J2 c em st id ty st1 r : p_hier_step c st id ty = (st1, r) -> JS2 (c_sp c) em st ->
  JS2 (c_sp c) em st1 /\
  (r = None -> b_bad st1 = None -> c_allow_hier c = false -> ty <> None ->
     (b_det st1 = true -> validate_tag_path (c_sp c) id (stack_view (b_stack st1)) = true) /\
     (b_det st1 = false -> all_ids (get_path (c_sp c) id) = false)).
Proof.
  unfold p_hier_step. intros H HJ. destruct (c_allow_hier c); cbn [negb andb] in H.
  { inversion H; subst. split; [exact HJ|]. intros _ _ Hq. discriminate Hq. }
  destruct ty as [ty|]; cbn [andb] in H.
  2:{ inversion H; subst. split; [exact HJ|]. intros _ _ _ Hq. contradiction. }
  destruct (b_det st) eqn:Ed.
  - destruct (validate_tag_path (c_sp c) id (stack_view (b_stack st))) eqn:Ev; rewrite Ed in H; cbn [andb negb] in H; inversion H; subst.
    + split; [exact HJ|]. intros _ _ _ _. split; [intros _; exact Ev|rewrite Ed; discriminate].
    + split; [exact HJ|]. discriminate.
  - destruct (all_ids (get_path (c_sp c) id)) eqn:Ea.
    + destruct (implied_stack (c_sp c) (get_path (c_sp c) id)) as [stk|] eqn:Ei.
      * assert (HJ1 : JS2 (c_sp c) em (pset_stack st (b_stack st ++ stk) true)).
        { unfold JS2 in *. cbn [pset_stack b_queue b_stack b_det]. rewrite map_app. apply (inv_seed2 _ _ _ _ id Ea Ei). rewrite <- Ed. exact HJ. }
        cbn [pset_stack b_det b_stack] in H.
        destruct (validate_tag_path (c_sp c) id (stack_view (b_stack st ++ stk))) eqn:Ev; cbn [andb negb] in H; inversion H; subst.
        -- split; [exact HJ1|]. intros _ _ _ _. cbn [pset_stack b_det b_stack]. split; [intros _; exact Ev|discriminate].
        -- split; [exact HJ1|]. discriminate.
      * inversion H; subst. split; [eapply JS_same2; [| | |exact HJ]; reflexivity|].
        intros _ Hb. cbn [pset_bad b_bad] in Hb. destruct (b_bad st); discriminate.
    + rewrite Ed in H. cbn [andb] in H. inversion H; subst. split; [exact HJ|].
      intros _ _ _ _. split; [rewrite Ed; discriminate|reflexivity].
Qed.

Lemma p_header_J2 c em st st1 r : c_allow_id c = false -> c_allow_hier c = false ->
  p_header c st = (st1, r) -> JS2 (c_sp c) em st ->
  JS2 (c_sp c) em st1 /\ (forall id ty esz hl, r = Ok (id, ty, esz, hl) -> hfacts (c_sp c) st1 id).
Proof.
  intros Hid Hh H HJ. rewrite p_header_unfold in H.
  assert (Exit : forall r0, (forall x, r0 <> Ok x) -> (st, r0) = (st1, r) ->
            JS2 (c_sp c) em st1 /\ (forall id ty esz hl, r = Ok (id, ty, esz, hl) -> hfacts (c_sp c) st1 id)).
  { intros r0 Hr0 Hq. inversion Hq; subst. split; [exact HJ|]. intros id ty esz hl Hr. exfalso. eapply Hr0, Hr. }
  destruct (p_tag_id st) as [[id0 idl]|e0|]; try ((refine (Exit _ _ H); intros ?; discriminate)).
  unfold p_hdr_tail in H. destruct (read_vint _) as [[[size sl]|]|e1|]; try ((refine (Exit _ _ H); intros ?; discriminate)).
  destruct (is_numeric _ && _); [(refine (Exit _ _ H); intros ?; discriminate)|]. rewrite Hid in H. cbn [negb andb] in H.
  destruct (get_type (c_sp c) id0) as [ty0|] eqn:Ety; [|(refine (Exit _ _ H); intros ?; discriminate)].
  destruct (p_hier_step c st id0 (Some ty0)) as [st2 r2] eqn:Eh.
  destruct (p_hier_step_J2 _ _ _ _ _ _ _ Eh HJ) as [HJ2 Hf].
  assert (Exit2 : forall r0, (forall x, r0 <> Ok x) -> (st2, r0) = (st1, r) ->
            JS2 (c_sp c) em st1 /\ (forall id ty esz hl, r = Ok (id, ty, esz, hl) -> hfacts (c_sp c) st1 id)).
  { intros r0 Hr0 Hq. inversion Hq; subst. split; [exact HJ2|]. intros id ty esz hl Hr. exfalso. eapply Hr0, Hr. }
  destruct r2 as [e2|]; [(refine (Exit2 _ _ H); intros ?; discriminate)|].
  destruct (b_bad st2) eqn:Eb; [(refine (Exit2 _ _ H); intros ?; discriminate)|].
  assert (Hf2 : hfacts (c_sp c) st2 id0).
  { destruct (Hf eq_refl eq_refl Hh ltac:(discriminate)) as [A B]. split; [rewrite Ety; discriminate|split; assumption]. }
  destruct (_ && _); [(refine (Exit2 _ _ H); intros ?; discriminate)|].
  destruct (c_max c); destruct (ebml_size size sl); try destruct (_ <? _); try ((refine (Exit2 _ _ H); intros ?; discriminate));
    inversion H; subst; (split; [exact HJ2|]); intros id ty esz hl Hr; inversion Hr; subst; exact Hf2.
Qed.

(* ------------------------------------------------------------------ read_tag *)
Lemma p_read_tag_J2 c em st st2 r : c_allow_id c = false -> c_allow_hier c = false ->
  p_read_tag c st = (st2, r) -> JS2 (c_sp c) em st ->
  JS2 (c_sp c) em st2 /\ (forall p, r = Ok p -> hfacts (c_sp c) st2 (tag_id (p_tag p)) /\ is_se (p_tag p) = true).
Proof.
  intros Hid Hh H HJ. rewrite p_read_tag_unfold in H.
  destruct (p_header c st) as [st1 r1] eqn:Eh. destruct (p_header_J2 _ _ _ _ _ Hid Hh Eh HJ) as [HJ1 Hf].
  destruct r1 as [[[[id ty] esz] hl]|e|].
  - destruct (p_tag_tail_facts _ _ _ _ _ _ _ _ _ H) as [A [B [C D]]].
    split; [eapply JS_same2; eassumption|]. intros p Hp. destruct (D p Hp) as [D1 D2]. split; [|exact D2].
    rewrite D1. eapply hfacts_same; [exact A|exact C|]. eapply Hf. reflexivity.
  - inversion H; subst. split; [exact HJ1|discriminate].
  - inversion H; subst. split; [exact HJ1|discriminate].
Qed.

(* ------------------------------------------------------------------ read_next *)
Lemma p_read_next_J2 c em : c_allow_id c = false -> c_allow_hier c = false -> c_buffered c = [] ->
  forall fuel st, JS2 (c_sp c) em st -> JS2 (c_sp c) em (p_read_next fuel c st).
Proof.
  intros Hid Hh Hbuf. destruct fuel as [|f]; intros st HJ.
  - cbn [p_read_next]. eapply JS_same2; [| | |exact HJ]; reflexivity.
  - rewrite p_read_next_unfold. cbn zeta.
    set (st1 := ppop_frames st _). assert (H1 : JS2 (c_sp c) em st1) by (apply JS_pop2, HJ).
    unfold p_read_tag_checked. destruct (b_bytes st1) eqn:Eb.
    + destruct (c_emit_eof c); [apply JS_pop2, H1|exact H1].
    + destruct (p_read_tag c st1) as [st2 r2] eqn:Er.
      destruct (p_read_tag_J2 _ _ _ _ _ Hid Hh Er H1) as [H2 Hf].
      destruct r2 as [p|e|].
      * destruct (Hf p eq_refl) as [Hfa Hse].
        pose proof (hfacts_pop _ _ _ Hfa) as Hpop. cbn zeta in Hpop.
        set (st3 := ppop_frames st2 _) in *. assert (H3 : JS2 (c_sp c) em st3) by (apply JS_pop2, H2).
        destruct Hpop as [Hpm Hai]. destruct Hfa as [Hty _].
        destruct (p_tag p) as [id v|id|id|id cs] eqn:Ep; try discriminate Hse; cbn [tag_id] in *.
        -- apply JS_push_elem2; assumption.
        -- rewrite Hbuf. cbn [mem_id existsb].
           apply (JS_push_start2 (c_sp c) em st3 {| f_id := id; f_size := p_size p; f_start := p_start p; f_data := p_data p |} (p_start p));
             cbn [f_id]; assumption.
      * apply JS_push_err2, H2.
      * eapply JS_same2; [| | |exact H2]; reflexivity.
Qed.

(* ------------------------------------------------------------------ next / try_recover *)
Lemma p_next_J2 c em st : c_allow_id c = false -> c_allow_hier c = false -> c_buffered c = [] ->
  JS2 (c_sp c) em st -> JS2 (c_sp c) (em ++ nres_tags (snd (p_next c st))) (fst (p_next c st)).
Proof.
  intros Hid Hh Hbuf HJ. unfold p_next.
  assert (H1 : JS2 (c_sp c) em (match b_queue st with [] => p_read_next (b_fuel st) c st | _ :: _ => st end)).
  { destruct (b_queue st); [apply p_read_next_J2; assumption|exact HJ]. }
  set (st1 := match b_queue st with [] => _ | _ => _ end) in *. unfold JS2 in H1.
  destruct (b_queue st1) as [|[t o|e] q] eqn:Eq; cbn [fst snd nres_tags].
  - rewrite app_nil_r. unfold JS2. rewrite Eq. exact H1.
  - unfold JS2. cbn [pset_last pset_queue b_queue b_stack b_det]. cbn [qtags flat_map] in H1.
    rewrite <- app_assoc. exact H1.
  - rewrite app_nil_r. unfold JS2. cbn [pset_queue b_queue b_stack b_det]. cbn [qtags flat_map app] in H1. exact H1.
Qed.

Lemma p_recover_loop_J2 c em : c_allow_id c = false -> c_allow_hier c = false ->
  forall fuel st, JS2 (c_sp c) em st -> JS2 (c_sp c) em (fst (p_recover_loop fuel c st)).
Proof.
  intros Hid Hh. induction fuel as [|f IH]; intros st HJ; cbn [p_recover_loop].
  - cbn [fst]. eapply JS_same2; [| | |exact HJ]; reflexivity.
  - destruct (b_bytes st) eqn:Eb; [exact HJ|].
    assert (HJ0 : JS2 (c_sp c) em (pconsume st 1)) by (eapply JS_same2; [| | |exact HJ]; reflexivity).
    destruct (p_header c (pconsume st 1)) as [st2 r] eqn:Eh.
    destruct (p_header_J2 _ _ _ _ _ Hid Hh Eh HJ0) as [HJ2 _].
    destruct r as [h|e|]; cbn [fst].
    + exact HJ2.
    + apply IH, HJ2.
    + eapply JS_same2; [| | |exact HJ2]; reflexivity.
Qed.

Lemma p_try_recover_J2 c em st : c_allow_id c = false -> c_allow_hier c = false ->
  JS2 (c_sp c) em st -> JS2 (c_sp c) em (fst (p_try_recover c st)).
Proof.
  intros Hid Hh HJ. unfold p_try_recover. pose proof (p_recover_loop_J2 c em Hid Hh (b_fuel st) st HJ) as H.
  destruct (p_recover_loop (b_fuel st) c st) as [st1 [e|]]; cbn [fst] in *; [exact H|].
  unfold JS2 in *. cbn [pset_stack b_queue b_stack b_det]. rewrite grow_frames_ids. exact H.
Qed.

(* ------------------------------------------------------------------ runs *)
Definition accepted2 (sp : spec) (items : list tag) : Prop := exists base, chk sp base false items <> None /\ Based sp base items.

Lemma accepted_prefix2 sp a b : accepted2 sp (a ++ b) -> accepted2 sp a.
Proof. intros [base [H HB]]. exists base. split; [eapply chk_prefix, H|eapply Based_prefix, HB]. Qed.

Lemma JS_accepted2 sp em st : JS2 sp em st -> accepted2 sp em.
Proof.
  intros [base [d [H [_ [_ HB]]]]]. exists base. split; [eapply chk_prefix; rewrite H; discriminate|eapply Based_prefix, HB].
Qed.

Section Runs2.
Variable c : cfg.
Hypothesis Hid : c_allow_id c = false.
Hypothesis Hh : c_allow_hier c = false.
Hypothesis Hbuf : c_buffered c = [].

(* a run that is cut short by a panic site or the recursion budget may have taken one more item off the queue than it
   reports: what it reports is still accepted2 *)
Lemma p_run_all_J2 : forall limit em st, JS2 (c_sp c) em st ->
  accepted2 (c_sp c) (em ++ out_tags (snd (p_run_all limit c st))) /\
  (b_bad (fst (p_run_all limit c st)) = None ->
   JS2 (c_sp c) (em ++ out_tags (snd (p_run_all limit c st))) (fst (p_run_all limit c st))).
Proof.
  induction limit as [|l IH]; intros em st HJ; cbn [p_run_all].
  - cbn [fst snd out_tags flat_map]. rewrite app_nil_r. split; [eapply JS_accepted2, HJ|intros _; exact HJ].
  - pose proof (p_next_J2 c em st Hid Hh Hbuf HJ) as H1. destruct (p_next c st) as [st1 r]. cbn [fst snd] in H1.
    destruct (b_bad st1) as [b|] eqn:Eb.
    { cbn [fst snd]. replace (out_tags [bad_out b]) with (@nil tag) by (destruct b; reflexivity).
      rewrite app_nil_r. split; [|rewrite Eb; discriminate].
      eapply accepted_prefix2, JS_accepted2, H1. }
    destruct r as [t o|e|]; cbn [nres_tags] in H1.
    + specialize (IH _ _ H1). destruct (p_run_all l c st1) as [st2 outs]. cbn [fst snd] in *.
      cbn [out_tags flat_map] in *. rewrite <- app_assoc in IH. exact IH.
    + cbn [fst snd out_tags flat_map app]. split; [eapply JS_accepted2, H1|intros _; exact H1].
    + cbn [fst snd out_tags flat_map app]. split; [eapply JS_accepted2, H1|intros _; exact H1].
Qed.

Lemma p_run_ops_J2 limit : forall ops em st, JS2 (c_sp c) em st ->
  accepted2 (c_sp c) (em ++ out_tags (snd (p_run_ops c limit st ops))).
Proof.
  induction ops as [|op ops IH]; intros em st HJ; cbn [p_run_ops].
  - cbn [snd out_tags flat_map]. rewrite app_nil_r. eapply JS_accepted2, HJ.
  - destruct op.
    + pose proof (p_next_J2 c em st Hid Hh Hbuf HJ) as H1. destruct (p_next c st) as [st1 r]. cbn [fst snd] in H1.
      destruct (b_bad st1) as [b|].
      { cbn [snd]. replace (out_tags [bad_out b]) with (@nil tag) by (destruct b; reflexivity).
        rewrite app_nil_r. eapply accepted_prefix2, JS_accepted2, H1. }
      specialize (IH _ _ H1). destruct (p_run_ops c limit st1 ops) as [st2 outs]. cbn [snd] in *.
      destruct r as [t o|e|]; cbn [nres_tags out_tags flat_map app] in *.
      * rewrite <- app_assoc in IH. exact IH.
      * rewrite app_nil_r in IH. exact IH.
      * rewrite app_nil_r in IH. exact IH.
    + pose proof (p_try_recover_J2 c em st Hid Hh HJ) as H1. destruct (p_try_recover c st) as [st1 r]. cbn [fst] in H1.
      destruct (b_bad st1) as [b|].
      { cbn [snd]. replace (out_tags [bad_out b]) with (@nil tag) by (destruct b; reflexivity).
        rewrite app_nil_r. eapply JS_accepted2, H1. }
      specialize (IH _ _ H1). destruct (p_run_ops c limit st1 ops) as [st2 outs]. cbn [snd] in *.
      destruct r as [e|]; cbn [out_tags flat_map app] in *; exact IH.
    + destruct (p_run_all_J2 limit em st HJ) as [Ha Hj]. destruct (p_run_all limit c st) as [st1 outs1]. cbn [fst snd] in *.
      destruct (b_bad st1); [exact Ha|].
      specialize (IH _ _ (Hj eq_refl)). destruct (p_run_ops c limit st1 ops) as [st2 outs]. cbn [snd] in *.
      rewrite out_tags_app, app_assoc. exact IH.
Qed.

End Runs2.

Lemma JS_init2 sp input : JS2 sp [] (p_init input).
Proof. exists [], false. cbn. split; [reflexivity|split; [discriminate|split; [reflexivity|left; reflexivity]]]. Qed.

(* C06_strict_items_well_nested with the base constrained, for EVERY run (items after errors and recoveries included) *)
Theorem strict_items_based : forall c input ops,
  c_allow_id c = false -> c_allow_hier c = false -> c_buffered c = [] ->
  exists base, chk (c_sp c) base false (out_tags (p_run c input ops)) <> None /\ Based (c_sp c) base (out_tags (p_run c input ops)).
Proof.
  intros c input ops Hid Hh Hbuf. unfold p_run.
  apply (p_run_ops_J2 c Hid Hh Hbuf _ ops [] (p_init input)). apply JS_init2.
Qed.

(* ... and the End offsets of every run are matched from that same base (each id at offset 0) *)
Corollary run_end_offsets_based : forall c input ops,
  c_allow_id c = false -> c_allow_hier c = false -> c_buffered c = [] ->
  exists base, Based (c_sp c) base (out_tags (p_run c input ops)) /\ chk_off (zbase base) (out_pairs (p_run c input ops)) <> None.
Proof.
  intros c input ops Hid Hh Hbuf. destruct (strict_items_based c input ops Hid Hh Hbuf) as [base [HN HB]].
  exists base. split; [exact HB|]. destruct (run_end_offsets c input ops Hbuf) as [baseO [Hz HO]].
  apply (chk_off_same_base (c_sp c) _ [] baseO base false Hz HO). rewrite out_pairs_tags. exact HN.
Qed.
