(* C10 after fix D28: an I/O error of the destination loses nothing.  private_flush drains exactly what the destination took, the
   rest stays in the working buffer.  Consequence proved here: a run against ANY destination is, call by call, the run against the
   destination that accepts everything, except that some bytes are still in the working buffer instead of in the destination
   (and the start offsets of the open known-size masters are shifted by the number of these bytes), and that a call may report an
   I/O error where the other run reports success. *)
From Ebml Require Import Base Tools Spec Writer Proofs.Tactics Proofs.SpecProofs Proofs.WriterProofs Proofs.WriteScripts.

(* ------------------------------------------------------------------ list helpers *)
Lemma firstn_app_len {A} (l l' : list A) n : firstn (length l + n) (l ++ l') = l ++ firstn n l'.
Proof. induction l as [|a l IH]; [reflexivity|]. cbn. rewrite IH. reflexivity. Qed.

Lemma skipn_app_len {A} (l l' : list A) n : skipn (length l + n) (l ++ l') = skipn n l'.
Proof. induction l as [|a l IH]; [reflexivity|]. cbn. exact IH. Qed.

(* ------------------------------------------------------------------ the retained-bytes relation *)
(* the open masters with every known-size start offset moved k bytes to the right *)
Definition shift_frame (k : nat) (t : N * wsize * nat) : N * wsize * nat :=
  (fst (fst t), match snd (fst t) with WKnown s => WKnown (k + s) | WUnknown => WUnknown end, snd t).
Definition shift_open (k : nat) (o : list (N * wsize * nat)) : list (N * wsize * nat) := map (shift_frame k) o.

Lemma shift_open_0 o : shift_open 0 o = o.
Proof.
  induction o as [|[[id sz] sl] o IH]; [reflexivity|]. unfold shift_open in *. cbn [map]. rewrite IH.
  destruct sz; reflexivity.
Qed.

Lemma shift_open_ids k o : open_ids (shift_open k o) = open_ids o.
Proof. unfold open_ids, shift_open. rewrite map_map. reflexivity. Qed.

Lemma shift_open_length k o : length (shift_open k o) = length o.
Proof. apply map_length. Qed.

Lemma shift_open_known k o : has_known (shift_open k o) = has_known o.
Proof.
  induction o as [|[[id sz] sl] o IH]; [reflexivity|]. unfold shift_open, has_known in *. cbn [map existsb].
  rewrite IH. destruct sz; reflexivity.
Qed.

Lemma shift_open_unknown k o : has_known o = false -> shift_open k o = o.
Proof.
  induction o as [|[[id sz] sl] o IH]; [reflexivity|]. unfold shift_open, has_known in *. cbn [map existsb].
  destruct sz as [s|]; cbn [shift_frame fst snd orb]; [discriminate|]. intros H. rewrite (IH H). reflexivity.
Qed.

Lemma shift_open_validate sp id k o : w_validate sp id (shift_open k o) = w_validate sp id o.
Proof. unfold w_validate, shift_open. rewrite map_map. reflexivity. Qed.

(* the state st0 with [pre] put in front of its working buffer (the offsets follow), the destination replaced by d and the
   script by s *)
Definition reb (pre d : list N) (s : list wr) (st0 : wst) : wst :=
  {| w_open := shift_open (length pre) (w_open st0); w_buf := pre ++ w_buf st0; w_dest := d; w_script := s |}.

Definition liftR (pre d : list N) (s : list wr) (p : wst * wres) : wst * wres := (reb pre d s (fst p), snd p).

(* [io_rel st st0]: st0 is a state of the writer over the destination that accepts everything; st is the same state except
   that the last bytes [pre] of st0's destination are still at the front of st's working buffer *)
Definition io_relp (pre : list N) (st st0 : wst) : Prop :=
  w_script st0 = [] /\ w_buf st = pre ++ w_buf st0 /\ w_dest st0 = w_dest st ++ pre /\
  w_open st = shift_open (length pre) (w_open st0).
Definition io_rel (st st0 : wst) : Prop := exists pre, io_relp pre st st0.

(* a call's verdict against any destination vs. the accepting one: the same, or an I/O error instead of success *)
Definition res_rel (r r0 : wres) : Prop := r = r0 \/ (r0 = WOk /\ exists x, r = WErr (EIo x)).

Lemma io_relp_reb pre st st0 : io_relp pre st st0 ->
  st = reb pre (w_dest st) (w_script st) st0 /\ w_dest st0 = w_dest st ++ pre /\ w_script st0 = [].
Proof.
  intros [Hs [Hb [Hd Ho]]]. split; [|split; assumption].
  destruct st as [o b d s]. cbn in *. subst. reflexivity.
Qed.

Lemma reb_io_relp pre d s st0 : w_script st0 = [] -> w_dest st0 = d ++ pre -> io_relp pre (reb pre d s st0) st0.
Proof. intros Hs Hd. split; [exact Hs|]. cbn. split; [reflexivity|]. split; [exact Hd|reflexivity]. Qed.

Lemma io_relp_same st : io_relp [] st (with_script st []).
Proof.
  split; [reflexivity|]. cbn [with_script w_buf w_dest w_open length app]. split; [reflexivity|].
  split; [rewrite app_nil_r; reflexivity|]. rewrite shift_open_0. reflexivity.
Qed.

Lemma io_rel_conserved st st0 : io_rel st st0 -> w_dest st ++ w_buf st = w_dest st0 ++ w_buf st0.
Proof. intros [pre [_ [Hb [Hd _]]]]. rewrite Hb, Hd, app_assoc. reflexivity. Qed.

(* the outcome of one call from states related with [pre]: related states, with the same [pre] unless no known-size master is
   open (then the hand-over may have run), and related verdicts *)
Definition step_concl (pre : list N) (st' st0' : wst) (r r0 : wres) : Prop :=
  (exists pre', io_relp pre' st' st0' /\ (pre' = pre \/ has_known (w_open st0') = false)) /\ res_rel r r0.

Lemma step_concl_same pre d s st1 r : w_script st1 = [] -> w_dest st1 = d ++ pre -> step_concl pre (reb pre d s st1) st1 r r.
Proof. intros Hs Hd. split; [|left; reflexivity]. exists pre. split; [apply reb_io_relp; assumption|left; reflexivity]. Qed.

(* ------------------------------------------------------------------ everything that only buffers commutes with [reb] *)
Lemma end_tag_reb pre d s st0 id : end_tag (reb pre d s st0) id = liftR pre d s (end_tag st0 id).
Proof.
  unfold end_tag. cbn [reb w_open w_buf].
  destruct (w_open st0) as [|[[oid sz] sl] rest]; [reflexivity|].
  cbn [shift_open map shift_frame fst snd].
  destruct (oid =? id); [|reflexivity].
  destruct sz as [start|]; [|reflexivity].
  rewrite app_length.
  assert (E1 : (length pre + length (w_buf st0) <? length pre + start)%nat = (length (w_buf st0) <? start)%nat).
  { destruct (Nat.ltb_spec (length (w_buf st0)) start) as [H|H]; [apply Nat.ltb_lt|apply Nat.ltb_ge]; lia. }
  rewrite E1. destruct (length (w_buf st0) <? start)%nat; [reflexivity|].
  assert (E2 : (length pre + length (w_buf st0) - (length pre + start) = length (w_buf st0) - start)%nat) by lia.
  rewrite E2. destruct (size_to_vint _ sl) as [sv|]; [|reflexivity].
  unfold liftR, reb, set_open, set_buf. cbn [fst snd w_open w_buf w_dest w_script].
  rewrite firstn_app_len, skipn_app_len, <- app_assoc. reflexivity.
Qed.

Lemma append_reb pre d s st0 bs : append (reb pre d s st0) bs = reb pre d s (append st0 bs).
Proof. unfold append, set_buf, reb. cbn [w_open w_buf w_dest w_script]. rewrite <- app_assoc. reflexivity. Qed.

Lemma write_payload_reb pre d s st0 id sl field payload :
  write_payload (reb pre d s st0) id sl field payload = liftR pre d s (write_payload st0 id sl field payload).
Proof. unfold write_payload. destruct field; rewrite !append_reb; reflexivity. Qed.

Lemma write_element_reb pre d s st0 id ty v sl :
  write_element (reb pre d s st0) id ty v sl = liftR pre d s (write_element st0 id ty v sl).
Proof.
  unfold write_element.
  destruct ty as [[]|]; destruct v; try reflexivity; try apply write_payload_reb;
    destruct (is_vint id); try reflexivity; apply write_payload_reb.
Qed.

Lemma start_tag_reb pre d s st0 id sl : start_tag (reb pre d s st0) id sl = reb pre d s (start_tag st0 id sl).
Proof. unfold start_tag, set_open, reb. cbn [w_open w_buf w_dest w_script shift_open map shift_frame fst snd]. rewrite app_length. reflexivity. Qed.

Lemma start_unknown_reb pre d s st0 id : start_unknown_size_tag (reb pre d s st0) id = reb pre d s (start_unknown_size_tag st0 id).
Proof.
  unfold start_unknown_size_tag, set_open, set_buf, reb. cbn [w_open w_buf w_dest w_script shift_open map shift_frame fst snd].
  rewrite <- app_assoc. reflexivity.
Qed.

Definition buffer_reb_stmt (sp : spec) (t : tag) : Prop :=
  forall o pre d s st0, buffer_tag sp t o (reb pre d s st0) = liftR pre d s (buffer_tag sp t o st0).

Lemma children_reb sp cs : Forall (buffer_reb_stmt sp) cs ->
  forall floor pre d s st0, children_loop sp floor cs (reb pre d s st0) = liftR pre d s (children_loop sp floor cs st0).
Proof.
  induction 1 as [|c cs Hc _ IH]; intros floor pre d s st0.
  - reflexivity.
  - cbn [children_loop]. rewrite (Hc o_default pre d s st0).
    destruct (buffer_tag sp c o_default st0) as [st' r']. cbn [liftR fst snd].
    destruct r'; try reflexivity.
    cbn [reb w_open]. rewrite shift_open_length. destruct (_ <? _)%nat; [reflexivity|]. apply IH.
Qed.

Lemma buffer_tag_reb sp : forall t, buffer_reb_stmt sp t.
Proof.
  induction t as [id v|id|id|id cs IHcs] using tag_ind'; unfold buffer_reb_stmt; intros o pre d s st0;
    rewrite (buffer_tag_eq sp _ o (reb pre d s st0)), (buffer_tag_eq sp _ o st0);
    cbn [tag_id is_master_tag is_end reb w_open]; rewrite ?shift_open_validate, ?shift_open_ids; raw_simpl.
  all: destruct (o_unknown o && negb (is_master_ty _)); [reflexivity|].
  all: destruct (is_master_ty _ && negb _); [reflexivity|].
  all: destruct (should_validate sp _ && negb _); [reflexivity|].
  all: unfold buffer_act; cbn [tag_id]; raw_simpl.
  all: change {| w_open := shift_open (length pre) (w_open st0); w_buf := pre ++ w_buf st0; w_dest := d; w_script := s |}
         with (reb pre d s st0).
  - destruct (o_unknown o); [reflexivity|].
    destruct (raw_type (TElem id v) (get_type sp id)) as [[]|]; try reflexivity; apply write_element_reb.
  - destruct (o_unknown o); [rewrite start_unknown_reb; reflexivity|].
    destruct (get_type sp id) as [[]|]; try reflexivity; try (rewrite start_tag_reb; reflexivity); destruct (is_vint id); reflexivity.
  - destruct (o_unknown o); [apply end_tag_reb|].
    destruct (get_type sp id) as [[]|]; try reflexivity; try apply end_tag_reb; destruct (is_vint id); reflexivity.
  - assert (Hfull : forall stS,
              match children_loop sp (S (length (w_open st0))) cs (reb pre d s stS) with
              | (st2, WOk) => end_tag st2 id
              | r0 => r0
              end = liftR pre d s match children_loop sp (S (length (w_open st0))) cs stS with
                                  | (st2, WOk) => end_tag st2 id
                                  | r0 => r0
                                  end).
    { intros stS. rewrite (children_reb sp cs IHcs).
      destruct (children_loop sp (S (length (w_open st0))) cs stS) as [st2 r2]. cbn [liftR fst snd].
      destruct r2; try reflexivity. apply end_tag_reb. }
    cbn [reb w_open]. rewrite shift_open_length.
    change {| w_open := shift_open (length pre) (w_open st0); w_buf := pre ++ w_buf st0; w_dest := d; w_script := s |}
      with (reb pre d s st0).
    destruct (o_unknown o); [rewrite start_unknown_reb; apply Hfull|].
    destruct (get_type sp id) as [[]|]; try reflexivity;
      try (rewrite start_tag_reb; apply Hfull);
      destruct (is_vint id); reflexivity.
Qed.

Lemma end_all_reb : forall fuel pre d s st0, end_all fuel (reb pre d s st0) = liftR pre d s (end_all fuel st0).
Proof.
  induction fuel as [|f IH]; intros pre d s st0; cbn [end_all]; [reflexivity|].
  cbn [reb w_open].
  destruct (w_open st0) as [|[[id sz] sl] rest] eqn:Eo; [reflexivity|].
  cbn [shift_open map shift_frame fst snd].
  change {| w_open := shift_open (length pre) (w_open st0); w_buf := pre ++ w_buf st0; w_dest := d; w_script := s |}
    with (reb pre d s st0).
  rewrite end_tag_reb.
  destruct (end_tag st0 id) as [st2 r2]. cbn [liftR fst snd].
  destruct r2; try reflexivity. apply IH.
Qed.

(* ------------------------------------------------------------------ the hand-over *)
Lemma private_flush_rel pre d s st0 st' r st0' r0 :
  w_script st0 = [] -> w_dest st0 = d ++ pre -> has_known (w_open st0) = false ->
  private_flush (reb pre d s st0) = (st', r) -> private_flush st0 = (st0', r0) -> step_concl pre st' st0' r r0.
Proof.
  intros Hs Hd Hk H. rewrite (private_flush_acc st0 Hs). intros H0. inversion H0; subst st0' r0; clear H0.
  destruct (private_flush_split _ _ _ H) as [Ho [del [rest [E1 [E2 [E3 [E4 E5]]]]]]].
  cbn [reb w_open w_buf w_dest] in Ho, E1, E2.
  split.
  - exists rest. split; [|right; exact Hk]. split; [reflexivity|]. cbn [w_buf w_dest w_open].
    split; [rewrite app_nil_r; exact E3|].
    split; [rewrite E2, Hd, <- !app_assoc, E1; reflexivity|].
    rewrite Ho, !shift_open_unknown by exact Hk. reflexivity.
  - destruct (wres_eq_ok r) as [->|Hr]; [left; reflexivity|].
    right. split; [reflexivity|]. apply E5, Hr.
Qed.

Lemma flush_if_streaming_rel pre d s st0 st' r st0' r0 :
  w_script st0 = [] -> w_dest st0 = d ++ pre ->
  flush_if_streaming (reb pre d s st0) = (st', r) -> flush_if_streaming st0 = (st0', r0) -> step_concl pre st' st0' r r0.
Proof.
  intros Hs Hd. unfold flush_if_streaming. cbn [reb w_open]. rewrite shift_open_known.
  change {| w_open := shift_open (length pre) (w_open st0); w_buf := pre ++ w_buf st0; w_dest := d; w_script := s |}
    with (reb pre d s st0).
  destruct (has_known (w_open st0)) eqn:Ek.
  - intros H H0. inversion H; inversion H0; subst. apply step_concl_same; assumption.
  - apply private_flush_rel; assumption.
Qed.

(* ------------------------------------------------------------------ one call *)
Lemma write_advanced_rel sp pre st st0 t o st' r st0' r0 : io_relp pre st st0 ->
  write_advanced sp st t o = (st', r) -> write_advanced sp st0 t o = (st0', r0) -> step_concl pre st' st0' r r0.
Proof.
  intros HR. destruct (io_relp_reb _ _ _ HR) as [E [Hd Hs]]. rewrite E. clear E HR.
  generalize (w_dest st) (w_script st) Hd. clear Hd st. intros d s Hd.
  unfold write_advanced. rewrite (buffer_tag_reb sp t o pre d s st0).
  destruct (buffer_tag sp t o st0) as [st1 r1] eqn:Eb. cbn [liftR fst snd].
  destruct (buffer_dest sp t o st0 st1 r1 Eb) as [Hd1 Hs1].
  assert (Hs1' : w_script st1 = []) by congruence. assert (Hd1' : w_dest st1 = d ++ pre) by congruence.
  destruct r1 as [|e|].
  - apply flush_if_streaming_rel; assumption.
  - intros H H0. inversion H; subst; clear H. inversion H0; subst; clear H0.
    cbn [reb w_open w_buf]. rewrite app_length, firstn_app_len.
    apply (step_concl_same pre d s (set_open (set_buf st1 (firstn (length (w_buf st0)) (w_buf st1))) (w_open st0))); assumption.
  - intros H H0. inversion H; subst; clear H. inversion H0; subst; clear H0. apply step_concl_same; assumption.
Qed.

Lemma write_raw_rel pre st st0 id data st' r st0' r0 : io_relp pre st st0 ->
  write_raw st id data = (st', r) -> write_raw st0 id data = (st0', r0) -> step_concl pre st' st0' r r0.
Proof.
  intros HR. destruct (io_relp_reb _ _ _ HR) as [E [Hd Hs]]. rewrite E. clear E HR.
  generalize (w_dest st) (w_script st) Hd. clear Hd st. intros d s Hd.
  unfold write_raw. rewrite write_payload_reb.
  destruct (write_payload st0 id 0 (sized_field (length data) 0) data) as [st1 r1] eqn:Ep. cbn [liftR fst snd].
  destruct (write_payload_dest _ _ _ _ _ _ _ Ep) as [Hd1 [Hs1 _]].
  assert (Hs1' : w_script st1 = []) by congruence. assert (Hd1' : w_dest st1 = d ++ pre) by congruence.
  destruct r1 as [|e|].
  - apply flush_if_streaming_rel; assumption.
  - intros H H0. inversion H; subst; clear H. inversion H0; subst; clear H0. apply step_concl_same; assumption.
  - intros H H0. inversion H; subst; clear H. inversion H0; subst; clear H0. apply step_concl_same; assumption.
Qed.

Lemma flush_rel pre st st0 st' r st0' r0 : io_relp pre st st0 ->
  flush st = (st', r) -> flush st0 = (st0', r0) -> step_concl pre st' st0' r r0.
Proof.
  intros HR. destruct (io_relp_reb _ _ _ HR) as [E [Hd Hs]]. rewrite E. clear E HR.
  generalize (w_dest st) (w_script st) Hd. clear Hd st. intros d s Hd.
  unfold flush. cbn [reb w_open]. rewrite shift_open_length.
  change {| w_open := shift_open (length pre) (w_open st0); w_buf := pre ++ w_buf st0; w_dest := d; w_script := s |}
    with (reb pre d s st0).
  rewrite end_all_reb.
  destruct (end_all (length (w_open st0)) st0) as [st1 r1] eqn:Ee. cbn [liftR fst snd].
  destruct (end_all_dest _ _ _ _ Ee) as [Hd1 Hs1].
  assert (Hs1' : w_script st1 = []) by congruence. assert (Hd1' : w_dest st1 = d ++ pre) by congruence.
  destruct r1 as [|e|].
  - assert (Hk : has_known (w_open st1) = false) by (rewrite (end_all_closes _ _ _ (le_n _) Ee); reflexivity).
    apply private_flush_rel; assumption.
  - intros H H0. inversion H; subst; clear H. inversion H0; subst; clear H0. apply step_concl_same; assumption.
  - intros H H0. inversion H; subst; clear H. inversion H0; subst; clear H0. apply step_concl_same; assumption.
Qed.

Lemma wstep_relp sp pre st st0 op st' r st0' r0 : io_relp pre st st0 ->
  wstep sp st op = (st', r) -> wstep sp st0 op = (st0', r0) -> step_concl pre st' st0' r r0.
Proof.
  intros HR. destruct op as [t o|t|id data| |]; cbn [wstep].
  - apply write_advanced_rel, HR.
  - apply write_advanced_rel, HR.
  - apply write_raw_rel, HR.
  - apply flush_rel, HR.
  - apply flush_rel, HR.
Qed.

(* one call from related states: related states again, and the same verdict or an I/O error instead of success *)
Theorem wstep_rel sp st st0 op st' r st0' r0 : io_rel st st0 ->
  wstep sp st op = (st', r) -> wstep sp st0 op = (st0', r0) -> io_rel st' st0' /\ res_rel r r0.
Proof.
  intros [pre HR] H H0. destruct (wstep_relp sp pre _ _ _ _ _ _ _ HR H H0) as [[pre' [HR' _]] Hr].
  split; [exists pre'; exact HR'|exact Hr].
Qed.

(* one call from the same state, against any destination and against the accepting one *)
Theorem nothing_lost_step sp st op st' r st0' r0 :
  wstep sp st op = (st', r) -> wstep sp (with_script st []) op = (st0', r0) ->
  w_open st' = w_open st0' /\
  (exists rest, w_buf st' = rest ++ w_buf st0' /\ w_dest st0' = w_dest st' ++ rest) /\
  w_dest st' ++ w_buf st' = w_dest st0' ++ w_buf st0' /\
  res_rel r r0.
Proof.
  intros H H0. destruct (wstep_relp sp [] _ _ _ _ _ _ _ (io_relp_same st) H H0) as [[pre [HR Hp]] Hr].
  assert (Hc : io_rel st' st0') by (exists pre; exact HR). apply io_rel_conserved in Hc.
  destruct HR as [Hs [Hb [Hd Ho]]].
  split; [|split; [exists pre; split; assumption|split; assumption]].
  rewrite Ho. destruct Hp as [->|Hk]; [apply shift_open_0|apply shift_open_unknown, Hk].
Qed.

(* ------------------------------------------------------------------ whole runs *)
(* the per-call results of the two runs: same verdict or an I/O error instead of success, and never more bytes delivered *)
Definition row_rel (p p0 : wres * nat) : Prop := res_rel (fst p) (fst p0) /\ (snd p <= snd p0)%nat.

Lemma io_rel_dest_len st st0 : io_rel st st0 -> (length (w_dest st) <= length (w_dest st0))%nat.
Proof. intros [pre [_ [_ [Hd _]]]]. rewrite Hd, app_length. lia. Qed.

Theorem wrun_rel sp : forall ops st st0 st' rs st0' rs0, io_rel st st0 ->
  wrun sp st ops = (st', rs) -> wrun sp st0 ops = (st0', rs0) -> io_rel st' st0' /\ Forall2 row_rel rs rs0.
Proof.
  induction ops as [|op ops IH]; intros st st0 st' rs st0' rs0 HR H H0; cbn [wrun] in H, H0.
  - inversion H; inversion H0; subst. split; [exact HR|constructor].
  - destruct (wstep sp st op) as [st1 r] eqn:Es. destruct (wstep sp st0 op) as [st1_0 r0] eqn:Es0.
    destruct (wstep_rel sp _ _ _ _ _ _ _ HR Es Es0) as [HR1 Hr].
    pose proof (io_rel_dest_len _ _ HR1) as Hlen.
    assert (Hrow : row_rel (r, length (w_dest st1)) (r0, length (w_dest st1_0))) by (split; [exact Hr|exact Hlen]).
    destruct (wrun sp st1 ops) as [st2 rs2] eqn:Er. destruct (wrun sp st1_0 ops) as [st2_0 rs2_0] eqn:Er0.
    destruct (IH _ _ _ _ _ _ HR1 Er Er0) as [HR2 HF].
    destruct Hr as [->|[-> [x ->]]].
    + destruct r0; inversion H; inversion H0; subst;
        (split; [assumption|constructor; [exact Hrow|first [exact HF|constructor]]]).
    + inversion H; inversion H0; subst. split; [exact HR2|constructor; [exact Hrow|exact HF]].
Qed.

Lemma io_rel_init script : io_rel (w_init script) (w_init []).
Proof. exists []. split; [reflexivity|]. cbn. split; [reflexivity|]. split; reflexivity. Qed.

(* a run against any destination vs. the run against the accepting one *)
Theorem io_error_loses_nothing sp ops script st rs st0 rs0 :
  wrun sp (w_init script) ops = (st, rs) -> wrun sp (w_init []) ops = (st0, rs0) ->
  (exists rest, w_buf st = rest ++ w_buf st0 /\ w_dest st0 = w_dest st ++ rest /\
                w_open st = shift_open (length rest) (w_open st0)) /\
  w_dest st ++ w_buf st = w_dest st0 ++ w_buf st0 /\
  open_ids (w_open st) = open_ids (w_open st0) /\ has_known (w_open st) = has_known (w_open st0) /\
  (has_known (w_open st0) = false -> w_open st = w_open st0) /\
  Forall2 row_rel rs rs0.
Proof.
  intros H H0. destruct (wrun_rel sp ops _ _ _ _ _ _ (io_rel_init script) H H0) as [HR HF].
  pose proof (io_rel_conserved _ _ HR) as Hc. destruct HR as [pre [_ [Hb [Hd Ho]]]].
  split; [exists pre; split; [exact Hb|split; [exact Hd|exact Ho]]|].
  split; [exact Hc|]. rewrite Ho, shift_open_ids, shift_open_known.
  split; [reflexivity|]. split; [reflexivity|]. split; [intros Hk; apply shift_open_unknown, Hk|exact HF].
Qed.

(* a run whose last call succeeded and left no known-size master open has an empty working buffer *)
Lemma wrun_nonempty sp : forall ops st st' rs, ops <> [] -> wrun sp st ops = (st', rs) -> rs <> [].
Proof.
  intros [|op ops] st st' rs Hne H; [contradiction|]. cbn [wrun] in H.
  destruct (wstep sp st op) as [st1 r]. destruct r; [destruct (wrun sp st1 ops)|destruct (wrun sp st1 ops)|]; inversion H; discriminate.
Qed.

Theorem wrun_drained sp : forall ops st st' rs, ops <> [] -> wrun sp st ops = (st', rs) ->
  fst (last rs (WPanic, O)) = WOk -> has_known (w_open st') = false -> w_buf st' = [].
Proof.
  induction ops as [|op ops IH]; intros st st' rs Hne H Hl Hk; [contradiction|].
  cbn [wrun] in H. destruct (wstep sp st op) as [st1 r] eqn:Es.
  destruct ops as [|op2 ops].
  - cbn [wrun] in H. destruct r; inversion H; subst; cbn in Hl; try discriminate Hl.
    eapply wstep_drained; eassumption.
  - assert (Hne2 : op2 :: ops <> []) by discriminate.
    destruct (wrun sp st1 (op2 :: ops)) as [st2 rs2] eqn:Er.
    pose proof (wrun_nonempty sp _ _ _ _ Hne2 Er) as Hrs2.
    destruct r; inversion H; subst; try (cbn in Hl; discriminate Hl);
      (apply (IH st1 st' rs2 Hne2 Er); [|exact Hk]; destruct rs2 as [|p rs2]; [contradiction|exact Hl]).
Qed.

(* ... and then the destination holds exactly what the accepting destination holds *)
Theorem retry_delivers sp ops script st rs st0 rs0 :
  wrun sp (w_init script) ops = (st, rs) -> wrun sp (w_init []) ops = (st0, rs0) ->
  ops <> [] -> fst (last rs (WPanic, O)) = WOk -> has_known (w_open st) = false ->
  w_buf st = [] /\ w_buf st0 = [] /\ w_dest st = w_dest st0 /\ w_open st = w_open st0.
Proof.
  intros H H0 Hne Hl Hk.
  pose proof (wrun_drained sp ops _ _ _ Hne H Hl Hk) as Hb.
  destruct (io_error_loses_nothing sp ops script st rs st0 rs0 H H0) as [[rest [E1 [E2 E3]]] [_ [_ [Hk0 [Ho _]]]]].
  rewrite Hb in E1. symmetry in E1. apply app_eq_nil in E1. destruct E1 as [-> Hb0].
  rewrite app_nil_r in E2. split; [exact Hb|]. split; [exact Hb0|]. split; [symmetry; exact E2|].
  apply Ho. rewrite <- Hk0. exact Hk.
Qed.

(* the state-level form: whenever the working buffer is empty the two destinations hold the same bytes *)
Theorem empty_buffer_same_dest sp ops script st rs st0 rs0 :
  wrun sp (w_init script) ops = (st, rs) -> wrun sp (w_init []) ops = (st0, rs0) ->
  w_buf st = [] -> w_dest st = w_dest st0 /\ w_buf st0 = [] /\ w_open st = w_open st0.
Proof.
  intros H H0 Hb.
  destruct (io_error_loses_nothing sp ops script st rs st0 rs0 H H0) as [[rest [E1 [E2 E3]]] _].
  rewrite Hb in E1. symmetry in E1. apply app_eq_nil in E1. destruct E1 as [-> Hb0].
  rewrite app_nil_r in E2. split; [symmetry; exact E2|]. split; [exact Hb0|]. rewrite E3. apply shift_open_0.
Qed.
