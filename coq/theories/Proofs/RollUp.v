(* C08 (algebraic core): rolling a well-nested Start…End sequence up into Full items and flattening it again is the
   identity — including masters nested inside masters of the same id. *)
From Ebml Require Import Base Tools Spec Reader Proofs.Tactics.

(* replace every Full item by Start, its children (recursively), End *)
Fixpoint flat1 (t : tag) : list tag :=
  match t with
  | TFull id cs => TStart id :: (fix go (l : list tag) : list tag := match l with [] => [] | c :: l' => flat1 c ++ go l' end) cs ++ [TEnd id]
  | _ => [t]
  end.
Definition flat (l : list tag) : list tag := flat_map flat1 l.

Lemma flat1_full id cs : flat1 (TFull id cs) = TStart id :: flat cs ++ [TEnd id].
Proof.
  cbn [flat1]. do 2 f_equal.
Qed.

Lemma flat_app a b : flat (a ++ b) = flat a ++ flat b.
Proof. unfold flat. apply flat_map_app. Qed.
Lemma flat_cons t l : flat (t :: l) = flat1 t ++ flat l.
Proof. reflexivity. Qed.

(* well-nested sequences of Start / End / element items (what the reader's queue holds between the Start of a buffered master
   and its End: every End closes the latest open Start; already rolled-up Full items count as units) *)
Inductive Bal : list tag -> Prop :=
| Bal_nil : Bal []
| Bal_elem : forall id v l, Bal l -> Bal (TElem id v :: l)
| Bal_full : forall id cs l, Bal l -> Bal (TFull id cs :: l)
| Bal_group : forall id body l, Bal body -> Bal l -> Bal (TStart id :: body ++ TEnd id :: l).

Lemma bal_app a b : Bal a -> Bal b -> Bal (a ++ b).
Proof.
  induction 1 as [|id v l _ IH|id cs l _ IH|id body l Hb _ _ IH]; intros Hb2; cbn [app].
  - exact Hb2.
  - constructor. apply IH, Hb2.
  - constructor. apply IH, Hb2.
  - rewrite <- app_assoc. cbn [app]. constructor; [exact Hb|apply IH, Hb2].
Qed.

(* a balanced body is skipped by the depth counter: it neither closes the child nor changes the depth *)
Lemma split_child_bal cid : forall body, Bal body -> forall depth tail,
  split_child cid depth (body ++ tail) = (body ++ fst (split_child cid depth tail), snd (split_child cid depth tail)).
Proof.
  induction 1 as [|id v l _ IH|id cs l _ IH|id body l _ IHb _ IHl]; intros depth tail; cbn [app].
  - destruct (split_child cid depth tail); reflexivity.
  - cbn [split_child tag_id]. rewrite IH. destruct (id =? cid); reflexivity.
  - cbn [split_child tag_id]. rewrite IH. destruct (id =? cid); reflexivity.
  - rewrite <- app_assoc. cbn [app]. cbn [split_child tag_id]. destruct (N.eqb_spec id cid) as [->|Hne].
    + rewrite IHb. cbn [split_child tag_id]. rewrite N.eqb_refl. rewrite IHl. cbn [fst snd].
      rewrite <- app_assoc. reflexivity.
    + rewrite IHb. cbn [split_child tag_id]. destruct (N.eqb_spec id cid); [contradiction|]. rewrite IHl. cbn [fst snd].
      rewrite <- app_assoc. reflexivity.
Qed.

Lemma split_child_group cid body l : Bal body -> split_child cid O (body ++ TEnd cid :: l) = (body, l).
Proof.
  intros Hb. rewrite (split_child_bal cid body Hb). cbn [split_child tag_id]. rewrite N.eqb_refl. cbn [fst snd]. rewrite app_nil_r. reflexivity.
Qed.

(* rolling up and flattening again gives the flattening of the original sequence *)
Lemma roll_up_flat : forall fuel l, (length l <= fuel)%nat -> Bal l -> flat (roll_up fuel l) = flat l.
Proof.
  induction fuel as [|f IH]; intros l Hlen Hb.
  - destruct l; [reflexivity|cbn in Hlen; lia].
  - destruct Hb as [|id v l Hb|id cs l Hb|id body l Hbody Hl]; cbn [roll_up].
    + reflexivity.
    + rewrite !flat_cons. f_equal. apply IH; [cbn in Hlen; lia|exact Hb].
    + rewrite !flat_cons. f_equal. apply IH; [cbn in Hlen; lia|exact Hb].
    + rewrite (split_child_group id body l Hbody). rewrite flat_cons, flat1_full.
      cbn [length] in Hlen. rewrite app_length in Hlen. cbn [length] in Hlen.
      rewrite (IH body) by (try lia; exact Hbody). rewrite (IH l) by (try lia; exact Hl).
      rewrite flat_cons, flat_app, flat_cons. cbn [flat1 app]. rewrite <- !app_assoc. reflexivity.
Qed.

(* the Full item a buffered master becomes unrolls to its Start, the flattening of what was queued for it, and its End *)
Theorem rolled_master_unrolls tid children : Bal children ->
  flat [roll_up_children tid children] = TStart tid :: flat children ++ [TEnd tid].
Proof.
  intros Hb. unfold roll_up_children. rewrite flat_cons, flat1_full. cbn [flat flat_map]. rewrite app_nil_r.
  f_equal. f_equal. apply roll_up_flat; [lia|exact Hb].
Qed.

(* for a sequence without Full items flattening is the identity: the Start/End form is recovered exactly *)
Fixpoint no_full (l : list tag) : Prop := match l with [] => True | TFull _ _ :: _ => False | _ :: l' => no_full l' end.
Lemma flat_no_full l : no_full l -> flat l = l.
Proof. induction l as [|t l IH]; [reflexivity|]. destruct t; cbn [no_full]; intros H; try contradiction; rewrite flat_cons; cbn [flat1 app]; f_equal; auto. Qed.

Corollary rolled_master_recovers tid children : Bal children -> no_full children ->
  flat [roll_up_children tid children] = TStart tid :: children ++ [TEnd tid].
Proof. intros Hb Hn. rewrite rolled_master_unrolls by exact Hb. rewrite flat_no_full by exact Hn. reflexivity. Qed.
