(* C14: syntactic sufficient conditions for the junk hypothesis [junk_run] of Proofs/Recover.v / RecoverKnown.v.
   (b) [junk_ids]: at every junk position the element id the decoder reads there (from the junk suffix followed by the bytes
       after the junk) is not declared in the specification, or the input is too short to hold it;
   (a) [junk_byte]: every junk byte is 0 or lies in 128..255 and, read as a one-byte id, is not declared.
   In the strict configuration both imply [junk_run]. *)
From Ebml Require Import Base Tools Spec Writer Reader Pure Encode.
From Ebml Require Import Proofs.Tactics Proofs.BytesProofs Proofs.VintProofs Proofs.DecodersProofs Proofs.SpecProofs Proofs.ReaderIO Proofs.Refine Proofs.PureProofs Proofs.RoundTrip Proofs.RoundTripKnown Proofs.Nesting Proofs.Partial Proofs.PartialKnown Proofs.Recover Proofs.RecoverKnown.
Import ListNotations.
Local Open Scope N_scope.

(* the element id (and its length) the reader decodes at the head of [bs]; None: the input ends before the id does.
   This is [p_tag_id] as a function of the bytes alone: a first byte 0 is the one-byte id 0; otherwise the first byte announces
   the length and the id is the big-endian value of that many bytes, marker bit included. *)
Definition id_at (bs : list N) : option (N * nat) :=
  match bs with
  | [] => None
  | b0 :: _ =>
      if b0 =? 0 then Some (0, 1%nat) else
      let len := vint_len b0 in
      if N.of_nat (length bs) <? N.of_nat len then None else Some (from_be (firstn len bs), len)
  end.

Lemma p_tag_id_id_at st :
  p_tag_id st = match id_at (b_bytes st) with Some r => Ok r | None => Err (REof (b_off st) None None None) end.
Proof.
  unfold p_tag_id, id_at, blen. destruct (b_bytes st) as [|b0 tl]; [reflexivity|]. destruct (b0 =? 0); [reflexivity|].
  cbv zeta. destruct (_ <? _); reflexivity.
Qed.

(* the id read at the head of [bs] is not declared (or there is none) *)
Definition undeclared_at (c : cfg) (bs : list N) : Prop :=
  match id_at bs with Some (id, _) => get_type (c_sp c) id = None | None => True end.

(* the error a header check reports when the id is not declared and unknown ids are not tolerated *)
Definition junk_err (e : rerr) : Prop :=
  (exists pos id, e = RInvalidTagId pos id) \/ (exists pos id, e = RInvalidTagData pos id) \/ (exists pos oid, e = REof pos oid None None).

Lemma header_fails_undeclared c st : c_allow_id c = false -> wf_bytes (b_bytes st) -> undeclared_at c (b_bytes st) ->
  exists e, snd (p_header c st) = Err e /\ junk_err e.
Proof.
  intros Hid Hw Hu. rewrite p_header_unfold, p_tag_id_id_at. unfold undeclared_at in Hu.
  destruct (id_at (b_bytes st)) as [[id idl]|]; [|eexists; split; [reflexivity|right; right; eexists; eexists; reflexivity]].
  unfold p_hdr_tail.
  assert (Hv : read_vint (firstn 8 (skipn idl (b_bytes st))) <> Panic) by (apply read_vint_nopanic, wf_firstn, wf_skipn, Hw).
  destruct (read_vint _) as [[[size sl]|]|e1|]; [| | |contradiction].
  - rewrite Hu, Hid. cbn [is_numeric andb negb]. eexists; split; [reflexivity|left; eexists; eexists; reflexivity].
  - eexists; split; [reflexivity|right; right; eexists; eexists; reflexivity].
  - eexists; split; [reflexivity|right; left; eexists; eexists; reflexivity].
Qed.

(* (b): at each of the positions of the junk [jk], followed by [rest], the id read there is not declared *)
Definition junk_ids (c : cfg) (jk rest : list N) : Prop :=
  forall k, (k < length jk)%nat -> undeclared_at c (skipn k (jk ++ rest)).

Lemma pconsume_1_bytes st b0 tl : b_bytes st = b0 :: tl -> b_bytes (pconsume st 1) = tl.
Proof.
  intros Eb. unfold pconsume. cbn [b_bytes]. rewrite Eb. change 1 with (N.of_nat (length [b0])). change (b0 :: tl) with ([b0] ++ tl).
  rewrite splitN_exact. reflexivity.
Qed.

Lemma junk_of_ids c : c_allow_id c = false -> forall l st b, b_bytes st = b :: l -> wf_bytes l ->
  forall k, (k <= length l)%nat -> (forall i, (i < k)%nat -> undeclared_at c (skipn i l)) -> junk c st k.
Proof.
  intros Hid. induction l as [|b' l IH]; intros st b Eb Hw k Hk Hu.
  - cbn in Hk. assert (k = O) by lia. subst k. exact I.
  - destruct k as [|k]; [exact I|]. cbn [junk].
    pose proof (pconsume_1_bytes st b (b' :: l) Eb) as Hc.
    split.
    + destruct (header_fails_undeclared c (pconsume st 1) Hid) as [e [He _]].
      * rewrite Hc. exact Hw.
      * rewrite Hc. apply (Hu O). lia.
      * exists e. exact He.
    + apply (IH (pconsume st 1) b' Hc).
      * apply Forall_cons_iff in Hw. exact (proj2 Hw).
      * cbn [length] in Hk. lia.
      * intros i Hi. apply (Hu (S i)). lia.
Qed.

Theorem junk_run_of_undeclared_ids c st jk rest : c_allow_id c = false -> b_bytes st = jk ++ rest -> jk <> [] ->
  wf_bytes jk -> wf_bytes rest -> junk_ids c jk rest -> junk_run c st (length jk).
Proof.
  intros Hid Eb Hne Hwj Hwr Hu. destruct jk as [|b jk]; [contradiction|]. unfold junk_run. split.
  - destruct (header_fails_undeclared c st Hid) as [e [He _]].
    + rewrite Eb. apply wf_app; assumption.
    + rewrite Eb. apply (Hu O). cbn [length]. lia.
    + exists e. exact He.
  - cbn [length Nat.sub]. rewrite Nat.sub_0_r. cbn [app] in Eb. apply (junk_of_ids c Hid (jk ++ rest) st b Eb).
    + apply wf_app; [apply Forall_cons_iff in Hwj; exact (proj2 Hwj)|exact Hwr].
    + rewrite app_length. lia.
    + intros i Hi. apply (Hu (S i)). cbn [length]. lia.
Qed.

(* (a): a byte that, alone, is an undeclared one-byte id: 0 (the reader takes a first byte 0 as the one-byte id 0) or
   128..255 (marker in the top bit; 255, all value bits set, is read as the one-byte id 255 like any other) *)
Definition junk_byte (c : cfg) (b : N) : Prop := (b = 0 \/ 128 <= b <= 255) /\ get_type (c_sp c) b = None.

Lemma vint_len_one_byte b : 128 <= b <= 255 -> vint_len b = 1%nat.
Proof.
  intros Hb. unfold vint_len. assert (H : N.log2 b = 7).
  { apply N.log2_unique; [lia|]. change (2 ^ 7) with 128. change (2 ^ N.succ 7) with 256. lia. }
  rewrite H. reflexivity.
Qed.

Lemma id_at_junk_byte b tl : (b = 0 \/ 128 <= b <= 255) -> id_at (b :: tl) = Some (b, 1%nat).
Proof.
  intros [->|Hb]; [reflexivity|]. unfold id_at. destruct (N.eqb_spec b 0) as [E|_]; [lia|]. cbv zeta.
  rewrite (vint_len_one_byte b Hb). cbn [length firstn].
  destruct (N.ltb_spec (N.of_nat (S (length tl))) (N.of_nat 1)) as [H|_]; [lia|].
  unfold from_be, from_be_acc. cbn [fold_left]. f_equal.
Qed.

Lemma junk_ids_of_bytes c rest : forall jk, Forall (junk_byte c) jk -> junk_ids c jk rest.
Proof.
  induction jk as [|b jk IH]; intros Hj k Hk; [cbn in Hk; lia|].
  apply Forall_cons_iff in Hj. destruct Hj as [[Hb Hty] Hj].
  destruct k as [|k].
  - cbn [skipn app]. unfold undeclared_at. rewrite (id_at_junk_byte b _ Hb). exact Hty.
  - cbn [skipn app]. apply (IH Hj k). cbn [length] in Hk. lia.
Qed.

Lemma junk_bytes_wf c jk : Forall (junk_byte c) jk -> wf_bytes jk.
Proof.
  intros H. unfold wf_bytes. apply (Forall_impl _ (P := junk_byte c)); [|exact H]. intros b [[->|Hb] _]; lia.
Qed.

Theorem junk_run_of_undeclared_one_byte_ids c st jk rest : c_allow_id c = false -> b_bytes st = jk ++ rest -> jk <> [] ->
  wf_bytes rest -> Forall (junk_byte c) jk -> junk_run c st (length jk).
Proof.
  intros Hid Eb Hne Hwr Hj.
  apply (junk_run_of_undeclared_ids c st jk rest Hid Eb Hne (junk_bytes_wf c jk Hj) Hwr (junk_ids_of_bytes c rest jk Hj)).
Qed.

(* ------------------------------------------------------------------ the damaged documents of Recover.v / RecoverKnown.v *)
(* the bytes that follow the junk in the damaged document *)
Definition d_after (d : ddoc) : list N := enc_rights ((d_x d :: d_f2 d) :: d_rights d).

Lemma junk_state_bytes d : b_bytes (junk_state d) = d_junk d ++ d_after d.
Proof. reflexivity. Qed.

Lemma wf_after c d : conf_zdoc c (undamaged d) -> wf_bytes (d_after d).
Proof.
  intros [_ Hr]. cbn [undamaged z_levels z_rights] in Hr. apply rights_ok_unprepend in Hr. destruct Hr as [_ Hr].
  apply (wf_rights c _ _ _ _ Hr).
Qed.

Lemma kwf_after c d : kconf_zdoc c (undamaged d) -> wf_bytes (d_after d).
Proof.
  intros [_ Hr]. cbn [undamaged z_levels z_rights] in Hr. apply krights_ok_unprepend in Hr. destruct Hr as [_ Hr].
  apply (kwf_rights c _ _ _ _ Hr).
Qed.

Lemma strict_id c : strict c -> c_allow_id c = false.
Proof. intros [H _]. exact H. Qed.

(* (b) *)
Theorem damaged_run_ids c d : strict c -> c_buffered c = [] -> c_emit_eof c = true -> conf_zdoc c (undamaged d) ->
  d_junk d <> [] -> wf_bytes (d_junk d) -> (d_levels d <> [] \/ d_f1 d <> []) ->
  room (d_stk d) (d_off2 d + N.of_nat (length (d_junk d)) + tlen (d_x d)) ->
  junk_ids c (d_junk d) (d_after d) ->
  exists e0, p_run c (enc_ddoc d) [RAll; RRecover; RAll] = out_ddoc d e0.
Proof.
  intros H1 H2 H3 H4 H5 H6 H7 H8 H9. apply damaged_run'; try assumption.
  apply (junk_run_of_undeclared_ids c _ _ _ (strict_id c H1) (junk_state_bytes d) H5 H6 (wf_after c d H4) H9).
Qed.

Theorem recovery_loses_nothing_ids c d : strict c -> c_buffered c = [] -> c_emit_eof c = true -> conf_zdoc c (undamaged d) ->
  d_junk d <> [] -> wf_bytes (d_junk d) -> (d_levels d <> [] \/ d_f1 d <> []) ->
  room (d_stk d) (d_off2 d + N.of_nat (length (d_junk d)) + tlen (d_x d)) ->
  junk_ids c (d_junk d) (d_after d) ->
  out_tags (p_run c (enc_ddoc d) [RAll; RRecover; RAll]) = out_tags (p_run c (enc_zdoc (undamaged d)) [RAll]).
Proof.
  intros H1 H2 H3 H4 H5 H6 H7 H8 H9. apply recovery_loses_nothing'; try assumption.
  apply (junk_run_of_undeclared_ids c _ _ _ (strict_id c H1) (junk_state_bytes d) H5 H6 (wf_after c d H4) H9).
Qed.

Theorem damaged_run_known_ids c d : strict c -> c_buffered c = [] -> c_emit_eof c = true ->
  kconf_zdoc c (undamaged d) -> jstart c d -> d_junk d <> [] -> wf_bytes (d_junk d) ->
  room (d_stk d) (d_off2 d + N.of_nat (length (d_junk d)) + tlen (d_x d)) ->
  junk_ids c (d_junk d) (d_after d) ->
  exists e0, p_run c (enc_ddoc d) [RAll; RRecover; RAll] = out_ddoc d e0.
Proof.
  intros H1 H2 H3 H4 H5 H6 H7 H8 H9. apply damaged_run_known'; try assumption.
  apply (junk_run_of_undeclared_ids c _ _ _ (strict_id c H1) (junk_state_bytes d) H6 H7 (kwf_after c d H4) H9).
Qed.

Theorem recovery_loses_nothing_known_ids c d : strict c -> c_buffered c = [] -> c_emit_eof c = true ->
  kconf_zdoc c (undamaged d) -> jstart c d -> d_junk d <> [] -> wf_bytes (d_junk d) ->
  room (d_stk d) (d_off2 d + N.of_nat (length (d_junk d)) + tlen (d_x d)) ->
  junk_ids c (d_junk d) (d_after d) ->
  out_tags (p_run c (enc_ddoc d) [RAll; RRecover; RAll]) = out_tags (p_run c (enc_zdoc (undamaged d)) [RAll]).
Proof.
  intros H1 H2 H3 H4 H5 H6 H7 H8 H9. apply recovery_loses_nothing_known'; try assumption.
  apply (junk_run_of_undeclared_ids c _ _ _ (strict_id c H1) (junk_state_bytes d) H6 H7 (kwf_after c d H4) H9).
Qed.

(* (a): the hypothesis [wf_bytes (d_junk d)] is implied *)
Theorem damaged_run_syntactic c d : strict c -> c_buffered c = [] -> c_emit_eof c = true -> conf_zdoc c (undamaged d) ->
  d_junk d <> [] -> (d_levels d <> [] \/ d_f1 d <> []) ->
  room (d_stk d) (d_off2 d + N.of_nat (length (d_junk d)) + tlen (d_x d)) ->
  Forall (junk_byte c) (d_junk d) ->
  exists e0, p_run c (enc_ddoc d) [RAll; RRecover; RAll] = out_ddoc d e0.
Proof.
  intros H1 H2 H3 H4 H5 H7 H8 H9.
  apply damaged_run_ids; try assumption; [apply (junk_bytes_wf c _ H9)|apply junk_ids_of_bytes; exact H9].
Qed.

Theorem recovery_loses_nothing_syntactic c d : strict c -> c_buffered c = [] -> c_emit_eof c = true -> conf_zdoc c (undamaged d) ->
  d_junk d <> [] -> (d_levels d <> [] \/ d_f1 d <> []) ->
  room (d_stk d) (d_off2 d + N.of_nat (length (d_junk d)) + tlen (d_x d)) ->
  Forall (junk_byte c) (d_junk d) ->
  out_tags (p_run c (enc_ddoc d) [RAll; RRecover; RAll]) = out_tags (p_run c (enc_zdoc (undamaged d)) [RAll]).
Proof.
  intros H1 H2 H3 H4 H5 H7 H8 H9.
  apply recovery_loses_nothing_ids; try assumption; [apply (junk_bytes_wf c _ H9)|apply junk_ids_of_bytes; exact H9].
Qed.

Theorem damaged_run_known_syntactic c d : strict c -> c_buffered c = [] -> c_emit_eof c = true ->
  kconf_zdoc c (undamaged d) -> jstart c d -> d_junk d <> [] ->
  room (d_stk d) (d_off2 d + N.of_nat (length (d_junk d)) + tlen (d_x d)) ->
  Forall (junk_byte c) (d_junk d) ->
  exists e0, p_run c (enc_ddoc d) [RAll; RRecover; RAll] = out_ddoc d e0.
Proof.
  intros H1 H2 H3 H4 H5 H6 H8 H9.
  apply damaged_run_known_ids; try assumption; [apply (junk_bytes_wf c _ H9)|apply junk_ids_of_bytes; exact H9].
Qed.

Theorem recovery_loses_nothing_known_syntactic c d : strict c -> c_buffered c = [] -> c_emit_eof c = true ->
  kconf_zdoc c (undamaged d) -> jstart c d -> d_junk d <> [] ->
  room (d_stk d) (d_off2 d + N.of_nat (length (d_junk d)) + tlen (d_x d)) ->
  Forall (junk_byte c) (d_junk d) ->
  out_tags (p_run c (enc_ddoc d) [RAll; RRecover; RAll]) = out_tags (p_run c (enc_zdoc (undamaged d)) [RAll]).
Proof.
  intros H1 H2 H3 H4 H5 H6 H8 H9.
  apply recovery_loses_nothing_known_ids; try assumption; [apply (junk_bytes_wf c _ H9)|apply junk_ids_of_bytes; exact H9].
Qed.
