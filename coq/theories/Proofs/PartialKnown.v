(* C12 for the SECOND class of documents (Proofs/RoundTripKnown.v): every master has a known size, and the declared paths
   only have to MATCH the chain of masters an element sits in, so global placeholders are allowed (global elements such as
   Void / Crc32 at any depth, recursive masters).  The truncated documents [tdoc], their encoding [enc_tdoc] and the
   promised outputs [out_tdoc] are those of Proofs/Partial.v; only the conformance predicate changes ([kconf_tdoc]).

   The start hypothesis.  As in Proofs/RoundTripKnown.v the reader validates no hierarchy until it has met the first
   element whose declared path is placeholder-free, and that element has to be a root element (declared with the empty
   path); here "first" is in READING order over the truncated document: the complete trees of the first level, the master
   the first level opens, the complete trees of the second level, ... , the complete trees at the innermost level, the
   incomplete tag.  [lstart] / [dstart_k] say exactly this; [tdoc_root_start]: it holds in particular when the very first
   element of the truncated document is a root element. *)
From Ebml Require Import Base Tools Spec Writer Reader Pure Encode.
From Ebml Require Import Proofs.Tactics Proofs.BytesProofs Proofs.VintProofs Proofs.DecodersProofs Proofs.SpecProofs Proofs.ReaderIO Proofs.Refine Proofs.PureProofs Proofs.RoundTrip Proofs.RoundTripKnown Proofs.Partial Proofs.CutExists.
Import ListNotations.
Local Open Scope N_scope.

(* ------------------------------------------------------------------ a master header with an arbitrary declared size *)
Lemma read_start_gen_g c st id sl osz rest :
  strict c -> idok id -> wf_bytes rest -> fsize_ok sl osz ->
  b_bytes st = id_bytes id ++ fld sl osz ++ rest ->
  get_type (c_sp c) id = Some DMaster ->
  b_bad st = None -> hier_ok_g c st id ->
  p_invalid_tag_size st (N.of_nat (length (id_bytes id) + fsl sl osz) + fknown osz) = false ->
  size_ok c (fesz osz) ->
  exists st', p_read_tag c st = (st', Ok {| p_tag := TStart id; p_size := fesz osz; p_start := b_off st;
                                            p_data := b_off st + N.of_nat (length (id_bytes id) + fsl sl osz) |}) /\
              advanced_g st st' (id_bytes id ++ fld sl osz) /\ b_bytes st' = rest /\ b_det st' = det_after c st id.
Proof.
  intros Hstrict Hidok Hwfr Hsz Hb Hty Hbad Hhier Hroom Hmax.
  assert (Hx : exists sl' size, (1 <= sl' <= 8)%nat /\ size < 2 ^ (7 * N.of_nat sl') /\ fld sl osz = venc sl' size /\
                                ebml_size size sl' = fesz osz /\ fsl sl osz = sl').
  { destruct osz as [n|].
    - destruct Hsz as [H1 H2]. exists sl, n. split; [exact H1|]. split; [lia|]. split; [reflexivity|].
      split; [apply ebml_size_known, H2|reflexivity].
    - exists 8%nat, (2 ^ 56 - 1). split; [lia|]. split; [reflexivity|]. split; [reflexivity|]. split; reflexivity. }
  destruct Hx as [sl' [size [Hsl [Hsize [Hfield [Hes Hnsl]]]]]]. rewrite Hfield in Hb. rewrite Hnsl in *.
  assert (Hk : match ebml_size size sl' with SKnown n => n | SUnknown => 0 end = fknown osz) by (rewrite Hes; destruct osz; reflexivity).
  assert (Hroom' : p_invalid_tag_size st (N.of_nat (length (id_bytes id) + sl') + match ebml_size size sl' with SKnown n => n | SUnknown => 0 end) = false)
    by (rewrite Hk; exact Hroom).
  assert (Hmax' : size_ok c (ebml_size size sl')) by (rewrite Hes; exact Hmax).
  assert (Hnum : is_numeric (Some DMaster) = true -> size <= 8) by discriminate.
  destruct (p_header_conf_g c st id DMaster sl' size rest Hstrict Hidok Hsl Hsize Hwfr Hb Hty Hnum Hbad Hhier Hroom' Hmax')
    as [st1 [Hh [Hsame Hdet1]]].
  rewrite p_read_tag_unfold, Hh. unfold p_tag_tail. rewrite Hes.
  assert (Hhl : length (id_bytes id ++ venc sl' size) = (length (id_bytes id) + sl')%nat)
    by (rewrite app_length; unfold venc; rewrite be_bytes_length; reflexivity).
  rewrite app_assoc in Hb.
  destruct (pconsume_exact_g st st1 _ _ Hsame Hb) as [Hadv [Hbytes Hdetc]]. rewrite Hhl in Hadv, Hbytes, Hdetc.
  set (stc := pconsume st1 (N.of_nat (length (id_bytes id) + sl'))) in *.
  assert (Hoffc : b_off stc = b_off st + N.of_nat (length (id_bytes id) + sl')).
  { destruct Hadv as [_ [Ho _]]. rewrite Ho, Hhl. reflexivity. }
  exists stc. rewrite Hoffc, Hfield. split; [reflexivity|]. split; [exact Hadv|split; [exact Hbytes|rewrite Hdetc; exact Hdet1]].
Qed.

(* reading the header of a known-size master that stays open: the pending masters end (all by exhaustion), the Start comes
   out, and the reader is inside *)
Lemma kopen_master c st T stk ids total id sl n rest inner :
  strict c -> c_buffered c = [] -> kpre st T stk ids total ->
  (b_det st = true \/ all_ids (get_path (c_sp c) id) = false \/ get_path (c_sp c) id = []) ->
  idok id -> wf_bytes rest -> fsize_ok sl (Some n) -> b_bytes st = id_bytes id ++ fld sl (Some n) ++ rest ->
  get_type (c_sp c) id = Some DMaster -> path_matches (get_path (c_sp c) id) ids = true -> size_ok c (SKnown n) ->
  N.of_nat (length (id_bytes id) + sl) + n <= total -> inner <= n ->
  exists st1, kpre st1 [] (mframe (b_off st) id sl (Some n) :: stk) (ids ++ [id]) inner /\ b_bytes st1 = rest /\
    b_off st1 = b_off st + N.of_nat (length (id_bytes id) + sl) /\ b_fuel st1 = b_fuel st /\
    b_det st1 = b_det st || all_ids (get_path (c_sp c) id) /\
    forall m, p_run_all (length T + 1 + m) c st = rcat (map end_out T ++ [OItem (TStart id) (b_off st)]) (p_run_all m c st1).
Proof.
  intros Hstrict Hnb Hpre Hdx Hid Hwf Hsz Hb Hty Hpath Hmax Htot Hin.
  set (hl := N.of_nat (length (id_bytes id) + sl)) in *.
  assert (Hpos : 0 < total).
  { destruct (idok_len id Hid) as [Hl _]. unfold hl in Htot. lia. }
  pose proof (kpre_step c st T stk ids _ id Hpre Hpos Hdx Hpath Hnb) as Hstep.
  pose proof (kprep c st T stk id _ Hstep) as Hprep. cbn zeta in Hprep.
  destruct Hprep as [P1 [P2 [P3 [P4 [P5 [P6 [P7 [Phier Proom]]]]]]]].
  set (st_a := ppop_frames st (exhausted_count (b_off st) (b_stack st))) in *.
  assert (Hba : b_bytes st_a = id_bytes id ++ fld sl (Some n) ++ rest) by (rewrite P1; exact Hb).
  assert (Hroom : p_invalid_tag_size st_a (N.of_nat (length (id_bytes id) + fsl sl (Some n)) + fknown (Some n)) = false)
    by (apply Proom; exact Htot).
  destruct (read_start_gen_g c st_a id sl (Some n) rest Hstrict Hid Hwf Hsz Hba Hty P3 Phier Hroom Hmax)
    as [st_b [Hread [Hadv [Hrest Hdetb]]]].
  assert (Hne : id_bytes id ++ fld sl (Some n) <> []).
  { destruct (idok_len id Hid) as [Hl _]. destruct (id_bytes id); [cbn in Hl; lia|discriminate]. }
  rewrite P2 in Hread.
  destruct (kstep_run c st T stk id _ _ st_b _ Hstep Hread Hadv Hne eq_refl eq_refl) as [st1 [Hat1 [Hdet1 Hrun1]]].
  destruct Hadv as [_ [Ho _]]. rewrite Hrest, Ho, P2 in Hat1. unfold new_frame in Hat1. cbn [p_tag p_size p_start p_data tag_id app] in Hat1.
  rewrite app_length, fld_length in Ho, Hat1.
  change (N.of_nat (length (id_bytes id) + fsl sl (Some n))) with hl in Ho, Hat1.
  change {| f_id := id; f_size := fesz (Some n); f_start := b_off st; f_data := b_off st + hl |} with (mframe (b_off st) id sl (Some n)) in Hat1.
  destruct Hat1 as [A1 [A2 [A3 [A4 [A5 A6]]]]].
  exists st1. split; [|split; [exact A1|split; [exact A2|split; [exact A6|split; [|exact Hrun1]]]]].
  - destruct Hpre as [Hs Hq Hbad Hf Hpend Hids Hroom0]. constructor.
    + exact A3.
    + exact A4.
    + exact A5.
    + rewrite A6. exact Hf.
    + constructor.
    + unfold ids_of in *. cbn [map rev mframe f_id]. rewrite Hids. reflexivity.
    + rewrite A2. unfold kroom. constructor.
      * exists n. split; [reflexivity|]. cbn [mframe f_data fsl]. fold hl. lia.
      * eapply kroom_mono; [|exact Hroom0]. lia.
  - rewrite Hdet1, Hdetb. unfold det_after. rewrite P4. reflexivity.
Qed.

(* ------------------------------------------------------------------ the masters left pending by a known-size forest *)
Lemma kpend_after_ok c ids : forall l off T, Forall (kconf c ids) l -> Forall (exhF off) T ->
  Forall (exhF (off + flen l)) (pend_after off l T).
Proof.
  induction l as [|x l IH]; intros off T Hc HT.
  - cbn [pend_after]. rewrite flen_nil, N.add_0_r. exact HT.
  - apply Forall_cons_iff in Hc. destruct Hc as [Hx Hl]. rewrite pend_after_cons, flen_cons, N.add_assoc.
    apply IH; [exact Hl|apply (kspine c x ids), Hx].
Qed.

Lemma kpre_after_forest c st st1 T stk ids total l :
  kpre st T stk ids total -> Forall (kconf c ids) l -> flen l <= total ->
  at_ st1 (b_bytes st1) (b_off st + flen l) (pend_after (b_off st) l T ++ stk) (b_fuel st) ->
  kpre st1 (pend_after (b_off st) l T) stk ids (total - flen l).
Proof.
  intros Hpre Hc Hle [_ [A2 [A3 [A4 [A5 A6]]]]].
  destruct Hpre as [Hs Hq Hbad Hf Hpend Hids Hroom]. constructor.
  - exact A3.
  - exact A4.
  - exact A5.
  - rewrite A6. exact Hf.
  - rewrite A2. apply (kpend_after_ok c ids); assumption.
  - exact Hids.
  - rewrite A2. eapply kroom_mono; [|exact Hroom]. lia.
Qed.

(* ------------------------------------------------------------------ the start hypothesis, in reading order *)
(* [dstart_k c l K]: among the trees of l the first element with a placeholder-free path is a root element at the top of l;
   if l has none, K *)
Fixpoint dstart_k (c : cfg) (l : list rtree) (K : Prop) : Prop :=
  match l with
  | [] => K
  | t :: l' => get_path (c_sp c) (rid t) = [] \/ (globb c t = true /\ dstart_k c l' K)
  end.

(* ... over the levels: the complete trees of a level, then the master it opens (a root element, or declared with a
   placeholder), then the next level *)
Fixpoint lstart (c : cfg) (L : list level) (K : Prop) : Prop :=
  match L with
  | [] => K
  | lv :: L' =>
      dstart_k c (lv_f lv)
        (get_path (c_sp c) (lv_id lv) = [] \/ (all_ids (get_path (c_sp c) (lv_id lv)) = false /\ lstart c L' K))
  end.

Lemma dstart_k_dstart c K : forall l, dstart_k c l K -> dstart c l.
Proof.
  induction l as [|x l IH]; intros H; [exact I|]. cbn [dstart_k dstart] in *. destruct H as [H|[H1 H2]]; [left; exact H|].
  right. split; [exact H1|apply IH, H2].
Qed.

Lemma dstart_dstart_k c : forall l, dstart c l -> dstart_k c l True.
Proof.
  induction l as [|x l IH]; intros H; [exact I|]. cbn [dstart_k dstart] in *. destruct H as [H|[H1 H2]]; [left; exact H|].
  right. split; [exact H1|apply IH, H2].
Qed.

Lemma dstart_k_after c K : forall l, dstart_k c l K -> negb (forallb (globb c) l) = true \/ K.
Proof.
  induction l as [|x l IH]; intros H; [right; exact H|]. cbn [dstart_k] in H. cbn [forallb]. destruct H as [H|[H1 H2]].
  - left. rewrite (root_not_globb c x H). reflexivity.
  - rewrite H1. cbn [andb]. apply IH, H2.
Qed.

(* ------------------------------------------------------------------ levels of known-size masters *)
Fixpoint kconf_levels (c : cfg) (ids : list N) (L : list level) (inner : N) : Prop :=
  match L with
  | [] => True
  | lv :: L' =>
      Forall (kconf c ids) (lv_f lv) /\ idok (lv_id lv) /\ get_type (c_sp c) (lv_id lv) = Some DMaster /\
      path_matches (get_path (c_sp c) (lv_id lv)) ids = true /\
      (exists n, lv_size lv = Some n /\ levels_ext L' inner <= n) /\
      fsize_ok (lv_sl lv) (lv_size lv) /\ size_ok c (fesz (lv_size lv)) /\
      kconf_levels c (ids ++ [lv_id lv]) L' inner
  end.

Lemma kwf_enc_levels c : forall L ids inner, kconf_levels c ids L inner -> wf_bytes (enc_levels L).
Proof.
  induction L as [|lv L IH]; intros ids inner H; [constructor|]. destruct H as [Hf [Hid [_ [_ [_ [Hsz [_ HL]]]]]]].
  cbn [enc_levels]. apply wf_app; [apply (kconf_wf_forest c ids _ Hf)|]. apply wf_app; [apply (idok_len _ Hid)|].
  apply wf_app; [|apply (IH _ _ HL)]. destruct (lv_size lv); [apply venc_wf|repeat constructor].
Qed.

Lemma kdescend c : strict c -> c_buffered c = [] -> forall L ids st T stk rest inner (K : Prop),
  kconf_levels c ids L inner -> kpre st T stk ids (levels_ext L inner) -> (b_det st = true \/ lstart c L K) ->
  b_bytes st = enc_levels L ++ rest -> wf_bytes rest ->
  exists st', kpre st' (lv_T (b_off st) T L) (lv_stk (b_off st) stk L) (lv_ids ids L) inner /\ b_bytes st' = rest /\
    b_off st' = b_off st + levels_len L /\ b_fuel st' = b_fuel st /\ (b_det st' = true \/ K) /\
    forall n, p_run_all (length (lv_outs (b_off st) T L) + n) c st = rcat (lv_outs (b_off st) T L) (p_run_all n c st').
Proof.
  intros Hstrict Hnb. induction L as [|lv L IH]; intros ids st T stk rest inner K Hc Hpre Hds Hb Hwf.
  - exists st. cbn [lv_T lv_stk lv_ids lv_outs enc_levels app length levels_ext lstart] in *. unfold levels_len. cbn [enc_levels length].
    rewrite N.add_0_r. split; [exact Hpre|]. split; [exact Hb|]. split; [reflexivity|]. split; [reflexivity|]. split; [exact Hds|].
    intros n; symmetry; apply rcat_nil.
  - destruct Hc as [Hf [Hid [Hty [Hpath [[nn [Eo Hin]] [Hsz [Hmax HL]]]]]]]. cbn [levels_ext] in Hpre. cbn [lstart] in Hds.
    cbn [enc_levels] in Hb. rewrite <- !app_assoc in Hb. rewrite Eo in Hpre, Hb, Hsz, Hmax.
    set (f := lv_f lv) in *. set (id := lv_id lv) in *. set (sl := lv_sl lv) in *.
    set (ext' := levels_ext L inner) in *.
    set (Kid := get_path (c_sp c) id = [] \/ (all_ids (get_path (c_sp c) id) = false /\ lstart c L K)) in *.
    assert (HwL : wf_bytes (enc_levels L ++ rest)) by (apply wf_app; [apply (kwf_enc_levels c L _ _ HL)|exact Hwf]).
    assert (Hw1 : wf_bytes (id_bytes id ++ fld sl (Some nn) ++ enc_levels L ++ rest)).
    { apply wf_app; [apply (idok_len _ Hid)|]. apply wf_app; [apply venc_wf|exact HwL]. }
    (* the complete trees of this level *)
    assert (HP : Forall (KPtree c) f) by (apply Forall_forall; intros t _; apply kparse_tree; assumption).
    assert (Hpre0 : kpre st T stk ids (flen f)) by (eapply kpre_weaken; [|exact Hpre]; lia).
    assert (Hds0 : b_det st = true \/ dstart c f).
    { destruct Hds as [Hd|Hd]; [left; exact Hd|right; apply (dstart_k_dstart c _ f Hd)]. }
    destruct (kparse_forest c f HP ids Hf st T stk _ Hpre0 Hds0 Hb Hw1) as [st1 [Hat1 [Hd1 Hrun1]]].
    assert (Hat1' : at_ st1 (b_bytes st1) (b_off st + flen f) (pend_after (b_off st) f T ++ stk) (b_fuel st)).
    { destruct Hat1 as [A1 [A2 [A3 [A4 [A5 A6]]]]]. repeat split; assumption. }
    assert (Hhl : lv_hl lv = N.of_nat (length (id_bytes id) + sl)).
    { unfold lv_hl. rewrite Eo. reflexivity. }
    set (tot := flen f + lv_hl lv + nn) in *.
    assert (Hle : flen f <= tot) by (unfold tot; lia).
    pose proof (kpre_after_forest c st st1 T stk ids _ f Hpre Hf Hle Hat1') as Hpre1.
    destruct Hat1 as [A1 [A2 [A3 [A4 [A5 A6]]]]].
    assert (Hafter : b_det st1 = true \/ Kid).
    { rewrite Hd1. destruct Hds as [Hd|Hd]; [left; rewrite Hd; reflexivity|].
      destruct (dstart_k_after c _ f Hd) as [Hg|Hk]; [left; rewrite Hg; apply Bool.orb_true_r|right; exact Hk]. }
    assert (Hdx1 : b_det st1 = true \/ all_ids (get_path (c_sp c) id) = false \/ get_path (c_sp c) id = []).
    { destruct Hafter as [Hd|[Hd|[Hd _]]]; [left; exact Hd|right; right; exact Hd|right; left; exact Hd]. }
    (* the header of the master that stays open *)
    assert (Htot : N.of_nat (length (id_bytes id) + sl) + nn <= tot - flen f) by (rewrite <- Hhl; unfold tot; lia).
    destruct (kopen_master c st1 _ stk ids _ id sl nn (enc_levels L ++ rest) ext' Hstrict Hnb Hpre1 Hdx1 Hid HwL Hsz A1 Hty Hpath Hmax Htot Hin)
      as [st2 [Hpre2 [B1 [B2 [B3 [B4 Hrun2]]]]]].
    rewrite A2 in Hpre2, B2, Hrun2. rewrite <- Hhl in B2.
    assert (Hds2 : b_det st2 = true \/ lstart c L K).
    { rewrite B4. destruct Hafter as [Hd|[Hd|[_ Hd]]]; [left; rewrite Hd; reflexivity|left; rewrite Hd; apply Bool.orb_true_r|right; exact Hd]. }
    destruct (IH (ids ++ [id]) st2 [] _ rest inner K HL Hpre2 Hds2 B1 Hwf) as [st3 [Hpre3 [C1 [C2 [C3 [Hd3 Hrun3]]]]]].
    rewrite B2 in Hpre3, C2, Hrun3.
    exists st3. cbn [lv_T lv_stk lv_ids lv_outs]. fold f id sl. rewrite Eo.
    split; [exact Hpre3|]. split; [exact C1|]. split; [rewrite C2, levels_len_cons; fold f; lia|]. split; [congruence|].
    split; [exact Hd3|].
    intros n. rewrite !app_length, map_length. cbn [length].
    replace (length (outs_forest (b_off st) f T) +
             (length (pend_after (b_off st) f T) + S (length (lv_outs (b_off st + flen f + lv_hl lv) [] L))) + n)%nat
      with (length (outs_forest (b_off st) f T) +
            (length (pend_after (b_off st) f T) + 1 + (length (lv_outs (b_off st + flen f + lv_hl lv) [] L) + n)))%nat by lia.
    rewrite Hrun1, Hrun2, Hrun3, !rcat_rcat. f_equal. rewrite <- !app_assoc. reflexivity.
Qed.

(* ------------------------------------------------------------------ the input ends inside a tag *)
Lemma ktruncated_tag c st T stk ids ext x k : strict c -> c_buffered c = [] -> kpre st T stk ids ext ->
  (b_det st = true \/ all_ids (get_path (c_sp c) (root_id x)) = false \/ get_path (c_sp c) (root_id x) = []) ->
  kconf c ids x -> tlen x <= ext -> (0 < k < cut_limit x)%nat -> b_bytes st = firstn k (enc_tree x) ->
  forall n, snd (p_run_all (exhausted_count (b_off st) (T ++ stk) + S n) c st) =
            map end_out (firstn (exhausted_count (b_off st) (T ++ stk)) (T ++ stk)) ++ [OErr (cut_error (b_off st) x k)].
Proof.
  intros Hstrict Hnb Hpre Hdx Hconf Hext Hk Hb.
  assert (Hidx : idok (root_id x) /\ path_matches (get_path (c_sp c) (root_id x)) ids = true).
  { destruct x as [id v pl sl|id sz cs].
    - destruct Hconf as [Hid [_ [_ [_ [_ [Hpath _]]]]]]. split; assumption.
    - apply kconf_node in Hconf. destruct Hconf as [Hid [_ [_ [Hpath _]]]]. split; assumption. }
  destruct Hidx as [Hid Hpath].
  assert (Hpos : 0 < ext) by (pose proof (kconf_wf c x ids Hconf) as [_ H2]; lia).
  pose proof (kpre_step c st T stk ids _ (root_id x) Hpre Hpos Hdx Hpath Hnb) as Hstep.
  pose proof (kprep c st T stk (root_id x) _ Hstep) as Hprep. cbn zeta in Hprep.
  destruct Hprep as [P1 [P2 [P3 [P4 [P5 [P6 [P7 [Phier Proom]]]]]]]].
  pose proof Hpre as [Hs Hq Hbad Hf _ _ _]. rewrite Hs in *.
  set (k1 := exhausted_count (b_off st) (T ++ stk)) in *.
  set (st_a := ppop_frames st k1) in *.
  assert (Hne : b_bytes st <> []).
  { rewrite Hb. intros E. apply (f_equal (@length N)) in E. rewrite firstn_length in E. cbn [length] in E.
    pose proof (kconf_wf c x ids Hconf) as [_ H2]. unfold tlen in H2. lia. }
  set (idb := id_bytes (root_id x)) in *.
  destruct (idok_len _ Hid) as [Hidl Hidw]. fold idb in Hidl, Hidw.
  (* the encoding as id ++ field ++ body *)
  assert (Henc : exists sl osz body, enc_tree x = idb ++ fld sl osz ++ body /\ fsize_ok sl osz /\ hdr_len x = (length idb + fsl sl osz)%nat).
  { destruct x as [id v pl sl|id sz cs].
    - destruct Hconf as [_ [Hsl [Hlt _]]]. exists sl, (Some (N.of_nat (length pl))), pl. split; [reflexivity|]. split; [split; assumption|reflexivity].
    - apply kconf_node in Hconf. destruct Hconf as [_ [[sl [Esz [Hsl Hfl]]] _]]. subst sz. rewrite enc_tree_node.
      exists sl, (Some (flen cs)), (enc_forest cs). split; [reflexivity|]. split; [split; assumption|reflexivity]. }
  destruct Henc as [sl0 [osz [body [Henc [Hfs Hhl]]]]].
  unfold cut_error. fold idb.
  destruct (Nat.ltb_spec k (length idb)) as [Hk1|Hk1].
  - (* inside the id *)
    assert (Hp : b_bytes st_a = firstn k idb).
    { rewrite P1, Hb, Henc, firstn_app. replace (k - length idb)%nat with O by lia. cbn [firstn]. apply app_nil_r. }
    destruct (firstn_pfx k idb Hk1) as [q [Hqq Hqn]].
    assert (Hpn : firstn k idb <> []).
    { intros E. apply (f_equal (@length N)) in E. rewrite firstn_length in E. cbn in E. lia. }
    pose proof (id_prefix_eof st_a (root_id x) (firstn k idb) Hid (ex_intro _ q (conj Hqq Hqn)) Hpn Hp) as Hti.
    assert (Hh : p_header c st_a = (st_a, Err (REof (b_off st_a) None None None))) by (rewrite p_header_unfold, Hti; reflexivity).
    rewrite P2 in Hh. apply (err_run c st (T ++ stk) _ st_a Hs Hq Hbad Hf Hne (header_err_read c st_a _ Hh)); [reflexivity|exact P3|reflexivity].
  - destruct (Nat.ltb_spec k (hdr_len x)) as [Hk2|Hk2].
    + (* inside the size field *)
      rewrite Hhl in Hk2.
      assert (Hp : b_bytes st_a = idb ++ firstn (k - length idb) (fld sl0 osz)).
      { rewrite P1, Hb, Henc, firstn_app, firstn_all2 by lia. f_equal. rewrite firstn_app.
        replace (k - length idb - length (fld sl0 osz))%nat with O by (rewrite fld_length; lia). cbn [firstn]. apply app_nil_r. }
      assert (Hpf : pfx (firstn (k - length idb) (fld sl0 osz)) (fld sl0 osz)) by (apply firstn_pfx; rewrite fld_length; lia).
      pose proof (size_prefix_eof c st_a (root_id x) _ sl0 osz Hid Hfs Hpf Hp) as Hh. rewrite P2 in Hh.
      apply (err_run c st (T ++ stk) _ st_a Hs Hq Hbad Hf Hne (header_err_read c st_a _ Hh)); [reflexivity|exact P3|reflexivity].
    + (* inside the payload of an element *)
      destruct x as [id v pl sl|id sz cs]; [|cbn [cut_limit] in Hk; lia].
      destruct Hconf as [_ [Hsl [Hlt [Hwfp [[ty [Hty [Hnm Hdec]]] [_ Hmax]]]]]]. cbn [root_id] in *.
      cbn [cut_limit enc_tree hdr_len] in Hk, Hk2. rewrite !app_length, venc_length in Hk. change (id_bytes id) with idb in Hk, Hk2 |- *.
      set (hl := (length idb + sl)%nat) in *.
      set (p := firstn (k - hl) pl).
      assert (Hp : b_bytes st_a = idb ++ venc sl (N.of_nat (length pl)) ++ p).
      { rewrite P1, Hb. cbn [enc_tree]. fold idb. rewrite firstn_app, firstn_all2 by lia. f_equal.
        rewrite firstn_app, firstn_all2 by (rewrite venc_length; lia). f_equal. rewrite venc_length. unfold p, hl. f_equal. lia. }
      assert (Hwp : wf_bytes p) by (apply wf_firstn, Hwfp).
      assert (Hsz : N.of_nat (length pl) < 2 ^ (7 * N.of_nat sl)) by lia.
      pose proof (ebml_size_known _ _ Hlt) as Hes.
      assert (Hroom : p_invalid_tag_size st_a (N.of_nat hl + match ebml_size (N.of_nat (length pl)) sl with SKnown n => n | SUnknown => 0 end) = false).
      { rewrite Hes. apply Proom. rewrite tlen_leaf in Hext. cbn [hdr_len] in Hext. fold idb hl in Hext. exact Hext. }
      assert (Hmax' : size_ok c (ebml_size (N.of_nat (length pl)) sl)) by (rewrite Hes; exact Hmax).
      destruct (p_header_conf_g c st_a id ty sl (N.of_nat (length pl)) p Hstrict Hid Hsl Hsz Hwp Hp Hty (decodes_numeric ty pl v Hdec) P3 Phier Hroom Hmax')
        as [st1 [Hh [Hsame Hdet1]]].
      assert (Hhl' : length (idb ++ venc sl (N.of_nat (length pl))) = hl) by (rewrite app_length, venc_length; reflexivity).
      assert (Hp' : b_bytes st_a = (idb ++ venc sl (N.of_nat (length pl))) ++ p) by (rewrite Hp, app_assoc; reflexivity).
      destruct (pconsume_exact_g st_a st1 _ _ Hsame Hp') as [Hadv [Hbytes Hdetc]].
      rewrite Hhl' in Hadv, Hbytes. set (stc := pconsume st1 (N.of_nat hl)) in *.
      assert (Hplen : (length p < length pl)%nat) by (unfold p; rewrite firstn_length; lia).
      assert (Hread : p_read_tag c st_a = (stc, Err (REof (b_off st_a) (Some id) (Some (N.of_nat (length pl))) (Some p)))).
      { rewrite p_read_tag_unfold, Hh. unfold p_tag_tail. rewrite Hes. change (length (id_bytes id) + sl)%nat with hl. fold stc.
        assert (Hlt2 : (blen stc <? N.of_nat (length pl)) = true) by (unfold blen; rewrite Hbytes; apply N.ltb_lt; lia).
        rewrite Hbytes.
        destruct ty; try (contradiction Hnm; reflexivity); rewrite Hlt2; reflexivity. }
      rewrite P2 in Hread. destruct Hadv as [_ [_ [_ [A4 [A5 A6]]]]].
      replace (k - hdr_len (RLeaf id v pl sl))%nat with (k - hl)%nat by reflexivity. fold p.
      apply (err_run c st (T ++ stk) _ stc Hs Hq Hbad Hf Hne Hread); [exact A4|rewrite A5; exact P3|rewrite A6; exact P5].
Qed.

(* ------------------------------------------------------------------ how many outputs *)
Lemma kouts_pend_len c ids : forall l off T, Forall (kconf c ids) l ->
  (length (outs_forest off l T) + length (pend_after off l T) <= length T + length (enc_forest l))%nat.
Proof.
  intros l off T Hc. destruct l as [|x l']; [cbn [outs_forest pend_after enc_forest length]; lia|].
  unfold outs_forest, pend_after. rewrite app_length, map_length.
  pose proof (kitems_le_bytes_forest c ids (x :: l') off Hc) as Hle.
  rewrite <- (open_close_forest (x :: l') off), app_length, map_length in Hle. lia.
Qed.

Lemma klv_len c : forall L ids off T stk inner, kconf_levels c ids L inner ->
  (length (lv_outs off T L) + length (lv_T off T L) + length (lv_stk off stk L) <= length T + length stk + 2 * length (enc_levels L))%nat.
Proof.
  induction L as [|lv L IH]; intros ids off T stk inner Hc; [cbn; lia|].
  destruct Hc as [Hf [Hid [_ [_ [_ [Hsz [_ HL]]]]]]]. cbn [lv_outs lv_T lv_stk enc_levels].
  rewrite !app_length, map_length. cbn [length]. rewrite ?app_length.
  pose proof (kouts_pend_len c ids (lv_f lv) off T Hf) as H1.
  specialize (IH (ids ++ [lv_id lv]) (off + flen (lv_f lv) + lv_hl lv) []
                 (mframe (off + flen (lv_f lv)) (lv_id lv) (lv_sl lv) (lv_size lv) :: stk) inner HL). cbn [length] in IH.
  destruct (idok_len _ Hid) as [Hl _]. rewrite fld_length.
  assert (Hs : (1 <= fsl (lv_sl lv) (lv_size lv))%nat) by (destruct (lv_size lv); cbn; [destruct Hsz; lia|lia]).
  lia.
Qed.

(* ------------------------------------------------------------------ C12 for known-size documents with global elements *)
(* the incomplete tag, if it is the first element with a placeholder-free path, is a root element *)
Definition tail_start (c : cfg) (tl : cut_tail) : Prop :=
  match tl with
  | CutBoundary => True
  | CutTag x _ => all_ids (get_path (c_sp c) (root_id x)) = false \/ get_path (c_sp c) (root_id x) = []
  end.

(* the start hypothesis for a truncated document: in reading order (levels, innermost trees, incomplete tag) the first
   element declared with a placeholder-free path is a root element *)
Definition tdstart (c : cfg) (td : tdoc) : Prop :=
  lstart c (td_levels td) (dstart_k c (td_f td) (tail_start c (td_tail td))).

Definition kconf_tdoc (c : cfg) (td : tdoc) : Prop :=
  kconf_levels c [] (td_levels td) (flen (td_f td) + tail_ext (td_tail td)) /\
  Forall (kconf c (lv_ids [] (td_levels td))) (td_f td) /\
  match td_tail td with
  | CutBoundary => True
  | CutTag x k => kconf c (lv_ids [] (td_levels td)) x /\ (0 < k < cut_limit x)%nat
  end /\
  tdstart c td.

(* the usual case: the very first element of the truncated document is a root element *)
Definition tdoc_first_id (td : tdoc) : option N :=
  match td_levels td with
  | lv :: _ => match lv_f lv with t :: _ => Some (rid t) | [] => Some (lv_id lv) end
  | [] => match td_f td with
          | t :: _ => Some (rid t)
          | [] => match td_tail td with CutBoundary => None | CutTag x _ => Some (root_id x) end
          end
  end.

Lemma tdoc_root_start c td :
  match tdoc_first_id td with Some id => get_path (c_sp c) id = [] | None => True end -> tdstart c td.
Proof.
  destruct td as [L f tl]. unfold tdoc_first_id, tdstart. cbn [td_levels td_f td_tail].
  destruct L as [|lv L].
  - cbn [lstart]. destruct f as [|t f].
    + cbn [dstart_k]. destruct tl as [|x k]; cbn [tail_start]; [trivial|]. intros H. right. exact H.
    + intros H. cbn [dstart_k]. left. exact H.
  - cbn [lstart]. destruct (lv_f lv) as [|t g].
    + intros H. cbn [dstart_k]. left. exact H.
    + intros H. cbn [dstart_k]. left. exact H.
Qed.

Lemma kwf_firstn_enc c ids x k : kconf c ids x -> wf_bytes (firstn k (enc_tree x)).
Proof. intros H. apply wf_firstn. apply (kconf_wf c x ids H). Qed.

Theorem truncated_run_known c td : strict c -> c_buffered c = [] -> c_emit_eof c = true -> kconf_tdoc c td ->
  p_run c (enc_tdoc td) [RAll] = out_tdoc td.
Proof.
  intros Hstrict Hnb He [HL [Hf [Htl Hst]]]. unfold p_run. rewrite run_ops_all.
  destruct td as [L f tl]. unfold tdstart in Hst. cbn [td_levels td_f td_tail] in *. unfold enc_tdoc, out_tdoc. cbn [td_levels td_f td_tail].
  set (input := enc_levels L ++ enc_forest f ++ tail_bytes tl). set (st0 := p_init input).
  set (inner := flen f + tail_ext tl) in *.
  assert (Hwt : wf_bytes (tail_bytes tl)).
  { destruct tl as [|x k]; [constructor|]. destruct Htl as [Hx _]. apply (kwf_firstn_enc c _ x k Hx). }
  assert (Hwf1 : wf_bytes (enc_forest f ++ tail_bytes tl)) by (apply wf_app; [apply (kconf_wf_forest c _ f Hf)|exact Hwt]).
  assert (Hpre0 : kpre st0 [] [] [] (levels_ext L inner)).
  { constructor; try reflexivity.
    - unfold st0, p_init, default_fuel. cbn [b_fuel]. lia.
    - constructor.
    - constructor. }
  destruct (kdescend c Hstrict Hnb L [] st0 [] [] _ inner _ HL Hpre0 (or_intror Hst) eq_refl Hwf1) as [st1 [Hpre1 [B1 [B2 [B3 [Hd1 Hrun1]]]]]].
  change (b_off st0) with 0 in *. rewrite N.add_0_l in B2.
  set (T1 := lv_T 0 [] L) in *. set (stk1 := lv_stk 0 [] L) in *. set (ids1 := lv_ids [] L) in *.
  assert (HP : Forall (KPtree c) f) by (apply Forall_forall; intros t _; apply kparse_tree; assumption).
  assert (Hpre1' : kpre st1 T1 stk1 ids1 (flen f)) by (eapply kpre_weaken; [|exact Hpre1]; unfold inner; lia).
  assert (Hds1 : b_det st1 = true \/ dstart c f).
  { destruct Hd1 as [Hd|Hd]; [left; exact Hd|right; apply (dstart_k_dstart c _ f Hd)]. }
  destruct (kparse_forest c f HP ids1 Hf st1 T1 stk1 _ Hpre1' Hds1 B1 Hwt) as [st2 [Hat2 [Hd2 Hrun2]]].
  rewrite B2 in Hat2, Hrun2.
  assert (Hat2' : at_ st2 (b_bytes st2) (b_off st1 + flen f) (pend_after (b_off st1) f T1 ++ stk1) (b_fuel st1)).
  { rewrite B2. destruct Hat2 as [A1 [A2 [A3 [A4 [A5 A6]]]]]. repeat split; assumption. }
  assert (Hle : flen f <= inner) by (unfold inner; lia).
  pose proof (kpre_after_forest c st1 st2 T1 stk1 ids1 inner f Hpre1 Hf Hle Hat2') as Hpre2. rewrite B2 in Hpre2.
  assert (Hafter : b_det st2 = true \/ tail_start c tl).
  { rewrite Hd2. destruct Hd1 as [Hd|Hd]; [left; rewrite Hd; reflexivity|].
    destruct (dstart_k_after c _ f Hd) as [Hg|Hk]; [left; rewrite Hg; apply Bool.orb_true_r|right; exact Hk]. }
  destruct Hat2 as [A1 [A2 [A3 [A4 [A5 A6]]]]].
  set (P := pend_after (levels_len L) f T1 ++ stk1) in *.
  (* counting *)
  pose proof (klv_len c L [] 0 [] [] inner HL) as Hc1. cbn [length] in Hc1. fold T1 stk1 in Hc1.
  pose proof (kouts_pend_len c ids1 f (levels_len L) T1 Hf) as Hc2.
  assert (HPl : length P = (length (pend_after (levels_len L) f T1) + length stk1)%nat) by (unfold P; apply app_length).
  assert (Hin : length input = (length (enc_levels L) + (length (enc_forest f) + length (tail_bytes tl)))%nat)
    by (unfold input; rewrite !app_length; reflexivity).
  assert (Hf2 : (1 <= b_fuel st2)%nat) by (rewrite A6, B3; unfold st0, p_init, default_fuel; cbn [b_fuel]; lia).
  set (a := length (lv_outs 0 [] L)) in *. set (b := length (outs_forest (levels_len L) f T1)) in *.
  destruct tl as [|x k].
  - (* the cut is on a tag boundary: every open master ends, then None *)
    cbn [tail_bytes] in *.
    replace (4 * length input + 64)%nat with (a + (b + (length P + S (4 * length input + 63 - a - b - length P))))%nat by lia.
    rewrite Hrun1, Hrun2.
    pose proof (eof_ends c st2 (4 * length input + 63 - a - b - length P) A1 A4 A5 Hf2 He) as Hend. rewrite A3 in Hend. fold P in Hend.
    unfold rcat. cbn [snd]. rewrite Hend. reflexivity.
  - (* the cut is inside a tag *)
    destruct Htl as [Hx Hk]. cbn [tail_bytes tail_ext tail_start] in *.
    assert (Hext : tlen x <= inner - flen f) by (unfold inner; lia).
    assert (Hdx : b_det st2 = true \/ all_ids (get_path (c_sp c) (root_id x)) = false \/ get_path (c_sp c) (root_id x) = []).
    { destruct Hafter as [Hd|Hd]; [left; exact Hd|right; exact Hd]. }
    pose proof (ktruncated_tag c st2 _ stk1 ids1 _ x k Hstrict Hnb Hpre2 Hdx Hx Hext Hk A1) as Htr. rewrite A2 in Htr. fold P in Htr.
    set (k1 := exhausted_count (levels_len L + flen f) P) in *.
    assert (Hk1 : (k1 <= length P)%nat) by apply exh_le.
    replace (4 * length input + 64)%nat with (a + (b + (k1 + S (4 * length input + 63 - a - b - k1))))%nat by lia.
    rewrite Hrun1, Hrun2. unfold rcat. cbn [snd]. rewrite Htr. reflexivity.
Qed.

(* ------------------------------------------------------------------ every prefix of a known-size document *)
(* [cut_doc] (Proofs/CutExists.v) and the fact that its encoding is the prefix ([cut_forest_enc], [cut_tree_enc]) do not
   depend on the class; what has to be re-proved is that the cut result conforms, within its extent, and that it inherits
   the start hypothesis *)
Definition kgood (c : cfg) (ids : list N) (r : cutres) (n : N) : Prop :=
  let '(L, g, tl) := r in
  kconf_levels c ids L (flen g + tail_ext tl) /\
  Forall (kconf c (lv_ids ids L)) g /\
  match tl with CutBoundary => True | CutTag x j => kconf c (lv_ids ids L) x /\ (0 < j < cut_limit x)%nat end /\
  levels_ext L (flen g + tail_ext tl) <= n.

Lemma kgood_weaken c ids r n m : kgood c ids r n -> n <= m -> kgood c ids r m.
Proof.
  destruct r as [[L g] tl]. intros [H1 [H2 [H3 H4]]] Hle. split; [exact H1|]. split; [exact H2|]. split; [exact H3|]. lia.
Qed.

Lemma kgood_boundary c ids n : kgood c ids ([], [], CutBoundary) n.
Proof.
  cbn [kgood kconf_levels lv_ids tail_ext levels_ext]. split; [exact I|]. split; [constructor|]. split; [exact I|].
  rewrite flen_nil. lia.
Qed.

Lemma kgood_tag c ids x k : kconf c ids x -> (0 < k < cut_limit x)%nat -> kgood c ids ([], [], CutTag x k) (tlen x).
Proof.
  intros Hx Hk. cbn [kgood kconf_levels lv_ids tail_ext levels_ext]. split; [exact I|]. split; [constructor|].
  split; [split; [exact Hx|exact Hk]|]. rewrite flen_nil. lia.
Qed.

Lemma kgood_prepend c ids x r n : kconf c ids x -> kgood c ids r n -> kgood c ids (prepend x r) (tlen x + n).
Proof.
  intros Hx. destruct r as [[[|lv L] g] tl]; intros [H1 [H2 [H3 H4]]].
  - cbn [prepend kgood kconf_levels lv_ids levels_ext] in *. split; [exact I|]. split; [constructor; assumption|].
    split; [exact H3|]. rewrite flen_cons. lia.
  - cbn [prepend kgood]. cbn [kconf_levels lv_ids levels_ext lv_f lv_id lv_sl lv_size] in *.
    destruct H1 as [Hf [Hid [Hty [Hpath [Hin [Hsz [Hmax HL]]]]]]].
    split.
    { split; [constructor; assumption|]. split; [exact Hid|]. split; [exact Hty|]. split; [exact Hpath|]. split; [exact Hin|].
      split; [exact Hsz|]. split; [exact Hmax|exact HL]. }
    split; [exact H2|]. split; [exact H3|].
    rewrite flen_cons. unfold lv_hl in *. cbn [lv_id lv_sl lv_size] in *. lia.
Qed.

Lemma kgood_open c ids id sz cs r : kconf c ids (RNode id sz cs) -> kgood c (ids ++ [id]) r (flen cs) ->
  kgood c ids (open_level (node_level id sz cs) r) (tlen (RNode id sz cs)).
Proof.
  intros Hc. apply kconf_node in Hc. destruct Hc as [Hid [[sl [Esz [Hsl Hfl]]] [Hty [Hpath [Hmax Hcs]]]]]. subst sz.
  destruct r as [[L g] tl]; intros [H1 [H2 [H3 H4]]]. cbn [open_level kgood].
  cbn [kconf_levels lv_ids levels_ext]. rewrite node_level_hl. cbn [node_level lv_f lv_id lv_sl lv_size node_size node_sl].
  split.
  { split; [constructor|]. split; [exact Hid|]. split; [exact Hty|]. split; [exact Hpath|]. split.
    { exists (flen cs). split; [reflexivity|exact H4]. }
    split; [split; assumption|]. split; [exact Hmax|exact H1]. }
  split; [exact H2|]. split; [exact H3|].
  rewrite tlen_node, flen_nil. lia.
Qed.

Lemma kcut_forest_good c : forall l,
  Forall (fun t => forall ids k, kconf c ids t -> (0 < k < length (enc_tree t))%nat -> kgood c ids (cut_tree t k) (tlen t)) l ->
  forall ids k, Forall (kconf c ids) l -> (k <= length (enc_forest l))%nat -> kgood c ids (cut_forest l k) (flen l).
Proof.
  induction l as [|x l IH]; intros HF ids k Hc Hk.
  - rewrite cut_forest_nil. apply kgood_boundary.
  - apply Forall_cons_iff in HF. destruct HF as [Hx Hl]. apply Forall_cons_iff in Hc. destruct Hc as [Hcx Hcl].
    cbn [enc_forest] in Hk. rewrite app_length in Hk. rewrite cut_forest_cons, flen_cons.
    destruct (Nat.leb_spec (length (enc_tree x)) k) as [Hle|Hlt].
    + apply kgood_prepend; [exact Hcx|]. apply (IH Hl); [exact Hcl|lia].
    + destruct (Nat.eqb_spec k 0) as [->|Hk0]; [apply kgood_boundary|].
      apply kgood_weaken with (n := tlen x); [|lia]. apply Hx; [exact Hcx|lia].
Qed.

Lemma kcut_tree_good c : forall t ids k, kconf c ids t -> (0 < k < length (enc_tree t))%nat -> kgood c ids (cut_tree t k) (tlen t).
Proof.
  induction t as [id v pl sl|id sz cs IH] using rtree_ind'; intros ids k Hc Hk.
  - rewrite cut_tree_leaf. apply kgood_tag; [exact Hc|exact Hk].
  - rewrite cut_tree_node. destruct (Nat.ltb_spec k (hdr_len (RNode id sz cs))) as [Hlt|Hle].
    + apply kgood_tag; [exact Hc|]. cbn [cut_limit]. lia.
    + apply kgood_open; [exact Hc|].
      pose proof Hc as Hc'. apply kconf_node in Hc'. destruct Hc' as [_ [_ [_ [_ [_ Hcs]]]]].
      apply (kcut_forest_good c cs IH); [exact Hcs|].
      assert (Hl : N.of_nat (length (enc_tree (RNode id sz cs))) = N.of_nat (hdr_len (RNode id sz cs)) + N.of_nat (length (enc_forest cs)))
        by apply tlen_node.
      lia.
Qed.

(* the start hypothesis of the cut result *)
Definition rstart (c : cfg) (r : cutres) : Prop :=
  let '(L, g, tl) := r in lstart c L (dstart_k c g (tail_start c tl)).

Lemma rstart_prepend c x r : get_path (c_sp c) (rid x) = [] \/ (globb c x = true /\ rstart c r) -> rstart c (prepend x r).
Proof.
  destruct r as [[[|lv L] g] tl]; intros H.
  - cbn [prepend rstart lstart dstart_k] in *. exact H.
  - cbn [prepend rstart lstart dstart_k lv_f lv_id] in *. exact H.
Qed.

Lemma rstart_open c id sz cs r : get_path (c_sp c) id = [] \/ (all_ids (get_path (c_sp c) id) = false /\ rstart c r) ->
  rstart c (open_level (node_level id sz cs) r).
Proof.
  destruct r as [[L g] tl]; intros H. cbn [open_level rstart lstart node_level lv_f lv_id dstart_k] in *. exact H.
Qed.

Lemma rstart_tag c t k : get_path (c_sp c) (rid t) = [] \/ globb c t = true -> rstart c ([], [], CutTag t k).
Proof.
  intros H. cbn [rstart lstart dstart_k tail_start]. change (root_id t) with (rid t).
  destruct H as [H|H]; [right; exact H|left; apply (globb_rid c t H)].
Qed.

Lemma kcut_forest_start c : forall l,
  Forall (fun t => forall k, get_path (c_sp c) (rid t) = [] \/ globb c t = true -> rstart c (cut_tree t k)) l ->
  dstart c l -> forall k, rstart c (cut_forest l k).
Proof.
  induction l as [|x l IH]; intros HF Hd k.
  - rewrite cut_forest_nil. exact I.
  - apply Forall_cons_iff in HF. destruct HF as [Hx Hl]. cbn [dstart] in Hd. rewrite cut_forest_cons.
    destruct (Nat.leb_spec (length (enc_tree x)) k) as [Hle|Hlt].
    + apply rstart_prepend. destruct Hd as [Hd|[Hg Hd]]; [left; exact Hd|right]. split; [exact Hg|apply (IH Hl Hd)].
    + destruct (Nat.eqb_spec k 0) as [->|Hk0]; [exact I|]. apply Hx.
      destruct Hd as [Hd|[Hg _]]; [left; exact Hd|right; exact Hg].
Qed.

Lemma kcut_tree_start c : forall t k, get_path (c_sp c) (rid t) = [] \/ globb c t = true -> rstart c (cut_tree t k).
Proof.
  induction t as [id v pl sl|id sz cs IH] using rtree_ind'; intros k H.
  - rewrite cut_tree_leaf. apply rstart_tag, H.
  - rewrite cut_tree_node. destruct (Nat.ltb_spec k (hdr_len (RNode id sz cs))) as [Hlt|Hle].
    + apply rstart_tag, H.
    + apply rstart_open. cbn [rid] in H. destruct H as [H|H]; [left; exact H|right].
      rewrite globb_node in H. apply Bool.andb_true_iff in H. destruct H as [H1 H2].
      split; [apply Bool.negb_true_iff, H1|]. apply (kcut_forest_start c cs IH). apply globb_dstart, H2.
Qed.

Theorem cut_forest_correct_known c ids l k : Forall (kconf c ids) l -> (k <= length (enc_forest l))%nat -> dstart c l ->
  kgood c ids (cut_forest l k) (flen l) /\ rstart c (cut_forest l k) /\ enc_res (cut_forest l k) = firstn k (enc_forest l).
Proof.
  intros Hc Hk Hd. split; [|split].
  - apply kcut_forest_good; [|exact Hc|exact Hk]. apply Forall_forall. intros t _. apply kcut_tree_good.
  - apply kcut_forest_start; [|exact Hd]. apply Forall_forall. intros t _. apply kcut_tree_start.
  - apply cut_forest_enc. apply Forall_forall. intros t _. apply cut_tree_enc.
Qed.

(* every cut of every conforming known-size document (global elements allowed) IS a truncated document of this class *)
Theorem cut_doc_correct_known : forall c f k, Forall (kconf c []) f -> (k <= length (enc_forest f))%nat -> dstart c f ->
  kconf_tdoc c (cut_doc f k) /\ enc_tdoc (cut_doc f k) = firstn k (enc_forest f).
Proof.
  intros c f k Hc Hk Hd. destruct (cut_forest_correct_known c [] f k Hc Hk Hd) as [Hg [Hs He]]. unfold cut_doc.
  destruct (cut_forest f k) as [[L g] tl]. destruct Hg as [H1 [H2 [H3 _]]].
  split; [|exact He]. unfold kconf_tdoc, tdstart. cbn [td_levels td_f td_tail]. split; [exact H1|]. split; [exact H2|].
  split; [|exact Hs]. destruct tl as [|x j]; [exact I|exact H3].
Qed.

(* ... and reads as such: the complete items, then the Ends and None (cut on a tag boundary) or the accurate end-of-file
   error (cut inside a tag) *)
Corollary every_prefix_reads_known : forall c f k, strict c -> c_buffered c = [] -> c_emit_eof c = true ->
  Forall (kconf c []) f -> dstart c f -> (k <= length (enc_forest f))%nat ->
  p_run c (firstn k (enc_forest f)) [RAll] = out_tdoc (cut_doc f k).
Proof.
  intros c f k Hs Hb He Hc Hd Hk. destruct (cut_doc_correct_known c f k Hc Hk Hd) as [Hconf Henc].
  rewrite <- Henc. apply truncated_run_known; assumption.
Qed.
