(* C12, existence: every prefix of the encoding of every conforming document IS a truncated document in the sense of
   Proofs/Partial.v.  [cut_doc f k] computes the truncated document for the first k bytes of [enc_forest f]: the masters whose
   header is complete at the cut stay open (each with its DECLARED size), the cut itself is on a tag boundary or inside the
   id / size field of a tag or inside the payload of an element. *)
From Ebml Require Import Base Tools Spec Writer Reader Pure Encode.
From Ebml Require Import Proofs.Tactics Proofs.BytesProofs Proofs.VintProofs Proofs.DecodersProofs Proofs.SpecProofs Proofs.ReaderIO Proofs.Refine Proofs.PureProofs Proofs.RoundTrip Proofs.Partial.
Import ListNotations.
Local Open Scope N_scope.

(* ------------------------------------------------------------------ the cut function *)
Definition cutres : Type := (list level * list rtree * cut_tail)%type.

(* put a complete tree in front of a cut result at the same level *)
Definition prepend (x : rtree) (r : cutres) : cutres :=
  let '(L, f, tl) := r in
  match L with
  | [] => ([], x :: f, tl)
  | lv :: L' => ({| lv_f := x :: lv_f lv; lv_id := lv_id lv; lv_sl := lv_sl lv; lv_size := lv_size lv |} :: L', f, tl)
  end.

(* the level of a master whose header is complete: exactly the width and the declared size [enc_tree] writes *)
Definition node_size (sz : option nat) (cs : list rtree) : option N :=
  match sz with Some _ => Some (flen cs) | None => None end.
Definition node_level (id : N) (sz : option nat) (cs : list rtree) : level :=
  {| lv_f := []; lv_id := id; lv_sl := node_sl sz; lv_size := node_size sz cs |}.
Definition open_level (lv : level) (r : cutres) : cutres := let '(L, f, tl) := r in (lv :: L, f, tl).

(* cut a tree after k bytes, 0 < k < length (enc_tree t) *)
Fixpoint cut_tree (t : rtree) (k : nat) {struct t} : cutres :=
  match t with
  | RLeaf _ _ _ _ => ([], [], CutTag t k)
  | RNode id sz cs =>
      if (k <? hdr_len t)%nat then ([], [], CutTag t k) else
      open_level (node_level id sz cs)
        ((fix go (l : list rtree) (k : nat) {struct l} : cutres :=
            match l with
            | [] => ([], [], CutBoundary)
            | x :: l' => if (length (enc_tree x) <=? k)%nat then prepend x (go l' (k - length (enc_tree x))%nat)
                         else if (k =? 0)%nat then ([], [], CutBoundary) else cut_tree x k
            end) cs (k - hdr_len t)%nat)
  end.

(* cut a forest after k bytes, k <= length (enc_forest l) *)
Fixpoint cut_forest (l : list rtree) (k : nat) {struct l} : cutres :=
  match l with
  | [] => ([], [], CutBoundary)
  | x :: l' => if (length (enc_tree x) <=? k)%nat then prepend x (cut_forest l' (k - length (enc_tree x))%nat)
               else if (k =? 0)%nat then ([], [], CutBoundary) else cut_tree x k
  end.

Definition cut_doc (f : list rtree) (k : nat) : tdoc :=
  let '(L, g, tl) := cut_forest f k in {| td_levels := L; td_f := g; td_tail := tl |}.

(* ------------------------------------------------------------------ unfolding *)
Lemma cut_tree_leaf id v pl sl k : cut_tree (RLeaf id v pl sl) k = ([], [], CutTag (RLeaf id v pl sl) k).
Proof. reflexivity. Qed.

Lemma cut_tree_node id sz cs k :
  cut_tree (RNode id sz cs) k =
  if (k <? hdr_len (RNode id sz cs))%nat then ([], [], CutTag (RNode id sz cs) k)
  else open_level (node_level id sz cs) (cut_forest cs (k - hdr_len (RNode id sz cs))%nat).
Proof.
  cbn [cut_tree].
  assert (H : forall j,
    (fix go (l : list rtree) (k : nat) {struct l} : cutres :=
       match l with
       | [] => ([], [], CutBoundary)
       | x :: l' => if (length (enc_tree x) <=? k)%nat then prepend x (go l' (k - length (enc_tree x))%nat)
                    else if (k =? 0)%nat then ([], [], CutBoundary) else cut_tree x k
       end) cs j = cut_forest cs j).
  { induction cs as [|x cs IH]; intros j; [reflexivity|]. cbn [cut_forest]. rewrite IH. reflexivity. }
  rewrite H. reflexivity.
Qed.

Lemma cut_forest_nil k : cut_forest [] k = ([], [], CutBoundary).
Proof. reflexivity. Qed.

Lemma cut_forest_cons x l k :
  cut_forest (x :: l) k =
  if (length (enc_tree x) <=? k)%nat then prepend x (cut_forest l (k - length (enc_tree x))%nat)
  else if (k =? 0)%nat then ([], [], CutBoundary) else cut_tree x k.
Proof. reflexivity. Qed.

(* ------------------------------------------------------------------ (E) the bytes of the cut result are the prefix *)
Definition enc_res (r : cutres) : list N := let '(L, g, tl) := r in enc_levels L ++ enc_forest g ++ tail_bytes tl.

Lemma enc_prepend x r : enc_res (prepend x r) = enc_tree x ++ enc_res r.
Proof.
  destruct r as [[[|lv L] g] tl]; cbn [prepend enc_res enc_levels enc_forest lv_f lv_id lv_sl lv_size app];
    rewrite <- ?app_assoc; reflexivity.
Qed.

Lemma fld_node sz cs : fld (node_sl sz) (node_size sz cs) = node_field sz cs.
Proof. destruct sz; reflexivity. Qed.

Lemma enc_open id sz cs r : enc_res (open_level (node_level id sz cs) r) = id_bytes id ++ node_field sz cs ++ enc_res r.
Proof.
  destruct r as [[L g] tl]. cbn [open_level enc_res enc_levels node_level lv_f lv_id lv_sl lv_size enc_forest app].
  rewrite fld_node, <- !app_assoc. reflexivity.
Qed.

Lemma cut_forest_enc : forall l, Forall (fun t => forall k, enc_res (cut_tree t k) = firstn k (enc_tree t)) l ->
  forall k, enc_res (cut_forest l k) = firstn k (enc_forest l).
Proof.
  induction l as [|x l IH]; intros HF k.
  - rewrite cut_forest_nil. cbn [enc_res enc_levels enc_forest tail_bytes app]. rewrite firstn_nil. reflexivity.
  - inversion HF as [|? ? Hx Hl]; subst. rewrite cut_forest_cons. cbn [enc_forest]. rewrite firstn_app.
    destruct (Nat.leb_spec (length (enc_tree x)) k) as [Hle|Hlt].
    + rewrite enc_prepend, (IH Hl), (firstn_all2 (enc_tree x) Hle). reflexivity.
    + replace (k - length (enc_tree x))%nat with O by lia. cbn [firstn]. rewrite app_nil_r.
      destruct (Nat.eqb_spec k 0) as [->|Hk]; [reflexivity|]. apply Hx.
Qed.

Lemma cut_tree_enc : forall t k, enc_res (cut_tree t k) = firstn k (enc_tree t).
Proof.
  induction t as [id v pl sl|id sz cs IH] using rtree_ind'; intros k.
  - rewrite cut_tree_leaf. cbn [enc_res enc_levels enc_forest tail_bytes app]. reflexivity.
  - rewrite cut_tree_node. destruct (Nat.ltb_spec k (hdr_len (RNode id sz cs))) as [Hlt|Hle].
    + cbn [enc_res enc_levels enc_forest tail_bytes app]. reflexivity.
    + rewrite enc_open, (cut_forest_enc cs IH), enc_tree_node. fold (node_field sz cs).
      assert (Hl : length (id_bytes id ++ node_field sz cs) = hdr_len (RNode id sz cs))
        by (rewrite app_length, node_field_length, hdr_len_node; reflexivity).
      rewrite (app_assoc (id_bytes id) (node_field sz cs) (enc_forest cs)), firstn_app, Hl.
      assert (Hle' : (length (id_bytes id ++ node_field sz cs) <= k)%nat) by (rewrite Hl; exact Hle).
      rewrite (firstn_all2 _ Hle'), <- app_assoc. reflexivity.
Qed.

(* ------------------------------------------------------------------ (C), (X) the cut result conforms, within its extent *)
Definition good (c : cfg) (ids : list N) (r : cutres) (n : N) : Prop :=
  let '(L, g, tl) := r in
  conf_levels c ids L (flen g + tail_ext tl) /\
  Forall (conf c (lv_ids ids L)) g /\
  match tl with CutBoundary => True | CutTag x j => conf c (lv_ids ids L) x /\ (0 < j < cut_limit x)%nat end /\
  levels_ext L (flen g + tail_ext tl) <= n.

Lemma good_weaken c ids r n m : good c ids r n -> n <= m -> good c ids r m.
Proof.
  destruct r as [[L g] tl]. intros [H1 [H2 [H3 H4]]] Hle. split; [exact H1|]. split; [exact H2|]. split; [exact H3|]. lia.
Qed.

Lemma good_boundary c ids n : good c ids ([], [], CutBoundary) n.
Proof.
  cbn [good conf_levels lv_ids tail_ext levels_ext]. split; [exact I|]. split; [constructor|]. split; [exact I|].
  rewrite flen_nil. lia.
Qed.

Lemma good_tag c ids x k : conf c ids x -> (0 < k < cut_limit x)%nat -> good c ids ([], [], CutTag x k) (tlen x).
Proof.
  intros Hx Hk. cbn [good conf_levels lv_ids tail_ext levels_ext]. split; [exact I|]. split; [constructor|].
  split; [split; [exact Hx|exact Hk]|]. rewrite flen_nil. lia.
Qed.

Lemma good_prepend c ids x r n : conf c ids x -> good c ids r n -> good c ids (prepend x r) (tlen x + n).
Proof.
  intros Hx. destruct r as [[[|lv L] g] tl]; intros [H1 [H2 [H3 H4]]].
  - cbn [prepend good conf_levels lv_ids levels_ext] in *. split; [exact I|]. split; [constructor; assumption|].
    split; [exact H3|]. rewrite flen_cons. lia.
  - cbn [prepend good]. cbn [conf_levels lv_ids levels_ext lv_f lv_id lv_sl lv_size] in *.
    destruct H1 as [Hf [Hid [Hty [Hpath [Hsz [Hmax [Hin HL]]]]]]].
    split.
    { split; [constructor; assumption|]. split; [exact Hid|]. split; [exact Hty|]. split; [exact Hpath|]. split; [exact Hsz|].
      split; [exact Hmax|]. split; [exact Hin|exact HL]. }
    split; [exact H2|]. split; [exact H3|].
    rewrite flen_cons. unfold lv_hl in *. cbn [lv_id lv_sl lv_size] in *. lia.
Qed.

Lemma node_level_hl id sz cs : lv_hl (node_level id sz cs) = N.of_nat (hdr_len (RNode id sz cs)).
Proof. unfold lv_hl. cbn [node_level lv_id lv_sl lv_size]. rewrite hdr_len_node. destruct sz; reflexivity. Qed.

Lemma good_open c ids id sz cs r : conf c ids (RNode id sz cs) -> good c (ids ++ [id]) r (flen cs) ->
  good c ids (open_level (node_level id sz cs) r) (tlen (RNode id sz cs)).
Proof.
  intros Hc. apply conf_node in Hc. destruct Hc as [Hid [Hsz [Hty [Hpath [Hmax Hcs]]]]].
  destruct r as [[L g] tl]; intros [H1 [H2 [H3 H4]]]. cbn [open_level good].
  cbn [conf_levels lv_ids levels_ext]. rewrite node_level_hl. cbn [node_level lv_f lv_id lv_sl lv_size].
  split.
  { split; [constructor|]. split; [exact Hid|]. split; [exact Hty|]. split; [exact Hpath|]. split.
    { destruct sz as [sl|]; cbn [node_size node_sl fsize_ok]; [apply Hsz; reflexivity|exact I]. }
    split.
    { destruct sz as [sl|]; exact Hmax. }
    split; [|exact H1].
    intros n Hn. destruct sz as [sl|]; cbn [node_size] in Hn; [|discriminate]. injection Hn as <-. exact H4. }
  split; [exact H2|]. split; [exact H3|].
  rewrite tlen_node, flen_nil. destruct sz as [sl|]; cbn [node_size]; lia.
Qed.

Lemma cut_forest_good c : forall l,
  Forall (fun t => forall ids k, conf c ids t -> (0 < k < length (enc_tree t))%nat -> good c ids (cut_tree t k) (tlen t)) l ->
  forall ids k, Forall (conf c ids) l -> (k <= length (enc_forest l))%nat -> good c ids (cut_forest l k) (flen l).
Proof.
  induction l as [|x l IH]; intros HF ids k Hc Hk.
  - rewrite cut_forest_nil. apply good_boundary.
  - inversion HF as [|? ? Hx Hl]; subst. inversion Hc as [|? ? Hcx Hcl]; subst.
    cbn [enc_forest] in Hk. rewrite app_length in Hk. rewrite cut_forest_cons, flen_cons.
    destruct (Nat.leb_spec (length (enc_tree x)) k) as [Hle|Hlt].
    + apply good_prepend; [exact Hcx|]. apply (IH Hl); [exact Hcl|lia].
    + destruct (Nat.eqb_spec k 0) as [->|Hk0]; [apply good_boundary|].
      apply good_weaken with (n := tlen x); [|lia]. apply Hx; [exact Hcx|lia].
Qed.

Lemma cut_tree_good c : forall t ids k, conf c ids t -> (0 < k < length (enc_tree t))%nat -> good c ids (cut_tree t k) (tlen t).
Proof.
  induction t as [id v pl sl|id sz cs IH] using rtree_ind'; intros ids k Hc Hk.
  - rewrite cut_tree_leaf. apply good_tag; [exact Hc|exact Hk].
  - rewrite cut_tree_node. destruct (Nat.ltb_spec k (hdr_len (RNode id sz cs))) as [Hlt|Hle].
    + apply good_tag; [exact Hc|]. cbn [cut_limit]. lia.
    + apply good_open; [exact Hc|].
      pose proof Hc as Hc'. apply conf_node in Hc'. destruct Hc' as [_ [_ [_ [_ [_ Hcs]]]]].
      apply (cut_forest_good c cs IH); [exact Hcs|].
      assert (Hl : N.of_nat (length (enc_tree (RNode id sz cs))) = N.of_nat (hdr_len (RNode id sz cs)) + N.of_nat (length (enc_forest cs)))
        by apply tlen_node.
      lia.
Qed.

(* ------------------------------------------------------------------ the theorems *)
Theorem cut_forest_correct c ids l k : Forall (conf c ids) l -> (k <= length (enc_forest l))%nat ->
  good c ids (cut_forest l k) (flen l) /\ enc_res (cut_forest l k) = firstn k (enc_forest l).
Proof.
  intros Hc Hk. split.
  - apply cut_forest_good; [|exact Hc|exact Hk]. apply Forall_forall. intros t _. apply cut_tree_good.
  - apply cut_forest_enc. apply Forall_forall. intros t _. apply cut_tree_enc.
Qed.

Theorem cut_doc_correct : forall c f k, Forall (conf c []) f -> (k <= length (enc_forest f))%nat ->
  conf_tdoc c (cut_doc f k) /\ enc_tdoc (cut_doc f k) = firstn k (enc_forest f).
Proof.
  intros c f k Hc Hk. destruct (cut_forest_correct c [] f k Hc Hk) as [Hg He]. unfold cut_doc.
  destruct (cut_forest f k) as [[L g] tl]. destruct Hg as [H1 [H2 [H3 _]]].
  split; [|exact He]. unfold conf_tdoc. cbn [td_levels td_f td_tail]. split; [exact H1|]. split; [exact H2|].
  destruct tl as [|x j]; [exact I|exact H3].
Qed.

(* every prefix of a conforming document reads as the truncated document [cut_doc] computes: the complete items, then the Ends
   and None (cut on a tag boundary) or the accurate end-of-file error (cut inside a tag) *)
Corollary every_prefix_reads : forall c f k, strict c -> c_buffered c = [] -> c_emit_eof c = true -> Forall (conf c []) f ->
  (k <= length (enc_forest f))%nat -> p_run c (firstn k (enc_forest f)) [RAll] = out_tdoc (cut_doc f k).
Proof.
  intros c f k Hs Hb He Hc Hk. destruct (cut_doc_correct c f k Hc Hk) as [Hconf Henc].
  rewrite <- Henc. apply truncated_run; assumption.
Qed.
