(* Audit round, items A1: the composed write -> read statements of C01 and the read -> write -> read statements of C02 with
   conclusions on the outcome list itself ([p_run ... = items ++ [ONone]]) instead of its image under [out_tag], which maps
   every non-item outcome (ONone, OErr, OLimit, OFuel, OPanic) to None and so cannot tell a clean end from an error. *)
From Ebml Require Import Base Tools Spec Writer Reader Pure Encode Proofs.Tactics Proofs.WriterProofs Proofs.PureProofs Proofs.RollUp
  Proofs.RoundTrip Proofs.RoundTripKnown Proofs.RoundTripRaw Proofs.WriteEnc Proofs.WriteFull Proofs.WriteMixed Proofs.WriteEncG
  Proofs.Fixpoint Proofs.FixpointKnown Proofs.BufferSimErr Proofs.Partial Proofs.CutExists Proofs.Snapshots Proofs.FixpointCut.

(* ------------------------------------------------------------------ what [out_tag] forgets *)
Lemma out_tag_blind : forall t off e,
  map out_tag [OItem t off; OErr e] = map out_tag [OItem t off; ONone] /\
  map out_tag [OItem t off; OLimit] = map out_tag [OItem t off; ONone].
Proof. intros t off e. split; reflexivity. Qed.

(* the items of a document are items, and their tags are the document's tags *)
Lemma items_tree_are_items : forall t off, Forall is_item (items_tree off t).
Proof.
  induction t as [id v pl sl|id sz cs IH] using rtree_ind'; intros off; [repeat constructor|].
  rewrite items_tree_node. constructor; [exact I|]. apply Forall_app. split; [|repeat constructor].
  set (o1 := off + N.of_nat (hdr_len (RNode id sz cs))). clearbody o1. revert o1.
  induction cs as [|x l IHl]; intros o1; [constructor|]. apply Forall_cons_iff in IH. destruct IH as [Hx Hl].
  cbn [items_forest]. apply Forall_app. split; [apply Hx|apply (IHl Hl)].
Qed.

Lemma items_forest_are_items : forall l off, Forall is_item (items_forest off l).
Proof.
  induction l as [|x l IH]; intros off; [constructor|]. cbn [items_forest]. apply Forall_app.
  split; [apply items_tree_are_items|apply IH].
Qed.

(* a run whose tags are [ts] then None consists of items, then one non-item outcome *)
Lemma out_tag_items : forall outs ts, map out_tag outs = map Some ts ++ [None] ->
  exists items fin, outs = items ++ [fin] /\ Forall is_item items /\ out_tag fin = None.
Proof.
  induction outs as [|o outs IH]; intros ts H.
  - destruct ts; discriminate H.
  - destruct ts as [|t ts]; cbn [map app] in H.
    + injection H as H1 H2. destruct outs; [|discriminate H2]. exists [], o. split; [reflexivity|]. split; [constructor|exact H1].
    + injection H as H1 H2. destruct (IH ts H2) as [items [fin [E [Hi Hf]]]]. exists (o :: items), fin.
      split; [rewrite E; reflexivity|]. split; [|exact Hf]. constructor; [|exact Hi].
      destruct o; cbn [out_tag] in H1; try discriminate H1. exact I.
Qed.

(* ------------------------------------------------------------------ C01: write -> read, conclusions on the outcome list *)
Theorem write_read_roundtrip_strong c d f : strict c -> c_buffered c = [] -> c_emit_eof c = true ->
  Forall (wconf (c_sp c) d []) f -> Forall (rconf c) f ->
  Forall (fun r => fst r = WOk) (fst (run_writer (c_sp c) (wops_forest d f) [])) /\
  p_run c (snd (run_writer (c_sp c) (wops_forest d f) [])) [RAll] = items_forest 0 f ++ [ONone] /\
  map out_tag (items_forest 0 f) = map op_tag (wops_forest d f).
Proof.
  intros Hs Hb He Hw Hr. destruct (writer_encodes (c_sp c) d f Hw) as [Hok Henc]. split; [exact Hok|].
  split; [|rewrite op_tags_forest; apply items_tags_forest].
  rewrite Henc. apply reader_roundtrip; try assumption.
  rewrite Forall_forall in *. intros t Hin. apply (wconf_conf c d t []); [apply Hw, Hin|apply Hr, Hin].
Qed.

Theorem full_write_read_roundtrip_strong c d f : strict c -> c_buffered c = [] -> c_emit_eof c = true ->
  Forall (fconf (c_sp c) d []) f -> Forall (rconf c) f ->
  Forall (fun r => fst r = WOk) (fst (run_writer (c_sp c) (fops d f) [])) /\
  p_run c (snd (run_writer (c_sp c) (fops d f) [])) [RAll] = items_forest 0 f ++ [ONone] /\
  map out_tag (items_forest 0 f) = map Some (flat (map full_tag f)).
Proof.
  intros Hs Hb He Hw Hr. destruct (full_encodes (c_sp c) d f Hw) as [Hok Henc]. split; [exact Hok|].
  split; [|rewrite flat_full_tags; apply items_tags_forest].
  rewrite Henc. apply reader_roundtrip; try assumption.
  rewrite Forall_forall in *. intros t Hin. apply (fconf_conf c d t []); [apply Hw, Hin|apply Hr, Hin].
Qed.

Theorem write_read_roundtrip_raw_strong c d f : lenient_id c -> c_buffered c = [] -> c_emit_eof c = true ->
  Forall (wxconf (c_sp c) d []) f -> Forall (rconf c) f -> Forall RoundTripKnown.all_known f ->
  Forall (fun r => fst r = WOk) (fst (run_writer (c_sp c) (wops_forest d f) [])) /\
  p_run c (snd (run_writer (c_sp c) (wops_forest d f) [])) [RAll] = items_forest 0 f ++ [ONone] /\
  map out_tag (items_forest 0 f) = map op_tag (wops_forest d f).
Proof.
  intros Hs Hb He Hw Hr Hk. destruct (writer_encodes_raw (c_sp c) d f Hw) as [Hok Henc]. split; [exact Hok|].
  split; [|rewrite op_tags_forest; apply items_tags_forest].
  rewrite Henc. apply reader_roundtrip_raw; try assumption.
  - destruct Hs as [Hallow _]. rewrite Forall_forall in *. intros t Hin.
    apply (wxconf_xconf c d Hallow t []); [apply Hw, Hin|apply Hr, Hin|apply Hk, Hin].
  - apply (wxconf_xdstart c d f Hw).
Qed.

Theorem write_read_roundtrip_known_strong c d f : strict c -> c_buffered c = [] -> c_emit_eof c = true ->
  Forall (wconfg (c_sp c) d []) f -> Forall (rconf c) f -> Forall all_known f -> dstart c f ->
  Forall (fun r => fst r = WOk) (fst (run_writer (c_sp c) (wops_forest d f) [])) /\
  p_run c (snd (run_writer (c_sp c) (wops_forest d f) [])) [RAll] = items_forest 0 f ++ [ONone] /\
  map out_tag (items_forest 0 f) = map op_tag (wops_forest d f).
Proof.
  intros Hs Hb He Hw Hr Hk Hd. destruct (writer_encodes_g (c_sp c) d f Hw) as [Hok Henc]. split; [exact Hok|].
  split; [|rewrite op_tags_forest; apply items_tags_forest].
  rewrite Henc. apply reader_roundtrip_known; try assumption.
  rewrite Forall_forall in *. intros t Hin. apply (wconfg_kconf c d t []); [apply Hw, Hin|apply Hr, Hin|apply Hk, Hin].
Qed.

Theorem full_write_read_roundtrip_known_strong c d f : strict c -> c_buffered c = [] -> c_emit_eof c = true ->
  Forall (fconfg (c_sp c) d []) f -> Forall (rconf c) f -> Forall all_known f -> dstart c f ->
  Forall (fun r => fst r = WOk) (fst (run_writer (c_sp c) (fops d f) [])) /\
  p_run c (snd (run_writer (c_sp c) (fops d f) [])) [RAll] = items_forest 0 f ++ [ONone] /\
  map out_tag (items_forest 0 f) = map Some (flat (map full_tag f)).
Proof.
  intros Hs Hb He Hw Hr Hk Hd. destruct (full_encodes_g (c_sp c) d f Hw) as [Hok Henc]. split; [exact Hok|].
  split; [|rewrite flat_full_tags; apply items_tags_forest].
  rewrite Henc. apply reader_roundtrip_known; try assumption.
  rewrite Forall_forall in *. intros t Hin. apply (fconfg_kconf c d t []); [apply Hw, Hin|apply Hr, Hin|apply Hk, Hin].
Qed.

Theorem mixed_write_read_roundtrip_known_strong c d f ps : strict c -> c_buffered c = [] -> c_emit_eof c = true ->
  pconfg_forest (c_sp c) d [] f ps -> Forall (rconf c) f -> Forall all_known f -> dstart c f ->
  Forall (fun r => fst r = WOk) (fst (run_writer (c_sp c) (pops_forest d f ps) [])) /\
  p_run c (snd (run_writer (c_sp c) (pops_forest d f ps) [])) [RAll] = items_forest 0 f ++ [ONone] /\
  map out_tag (items_forest 0 f) = map Some (flat (wtags (pops_forest d f ps))).
Proof.
  intros Hs Hb He Hw Hr Hk Hd. destruct (mixed_encodes_g (c_sp c) d f ps Hw) as [Hok Henc]. split; [exact Hok|].
  split; [|rewrite pops_forest_tags; apply items_tags_forest].
  rewrite Henc. apply reader_roundtrip_known; try assumption.
  apply (pconfg_forest_kconf c d [] f ps); assumption.
Qed.

(* ------------------------------------------------------------------ C02: read -> write -> read, both reads determined *)
Theorem read_write_read_strong c f : strict c -> c_buffered c = [] -> c_emit_eof c = true -> Forall (conf c []) f ->
  Forall (sized c) (map canon f) ->
  let first := p_run c (enc_forest f) [RAll] in
  let written := run_writer (c_sp c) (map default_write (run_tags first)) [] in
  let second := p_run c (snd written) [RAll] in
  Forall (fun r => fst r = WOk) (fst written) /\
  snd written = enc_forest (map canon f) /\
  first = items_forest 0 f ++ [ONone] /\
  second = items_forest 0 (map canon f) ++ [ONone] /\
  map out_tag second = map out_tag first.
Proof.
  intros Hs Hb He Hc Hsz. destruct (read_write_read c f Hs Hb He Hc Hsz) as [Hok [Henc Htags]]. cbn zeta in *.
  split; [exact Hok|]. split; [exact Henc|]. split; [apply reader_roundtrip; assumption|]. split; [|exact Htags].
  rewrite Henc. apply reader_roundtrip; try assumption.
  destruct (canon_in_both_classes c f Hc Hsz) as [H1 _]. exact H1.
Qed.

Theorem read_write_read_known_strong c f : strict c -> c_buffered c = [] -> c_emit_eof c = true -> Forall (kconf c []) f ->
  dstart c f -> Forall (sized c) (map canon f) ->
  let first := p_run c (enc_forest f) [RAll] in
  let written := run_writer (c_sp c) (map default_write (run_tags first)) [] in
  let second := p_run c (snd written) [RAll] in
  Forall (fun r => fst r = WOk) (fst written) /\
  snd written = enc_forest (map canon f) /\
  first = items_forest 0 f ++ [ONone] /\
  second = items_forest 0 (map canon f) ++ [ONone] /\
  map out_tag second = map out_tag first.
Proof.
  intros Hs Hb He Hc Hd Hsz. destruct (read_write_read_known c f Hs Hb He Hc Hd Hsz) as [Hok [Henc Htags]]. cbn zeta in *.
  split; [exact Hok|]. split; [exact Henc|]. split; [apply reader_roundtrip_known; assumption|]. split; [|exact Htags].
  rewrite Henc. apply reader_roundtrip_known; try assumption.
  - apply canon_kconf_forest; assumption.
  - apply dstart_canon, Hd.
Qed.

(* the outcome list of a document cut on a tag boundary: items only, then ONone *)
Lemma snapshot_outs_clean L f : exists items, out_tdoc (snapshot_doc L f) = items ++ [ONone] /\ Forall is_item items.
Proof.
  destruct (out_tag_items _ _ (snapshot_out_tag L f)) as [items [fin [E [Hi _]]]].
  exists items. split; [|exact Hi]. rewrite E. f_equal. f_equal.
  unfold out_tdoc, snapshot_doc in E. cbn [td_levels td_f td_tail] in E. rewrite !app_assoc in E.
  apply app_inj_tail in E. destruct E as [_ E]. symmetry. exact E.
Qed.

Theorem read_write_read_cut_strong : forall c L f, strict c -> c_buffered c = [] -> c_emit_eof c = true ->
  conf_tdoc c (snapshot_doc L f) -> Forall (sized c) (map canon (close_levels L f)) ->
  let first := p_run c (enc_tdoc (snapshot_doc L f)) [RAll] in
  let written := run_writer (c_sp c) (map default_write (run_tags first)) [] in
  let second := p_run c (snd written) [RAll] in
  Forall (fun r => fst r = WOk) (fst written) /\
  snd written = enc_forest (map canon (close_levels L f)) /\
  first = out_tdoc (snapshot_doc L f) /\
  (exists items, first = items ++ [ONone] /\ Forall is_item items) /\
  second = items_forest 0 (map canon (close_levels L f)) ++ [ONone] /\
  map out_tag second = map out_tag first.
Proof.
  intros c L f Hs Hb He Hc Hsz. destruct (read_write_read_cut c L f Hs Hb He Hc Hsz) as [Hok [Henc Htags]]. cbn zeta in *.
  split; [exact Hok|]. split; [exact Henc|]. split; [apply truncated_run; assumption|].
  split; [rewrite (truncated_run c _ Hs Hb He Hc); apply snapshot_outs_clean|]. split; [|exact Htags].
  rewrite Henc. destruct Hc as [HL [Hf _]]. cbn [snapshot_doc td_levels td_f td_tail] in HL, Hf.
  pose proof (close_levels_conf c L [] _ f HL Hf Hsz) as Hcc.
  apply reader_roundtrip; try assumption.
  rewrite Forall_forall in *. intros t Hin. destruct (Hcc t Hin) as [H1 H2]. apply (wconf_conf c true t []); assumption.
Qed.

Theorem read_write_read_prefix_strong : forall c f k, strict c -> c_buffered c = [] -> c_emit_eof c = true ->
  Forall (conf c []) f -> (k <= length (enc_forest f))%nat -> td_tail (cut_doc f k) = CutBoundary ->
  let closed := close_levels (td_levels (cut_doc f k)) (td_f (cut_doc f k)) in
  Forall (sized c) (map canon closed) ->
  let first := p_run c (firstn k (enc_forest f)) [RAll] in
  let written := run_writer (c_sp c) (map default_write (run_tags first)) [] in
  let second := p_run c (snd written) [RAll] in
  Forall (fun r => fst r = WOk) (fst written) /\
  snd written = enc_forest (map canon closed) /\
  first = out_tdoc (cut_doc f k) /\
  (exists items, first = items ++ [ONone] /\ Forall is_item items) /\
  second = items_forest 0 (map canon closed) ++ [ONone] /\
  map out_tag second = map out_tag first.
Proof.
  intros c f k Hs Hb He Hc Hk Htl. cbn zeta. intros Hsz.
  destruct (cut_doc_correct c f k Hc Hk) as [Hconf Henc]. rewrite <- Henc.
  destruct (cut_doc f k) as [L g tl]. cbn [td_levels td_f td_tail] in *. subst tl.
  exact (read_write_read_cut_strong c L g Hs Hb He Hconf Hsz).
Qed.

(* ------------------------------------------------------------------ C1: the hypotheses on Full / mixed presentations are
   satisfiable - every document whose masters all have a known size and default widths conforms in EVERY presentation *)
Lemma wconfg_fconfg sp ids t : wconfg sp true ids t -> all_known t -> fconfg sp true ids t.
Proof.
  destruct t as [id v pl sl|id sz cs]; intros Hw Hk; [exact Hw|].
  apply wconfg_node in Hw. destruct Hw as [Hp [Hty [Hsz Hcs]]]. apply all_known_node in Hk. destruct Hk as [_ Hks].
  split; [exact Hp|]. split; [exact Hty|]. split; [exact Hsz|]. split; assumption.
Qed.

Lemma wconfg_pconfg sp : forall t ids p, wconfg sp true ids t -> all_known t -> pconfg sp true ids t p.
Proof.
  induction t as [id v pl sl|id sz cs IH] using rtree_ind'; intros ids p Hw Hk.
  - rewrite pconfg_leaf. exact Hw.
  - destruct p as [|ps].
    + rewrite pconfg_full. apply wconfg_fconfg; assumption.
    + apply pconfg_sep. apply wconfg_node in Hw. destruct Hw as [Hp [Hty [Hsz Hcs]]].
      apply all_known_node in Hk. destruct Hk as [_ Hks].
      split; [exact Hp|]. split; [exact Hty|]. split; [exact Hsz|]. clear Hsz.
      revert ps. induction cs as [|x l IHl]; intros ps; [exact I|].
      apply Forall_cons_iff in IH. destruct IH as [Hx Hl]. apply Forall_cons_iff in Hcs. destruct Hcs as [Hcx Hcl].
      apply Forall_cons_iff in Hks. destruct Hks as [Hkx Hkl].
      cbn [pconfg_forest]. split; [apply Hx; assumption|apply IHl; assumption].
Qed.

Lemma wconfg_pconfg_forest sp ids : forall l ps, Forall (wconfg sp true ids) l -> Forall all_known l -> pconfg_forest sp true ids l ps.
Proof.
  induction l as [|x l IH]; intros ps Hw Hk; [exact I|].
  apply Forall_cons_iff in Hw. destruct Hw as [Hwx Hwl]. apply Forall_cons_iff in Hk. destruct Hk as [Hkx Hkl].
  cbn [pconfg_forest]. split; [apply wconfg_pconfg; assumption|apply IH; assumption].
Qed.

Lemma wconfg_fconfg_forest sp ids l : Forall (wconfg sp true ids) l -> Forall all_known l -> Forall (fconfg sp true ids) l.
Proof.
  intros Hw Hk. rewrite Forall_forall in *. intros t Hin. apply wconfg_fconfg; [apply Hw, Hin|apply Hk, Hin].
Qed.
