(* C17 (audit item B6): (1) the buffer length never shrinks, so the bound on the final buffer length (Proofs/CapBound.v)
   bounds every intermediate one: the final length IS the peak; (2) one composed statement: a header that declares a known
   size above the limit makes read_tag return an error without accepting the tag and without growing the buffer beyond 16
   bytes - the size error itself when the earlier header checks pass. *)
From Ebml Require Import Base Tools Spec Reader Pure Proofs.Tactics Proofs.ReaderIO Proofs.Refine Proofs.CapBound Proofs.AuditIO.
Import ListNotations.
Local Open Scope N_scope.

Arguments vint_len : simpl never.
Arguments read_vint : simpl never.

(* ------------------------------------------------------------------ monotonicity *)
Section Lower.
Variable L : N.
Definition caplo (st : rst) : Prop := L <= r_cap st.

Lemma ensure_loop_lo n : forall fuel st, caplo st -> caplo (fst (ensure_loop fuel n st)).
Proof.
  induction fuel as [|f IH]; intros st Hc; cbn [ensure_loop]; [exact Hc|].
  destruct (n <=? r_wlen st); [exact Hc|].
  set (st1 := set_cap st (N.max (r_cap st) n)).
  assert (Hc1 : caplo st1) by (unfold caplo, st1 in *; cbn; lia).
  pose proof (private_read_cap st1 (r_cap st1 - r_wlen st1)) as Hp.
  destruct (private_read st1 (r_cap st1 - r_wlen st1)) as [st2 r2]. cbn [fst] in Hp.
  assert (Hc2 : caplo st2) by (unfold caplo in *; rewrite Hp; exact Hc1).
  destruct r2 as [[|]|e|]; cbn [fst]; try exact Hc2. apply IH, Hc2.
Qed.

Lemma ensure_lo n st : caplo st -> caplo (fst (ensure n st)).
Proof. apply ensure_loop_lo. Qed.

Lemma peek_header_lo c st : caplo st -> caplo (fst (peek_header c st)).
Proof.
  intros Hc. rewrite peek_header_unfold. pose proof (ensure_lo 16 st Hc) as H1.
  destruct (ensure 16 st) as [st1 [b|e|]]; cbn [fst] in *; try exact H1.
  assert (H2 : caplo (fst (peek_tag_id st1))).
  { unfold peek_tag_id. pose proof (ensure_lo 8 st1 H1) as H.
    destruct (ensure 8 st1) as [st2 [b2|e|]]; cbn [fst] in *; try exact H.
    destruct (r_win st2) as [|b0 w]; [exact H|]. destruct (b0 =? 0); [exact H|]. destruct (_ <? _); exact H. }
  destruct (peek_tag_id st1) as [st2 [[id idl]|e|]]; cbn [fst] in *; try exact H2.
  unfold caplo. rewrite hdr_tail_cap. exact H2.
Qed.

Lemma tag_tail_lo c st ts h : caplo st -> caplo (fst (tag_tail c st ts h)).
Proof.
  intros Hc. destruct h as [[[id ty] esz] hl]. unfold tag_tail. set (stc := consume st (N.of_nat hl)).
  assert (Hcc : caplo stc) by (unfold caplo, stc; rewrite consume_cap; exact Hc).
  destruct esz as [size|].
  2:{ destruct ty as [[]|]; cbn [fst]; exact Hcc. }
  set (st2 := set_cap stc (N.max (r_cap stc) size)).
  assert (Hc2 : caplo st2) by (unfold caplo, st2 in *; cbn; lia).
  pose proof (ensure_lo size st2 Hc2) as H3.
  destruct ty as [[]|]; try exact Hcc.
  all: destruct (ensure size st2) as [st3 [[|]|e|]]; cbn [fst] in *; try exact H3.
  all: destruct (splitN size (r_win st3)) as [raw rest'].
  all: assert (Hc4 : caplo (consume st3 size)) by (unfold caplo; rewrite consume_cap; exact H3).
  all: try (destruct (arr_to_u64 raw); exact Hc4).
  all: try (destruct (arr_to_i64 raw); exact Hc4).
  all: try (destruct (arr_to_f64 raw); exact Hc4).
  all: try (destruct (utf8_valid raw); exact Hc4).
  all: exact Hc4.
Qed.

Lemma read_tag_lo c st : caplo st -> caplo (fst (read_tag c st)).
Proof.
  intros Hc. rewrite read_tag_unfold. pose proof (peek_header_lo c st Hc) as H1.
  destruct (peek_header c st) as [st1 [h|e|]]; cbn [fst] in *; try exact H1. apply tag_tail_lo, H1.
Qed.

Lemma read_tag_checked_lo c st : caplo st -> caplo (fst (read_tag_checked c st)).
Proof.
  intros Hc. unfold read_tag_checked. destruct (r_wlen st =? 0).
  - pose proof (ensure_lo 1 st Hc) as H1.
    destruct (ensure 1 st) as [st1 [[|]|e|]]; cbn [fst] in *; try exact H1.
    pose proof (read_tag_lo c st1 H1). destruct (read_tag c st1). exact H.
  - pose proof (read_tag_lo c st Hc). destruct (read_tag c st). exact H.
Qed.

Lemma rn_bm_lo c : forall fuel,
  (forall st, caplo st -> caplo (read_next fuel c st)) /\
  (forall tid ts pre pos st, caplo st -> caplo (buffer_master fuel c tid ts pre pos st)).
Proof.
  induction fuel as [|f [IH1 IH2]].
  - split; intros; assumption.
  - split.
    + intros st Hc. rewrite read_next_unfold. cbn zeta.
      set (st1 := pop_frames st _). assert (H1 : caplo st1) by exact Hc.
      pose proof (read_tag_checked_lo c st1 H1) as H2.
      destruct (read_tag_checked c st1) as [st2 [[p|e|]|]]; cbn [fst] in H2; try exact H2.
      * destruct (p_tag p); try exact H2. destruct (mem_id _ _); [|exact H2]. apply IH2. exact H2.
      * destruct (c_emit_eof c); exact H2.
    + intros tid ts pre pos st Hc. rewrite buffer_master_unfold. cbn zeta.
      assert (Fin : forall s p, caplo s -> caplo (bm_finish tid ts pre s p)).
      { intros s p Hs. unfold bm_finish. destruct (nth_error _ _) as [[? ?|?]|]; exact Hs. }
      destruct (_ <=? pos)%nat.
      * pose proof (IH1 st Hc) as H1. destruct (r_bad (read_next f c st)); [exact H1|].
        destruct (_ <=? pos)%nat; [exact H1|]. destruct (scan_queue _ _ _) as [p [|]]; [apply Fin, H1|apply IH2, H1].
      * destruct (scan_queue _ _ _) as [p [|]]; [apply Fin, Hc|apply IH2, Hc].
Qed.

Lemma next_lo c st : caplo st -> caplo (fst (next c st)).
Proof.
  intros Hc. unfold next.
  assert (H1 : caplo (match r_queue st with [] => read_next (r_fuel st) c st | _ :: _ => st end)).
  { destruct (r_queue st); [apply rn_bm_lo, Hc|exact Hc]. }
  set (st1 := match r_queue st with [] => _ | _ => _ end) in *.
  destruct (r_queue st1) as [|[t o|e] q]; exact H1.
Qed.

Lemma recover_loop_lo c : forall fuel st, caplo st -> caplo (fst (recover_loop fuel c st)).
Proof.
  induction fuel as [|f IH]; intros st Hc; cbn [recover_loop]; [exact Hc|].
  pose proof (ensure_lo 1 st Hc) as H1.
  destruct (ensure 1 st) as [st1 [[|]|e|]]; cbn [fst] in *; try exact H1.
  assert (H2 : caplo (consume st1 1)) by (unfold caplo; rewrite consume_cap; exact H1).
  pose proof (peek_header_lo c _ H2) as H3.
  destruct (peek_header c (consume st1 1)) as [st3 [h|e|]]; cbn [fst] in *; try exact H3.
  destruct e; cbn [fst]; try (apply IH, H3). exact H3.
Qed.

Lemma try_recover_lo c st : caplo st -> caplo (fst (try_recover c st)).
Proof.
  intros Hc. unfold try_recover. pose proof (recover_loop_lo c (r_fuel st) st Hc) as H1.
  destruct (recover_loop (r_fuel st) c st) as [st1 [e|]]; exact H1.
Qed.

Lemma run_all_lo c : forall limit st, caplo st -> caplo (fst (run_all limit c st)).
Proof.
  induction limit as [|l IH]; intros st Hc; cbn [run_all]; [exact Hc|].
  pose proof (next_lo c st Hc) as H1. destruct (next c st) as [st1 r1]. cbn [fst] in H1.
  destruct (r_bad st1); [exact H1|]. destruct r1 as [t o|e|]; try exact H1.
  pose proof (IH st1 H1). destruct (run_all l c st1). exact H.
Qed.

Lemma run_ops_lo c limit : forall ops st, caplo st -> caplo (fst (run_ops c limit st ops)).
Proof.
  induction ops as [|op ops IH]; intros st Hc; cbn [run_ops]; [exact Hc|]. destruct op.
  - pose proof (next_lo c st Hc) as H1. destruct (next c st) as [st1 r1]. cbn [fst] in H1.
    destruct (r_bad st1); [exact H1|]. pose proof (IH st1 H1). destruct (run_ops c limit st1 ops). exact H.
  - pose proof (try_recover_lo c st Hc) as H1. destruct (try_recover c st) as [st1 r1]. cbn [fst] in H1.
    destruct (r_bad st1); [exact H1|]. pose proof (IH st1 H1). destruct (run_ops c limit st1 ops). exact H.
  - pose proof (run_all_lo c limit st Hc) as H1. destruct (run_all limit c st) as [st1 o1]. cbn [fst] in H1.
    destruct (r_bad st1); [exact H1|]. pose proof (IH st1 H1). destruct (run_ops c limit st1 ops). exact H.
Qed.
End Lower.

(* the buffer length never decreases: through a refill, a header check, a tag read, next(), try_recover(), any run *)
Theorem cap_monotone_ensure n st : r_cap st <= r_cap (fst (ensure n st)).
Proof. apply (ensure_lo (r_cap st)). unfold caplo. lia. Qed.
Theorem cap_monotone_peek_header c st : r_cap st <= r_cap (fst (peek_header c st)).
Proof. apply (peek_header_lo (r_cap st)). unfold caplo. lia. Qed.
Theorem cap_monotone_read_tag c st : r_cap st <= r_cap (fst (read_tag c st)).
Proof. apply (read_tag_lo (r_cap st)). unfold caplo. lia. Qed.
Theorem cap_monotone_next c st : r_cap st <= r_cap (fst (next c st)).
Proof. apply (next_lo (r_cap st)). unfold caplo. lia. Qed.
Theorem cap_monotone_try_recover c st : r_cap st <= r_cap (fst (try_recover c st)).
Proof. apply (try_recover_lo (r_cap st)). unfold caplo. lia. Qed.
Theorem cap_monotone_run c limit ops st : r_cap st <= r_cap (fst (run_ops c limit st ops)).
Proof. apply (run_ops_lo (r_cap st)). unfold caplo. lia. Qed.

(* run_ops over a concatenation = the first part, then (unless it was cut short) the second from the state reached *)
Lemma run_ops_app c limit : forall ops1 ops2 st,
  r_bad (fst (run_ops c limit st ops1)) = None ->
  fst (run_ops c limit st (ops1 ++ ops2)) = fst (run_ops c limit (fst (run_ops c limit st ops1)) ops2).
Proof.
  induction ops1 as [|op ops1 IH]; intros ops2 st; [reflexivity|]. cbn [app run_ops]. destruct op.
  - destruct (next c st) as [st1 r]. destruct (r_bad st1) eqn:Eb; [cbn [fst]; intros H; rewrite Eb in H; discriminate H|].
    specialize (IH ops2 st1). destruct (run_ops c limit st1 ops1) as [sa oa]. destruct (run_ops c limit st1 (ops1 ++ ops2)) as [sb ob].
    cbn [fst] in *. exact IH.
  - destruct (try_recover c st) as [st1 r]. destruct (r_bad st1) eqn:Eb; [cbn [fst]; intros H; rewrite Eb in H; discriminate H|].
    specialize (IH ops2 st1). destruct (run_ops c limit st1 ops1) as [sa oa]. destruct (run_ops c limit st1 (ops1 ++ ops2)) as [sb ob].
    cbn [fst] in *. exact IH.
  - destruct (run_all limit c st) as [st1 o1]. destruct (r_bad st1) eqn:Eb; [cbn [fst]; intros H; rewrite Eb in H; discriminate H|].
    specialize (IH ops2 st1). destruct (run_ops c limit st1 ops1) as [sa oa]. destruct (run_ops c limit st1 (ops1 ++ ops2)) as [sb ob].
    cbn [fst] in *. exact IH.
Qed.

Lemma run_ops_app_cut c limit : forall ops1 ops2 st b, r_bad st = None ->
  r_bad (fst (run_ops c limit st ops1)) = Some b ->
  fst (run_ops c limit st (ops1 ++ ops2)) = fst (run_ops c limit st ops1).
Proof.
  induction ops1 as [|op ops1 IH]; intros ops2 st b H0; [cbn [run_ops fst]; intros H; rewrite H0 in H; discriminate H|].
  cbn [app run_ops]. destruct op.
  - destruct (next c st) as [st1 r]. destruct (r_bad st1) eqn:Eb; [reflexivity|].
    specialize (IH ops2 st1 b Eb). destruct (run_ops c limit st1 ops1) as [sa oa]. destruct (run_ops c limit st1 (ops1 ++ ops2)) as [sb ob].
    cbn [fst] in *. exact IH.
  - destruct (try_recover c st) as [st1 r]. destruct (r_bad st1) eqn:Eb; [reflexivity|].
    specialize (IH ops2 st1 b Eb). destruct (run_ops c limit st1 ops1) as [sa oa]. destruct (run_ops c limit st1 (ops1 ++ ops2)) as [sb ob].
    cbn [fst] in *. exact IH.
  - destruct (run_all limit c st) as [st1 o1]. destruct (r_bad st1) eqn:Eb; [reflexivity|].
    specialize (IH ops2 st1 b Eb). destruct (run_ops c limit st1 ops1) as [sa oa]. destruct (run_ops c limit st1 (ops1 ++ ops2)) as [sb ob].
    cbn [fst] in *. exact IH.
Qed.

(* the peak: the buffer length after any prefix of the calls is at most the buffer length at the end of the run (when a
   prefix is cut short by a panic/fuel outcome the run stops there, and the two are equal) - so the bound of
   [cap_bounded] on the final length bounds the length at every moment between calls *)
Theorem cap_final_is_peak c cap0 script input ops1 ops2 :
  fst (run_reader_cap c cap0 script input ops1) <= fst (run_reader_cap c cap0 script input (ops1 ++ ops2)).
Proof.
  unfold run_reader_cap, run_reader_st. set (limit := (4 * length input + 64)%nat).
  pose proof (run_ops_app c limit ops1 ops2 (r_init cap0 script input)) as HA.
  pose proof (run_ops_app_cut c limit ops1 ops2 (r_init cap0 script input)) as HC.
  pose proof (cap_monotone_run c limit ops2 (fst (run_ops c limit (r_init cap0 script input) ops1))) as HM.
  destruct (run_ops c limit (r_init cap0 script input) (ops1 ++ ops2)) as [sb ob].
  destruct (run_ops c limit (r_init cap0 script input) ops1) as [sa oa]. cbn [fst] in *.
  destruct (r_bad sa) as [b|] eqn:Eb.
  - rewrite (HC b eq_refl eq_refl). lia.
  - rewrite (HA eq_refl). exact HM.
Qed.

(* ------------------------------------------------------------------ the composed statement *)
Lemma hier_step_err_kind c st id ty st1 e : hier_step c st id ty = (st1, Some e) -> exists i p, e = RHierarchy i p.
Proof.
  unfold hier_step. destruct (negb _ && _); [|intros H; inversion H].
  destruct (r_det st).
  - destruct (_ && _); intros H; inversion H. eexists; eexists; reflexivity.
  - destruct (all_ids _).
    + destruct (implied_stack _ _); [|intros H; inversion H]. destruct (_ && _); intros H; inversion H. eexists; eexists; reflexivity.
    + destruct (_ && _); intros H; inversion H. eexists; eexists; reflexivity.
Qed.

(* the size-limit error comes from the limit check and from nowhere else *)
Lemma hdr_tail_invalid_size c st id idl pos id' n : snd (hdr_tail c st id idl) = Err (RInvalidSize pos id' n) ->
  exists m, c_max c = Some m /\ m < n.
Proof.
  unfold hdr_tail. destruct (read_vint _) as [[[size sl]|]|e|]; try discriminate.
  destruct (is_numeric _ && _); [discriminate|]. destruct (negb (c_allow_id c) && _); [discriminate|].
  destruct (hier_step c st id (get_type (c_sp c) id)) as [st1 [e1|]] eqn:Eh; cbn [snd].
  - destruct (hier_step_err_kind _ _ _ _ _ _ Eh) as [i [p ->]]. discriminate.
  - destruct (r_bad st1); [discriminate|]. destruct (negb (c_allow_over c) && _); [discriminate|].
    destruct (c_max c) as [m|]; [|discriminate]. destruct (ebml_size size sl) as [k|]; [|discriminate].
    destruct (N.ltb_spec m k) as [Hmk|Hmk]; [|discriminate]. cbn [snd]. intros H. inversion H; subst. exists m. split; [reflexivity|assumption].
Qed.

Lemma tag_tail_not_invalid_size c st ts h pos id n : snd (tag_tail c st ts h) <> Err (RInvalidSize pos id n).
Proof.
  destruct h as [[[id0 ty] esz] hl]. unfold tag_tail. destruct esz as [size|].
  2:{ destruct ty as [[]|]; cbn [snd]; discriminate. }
  destruct ty as [[]|]; try (cbn [snd]; discriminate).
  all: destruct (ensure size _) as [st3 [[|]|e|]] eqn:Ee; cbn [snd]; try discriminate.
  all: try (intros H; destruct (ensure_err _ _ e (f_equal snd Ee)) as [code ->]; discriminate H).
  all: destruct (splitN size (r_win st3)) as [raw rest'].
  all: try (destruct (arr_to_u64 raw); cbn [snd]; discriminate).
  all: try (destruct (arr_to_i64 raw); cbn [snd]; discriminate).
  all: try (destruct (arr_to_f64 raw); cbn [snd]; discriminate).
  all: try (destruct (utf8_valid raw); cbn [snd]; discriminate).
  all: cbn [snd]; discriminate.
Qed.

(* backward: whenever read_tag returns the size-limit error, the declared size is above the configured limit, the error
   comes from the header check (the state is the one the header check left), and the buffer has not grown beyond
   max(previous length, 16): nothing was allocated or read for the payload *)
Theorem size_error_no_growth c st0 st' pos id n : read_tag c st0 = (st', Err (RInvalidSize pos id n)) ->
  (exists m, c_max c = Some m /\ m < n) /\ st' = fst (peek_header c st0) /\ r_cap st' <= N.max (r_cap st0) 16.
Proof.
  rewrite read_tag_unfold. pose proof (header_allocates_16 c st0) as Hcap. revert Hcap. rewrite peek_header_unfold.
  destruct (ensure 16 st0) as [st1 [b|e|]] eqn:E1; cbn [fst].
  - destruct (peek_tag_id st1) as [st2 [[id0 idl]|e|]] eqn:E2; cbn [fst].
    + pose proof (hdr_tail_invalid_size c st2 id0 idl pos id n) as HT.
      destruct (hdr_tail c st2 id0 idl) as [st3 [h|e|]]; cbn [fst snd] in *.
      * intros _ H. exfalso. apply (tag_tail_not_invalid_size c st3 (r_off st0) h pos id n). rewrite H. reflexivity.
      * intros Hcap H. inversion H; subst. split; [apply HT; reflexivity|]. split; [reflexivity|exact Hcap].
      * intros _ H. inversion H.
    + intros _ H. inversion H; subst. exfalso. unfold peek_tag_id in E2.
      pose proof (ensure_err 8 st1) as HE. destruct (ensure 8 st1) as [sx [bx|ex|]]; cbn [snd] in HE.
      * destruct (r_win sx) as [|b0 w]; [inversion E2|]. destruct (b0 =? 0); [inversion E2|]. destruct (_ <? _); inversion E2.
      * inversion E2; subst. destruct (HE _ eq_refl) as [code Hc]. discriminate Hc.
      * inversion E2.
    + intros _ H. inversion H.
  - intros _ H. inversion H; subst. exfalso. destruct (ensure_err 16 st0 _ (f_equal snd E1)) as [code Hc]. discriminate Hc.
  - intros _ H. inversion H.
Qed.

(* forward: the header read succeeds, the id decodes, the size field decodes to a KNOWN size n above the limit m.  Then
   read_tag does not return a tag, the buffer does not grow beyond max(previous length, 16), and - when the earlier checks pass
   (numeric size, known id, hierarchy, no bad-specification panic, containment in the enclosing masters) - the result is
   exactly the size-limit error at the element's offset *)
Theorem size_above_limit_rejected c st0 m st1 b st2 id idl size sl n :
  c_max c = Some m -> ensure 16 st0 = (st1, Ok b) -> peek_tag_id st1 = (st2, Ok (id, idl)) ->
  read_vint (firstn 8 (skipn idl (r_win st2))) = Ok (Some (size, sl)) -> ebml_size size sl = SKnown n -> m < n ->
  (forall p, snd (read_tag c st0) <> Ok p) /\
  r_cap (fst (read_tag c st0)) <= N.max (r_cap st0) 16 /\
  (forall st3, is_numeric (get_type (c_sp c) id) && (8 <? size) = false ->
     (c_allow_id c = true \/ get_type (c_sp c) id <> None) ->
     hier_step c st2 id (get_type (c_sp c) id) = (st3, None) -> r_bad st3 = None ->
     negb (c_allow_over c) && is_invalid_tag_size st3 (N.of_nat (idl + sl) + n) = false ->
     read_tag c st0 = (st3, Err (RInvalidSize (r_off st2) id n))).
Proof.
  intros Hm E1 E2 Ev Es Hmn. pose proof (header_allocates_16 c st0) as Hcap. revert Hcap.
  rewrite read_tag_unfold, peek_header_unfold, E1, E2. intros Hcap.
  assert (HT : forall h, snd (hdr_tail c st2 id idl) <> Ok h).
  { intros h. unfold hdr_tail. rewrite Ev, Es, Hm. destruct (is_numeric _ && _); [discriminate|].
    destruct (negb (c_allow_id c) && _); [discriminate|].
    destruct (hier_step c st2 id (get_type (c_sp c) id)) as [sx [ex|]]; [discriminate|].
    destruct (r_bad sx); [discriminate|]. destruct (negb (c_allow_over c) && _); [discriminate|].
    destruct (N.ltb_spec m n); [discriminate|lia]. }
  split; [|split].
  - intros p. destruct (hdr_tail c st2 id idl) as [st3 [h|e|]]; cbn [snd] in *; [exfalso; exact (HT h eq_refl)|discriminate|discriminate].
  - destruct (hdr_tail c st2 id idl) as [st3 [h|e|]]; cbn [fst snd] in *; [exfalso; exact (HT h eq_refl)|exact Hcap|exact Hcap].
  - intros st3 Hnum Hknown Hh Hb Ho. unfold hdr_tail. rewrite Ev, Es, Hm, Hnum.
    assert (Hk : negb (c_allow_id c) && match get_type (c_sp c) id with None => true | Some _ => false end = false).
    { destruct Hknown as [H|H]; [rewrite H; reflexivity|]. destruct (get_type (c_sp c) id); [apply Bool.andb_false_r|contradiction]. }
    rewrite Hk, Hh, Hb, Ho. destruct (N.ltb_spec m n); [reflexivity|lia].
Qed.
