(* C17, last clause ("a declared size never causes arithmetic overflow"): every sum the reader computes on `usize`
   stays below 2^63 (so below 2^64 = usize::MAX + 1 on a 64-bit target), for byte inputs shorter than 2^62 bytes.  Hence
   modelling the `usize` arithmetic of src/tag_iterator.rs with unbounded numbers ([N]) loses nothing: no wrap-around in
   release builds, no overflow panic in debug builds.

   The theorems are about the quantities of the abstract reader (Model/Pure.v): the cursor [b_off] (current_offset()), the
   data starts and sizes of the open masters (tag_stack), the sizes and header lengths decoded by peek_valid_tag_header, the
   enlarged sizes of try_recover.  They hold in every state that next()/try_recover() can reach, for every configuration
   (all tolerance settings, buffered masters, any size limit or none).  The last section transfers them to the buffered
   machine (Model/Reader.v) and bounds the buffer capacity - hence every buffer index - when no size limit is configured.

   The inductive invariant [NI]:
     - the bytes left are bytes;  cursor + bytes left = input length;
     - every open master starts at or before the cursor, and a known-size one ends before cursor + 2^56.
   A frame is created with data_start = cursor and a size < 2^56 (a vint of at most 8 bytes carries 56 bits); afterwards the
   cursor only moves forward, and try_recover adds the distance the cursor has moved to every known size. *)
From Ebml Require Import Base Tools Spec Reader Pure Proofs.Tactics Proofs.BytesProofs Proofs.VintProofs Proofs.ReaderIO
  Proofs.Refine Proofs.CapBound Proofs.PureProofs Proofs.NoPanic Proofs.RoundTrip Proofs.Nesting Proofs.BufferSim Proofs.Tiling
  Proofs.Extents.

Arguments vint_len : simpl never.
Arguments read_vint : simpl never.
Arguments from_be : simpl never.

(* ------------------------------------------------------------------ numerals *)
Lemma P56 : 2 ^ 56 = 72057594037927936. Proof. reflexivity. Qed.
Lemma P57 : 2 ^ 57 = 144115188075855872. Proof. reflexivity. Qed.
Lemma P62 : 2 ^ 62 = 4611686018427387904. Proof. reflexivity. Qed.
Lemma P63 : 2 ^ 63 = 9223372036854775808. Proof. reflexivity. Qed.
Lemma P64 : 2 ^ 64 = 18446744073709551616. Proof. reflexivity. Qed.

(* ------------------------------------------------------------------ the invariant *)
(* [fbound off f]: the master [f] starts at or before [off]; if its size is known it ends before off + 2^56 *)
Definition fbound (off : N) (f : frame) : Prop :=
  f_data f <= off /\ match f_size f with SKnown n => f_data f + n < off + 2 ^ 56 | SUnknown => True end.

Definition NI (T : N) (st : pst) : Prop :=
  wf_bytes (b_bytes st) /\ b_off st + blen st = T /\ Forall (fbound (b_off st)) (b_stack st).

Lemma fbound_mono off off' f : off <= off' -> fbound off f -> fbound off' f.
Proof. unfold fbound. intros Hle [A B]. split; [lia|]. destruct (f_size f); [lia|exact I]. Qed.

Lemma fbound_blank off f : blank f -> fbound off f.
Proof. intros [Hs Hd]. unfold fbound. rewrite Hs, Hd. split; [lia|exact I]. Qed.

(* try_recover: the size grows by [d], the cursor has moved by [d] *)
Lemma fbound_grow off d f : fbound off f -> fbound (off + d) (grow1 d f).
Proof.
  unfold fbound, grow1. intros [A B]. destruct (f_size f) as [n|] eqn:E; cbn [f_size f_data]; [split; lia|].
  rewrite E. split; [lia|exact I].
Qed.

Lemma Forall_fbound_grow off d stk : Forall (fbound off) stk -> Forall (fbound (off + d)) (grow_frames d stk).
Proof.
  intros H. rewrite grow_frames_map. apply Forall_map. eapply Forall_impl; [|exact H]. intros f. apply fbound_grow.
Qed.

Lemma Forall_fbound_blank off stk : Forall blank stk -> Forall (fbound off) stk.
Proof. intros H. eapply Forall_impl; [|exact H]. intros f. apply fbound_blank. Qed.

Lemma NI_logic T st st' : b_bytes st' = b_bytes st -> b_off st' = b_off st -> b_stack st' = b_stack st -> NI T st -> NI T st'.
Proof. unfold NI, blen. intros -> -> ->. auto. Qed.

Lemma NI_sub T st st' k : b_bytes st' = b_bytes st -> b_off st' = b_off st -> b_stack st' = skipn k (b_stack st) ->
  NI T st -> NI T st'.
Proof.
  unfold NI, blen. intros -> -> -> [A [B C]]. split; [exact A|]. split; [exact B|apply forall_skipn, C].
Qed.

Lemma NI_pop T st k : NI T st -> NI T (ppop_frames st k).
Proof. apply (NI_sub T st _ k); reflexivity. Qed.

Lemma NI_ext T st st' : b_bytes st' = b_bytes st -> b_off st' = b_off st -> ext_of (b_stack st) (b_stack st') ->
  NI T st -> NI T st'.
Proof.
  unfold NI, blen. intros -> -> [x [-> Hx]] [A [B C]]. split; [exact A|]. split; [exact B|].
  apply Forall_app. split; [exact C|apply Forall_fbound_blank, Hx].
Qed.

Lemma NI_consume T st k : k <= blen st -> NI T st -> NI T (pconsume st k).
Proof.
  intros Hk [A [B C]]. split; [cbn [pconsume b_bytes]; apply wf_splitN_snd, A|]. split.
  - unfold blen in *. cbn [pconsume b_bytes b_off]. rewrite splitN_snd_len by exact Hk. lia.
  - cbn [pconsume b_stack b_off]. eapply Forall_impl; [|exact C]. intros f. apply fbound_mono. lia.
Qed.

(* ------------------------------------------------------------------ what a header can declare *)
Lemma from_be_lt64' a : wf_bytes a -> (length a <= 8)%nat -> from_be a < 2 ^ 64.
Proof.
  intros Hw Hl. pose proof (from_be_bound a Hw) as Hb.
  assert (E : 256 ^ N.of_nat (length a) = 2 ^ (8 * N.of_nat (length a))).
  { change 256 with (2 ^ 8). rewrite <- N.pow_mul_r. reflexivity. }
  assert (H : 2 ^ (8 * N.of_nat (length a)) <= 2 ^ 64) by (apply N.pow_le_mono_r; lia). lia.
Qed.

(* peek_tag_id: the id occupies at most 8 bytes and fits a u64 (`val <<= 8; val += *item as u64`) *)
Lemma p_tag_id_bound st id idl : wf_bytes (b_bytes st) -> p_tag_id st = Ok (id, idl) -> (idl <= 8)%nat /\ id < 2 ^ 64.
Proof.
  intros Hw. unfold p_tag_id. destruct (b_bytes st) as [|b0 tl] eqn:Eb; [discriminate|].
  destruct (b0 =? 0).
  - intros H. inversion H; subst. split; [lia|]. rewrite P64. lia.
  - destruct (_ <? _); [discriminate|]. intros H. inversion H; subst. pose proof (vint_len_le8 b0) as H8.
    split; [exact H8|]. apply from_be_lt64'; [apply wf_firstn, Hw|]. rewrite firstn_length. lia.
Qed.

(* tools::read_vint on the (at most 8) bytes after the id: width <= 8, value < 2^(7 width) <= 2^56
   (`(1 << (7 * n)) - 1` in EBMLSize::new is at most 2^56 - 1) *)
Lemma size_vint_bound buf size sl : wf_bytes buf -> read_vint (firstn 8 buf) = Ok (Some (size, sl)) ->
  (1 <= sl <= 8)%nat /\ size < 2 ^ (7 * N.of_nat sl) /\ 2 ^ (7 * N.of_nat sl) <= 2 ^ 56.
Proof.
  intros Hw Hv. destruct (read_vint_some _ _ _ (wf_firstn 8 _ Hw) Hv) as [Hsl [_ [Hsz _]]].
  split; [exact Hsl|]. split; [exact Hsz|]. apply N.pow_le_mono_r; lia.
Qed.

Lemma ksize_ebml_le size sl : ksize (ebml_size size sl) <= size.
Proof. unfold ebml_size. destruct (_ =? _); cbn [ksize]; lia. Qed.

Lemma p_hier_step_err_shape c st id ty st' e : p_hier_step c st id ty = (st', Some e) -> exists i p, e = RHierarchy i p.
Proof.
  unfold p_hier_step. destruct (negb _ && _); [|discriminate].
  destruct (b_det st) eqn:Ed; [destruct (_ && _); [|discriminate]; intros H; inversion H; eauto|].
  destruct (all_ids _); [|destruct (_ && _); [|discriminate]; intros H; inversion H; eauto].
  destruct (implied_stack _ _) as [stk|]; [|discriminate].
  destruct (_ && _); [|discriminate]. intros H; inversion H; eauto.
Qed.

(* the numbers in the outcome of peek_valid_tag_header *)
Definition hdr_sizes_ok (off : N) (r : res rerr (N * option dtype * esize * nat)) : Prop :=
  match r with
  | Ok (_, _, esz, hl) => (hl <= 16)%nat /\ ksize esz < 2 ^ 56
  | Err (ROversized pos _ ks) => pos = off /\ ks < 2 ^ 56
  | Err (RInvalidSize pos _ n) => pos = off /\ n < 2 ^ 56
  | _ => True
  end.

Lemma p_header_sizes c st : wf_bytes (b_bytes st) -> hdr_sizes_ok (b_off st) (snd (p_header c st)).
Proof.
  intros Hw. rewrite p_header_unfold. destruct (p_tag_id st) as [[id idl]|e|] eqn:Et; [| |exact I].
  2:{ destruct (p_tag_id_err _ _ Et) as [o ->]. exact I. }
  destruct (p_tag_id_bound _ _ _ Hw Et) as [Hidl _].
  unfold p_hdr_tail. destruct (read_vint _) as [[[size sl]|]|e1|] eqn:Ev; try exact I.
  destruct (size_vint_bound _ _ _ (wf_skipn idl _ Hw) Ev) as [Hsl [Hsz Hpw]].
  assert (Hk : ksize (ebml_size size sl) < 2 ^ 56) by (pose proof (ksize_ebml_le size sl); lia).
  destruct (is_numeric _ && _); [exact I|]. destruct (negb (c_allow_id c) && _); [exact I|].
  destruct (p_hier_step c st id (get_type (c_sp c) id)) as [st2 [e1|]] eqn:Eh.
  - destruct (p_hier_step_err_shape _ _ _ _ _ _ Eh) as [i [p ->]]. exact I.
  - destruct (b_bad st2); [exact I|].
    remember (ebml_size size sl) as esz eqn:Eesz. clear Eesz.
    destruct (negb (c_allow_over c) && _); [split; [reflexivity|exact Hk]|].
    destruct (c_max c) as [m|]; destruct esz as [n|]; try destruct (_ <? _); cbn [snd hdr_sizes_ok];
      try (split; [reflexivity|exact Hk]); (split; [lia|exact Hk]).
Qed.

(* ------------------------------------------------------------------ the invariant is kept *)
Lemma p_header_NI T c st : NI T st -> NI T (fst (p_header c st)).
Proof.
  intros H. destruct (p_header_pos c st) as [Hb Ho]. eapply NI_ext; [exact Hb|exact Ho|apply p_header_ext|exact H].
Qed.

Lemma p_tag_tail_NI T c st ts id ty esz hl st' r : N.of_nat hl <= blen st -> NI T st ->
  p_tag_tail c st ts (id, ty, esz, hl) = (st', r) -> NI T st'.
Proof.
  intros Hhl HN. unfold p_tag_tail.
  assert (Fin : forall s r0, NI T s -> (s, r0) = (st', r) -> NI T st') by (intros s r0 Hs Hq; inversion Hq; subst; exact Hs).
  assert (A : NI T (pconsume st (N.of_nat hl))) by (apply NI_consume; assumption).
  destruct ty as [[]|]; try (apply Fin; exact A);
    (destruct esz as [size|]; [|apply Fin; exact A]);
    (destruct (N.ltb_spec (blen (pconsume st (N.of_nat hl))) size) as [Hlt|Hge]; [apply Fin; exact A|]);
    assert (B : NI T (pconsume (pconsume st (N.of_nat hl)) size)) by (apply NI_consume; [exact Hge|exact A]).
  - destruct (arr_to_u64 _); apply Fin; exact B.
  - destruct (arr_to_i64 _); apply Fin; exact B.
  - destruct (utf8_valid _); apply Fin; exact B.
  - apply Fin; exact B.
  - destruct (arr_to_f64 _); apply Fin; exact B.
  - apply Fin; exact B.
Qed.

(* read_tag: the invariant is kept; a tag that was read declares less than 2^56 bytes, its data starts at or before the new
   cursor, and for a master exactly at the new cursor *)
Lemma p_read_tag_NI T c st st' r : NI T st -> p_read_tag c st = (st', r) ->
  NI T st' /\ b_off st <= b_off st' /\
  (forall p, r = Ok p -> ksize (p_size p) < 2 ^ 56 /\ p_start p = b_off st /\ p_start p <= p_data p /\ p_data p <= b_off st' /\
                         (forall id, p_tag p = TStart id -> p_data p = b_off st')).
Proof.
  intros HN Er. pose proof Er as Er0. rewrite p_read_tag_unfold in Er.
  pose proof (p_header_NI T c st HN) as H1. pose proof (p_header_sizes c st (proj1 HN)) as Hs.
  destruct (p_header_pos c st) as [_ Ho].
  destruct (p_header c st) as [st1 [[[[id ty] esz] hl]|e|]] eqn:Eh; cbn [fst snd] in *.
  - destruct (p_header_ok_facts _ _ _ _ _ _ _ Eh) as [Hb [_ [_ [idl [size [sl [_ [_ [_ [_ Hlen]]]]]]]]]].
    assert (Hlen1 : N.of_nat hl <= blen st1) by (unfold blen in *; rewrite Hb; exact Hlen).
    pose proof (p_tag_tail_NI _ _ _ _ _ _ _ _ _ _ Hlen1 H1 Er) as H2.
    destruct (p_tag_tail_bound _ _ _ _ _ _ _ _ _ Er) as [B1 B2].
    split; [exact H2|]. split; [lia|]. intros p Hr. subst r.
    destruct (p_tag_tail_size _ _ _ _ _ _ _ _ _ Er) as [S1 S2].
    destruct (p_read_tag_mirrors _ _ _ _ Er0) as [Hst [idl0 [hl0 [payload [_ [_ [_ [_ [Hd [Hoff Hm]]]]]]]]]].
    rewrite S1. split; [apply Hs|]. split; [exact Hst|]. split; [lia|]. split; [lia|].
    intros i Hi. rewrite Hi in Hm. destruct Hm as [_ Hp]. rewrite Hp in Hoff. cbn [length] in Hoff. lia.
  - inversion Er; subst. split; [exact H1|]. split; [lia|]. intros p Hp. discriminate Hp.
  - inversion Er; subst. split; [exact H1|]. split; [lia|]. intros p Hp. discriminate Hp.
Qed.

Lemma p_bm_finish_NI T tid ts pre st pos : NI T st -> NI T (p_bm_finish tid ts pre st pos).
Proof.
  intros H. unfold p_bm_finish. destruct (nth_error _ _) as [[t o|e]|]; (eapply NI_logic; [| | |exact H]; reflexivity).
Qed.

Lemma rn_bm_NI T c : forall fuel,
  (forall st, NI T st -> NI T (p_read_next fuel c st)) /\
  (forall tid ts pre pos st, NI T st -> NI T (p_buffer_master fuel c tid ts pre pos st)).
Proof.
  induction fuel as [|f [IH1 IH2]].
  - split; intros; (eapply NI_logic; [| | |eassumption]; reflexivity).
  - split.
    + intros st HN. rewrite p_read_next_unfold. cbn zeta.
      set (st1 := ppop_frames st _). assert (H1 : NI T st1) by apply NI_pop, HN.
      unfold p_read_tag_checked. destruct (b_bytes st1) as [|b0 bl] eqn:Eb.
      * destruct (c_emit_eof c); [apply NI_pop, H1|exact H1].
      * destruct (p_read_tag c st1) as [st2 r2] eqn:Er.
        destruct (p_read_tag_NI T c st1 st2 r2 H1 Er) as [H2 [Ho Hp]].
        destruct r2 as [p|e|].
        -- destruct (Hp p eq_refl) as [Hk [_ [_ [Hd HS]]]].
           set (st3 := ppop_frames st2 _). assert (H3 : NI T st3) by apply NI_pop, H2.
           destruct (p_tag p) as [id v|id|id|id cs] eqn:Ep; cbn [tag_id];
             try (eapply NI_logic; [| | |exact H3]; reflexivity).
           assert (H4 : NI T (pset_stack st3 ({| f_id := id; f_size := p_size p; f_start := p_start p; f_data := p_data p |}
                                               :: b_stack st3) (b_det st3))).
           { destruct H3 as [A [B C]]. split; [exact A|]. split; [exact B|]. cbn [pset_stack b_stack b_off].
             constructor; [|exact C]. unfold fbound. cbn [f_data f_size]. change (b_off st3) with (b_off st2).
             rewrite (HS id eq_refl). split; [lia|]. unfold ksize in Hk. destruct (p_size p); [lia|exact I]. }
           destruct (mem_id _ _); [apply IH2, H4|eapply NI_logic; [| | |exact H4]; reflexivity].
        -- eapply NI_logic; [| | |exact H2]; reflexivity.
        -- eapply NI_logic; [| | |exact H2]; reflexivity.
    + intros tid ts pre pos st HN. rewrite p_buffer_master_unfold. cbn zeta.
      destruct (_ <=? pos)%nat.
      * pose proof (IH1 st HN) as H1. destruct (b_bad (p_read_next f c st)); [exact H1|].
        destruct (_ <=? pos)%nat; [eapply NI_logic; [| | |exact H1]; reflexivity|].
        destruct (scan_queue _ _ _) as [p [|]]; [apply p_bm_finish_NI, H1|apply IH2, H1].
      * destruct (scan_queue _ _ _) as [p [|]]; [apply p_bm_finish_NI, HN|apply IH2, HN].
Qed.

Lemma p_next_NI T c st : NI T st -> NI T (fst (p_next c st)).
Proof.
  intros HN. unfold p_next.
  assert (H1 : NI T (match b_queue st with [] => p_read_next (b_fuel st) c st | _ :: _ => st end)).
  { destruct (b_queue st); [apply rn_bm_NI, HN|exact HN]. }
  set (st1 := match b_queue st with [] => _ | _ => _ end) in *.
  destruct (b_queue st1) as [|[t o|e] q]; cbn [fst]; [exact H1| |]; (eapply NI_logic; [| | |exact H1]; reflexivity).
Qed.

Lemma p_recover_loop_NI T c : forall fuel st, NI T st -> NI T (fst (p_recover_loop fuel c st)).
Proof.
  induction fuel as [|f IH]; intros st HN; cbn [p_recover_loop].
  - cbn [fst]. eapply NI_logic; [| | |exact HN]; reflexivity.
  - destruct (b_bytes st) as [|b0 tl] eqn:Eb; [exact HN|].
    assert (H1 : NI T (pconsume st 1)).
    { apply NI_consume; [unfold blen; rewrite Eb; cbn [length]; lia|exact HN]. }
    pose proof (p_header_NI T c _ H1) as H2.
    destruct (p_header c (pconsume st 1)) as [st2 [h|e|]]; cbn [fst] in *;
      [exact H2|apply IH, H2|eapply NI_logic; [| | |exact H2]; reflexivity].
Qed.

(* try_recover: `size + diff` with diff = current_offset() - original_position *)
Lemma p_try_recover_NI T c st : NI T st -> NI T (fst (p_try_recover c st)).
Proof.
  intros HN. unfold p_try_recover. pose proof (p_recover_loop_NI T c (b_fuel st) st HN) as H1.
  destruct (p_recover_loop_facts c (b_fuel st) st) as [Ho [Hx _]].
  destruct (p_recover_loop (b_fuel st) c st) as [st1 [e|]]; cbn [fst] in *; [exact H1|].
  destruct H1 as [A [B _]]. split; [exact A|]. split; [exact B|]. cbn [pset_stack b_stack b_off].
  destruct Hx as [x [Hx Hbl]]. rewrite Hx.
  assert (C0 : Forall (fbound (b_off st)) (b_stack st ++ x)).
  { apply Forall_app. split; [apply HN|apply Forall_fbound_blank, Hbl]. }
  set (d := b_off st1 - b_off st). assert (E : b_off st1 = b_off st + d) by (unfold d; lia).
  rewrite E. apply Forall_fbound_grow, C0.
Qed.

Lemma NI_init input : wf_bytes input -> NI (N.of_nat (length input)) (p_init input).
Proof. intros Hw. split; [exact Hw|]. split; [unfold blen; cbn [p_init b_bytes b_off]; lia|constructor]. Qed.

(* every state next()/try_recover() can reach *)
Theorem reach_NI c input st : wf_bytes input -> Reach c input st -> NI (N.of_nat (length input)) st.
Proof.
  intros Hw. induction 1 as [|st _ IH|st _ IH].
  - apply NI_init, Hw.
  - apply p_next_NI, IH.
  - apply p_try_recover_NI, IH.
Qed.

(* ================================================================== the bounds, in numbers *)
(* What the invariant says once the input is shorter than 2^62 bytes: every offset is below 2^62, every end of a declared
   range below 2^62 + 2^56 < 2^63, every (possibly enlarged) known size below 2^63. *)
Definition no_overflow_inv (input : list N) (st : pst) : Prop :=
  wf_bytes (b_bytes st) /\
  b_off st + N.of_nat (length (b_bytes st)) = N.of_nat (length input) /\
  b_off st < 2 ^ 62 /\
  forall f, In f (b_stack st) ->
    f_data f <= b_off st /\
    forall n, f_size f = SKnown n -> f_data f + n < b_off st + 2 ^ 56 /\ f_data f + n < 2 ^ 63 /\ n < 2 ^ 63.

Lemma NI_off_le T st : NI T st -> b_off st <= T.
Proof. intros [_ [B _]]. lia. Qed.

Lemma NI_frame T st f n : NI T st -> In f (b_stack st) -> f_size f = SKnown n ->
  f_data f <= b_off st /\ f_data f + n < b_off st + 2 ^ 56.
Proof.
  intros [_ [_ C]] Hin Hn. rewrite Forall_forall in C. destruct (C f Hin) as [A B]. rewrite Hn in B. split; assumption.
Qed.

Lemma NI_inv input st : N.of_nat (length input) < 2 ^ 62 -> NI (N.of_nat (length input)) st -> no_overflow_inv input st.
Proof.
  intros HT HN. pose proof (NI_off_le _ _ HN) as Hle. pose proof P56 as E56. pose proof P62 as E62. pose proof P63 as E63.
  destruct HN as [A [B C]]. split; [exact A|]. split; [exact B|]. split; [lia|].
  intros f Hin. rewrite Forall_forall in C. destruct (C f Hin) as [F1 F2]. split; [exact F1|].
  intros n Hn. rewrite Hn in F2. split; [exact F2|]. split; lia.
Qed.

Theorem reach_no_overflow c input st : wf_bytes input -> N.of_nat (length input) < 2 ^ 62 -> Reach c input st ->
  no_overflow_inv input st.
Proof. intros Hw HT HR. apply NI_inv; [exact HT|apply (reach_NI c), HR; exact Hw]. Qed.

(* the state a run ends in - hence every state it passes through (the runs of the prefixes of [ops]) *)
Theorem run_no_overflow c input ops : wf_bytes input -> N.of_nat (length input) < 2 ^ 62 ->
  no_overflow_inv input (fst (p_run_ops c (4 * length input + 64) (p_init input) ops)).
Proof. intros Hw HT. apply (reach_no_overflow c); [exact Hw|exact HT|apply run_reach]. Qed.

(* the sums peek_valid_tag_header and is_invalid_tag_size compute in a state in which an id and a size vint can be decoded:
   id_len + size_len, header_len + known_size, current_offset() + (header_len + known_size), and data_start + size for every
   open known-size master (the implied parents the hierarchy check may add have unknown size) *)
Definition header_sums (st : pst) : list N :=
  match p_tag_id st with
  | Ok (id, idl) =>
      match read_vint (firstn 8 (skipn idl (b_bytes st))) with
      | Ok (Some (size, sl)) =>
          let hl := N.of_nat (idl + sl) in
          let ks := ksize (ebml_size size sl) in
          [hl; hl + ks; b_off st + (hl + ks)] ++
          flat_map (fun f => match f_size f with SKnown n => [f_data f + n] | SUnknown => [] end) (b_stack st)
      | _ => []
      end
  | _ => []
  end.

Section Sums.
Variable c : cfg.
Variable input : list N.
Hypothesis Hw : wf_bytes input.
Hypothesis HT : N.of_nat (length input) < 2 ^ 62.

(* `self.buffer_offset.unwrap_or(0) + self.internal_buffer_position` (current_offset): the result is the cursor, which is
   at most the input length; both summands are at most the result *)
Theorem sum_current_offset st : Reach c input st -> b_off st <= N.of_nat (length input) /\ b_off st < 2 ^ 64.
Proof. intros HR. pose proof (NI_off_le _ _ (reach_NI c input st Hw HR)) as H. pose proof P62. pose proof P64. split; lia. Qed.

(* `tag.data_start + size` (read_next) and `t.data_start + t.size.value()` (is_invalid_tag_size), for every open master of
   known size - sizes enlarged by earlier try_recover calls included *)
Theorem sum_frame_end st f n : Reach c input st -> In f (b_stack st) -> f_size f = SKnown n ->
  f_data f <= b_off st /\ f_data f + n < 2 ^ 63 /\ f_data f + n < 2 ^ 64.
Proof.
  intros HR Hin Hn. destruct (reach_no_overflow c input st Hw HT HR) as [_ [_ [_ H]]].
  destruct (H f Hin) as [A B]. destruct (B n Hn) as [_ [B2 _]]. pose proof P63. pose proof P64. split; [exact A|]. split; lia.
Qed.

(* peek_tag_id / peek_valid_tag_header, whatever the outcome: once an id of [idl] bytes and a size vint of [sl] bytes have
   been decoded at the cursor,
     `val <<= 8; val += *item as u64`        the id fits a u64;
     `id_len + size_len`                      header_len <= 16;
     `(1 << (7 * n)) - 1` (EBMLSize::new)     1 << (7 n) <= 2^56;
     `header_len + known_size`                < 2^57;
     `self.current_offset() + size`           < 2^63   (the argument of is_invalid_tag_size is header_len + known_size) *)
Theorem sum_header_decoded st id idl size sl : Reach c input st ->
  p_tag_id st = Ok (id, idl) -> read_vint (firstn 8 (skipn idl (b_bytes st))) = Ok (Some (size, sl)) ->
  id < 2 ^ 64 /\ (idl + sl <= 16)%nat /\ 2 ^ (7 * N.of_nat sl) <= 2 ^ 56 /\ size < 2 ^ 56 /\
  N.of_nat (idl + sl) + ksize (ebml_size size sl) < 2 ^ 57 /\
  b_off st + (N.of_nat (idl + sl) + ksize (ebml_size size sl)) < 2 ^ 63.
Proof.
  intros HR Et Ev. pose proof (reach_NI c input st Hw HR) as HN. pose proof (NI_off_le _ _ HN) as Hle.
  destruct (p_tag_id_bound _ _ _ (proj1 HN) Et) as [Hidl Hid].
  destruct (size_vint_bound _ _ _ (wf_skipn idl _ (proj1 HN)) Ev) as [Hsl [Hsz Hpw]].
  pose proof (ksize_ebml_le size sl) as Hk. pose proof P56. pose proof P57. pose proof P62. pose proof P63.
  split; [exact Hid|]. split; [lia|]. split; [exact Hpw|]. split; [lia|]. split; lia.
Qed.

(* an accepted header: `header_len + known_size`, `self.current_offset() + size`, and the frame ends it is compared with;
   `self.internal_buffer_position += header_len` stays inside the input *)
Theorem sum_header_ok st st1 id ty esz hl : Reach c input st -> p_header c st = (st1, Ok (id, ty, esz, hl)) ->
  (hl <= 16)%nat /\ ksize esz < 2 ^ 56 /\ N.of_nat hl + ksize esz < 2 ^ 57 /\
  b_off st1 = b_off st /\ b_off st1 + (N.of_nat hl + ksize esz) < 2 ^ 63 /\
  b_off st + N.of_nat hl <= N.of_nat (length input) /\
  (forall f n, In f (b_stack st1) -> f_size f = SKnown n -> f_data f + n < 2 ^ 63).
Proof.
  intros HR Eh. pose proof (reach_NI c input st Hw HR) as HN. pose proof (NI_off_le _ _ HN) as Hle.
  pose proof (p_header_sizes c st (proj1 HN)) as Hs. pose proof (p_header_NI _ c st HN) as H1.
  destruct (p_header_ok_facts _ _ _ _ _ _ _ Eh) as [_ [Ho [_ [idl [size [sl [_ [_ [_ [_ Hlen]]]]]]]]]].
  rewrite Eh in Hs, H1. cbn [fst snd hdr_sizes_ok] in Hs, H1. destruct Hs as [Hhl Hk].
  pose proof P56. pose proof P57. pose proof P62. pose proof P63.
  split; [exact Hhl|]. split; [exact Hk|]. split; [lia|]. split; [exact Ho|]. split; [lia|].
  split; [destruct HN as [_ [B _]]; lia|].
  intros f n Hin Hn. destruct (NI_frame _ _ _ _ H1 Hin Hn) as [_ F]. lia.
Qed.

(* the two errors that report a declared size (the sums above have been computed before they are returned): the size is
   below 2^56, and with any header length up to 16 the sum `self.current_offset() + (header_len + known_size)` is below 2^63 *)
Theorem sum_header_oversized st st1 pos id ks : Reach c input st -> p_header c st = (st1, Err (ROversized pos id ks)) ->
  pos = b_off st /\ ks < 2 ^ 56 /\ forall hl, (hl <= 16)%nat -> b_off st + (N.of_nat hl + ks) < 2 ^ 63.
Proof.
  intros HR Eh. pose proof (reach_NI c input st Hw HR) as HN. pose proof (NI_off_le _ _ HN) as Hle.
  pose proof (p_header_sizes c st (proj1 HN)) as Hs. rewrite Eh in Hs. cbn [snd hdr_sizes_ok] in Hs. destruct Hs as [Hp Hk].
  pose proof P56. pose proof P62. pose proof P63. split; [exact Hp|]. split; [exact Hk|]. intros hl Hhl. lia.
Qed.

Theorem sum_header_invalid_size st st1 pos id n : Reach c input st -> p_header c st = (st1, Err (RInvalidSize pos id n)) ->
  pos = b_off st /\ n < 2 ^ 56 /\ forall hl, (hl <= 16)%nat -> b_off st + (N.of_nat hl + n) < 2 ^ 63.
Proof.
  intros HR Eh. pose proof (reach_NI c input st Hw HR) as HN. pose proof (NI_off_le _ _ HN) as Hle.
  pose proof (p_header_sizes c st (proj1 HN)) as Hs. rewrite Eh in Hs. cbn [snd hdr_sizes_ok] in Hs. destruct Hs as [Hp Hk].
  pose proof P56. pose proof P62. pose proof P63. split; [exact Hp|]. split; [exact Hk|]. intros hl Hhl. lia.
Qed.

(* whatever peek_valid_tag_header answers, the masters its oversize check looks at (the stack after the implied parents have
   been added) end below 2^63 *)
Theorem sum_header_frames st f n : Reach c input st -> In f (b_stack (fst (p_header c st))) -> f_size f = SKnown n ->
  f_data f + n < 2 ^ 63.
Proof.
  intros HR Hin Hn. pose proof (p_header_NI _ c st (reach_NI c input st Hw HR)) as H1.
  pose proof (NI_off_le _ _ H1) as Hle. destruct (NI_frame _ _ _ _ H1 Hin Hn) as [_ F].
  pose proof P56. pose proof P62. pose proof P63. lia.
Qed.

(* read_tag: tag_start and data_start are offsets inside the input; `self.internal_buffer_position += header_len` and
   `+= size` (read_tag_data) leave the cursor inside the input; the master frame that read_next pushes
   (data_start, size) ends below 2^63 *)
Theorem sum_read_tag st st' r : Reach c input st -> p_read_tag c st = (st', r) ->
  b_off st <= b_off st' /\ b_off st' <= N.of_nat (length input) /\
  forall p, r = Ok p ->
    p_start p = b_off st /\ p_start p <= p_data p /\ p_data p <= b_off st' /\
    ksize (p_size p) < 2 ^ 56 /\ p_data p + ksize (p_size p) < 2 ^ 63.
Proof.
  intros HR Er. destruct (p_read_tag_NI _ c st st' r (reach_NI c input st Hw HR) Er) as [H2 [Ho Hp]].
  pose proof (NI_off_le _ _ H2) as Hle. split; [exact Ho|]. split; [exact Hle|].
  intros p Hr. destruct (Hp p Hr) as [Hk [Hs [Hsd [Hd _]]]]. pose proof P56. pose proof P62. pose proof P63.
  split; [exact Hs|]. split; [exact Hsd|]. split; [exact Hd|]. split; [exact Hk|lia].
Qed.

(* try_recover: `self.current_offset() - original_position` does not underflow, and `size + diff` stays below 2^63 for
   every open master of known size; so does the end `data_start + (size + diff)` of the enlarged range *)
Theorem sum_recover st st1 : Reach c input st -> p_recover_loop (b_fuel st) c st = (st1, None) ->
  b_off st <= b_off st1 /\ b_off st1 <= N.of_nat (length input) /\
  forall f n, In f (b_stack st1) -> f_size f = SKnown n ->
    n + (b_off st1 - b_off st) < 2 ^ 63 /\ f_data f + (n + (b_off st1 - b_off st)) < 2 ^ 63.
Proof.
  intros HR El. pose proof (reach_NI c input st Hw HR) as HN.
  pose proof (p_recover_loop_NI _ c (b_fuel st) st HN) as H1.
  destruct (p_recover_loop_facts c (b_fuel st) st) as [Ho [Hx _]]. rewrite El in H1, Ho, Hx. cbn [fst] in H1, Ho, Hx.
  pose proof (NI_off_le _ _ H1) as Hle. split; [exact Ho|]. split; [exact Hle|].
  intros f n Hin Hn. destruct Hx as [x [Hx Hbl]]. rewrite Hx in Hin.
  assert (C0 : Forall (fbound (b_off st)) (b_stack st ++ x)).
  { apply Forall_app. split; [apply HN|apply Forall_fbound_blank, Hbl]. }
  rewrite Forall_forall in C0. destruct (C0 f Hin) as [F1 F2]. rewrite Hn in F2.
  pose proof P56. pose proof P62. pose proof P63. split; lia.
Qed.

(* the same read off the state try_recover returns: the sizes it has written are below 2^63 *)
Theorem sum_recover_result st f n : Reach c input st -> In f (b_stack (fst (p_try_recover c st))) -> f_size f = SKnown n ->
  n < 2 ^ 63 /\ f_data f + n < 2 ^ 63.
Proof.
  intros HR Hin Hn. destruct (reach_no_overflow c input _ Hw HT (Reach_recover _ _ _ HR)) as [_ [_ [_ H]]].
  destruct (H f Hin) as [_ B]. destruct (B n Hn) as [_ [B2 B3]]. split; assumption.
Qed.

(* all of them at once *)
Theorem header_sums_bounded st : Reach c input st -> Forall (fun x => x < 2 ^ 63) (header_sums st).
Proof.
  intros HR. unfold header_sums. destruct (p_tag_id st) as [[id idl]|e|] eqn:Et; try constructor.
  destruct (read_vint _) as [[[size sl]|]|e|] eqn:Ev; try constructor.
  - destruct (sum_header_decoded st id idl size sl HR Et Ev) as [_ [H16 [_ [_ [H57 _]]]]]. pose proof P57. pose proof P63. lia.
  - constructor.
    + destruct (sum_header_decoded st id idl size sl HR Et Ev) as [_ [_ [_ [_ [H57 _]]]]]. pose proof P57. pose proof P63. lia.
    + constructor; [apply (sum_header_decoded st id idl size sl HR Et Ev)|].
      rewrite Forall_forall. intros x Hin. apply in_flat_map in Hin. destruct Hin as [f [Hf Hx]].
      destruct (f_size f) as [n|] eqn:En; [|destruct Hx]. destruct Hx as [<-|[]].
      apply (sum_frame_end st f n HR Hf En).
Qed.

End Sums.

(* ================================================================== the buffered machine *)
(* On a source that never pauses or fails the buffered machine is in the abstract reader's state (Proofs/Refine.v), so its
   offset, its stack and the split of the input (consumed | window | not yet delivered) obey the same bounds. *)
Theorem buffered_no_overflow c cap0 script input ops : calm script -> wf_bytes input -> N.of_nat (length input) < 2 ^ 62 ->
  let st := fst (run_reader_st c cap0 script input ops) in
  r_off st + r_wlen st + r_rlen st = N.of_nat (length input) /\ r_off st < 2 ^ 62 /\
  forall f, In f (r_stack st) ->
    f_data f <= r_off st /\ forall n, f_size f = SKnown n -> f_data f + n < 2 ^ 63 /\ n < 2 ^ 63.
Proof.
  intros Hc Hw HT st. unfold run_reader_st in st.
  assert (HG : Good (r_init cap0 script input)) by (split; [split; reflexivity|exact Hc]).
  destruct (run_ops_refines c (4 * length input + 64) ops _ HG) as [[HWF _] [HA _]]. fold st in HWF, HA.
  change (Abs (r_init cap0 script input)) with (p_init input) in HA.
  pose proof (run_no_overflow c input ops Hw HT) as HI. rewrite <- HA in HI.
  destruct HI as [_ [I2 [I3 I4]]]. cbn [Abs b_bytes b_off b_stack] in I2, I3, I4.
  rewrite (total_len st HWF) in I2. split; [lia|]. split; [exact I3|].
  intros f Hin. destruct (I4 f Hin) as [F1 F2]. split; [exact F1|]. intros n Hn. destruct (F2 n Hn) as [_ F3]. exact F3.
Qed.

(* The buffer.  Model/Reader.v keeps the window buffer[internal_buffer_position..buffered_byte_length] ([r_win], of length
   [r_wlen]) and the buffer length [r_cap]; compaction is invisible.  Whatever the source does (short reads, pauses, I/O
   errors) and whether or not a size limit is configured: the window never exceeds the buffer, and the buffer never exceeds
   max(initial capacity, 16, B) as soon as every declared size is at most B - which byte inputs guarantee for B = 2^56.
   In the code internal_buffer_position <= buffered_byte_length <= buffer.len(), so the sums
   `self.internal_buffer_position + length` (ensure_data_read; length is 1, 8, 16 or a declared size < 2^56),
   `self.internal_buffer_position + id_len`, `self.buffered_byte_length += bytes_read` are bounded by
   buffer.len() + 2^56 <= max(cap0, 16, 2^56) + 2^56. *)
Lemma wf_splitN_fst : forall l k, wf_bytes l -> wf_bytes (fst (splitN k l)).
Proof.
  induction l as [|x l IH]; intros k H; cbn [splitN]; [constructor|].
  destruct (k =? 0); [constructor|]. inversion H as [|? ? Hx Hl]; subst. specialize (IH (N.pred k) Hl).
  destruct (splitN (N.pred k) l). cbn [fst] in *. constructor; assumption.
Qed.

Section Cap.
Variable B : N.
Hypothesis B16 : 16 <= B.
Hypothesis B56 : 2 ^ 56 <= B.

Definition BI (st : rst) : Prop :=
  wf_bytes (r_win st) /\ wf_bytes (r_rest st) /\ r_wlen st <= r_cap st /\ r_cap st <= B.

Lemma BI_io a b : io_same a b -> BI b -> BI a.
Proof. intros [H1 [H2 [H3 [_ [H5 _]]]]]. unfold BI. rewrite H1, H2, H3, H5. auto. Qed.

Lemma deliver_BI st k s : r_wlen st + k <= r_cap st -> BI st -> BI (deliver st k s).
Proof.
  intros Hk [Hw [Hr [Hl Hc]]]. unfold deliver.
  pose proof (wf_splitN_fst (r_rest st) k Hr) as Ha. pose proof (wf_splitN_snd (r_rest st) k Hr) as Hb.
  destruct (splitN k (r_rest st)) as [a b]. cbn [fst snd] in *. unfold BI, upd_io. cbn [r_win r_rest r_wlen r_cap].
  split; [apply Forall_app; split; assumption|]. split; [exact Hb|]. split; [exact Hk|exact Hc].
Qed.

Lemma private_read_BI st room : r_wlen st + room <= r_cap st -> BI st -> BI (fst (private_read st room)).
Proof.
  intros Hroom HB. unfold private_read. destruct (r_script st) as [|[n| |cd] s]; cbn [fst].
  - destruct (_ =? 0); cbn [fst]; [exact HB|]. apply deliver_BI; [lia|exact HB].
  - destruct (_ =? 0); cbn [fst]; [exact HB|]. apply deliver_BI; [lia|exact HB].
  - exact HB.
  - exact HB.
Qed.

Lemma ensure_loop_BI n : n <= B -> forall fuel st, BI st -> BI (fst (ensure_loop fuel n st)).
Proof.
  intros Hn. induction fuel as [|f IH]; intros st HB; cbn [ensure_loop]; [exact HB|].
  destruct (n <=? r_wlen st); [exact HB|].
  set (st1 := set_cap st (N.max (r_cap st) n)).
  assert (HB1 : BI st1).
  { destruct HB as [Hw [Hr [Hl Hc]]]. unfold BI, st1. cbn [set_cap upd_io r_win r_rest r_wlen r_cap].
    split; [exact Hw|]. split; [exact Hr|]. split; lia. }
  assert (Hroom : r_wlen st1 + (r_cap st1 - r_wlen st1) <= r_cap st1) by (destruct HB1 as [_ [_ [Hl _]]]; lia).
  pose proof (private_read_BI st1 _ Hroom HB1) as HB2.
  destruct (private_read st1 (r_cap st1 - r_wlen st1)) as [st2 r2]. cbn [fst] in HB2.
  destruct r2 as [[|]|e|]; cbn [fst]; try exact HB2. apply IH, HB2.
Qed.

Lemma ensure_BI n st : n <= B -> BI st -> BI (fst (ensure n st)).
Proof. intros Hn HB. unfold ensure. apply ensure_loop_BI; assumption. Qed.

Lemma consume_BI st k : BI st -> BI (consume st k).
Proof.
  intros [Hw [Hr [Hl Hc]]]. unfold consume. pose proof (wf_splitN_snd (r_win st) k Hw) as Hb.
  destruct (splitN k (r_win st)) as [a b]. cbn [snd] in Hb. unfold BI, upd_io. cbn [r_win r_rest r_wlen r_cap].
  split; [exact Hb|]. split; [exact Hr|]. split; [lia|exact Hc].
Qed.

Lemma peek_tag_id_BI st : BI st -> BI (fst (peek_tag_id st)).
Proof.
  intros HB. unfold peek_tag_id. assert (H8 : 8 <= B) by lia. pose proof (ensure_BI 8 st H8 HB) as H1.
  destruct (ensure 8 st) as [st1 [b|e|]]; cbn [fst] in *; try exact H1.
  destruct (r_win st1) as [|b0 w]; [exact H1|]. destruct (b0 =? 0); [exact H1|]. destruct (_ <? _); exact H1.
Qed.

Lemma hdr_tail_io c st id id_len : io_same (fst (hdr_tail c st id id_len)) st.
Proof.
  unfold hdr_tail. destruct (read_vint _) as [[[size sl]|]|e|]; try apply io_same_refl.
  destruct (is_numeric _ && _); [apply io_same_refl|]. destruct (negb (c_allow_id c) && _); [apply io_same_refl|].
  destruct (hier_step_refines c st id (get_type (c_sp c) id)) as [Hh _].
  destruct (hier_step c st id (get_type (c_sp c) id)) as [st1 [e1|]]; cbn [fst] in *; [exact Hh|].
  destruct (r_bad st1); [exact Hh|]. destruct (negb (c_allow_over c) && _); [exact Hh|].
  destruct (c_max c); destruct (ebml_size size sl); try destruct (_ <? _); exact Hh.
Qed.

(* a declared size that peek_valid_tag_header lets through is below 2^56, limit or no limit *)
Lemma hdr_tail_size56 c st id id_len id' ty n hl : wf_bytes (r_win st) ->
  snd (hdr_tail c st id id_len) = Ok (id', ty, SKnown n, hl) -> n < 2 ^ 56.
Proof.
  intros Hw. unfold hdr_tail. destruct (read_vint _) as [[[size sl]|]|e|] eqn:Ev; try discriminate.
  destruct (size_vint_bound _ _ _ (wf_skipn id_len _ Hw) Ev) as [_ [Hsz Hpw]].
  pose proof (ksize_ebml_le size sl) as Hk.
  destruct (is_numeric _ && _); [discriminate|]. destruct (negb (c_allow_id c) && _); [discriminate|].
  destruct (hier_step c st id (get_type (c_sp c) id)) as [st1 [e1|]]; [discriminate|].
  destruct (r_bad st1); [discriminate|]. destruct (negb (c_allow_over c) && _); [discriminate|].
  remember (ebml_size size sl) as esz eqn:Eesz. clear Eesz.
  destruct (c_max c); destruct esz as [k|]; try destruct (_ <? _); try discriminate;
    cbn [snd]; intros H; inversion H; subst; cbn [ksize] in Hk; lia.
Qed.

Lemma peek_header_BI c st : BI st ->
  BI (fst (peek_header c st)) /\
  forall id ty n hl, snd (peek_header c st) = Ok (id, ty, SKnown n, hl) -> n < 2 ^ 56.
Proof.
  intros HB. rewrite peek_header_unfold. pose proof (ensure_BI 16 st B16 HB) as H1.
  destruct (ensure 16 st) as [st1 [b|e|]]; cbn [fst snd] in *; try (split; [exact H1|discriminate]).
  pose proof (peek_tag_id_BI st1 H1) as H2.
  destruct (peek_tag_id st1) as [st2 [[id idl]|e|]]; cbn [fst snd] in *; try (split; [exact H2|discriminate]).
  split; [eapply BI_io; [apply hdr_tail_io|exact H2]|].
  intros id' ty n hl Hq. eapply hdr_tail_size56; [apply H2|exact Hq].
Qed.

Variable c : cfg.

Lemma read_tag_BI st : BI st -> BI (fst (read_tag c st)).
Proof.
  intros HB. rewrite read_tag_unfold. destruct (peek_header_BI c st HB) as [H1 Hsz].
  destruct (peek_header c st) as [st1 [[[[id ty] esz] hl]|e|]]; cbn [fst snd] in *; try exact H1.
  unfold tag_tail. set (stc := consume st1 (N.of_nat hl)).
  assert (Hcc : BI stc) by (apply consume_BI, H1).
  destruct esz as [size|].
  2:{ destruct ty as [[]|]; cbn [fst]; exact Hcc. }
  assert (Hsize : size <= B) by (specialize (Hsz id ty size hl eq_refl); lia).
  set (st2 := set_cap stc (N.max (r_cap stc) size)).
  assert (HB2 : BI st2).
  { destruct Hcc as [Hw [Hr [Hl Hc]]]. unfold BI, st2. cbn [set_cap upd_io r_win r_rest r_wlen r_cap].
    split; [exact Hw|]. split; [exact Hr|]. split; lia. }
  pose proof (ensure_BI size st2 Hsize HB2) as H3.
  destruct ty as [[]|]; try exact Hcc.
  all: destruct (ensure size st2) as [st3 [[|]|e|]]; cbn [fst] in *; try exact H3.
  all: pose proof (consume_BI st3 size H3) as H4.
  all: destruct (splitN size (r_win st3)) as [raw rest'].
  all: try (destruct (arr_to_u64 raw); exact H4).
  all: try (destruct (arr_to_i64 raw); exact H4).
  all: try (destruct (arr_to_f64 raw); exact H4).
  all: try (destruct (utf8_valid raw); exact H4).
  all: exact H4.
Qed.

Lemma read_tag_checked_BI st : BI st -> BI (fst (read_tag_checked c st)).
Proof.
  intros HB. unfold read_tag_checked. assert (H1B : 1 <= B) by lia. destruct (r_wlen st =? 0).
  - pose proof (ensure_BI 1 st H1B HB) as H1.
    destruct (ensure 1 st) as [st1 [[|]|e|]]; cbn [fst] in *; try exact H1.
    pose proof (read_tag_BI st1 H1) as H. destruct (read_tag c st1). exact H.
  - pose proof (read_tag_BI st HB) as H. destruct (read_tag c st). exact H.
Qed.

Lemma rn_bm_BI : forall fuel,
  (forall st, BI st -> BI (read_next fuel c st)) /\
  (forall tid ts pre pos st, BI st -> BI (buffer_master fuel c tid ts pre pos st)).
Proof.
  induction fuel as [|f [IH1 IH2]].
  - split; intros; assumption.
  - split.
    + intros st HB. rewrite read_next_unfold. cbn zeta.
      set (st1 := pop_frames st _). assert (H1 : BI st1) by exact HB.
      pose proof (read_tag_checked_BI st1 H1) as H2.
      destruct (read_tag_checked c st1) as [st2 [[p|e|]|]]; cbn [fst] in H2; try exact H2.
      * destruct (p_tag p); try exact H2. destruct (mem_id _ _); [|exact H2]. apply IH2. exact H2.
      * destruct (c_emit_eof c); exact H2.
    + intros tid ts pre pos st HB. rewrite buffer_master_unfold. cbn zeta.
      assert (Fin : forall s p, BI s -> BI (bm_finish tid ts pre s p)).
      { intros s p Hs. unfold bm_finish. destruct (nth_error _ _) as [[? ?|?]|]; exact Hs. }
      destruct (_ <=? pos)%nat.
      * pose proof (IH1 st HB) as H1. destruct (r_bad (read_next f c st)); [exact H1|].
        destruct (_ <=? pos)%nat; [exact H1|]. destruct (scan_queue _ _ _) as [p [|]]; [apply Fin, H1|apply IH2, H1].
      * destruct (scan_queue _ _ _) as [p [|]]; [apply Fin, HB|apply IH2, HB].
Qed.

Lemma next_BI st : BI st -> BI (fst (next c st)).
Proof.
  intros HB. unfold next.
  assert (H1 : BI (match r_queue st with [] => read_next (r_fuel st) c st | _ :: _ => st end)).
  { destruct (r_queue st); [apply rn_bm_BI, HB|exact HB]. }
  set (st1 := match r_queue st with [] => _ | _ => _ end) in *.
  destruct (r_queue st1) as [|[t o|e] q]; exact H1.
Qed.

Lemma recover_loop_BI : forall fuel st, BI st -> BI (fst (recover_loop fuel c st)).
Proof.
  induction fuel as [|f IH]; intros st HB; cbn [recover_loop]; [exact HB|].
  assert (H1B : 1 <= B) by lia. pose proof (ensure_BI 1 st H1B HB) as H1.
  destruct (ensure 1 st) as [st1 [[|]|e|]]; cbn [fst] in *; try exact H1.
  pose proof (consume_BI st1 1 H1) as H2. destruct (peek_header_BI c _ H2) as [H3 _].
  destruct (peek_header c (consume st1 1)) as [st3 [h|e|]]; cbn [fst] in *; try exact H3. destruct e; cbn [fst]; try (apply IH, H3). exact H3.
Qed.

Lemma try_recover_BI st : BI st -> BI (fst (try_recover c st)).
Proof.
  intros HB. unfold try_recover. pose proof (recover_loop_BI (r_fuel st) st HB) as H1.
  destruct (recover_loop (r_fuel st) c st) as [st1 [e|]]; exact H1.
Qed.

Lemma run_all_BI : forall limit st, BI st -> BI (fst (run_all limit c st)).
Proof.
  induction limit as [|l IH]; intros st HB; cbn [run_all]; [exact HB|].
  pose proof (next_BI st HB) as H1. destruct (next c st) as [st1 r1]. cbn [fst] in H1.
  destruct (r_bad st1); [exact H1|]. destruct r1 as [t o|e|]; try exact H1.
  pose proof (IH st1 H1) as H. destruct (run_all l c st1). exact H.
Qed.

Lemma run_ops_BI limit : forall ops st, BI st -> BI (fst (run_ops c limit st ops)).
Proof.
  induction ops as [|op ops IH]; intros st HB; cbn [run_ops]; [exact HB|]. destruct op.
  - pose proof (next_BI st HB) as H1. destruct (next c st) as [st1 r1]. cbn [fst] in H1.
    destruct (r_bad st1); [exact H1|]. pose proof (IH st1 H1) as H. destruct (run_ops c limit st1 ops). exact H.
  - pose proof (try_recover_BI st HB) as H1. destruct (try_recover c st) as [st1 r1]. cbn [fst] in H1.
    destruct (r_bad st1); [exact H1|]. pose proof (IH st1 H1) as H. destruct (run_ops c limit st1 ops). exact H.
  - pose proof (run_all_BI limit st HB) as H1. destruct (run_all limit c st) as [st1 o1]. cbn [fst] in H1.
    destruct (r_bad st1); [exact H1|]. pose proof (IH st1 H1) as H. destruct (run_ops c limit st1 ops). exact H.
Qed.

End Cap.

(* no size limit needed: on byte inputs the buffer never grows beyond max(initial capacity, 16, 2^56), and the window
   (buffered_byte_length - internal_buffer_position) never exceeds the buffer *)
Theorem cap_bounded_bytes c cap0 script input ops : wf_bytes input ->
  let st := fst (run_reader_st c cap0 script input ops) in
  r_wlen st <= r_cap st /\ r_cap st <= N.max (N.max cap0 16) (2 ^ 56) /\ r_cap st + 2 ^ 56 < 2 ^ 57 + N.max cap0 16.
Proof.
  intros Hw st. unfold run_reader_st in st.
  assert (H16 : 16 <= N.max (N.max cap0 16) (2 ^ 56)) by lia.
  assert (H56 : 2 ^ 56 <= N.max (N.max cap0 16) (2 ^ 56)) by lia.
  assert (H0 : BI (N.max (N.max cap0 16) (2 ^ 56)) (r_init cap0 script input)).
  { unfold BI. cbn [r_init r_init_fuel r_win r_rest r_wlen r_cap]. split; [constructor|]. split; [exact Hw|]. split; lia. }
  pose proof (run_ops_BI _ H16 H56 c (4 * length input + 64) ops _ H0) as H. fold st in H.
  destruct H as [_ [_ [Hl Hc]]]. pose proof P56. pose proof P57. split; [exact Hl|]. split; [exact Hc|]. lia.
Qed.
