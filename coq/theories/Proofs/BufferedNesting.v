(* C06 with buffered masters.  Props/C06.v states well-nestedness for configurations with nothing buffered; Props/C08.v states
   that a drain with ANY buffered set that completes without an error outcome, once every Full item is unrolled recursively
   ([flat] on tags, [Unr] on items with offsets), is the drain of the same configuration with nothing buffered
   ([unbuffered c]).  This file composes the two: the unrolled items of a clean buffered drain are accepted by the nesting
   checker [chk], by the End-offset checker [chk_off] and by the byte-range checker [chk_ext], from the same bases as in the
   unbuffered case.  The side condition about the item limit of the unbuffered run is the one of C08 (it yields more items, so
   it alone can be cut), in both forms: "the unbuffered run has no OLimit outcome" and "the unrolled sequence is shorter than
   4 * |input| + 64".
   For runs WITH an error inside a buffered master the statement is false (finding D29): see
   C06_buffered_error_counterexample in Props/C06.v. *)
From Ebml Require Import Base Tools Spec Reader Pure Proofs.Tactics Proofs.RollUp Proofs.Nesting Proofs.BufferSim Proofs.Tiling
  Proofs.Extents Proofs.AuditNesting.

(* ------------------------------------------------------------------ small facts *)
Lemma unbuffered_sp c : c_sp (unbuffered c) = c_sp c. Proof. reflexivity. Qed.
Lemma unbuffered_buffered c : c_buffered (unbuffered c) = []. Proof. reflexivity. Qed.

(* the unrolling of a sequence that begins with a Start, an element or a Full item begins with a Start / element of the same id *)
Lemma flat_head y l : (forall id, y <> TEnd id) ->
  exists x r, flat (y :: l) = x :: r /\ is_se x = true /\ tag_id x = tag_id y.
Proof.
  intros Hy. rewrite flat_cons. destruct y as [id v|id|id|id cs].
  - exists (TElem id v), (flat l). split; [reflexivity|split; reflexivity].
  - exists (TStart id), (flat l). split; [reflexivity|split; reflexivity].
  - exfalso. apply (Hy id). reflexivity.
  - rewrite flat1_full. exists (TStart id), ((flat cs ++ [TEnd id]) ++ flat l). split; [reflexivity|split; reflexivity].
Qed.

(* the (tag, offset) pairs of the unrolled items carry the unrolled tags *)
Lemma all_q_tags q : map fst (all_q q) = qtags q.
Proof.
  induction q as [|[t o|e] q IH]; [reflexivity| |].
  - change (all_q (QOk t o :: q)) with ((t, o) :: all_q q). rewrite qtags_cons. cbn [map fst]. f_equal. exact IH.
  - exact IH.
Qed.

Section Clean.
Variables (c : cfg) (input : list N).
Let outs := p_run c input [RAll].
Let cu := unbuffered c.
Hypothesis Hclean : forall o, In o outs -> match o with OItem _ _ | ONone => True | _ => False end.
Hypothesis Hlim : ~ In OLimit (p_run (unbuffered c) input [RAll]).

Lemma clean_flat : flat (out_tags outs) = out_tags (p_run cu input [RAll]).
Proof. exact (buffered_run_unrolls c input Hclean Hlim). Qed.

Lemma clean_unr : Unr (out_items outs) (out_items (p_run cu input [RAll])).
Proof. exact (buffered_run_unrolls_items c input Hclean Hlim). Qed.

(* ---------------------------------------------------------------- (1) the nesting checker *)
Lemma bcw_some : c_allow_id c = false -> c_allow_hier c = false ->
  exists base, chk (c_sp c) base false (flat (out_tags outs)) <> None.
Proof. intros Hid Hh. rewrite clean_flat. exact (strict_items_well_nested cu input [RAll] Hid Hh eq_refl). Qed.

Lemma bcw_rooted : c_allow_id c = false -> c_allow_hier c = false ->
  forall x rest, flat (out_tags outs) = x :: rest -> is_se x = true -> get_path (c_sp c) (tag_id x) = [] ->
  chk (c_sp c) [] false (flat (out_tags outs)) <> None.
Proof.
  intros Hid Hh x rest E Hse Hp. rewrite clean_flat in *.
  exact (strict_items_well_nested_rooted cu input [RAll] Hid Hh eq_refl x rest E Hse Hp).
Qed.

Lemma bcw_rooted_first : c_allow_id c = false -> c_allow_hier c = false ->
  forall y rest, out_tags outs = y :: rest -> (forall id, y <> TEnd id) -> get_path (c_sp c) (tag_id y) = [] ->
  chk (c_sp c) [] false (flat (out_tags outs)) <> None.
Proof.
  intros Hid Hh y rest E Hy Hp. destruct (flat_head y rest Hy) as [x [r [Ef [Hse Hid']]]].
  apply (bcw_rooted Hid Hh x r); [rewrite E; exact Ef|exact Hse|rewrite Hid'; exact Hp].
Qed.

Lemma bcw_pinned : c_allow_id c = false -> c_allow_hier c = false ->
  let items := flat (out_tags outs) in
  (exists o, chk (c_sp c) [] false items = Some (o, false)) \/
  (exists pre o x rest, items = pre ++ map TEnd o ++ x :: rest /\ chk (c_sp c) [] false pre = Some (o, false) /\
     is_se x = true /\ all_ids (get_path (c_sp c) (tag_id x)) = true /\
     chk (c_sp c) (base_of (c_sp c) (tag_id x)) false items <> None).
Proof. intros Hid Hh. cbn zeta. rewrite clean_flat. exact (drain_items_pinned cu input Hid Hh eq_refl). Qed.

Lemma bcw_based : c_allow_id c = false -> c_allow_hier c = false ->
  exists base, chk (c_sp c) base false (flat (out_tags outs)) <> None /\ Based (c_sp c) base (flat (out_tags outs)).
Proof. intros Hid Hh. rewrite clean_flat. exact (strict_items_based cu input [RAll] Hid Hh eq_refl). Qed.

(* ---------------------------------------------------------------- (2) byte ranges and End offsets *)
Lemma bce_some : c_allow_over c = false ->
  exists U, Unr (out_items outs) U /\ exists base, nobase base /\ chk_ext input base 0 (all_q U) <> None.
Proof.
  intros Hov. exists (out_items (p_run cu input [RAll])). split; [exact clean_unr|].
  exact (run_all_extents cu input Hov eq_refl).
Qed.

(* one base for the three checkers *)
Lemma bc_all_x : c_allow_id c = false -> c_allow_hier c = false ->
  exists base, Unr (out_items outs) (out_items (p_run cu input [RAll])) /\
    qtags (out_items (p_run cu input [RAll])) = flat (out_tags outs) /\
    pinned_base (c_sp c) (qtags (out_items (p_run cu input [RAll]))) base /\
    chk (c_sp c) base false (qtags (out_items (p_run cu input [RAll]))) <> None /\
    chk_off (zbase base) (all_q (out_items (p_run cu input [RAll]))) <> None /\
    (c_allow_over c = false -> chk_ext input (ebase base) 0 (all_q (out_items (p_run cu input [RAll]))) <> None).
Proof.
  intros Hid Hh.
  assert (Et : qtags (out_items (p_run cu input [RAll])) = flat (out_tags outs)) by (rewrite out_items_tags, clean_flat; reflexivity).
  assert (Hex : exists base, pinned_base (c_sp c) (flat (out_tags outs)) base /\ chk (c_sp c) base false (flat (out_tags outs)) <> None).
  { destruct (bcw_pinned Hid Hh) as [[o HU]|[pre [o [x [rest [E [H1 [H2 [H3 H4]]]]]]]]].
    - exists []. split; [left; split; [reflexivity|exists o; exact HU]|rewrite HU; discriminate].
    - exists (base_of (c_sp c) (tag_id x)). split; [|exact H4]. right. exists pre, o, x, rest.
      split; [exact E|]. split; [exact H1|]. split; [exact H2|]. split; [exact H3|reflexivity]. }
  destruct Hex as [base [HP HN]]. exists base. rewrite Et.
  split; [exact clean_unr|]. split; [reflexivity|]. split; [exact HP|]. split; [exact HN|]. split.
  - destruct (run_end_offsets cu input [RAll] eq_refl) as [baseO [Hz HO]].
    apply (chk_off_same_base (c_sp c) _ [] baseO base false Hz HO). rewrite out_pairs_tags, <- clean_flat. exact HN.
  - intros Hov. destruct (run_all_extents cu input Hov eq_refl) as [baseE [Hz HE]].
    apply (chk_ext_same_base (c_sp c) input _ [] baseE base 0 false Hz HE). rewrite out_pairs_tags, <- clean_flat. exact HN.
Qed.

Lemma bc_all : c_allow_id c = false -> c_allow_hier c = false ->
  exists U base, Unr (out_items outs) U /\ qtags U = flat (out_tags outs) /\
    pinned_base (c_sp c) (qtags U) base /\
    chk (c_sp c) base false (qtags U) <> None /\
    chk_off (zbase base) (all_q U) <> None /\
    (c_allow_over c = false -> chk_ext input (ebase base) 0 (all_q U) <> None).
Proof.
  intros Hid Hh. destruct (bc_all_x Hid Hh) as [base H]. exists (out_items (p_run cu input [RAll])), base. exact H.
Qed.

(* C03: the tiling of the input by the non-End items of the unrolling, and the End offsets from the pinned base *)
Lemma bc_tiles_pinned : c_allow_id c = false -> c_allow_hier c = false ->
  exists U base, Unr (out_items outs) U /\ Tiled (c_sp c) 0 input (ne_q U) /\
    pinned_base (c_sp c) (qtags U) base /\ chk_off (zbase base) (all_q U) <> None.
Proof.
  intros Hid Hh. destruct (bc_all_x Hid Hh) as [base [H1 [_ [H3 [_ [H5 _]]]]]].
  exists (out_items (p_run cu input [RAll])), base. split; [exact H1|]. split; [|split; [exact H3|exact H5]].
  exact (run_all_tiles cu input eq_refl).
Qed.

(* rooted: everything from the empty base *)
Lemma bc_all_rooted_x : c_allow_id c = false -> c_allow_hier c = false ->
  forall y rest, out_tags outs = y :: rest -> (forall id, y <> TEnd id) -> get_path (c_sp c) (tag_id y) = [] ->
  Unr (out_items outs) (out_items (p_run cu input [RAll])) /\
    qtags (out_items (p_run cu input [RAll])) = flat (out_tags outs) /\
    chk (c_sp c) [] false (qtags (out_items (p_run cu input [RAll]))) <> None /\
    chk_off [] (all_q (out_items (p_run cu input [RAll]))) <> None /\
    (c_allow_over c = false -> chk_ext input [] 0 (all_q (out_items (p_run cu input [RAll]))) <> None).
Proof.
  intros Hid Hh y rest E Hy Hp.
  assert (Et : qtags (out_items (p_run cu input [RAll])) = flat (out_tags outs)) by (rewrite out_items_tags, clean_flat; reflexivity).
  pose proof (bcw_rooted_first Hid Hh y rest E Hy Hp) as HN. rewrite Et.
  split; [exact clean_unr|]. split; [reflexivity|]. split; [exact HN|]. split.
  - destruct (run_end_offsets cu input [RAll] eq_refl) as [baseO [Hz HO]].
    apply (chk_off_same_base (c_sp c) _ [] baseO [] false Hz HO). rewrite out_pairs_tags, <- clean_flat. exact HN.
  - intros Hov. destruct (run_all_extents cu input Hov eq_refl) as [baseE [Hz HE]].
    apply (chk_ext_same_base (c_sp c) input _ [] baseE [] 0 false Hz HE). rewrite out_pairs_tags, <- clean_flat. exact HN.
Qed.

Lemma bc_all_rooted : c_allow_id c = false -> c_allow_hier c = false ->
  forall y rest, out_tags outs = y :: rest -> (forall id, y <> TEnd id) -> get_path (c_sp c) (tag_id y) = [] ->
  exists U, Unr (out_items outs) U /\ qtags U = flat (out_tags outs) /\
    chk (c_sp c) [] false (qtags U) <> None /\
    chk_off [] (all_q U) <> None /\
    (c_allow_over c = false -> chk_ext input [] 0 (all_q U) <> None).
Proof.
  intros Hid Hh y rest E Hy Hp. exists (out_items (p_run cu input [RAll])). exact (bc_all_rooted_x Hid Hh y rest E Hy Hp).
Qed.

Lemma bc_tiles_rooted : c_allow_id c = false -> c_allow_hier c = false ->
  forall y rest, out_tags outs = y :: rest -> (forall id, y <> TEnd id) -> get_path (c_sp c) (tag_id y) = [] ->
  exists U, Unr (out_items outs) U /\ Tiled (c_sp c) 0 input (ne_q U) /\ chk_off [] (all_q U) <> None.
Proof.
  intros Hid Hh y rest E Hy Hp. destruct (bc_all_rooted_x Hid Hh y rest E Hy Hp) as [H1 [_ [_ [H4 _]]]].
  exists (out_items (p_run cu input [RAll])). split; [exact H1|]. split; [|exact H4].
  exact (run_all_tiles cu input eq_refl).
Qed.

End Clean.

(* ================================================================== the statements *)
(* C06 for clean buffered drains.  Unknown ids and hierarchy errors not tolerated, ANY buffered set, every input: if every
   outcome of the drain is an item or the final None and the drain of the same configuration with nothing buffered is not cut
   at its item limit, the tags of the drain with every Full item unrolled recursively are accepted by the nesting checker from
   some base chain *)
Theorem buffered_clean_well_nested : forall c input,
  c_allow_id c = false -> c_allow_hier c = false ->
  let outs := p_run c input [RAll] in
  (forall o, In o outs -> match o with OItem _ _ | ONone => True | _ => False end) ->
  ~ In OLimit (p_run (unbuffered c) input [RAll]) ->
  exists base, chk (c_sp c) base false (flat (out_tags outs)) <> None.
Proof. intros c input Hid Hh outs Hc Hl. exact (bcw_some c input Hc Hl Hid Hh). Qed.

Theorem buffered_clean_well_nested_short : forall c input,
  c_allow_id c = false -> c_allow_hier c = false ->
  let outs := p_run c input [RAll] in
  (forall o, In o outs -> match o with OItem _ _ | ONone => True | _ => False end) ->
  (length (flat (out_tags outs)) < 4 * length input + 64)%nat ->
  exists base, chk (c_sp c) base false (flat (out_tags outs)) <> None.
Proof. intros c input Hid Hh outs Hc Hl. exact (bcw_some c input Hc (short_no_limit c input Hc Hl) Hid Hh). Qed.

(* rooted: the unrolled sequence begins with a root element *)
Theorem buffered_clean_well_nested_rooted : forall c input,
  c_allow_id c = false -> c_allow_hier c = false ->
  let outs := p_run c input [RAll] in
  (forall o, In o outs -> match o with OItem _ _ | ONone => True | _ => False end) ->
  ~ In OLimit (p_run (unbuffered c) input [RAll]) ->
  forall x rest, flat (out_tags outs) = x :: rest -> is_se x = true -> get_path (c_sp c) (tag_id x) = [] ->
  chk (c_sp c) [] false (flat (out_tags outs)) <> None.
Proof. intros c input Hid Hh outs Hc Hl. exact (bcw_rooted c input Hc Hl Hid Hh). Qed.

Theorem buffered_clean_well_nested_rooted_short : forall c input,
  c_allow_id c = false -> c_allow_hier c = false ->
  let outs := p_run c input [RAll] in
  (forall o, In o outs -> match o with OItem _ _ | ONone => True | _ => False end) ->
  (length (flat (out_tags outs)) < 4 * length input + 64)%nat ->
  forall x rest, flat (out_tags outs) = x :: rest -> is_se x = true -> get_path (c_sp c) (tag_id x) = [] ->
  chk (c_sp c) [] false (flat (out_tags outs)) <> None.
Proof. intros c input Hid Hh outs Hc Hl. exact (bcw_rooted c input Hc (short_no_limit c input Hc Hl) Hid Hh). Qed.

(* rooted, on the first item of the buffered run itself (a Start, an element or a Full item of a root id) *)
Theorem buffered_clean_well_nested_rooted_first : forall c input,
  c_allow_id c = false -> c_allow_hier c = false ->
  let outs := p_run c input [RAll] in
  (forall o, In o outs -> match o with OItem _ _ | ONone => True | _ => False end) ->
  ~ In OLimit (p_run (unbuffered c) input [RAll]) ->
  forall y rest, out_tags outs = y :: rest -> (forall id, y <> TEnd id) -> get_path (c_sp c) (tag_id y) = [] ->
  chk (c_sp c) [] false (flat (out_tags outs)) <> None.
Proof. intros c input Hid Hh outs Hc Hl. exact (bcw_rooted_first c input Hc Hl Hid Hh). Qed.

(* the base pinned, as in drain_items_pinned *)
Theorem buffered_clean_items_pinned : forall c input,
  c_allow_id c = false -> c_allow_hier c = false ->
  let outs := p_run c input [RAll] in
  (forall o, In o outs -> match o with OItem _ _ | ONone => True | _ => False end) ->
  ~ In OLimit (p_run (unbuffered c) input [RAll]) ->
  let items := flat (out_tags outs) in
  (exists o, chk (c_sp c) [] false items = Some (o, false)) \/
  (exists pre o x rest, items = pre ++ map TEnd o ++ x :: rest /\ chk (c_sp c) [] false pre = Some (o, false) /\
     is_se x = true /\ all_ids (get_path (c_sp c) (tag_id x)) = true /\
     chk (c_sp c) (base_of (c_sp c) (tag_id x)) false items <> None).
Proof. intros c input Hid Hh outs Hc Hl. exact (bcw_pinned c input Hc Hl Hid Hh). Qed.

Theorem buffered_clean_items_based : forall c input,
  c_allow_id c = false -> c_allow_hier c = false ->
  let outs := p_run c input [RAll] in
  (forall o, In o outs -> match o with OItem _ _ | ONone => True | _ => False end) ->
  ~ In OLimit (p_run (unbuffered c) input [RAll]) ->
  exists base, chk (c_sp c) base false (flat (out_tags outs)) <> None /\ Based (c_sp c) base (flat (out_tags outs)).
Proof. intros c input Hid Hh outs Hc Hl. exact (bcw_based c input Hc Hl Hid Hh). Qed.

(* byte ranges: oversized children not tolerated, the other tolerances arbitrary *)
Theorem buffered_clean_extents : forall c input, c_allow_over c = false ->
  let outs := p_run c input [RAll] in
  (forall o, In o outs -> match o with OItem _ _ | ONone => True | _ => False end) ->
  ~ In OLimit (p_run (unbuffered c) input [RAll]) ->
  exists U, Unr (out_items outs) U /\ exists base, nobase base /\ chk_ext input base 0 (all_q U) <> None.
Proof. intros c input Hov outs Hc Hl. exact (bce_some c input Hc Hl Hov). Qed.

Theorem buffered_clean_extents_short : forall c input, c_allow_over c = false ->
  let outs := p_run c input [RAll] in
  (forall o, In o outs -> match o with OItem _ _ | ONone => True | _ => False end) ->
  (length (flat (out_tags outs)) < 4 * length input + 64)%nat ->
  exists U, Unr (out_items outs) U /\ exists base, nobase base /\ chk_ext input base 0 (all_q U) <> None.
Proof. intros c input Hov outs Hc Hl. exact (bce_some c input Hc (short_no_limit c input Hc Hl) Hov). Qed.

(* the three checkers from one pinned base *)
Theorem buffered_clean_pinned_all : forall c input,
  c_allow_id c = false -> c_allow_hier c = false ->
  let outs := p_run c input [RAll] in
  (forall o, In o outs -> match o with OItem _ _ | ONone => True | _ => False end) ->
  ~ In OLimit (p_run (unbuffered c) input [RAll]) ->
  exists U base, Unr (out_items outs) U /\ qtags U = flat (out_tags outs) /\
    pinned_base (c_sp c) (qtags U) base /\
    chk (c_sp c) base false (qtags U) <> None /\
    chk_off (zbase base) (all_q U) <> None /\
    (c_allow_over c = false -> chk_ext input (ebase base) 0 (all_q U) <> None).
Proof. intros c input Hid Hh outs Hc Hl. exact (bc_all c input Hc Hl Hid Hh). Qed.

Theorem buffered_clean_rooted_all : forall c input,
  c_allow_id c = false -> c_allow_hier c = false ->
  let outs := p_run c input [RAll] in
  (forall o, In o outs -> match o with OItem _ _ | ONone => True | _ => False end) ->
  ~ In OLimit (p_run (unbuffered c) input [RAll]) ->
  forall y rest, out_tags outs = y :: rest -> (forall id, y <> TEnd id) -> get_path (c_sp c) (tag_id y) = [] ->
  exists U, Unr (out_items outs) U /\ qtags U = flat (out_tags outs) /\
    chk (c_sp c) [] false (qtags U) <> None /\
    chk_off [] (all_q U) <> None /\
    (c_allow_over c = false -> chk_ext input [] 0 (all_q U) <> None).
Proof. intros c input Hid Hh outs Hc Hl. exact (bc_all_rooted c input Hc Hl Hid Hh). Qed.

Theorem buffered_clean_rooted_all_short : forall c input,
  c_allow_id c = false -> c_allow_hier c = false ->
  let outs := p_run c input [RAll] in
  (forall o, In o outs -> match o with OItem _ _ | ONone => True | _ => False end) ->
  (length (flat (out_tags outs)) < 4 * length input + 64)%nat ->
  forall y rest, out_tags outs = y :: rest -> (forall id, y <> TEnd id) -> get_path (c_sp c) (tag_id y) = [] ->
  exists U, Unr (out_items outs) U /\ qtags U = flat (out_tags outs) /\
    chk (c_sp c) [] false (qtags U) <> None /\
    chk_off [] (all_q U) <> None /\
    (c_allow_over c = false -> chk_ext input [] 0 (all_q U) <> None).
Proof. intros c input Hid Hh outs Hc Hl. exact (bc_all_rooted c input Hc (short_no_limit c input Hc Hl) Hid Hh). Qed.

(* ------------------------------------------------------------------ the error case: no base at all
   a tag sequence that begins with a root element and is rejected from the empty base is rejected from every base *)
Lemma rooted_rejected_everywhere sp x rest : is_se x = true -> get_path sp (tag_id x) = [] ->
  chk sp [] false (x :: rest) = None -> forall base, chk sp base false (x :: rest) = None.
Proof.
  intros Hse Hp H base. destruct (chk sp base false (x :: rest)) as [r|] eqn:E; [|reflexivity].
  assert (Hb : base = []) by (apply (chk_root_base sp base x rest Hse Hp); rewrite E; discriminate).
  subst base. rewrite H in E. discriminate E.
Qed.

(* ------------------------------------------------------------------ C03 with the base pinned *)
Theorem buffered_clean_tiles_offsets_pinned : forall c input,
  c_allow_id c = false -> c_allow_hier c = false ->
  let outs := p_run c input [RAll] in
  (forall o, In o outs -> match o with OItem _ _ | ONone => True | _ => False end) ->
  ~ In OLimit (p_run (unbuffered c) input [RAll]) ->
  exists U base, Unr (out_items outs) U /\ Tiled (c_sp c) 0 input (ne_q U) /\
    pinned_base (c_sp c) (qtags U) base /\ chk_off (zbase base) (all_q U) <> None.
Proof. intros c input Hid Hh outs Hc Hl. exact (bc_tiles_pinned c input Hc Hl Hid Hh). Qed.

Theorem buffered_clean_tiles_offsets_rooted : forall c input,
  c_allow_id c = false -> c_allow_hier c = false ->
  let outs := p_run c input [RAll] in
  (forall o, In o outs -> match o with OItem _ _ | ONone => True | _ => False end) ->
  ~ In OLimit (p_run (unbuffered c) input [RAll]) ->
  forall y rest, out_tags outs = y :: rest -> (forall id, y <> TEnd id) -> get_path (c_sp c) (tag_id y) = [] ->
  exists U, Unr (out_items outs) U /\ Tiled (c_sp c) 0 input (ne_q U) /\ chk_off [] (all_q U) <> None.
Proof. intros c input Hid Hh outs Hc Hl. exact (bc_tiles_rooted c input Hc Hl Hid Hh). Qed.

Theorem buffered_clean_tiles_offsets_rooted_short : forall c input,
  c_allow_id c = false -> c_allow_hier c = false ->
  let outs := p_run c input [RAll] in
  (forall o, In o outs -> match o with OItem _ _ | ONone => True | _ => False end) ->
  (length (flat (out_tags outs)) < 4 * length input + 64)%nat ->
  forall y rest, out_tags outs = y :: rest -> (forall id, y <> TEnd id) -> get_path (c_sp c) (tag_id y) = [] ->
  exists U, Unr (out_items outs) U /\ Tiled (c_sp c) 0 input (ne_q U) /\ chk_off [] (all_q U) <> None.
Proof. intros c input Hid Hh outs Hc Hl. exact (bc_tiles_rooted c input Hc (short_no_limit c input Hc Hl) Hid Hh). Qed.
