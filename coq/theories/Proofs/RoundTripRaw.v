(* C01 (reader half), third class of documents: the class of Proofs/RoundTripKnown.v (every master has a KNOWN size, declared
   paths with global placeholders allowed, each matching the chain of masters the element sits in) extended with RAW leaves:
   elements whose id is a well-formed vint the specification does NOT declare, with arbitrary payload bytes, anywhere in the
   document (top level or inside any master).  They are read back as [TElem id (VRaw payload)] by every reader configuration
   that tolerates unknown ids ([c_allow_id c = true]) and still validates hierarchy and sizes.

   What makes this work: for an id unknown to the specification the header check passes because it is tolerated, the hierarchy
   step is skipped altogether (it acts on known types only), the oversize and [c_max] checks are enforced as for every other
   element, and such an id ends no open master ([count_ended] is 0 anyway: all open masters have a known size).  A raw leaf
   leaves the "document position determined" flag untouched (like a global element), hence the start hypothesis [xdstart]:
   the top-level trees before the first ROOT tree (declared, with the empty path) contain no DECLARED element with a
   placeholder-free path; raw leaves are allowed among them.

   The theorem is proved for every configuration with hierarchy and size validation on ([tol]), [c_allow_id] arbitrary,
   raw leaves being allowed by [xconf] only when [c_allow_id c = true]; it subsumes [reader_roundtrip_known]. *)
From Ebml Require Import Base Tools Spec Reader Pure Writer Encode
  Proofs.Tactics Proofs.BytesProofs Proofs.VintProofs Proofs.SpecProofs Proofs.ReaderIO Proofs.Refine Proofs.PureProofs
  Proofs.RoundTrip Proofs.RoundTripKnown Proofs.WriterProofs Proofs.WriteEnc.

Arguments vint_len : simpl never.
Arguments read_vint : simpl never.
Arguments id_bytes : simpl never.
Arguments unknown_marker : simpl never.
Arguments venc : simpl never.

(* ------------------------------------------------------------------ configurations *)
(* hierarchy and size validation on; unknown ids tolerated or not *)
Definition tol (c : cfg) : Prop := c_allow_hier c = false /\ c_allow_over c = false.
(* ... tolerated *)
Definition lenient_id (c : cfg) : Prop := c_allow_id c = true /\ c_allow_hier c = false /\ c_allow_over c = false.

Lemma lenient_tol c : lenient_id c -> tol c.
Proof. intros [_ H]. exact H. Qed.
Lemma strict_tol c : strict c -> tol c.
Proof. intros [_ H]. exact H. Qed.

(* the same configuration with unknown ids rejected *)
Definition strictify (c : cfg) : cfg :=
  {| c_sp := c_sp c; c_allow_id := false; c_allow_hier := c_allow_hier c; c_allow_over := c_allow_over c; c_max := c_max c;
     c_buffered := c_buffered c; c_emit_eof := c_emit_eof c |}.

Lemma tol_strictify c : tol c -> strict (strictify c).
Proof. intros [H1 H2]. split; [reflexivity|]. split; [exact H1|exact H2]. Qed.

(* for an id the specification declares, tolerance of unknown ids plays no role *)
Lemma p_hdr_tail_known c st id l : get_type (c_sp c) id <> None -> p_hdr_tail c st id l = p_hdr_tail (strictify c) st id l.
Proof.
  intros Hty. unfold p_hdr_tail, p_hier_step. cbn [strictify c_sp c_allow_id c_allow_hier c_allow_over c_max].
  destruct (get_type (c_sp c) id) as [ty|]; [|contradiction Hty; reflexivity].
  rewrite !Bool.andb_false_r. reflexivity.
Qed.

Lemma p_read_tag_strictify c st id more : idok id -> b_bytes st = id_bytes id ++ more -> get_type (c_sp c) id <> None ->
  p_read_tag c st = p_read_tag (strictify c) st.
Proof.
  intros [n [v [Hn [Hv Hid]]]] Hb Hty.
  assert (Hidb : id_bytes id = enc n v) by (rewrite Hid; apply id_bytes_enc; assumption).
  rewrite !p_read_tag_unfold, !p_header_unfold. rewrite Hidb in Hb. rewrite (p_tag_id_enc st n v _ Hn Hv Hb). rewrite <- Hid.
  rewrite (p_hdr_tail_known c st id n Hty). reflexivity.
Qed.

(* ------------------------------------------------------------------ the header of an element with an undeclared id *)
(* the id check passes (tolerated), no hierarchy step, the oversize and maximum-size checks as usual; the state is unchanged *)
Lemma p_header_raw c st id sl size rest :
  tol c -> c_allow_id c = true -> idok id -> (1 <= sl <= 8)%nat -> size < 2 ^ (7 * N.of_nat sl) -> wf_bytes rest ->
  b_bytes st = id_bytes id ++ venc sl size ++ rest ->
  get_type (c_sp c) id = None -> b_bad st = None ->
  p_invalid_tag_size st (N.of_nat (length (id_bytes id) + sl) + match ebml_size size sl with SKnown n => n | SUnknown => 0 end) = false ->
  size_ok c (ebml_size size sl) ->
  p_header c st = (st, Ok (id, None, ebml_size size sl, (length (id_bytes id) + sl)%nat)).
Proof.
  intros [Hhier Hover] Hallow [n [v [Hn [Hv Heq]]]] Hsl Hsize Hwf Hb Hty Hbad Hroom Hmax.
  assert (Hidb : id_bytes id = enc n v) by (rewrite Heq; apply id_bytes_enc; assumption).
  assert (Hidl : length (id_bytes id) = n) by (rewrite Hidb; apply enc_length).
  rewrite p_header_unfold. rewrite Hidb in Hb.
  rewrite (p_tag_id_enc st n v _ Hn Hv Hb). rewrite <- Heq. unfold p_hdr_tail.
  assert (Hsk : skipn n (b_bytes st) = enc sl size ++ rest).
  { rewrite Hb. rewrite skipn_app, enc_length, Nat.sub_diag. rewrite skipn_all2 by (rewrite enc_length; lia). reflexivity. }
  rewrite Hsk.
  assert (Hrv : read_vint (firstn 8 (enc sl size ++ rest)) = Ok (Some (size, sl))).
  { rewrite firstn_app, enc_length. rewrite firstn_all2 by (rewrite enc_length; lia).
    apply decode_encode; [exact Hsl|exact Hsize|apply wf_firstn, Hwf]. }
  rewrite Hrv. rewrite Hty. cbn [is_numeric andb]. rewrite Hallow. cbn [negb andb].
  unfold p_hier_step. rewrite Hhier. cbn [negb andb].
  rewrite Hidl in *. rewrite Hbad. rewrite Hover. cbn [negb andb]. rewrite Hroom.
  unfold size_ok in Hmax. destruct (c_max c) as [m|]; destruct (ebml_size size sl) as [k|]; try reflexivity.
  destruct (N.ltb_spec m k); [lia|reflexivity].
Qed.

(* reading an encoded raw leaf: the payload comes back as it is; the "position determined" flag is untouched *)
Lemma read_leaf_raw c st id pl sl rest :
  tol c -> c_allow_id c = true -> idok id -> (1 <= sl <= 8)%nat -> N.of_nat (length pl) < 2 ^ (7 * N.of_nat sl) - 1 ->
  wf_bytes pl -> wf_bytes rest ->
  b_bytes st = enc_tree (RLeaf id (VRaw pl) pl sl) ++ rest ->
  get_type (c_sp c) id = None -> b_bad st = None ->
  p_invalid_tag_size st (N.of_nat (length (id_bytes id) + sl) + N.of_nat (length pl)) = false ->
  size_ok c (SKnown (N.of_nat (length pl))) ->
  exists st', p_read_tag c st = (st', Ok {| p_tag := TElem id (VRaw pl); p_size := SKnown (N.of_nat (length pl)); p_start := b_off st;
                                            p_data := b_off st + N.of_nat (length (id_bytes id) + sl) |}) /\
              advanced_g st st' (enc_tree (RLeaf id (VRaw pl) pl sl)) /\ b_bytes st' = rest /\ b_det st' = b_det st.
Proof.
  intros Htol Hallow Hidok Hsl Hsize Hwfp Hwfr Hb Hty Hbad Hroom Hmax.
  cbn [enc_tree] in Hb. rewrite <- !app_assoc in Hb.
  assert (Hsz : N.of_nat (length pl) < 2 ^ (7 * N.of_nat sl)) by lia.
  pose proof (ebml_size_known _ _ Hsize) as Hes.
  assert (Hroom' : p_invalid_tag_size st (N.of_nat (length (id_bytes id) + sl) +
             match ebml_size (N.of_nat (length pl)) sl with SKnown n => n | SUnknown => 0 end) = false) by (rewrite Hes; exact Hroom).
  assert (Hmax' : size_ok c (ebml_size (N.of_nat (length pl)) sl)) by (rewrite Hes; exact Hmax).
  pose proof (p_header_raw c st id sl (N.of_nat (length pl)) (pl ++ rest) Htol Hallow Hidok Hsl Hsz (wf_app _ _ Hwfp Hwfr) Hb Hty
                Hbad Hroom' Hmax') as Hh.
  rewrite p_read_tag_unfold, Hh. unfold p_tag_tail. rewrite Hes.
  assert (Hhl : length (id_bytes id ++ venc sl (N.of_nat (length pl))) = (length (id_bytes id) + sl)%nat)
    by (rewrite app_length; unfold venc; rewrite be_bytes_length; reflexivity).
  rewrite app_assoc in Hb.
  destruct (pconsume_exact_g st st _ _ (same_io_refl st) Hb) as [Hadv [Hbytes Hdetc]]. rewrite Hhl in Hadv, Hbytes, Hdetc.
  set (stc := pconsume st (N.of_nat (length (id_bytes id) + sl))) in *.
  assert (Hoffc : b_off stc = b_off st + N.of_nat (length (id_bytes id) + sl)).
  { destruct Hadv as [_ [Ho _]]. rewrite Ho, Hhl. reflexivity. }
  assert (Hlt : (blen stc <? N.of_nat (length pl)) = false).
  { unfold blen. rewrite Hbytes, app_length. destruct (N.ltb_spec (N.of_nat (length pl + length rest)) (N.of_nat (length pl))); [lia|reflexivity]. }
  assert (Hraw : fst (splitN (N.of_nat (length pl)) (b_bytes stc)) = pl) by (rewrite Hbytes, splitN_exact; reflexivity).
  destruct (pconsume_exact_g stc stc pl rest (same_io_refl stc) Hbytes) as [Hadv2 [Hbytes2 Hdet2]].
  set (st2 := pconsume stc (N.of_nat (length pl))) in *.
  assert (Hfinal : advanced_g st st2 ((id_bytes id ++ venc sl (N.of_nat (length pl))) ++ pl)).
  { destruct Hadv as [A1 [A2 [A3 [A4 [A5 A6]]]]]. destruct Hadv2 as [B1 [B2 [B3 [B4 [B5 B6]]]]].
    unfold advanced_g. split; [rewrite A1 at 1; rewrite B1; apply app_assoc|]. split; [rewrite B2, A2, !app_length; lia|].
    split; [congruence|]. split; [congruence|]. split; [congruence|congruence]. }
  assert (Henc : (id_bytes id ++ venc sl (N.of_nat (length pl))) ++ pl = enc_tree (RLeaf id (VRaw pl) pl sl))
    by (cbn [enc_tree]; rewrite <- app_assoc; reflexivity).
  rewrite Henc in Hfinal.
  exists st2. split; [|split; [exact Hfinal|split; [exact Hbytes2|rewrite Hdet2, Hdetc; reflexivity]]].
  rewrite Hoffc, Hlt, Hraw. reflexivity.
Qed.

(* ------------------------------------------------------------------ one parse step, whatever the element *)
(* exactly the pending frames are popped, all of them by exhaustion; no element closes anything: every open master has a
   known size (in particular an undeclared id ends nothing) *)
Lemma xpop st T stk ids total : kpre st T stk ids total -> 0 < total ->
  exhausted_count (b_off st) (T ++ stk) = length T /\ forall sp x, count_ended sp x (stack_view stk) = O.
Proof.
  intros H Hpos. destruct H as [Hs Hq Hb Hf Hpend Hids Hroom]. split.
  - pose proof (room_not_exhausted _ _ _ (kroom_room _ _ Hroom) Hpos) as Hne.
    rewrite (exh_app _ T stk (exh_none _ stk Hne)). apply exh_all, Hpend.
  - intros sp x. eapply kroom_count, Hroom.
Qed.

(* the state after the exhausted masters have been popped, ready to read the next element *)
Lemma xprep st T stk ids total : kpre st T stk ids total -> 0 < total ->
  let st_a := ppop_frames st (exhausted_count (b_off st) (b_stack st)) in
  b_bytes st_a = b_bytes st /\ b_off st_a = b_off st /\ b_bad st_a = None /\ b_det st_a = b_det st /\ b_fuel st_a = b_fuel st /\
  b_queue st_a = map end_item T /\ b_stack st_a = stk /\
  (forall sz, sz <= total -> p_invalid_tag_size st_a sz = false).
Proof.
  intros H Hpos. destruct (xpop st T stk ids total H Hpos) as [Hk1 Hk2].
  destruct H as [Hs Hq Hb Hf Hpend Hids Hroom]. cbn zeta. rewrite Hs, Hk1.
  unfold ppop_frames, ppush_q, pset_queue, pset_stack. cbn [b_bytes b_off b_bad b_det b_fuel b_queue b_stack]. rewrite Hs, Hq. cbn [app].
  rewrite (firstn_app_le T stk _ (le_n _)), firstn_all, (skipn_app_le T stk _ (le_n _)), skipn_all. cbn [app].
  split; [reflexivity|]. split; [reflexivity|]. split; [exact Hb|]. split; [reflexivity|]. split; [reflexivity|]. split; [reflexivity|].
  split; [reflexivity|].
  intros sz Hsz. unfold p_invalid_tag_size. cbn [b_stack b_off].
  apply Bool.not_true_is_false. intros Hex. apply existsb_exists in Hex. destruct Hex as [f [Hin Hf']].
  unfold kroom in Hroom. rewrite Forall_forall in Hroom. destruct (Hroom f Hin) as [n [Hsn Hn]]. rewrite Hsn in Hf'.
  apply N.ltb_lt in Hf'. lia.
Qed.

(* the hierarchy check of a declared element whose path matches the chain of open (known-size) masters *)
Lemma xhier c sa stk x e : b_stack sa = stk -> kroom stk e ->
  path_matches (get_path (c_sp c) x) (ids_of stk) = true ->
  (b_det sa = true \/ all_ids (get_path (c_sp c) x) = false \/ get_path (c_sp c) x = []) -> hier_ok_g c sa x.
Proof.
  intros Hs Hroom Hpath Hd. unfold hier_ok_g, hier_ok. rewrite Hs.
  assert (Hval : validate_tag_path (c_sp c) x (stack_view stk) = true).
  { unfold validate_tag_path. rewrite (kroom_count (c_sp c) x stk e Hroom). cbn [skipn]. rewrite stack_view_ids. exact Hpath. }
  destruct (b_det sa) eqn:Ed.
  - left. left. split; [reflexivity|exact Hval].
  - destruct Hd as [Hd|[Hd|Hd]]; [congruence|right; split; [reflexivity|exact Hd]|].
    left. right. split; [reflexivity|]. split; [|exact Hd]. rewrite Hd in Hpath. apply path_nil_stack, Hpath.
Qed.

(* one refill of the queue: the pending masters end, then the element that was read *)
Lemma xfinish c st T stk ids total p st_b consumed :
  kpre st T stk ids total -> 0 < total -> c_buffered c = [] ->
  p_read_tag c (ppop_frames st (exhausted_count (b_off st) (b_stack st))) = (st_b, Ok p) ->
  advanced_g (ppop_frames st (exhausted_count (b_off st) (b_stack st))) st_b consumed -> consumed <> [] ->
  p_start p = b_off st ->
  let st' := p_read_next (b_fuel st) c st in
  b_bytes st' = b_bytes st_b /\ b_off st' = b_off st_b /\ b_stack st' = new_frame p ++ stk /\
  b_queue st' = map end_item T ++ [QOk (p_tag p) (b_off st)] /\ b_bad st' = None /\ b_fuel st' = b_fuel st /\ b_det st' = b_det st_b.
Proof.
  intros H Hpos Hnb Hread Hadv Hne Hstart.
  pose proof (xprep st T stk ids total H Hpos) as Hprep. cbn zeta in Hprep.
  destruct (xpop st T stk ids total H Hpos) as [Hk1 Hk2].
  destruct H as [Hs Hq Hb Hf Hpend Hids Hroom].
  set (st_a := ppop_frames st (exhausted_count (b_off st) (b_stack st))) in *.
  destruct Hprep as [Ha1 [Ha2 [Ha3 [Ha4 [Ha5 [Ha6 [Ha7 _]]]]]]].
  destruct Hadv as [Hb1 [Hb2 [Hb3 [Hb4 [Hb5 Hb6]]]]].
  cbn zeta. destruct (b_fuel st) as [|f] eqn:Ef; [lia|].
  rewrite p_read_next_unfold. cbn zeta. fold st_a.
  unfold p_read_tag_checked. rewrite Hb1. destruct consumed as [|c0 consumed]; [contradiction|]. cbn [app].
  rewrite <- (app_comm_cons consumed (b_bytes st_b) c0) in Hb1.
  rewrite Hread. rewrite Hb3, Ha7, Hk2.
  assert (Hq3 : b_queue (ppop_frames st_b O) = map end_item T).
  { unfold ppop_frames, ppush_q, pset_queue, pset_stack. cbn [b_queue b_stack firstn map]. rewrite app_nil_r, Hb4. exact Ha6. }
  assert (Hs3 : b_stack (ppop_frames st_b O) = stk).
  { unfold ppop_frames, ppush_q, pset_queue, pset_stack. cbn [b_queue b_stack skipn]. rewrite Hb3. exact Ha7. }
  assert (Ho3 : forall st0 k, b_bytes (ppop_frames st0 k) = b_bytes st0 /\ b_off (ppop_frames st0 k) = b_off st0 /\
                               b_bad (ppop_frames st0 k) = b_bad st0 /\ b_fuel (ppop_frames st0 k) = b_fuel st0 /\ b_det (ppop_frames st0 k) = b_det st0).
  { intros; repeat split. }
  destruct (Ho3 st_b O) as [Hc1 [Hc2 [Hc3 [Hc4 Hc5]]]].
  unfold new_frame.
  destruct (p_tag p) eqn:Et.
  - unfold ppush_q, pset_queue. cbn [b_bytes b_off b_stack b_queue b_bad b_fuel b_det]. rewrite Hq3, Hs3, Hc1, Hc2, Hc3, Hc4, Hc5, Hstart.
    repeat split; try assumption; try congruence.
  - rewrite Hnb. cbn [tag_id]. change (mem_id id []) with false. cbn iota. unfold ppush_q, pset_queue, pset_stack. cbn [b_bytes b_off b_stack b_queue b_bad b_fuel b_det].
    rewrite Hq3, Hs3, Hc1, Hc2, Hc3, Hc4, Hc5, Hstart. repeat split; try assumption; try congruence.
  - unfold ppush_q, pset_queue. cbn [b_bytes b_off b_stack b_queue b_bad b_fuel b_det]. rewrite Hq3, Hs3, Hc1, Hc2, Hc3, Hc4, Hc5, Hstart.
    repeat split; try assumption; try congruence.
  - unfold ppush_q, pset_queue. cbn [b_bytes b_off b_stack b_queue b_bad b_fuel b_det]. rewrite Hq3, Hs3, Hc1, Hc2, Hc3, Hc4, Hc5, Hstart.
    repeat split; try assumption; try congruence.
Qed.

(* ... and the run: the Ends of the pending masters, the element, then whatever follows from the new state *)
Lemma xstep_run c st T stk ids total p st_b consumed :
  kpre st T stk ids total -> 0 < total -> c_buffered c = [] ->
  p_read_tag c (ppop_frames st (exhausted_count (b_off st) (b_stack st))) = (st_b, Ok p) ->
  advanced_g (ppop_frames st (exhausted_count (b_off st) (b_stack st))) st_b consumed -> consumed <> [] ->
  p_start p = b_off st ->
  exists st', at_ st' (b_bytes st_b) (b_off st_b) (new_frame p ++ stk) (b_fuel st) /\ b_det st' = b_det st_b /\
    forall n, p_run_all (length T + 1 + n) c st = rcat (map end_out T ++ [OItem (p_tag p) (b_off st)]) (p_run_all n c st').
Proof.
  intros H Hpos Hnb Hread Hadv Hne Hstart.
  pose proof (xfinish c st T stk ids total p st_b consumed H Hpos Hnb Hread Hadv Hne Hstart) as Hfin. cbn zeta in Hfin.
  destruct Hfin as [F1 [F2 [F3 [F4 [F5 [F6 F7]]]]]].
  set (st1 := p_read_next (b_fuel st) c st) in *.
  set (q := map end_pair T ++ [(p_tag p, b_off st)]).
  assert (Hq : b_queue st1 = q_ok q).
  { rewrite F4. unfold q, q_ok. rewrite map_app, map_map. reflexivity. }
  destruct (drain c q st1 Hq F5) as [st0 [[S1 [S2 [S3 [S4 [S5 S6]]]]] [Hq0 Hrun]]].
  exists st0. split.
  - unfold at_. rewrite S1, S2, S3, S5, S6, F1, F2, F3, F5, F6. repeat split. exact Hq0.
  - split; [rewrite S4; exact F7|]. intros n.
    assert (Hlen : (length T + 1 + n = S (length T + n))%nat) by lia. rewrite Hlen.
    rewrite (run_refill c st (length T + n)).
    + fold st1. specialize (Hrun n).
      assert (Hl2 : (length q + n = S (length T + n))%nat) by (unfold q; rewrite app_length, map_length; cbn; lia).
      rewrite Hl2 in Hrun. rewrite Hrun. unfold q, o_ok. rewrite map_app, map_map. cbn [map fst snd app]. reflexivity.
    + apply (kp_queue _ _ _ _ _ H).
    + fold st1. rewrite F4. destruct (map end_item T); discriminate.
    + exact F6.
Qed.

(* ------------------------------------------------------------------ known-size trees with raw leaves *)
(* [xconf c ids t]: [kconf c ids t], except that a leaf may also be RAW: its id is a well-formed vint the specification does
   not declare, its value is [VRaw] of its payload (any bytes), the configuration tolerates unknown ids; no condition on the
   place it occurs at.  Size width and [c_max] as for every leaf. *)
Fixpoint xconf (c : cfg) (ids : list N) (t : rtree) : Prop :=
  match t with
  | RLeaf id v pl sl =>
      idok id /\ (1 <= sl <= 8)%nat /\ N.of_nat (length pl) < 2 ^ (7 * N.of_nat sl) - 1 /\ wf_bytes pl /\
      size_ok c (SKnown (N.of_nat (length pl))) /\
      ((exists ty, get_type (c_sp c) id = Some ty /\ ty <> DMaster /\ decodes (Some ty) pl v /\
                   path_matches (get_path (c_sp c) id) ids = true) \/
       (get_type (c_sp c) id = None /\ c_allow_id c = true /\ v = VRaw pl))
  | RNode id sz cs =>
      idok id /\ (exists sl, sz = Some sl /\ (1 <= sl <= 8)%nat /\ flen cs < 2 ^ (7 * N.of_nat sl) - 1) /\
      get_type (c_sp c) id = Some DMaster /\ path_matches (get_path (c_sp c) id) ids = true /\ size_ok c (node_esz sz cs) /\
      (fix all (l : list rtree) : Prop := match l with [] => True | x :: l' => xconf c (ids ++ [id]) x /\ all l' end) cs
  end.

Lemma xconf_node c ids id sz cs : xconf c ids (RNode id sz cs) <->
  idok id /\ (exists sl, sz = Some sl /\ (1 <= sl <= 8)%nat /\ flen cs < 2 ^ (7 * N.of_nat sl) - 1) /\
  get_type (c_sp c) id = Some DMaster /\ path_matches (get_path (c_sp c) id) ids = true /\ size_ok c (node_esz sz cs) /\
  Forall (xconf c (ids ++ [id])) cs.
Proof.
  cbn [xconf].
  assert (H : (fix all (l : list rtree) : Prop := match l with [] => True | x :: l' => xconf c (ids ++ [id]) x /\ all l' end) cs
              <-> Forall (xconf c (ids ++ [id])) cs).
  { induction cs as [|x l IH]; [split; [constructor|trivial]|]. split.
    - intros [Hx Hl]. constructor; [exact Hx|apply IH, Hl].
    - intros HF. apply Forall_cons_iff in HF. destruct HF as [Hx Hl]. split; [exact Hx|apply IH, Hl]. }
  tauto.
Qed.

(* the documents of the second class belong to this one *)
Lemma kconf_xconf c : forall t ids, kconf c ids t -> xconf c ids t.
Proof.
  induction t as [id v pl sl|id sz cs IH] using rtree_ind'; intros ids H.
  - destruct H as [H1 [H2 [H3 [H4 [[ty [H5 [H6 H7]]] [H8 H9]]]]]]. cbn [xconf].
    split; [exact H1|]. split; [exact H2|]. split; [exact H3|]. split; [exact H4|]. split; [exact H9|].
    left. exists ty. split; [exact H5|]. split; [exact H6|]. split; [exact H7|exact H8].
  - apply kconf_node in H. destruct H as [H1 [H2 [H3 [H4 [H5 H6]]]]]. apply xconf_node.
    split; [exact H1|]. split; [exact H2|]. split; [exact H3|]. split; [exact H4|]. split; [exact H5|].
    clear H2 H5. induction cs as [|x l IHl]; [constructor|].
    apply Forall_cons_iff in IH. destruct IH as [Hx Hl]. apply Forall_cons_iff in H6. destruct H6 as [Hcx Hcl].
    constructor; [apply Hx, Hcx|apply IHl; assumption].
Qed.

(* the element determines the document position: it is declared, with a placeholder-free path *)
Definition detf (c : cfg) (id : N) : bool :=
  match get_type (c_sp c) id with Some _ => all_ids (get_path (c_sp c) id) | None => false end.

Lemma detf_known c id ty : get_type (c_sp c) id = Some ty -> detf c id = all_ids (get_path (c_sp c) id).
Proof. unfold detf. intros ->. reflexivity. Qed.
Lemma detf_raw c id : get_type (c_sp c) id = None -> detf c id = false.
Proof. unfold detf. intros ->. reflexivity. Qed.

(* a tree none of whose elements determines the position (raw leaves never do) *)
Fixpoint xglobb (c : cfg) (t : rtree) : bool :=
  match t with
  | RLeaf id _ _ _ => negb (detf c id)
  | RNode id _ cs => negb (detf c id) && forallb (xglobb c) cs
  end.

(* a root element: declared, with the empty path *)
Definition xroot (c : cfg) (id : N) : Prop := get_type (c_sp c) id <> None /\ get_path (c_sp c) id = [].

(* the first element of the document that determines the position is a top-level root element *)
Fixpoint xdstart (c : cfg) (l : list rtree) : Prop :=
  match l with
  | [] => True
  | t :: l' => xroot c (rid t) \/ (xglobb c t = true /\ xdstart c l')
  end.

Lemma xglobb_rid c t : xglobb c t = true -> detf c (rid t) = false.
Proof.
  destruct t as [id v pl sl|id sz cs]; cbn [xglobb rid]; intros H.
  - apply Bool.negb_true_iff, H.
  - apply Bool.andb_true_iff in H. apply Bool.negb_true_iff, H.
Qed.

Lemma xroot_detf c id : xroot c id -> detf c id = true.
Proof. intros [Hty Hp]. unfold detf. destruct (get_type (c_sp c) id); [|contradiction Hty; reflexivity]. rewrite Hp. reflexivity. Qed.

Lemma xroot_not_xglobb c t : xroot c (rid t) -> xglobb c t = false.
Proof. intros H. destruct (xglobb c t) eqn:E; [|reflexivity]. apply xglobb_rid in E. rewrite (xroot_detf c _ H) in E. discriminate. Qed.

Lemma xglobb_xdstart c : forall l, forallb (xglobb c) l = true -> xdstart c l.
Proof.
  induction l as [|x l IH]; intros H; [exact I|]. cbn [forallb] in H. apply Bool.andb_true_iff in H. destruct H as [Hx Hl].
  cbn [xdstart]. right. split; [exact Hx|apply IH, Hl].
Qed.

Lemma xglobb_node c id sz cs : xglobb c (RNode id sz cs) = negb (detf c id) && forallb (xglobb c) cs.
Proof. reflexivity. Qed.

(* what "determined or about to be" means for a declared element *)
Lemma xdet_known c st t ty : get_type (c_sp c) (rid t) = Some ty ->
  (b_det st = true \/ xglobb c t = true \/ xroot c (rid t)) ->
  b_det st = true \/ all_ids (get_path (c_sp c) (rid t)) = false \/ get_path (c_sp c) (rid t) = [].
Proof.
  intros Hty [Hd|[Hd|Hd]]; [left; exact Hd|right; left|right; right; apply Hd].
  apply xglobb_rid in Hd. rewrite (detf_known c _ ty Hty) in Hd. exact Hd.
Qed.

Lemma xconf_wf c : forall t ids, xconf c ids t -> wf_bytes (enc_tree t) /\ 2 <= tlen t.
Proof.
  induction t as [id v pl sl|id sz cs IH] using rtree_ind'; intros ids H.
  - destruct H as [Hid [Hsl [_ [Hwf _]]]]. destruct (idok_len id Hid) as [Hl Hw]. split.
    + cbn [enc_tree]. apply wf_app; [exact Hw|]. apply wf_app; [apply venc_wf|exact Hwf].
    + rewrite tlen_leaf. cbn [hdr_len]. lia.
  - apply xconf_node in H. destruct H as [Hid [[sl [-> [Hsl Hfl]]] [_ [_ [_ Hcs]]]]]. destruct (idok_len id Hid) as [Hl Hw]. split.
    + rewrite enc_tree_node. apply wf_app; [exact Hw|]. apply wf_app; [apply venc_wf|].
      clear Hfl. induction cs as [|x l IHl]; [constructor|]. cbn [enc_forest].
      apply Forall_cons_iff in IH. destruct IH as [Hx Hl']. apply Forall_cons_iff in Hcs. destruct Hcs as [Hcx Hcl].
      apply wf_app; [apply (Hx _ Hcx)|apply IHl; assumption].
    + rewrite tlen_node, hdr_len_node. cbn [node_sl]. lia.
Qed.

Lemma xconf_wf_forest c ids : forall l, Forall (xconf c ids) l -> wf_bytes (enc_forest l).
Proof.
  induction l as [|x l IH]; intros H; [constructor|]. apply Forall_cons_iff in H. destruct H as [Hx Hl]. cbn [enc_forest].
  apply wf_app; [apply (xconf_wf c x ids Hx)|apply IH, Hl].
Qed.

(* the frames left pending by a known-size tree all end exactly where the tree ends *)
Lemma xspine c : forall t ids off, xconf c ids t -> Forall (exhF (off + tlen t)) (spine_tree off t).
Proof.
  induction t as [id v pl sl|id sz cs IH] using rtree_ind'; intros ids off Hc; [constructor|].
  apply xconf_node in Hc. destruct Hc as [_ [[sl [-> _]] [_ [_ [_ Hcs]]]]].
  rewrite spine_tree_node. apply Forall_app. split.
  - rewrite tlen_node. set (o1 := off + N.of_nat (hdr_len (RNode id (Some sl) cs))).
    replace (off + (N.of_nat (hdr_len (RNode id (Some sl) cs)) + flen cs)) with (o1 + flen cs) by (unfold o1; lia).
    clearbody o1. revert o1. induction cs as [|x l IHl]; intros o1; [constructor|].
    apply Forall_cons_iff in IH. destruct IH as [Hx Hl]. apply Forall_cons_iff in Hcs. destruct Hcs as [Hcx Hcl].
    destruct l as [|y l'].
    + cbn [spine_forest]. rewrite flen_cons, flen_nil, N.add_0_r. apply (Hx _ o1 Hcx).
    + rewrite spine_forest_cons by discriminate. rewrite flen_cons.
      replace (o1 + (tlen x + flen (y :: l'))) with ((o1 + tlen x) + flen (y :: l')) by lia. apply IHl; assumption.
  - cbn [frame_of]. constructor; [|constructor]. unfold exhF. cbn [f_size f_data].
    exists (flen cs). split; [reflexivity|]. rewrite tlen_node. lia.
Qed.

(* ------------------------------------------------------------------ parsing an encoded tree / forest *)
Definition XPtree (c : cfg) (t : rtree) : Prop :=
  forall ids, xconf c ids t -> forall st T stk rest,
  kpre st T stk ids (tlen t) -> (b_det st = true \/ xglobb c t = true \/ xroot c (rid t)) ->
  b_bytes st = enc_tree t ++ rest -> wf_bytes rest ->
  exists st', at_ st' rest (b_off st + tlen t) (spine_tree (b_off st) t ++ stk) (b_fuel st) /\
    b_det st' = b_det st || negb (xglobb c t) /\
    forall n, p_run_all (length (map end_out T ++ items_open_tree (b_off st) t) + n) c st =
              rcat (map end_out T ++ items_open_tree (b_off st) t) (p_run_all n c st').

Lemma xparse_forest c : forall l, Forall (XPtree c) l -> forall ids, Forall (xconf c ids) l -> forall st T stk rest,
  kpre st T stk ids (flen l) -> (b_det st = true \/ xdstart c l) -> b_bytes st = enc_forest l ++ rest -> wf_bytes rest ->
  exists st', at_ st' rest (b_off st + flen l) (pend_after (b_off st) l T ++ stk) (b_fuel st) /\
    b_det st' = b_det st || negb (forallb (xglobb c) l) /\
    forall n, p_run_all (length (outs_forest (b_off st) l T) + n) c st = rcat (outs_forest (b_off st) l T) (p_run_all n c st').
Proof.
  induction l as [|x l IH]; intros HP ids Hconf st T stk rest Hpre Hds Hb Hwf.
  - exists st. split; [|split; [cbn [forallb negb]; rewrite Bool.orb_false_r; reflexivity|intros n; symmetry; apply rcat_nil]].
    destruct Hpre. unfold at_. rewrite flen_nil, N.add_0_r. cbn [enc_forest app] in Hb. cbn [pend_after]. repeat split; assumption.
  - apply Forall_cons_iff in HP. destruct HP as [HPx HPl]. apply Forall_cons_iff in Hconf. destruct Hconf as [Hcx Hcl].
    cbn [enc_forest] in Hb. rewrite <- app_assoc in Hb.
    assert (Hwf1 : wf_bytes (enc_forest l ++ rest)) by (apply wf_app; [apply (xconf_wf_forest c ids l Hcl)|exact Hwf]).
    assert (Hpre1 : kpre st T stk ids (tlen x)) by (apply (kpre_weaken st T stk ids (flen (x :: l))); [rewrite flen_cons; lia|exact Hpre]).
    assert (Hdx : b_det st = true \/ xglobb c x = true \/ xroot c (rid x)).
    { destruct Hds as [Hd|Hd]; [left; exact Hd|]. cbn [xdstart] in Hd. destruct Hd as [Hd|[Hd _]]; [right; right; exact Hd|right; left; exact Hd]. }
    destruct (HPx ids Hcx st T stk (enc_forest l ++ rest) Hpre1 Hdx Hb Hwf1) as [st1 [Hat1 [Hdet1 Hrun1]]].
    destruct Hat1 as [A1 [A2 [A3 [A4 [A5 A6]]]]].
    assert (Hpre2 : kpre st1 (spine_tree (b_off st) x) stk ids (flen l)).
    { destruct Hpre as [Hs Hq Hbad Hf Hpend Hids Hroom]. constructor.
      - exact A3.
      - exact A4.
      - exact A5.
      - rewrite A6. exact Hf.
      - rewrite A2. apply (xspine c x ids), Hcx.
      - exact Hids.
      - rewrite A2. rewrite flen_cons in Hroom. rewrite <- N.add_assoc. exact Hroom. }
    assert (Hds2 : b_det st1 = true \/ xdstart c l).
    { rewrite Hdet1. destruct Hds as [Hd|Hd]; [left; rewrite Hd; reflexivity|]. cbn [xdstart] in Hd. destruct Hd as [Hd|[_ Hd]]; [|right; exact Hd].
      left. rewrite (xroot_not_xglobb c x Hd). apply Bool.orb_true_r. }
    destruct (IH HPl ids Hcl st1 (spine_tree (b_off st) x) stk rest Hpre2 Hds2 A1 Hwf) as [st2 [Hat2 [Hd2 Hrun2]]].
    exists st2. rewrite A2, A6 in Hat2. rewrite A2 in Hrun2. split; [|split].
    + rewrite flen_cons, N.add_assoc. destruct l as [|y l']; exact Hat2.
    + rewrite Hd2, Hdet1. cbn [forallb]. destruct (b_det st), (xglobb c x), (forallb (xglobb c) l); reflexivity.
    + intros n.
      assert (Ho : outs_forest (b_off st) (x :: l) T =
                   (map end_out T ++ items_open_tree (b_off st) x) ++ outs_forest (b_off st + tlen x) l (spine_tree (b_off st) x)).
      { destruct l as [|y l']; [cbn [outs_forest items_open_forest]; rewrite app_nil_r; reflexivity|].
        unfold outs_forest. rewrite items_open_forest_cons by discriminate. rewrite <- !app_assoc. reflexivity. }
      rewrite Ho, app_length, <- Nat.add_assoc, Hrun1, Hrun2. apply rcat_rcat.
Qed.

Lemma xparse_tree c : tol c -> c_buffered c = [] -> forall t, XPtree c t.
Proof.
  intros Htol Hnb. induction t as [id v pl sl|id sz cs IH] using rtree_ind'; unfold XPtree; intros ids Hconf st T stk rest Hpre Hdx Hb Hwf.
  - (* a leaf *)
    destruct Hconf as [Hid [Hsl [Hlen [Hwfp [Hmax Hkind]]]]].
    assert (Hpos : 0 < tlen (RLeaf id v pl sl)).
    { rewrite tlen_leaf. cbn [hdr_len]. lia. }
    pose proof (xprep st T stk ids _ Hpre Hpos) as Hprep. cbn zeta in Hprep.
    destruct Hprep as [P1 [P2 [P3 [P4 [P5 [P6 [P7 Proom]]]]]]].
    set (st_a := ppop_frames st (exhausted_count (b_off st) (b_stack st))) in *.
    assert (Hba : b_bytes st_a = enc_tree (RLeaf id v pl sl) ++ rest) by (rewrite P1; exact Hb).
    assert (Hroom : p_invalid_tag_size st_a (N.of_nat (length (id_bytes id) + sl) + N.of_nat (length pl)) = false).
    { apply Proom. rewrite tlen_leaf. cbn [hdr_len]. lia. }
    assert (Hne : enc_tree (RLeaf id v pl sl) <> []).
    { intros E. apply (f_equal (@length N)) in E. fold (tlen (RLeaf id v pl sl)) in Hpos. unfold tlen in Hpos. rewrite E in Hpos. cbn in Hpos. lia. }
    assert (Hread : exists st_b, p_read_tag c st_a = (st_b, Ok {| p_tag := TElem id v; p_size := SKnown (N.of_nat (length pl)); p_start := b_off st_a;
                                            p_data := b_off st_a + N.of_nat (length (id_bytes id) + sl) |}) /\
              advanced_g st_a st_b (enc_tree (RLeaf id v pl sl)) /\ b_bytes st_b = rest /\ b_det st_b = b_det st || detf c id).
    { destruct Hkind as [[ty [Hty [Hnm [Hdec Hpath]]]]|[Hty [Hallow Hv]]].
      - assert (Htyn : get_type (c_sp c) id <> None) by (rewrite Hty; discriminate).
        assert (Hba' : b_bytes st_a = id_bytes id ++ (venc sl (N.of_nat (length pl)) ++ pl) ++ rest).
        { rewrite Hba. cbn [enc_tree]. rewrite <- !app_assoc. reflexivity. }
        rewrite (p_read_tag_strictify c st_a id _ Hid Hba' Htyn).
        assert (Hdx' : b_det st_a = true \/ all_ids (get_path (c_sp c) id) = false \/ get_path (c_sp c) id = []).
        { rewrite P4. apply (xdet_known c st (RLeaf id v pl sl) ty Hty Hdx). }
        assert (Hpath' : path_matches (get_path (c_sp c) id) (ids_of stk) = true).
        { rewrite (kp_ids _ _ _ _ _ Hpre). exact Hpath. }
        pose proof (xhier c st_a stk id _ P7 (kp_room _ _ _ _ _ Hpre) Hpath' Hdx') as Phier.
        destruct (read_leaf_g (strictify c) st_a id ty v pl sl rest (tol_strictify c Htol) Hid Hsl Hlen Hwfp Hwf Hba Hty Hnm Hdec P3 Phier Hroom Hmax)
          as [st_b [Hread [Hadv [Hrest Hdetb]]]].
        exists st_b. split; [exact Hread|]. split; [exact Hadv|]. split; [exact Hrest|].
        rewrite Hdetb. unfold det_after. cbn [strictify c_sp]. rewrite P4, (detf_known c id ty Hty). reflexivity.
      - subst v.
        destruct (read_leaf_raw c st_a id pl sl rest Htol Hallow Hid Hsl Hlen Hwfp Hwf Hba Hty P3 Hroom Hmax)
          as [st_b [Hread [Hadv [Hrest Hdetb]]]].
        exists st_b. split; [exact Hread|]. split; [exact Hadv|]. split; [exact Hrest|].
        rewrite Hdetb, P4, (detf_raw c id Hty), Bool.orb_false_r. reflexivity. }
    destruct Hread as [st_b [Hread [Hadv [Hrest Hdetb]]]].
    rewrite P2 in Hread.
    destruct (xstep_run c st T stk ids _ _ st_b _ Hpre Hpos Hnb Hread Hadv Hne eq_refl) as [st' [Hat [Hdet Hrun]]].
    exists st'. split; [|split].
    + destruct Hadv as [_ [Ho _]]. rewrite Hrest, Ho, P2 in Hat. unfold new_frame in Hat. cbn [p_tag app] in Hat. cbn [spine_tree app].
      unfold tlen. exact Hat.
    + rewrite Hdet, Hdetb. cbn [xglobb]. rewrite Bool.negb_involutive. reflexivity.
    + intros n. cbn [items_open_tree]. rewrite app_length, map_length. cbn [length]. cbn [p_tag] in Hrun.
      rewrite Hrun. reflexivity.
  - (* a master: its header, then its children *)
    apply xconf_node in Hconf. destruct Hconf as [Hid [[sl [Esz [Hsl Hfl]]] [Hty [Hpath [Hmax Hcs]]]]]. subst sz.
    assert (Hsz : forall sl0, Some sl = Some sl0 -> (1 <= sl0 <= 8)%nat /\ flen cs < 2 ^ (7 * N.of_nat sl0) - 1).
    { intros sl0 E. injection E as <-. split; assumption. }
    set (t := RNode id (Some sl) cs) in *.
    assert (Hpos : 0 < tlen t).
    { unfold t. rewrite tlen_node, hdr_len_node. destruct (idok_len id Hid). lia. }
    pose proof (xprep st T stk ids _ Hpre Hpos) as Hprep. cbn zeta in Hprep.
    destruct Hprep as [P1 [P2 [P3 [P4 [P5 [P6 [P7 Proom]]]]]]].
    set (st_a := ppop_frames st (exhausted_count (b_off st) (b_stack st))) in *.
    assert (Hwf1 : wf_bytes (enc_forest cs ++ rest)) by (apply wf_app; [apply (xconf_wf_forest c _ cs Hcs)|exact Hwf]).
    assert (Hba : b_bytes st_a = id_bytes id ++ node_field (Some sl) cs ++ enc_forest cs ++ rest).
    { rewrite P1, Hb. unfold t. rewrite enc_tree_node. fold (node_field (Some sl) cs). rewrite <- !app_assoc. reflexivity. }
    assert (Hroom : p_invalid_tag_size st_a (N.of_nat (length (id_bytes id) + node_sl (Some sl)) +
                       match node_esz (Some sl) cs with SKnown n => n | SUnknown => 0 end) = false).
    { apply Proom. unfold t. rewrite tlen_node, hdr_len_node. cbn [node_esz]. lia. }
    assert (Htyn : get_type (c_sp c) id <> None) by (rewrite Hty; discriminate).
    assert (Hdx' : b_det st_a = true \/ all_ids (get_path (c_sp c) id) = false \/ get_path (c_sp c) id = []).
    { rewrite P4. apply (xdet_known c st t DMaster Hty Hdx). }
    assert (Hpath' : path_matches (get_path (c_sp c) id) (ids_of stk) = true).
    { rewrite (kp_ids _ _ _ _ _ Hpre). exact Hpath. }
    pose proof (xhier c st_a stk id _ P7 (kp_room _ _ _ _ _ Hpre) Hpath' Hdx') as Phier.
    destruct (read_start_g (strictify c) st_a id (Some sl) cs (enc_forest cs ++ rest) (tol_strictify c Htol) Hid Hwf1 Hsz Hba Hty P3 Phier Hroom Hmax)
      as [st_b [Hread [Hadv [Hrest Hdetb]]]].
    rewrite <- (p_read_tag_strictify c st_a id _ Hid Hba Htyn) in Hread.
    assert (Hne : id_bytes id ++ node_field (Some sl) cs <> []).
    { destruct (idok_len id Hid) as [Hl _]. destruct (id_bytes id); [cbn in Hl; lia|discriminate]. }
    rewrite P2 in Hread.
    destruct (xstep_run c st T stk ids _ _ st_b _ Hpre Hpos Hnb Hread Hadv Hne eq_refl) as [st1 [Hat1 [Hdet1 Hrun1]]].
    destruct Hadv as [_ [Ho _]]. rewrite Hrest, Ho, P2 in Hat1. unfold new_frame in Hat1. cbn [p_tag p_size p_start p_data tag_id app] in Hat1.
    rewrite app_length, node_field_length in Ho, Hat1. rewrite <- hdr_len_node with (cs := cs) in Hat1. fold t in Hat1.
    set (fr := {| f_id := id; f_size := node_esz (Some sl) cs; f_start := b_off st; f_data := b_off st + N.of_nat (hdr_len t) |}) in *.
    destruct Hat1 as [A1 [A2 [A3 [A4 [A5 A6]]]]].
    assert (Hd1 : b_det st1 = b_det st || detf c id).
    { rewrite Hdet1, Hdetb. unfold det_after. cbn [strictify c_sp]. rewrite P4, (detf_known c id DMaster Hty). reflexivity. }
    assert (Hpre1 : kpre st1 [] (fr :: stk) (ids ++ [id]) (flen cs)).
    { destruct Hpre as [Hs Hq Hbad Hf Hpend Hids Hroom0]. constructor.
      - exact A3.
      - exact A4.
      - exact A5.
      - rewrite A6. exact Hf.
      - constructor.
      - unfold ids_of in *. cbn [map rev]. rewrite Hids. reflexivity.
      - rewrite A2. unfold kroom. constructor.
        + unfold fr. cbn [f_size f_data node_esz]. exists (flen cs). split; [reflexivity|lia].
        + eapply kroom_mono; [|exact Hroom0]. unfold t. rewrite tlen_node. fold t. lia. }
    assert (Hds1 : b_det st1 = true \/ xdstart c cs).
    { rewrite Hd1. destruct Hdx as [Hd|[Hd|Hd]].
      - left. rewrite Hd. reflexivity.
      - right. unfold t in Hd. rewrite xglobb_node in Hd. apply Bool.andb_true_iff in Hd. apply xglobb_xdstart, Hd.
      - left. cbn [rid t] in Hd. rewrite (xroot_detf c id Hd). apply Bool.orb_true_r. }
    destruct (xparse_forest c cs IH (ids ++ [id]) Hcs st1 [] (fr :: stk) rest Hpre1 Hds1 A1 Hwf) as [st2 [Hat2 [Hd2 Hrun2]]].
    exists st2. rewrite A2, A6, pend_after_nil in Hat2. rewrite A2, outs_forest_nil in Hrun2. split; [|split].
    + unfold t at 1 2. rewrite tlen_node, spine_tree_node. fold t. rewrite N.add_assoc, <- app_assoc. exact Hat2.
    + rewrite Hd2, Hd1. unfold t. rewrite xglobb_node.
      destruct (b_det st), (detf c id), (forallb (xglobb c) cs); reflexivity.
    + intros n.
      assert (Hio : items_open_tree (b_off st) t = OItem (TStart id) (b_off st) :: items_open_forest (b_off st + N.of_nat (hdr_len t)) cs) by reflexivity.
      rewrite Hio.
      rewrite app_length, map_length. cbn [length]. cbn [p_tag] in Hrun1.
      replace (length T + S (length (items_open_forest (b_off st + N.of_nat (hdr_len t)) cs)) + n)%nat
        with (length T + 1 + (length (items_open_forest (b_off st + N.of_nat (hdr_len t)) cs) + n))%nat by lia.
      rewrite Hrun1, Hrun2, rcat_rcat. f_equal. rewrite <- app_assoc. reflexivity.
Qed.

(* ------------------------------------------------------------------ the whole document *)
Lemma xitems_le_bytes c : forall t ids off, xconf c ids t -> (length (items_tree off t) <= length (enc_tree t))%nat.
Proof.
  induction t as [id v pl sl|id sz cs IH] using rtree_ind'; intros ids off H.
  - pose proof (xconf_wf c _ ids H) as [_ Hl]. unfold tlen in Hl. cbn [items_tree length]. lia.
  - apply xconf_node in H. destruct H as [Hid [[sl [-> [Hsl _]]] [_ [_ [_ Hcs]]]]].
    rewrite items_tree_node, enc_tree_node. fold (node_field (Some sl) cs). cbn [length]. rewrite !app_length, node_field_length. cbn [length node_sl].
    destruct (idok_len id Hid) as [Hl _].
    assert (Hf : forall o, (length (items_forest o cs) <= length (enc_forest cs))%nat).
    { induction cs as [|x l IHl]; intros o; [cbn; lia|]. apply Forall_cons_iff in IH. destruct IH as [Hx Hl'].
      apply Forall_cons_iff in Hcs. destruct Hcs as [Hcx Hcl]. cbn [items_forest enc_forest]. rewrite !app_length.
      specialize (Hx _ o Hcx). specialize (IHl Hl' Hcl (o + tlen x)). lia. }
    specialize (Hf (off + N.of_nat (hdr_len (RNode id (Some sl) cs)))). lia.
Qed.

Lemma xitems_le_bytes_forest c ids : forall l off, Forall (xconf c ids) l -> (length (items_forest off l) <= length (enc_forest l))%nat.
Proof.
  induction l as [|x l IH]; intros off H; [cbn; lia|]. apply Forall_cons_iff in H. destruct H as [Hx Hl]. cbn [items_forest enc_forest].
  rewrite !app_length. pose proof (xitems_le_bytes c x ids off Hx). specialize (IH (off + tlen x) Hl). lia.
Qed.

(* C01, reader half, known-size documents with raw leaves, every configuration that validates hierarchy and sizes: the reader
   yields exactly the items of the document — a raw leaf as [TElem id (VRaw payload)] at the offset of its first byte *)
Theorem reader_roundtrip_tol c f : tol c -> c_buffered c = [] -> c_emit_eof c = true -> Forall (xconf c []) f -> xdstart c f ->
  p_run c (enc_forest f) [RAll] = items_forest 0 f ++ [ONone].
Proof.
  intros Htol Hnb He Hconf Hds. unfold p_run. rewrite run_ops_all.
  set (input := enc_forest f). set (st0 := p_init input).
  assert (Hpre : kpre st0 [] [] [] (flen f)).
  { constructor; try reflexivity.
    - unfold st0, p_init, default_fuel. cbn [b_fuel]. lia.
    - constructor.
    - constructor. }
  assert (HP : Forall (XPtree c) f) by (apply Forall_forall; intros t _; apply xparse_tree; assumption).
  assert (Hb0 : b_bytes st0 = enc_forest f ++ []) by (rewrite app_nil_r; reflexivity).
  destruct (xparse_forest c f HP [] Hconf st0 [] [] [] Hpre (or_intror Hds) Hb0 (Forall_nil _)) as [st1 [Hat [_ Hrun]]].
  destruct Hat as [A1 [A2 [A3 [A4 [A5 A6]]]]]. rewrite pend_after_nil, app_nil_r in A3. rewrite outs_forest_nil in Hrun.
  change (b_off st0) with 0 in *.
  assert (Hf1 : (1 <= b_fuel st1)%nat) by (rewrite A6; unfold st0, p_init, default_fuel; cbn [b_fuel]; lia).
  pose proof (xitems_le_bytes_forest c [] f 0 Hconf) as Hle. rewrite <- (open_close_forest f 0), app_length, map_length in Hle.
  set (k := length (items_open_forest 0 f)) in *. set (s := length (spine_forest 0 f)) in *.
  replace (4 * length input + 64)%nat with (k + (s + S (4 * length input + 63 - k - s)))%nat by (unfold input; lia).
  rewrite Hrun. unfold rcat. cbn [snd]. pose proof (eof_ends c st1 (4 * length input + 63 - k - s) A1 A4 A5 Hf1 He) as Hend. rewrite A3 in Hend. fold s in Hend.
  rewrite Hend, app_assoc, open_close_forest. reflexivity.
Qed.

(* the statement for readers that tolerate unknown ids *)
Theorem reader_roundtrip_raw c f : lenient_id c -> c_buffered c = [] -> c_emit_eof c = true -> Forall (xconf c []) f -> xdstart c f ->
  p_run c (enc_forest f) [RAll] = items_forest 0 f ++ [ONone].
Proof. intros H. apply reader_roundtrip_tol, lenient_tol, H. Qed.

(* the usual case: the document starts with a root element; raw leaves may precede it *)
Fixpoint starts_at_root_x (c : cfg) (f : list rtree) : Prop :=
  match f with
  | [] => True
  | t :: f' => xroot c (rid t) \/ (get_type (c_sp c) (rid t) = None /\ (exists v pl sl, t = RLeaf (rid t) v pl sl) /\ starts_at_root_x c f')
  end.

Lemma starts_at_root_x_xdstart c : forall f, starts_at_root_x c f -> xdstart c f.
Proof.
  induction f as [|t f IH]; intros H; [exact I|]. cbn [starts_at_root_x] in H. cbn [xdstart].
  destruct H as [H|[Hty [[v [pl [sl Ht]]] Hf]]]; [left; exact H|]. right. split; [|apply IH, Hf].
  rewrite Ht. cbn [xglobb]. rewrite Ht in Hty. cbn [rid] in Hty. rewrite (detf_raw c _ Hty). reflexivity.
Qed.

Corollary reader_roundtrip_raw_root c f : lenient_id c -> c_buffered c = [] -> c_emit_eof c = true -> Forall (xconf c []) f ->
  starts_at_root_x c f -> p_run c (enc_forest f) [RAll] = items_forest 0 f ++ [ONone].
Proof. intros H1 H2 H3 H4 H5. apply reader_roundtrip_raw; try assumption. apply starts_at_root_x_xdstart, H5. Qed.

Theorem reader_roundtrip_raw_tags c f : lenient_id c -> c_buffered c = [] -> c_emit_eof c = true -> Forall (xconf c []) f -> xdstart c f ->
  map out_tag (p_run c (enc_forest f) [RAll]) = map Some (tags_forest f) ++ [None].
Proof.
  intros H1 H2 H3 H4 H5. rewrite (reader_roundtrip_raw c f H1 H2 H3 H4 H5), map_app, items_tags_forest. reflexivity.
Qed.

Theorem reader_roundtrip_raw_buffered c f cap0 script : calm script -> lenient_id c -> c_buffered c = [] -> c_emit_eof c = true ->
  Forall (xconf c []) f -> xdstart c f -> run_reader c cap0 script (enc_forest f) [RAll] = items_forest 0 f ++ [ONone].
Proof. intros Hc H1 H2 H3 H4 H5. rewrite buffered_refines_pure by exact Hc. apply reader_roundtrip_raw; assumption. Qed.

(* ------------------------------------------------------------------ relation to the second class *)
Lemma kconf_rid_known c t ids : kconf c ids t -> get_type (c_sp c) (rid t) <> None.
Proof.
  destruct t as [id v pl sl|id sz cs]; intros H; cbn [rid].
  - destruct H as [_ [_ [_ [_ [[ty [Hty _]] _]]]]]. rewrite Hty. discriminate.
  - apply kconf_node in H. destruct H as [_ [_ [Hty _]]]. rewrite Hty. discriminate.
Qed.

Lemma kconf_xglobb c : forall t ids, kconf c ids t -> xglobb c t = globb c t.
Proof.
  induction t as [id v pl sl|id sz cs IH] using rtree_ind'; intros ids H.
  - destruct H as [_ [_ [_ [_ [[ty [Hty _]] _]]]]]. cbn [xglobb globb]. rewrite (detf_known c id ty Hty). reflexivity.
  - apply kconf_node in H. destruct H as [_ [_ [Hty [_ [_ Hcs]]]]]. rewrite xglobb_node, globb_node, (detf_known c id DMaster Hty). f_equal.
    induction cs as [|x l IHl]; [reflexivity|]. apply Forall_cons_iff in IH. destruct IH as [Hx Hl]. apply Forall_cons_iff in Hcs. destruct Hcs as [Hcx Hcl].
    cbn [forallb]. rewrite (Hx _ Hcx), (IHl Hl Hcl). reflexivity.
Qed.

Lemma kconf_xdstart c ids : forall f, Forall (kconf c ids) f -> dstart c f -> xdstart c f.
Proof.
  induction f as [|t f IH]; intros Hc Hd; [exact I|]. apply Forall_cons_iff in Hc. destruct Hc as [Hct Hcf]. cbn [dstart] in Hd. cbn [xdstart].
  destruct Hd as [Hd|[Hg Hd]].
  - left. split; [apply (kconf_rid_known c t ids Hct)|exact Hd].
  - right. split; [rewrite (kconf_xglobb c t ids Hct); exact Hg|apply IH; assumption].
Qed.

(* [reader_roundtrip_known] is the instance "no raw leaves, unknown ids rejected" *)
Corollary reader_roundtrip_known_again c f : strict c -> c_buffered c = [] -> c_emit_eof c = true -> Forall (kconf c []) f -> dstart c f ->
  p_run c (enc_forest f) [RAll] = items_forest 0 f ++ [ONone].
Proof.
  intros Hs Hnb He Hconf Hds. apply reader_roundtrip_tol; [apply strict_tol, Hs|exact Hnb|exact He| |apply (kconf_xdstart c []); assumption].
  rewrite Forall_forall in *. intros t Hin. apply kconf_xconf, Hconf, Hin.
Qed.

(* ... and the documents of the second class are read back by the lenient readers too *)
Corollary reader_roundtrip_known_lenient c f : tol c -> c_buffered c = [] -> c_emit_eof c = true -> Forall (kconf c []) f -> dstart c f ->
  p_run c (enc_forest f) [RAll] = items_forest 0 f ++ [ONone].
Proof.
  intros Hs Hnb He Hconf Hds. apply reader_roundtrip_tol; [exact Hs|exact Hnb|exact He| |apply (kconf_xdstart c []); assumption].
  rewrite Forall_forall in *. intros t Hin. apply kconf_xconf, Hconf, Hin.
Qed.

(* a raw leaf, spelled out *)
Definition raw_leaf_ok (c : cfg) (id : N) (pl : list N) (sl : nat) : Prop :=
  idok id /\ get_type (c_sp c) id = None /\ (1 <= sl <= 8)%nat /\ N.of_nat (length pl) < 2 ^ (7 * N.of_nat sl) - 1 /\ wf_bytes pl /\
  size_ok c (SKnown (N.of_nat (length pl))).

Lemma raw_leaf_xconf c ids id pl sl : c_allow_id c = true -> raw_leaf_ok c id pl sl -> xconf c ids (RLeaf id (VRaw pl) pl sl).
Proof.
  intros Ha [H1 [H2 [H3 [H4 [H5 H6]]]]]. cbn [xconf]. split; [exact H1|]. split; [exact H3|]. split; [exact H4|]. split; [exact H5|].
  split; [exact H6|]. right. split; [exact H2|]. split; [exact Ha|reflexivity].
Qed.

(* ================================================================== writer half *)
(* a well-formed id passes the writer's check for ids the specification does not declare *)
Lemma idok_vint id : idok id -> is_vint id = true.
Proof.
  intros [n [v [Hn [Hv ->]]]]. apply is_vint_spec. exists n. split; [exact Hn|]. rewrite N.pow_add_r, N.pow_1_r. lia.
Qed.

(* write(TElem id (VRaw pl)) for an undeclared id: no hierarchy validation, the id must be a vint; the bytes appended are
   id ++ size field ++ pl, the size field of the requested width (or the smallest one under default options) *)
Lemma buffer_raw_elem sp st id pl d sl : get_type sp id = None -> is_vint id = true -> field_ok d sl (N.of_nat (length pl)) ->
  buffer_tag sp (TElem id (VRaw pl)) (wopt d sl) st = (append (append st (id_bytes id)) (venc sl (N.of_nat (length pl)) ++ pl), WOk).
Proof.
  intros Hty Hv Hf. assert (Hsl : (1 <= sl <= 8)%nat) by (destruct Hf; assumption).
  rewrite buffer_tag_eq; raw_simpl. cbn [tag_id is_master_tag negb]. rewrite Hty. raw_simpl.
  assert (Hu : o_unknown (wopt d sl) = false) by (destruct d; reflexivity). rewrite Hu. cbn [andb is_master_ty].
  unfold should_validate; raw_simpl. cbn [tag_id]. rewrite Hty. raw_simpl. cbn [andb].
  unfold buffer_act; raw_simpl. rewrite Hu. cbn [tag_id]. rewrite Hty, (size_len_of_wopt d sl Hsl). raw_simpl.
  unfold write_element. rewrite Hv. unfold write_payload, sized_field. rewrite (size_to_vint_field d sl _ Hf). reflexivity.
Qed.

Lemma write_raw_elem_step sp st id pl d sl : get_type sp id = None -> is_vint id = true -> field_ok d sl (N.of_nat (length pl)) ->
  w_script st = [] ->
  exists st', wstep sp st (OpWrite (TElem id (VRaw pl)) (wopt d sl)) = (st', WOk) /\ w_open st' = w_open st /\ w_script st' = [] /\
    image st' = image st ++ enc_tree (RLeaf id (VRaw pl) pl sl) /\
    (has_known (w_open st) = true -> w_dest st' = w_dest st) /\ (has_known (w_open st) = false -> w_buf st' = []).
Proof.
  intros Hty Hv Hf Hs.
  destruct (write_step sp st _ _ _ (buffer_raw_elem sp st id pl d sl Hty Hv Hf) Hs) as [st' [Hstep [Ho [Hsc [Him [Hk Hu]]]]]].
  cbn [append set_buf w_open w_buf] in Ho, Him, Hk, Hu.
  exists st'. split; [exact Hstep|]. split; [exact Ho|]. split; [exact Hsc|].
  split; [rewrite Him; unfold image; cbn [enc_tree]; rewrite <- !app_assoc; reflexivity|].
  split; [intros Hkn; apply Hk, Hkn|exact Hu].
Qed.

(* write_raw(id, pl): the same bytes with the smallest size width; the id is not even checked *)
Lemma write_raw_step sp st id pl sl : field_ok true sl (N.of_nat (length pl)) -> w_script st = [] ->
  exists st', wstep sp st (OpRaw id pl) = (st', WOk) /\ w_open st' = w_open st /\ w_script st' = [] /\
    image st' = image st ++ enc_tree (RLeaf id (VRaw pl) pl sl) /\
    (has_known (w_open st) = true -> w_dest st' = w_dest st) /\ (has_known (w_open st) = false -> w_buf st' = []).
Proof.
  intros Hf Hs. cbn [wstep]. unfold write_raw, write_payload, sized_field.
  pose proof (size_to_vint_field true sl _ Hf) as Hsv. cbn [wsl] in Hsv. rewrite Hsv.
  set (st1 := append (append st (id_bytes id)) (venc sl (N.of_nat (length pl)) ++ pl)).
  assert (Hs1 : w_script st1 = []) by exact Hs.
  rewrite (flush_acc st1 Hs1). eexists. split; [reflexivity|].
  assert (Ho1 : w_open st1 = w_open st) by reflexivity. rewrite Ho1.
  unfold image. destruct (has_known (w_open st)); cbn [w_open w_script w_dest w_buf st1 append set_buf enc_tree].
  - split; [reflexivity|]. split; [exact Hs|]. split; [rewrite <- !app_assoc; reflexivity|]. split; [reflexivity|discriminate].
  - split; [reflexivity|]. split; [reflexivity|]. split; [rewrite app_nil_r, <- !app_assoc; reflexivity|]. split; [discriminate|reflexivity].
Qed.

(* under default options the two calls do the same *)
Lemma write_raw_is_write_elem sp st id pl sl : get_type sp id = None -> is_vint id = true -> field_ok true sl (N.of_nat (length pl)) ->
  wstep sp st (OpRaw id pl) = wstep sp st (OpWrite (TElem id (VRaw pl)) o_default).
Proof.
  intros Hty Hv Hf. cbn [wstep]. unfold write_advanced. change o_default with (wopt true sl). rewrite (buffer_raw_elem sp st id pl true sl Hty Hv Hf).
  unfold write_raw, write_payload, sized_field. pose proof (size_to_vint_field true sl _ Hf) as Hsv. cbn [wsl] in Hsv. rewrite Hsv. reflexivity.
Qed.

(* ---- documents with raw leaves as the writer sees them: [wconf] (Proofs/WriteEnc.v), or a raw leaf anywhere *)
Fixpoint wxconf (sp : spec) (d : bool) (ids : list N) (t : rtree) : Prop :=
  match t with
  | RLeaf id v pl sl =>
      wconf sp d ids (RLeaf id v pl sl) \/
      (get_type sp id = None /\ is_vint id = true /\ v = VRaw pl /\ field_ok d sl (N.of_nat (length pl)))
  | RNode id sz cs =>
      get_path sp id = map PId ids /\ get_type sp id = Some DMaster /\ (forall sl, sz = Some sl -> field_ok d sl (flen cs)) /\
      (fix all (l : list rtree) : Prop := match l with [] => True | x :: l' => wxconf sp d (ids ++ [id]) x /\ all l' end) cs
  end.

Lemma wxconf_node sp d ids id sz cs : wxconf sp d ids (RNode id sz cs) <->
  get_path sp id = map PId ids /\ get_type sp id = Some DMaster /\ (forall sl, sz = Some sl -> field_ok d sl (flen cs)) /\
  Forall (wxconf sp d (ids ++ [id])) cs.
Proof.
  cbn [wxconf].
  assert (H : (fix all (l : list rtree) : Prop := match l with [] => True | x :: l' => wxconf sp d (ids ++ [id]) x /\ all l' end) cs
              <-> Forall (wxconf sp d (ids ++ [id])) cs).
  { induction cs as [|x l IH]; [split; [constructor|trivial]|]. split.
    - intros [Hx Hl]. constructor; [exact Hx|apply IH, Hl].
    - intros HF. apply Forall_cons_iff in HF. destruct HF as [Hx Hl]. split; [exact Hx|apply IH, Hl]. }
  tauto.
Qed.

Lemma wconf_wxconf sp d : forall t ids, wconf sp d ids t -> wxconf sp d ids t.
Proof.
  induction t as [id v pl sl|id sz cs IH] using rtree_ind'; intros ids H; [left; exact H|].
  apply wconf_node in H. destruct H as [H1 [H2 [H3 H4]]]. apply wxconf_node. split; [exact H1|]. split; [exact H2|]. split; [exact H3|].
  clear H3. induction cs as [|x l IHl]; [constructor|].
  apply Forall_cons_iff in IH. destruct IH as [Hx Hl]. apply Forall_cons_iff in H4. destruct H4 as [Hcx Hcl].
  constructor; [apply Hx, Hcx|apply IHl; assumption].
Qed.

Definition Wxtree (sp : spec) (d : bool) (t : rtree) : Prop :=
  forall ids st, wxconf sp d ids t -> w_script st = [] -> rev (open_ids (w_open st)) = ids -> (has_known (w_open st) = false -> w_buf st = []) ->
  exists st', wrun_ok sp st (wops_tree d t) st' /\ w_open st' = w_open st /\ w_script st' = [] /\ image st' = image st ++ enc_tree t /\
    (has_known (w_open st) = true -> w_dest st' = w_dest st) /\ (has_known (w_open st) = false -> w_buf st' = []).

Lemma write_forest_x sp d : forall l, Forall (Wxtree sp d) l -> forall ids st, Forall (wxconf sp d ids) l -> w_script st = [] ->
  rev (open_ids (w_open st)) = ids -> (has_known (w_open st) = false -> w_buf st = []) ->
  exists st', wrun_ok sp st (wops_forest d l) st' /\ w_open st' = w_open st /\ w_script st' = [] /\ image st' = image st ++ enc_forest l /\
    (has_known (w_open st) = true -> w_dest st' = w_dest st) /\ (has_known (w_open st) = false -> w_buf st' = []).
Proof.
  induction l as [|x l IH]; intros HW ids st Hc Hs Hi Hinv.
  - exists st. split; [apply wrun_ok_nil|]. cbn [enc_forest]. rewrite app_nil_r. repeat split; auto.
  - apply Forall_cons_iff in HW. destruct HW as [HWx HWl]. apply Forall_cons_iff in Hc. destruct Hc as [Hcx Hcl].
    destruct (HWx _ st Hcx Hs Hi Hinv) as [st1 [R1 [O1 [S1 [I1 [K1 U1]]]]]].
    assert (Hinv1 : has_known (w_open st1) = false -> w_buf st1 = []) by (rewrite O1; exact U1).
    assert (Hi1 : rev (open_ids (w_open st1)) = ids) by (rewrite O1; exact Hi).
    destruct (IH HWl _ st1 Hcl S1 Hi1 Hinv1) as [st2 [R2 [O2 [S2 [I2 [K2 U2]]]]]].
    exists st2. split; [cbn [wops_forest]; eapply wrun_ok_app; eassumption|].
    split; [congruence|]. split; [exact S2|]. split; [rewrite I2, I1; cbn [enc_forest]; rewrite app_assoc; reflexivity|].
    rewrite O1 in K2, U2. split; [intros Hk; rewrite (K2 Hk); exact (K1 Hk)|exact U2].
Qed.

Lemma write_tree_x sp d : forall t, Wxtree sp d t.
Proof.
  induction t as [id v pl sl|id sz cs IH] using rtree_ind'; unfold Wxtree; intros ids st Hc Hs Hi Hinv.
  - (* an element *)
    destruct Hc as [Hc|[Hty [Hv [-> Hf]]]]; [exact (write_tree sp d (RLeaf id v pl sl) ids st Hc Hs Hi Hinv)|].
    destruct (write_raw_elem_step sp st id pl d sl Hty Hv Hf Hs) as [st' [Hstep H]].
    exists st'. split; [cbn [wops_tree]; eapply wrun_ok_cons; [exact Hstep|apply wrun_ok_nil]|exact H].
  - (* a master *)
    apply wxconf_node in Hc. destruct Hc as [Hpath [Hty [Hsz Hcs]]]. rewrite wops_tree_node.
    assert (Hval : w_validate sp id (w_open st) = true) by (apply (validate_chain sp id (w_open st) ids Hpath Hi)).
    destruct sz as [sl|].
    + (* known size: the children are held back, the header is inserted in front of them at the End *)
      pose proof (Hsz sl eq_refl) as Hf. assert (Hsl : (1 <= sl <= 8)%nat) by (destruct Hf; assumption).
      assert (Hb : buffer_tag sp (TStart id) (wopt d sl) st = (start_tag st id (wsl d sl), WOk)).
      { rewrite buffer_tag_eq; raw_simpl. cbn [tag_id is_master_tag negb]. rewrite Hty.
        assert (Hu : o_unknown (wopt d sl) = false) by (destruct d; reflexivity). rewrite Hu. cbn [andb is_master_ty].
        unfold should_validate; raw_simpl. cbn [tag_id is_end negb]. rewrite Hty, Hval. cbn [negb andb].
        unfold buffer_act; raw_simpl. rewrite Hu. cbn [tag_id]. rewrite Hty, (size_len_of_wopt d sl Hsl). reflexivity. }
      destruct (write_step sp st _ _ _ Hb Hs) as [st1 [Hstep1 [Ho1 [Hsc1 [Him1 [Hk1 _]]]]]].
      cbn [start_tag set_open w_open w_buf] in Ho1, Him1, Hk1.
      assert (Hkn1 : has_known (w_open st1) = true) by (rewrite Ho1; reflexivity).
      destruct (Hk1 eq_refl) as [Hd1 Hb1].
      assert (Hi1 : rev (open_ids (w_open st1)) = ids ++ [id]) by (rewrite Ho1; unfold open_ids in *; cbn [map rev fst]; rewrite Hi; reflexivity).
      assert (Hinv1 : has_known (w_open st1) = false -> w_buf st1 = []) by (rewrite Hkn1; discriminate).
      destruct (write_forest_x sp d cs IH _ st1 Hcs Hsc1 Hi1 Hinv1) as [st2 [R2 [O2 [S2 [I2 [K2 _]]]]]].
      pose proof (K2 Hkn1) as Hd2.
      assert (Hb2 : w_buf st2 = w_buf st ++ enc_forest cs).
      { unfold image in I2. rewrite Hd2, Hb1, <- app_assoc in I2. apply app_inv_head in I2. exact I2. }
      (* the End *)
      assert (He : buffer_tag sp (TEnd id) o_default st2 =
                   (set_open (set_buf st2 (w_buf st ++ id_bytes id ++ venc sl (flen cs) ++ enc_forest cs)) (w_open st), WOk)).
      { rewrite (end_step sp st2 id Hty). unfold end_tag. rewrite O2, Ho1. rewrite N.eqb_refl, Hb2, app_length.
        destruct (Nat.ltb_spec (length (w_buf st) + length (enc_forest cs)) (length (w_buf st))); [lia|].
        replace (length (w_buf st) + length (enc_forest cs) - length (w_buf st))%nat with (length (enc_forest cs)) by lia.
        fold (flen cs). rewrite (size_to_vint_field d sl (flen cs) Hf).
        rewrite firstn_app, firstn_all, Nat.sub_diag, skipn_app, skipn_all, Nat.sub_diag. cbn [firstn skipn app]. rewrite app_nil_r. reflexivity. }
      destruct (write_step sp st2 _ _ _ He S2) as [st3 [Hstep3 [Ho3 [Hsc3 [Him3 [Hk3 Hu3]]]]]].
      cbn [set_open set_buf w_open w_buf] in Ho3, Him3, Hk3, Hu3.
      exists st3. split.
      { eapply wrun_ok_cons; [exact Hstep1|]. eapply wrun_ok_app; [exact R2|]. eapply wrun_ok_cons; [exact Hstep3|apply wrun_ok_nil]. }
      split; [exact Ho3|]. split; [exact Hsc3|]. split.
      { rewrite Him3, Hd2, Hd1. unfold image. rewrite enc_tree_node, <- !app_assoc. reflexivity. }
      split; [intros Hkn; destruct (Hk3 Hkn) as [Hd3 _]; rewrite Hd3, Hd2, Hd1; reflexivity|exact Hu3].
    + (* unknown size: the header goes out at once *)
      assert (Hb : buffer_tag sp (TStart id) opts_unknown st = (start_unknown_size_tag st id, WOk)).
      { rewrite buffer_tag_eq; raw_simpl. cbn [tag_id is_master_tag negb opts_unknown o_unknown]. rewrite Hty. cbn [andb is_master_ty negb].
        unfold should_validate; raw_simpl. cbn [tag_id is_end negb]. rewrite Hty, Hval. cbn [negb andb].
        unfold buffer_act; raw_simpl. cbn [o_unknown opts_unknown]. reflexivity. }
      destruct (write_step sp st _ _ _ Hb Hs) as [st1 [Hstep1 [Ho1 [Hsc1 [Him1 [Hk1 Hu1]]]]]].
      cbn [start_unknown_size_tag set_open set_buf w_open w_buf] in Ho1, Him1, Hk1, Hu1.
      assert (Hkn1 : has_known (w_open st1) = has_known (w_open st)) by (rewrite Ho1; reflexivity).
      assert (Hi1 : rev (open_ids (w_open st1)) = ids ++ [id]) by (rewrite Ho1; unfold open_ids in *; cbn [map rev fst]; rewrite Hi; reflexivity).
      assert (Hinv1 : has_known (w_open st1) = false -> w_buf st1 = []) by (rewrite Ho1; exact Hu1).
      destruct (write_forest_x sp d cs IH _ st1 Hcs Hsc1 Hi1 Hinv1) as [st2 [R2 [O2 [S2 [I2 [K2 U2]]]]]].
      assert (He : buffer_tag sp (TEnd id) o_default st2 = (set_open st2 (w_open st), WOk)).
      { rewrite (end_step sp st2 id Hty). unfold end_tag. rewrite O2, Ho1. rewrite N.eqb_refl. reflexivity. }
      destruct (write_step sp st2 _ _ _ He S2) as [st3 [Hstep3 [Ho3 [Hsc3 [Him3 [Hk3 Hu3]]]]]].
      cbn [set_open w_open w_buf] in Ho3, Him3, Hk3, Hu3.
      exists st3. split.
      { eapply wrun_ok_cons; [exact Hstep1|]. eapply wrun_ok_app; [exact R2|]. eapply wrun_ok_cons; [exact Hstep3|apply wrun_ok_nil]. }
      split; [exact Ho3|]. split; [exact Hsc3|]. split.
      { rewrite Him3. fold (image st2). rewrite I2, Him1, enc_tree_node. unfold image. rewrite <- !app_assoc. reflexivity. }
      split; [|exact Hu3].
      intros Hkn. destruct (Hk3 Hkn) as [Hd3 _]. rewrite Hd3. rewrite Hkn1 in K2. rewrite (K2 Hkn). destruct (Hk1 Hkn) as [Hx _]. exact Hx.
Qed.

(* writing a document with raw tags — any mix of known- and unknown-size masters — tag by tag into a destination that accepts
   everything: every call succeeds and the destination holds exactly the structural encoding *)
Theorem writer_encodes_raw sp d f : Forall (wxconf sp d []) f ->
  Forall (fun r => fst r = WOk) (fst (run_writer sp (wops_forest d f) [])) /\ snd (run_writer sp (wops_forest d f) []) = enc_forest f.
Proof.
  intros Hc.
  assert (HW : Forall (Wxtree sp d) f) by (apply Forall_forall; intros t _; apply write_tree_x).
  destruct (write_forest_x sp d f HW [] (w_init []) Hc eq_refl eq_refl (fun _ => eq_refl)) as [st' [[R1 R2] [_ [_ [Him [_ Hu]]]]]].
  unfold run_writer. destruct (wrun sp (w_init []) (wops_forest d f)) as [st rs]. cbn [fst snd] in *. subst st'.
  split; [exact R2|]. unfold image in Him. rewrite (Hu eq_refl), app_nil_r in Him. exact Him.
Qed.

(* ---- what is written is read back *)
(* a written document whose masters all have a known size belongs to the reader's class ([rconf]: ids are vints, values in
   range, sizes within the reader's limit) *)
Lemma wxconf_xconf c d : c_allow_id c = true -> forall t ids, wxconf (c_sp c) d ids t -> rconf c t -> all_known t -> xconf c ids t.
Proof.
  intros Hallow. induction t as [id v pl sl|id sz cs IH] using rtree_ind'; intros ids Hw Hr Hk.
  - destruct Hw as [Hw|[Hty [Hv [-> [Hsl [Hlt _]]]]]].
    + apply kconf_xconf, conf_kconf; [apply (wconf_conf c d _ ids Hw Hr)|exact I].
    + destruct Hr as [Hid [Hwf Hmax]]. cbn [vok] in Hwf. cbn [xconf].
      split; [exact Hid|]. split; [exact Hsl|]. split; [exact Hlt|]. split; [exact Hwf|]. split; [exact Hmax|].
      right. split; [exact Hty|]. split; [exact Hallow|reflexivity].
  - apply wxconf_node in Hw. apply rconf_node in Hr. apply all_known_node in Hk. apply xconf_node.
    destruct Hw as [Hpath [Hty [Hsz Hcs]]]. destruct Hr as [Hid [Hmax Hrs]]. destruct Hk as [Hnn Hks].
    split; [exact Hid|]. split.
    { destruct sz as [sl|]; [|contradiction Hnn; reflexivity]. exists sl. destruct (Hsz sl eq_refl) as [H1 [H2 _]].
      split; [reflexivity|split; assumption]. }
    split; [exact Hty|]. split; [rewrite Hpath; apply path_matches_ids|]. split; [exact Hmax|].
    clear Hsz Hmax. induction cs as [|x l IHl]; [constructor|].
    apply Forall_cons_iff in IH. destruct IH as [Hx Hl]. apply Forall_cons_iff in Hcs. destruct Hcs as [Hcx Hcl].
    apply Forall_cons_iff in Hrs. destruct Hrs as [Hrx Hrl]. apply Forall_cons_iff in Hks. destruct Hks as [Hkx Hkl].
    constructor; [apply Hx; assumption|apply IHl; assumption].
Qed.

(* the start hypothesis holds by itself: a declared top-level element is a root element, a raw one determines nothing *)
Lemma wxconf_xdstart c d : forall f, Forall (wxconf (c_sp c) d []) f -> xdstart c f.
Proof.
  induction f as [|t f IH]; intros H; [exact I|]. apply Forall_cons_iff in H. destruct H as [Ht Hf]. cbn [xdstart].
  destruct t as [id v pl sl|id sz cs]; cbn [rid].
  - destruct Ht as [[Hp [ty [Hty _]]]|[Hty _]].
    + left. split; [rewrite Hty; discriminate|exact Hp].
    + right. split; [cbn [xglobb]; rewrite (detf_raw c id Hty); reflexivity|apply IH, Hf].
  - apply wxconf_node in Ht. destruct Ht as [Hp [Hty _]]. left. split; [rewrite Hty; discriminate|exact Hp].
Qed.

(* C01 for raw tags: what the writer emits for a tag sequence with raw tags of well-formed ids — known-size masters, explicit
   or default widths — is read back as exactly that tag sequence by every reader that tolerates unknown ids *)
Theorem write_read_roundtrip_raw c d f : lenient_id c -> c_buffered c = [] -> c_emit_eof c = true ->
  Forall (wxconf (c_sp c) d []) f -> Forall (rconf c) f -> Forall all_known f ->
  Forall (fun r => fst r = WOk) (fst (run_writer (c_sp c) (wops_forest d f) [])) /\
  map out_tag (p_run c (snd (run_writer (c_sp c) (wops_forest d f) [])) [RAll]) = map op_tag (wops_forest d f) ++ [None].
Proof.
  intros Hs Hb He Hw Hr Hk. destruct (writer_encodes_raw (c_sp c) d f Hw) as [Hok Henc]. split; [exact Hok|].
  rewrite Henc, op_tags_forest. apply reader_roundtrip_raw_tags; try assumption.
  - destruct Hs as [Hallow _]. rewrite Forall_forall in *. intros t Hin. apply (wxconf_xconf c d Hallow t []); [apply Hw, Hin|apply Hr, Hin|apply Hk, Hin].
  - apply (wxconf_xdstart c d f Hw).
Qed.
