(* C14 for the SECOND class of documents (Proofs/RoundTripKnown.v, Proofs/PartialKnown.v): every master has a known size, and
   the declared paths only have to MATCH the chain of masters an element sits in, so global placeholders are allowed (global
   elements at any depth, recursive masters).  The damaged documents [ddoc], their encoding [enc_ddoc], the undamaged
   document [undamaged], the state the junk is judged in [junk_state] and the promised outputs [out_ddoc] are those of
   Proofs/Recover.v; only the conformance predicate changes ([krights_ok], [kconf_zdoc]).

   With all masters of known size every pending master is exhausted at the cursor: the failing read pops ALL of them before
   the error is reported ([d_k1 d] is the number of pending masters), and the recovery enlarges EVERY open master by the
   length of the junk.

   The start hypothesis.  The reader validates no hierarchy until it has met the first element whose declared path is
   placeholder-free, and that element has to be a root element (Proofs/RoundTripKnown.v).  The recovery loop is studied
   once the position is determined: [jstart] says that, in reading order, an element with a placeholder-free path has been
   read BEFORE the junk and that the first such element is a root element ([ddoc_root_start]: in particular when the very
   first element of the document is a root element). *)
From Ebml Require Import Base Tools Spec Writer Reader Pure Encode.
From Ebml Require Import Proofs.Tactics Proofs.BytesProofs Proofs.VintProofs Proofs.DecodersProofs Proofs.SpecProofs Proofs.ReaderIO Proofs.Refine Proofs.PureProofs Proofs.RoundTrip Proofs.RoundTripKnown Proofs.Nesting Proofs.Partial Proofs.CutExists Proofs.PartialKnown Proofs.Recover.
Import ListNotations.
Local Open Scope N_scope.

(* ------------------------------------------------------------------ enlarging the open masters: all of them grow *)
Lemma kgrow_room d stk e : kroom stk e -> kroom (grow_frames d stk) (e + d).
Proof.
  unfold kroom, grow_frames. intros H. rewrite Forall_forall in *. intros f Hin. apply in_map_iff in Hin. destruct Hin as [g [<- Hg]].
  destruct (H g Hg) as [n [Hs Hn]]. rewrite Hs. exists (n + d). cbn [f_size f_data]. split; [reflexivity|lia].
Qed.

Lemma kroom_of_room stk e e' : kroom stk e -> room stk e' -> kroom stk e'.
Proof.
  unfold kroom, room. intros Hk Hr. rewrite Forall_forall in *. intros f Hin. destruct (Hk f Hin) as [n [Hs _]].
  specialize (Hr f Hin). rewrite Hs in Hr. exists n. split; [exact Hs|exact Hr].
Qed.

Lemma exhF_grow off d fr : exhF off fr ->
  exhF (off + d) (match f_size fr with
                  | SKnown n => {| f_id := f_id fr; f_size := SKnown (n + d); f_start := f_start fr; f_data := f_data fr |}
                  | SUnknown => fr end).
Proof. intros [n [H Hn]]. rewrite H. exists (n + d). cbn [f_size f_data]. split; [reflexivity|lia]. Qed.

(* ------------------------------------------------------------------ the header of a conforming known-size tree passes every
   check wherever the tree fits *)
Lemma kheader_ok_tree c s ids x rest : strict c -> kconf c ids x -> b_bytes s = enc_tree x ++ rest -> wf_bytes rest -> b_bad s = None ->
  hier_ok_g c s (root_id x) -> (forall sz, sz <= tlen x -> p_invalid_tag_size s sz = false) ->
  exists h s', p_header c s = (s', Ok h) /\ same_io s s' /\ b_det s' = det_after c s (root_id x).
Proof.
  intros Hstrict Hconf Hb Hwf Hbad Hhier Hroom.
  destruct x as [id v pl sl|id sz cs]; cbn [root_id] in *.
  - destruct Hconf as [Hid [Hsl [Hlt [Hwfp [[ty [Hty [Hnm Hdec]]] [_ Hmax]]]]]]. cbn [enc_tree] in Hb. rewrite <- !app_assoc in Hb.
    assert (Hsz : N.of_nat (length pl) < 2 ^ (7 * N.of_nat sl)) by lia.
    pose proof (ebml_size_known _ _ Hlt) as Hes.
    assert (Hr : p_invalid_tag_size s (N.of_nat (length (id_bytes id) + sl) + match ebml_size (N.of_nat (length pl)) sl with SKnown n => n | SUnknown => 0 end) = false).
    { rewrite Hes. apply Hroom. rewrite tlen_leaf. cbn [hdr_len]. lia. }
    assert (Hm : size_ok c (ebml_size (N.of_nat (length pl)) sl)) by (rewrite Hes; exact Hmax).
    destruct (p_header_conf_g c s id ty sl _ (pl ++ rest) Hstrict Hid Hsl Hsz (wf_app _ _ Hwfp Hwf) Hb Hty (decodes_numeric ty pl v Hdec) Hbad Hhier Hr Hm)
      as [s' [Hh [Hsame Hdet]]]. eexists. exists s'. split; [exact Hh|]. split; [exact Hsame|exact Hdet].
  - pose proof (kconf_wf c _ ids Hconf) as [Hwt _]. apply kconf_node in Hconf.
    destruct Hconf as [Hid [[sl [Esz [Hsl Hfl]]] [Hty [_ [Hmax Hcs]]]]]. subst sz.
    rewrite enc_tree_node in Hb, Hwt. rewrite <- !app_assoc in Hb.
    assert (Hwb : wf_bytes (enc_forest cs ++ rest)).
    { apply wf_app; [|exact Hwf]. unfold wf_bytes in *. rewrite !Forall_app in Hwt. tauto. }
    assert (Hsize : flen cs < 2 ^ (7 * N.of_nat sl)) by lia.
    pose proof (ebml_size_known _ _ Hfl) as Hes.
    assert (Hr : p_invalid_tag_size s (N.of_nat (length (id_bytes id) + sl) + match ebml_size (flen cs) sl with SKnown n => n | SUnknown => 0 end) = false).
    { rewrite Hes. apply Hroom. rewrite tlen_node, hdr_len_node. cbn [node_sl]. lia. }
    assert (Hm : size_ok c (ebml_size (flen cs) sl)) by (rewrite Hes; exact Hmax).
    assert (Hnum : is_numeric (Some DMaster) = true -> flen cs <= 8) by discriminate.
    destruct (p_header_conf_g c s id DMaster sl (flen cs) _ Hstrict Hid Hsl Hsize Hwb Hb Hty Hnum Hbad Hhier Hr Hm) as [s' [Hh [Hsame Hdet]]].
    eexists. exists s'. split; [exact Hh|]. split; [exact Hsame|exact Hdet].
Qed.

(* ------------------------------------------------------------------ one recovery *)
(* the first error is reported at the junk after ALL pending masters have been popped; try_recover walks exactly over the
   junk; every open master grows by the skipped distance; the reader is ready for the tree that follows the junk *)
Lemma krecover_step c st T stk ids total jk x rest :
  strict c -> c_buffered c = [] -> kpre st T stk ids total -> b_det st = true ->
  b_bytes st = jk ++ enc_tree x ++ rest -> jk <> [] -> wf_bytes rest -> kconf c ids x ->
  N.of_nat (length jk) + tlen x <= total -> (length jk <= b_fuel st)%nat ->
  junk_from c (ppop_frames st (exhausted_count (b_off st) (T ++ stk))) (length jk - 1) ->
  let k1 := exhausted_count (b_off st) (T ++ stk) in
  k1 = length T /\
  forall n, exists e0 Sr,
    snd (p_run_all (k1 + S n) c st) = map end_out T ++ [OErr e0] /\
    b_bad (fst (p_run_all (k1 + S n) c st)) = None /\ p_try_recover c (fst (p_run_all (k1 + S n) c st)) = (Sr, None) /\
    kpre Sr [] (grow_frames (N.of_nat (length jk)) stk) ids total /\
    b_bytes Sr = enc_tree x ++ rest /\ b_off Sr = b_off st + N.of_nat (length jk) /\ b_fuel Sr = b_fuel st /\ b_det Sr = true.
Proof.
  intros Hstrict Hnb Hpre Hdet Hb Hjk Hwf Hconf Htot Hfuel Hjunk. cbn zeta.
  set (j := length jk) in *.
  assert (Hj1 : (1 <= j)%nat) by (unfold j; destruct jk; [contradiction Hjk; reflexivity|cbn; lia]).
  assert (Hpath : path_matches (get_path (c_sp c) (root_id x)) ids = true).
  { destruct x as [id v pl sl|id sz cs].
    - destruct Hconf as [_ [_ [_ [_ [_ [Hpath _]]]]]]. exact Hpath.
    - pose proof Hconf as Hc'. apply kconf_node in Hc'. destruct Hc' as [_ [_ [_ [Hpath _]]]]. exact Hpath. }
  assert (Hpos : 0 < total) by (pose proof (kconf_wf c x ids Hconf) as [_ H2]; lia).
  pose proof (kpre_step c st T stk ids _ (root_id x) Hpre Hpos (or_introl Hdet) Hpath Hnb) as Hstep.
  pose proof (kprep c st T stk (root_id x) _ Hstep) as Hprep. cbn zeta in Hprep.
  destruct (kpop c st T stk (root_id x) _ Hstep) as [Hk1 _].
  destruct Hprep as [P1 [P2 [P3 [P4 [P5 [P6 [P7 [Phier Proom]]]]]]]].
  pose proof Hpre as [Hs Hq Hbad Hf Hpend Hids Hroom]. rewrite Hs in *.
  set (k1 := exhausted_count (b_off st) (T ++ stk)) in *.
  split; [exact Hk1|]. intros n.
  set (st_a := ppop_frames st k1) in *.
  (* the first error *)
  assert (Hsp : same_parse st_a st_a) by (repeat split).
  destruct (Hjunk st_a Hsp) as [[e0 He0] _].
  assert (Hda : b_det st_a = true) by (rewrite P4; exact Hdet).
  pose proof (p_header_det c st_a Hda) as Hsame_a.
  assert (Hh0 : p_header c st_a = (st_a, Err e0)).
  { destruct (p_header c st_a) as [s r]. cbn [fst snd] in *. subst s r. reflexivity. }
  assert (Hne : b_bytes st <> []) by (rewrite Hb; destruct jk; [contradiction Hjk; reflexivity|discriminate]).
  pose proof (err_run_st c st (T ++ stk) e0 st_a Hs Hq Hbad Hf Hne (header_err_read c st_a e0 Hh0) eq_refl P3 P5 n) as Herr.
  cbn zeta in Herr. fold k1 in Herr. destruct Herr as [R1 [R2 R3]].
  assert (Hfi : firstn k1 (T ++ stk) = T) by (rewrite Hk1, (firstn_app_le T stk _ (le_n _)); apply firstn_all).
  rewrite Hfi in R1.
  set (S0 := fst (p_run_all (k1 + S n) c st)) in *.
  destruct R2 as [Q1 [Q2 [Q3 [Q4 [Q5 Q6]]]]].
  (* the recovery loop *)
  destruct (Hjunk S0 (conj Q1 (conj Q2 (conj Q3 (conj Q4 (conj Q5 Q6)))))) as [_ HjS].
  assert (Hlen0 : b_bytes S0 = jk ++ enc_tree x ++ rest) by (rewrite Q1, P1; exact Hb).
  assert (Hjl : (j <= length (b_bytes S0))%nat) by (rewrite Hlen0, app_length; unfold j; lia).
  destruct (skip_bytes_facts j S0 Hjl) as [K1 [K2 [K3 [K4 [K5 [K6 K7]]]]]].
  set (SJ := skip_bytes S0 j) in *.
  assert (KB : b_bytes SJ = enc_tree x ++ rest).
  { rewrite K1, Hlen0. unfold j. rewrite skipn_app, skipn_all, Nat.sub_diag. reflexivity. }
  assert (Hdj : b_det SJ = true) by (rewrite K5, Q4; exact Hda).
  assert (Phier' : hier_ok c st_a (root_id x)).
  { destruct Phier as [H|[H _]]; [exact H|]. rewrite Hda in H. discriminate. }
  assert (HhJ : hier_ok_g c SJ (root_id x)).
  { left. unfold hier_ok in *. rewrite Hdj, K3, Q3. rewrite Hda in Phier'. exact Phier'. }
  assert (HrJ : forall sz, sz <= tlen x -> p_invalid_tag_size SJ sz = false).
  { intros sz Hsz. rewrite (invalid_size_shift st_a SJ (N.of_nat j) sz); [apply Proom; lia|rewrite K3, Q3; reflexivity|rewrite K2, Q2; reflexivity]. }
  assert (HbJ : b_bad SJ = None) by (rewrite K6, Q5; exact P3).
  destruct (kheader_ok_tree c SJ ids x rest Hstrict Hconf KB Hwf HbJ HhJ HrJ) as [h [s' [HhOk _]]].
  pose proof (p_header_det c SJ Hdj) as HsJ. rewrite HhOk in HsJ. cbn [fst] in HsJ. subst s'.
  assert (Hloop : p_recover_loop (b_fuel S0) c S0 = (SJ, None)).
  { unfold SJ. replace j with (S (j - 1)) by lia. apply (recover_loop_junk c (j - 1) S0 (b_fuel S0) h).
    - rewrite Q4. exact Hda.
    - rewrite Q6, P5. lia.
    - lia.
    - exact HjS.
    - replace (S (j - 1)) with j by lia. exact HhOk. }
  exists e0. eexists. split; [exact R1|]. split; [rewrite Q5; exact P3|].
  split; [unfold p_try_recover; rewrite Hloop; reflexivity|].
  assert (Hdiff : b_off SJ - b_off S0 = N.of_nat j) by (rewrite K2; lia).
  rewrite Hdiff, K3, Q3, P7.
  split.
  - constructor; cbn [pset_stack b_stack b_queue b_bad b_fuel b_det b_off app].
    + reflexivity.
    + rewrite K4. exact R3.
    + exact HbJ.
    + rewrite K7, Q6, P5. exact Hf.
    + constructor.
    + rewrite grow_ids. exact Hids.
    + rewrite K2, Q2, P2. replace (b_off st + N.of_nat j + total) with (b_off st + total + N.of_nat j) by lia. apply kgrow_room, Hroom.
  - cbn [pset_stack b_bytes b_off b_fuel b_det]. split; [exact KB|]. split; [rewrite K2, Q2, P2; reflexivity|]. split; [rewrite K7, Q6, P5; reflexivity|exact Hdj].
Qed.

(* ------------------------------------------------------------------ the rest of a known-size document, seen from inside open
   masters: one forest per open master (innermost first), and one for the top level.  With known sizes the enclosing master
   ends EXACTLY where its forest ends *)
Fixpoint krights_ok (c : cfg) (ids : list N) (off : N) (stk : list frame) (rs : list (list rtree)) {struct rs} : Prop :=
  match rs with
  | [] => False
  | r0 :: rs' =>
      Forall (kconf c ids) r0 /\ kroom stk (off + flen r0) /\
      match stk with
      | [] => rs' = []
      | fr :: stk' => exhF (off + flen r0) fr /\ krights_ok c (removelast ids) (off + flen r0) stk' rs'
      end
  end.

Lemma krights_ok_cons c ids off stk r0 rs' : krights_ok c ids off stk (r0 :: rs') <->
  Forall (kconf c ids) r0 /\ kroom stk (off + flen r0) /\
  match stk with [] => rs' = [] | fr :: stk' => exhF (off + flen r0) fr /\ krights_ok c (removelast ids) (off + flen r0) stk' rs' end.
Proof. split; intros H; exact H. Qed.

(* the start hypothesis over the rest of the document, in reading order *)
Fixpoint rs_start (c : cfg) (rs : list (list rtree)) : Prop :=
  match rs with [] => True | r0 :: rs' => dstart_k c r0 (rs_start c rs') end.

Lemma kwf_rights c : forall rs ids off stk, krights_ok c ids off stk rs -> wf_bytes (enc_rights rs).
Proof.
  induction rs as [|r0 rs IH]; intros ids off stk H; [constructor|]. apply krights_ok_cons in H. destruct H as [Hc [_ Hm]]. cbn [enc_rights].
  apply wf_app; [apply (kconf_wf_forest c ids r0 Hc)|]. destruct stk as [|fr stk']; [subst rs; constructor|].
  destruct Hm as [_ Hr]. apply (IH _ _ _ Hr).
Qed.

Lemma kparse_rights c : strict c -> c_buffered c = [] -> c_emit_eof c = true ->
  forall rs ids st T stk, krights_ok c ids (b_off st) stk rs -> kpre st T stk ids (flen (hd [] rs)) ->
  (b_det st = true \/ rs_start c rs) -> b_bytes st = enc_rights rs ->
  forall n, snd (p_run_all (length (rights_outs (b_off st) T stk rs) + n) c st) = rights_outs (b_off st) T stk rs.
Proof.
  intros Hstrict Hnb He. induction rs as [|r0 rs IH]; intros ids st T stk Hok Hpre Hdet Hb n; [contradiction Hok|].
  apply krights_ok_cons in Hok. destruct Hok as [Hc [Hroom Hm]]. cbn [hd] in Hpre. cbn [enc_rights] in Hb. cbn [rights_outs].
  assert (HP : Forall (KPtree c) r0) by (apply Forall_forall; intros t _; apply kparse_tree; assumption).
  assert (Hwr : wf_bytes (enc_rights rs)).
  { destruct stk as [|fr stk']; [subst rs; constructor|]. destruct Hm as [_ Hr]. apply (kwf_rights c _ _ _ _ Hr). }
  assert (Hds : b_det st = true \/ dstart c r0).
  { destruct Hdet as [H|H]; [left; exact H|right]. cbn [rs_start] in H. apply (dstart_k_dstart c _ r0 H). }
  destruct (kparse_forest c r0 HP ids Hc st T stk _ Hpre Hds Hb Hwr) as [st1 [Hat1 [Hd1 Hrun1]]].
  destruct Hat1 as [A1 [A2 [A3 [A4 [A5 A6]]]]].
  pose proof Hpre as [Hs Hq Hbad Hf Hpend Hids _].
  pose proof (kpend_after_ok c ids r0 (b_off st) T Hc Hpend) as Hp2.
  rewrite app_length, <- Nat.add_assoc, Hrun1. unfold rcat. cbn [snd]. f_equal.
  destruct stk as [|fr stk'].
  - (* top level: the end of the input closes what is pending *)
    subst rs. cbn [enc_rights] in A1. rewrite app_nil_r in A3.
    assert (Hf1 : (1 <= b_fuel st1)%nat) by (rewrite A6; exact Hf).
    pose proof (eof_ends c st1 n A1 A4 A5 Hf1 He) as Hend. rewrite A3 in Hend.
    rewrite app_length, map_length. cbn [length]. replace (length (pend_after (b_off st) r0 T) + 1 + n)%nat with (length (pend_after (b_off st) r0 T) + S n)%nat by lia.
    exact Hend.
  - (* the enclosing master: it is exhausted as well *)
    destruct Hm as [Hfr Hr].
    assert (Hids' : ids = ids_of stk' ++ [f_id fr]) by (rewrite <- Hids; unfold ids_of; reflexivity).
    assert (Hrl : removelast ids = ids_of stk') by (rewrite Hids'; apply removelast_last).
    rewrite Hrl in Hr.
    assert (Hpre1 : kpre st1 (pend_after (b_off st) r0 T ++ [fr]) stk' (ids_of stk') (flen (hd [] rs))).
    { constructor.
      - rewrite A3, <- app_assoc. reflexivity.
      - exact A4.
      - exact A5.
      - rewrite A6. exact Hf.
      - rewrite A2. apply Forall_app. split; [exact Hp2|constructor; [exact Hfr|constructor]].
      - reflexivity.
      - rewrite A2. destruct rs as [|r1 rs']; [contradiction Hr|]. apply krights_ok_cons in Hr. destruct Hr as [_ [Hr1 _]]. exact Hr1. }
    assert (Hdt : b_det st1 = true \/ rs_start c rs).
    { rewrite Hd1. destruct Hdet as [H|H]; [left; rewrite H; reflexivity|]. cbn [rs_start] in H.
      destruct (dstart_k_after c _ r0 H) as [Hg|Hk]; [left; rewrite Hg; apply Bool.orb_true_r|right; exact Hk]. }
    rewrite <- A2. apply (IH (ids_of stk') st1 _ stk'); [rewrite A2; exact Hr|exact Hpre1|exact Hdt|exact A1].
Qed.

(* ------------------------------------------------------------------ small transfers *)
Lemma kpre_retotal st T stk ids t t' : kpre st T stk ids t -> room stk (b_off st + t') -> kpre st T stk ids t'.
Proof. intros [H1 H2 H3 H4 H5 H6 H7] Hr. constructor; try assumption. eapply kroom_of_room; [exact H7|exact Hr]. Qed.

Lemma krights_ok_shift c d : forall rs ids off stk, krights_ok c ids off stk rs -> krights_ok c ids (off + d) (grow_frames d stk) rs.
Proof.
  induction rs as [|r0 rs IH]; intros ids off stk H; [exact H|]. apply krights_ok_cons in H. apply krights_ok_cons.
  destruct H as [Hc [Hr Hm]]. split; [exact Hc|]. split.
  - replace (off + d + flen r0) with (off + flen r0 + d) by lia. apply kgrow_room, Hr.
  - destruct stk as [|fr stk']; [exact Hm|]. cbn [grow_frames map]. destruct Hm as [Hp Hrest].
    replace (off + d + flen r0) with (off + flen r0 + d) by lia. split; [apply exhF_grow, Hp|apply IH, Hrest].
Qed.

Lemma krights_ok_prepend c ids off stk f1 r0 rs : Forall (kconf c ids) f1 -> krights_ok c ids (off + flen f1) stk (r0 :: rs) ->
  krights_ok c ids off stk ((f1 ++ r0) :: rs).
Proof.
  intros Hf H. apply krights_ok_cons in H. apply krights_ok_cons. destruct H as [Hc [Hr Hm]]. rewrite flen_app, N.add_assoc.
  split; [apply Forall_app; split; assumption|]. split; [exact Hr|exact Hm].
Qed.

Lemma krights_ok_unprepend c ids off stk f1 r0 rs : krights_ok c ids off stk ((f1 ++ r0) :: rs) ->
  Forall (kconf c ids) f1 /\ krights_ok c ids (off + flen f1) stk (r0 :: rs).
Proof.
  intros H. apply krights_ok_cons in H. destruct H as [Hc [Hr Hm]]. apply Forall_app in Hc. destruct Hc as [Hc1 Hc2].
  split; [exact Hc1|]. apply krights_ok_cons. rewrite flen_app, N.add_assoc in Hr, Hm. split; [exact Hc2|]. split; [exact Hr|exact Hm].
Qed.

Lemma krights_len c : forall rs ids off stk, krights_ok c ids off stk rs -> length rs = S (length stk).
Proof.
  induction rs as [|r0 rs IH]; intros ids off stk H; [contradiction H|]. apply krights_ok_cons in H. destruct H as [_ [_ Hm]].
  destruct stk as [|fr stk']; [subst rs; reflexivity|]. destruct Hm as [_ Hr]. cbn [length]. rewrite (IH _ _ _ Hr). reflexivity.
Qed.

(* how many outputs the rest of the document gives *)
Lemma krights_outs_len c : forall rs ids off T stk, krights_ok c ids off stk rs ->
  (length (rights_outs off T stk rs) <= length T + length stk + length (enc_rights rs) + 1)%nat.
Proof.
  induction rs as [|r0 rs IH]; intros ids off T stk H; [contradiction H|]. apply krights_ok_cons in H. destruct H as [Hc [_ Hm]].
  cbn [rights_outs enc_rights]. rewrite !app_length. pose proof (kouts_pend_len c ids r0 off T Hc) as H1.
  destruct stk as [|fr stk'].
  - subst rs. rewrite app_length, map_length. cbn [length enc_rights]. lia.
  - destruct Hm as [_ Hr]. specialize (IH _ (off + flen r0) (pend_after off r0 T ++ [fr]) stk' Hr). rewrite app_length in IH. cbn [length] in *. lia.
Qed.

(* ------------------------------------------------------------------ whole known-size documents seen from a position inside *)
Definition kconf_zdoc (c : cfg) (z : zdoc) : Prop :=
  kconf_levels c [] (z_levels z) (flen (hd [] (z_rights z))) /\
  krights_ok c (lv_ids [] (z_levels z)) (levels_len (z_levels z)) (lv_stk 0 [] (z_levels z)) (z_rights z).

(* in reading order (the levels, then the rest of the document) the first element declared with a placeholder-free path
   is a root element *)
Definition zstart (c : cfg) (z : zdoc) : Prop := lstart c (z_levels z) (rs_start c (z_rights z)).

Lemma init_kpre input total : kpre (p_init input) [] [] [] total.
Proof.
  constructor; try reflexivity.
  - unfold p_init, default_fuel. cbn [b_fuel]. lia.
  - constructor.
  - constructor.
Qed.

Theorem zipper_run_known c z : strict c -> c_buffered c = [] -> c_emit_eof c = true -> kconf_zdoc c z -> zstart c z ->
  p_run c (enc_zdoc z) [RAll] = out_zdoc z.
Proof.
  intros Hstrict Hnb He [HL Hr] Hst. unfold p_run. rewrite run_ops_all. destruct z as [L rs]. unfold zstart in Hst. cbn [z_levels z_rights] in *.
  unfold enc_zdoc, out_zdoc. cbn [z_levels z_rights].
  set (input := enc_levels L ++ enc_rights rs). set (st0 := p_init input).
  pose proof (kwf_rights c rs _ _ _ Hr) as Hwr.
  destruct (kdescend c Hstrict Hnb L [] st0 [] [] _ _ _ HL (init_kpre input _) (or_intror Hst) eq_refl Hwr) as [st1 [Hpre1 [B1 [B2 [B3 [Hd1 Hrun1]]]]]].
  change (b_off st0) with 0 in *. rewrite N.add_0_l in B2.
  set (T1 := lv_T 0 [] L) in *. set (stk1 := lv_stk 0 [] L) in *. set (ids1 := lv_ids [] L) in *.
  rewrite <- B2 in Hr.
  pose proof (klv_len c L [] 0 [] [] _ HL) as Hc1. cbn [length] in Hc1. fold T1 stk1 in Hc1.
  pose proof (krights_outs_len c rs ids1 (b_off st1) T1 stk1 Hr) as Hc2.
  assert (Hin : length input = (length (enc_levels L) + length (enc_rights rs))%nat) by (unfold input; apply app_length).
  set (a := length (lv_outs 0 [] L)) in *. set (b := length (rights_outs (b_off st1) T1 stk1 rs)) in *.
  replace (4 * length input + 64)%nat with (a + (b + (4 * length input + 64 - a - b)))%nat by lia.
  rewrite Hrun1. unfold rcat. cbn [snd].
  rewrite (kparse_rights c Hstrict Hnb He rs ids1 st1 T1 stk1 Hr Hpre1 Hd1 B1). rewrite B2. reflexivity.
Qed.

(* ------------------------------------------------------------------ the start hypothesis of a damaged document *)
Lemma dstart_k_mono c (K K' : Prop) : (K -> K') -> forall l, dstart_k c l K -> dstart_k c l K'.
Proof.
  intros HK. induction l as [|t l IH]; intros H; [apply HK, H|]. cbn [dstart_k] in *.
  destruct H as [H|[H1 H2]]; [left; exact H|right; split; [exact H1|apply IH, H2]].
Qed.

Lemma lstart_mono c (K K' : Prop) : (K -> K') -> forall L, lstart c L K -> lstart c L K'.
Proof.
  intros HK. induction L as [|lv L IH]; intros H; [apply HK, H|]. cbn [lstart] in *.
  eapply dstart_k_mono; [|exact H]. intros [H1|[H1 H2]]; [left; exact H1|right; split; [exact H1|apply IH, H2]].
Qed.

Lemma dstart_k_app c (K : Prop) : forall a b, dstart_k c a (dstart_k c b K) -> dstart_k c (a ++ b) K.
Proof.
  induction a as [|t a IH]; intros b H; [exact H|]. cbn [app dstart_k] in *.
  destruct H as [H|[H1 H2]]; [left; exact H|right; split; [exact H1|apply IH, H2]].
Qed.

(* in reading order an element declared with a placeholder-free path is read BEFORE the junk, and the first such element
   is a root element: the position in the document is determined when the reader meets the junk *)
Definition jstart (c : cfg) (d : ddoc) : Prop := lstart c (d_levels d) (dstart_k c (d_f1 d) False).

Lemma jstart_zstart c d : jstart c d -> zstart c (undamaged d).
Proof.
  unfold jstart, zstart, undamaged. cbn [z_levels z_rights rs_start]. apply lstart_mono. intros H.
  apply dstart_k_app. eapply dstart_k_mono; [|exact H]. intros F. contradiction F.
Qed.

(* the usual case: the very first element of the document is a root element (and it stands before the junk) *)
Definition ddoc_first_id (d : ddoc) : option N :=
  match d_levels d with
  | lv :: _ => match lv_f lv with t :: _ => Some (rid t) | [] => Some (lv_id lv) end
  | [] => match d_f1 d with t :: _ => Some (rid t) | [] => None end
  end.

Lemma ddoc_root_start c d :
  match ddoc_first_id d with Some id => get_path (c_sp c) id = [] | None => False end -> jstart c d.
Proof.
  destruct d as [L f1 jk x f2 rs]. unfold ddoc_first_id, jstart. cbn [d_levels d_f1].
  destruct L as [|lv L].
  - cbn [lstart]. destruct f1 as [|t f1]; [intros F; contradiction F|]. intros H. cbn [dstart_k]. left. exact H.
  - cbn [lstart]. destruct (lv_f lv) as [|t g]; intros H; cbn [dstart_k]; left; exact H.
Qed.

Lemma kpre_k1 st T stk ids total : kpre st T stk ids total -> 0 < total -> exhausted_count (b_off st) (T ++ stk) = length T.
Proof.
  intros [_ _ _ _ Hpend _ Hroom] Hpos.
  pose proof (room_not_exhausted _ _ _ (kroom_room _ _ Hroom) Hpos) as Hne.
  rewrite (exh_app _ T stk (exh_none _ stk Hne)). apply exh_all, Hpend.
Qed.

(* ------------------------------------------------------------------ C14 for known-size documents: junk between two tags *)
Theorem damaged_run_known c d : strict c -> c_buffered c = [] -> c_emit_eof c = true -> kconf_zdoc c (undamaged d) -> jstart c d ->
  d_junk d <> [] -> wf_bytes (d_junk d) ->
  room (d_stk d) (d_off2 d + N.of_nat (length (d_junk d)) + tlen (d_x d)) ->
  junk_from c (junk_state d) (length (d_junk d) - 1) ->
  exists e0, p_run c (enc_ddoc d) [RAll; RRecover; RAll] = out_ddoc d e0.
Proof.
  intros Hstrict Hnb He [HL Hr] Hst Hjk Hwj Hfits Hjunk.
  unfold jstart, junk_state, out_ddoc, d_k1, d_pend, d_stk, d_off2, enc_ddoc in *.
  destruct d as [L f1 jk x f2 rs']. cbn [d_levels d_f1 d_junk d_x d_f2 d_rights undamaged z_levels z_rights hd] in *.
  set (rs2 := (x :: f2) :: rs') in *.
  set (input := enc_levels L ++ enc_forest f1 ++ jk ++ enc_rights rs2) in *. set (st0 := p_init input).
  set (T1 := lv_T 0 [] L) in *. set (stk1 := lv_stk 0 [] L) in *. set (ids1 := lv_ids [] L) in *.
  set (off1 := levels_len L) in *. set (j := length jk) in *.
  destruct (krights_ok_unprepend c ids1 off1 stk1 f1 (x :: f2) rs' Hr) as [Hf1 Hr2]. fold rs2 in Hr2.
  pose proof (kwf_rights c rs2 _ _ _ Hr2) as Hwr2.
  assert (Hw1 : wf_bytes (enc_forest f1 ++ jk ++ enc_rights rs2)).
  { apply wf_app; [apply (kconf_wf_forest c ids1 f1 Hf1)|apply wf_app; assumption]. }
  destruct (kdescend c Hstrict Hnb L [] st0 [] [] _ _ _ HL (init_kpre input _) (or_intror Hst) eq_refl Hw1) as [st1 [Hpre1 [B1 [B2 [B3 [Hd1 Hrun1]]]]]].
  change (b_off st0) with 0 in *. rewrite N.add_0_l in B2. fold T1 stk1 ids1 off1 in Hpre1, Hrun1, B2.
  (* the trees in front of the junk *)
  assert (HP : Forall (KPtree c) f1) by (apply Forall_forall; intros t _; apply kparse_tree; assumption).
  assert (Hle : flen f1 <= flen (f1 ++ x :: f2)) by (rewrite flen_app; lia).
  assert (Hpre1' : kpre st1 T1 stk1 ids1 (flen f1)) by (eapply kpre_weaken; [exact Hle|exact Hpre1]).
  assert (Hw2 : wf_bytes (jk ++ enc_rights rs2)) by (apply wf_app; assumption).
  assert (Hds1 : b_det st1 = true \/ dstart c f1).
  { destruct Hd1 as [Hd|Hd]; [left; exact Hd|right; apply (dstart_k_dstart c _ f1 Hd)]. }
  destruct (kparse_forest c f1 HP ids1 Hf1 st1 T1 stk1 _ Hpre1' Hds1 B1 Hw2) as [st2 [Hat2 [Hd2 Hrun2]]].
  rewrite B2 in Hat2, Hrun2.
  assert (Hat2' : at_ st2 (b_bytes st2) (b_off st1 + flen f1) (pend_after (b_off st1) f1 T1 ++ stk1) (b_fuel st1)).
  { rewrite B2. destruct Hat2 as [A1 [A2 [A3 [A4 [A5 A6]]]]]. repeat split; assumption. }
  pose proof (kpre_after_forest c st1 st2 T1 stk1 ids1 _ f1 Hpre1 Hf1 Hle Hat2') as Hpre2. rewrite B2 in Hpre2.
  destruct Hat2 as [A1 [A2 [A3 [A4 [A5 A6]]]]].
  set (Pend := pend_after off1 f1 T1) in *.
  assert (Hdet2 : b_det st2 = true).
  { rewrite Hd2. destruct Hd1 as [Hd|Hd]; [rewrite Hd; reflexivity|].
    destruct (dstart_k_after c _ f1 Hd) as [Hg|F]; [rewrite Hg; apply Bool.orb_true_r|contradiction F]. }
  assert (Hpre2' : kpre st2 Pend stk1 ids1 (N.of_nat j + tlen x)).
  { eapply kpre_retotal; [exact Hpre2|]. rewrite A2, N.add_assoc. exact Hfits. }
  pose proof Hr2 as Hr2'. apply krights_ok_cons in Hr2'. destruct Hr2' as [Hcx [Hroom2 _]].
  assert (Hconfx : kconf c ids1 x) by (apply Forall_cons_iff in Hcx; destruct Hcx as [Hcx _]; exact Hcx).
  assert (Hpos : 0 < N.of_nat j + tlen x) by (pose proof (kconf_wf c x ids1 Hconfx) as [_ H2]; lia).
  (* every pending master is exhausted at the junk *)
  assert (Hk1e : exhausted_count (b_off st2) (Pend ++ stk1) = length Pend) by (apply (kpre_k1 st2 Pend stk1 ids1 _ Hpre2' Hpos)).
  assert (Hk1d : exhausted_count (off1 + flen f1) (Pend ++ stk1) = length Pend) by (rewrite <- A2; exact Hk1e).
  rewrite Hk1d in Hjunk |- *. rewrite firstn_all, skipn_all.
  (* the junk, judged in the reader's state *)
  assert (Hjunk2 : junk_from c (ppop_frames st2 (exhausted_count (b_off st2) (Pend ++ stk1))) (j - 1)).
  { eapply junk_from_same; [exact Hjunk|]. rewrite Hk1e. unfold same_parse, ppop_frames, ppush_q, pset_queue, pset_stack.
    cbn [b_bytes b_off b_stack b_det b_bad b_fuel]. rewrite A1, A2, A3, A5, A6, B3, Hdet2. repeat split. }
  assert (Hb2 : b_bytes st2 = jk ++ enc_tree x ++ (enc_forest f2 ++ enc_rights rs')).
  { rewrite A1. unfold rs2. cbn [enc_rights enc_forest]. rewrite <- !app_assoc. reflexivity. }
  assert (Hwrest : wf_bytes (enc_forest f2 ++ enc_rights rs')).
  { unfold rs2 in Hwr2. cbn [enc_rights enc_forest] in Hwr2. rewrite <- app_assoc in Hwr2. unfold wf_bytes in *. rewrite Forall_app in Hwr2. tauto. }
  assert (Hin : length input = (length (enc_levels L) + (length (enc_forest f1) + (j + length (enc_rights rs2))))%nat)
    by (unfold input, j; rewrite !app_length; reflexivity).
  assert (Hfuel : (j <= b_fuel st2)%nat) by (rewrite A6, B3; unfold st0, p_init, default_fuel; cbn [b_fuel]; lia).
  (* counting *)
  pose proof (klv_len c L [] 0 [] [] _ HL) as Hc1. cbn [length] in Hc1. fold T1 stk1 in Hc1.
  pose proof (kouts_pend_len c ids1 f1 off1 T1 Hf1) as Hc2. fold Pend in Hc2.
  set (k1 := length Pend) in *.
  set (a := length (lv_outs 0 [] L)) in *. set (b := length (outs_forest off1 f1 T1)) in *.
  set (n1 := (4 * length input + 64 - a - b - k1 - 1)%nat).
  destruct (krecover_step c st2 Pend stk1 ids1 _ jk x _ Hstrict Hnb Hpre2' Hdet2 Hb2 Hjk Hwrest Hconfx (N.le_refl _) Hfuel Hjunk2) as [_ Hrec].
  cbn zeta in Hrec. rewrite Hk1e in Hrec.
  destruct (Hrec n1) as [e0 [Sr [R1 [R2 [R3 [R4 [R5 [R6 [R7 R8]]]]]]]]].
  exists e0. unfold p_run. fold input. fold st0.
  (* the first drain *)
  assert (Hlim : (4 * length input + 64 = a + (b + (k1 + S n1)))%nat) by (unfold n1; lia).
  assert (Hrun12 : p_run_all (4 * length input + 64) c st0 =
                   (fst (p_run_all (k1 + S n1) c st2),
                    lv_outs 0 [] L ++ outs_forest off1 f1 T1 ++ map end_out Pend ++ [OErr e0])).
  { rewrite Hlim, Hrun1, Hrun2. unfold rcat. cbn [fst snd]. rewrite R1. reflexivity. }
  (* the second drain *)
  assert (Hr3 : krights_ok c ids1 (b_off Sr) (grow_frames (N.of_nat j) stk1) rs2).
  { rewrite R6, A2. apply krights_ok_shift. exact Hr2. }
  assert (Hpre3 : kpre Sr [] (grow_frames (N.of_nat j) stk1) ids1 (flen (hd [] rs2))).
  { eapply kpre_retotal; [exact R4|]. apply krights_ok_cons in Hr3. destruct Hr3 as [_ [H3 _]]. apply kroom_room, H3. }
  assert (Hb3 : b_bytes Sr = enc_rights rs2).
  { rewrite R5. unfold rs2. cbn [enc_rights enc_forest]. rewrite <- !app_assoc. reflexivity. }
  pose proof (krights_outs_len c rs2 ids1 (b_off Sr) [] (grow_frames (N.of_nat j) stk1) Hr3) as Hc3.
  rewrite grow_length in Hc3. cbn [length] in Hc3.
  set (b2 := length (rights_outs (b_off Sr) [] (grow_frames (N.of_nat j) stk1) rs2)) in *.
  pose proof (kparse_rights c Hstrict Hnb He rs2 ids1 Sr _ _ Hr3 Hpre3 (or_introl R8) Hb3 (4 * length input + 64 - b2)) as Hrun3. fold b2 in Hrun3.
  replace (b2 + (4 * length input + 64 - b2))%nat with (4 * length input + 64)%nat in Hrun3 by lia.
  destruct R4 as [_ _ Rbad _ _ _ _].
  rewrite (run_ops_3 c _ st0 _ _ Sr _ Hrun12 R2 R3 Rbad Hrun3). rewrite R6, A2. rewrite <- !app_assoc. reflexivity.
Qed.

(* recovery loses nothing: apart from the one error and the successful recovery, the damaged document reads as the same tag
   sequence as the undamaged one *)
Theorem recovery_loses_nothing_known c d : strict c -> c_buffered c = [] -> c_emit_eof c = true -> kconf_zdoc c (undamaged d) ->
  jstart c d -> d_junk d <> [] -> wf_bytes (d_junk d) ->
  room (d_stk d) (d_off2 d + N.of_nat (length (d_junk d)) + tlen (d_x d)) ->
  junk_from c (junk_state d) (length (d_junk d) - 1) ->
  out_tags (p_run c (enc_ddoc d) [RAll; RRecover; RAll]) = out_tags (p_run c (enc_zdoc (undamaged d)) [RAll]).
Proof.
  intros Hstrict Hnb He Hz Hst Hjk Hwj Hfits Hjunk.
  destruct (damaged_run_known c d Hstrict Hnb He Hz Hst Hjk Hwj Hfits Hjunk) as [e0 Hd]. rewrite Hd.
  rewrite (zipper_run_known c (undamaged d) Hstrict Hnb He Hz (jstart_zstart c d Hst)). destruct Hz as [_ Hr].
  unfold out_ddoc, out_zdoc, d_k1, d_pend, d_stk, d_off2, undamaged in *. cbn [z_levels z_rights] in *.
  destruct d as [L f1 jk x f2 rs']. cbn [d_levels d_f1 d_junk d_x d_f2 d_rights] in *.
  set (T1 := lv_T 0 [] L) in *. set (stk1 := lv_stk 0 [] L) in *. set (off1 := levels_len L) in *.
  set (Pend := pend_after off1 f1 T1). set (k1 := exhausted_count (off1 + flen f1) (Pend ++ stk1)).
  pose proof (krights_len c _ _ _ _ Hr) as Hlen. cbn [length] in Hlen.
  rewrite !out_tags_app, out_tags_ends. cbn [out_tags flat_map app].
  rewrite !(rights_tags _ _ _ _) by (cbn [length]; rewrite ?grow_length; exact Hlen).
  rewrite rtags_grow. cbn [rtags]. rewrite tags_forest_app. f_equal.
  rewrite <- !app_assoc. rewrite (app_assoc (ends_of (firstn k1 Pend))), <- ends_of_app, firstn_skipn.
  rewrite (app_assoc (out_tags _)). unfold Pend. rewrite forest_tags, <- !app_assoc. reflexivity.
Qed.

(* ------------------------------------------------------------------ the [junk_run] forms: a header check fails at the junk's
   first byte and at each later junk position *)
Theorem damaged_run_known' c d : strict c -> c_buffered c = [] -> c_emit_eof c = true -> kconf_zdoc c (undamaged d) -> jstart c d ->
  d_junk d <> [] -> wf_bytes (d_junk d) ->
  room (d_stk d) (d_off2 d + N.of_nat (length (d_junk d)) + tlen (d_x d)) ->
  junk_run c (junk_state d) (length (d_junk d)) ->
  exists e0, p_run c (enc_ddoc d) [RAll; RRecover; RAll] = out_ddoc d e0.
Proof. intros H1 H2 H3 H4 H5 H6 H7 H8 [H9 H10]. apply damaged_run_known; try assumption. apply junk_from_intro; assumption. Qed.

Theorem recovery_loses_nothing_known' c d : strict c -> c_buffered c = [] -> c_emit_eof c = true -> kconf_zdoc c (undamaged d) ->
  jstart c d -> d_junk d <> [] -> wf_bytes (d_junk d) ->
  room (d_stk d) (d_off2 d + N.of_nat (length (d_junk d)) + tlen (d_x d)) ->
  junk_run c (junk_state d) (length (d_junk d)) ->
  out_tags (p_run c (enc_ddoc d) [RAll; RRecover; RAll]) = out_tags (p_run c (enc_zdoc (undamaged d)) [RAll]).
Proof. intros H1 H2 H3 H4 H5 H6 H7 H8 [H9 H10]. apply recovery_loses_nothing_known; try assumption. apply junk_from_intro; assumption. Qed.
