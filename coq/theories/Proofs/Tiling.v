(* C03 at the level of whole runs (nothing buffered, any tolerance settings).
   (1) Tiling: the non-End items a run yields up to its first error (or try_recover call) tile a prefix of the input: the first
       one starts at offset 0, each next one starts exactly where the previous one's header (masters) or header ++ payload
       (other elements) ends, and each segment is the byte string Proofs/PureProofs.p_read_tag_mirrors describes: the id
       decoded at its start is the item's id, a master's payload part is empty, an element's value is the documented decoding
       of the payload part.  No input byte is skipped or read twice.
   (2) End offsets: in every run (all operations, errors and recoveries included) each End item carries the offset of the
       Start item it closes; the Ends that close implied ancestors of a mid-document start carry offset 0.  The judgement is an
       independent checker [chk_off] over (tag, offset) pairs with a stack of (id, offset) pairs.
   (3) With buffered masters: the items with every Full item unrolled (Start and End at the offset of the Full item,
       Proofs/BufferSim.Unr) satisfy (1) and (2). *)
From Ebml Require Import Base Tools Spec Reader Pure Proofs.Tactics Proofs.ReaderIO Proofs.Refine Proofs.PureProofs
  Proofs.VintProofs Proofs.RollUp Proofs.Nesting Proofs.BufferSim.

Arguments vint_len : simpl never.
Arguments read_vint : simpl never.

(* ------------------------------------------------------------------ one segment *)
(* the element id found at the start of a byte string, with its length (what p_tag_id computes from the remaining input) *)
Definition dec_id (bytes : list N) : option (N * nat) :=
  match bytes with
  | [] => None
  | b0 :: _ =>
      if b0 =? 0 then Some (0, 1%nat) else
      let len := vint_len b0 in
      if N.of_nat (length bytes) <? N.of_nat len then None else Some (from_be (firstn len bytes), len)
  end.

Lemma p_tag_id_dec st id idl : p_tag_id st = Ok (id, idl) -> dec_id (b_bytes st) = Some (id, idl).
Proof.
  unfold p_tag_id, dec_id, blen. destruct (b_bytes st) as [|b0 tl]; [discriminate|].
  destruct (b0 =? 0); [intros H; inversion H; reflexivity|].
  destruct (_ <? _); [discriminate|]. intros H; inversion H; reflexivity.
Qed.

(* [mirrors sp t seg rest]: the segment [seg] (followed in the input by [rest]) is the encoding the item [t] mirrors: it is a
   header followed by a payload part; the header is the element id (the id of [t], [idl] bytes) followed by the size
   field ([sl] bytes, announcing [size]); for a master the payload part is empty (the children follow in [rest]); for any
   other element the payload part has the announced size and the value is its documented decoding for the declared type.
   Only Start and element items have a segment. *)
Definition mirrors (sp : spec) (t : tag) (seg rest : list N) : Prop :=
  exists idl size sl hdr payload,
    seg = hdr ++ payload /\ dec_id (seg ++ rest) = Some (tag_id t, idl) /\
    read_vint (firstn 8 (skipn idl (seg ++ rest))) = Ok (Some (size, sl)) /\ length hdr = (idl + sl)%nat /\
    match t with
    | TStart id => get_type sp id = Some DMaster /\ payload = []
    | TElem id v => get_type sp id <> Some DMaster /\ size = N.of_nat (length payload) /\ decodes (get_type sp id) payload v
    | _ => False
    end.

(* what the header of a successfully read tag is made of *)
Lemma p_tag_tail_size c st ts id ty esz hl st' p : p_tag_tail c st ts (id, ty, esz, hl) = (st', Ok p) ->
  p_size p = esz /\ p_data p = b_off st + N.of_nat hl.
Proof.
  unfold p_tag_tail.
  destruct ty as [[]|]; try (intros H; inversion H; split; reflexivity);
    (destruct esz as [size|]; [|discriminate]); (destruct (_ <? size); [discriminate|]);
    try (destruct (arr_to_u64 _); try discriminate); try (destruct (arr_to_i64 _); try discriminate);
    try (destruct (arr_to_f64 _); try discriminate); try (destruct (utf8_valid _); try discriminate);
    intros H; inversion H; split; reflexivity.
Qed.

Lemma p_read_tag_header c st st' p : p_read_tag c st = (st', Ok p) ->
  exists idl size sl, p_tag_id st = Ok (tag_id (p_tag p), idl) /\
    read_vint (firstn 8 (skipn idl (b_bytes st))) = Ok (Some (size, sl)) /\
    p_data p = b_off st + N.of_nat (idl + sl) /\ p_size p = ebml_size size sl.
Proof.
  rewrite p_read_tag_unfold. destruct (p_header c st) as [st1 [[[[id ty] esz] hl]|e0|]] eqn:Eh; try discriminate.
  destruct (p_header_ok_facts _ _ _ _ _ _ _ Eh) as [_ [Ho [_ [idl [size [sl [Et [Ev [Hhl [Hesz _]]]]]]]]]].
  intros Ht. destruct (p_tag_tail_facts _ _ _ _ _ _ _ _ _ Ht) as [_ [_ [_ D]]]. destruct (D p eq_refl) as [Hid _].
  destruct (p_tag_tail_size _ _ _ _ _ _ _ _ _ Ht) as [Hsz Hd].
  exists idl, size, sl. rewrite Hid. split; [exact Et|]. split; [exact Ev|]. split; [rewrite Hd, Ho, Hhl; reflexivity|].
  rewrite Hsz. exact Hesz.
Qed.

(* the per-tag theorem, repackaged: a successful read consumes exactly one segment that the item mirrors *)
Lemma p_read_tag_tiles c st st' p : p_read_tag c st = (st', Ok p) ->
  exists seg, b_bytes st = seg ++ b_bytes st' /\ b_off st' = b_off st + N.of_nat (length seg) /\
              p_start p = b_off st /\ mirrors (c_sp c) (p_tag p) seg (b_bytes st').
Proof.
  intros H. destruct (p_read_tag_mirrors _ _ _ _ H) as [Hs [idl [hl [payload [Hid [Hle [Hb [Hlen [Hd [Ho Hm]]]]]]]]]].
  destruct (p_read_tag_header _ _ _ _ H) as [idl' [size [sl [Hid' [Hv [Hd' Hsz]]]]]].
  rewrite Hid in Hid'. injection Hid' as <-.
  assert (Hhl : hl = (idl + sl)%nat) by lia.
  exists (firstn hl (b_bytes st) ++ payload).
  split; [rewrite <- app_assoc; exact Hb|]. split; [rewrite app_length, Hlen; lia|]. split; [exact Hs|].
  exists idl, size, sl, (firstn hl (b_bytes st)), payload. split; [reflexivity|].
  split; [rewrite <- app_assoc, <- Hb; apply p_tag_id_dec, Hid|].
  split; [rewrite <- app_assoc, <- Hb; exact Hv|]. split; [rewrite Hlen; exact Hhl|].
  destruct (p_tag p); try exact Hm. destruct Hm as [A [B C]]. split; [exact A|]. split; [|exact B].
  rewrite Hsz in C. unfold ebml_size in C. destruct (size =? _); [discriminate|]. injection C as C. exact C.
Qed.

(* on byte input a segment is not empty and the id can be decoded from the segment alone *)
Lemma mirrors_local sp t seg rest : mirrors sp t seg rest -> wf_bytes (seg ++ rest) ->
  (1 <= length seg)%nat /\ exists idl, dec_id seg = Some (tag_id t, idl) /\ (1 <= idl <= length seg)%nat.
Proof.
  intros [idl [size [sl [hdr [payload [Hseg [Hd [_ [Hle _]]]]]]]]] Hwf.
  assert (Hls : (idl <= length seg)%nat) by (rewrite Hseg, app_length; lia).
  assert (Hpos : (1 <= idl)%nat).
  { revert Hd. unfold dec_id. destruct (seg ++ rest) as [|b0 tl]; [discriminate|].
    apply Forall_cons_iff in Hwf. destruct Hwf as [Hb0 _].
    destruct (N.eqb_spec b0 0) as [E|E]; [intros Hq; inversion Hq; lia|].
    destruct (_ <? _); [discriminate|]. intros Hq; inversion Hq. apply vint_len_range. lia. }
  split; [lia|]. exists idl. split; [|lia].
  destruct seg as [|b0 seg']; [cbn [length] in Hls; lia|].
  revert Hd. cbn [app]. unfold dec_id. destruct (b0 =? 0); [auto|]. cbv zeta.
  destruct (N.ltb_spec (N.of_nat (length (b0 :: seg' ++ rest))) (N.of_nat (vint_len b0))) as [|Hge]; [discriminate|].
  intros Hq. inversion Hq as [[Hid Hl]]. rewrite Hl in *.
  destruct (N.ltb_spec (N.of_nat (length (b0 :: seg'))) (N.of_nat idl)) as [Hlt|_]; [lia|].
  change (b0 :: seg' ++ rest) with ((b0 :: seg') ++ rest). rewrite firstn_app.
  replace (idl - length (b0 :: seg'))%nat with O by lia. cbn [firstn]. rewrite app_nil_r. reflexivity.
Qed.

(* ------------------------------------------------------------------ tilings *)
(* [Tiles sp off bytes items off' rest]: [bytes] sits at absolute offset [off]; the items, in order, each with the offset it
   reports, tile a prefix of [bytes]; the tiling ends at offset [off'] with [rest] left *)
Inductive Tiles (sp : spec) : N -> list N -> list (tag * N) -> N -> list N -> Prop :=
| Tiles_nil off bytes : Tiles sp off bytes [] off bytes
| Tiles_cons off bytes seg rest t items off' rest' :
    bytes = seg ++ rest -> mirrors sp t seg rest ->
    Tiles sp (off + N.of_nat (length seg)) rest items off' rest' ->
    Tiles sp off bytes ((t, off) :: items) off' rest'.

Definition Tiled (sp : spec) (off : N) (bytes : list N) (items : list (tag * N)) : Prop :=
  exists off' rest, Tiles sp off bytes items off' rest.

Lemma Tiles_snoc sp off bytes items off' rest' : Tiles sp off bytes items off' rest' ->
  forall seg rest'' t, rest' = seg ++ rest'' -> mirrors sp t seg rest'' ->
  Tiles sp off bytes (items ++ [(t, off')]) (off' + N.of_nat (length seg)) rest''.
Proof.
  induction 1 as [off bytes|off bytes seg0 rest0 t0 items off' rest' Hb Hm _ IH]; intros seg rest'' t Hr Hmt; cbn [app].
  - eapply Tiles_cons; [exact Hr|exact Hmt|apply Tiles_nil].
  - eapply Tiles_cons; [exact Hb|exact Hm|apply IH; assumption].
Qed.

Lemma Tiled_prefix sp : forall a b off bytes, Tiled sp off bytes (a ++ b) -> Tiled sp off bytes a.
Proof.
  induction a as [|x a IH]; intros b off bytes [off' [rest H]].
  - exists off, bytes. apply Tiles_nil.
  - cbn [app] in H. inversion H as [|? ? seg rest0 t items ? ? Hb Hm HT]; subst.
    destruct (IH b _ _ (ex_intro _ _ (ex_intro _ _ HT))) as [o [r Ha]].
    exists o, r. eapply Tiles_cons; [reflexivity|exact Hm|exact Ha].
Qed.

(* the same, spelled out: segments seg_1 .. seg_n with input = seg_1 ++ .. ++ seg_n ++ rest; the k-th item reports the offset
   off + |seg_1| + .. + |seg_(k-1)| and mirrors seg_k *)
Fixpoint offsets (off : N) (segs : list (list N)) : list N :=
  match segs with [] => [] | s :: r => off :: offsets (off + N.of_nat (length s)) r end.

Fixpoint seg_mirror (sp : spec) (items : list (tag * N)) (segs : list (list N)) (rest : list N) : Prop :=
  match items, segs with
  | [], [] => True
  | it :: items', seg :: segs' => mirrors sp (fst it) seg (concat segs' ++ rest) /\ seg_mirror sp items' segs' rest
  | _, _ => False
  end.

Lemma Tiles_explicit sp off bytes items off' rest : Tiles sp off bytes items off' rest ->
  exists segs, bytes = concat segs ++ rest /\ map snd items = offsets off segs /\
               off' = off + N.of_nat (length (concat segs)) /\ seg_mirror sp items segs rest.
Proof.
  induction 1 as [off bytes|off bytes seg rest0 t items off' rest' Hb Hm _ [segs [E1 [E2 [E3 E4]]]]].
  - exists []. cbn. split; [reflexivity|]. split; [reflexivity|]. split; [lia|exact I].
  - exists (seg :: segs). cbn [concat map snd offsets seg_mirror fst].
    split; [rewrite <- app_assoc, <- E1; exact Hb|]. split; [rewrite E2; reflexivity|].
    split; [rewrite app_length, E3; lia|]. split; [rewrite <- E1; exact Hm|exact E4].
Qed.

(* ------------------------------------------------------------------ the invariant *)
(* the non-End successful items of a queue, with their offsets *)
Definition ne_q (q : list qitem) : list (tag * N) :=
  flat_map (fun x => match x with QOk (TEnd _) _ => [] | QOk t o => [(t, o)] | QErr _ => [] end) q.

Lemma ne_q_app a b : ne_q (a ++ b) = ne_q a ++ ne_q b.
Proof. unfold ne_q. apply flat_map_app. Qed.

Lemma ne_q_ends l : ne_q (map end_item l) = [].
Proof. induction l as [|f l IH]; [reflexivity|exact IH]. Qed.

(* [em]: the non-End items handed out so far.  Together with the non-End items still queued they tile the input; unless an
   error is queued (or a panic site / the recursion budget was hit) the tiling ends exactly at the cursor. *)
Definition TI (sp : spec) (input : list N) (em : list (tag * N)) (st : pst) : Prop :=
  exists off rest, Tiles sp 0 input (em ++ ne_q (b_queue st)) off rest /\
    (b_bad st = None -> okq (b_queue st) -> off = b_off st /\ rest = b_bytes st).

Lemma TI_tiled sp input em st : TI sp input em st -> Tiled sp 0 input em.
Proof. intros [off [rest [H _]]]. eapply Tiled_prefix. exists off, rest. exact H. Qed.

Lemma TI_pop sp input em st k : TI sp input em st -> TI sp input em (ppop_frames st k).
Proof.
  intros [off [rest [H Hc]]]. exists off, rest. unfold ppop_frames, ppush_q. cbn [pset_queue pset_stack b_queue b_bad b_off b_bytes].
  split; [rewrite ne_q_app, ne_q_ends, app_nil_r; exact H|].
  intros Hb Ho. apply okq_app in Ho. apply Hc; [exact Hb|apply Ho].
Qed.

(* an error item at the end of the queue, or a bad state: only the tiling of the items remains *)
Lemma TI_push_err sp input em st st' e : b_queue st' = b_queue st ++ [QErr e] -> TI sp input em st -> TI sp input em st'.
Proof.
  intros Hq [off [rest [H _]]]. exists off, rest. rewrite Hq, ne_q_app. cbn [ne_q flat_map app]. rewrite app_nil_r.
  split; [exact H|]. intros _ Ho. apply okq_app in Ho. destruct Ho as [_ Ho]. inversion Ho; discriminate.
Qed.

Lemma TI_bad sp input em st st' : b_queue st' = b_queue st -> b_bad st' <> None -> TI sp input em st -> TI sp input em st'.
Proof. intros Hq Hb [off [rest [H _]]]. exists off, rest. rewrite Hq. split; [exact H|]. intros Hn. contradiction. Qed.

Lemma pset_bad_bad st b : b_bad (pset_bad st b) <> None.
Proof. cbn [pset_bad b_bad]. destruct (b_bad st); discriminate. Qed.

(* a tag read at the cursor and queued behind some End items *)
Lemma TI_item sp input em st1 st3 seg t ends :
  TI sp input em st1 -> b_bad st1 = None -> okq (b_queue st1) ->
  b_bytes st1 = seg ++ b_bytes st3 -> b_off st3 = b_off st1 + N.of_nat (length seg) -> mirrors sp t seg (b_bytes st3) ->
  b_queue st3 = b_queue st1 ++ map end_item ends ++ [QOk t (b_off st1)] ->
  TI sp input em st3.
Proof.
  intros [off [rest [H Hc]]] Hb Ho Hbytes Hoff Hm Hq. destruct (Hc Hb Ho) as [-> ->].
  exists (b_off st3), (b_bytes st3). split; [|intros _ _; split; reflexivity].
  rewrite Hq, !ne_q_app, ne_q_ends. cbn [app].
  assert (Ht : ne_q [QOk t (b_off st1)] = [(t, b_off st1)]).
  { destruct Hm as [idl [size [sl [hdr [payload [_ [_ [_ [_ F]]]]]]]]]. destruct t; try contradiction; reflexivity. }
  rewrite Ht, app_assoc, Hoff. eapply Tiles_snoc; [exact H|exact Hbytes|exact Hm].
Qed.

(* ------------------------------------------------------------------ read_next / next *)
Lemma p_read_next_T c input em : c_buffered c = [] -> forall fuel st,
  TI (c_sp c) input em st -> b_bad st = None -> okq (b_queue st) -> TI (c_sp c) input em (p_read_next fuel c st).
Proof.
  intros Hbuf. destruct fuel as [|f]; intros st HT Hb Ho.
  - cbn [p_read_next]. apply (TI_bad _ _ _ st); [reflexivity|apply pset_bad_bad|exact HT].
  - rewrite p_read_next_unfold. cbn zeta.
    set (k1 := exhausted_count (b_off st) (b_stack st)). set (st1 := ppop_frames st k1).
    assert (H1 : TI (c_sp c) input em st1) by (apply TI_pop, HT).
    assert (Hb1 : b_bad st1 = None) by exact Hb.
    assert (Ho1 : okq (b_queue st1)).
    { unfold st1, ppop_frames, ppush_q. cbn [pset_queue b_queue]. apply okq_app. split; [exact Ho|apply okq_ends]. }
    unfold p_read_tag_checked. destruct (b_bytes st1) eqn:Eb.
    + destruct (c_emit_eof c); [apply TI_pop, H1|exact H1].
    + pose proof (p_read_tag_queue c st1) as Hq.
      destruct (p_read_tag c st1) as [st2 r2] eqn:Er. cbn [fst] in Hq.
      destruct r2 as [p|e|].
      * destruct (p_read_tag_tiles _ _ _ _ Er) as [seg [Hbytes [Hoff [Hstart Hm]]]].
        set (k2 := count_ended (c_sp c) (tag_id (p_tag p)) (stack_view (b_stack st2))).
        assert (Fin : forall st3, b_bytes st3 = b_bytes st2 -> b_off st3 = b_off st2 ->
                  b_queue st3 = b_queue st1 ++ map end_item (firstn k2 (b_stack st2)) ++ [QOk (p_tag p) (b_off st1)] ->
                  TI (c_sp c) input em st3).
        { intros st3 A B C. eapply (TI_item _ _ _ st1 st3 seg (p_tag p)); try eassumption.
          - rewrite A. exact Hbytes.
          - rewrite B. exact Hoff.
          - rewrite A. exact Hm. }
        rewrite Hstart.
        destruct (p_tag p) as [id v|id|id|id cs] eqn:Ep;
          try (apply Fin; [reflexivity|reflexivity|cbn [ppush_q ppop_frames pset_queue pset_stack b_queue]; rewrite Hq, <- app_assoc; reflexivity]).
        rewrite Hbuf. cbn [mem_id existsb].
        apply Fin; [reflexivity|reflexivity|cbn [ppush_q ppop_frames pset_queue pset_stack b_queue]; rewrite Hq, <- app_assoc; reflexivity].
      * apply (TI_push_err _ _ _ st1 _ e); [|exact H1]. cbn [ppush_q pset_queue b_queue]. rewrite Hq. reflexivity.
      * apply (TI_bad _ _ _ st1); [|apply pset_bad_bad|exact H1]. cbn [pset_bad b_queue]. exact Hq.
Qed.

Lemma p_next_T c input em st : c_buffered c = [] -> TI (c_sp c) input em st -> b_bad st = None ->
  match snd (p_next c st) with
  | NItem t o => TI (c_sp c) input (em ++ ne_q [QOk t o]) (fst (p_next c st))
  | NNone => TI (c_sp c) input em (fst (p_next c st))
  | NErr _ => True
  end.
Proof.
  intros Hbuf HT Hb. unfold p_next.
  assert (H1 : TI (c_sp c) input em (match b_queue st with [] => p_read_next (b_fuel st) c st | _ :: _ => st end)).
  { destruct (b_queue st) eqn:Eq; [|exact HT]. apply p_read_next_T; [exact Hbuf|exact HT|exact Hb|rewrite Eq; constructor]. }
  set (st1 := match b_queue st with [] => _ | _ => _ end) in *.
  destruct H1 as [off [rest [H Hc]]].
  destruct (b_queue st1) as [|[t o|e] q] eqn:Eq; cbn [fst snd].
  - exists off, rest. rewrite Eq. split; [exact H|]. intros A B. apply Hc; [exact A|constructor].
  - exists off, rest. cbn [pset_last pset_queue b_queue b_bad b_off b_bytes]. split.
    + change (QOk t o :: q) with ([QOk t o] ++ q) in H. rewrite ne_q_app, app_assoc in H. exact H.
    + intros A B. apply Hc; [exact A|constructor; [reflexivity|exact B]].
  - exact I.
Qed.

(* ------------------------------------------------------------------ runs *)
(* an outcome after which the reader has neither reported an error nor been asked to skip bytes *)
Definition clean (o : rout) : bool := match o with OItem _ _ | ONone | OLimit => true | _ => false end.

(* the outcomes before the first error, try_recover call, panic site or budget outcome *)
Fixpoint clean_prefix (outs : list rout) : list rout :=
  match outs with [] => [] | o :: r => if clean o then o :: clean_prefix r else [] end.

Lemma clean_prefix_app a b : clean_prefix (a ++ b) = if forallb clean a then a ++ clean_prefix b else clean_prefix a.
Proof.
  induction a as [|o a IH]; [reflexivity|]. cbn [app clean_prefix forallb]. destruct (clean o); [|reflexivity].
  cbn [andb]. rewrite IH. destruct (forallb clean a); reflexivity.
Qed.

Lemma out_items_app a b : out_items (a ++ b) = out_items a ++ out_items b.
Proof. unfold out_items. apply flat_map_app. Qed.

(* the non-End items of a run, with their offsets *)
Definition non_end_items (outs : list rout) : list (tag * N) := ne_q (out_items outs).

Lemma non_end_items_app a b : non_end_items (a ++ b) = non_end_items a ++ non_end_items b.
Proof. unfold non_end_items. rewrite out_items_app. apply ne_q_app. Qed.

Lemma non_end_items_item t o outs : non_end_items (OItem t o :: outs) = ne_q [QOk t o] ++ non_end_items outs.
Proof. apply (non_end_items_app [OItem t o] outs). Qed.

Lemma clean_bad_out b : clean (bad_out b) = false.
Proof. destruct b; reflexivity. Qed.

Section TileRuns.
Variable c : cfg.
Variable input : list N.
Hypothesis Hbuf : c_buffered c = [].

Lemma p_run_all_T : forall limit em st, TI (c_sp c) input em st -> b_bad st = None ->
  Tiled (c_sp c) 0 input (em ++ non_end_items (clean_prefix (snd (p_run_all limit c st)))) /\
  (forallb clean (snd (p_run_all limit c st)) = true -> b_bad (fst (p_run_all limit c st)) = None ->
   TI (c_sp c) input (em ++ non_end_items (snd (p_run_all limit c st))) (fst (p_run_all limit c st))).
Proof.
  induction limit as [|l IH]; intros em st HT Hb; cbn [p_run_all].
  - cbn [fst snd clean_prefix clean non_end_items out_items flat_map ne_q app]. rewrite app_nil_r.
    split; [eapply TI_tiled, HT|intros _ _; exact HT].
  - pose proof (p_next_T c input em st Hbuf HT Hb) as H1. destruct (p_next c st) as [st1 r]. cbn [fst snd] in H1.
    destruct (b_bad st1) as [b|] eqn:Eb.
    { cbn [fst snd clean_prefix forallb]. rewrite clean_bad_out. cbn [non_end_items out_items flat_map ne_q andb]. rewrite app_nil_r.
      split; [eapply TI_tiled, HT|discriminate]. }
    destruct r as [t o|e|].
    + specialize (IH _ _ H1 Eb). destruct (p_run_all l c st1) as [st2 outs]. cbn [fst snd] in *.
      cbn [clean_prefix clean forallb andb]. rewrite !non_end_items_item, !app_assoc. exact IH.
    + cbn [fst snd clean_prefix clean forallb andb non_end_items out_items flat_map ne_q]. rewrite app_nil_r.
      split; [eapply TI_tiled, HT|discriminate].
    + cbn [fst snd clean_prefix clean forallb andb non_end_items out_items flat_map ne_q app]. rewrite app_nil_r.
      split; [eapply TI_tiled, H1|intros _ _; exact H1].
Qed.

Lemma p_run_ops_T limit : forall ops em st, TI (c_sp c) input em st -> b_bad st = None ->
  Tiled (c_sp c) 0 input (em ++ non_end_items (clean_prefix (snd (p_run_ops c limit st ops)))).
Proof.
  induction ops as [|op ops IH]; intros em st HT Hb; cbn [p_run_ops].
  - cbn [snd clean_prefix non_end_items out_items flat_map ne_q]. rewrite app_nil_r. eapply TI_tiled, HT.
  - destruct op.
    + pose proof (p_next_T c input em st Hbuf HT Hb) as H1. destruct (p_next c st) as [st1 r]. cbn [fst snd] in H1.
      destruct (b_bad st1) as [b|] eqn:Eb.
      { cbn [snd clean_prefix]. rewrite clean_bad_out. cbn [non_end_items out_items flat_map ne_q]. rewrite app_nil_r.
        eapply TI_tiled, HT. }
      destruct r as [t o|e|].
      * specialize (IH _ _ H1 Eb). destruct (p_run_ops c limit st1 ops) as [st2 outs]. cbn [snd] in *.
        cbn [clean_prefix clean]. rewrite non_end_items_item, app_assoc. exact IH.
      * destruct (p_run_ops c limit st1 ops) as [st2 outs]. cbn [snd clean_prefix clean non_end_items out_items flat_map ne_q].
        rewrite app_nil_r. eapply TI_tiled, HT.
      * specialize (IH _ _ H1 Eb). destruct (p_run_ops c limit st1 ops) as [st2 outs]. cbn [snd] in *.
        cbn [clean_prefix clean]. exact IH.
    + destruct (p_try_recover c st) as [st1 r]. destruct (b_bad st1) as [b|].
      { cbn [snd clean_prefix]. rewrite clean_bad_out. cbn [non_end_items out_items flat_map ne_q]. rewrite app_nil_r.
        eapply TI_tiled, HT. }
      destruct (p_run_ops c limit st1 ops) as [st2 outs].
      destruct r as [e|]; cbn [snd clean_prefix clean non_end_items out_items flat_map ne_q]; rewrite app_nil_r; eapply TI_tiled, HT.
    + destruct (p_run_all_T limit em st HT Hb) as [Ha Hj]. destruct (p_run_all limit c st) as [st1 outs1]. cbn [fst snd] in *.
      destruct (b_bad st1) eqn:Eb; [exact Ha|].
      specialize (IH (em ++ non_end_items outs1) st1). destruct (p_run_ops c limit st1 ops) as [st2 outs]. cbn [snd] in *.
      rewrite clean_prefix_app. destruct (forallb clean outs1); [|exact Ha].
      rewrite non_end_items_app, app_assoc. apply IH; [apply Hj; reflexivity|exact Eb].
Qed.

End TileRuns.

Lemma TI_init sp input : TI sp input [] (p_init input).
Proof. exists 0, input. cbn. split; [apply Tiles_nil|intros _ _; split; reflexivity]. Qed.

(* C03, tiling: for every input and every sequence of operations, with nothing buffered and any tolerance settings, the
   Start and element items yielded before the first error (or try_recover call) tile a prefix of the input, starting at
   offset 0; no other kind of non-End item occurs among them *)
Theorem run_tiles : forall c input ops, c_buffered c = [] ->
  Tiled (c_sp c) 0 input (non_end_items (clean_prefix (p_run c input ops))).
Proof.
  intros c input ops Hbuf. unfold p_run.
  apply (p_run_ops_T c input Hbuf _ ops [] (p_init input)); [apply TI_init|reflexivity].
Qed.

(* a drain stops at the first outcome that is not an item: all its items come before the first error *)
Lemma clean_prefix_run_all c : forall limit st,
  out_items (clean_prefix (snd (p_run_all limit c st))) = out_items (snd (p_run_all limit c st)).
Proof.
  induction limit as [|l IH]; intros st; cbn [p_run_all]; [reflexivity|].
  destruct (p_next c st) as [st1 r]. destruct (b_bad st1) as [b|]; [destruct b; reflexivity|].
  destruct r as [t o|e|]; [|reflexivity|reflexivity].
  specialize (IH st1). destruct (p_run_all l c st1) as [st2 outs]. cbn [snd] in *.
  cbn [clean_prefix clean]. change (OItem t o :: ?x) with ([OItem t o] ++ x). rewrite !out_items_app, IH. reflexivity.
Qed.

(* C03, tiling of a whole drain: all Start and element items of the run tile the input from offset 0 *)
Theorem run_all_tiles : forall c input, c_buffered c = [] ->
  Tiled (c_sp c) 0 input (non_end_items (p_run c input [RAll])).
Proof.
  intros c input Hbuf. pose proof (run_tiles c input [RAll] Hbuf) as H.
  unfold non_end_items in *. rewrite p_run_RAll in *. rewrite clean_prefix_run_all in H. exact H.
Qed.

(* spelled out: segments whose concatenation is a prefix of the input, one per item, each mirrored by its item, the offsets
   being the running sums of the segment lengths *)
Corollary run_all_tiles_explicit : forall c input, c_buffered c = [] ->
  exists segs rest, input = concat segs ++ rest /\
    map snd (non_end_items (p_run c input [RAll])) = offsets 0 segs /\
    seg_mirror (c_sp c) (non_end_items (p_run c input [RAll])) segs rest.
Proof.
  intros c input Hbuf. destruct (run_all_tiles c input Hbuf) as [off [rest H]].
  destruct (Tiles_explicit _ _ _ _ _ _ H) as [segs [E1 [E2 [_ E4]]]]. exists segs, rest. split; [exact E1|split; assumption].
Qed.

(* ================================================================== End offsets *)
(* ------------------------------------------------------------------ the checker *)
(* [open]: the masters currently open, innermost first, each with the offset its Start item reported.  A Start pushes
   (id, offset); an End must name the innermost open master and report exactly the offset recorded for it; elements leave the
   chain alone; Full items do not occur when nothing is buffered.  Returns the final chain. *)
Fixpoint chk_off (open : list (N * N)) (items : list (tag * N)) : option (list (N * N)) :=
  match items with
  | [] => Some open
  | (TStart id, o) :: rest => chk_off ((id, o) :: open) rest
  | (TEnd id, o) :: rest =>
      match open with
      | (i, o') :: open' => if (i =? id) && (o' =? o) then chk_off open' rest else None
      | [] => None
      end
  | (TElem _ _, _) :: rest => chk_off open rest
  | (TFull _ _, _) :: _ => None
  end.

Lemma chk_off_app : forall a b open,
  chk_off open (a ++ b) = match chk_off open a with Some o => chk_off o b | None => None end.
Proof.
  induction a as [|[t o] a IH]; intros b open; [reflexivity|].
  cbn [app chk_off]. destruct t as [id v|id|id|id cs].
  - apply IH.
  - apply IH.
  - destruct open as [|[i o'] open']; [reflexivity|]. destruct (_ && _); [apply IH|reflexivity].
  - reflexivity.
Qed.

Lemma chk_off_prefix a b open : chk_off open (a ++ b) <> None -> chk_off open a <> None.
Proof. rewrite chk_off_app. destruct (chk_off open a); [discriminate|auto]. Qed.

(* the chain can sit on top of any base *)
Lemma chk_off_rebase : forall items open open', chk_off open items = Some open' ->
  forall base, chk_off (open ++ base) items = Some (open' ++ base).
Proof.
  induction items as [|[t o] items IH]; intros open open'; cbn [chk_off].
  - intros H base. inversion H; reflexivity.
  - destruct t as [id v|id|id|id cs].
    + apply IH.
    + intros H base. apply (IH ((id, o) :: open)), H.
    + destruct open as [|[i o'] open1]; [discriminate|]. cbn [app]. destruct (_ && _); [apply IH|discriminate].
    + discriminate.
Qed.

(* all successful items of a queue, with their offsets *)
Definition all_q (q : list qitem) : list (tag * N) :=
  flat_map (fun x => match x with QOk t o => [(t, o)] | QErr _ => [] end) q.

Lemma all_q_app a b : all_q (a ++ b) = all_q a ++ all_q b.
Proof. unfold all_q. apply flat_map_app. Qed.

Definition fr (f : frame) : N * N := (f_id f, f_start f).

Lemma chk_off_ends : forall a b, chk_off (map fr a ++ b) (all_q (map end_item a)) = Some b.
Proof.
  induction a as [|f a IH]; intros b; [reflexivity|].
  cbn [map app all_q flat_map end_item fr chk_off]. rewrite !N.eqb_refl. cbn [andb]. apply IH.
Qed.

(* ------------------------------------------------------------------ the invariant *)
(* [em]: all items handed out so far.  The checker, started from a base of implied ancestors (all at offset 0; present only
   once the reader has determined its path), accepts everything emitted or queued and ends with the reader's stack: every
   frame with the offset it will report in its End item. *)
Definition zero_base (base : list (N * N)) : Prop := Forall (fun x => snd x = 0) base.

Definition KI (em : list (tag * N)) (st : pst) : Prop :=
  exists base, zero_base base /\ chk_off base (em ++ all_q (b_queue st)) = Some (map fr (b_stack st)) /\
               (b_det st = false -> base = []).

Lemma KI_same em st st' :
  b_stack st' = b_stack st -> b_queue st' = b_queue st -> b_det st' = b_det st -> KI em st -> KI em st'.
Proof. unfold KI. intros -> -> ->. auto. Qed.

Lemma KI_pop em st k : KI em st -> KI em (ppop_frames st k).
Proof.
  intros [base [Hz [H Hd]]]. exists base. unfold ppop_frames, ppush_q. cbn [pset_queue pset_stack b_queue b_stack b_det].
  split; [exact Hz|]. split; [|exact Hd].
  rewrite all_q_app, app_assoc, chk_off_app, H.
  rewrite <- (firstn_skipn k (b_stack st)) at 1. rewrite map_app. apply chk_off_ends.
Qed.

Lemma KI_push_err em st e : KI em st -> KI em (ppush_q st [QErr e]).
Proof.
  intros [base [Hz [H Hd]]]. exists base. unfold ppush_q. cbn [pset_queue b_queue b_stack b_det].
  rewrite all_q_app. cbn [all_q flat_map]. rewrite !app_nil_r. split; [exact Hz|split; [exact H|exact Hd]].
Qed.

Lemma KI_push_elem em st id v off : KI em st -> KI em (ppush_q st [QOk (TElem id v) off]).
Proof.
  intros [base [Hz [H Hd]]]. exists base. unfold ppush_q. cbn [pset_queue b_queue b_stack b_det].
  rewrite all_q_app, app_assoc, chk_off_app, H. split; [exact Hz|split; [reflexivity|exact Hd]].
Qed.

Lemma KI_push_start em st f :
  KI em st -> KI em (ppush_q (pset_stack st (f :: b_stack st) (b_det st)) [QOk (TStart (f_id f)) (f_start f)]).
Proof.
  intros [base [Hz [H Hd]]]. exists base. unfold ppush_q. cbn [pset_queue pset_stack b_queue b_stack b_det].
  rewrite all_q_app, app_assoc, chk_off_app, H. split; [exact Hz|split; [reflexivity|exact Hd]].
Qed.

(* the implied ancestors of a mid-document start all get offset 0 *)
Lemma implied_stack_zero sp p stk : implied_stack sp p = Some stk -> zero_base (map fr stk).
Proof.
  unfold implied_stack. destruct (forallb _ p); [|discriminate]. intros H. inversion H; subst. clear H.
  unfold zero_base. rewrite map_rev. apply Forall_rev.
  induction p as [|x p IH]; [constructor|]. cbn [flat_map]. rewrite map_app. apply Forall_app. split; [|exact IH].
  destruct x; [constructor; [reflexivity|constructor]|constructor].
Qed.

Lemma KI_seed em st stk : KI em st -> b_det st = false -> zero_base (map fr stk) ->
  KI em (pset_stack st (b_stack st ++ stk) true).
Proof.
  intros [base [Hz [H Hd]]] Ed Hs. rewrite (Hd Ed) in H. exists (map fr stk). cbn [pset_stack b_queue b_stack b_det].
  split; [exact Hs|]. split; [|discriminate]. rewrite map_app. apply (chk_off_rebase _ [] _ H).
Qed.

Lemma grow_frames_fr d stk : map fr (grow_frames d stk) = map fr stk.
Proof. unfold grow_frames. rewrite map_map. apply map_ext. intros f. destruct (f_size f); reflexivity. Qed.

(* ------------------------------------------------------------------ header / read_tag *)
Lemma p_hier_step_K c em st id ty : KI em st -> KI em (fst (p_hier_step c st id ty)).
Proof.
  intros HK. unfold p_hier_step. destruct (negb _ && _); [|exact HK].
  destruct (b_det st) eqn:Ed; [destruct (_ && _); exact HK|].
  destruct (all_ids _); [|destruct (_ && _); exact HK].
  destruct (implied_stack _ _) as [stk|] eqn:Ei.
  - assert (H : KI em (pset_stack st (b_stack st ++ stk) true)).
    { apply KI_seed; [exact HK|exact Ed|eapply implied_stack_zero, Ei]. }
    destruct (_ && _); exact H.
  - cbn [fst]. eapply KI_same; [| | |exact HK]; reflexivity.
Qed.

Lemma p_header_K c em st : KI em st -> KI em (fst (p_header c st)).
Proof.
  intros HK. rewrite p_header_unfold. destruct (p_tag_id st) as [[id idl]|e|]; try exact HK.
  unfold p_hdr_tail. destruct (read_vint _) as [[[size sl]|]|e1|]; try exact HK.
  destruct (is_numeric _ && _); [exact HK|]. destruct (negb (c_allow_id c) && _); [exact HK|].
  pose proof (p_hier_step_K c em st id (get_type (c_sp c) id) HK) as Hq.
  destruct (p_hier_step _ _ _ _) as [st1 [e1|]]; cbn [fst] in *; [exact Hq|].
  destruct (b_bad st1); [exact Hq|]. destruct (_ && _); [exact Hq|].
  destruct (c_max c); destruct (ebml_size size sl); try destruct (_ <? _); exact Hq.
Qed.

Lemma p_read_tag_K c em st : KI em st -> KI em (fst (p_read_tag c st)).
Proof.
  intros HK. rewrite p_read_tag_unfold. pose proof (p_header_K c em st HK) as Hq.
  destruct (p_header c st) as [st1 [[[[id ty] esz] hl]|e|]]; cbn [fst] in *; try exact Hq.
  destruct (p_tag_tail c st1 (b_off st) (id, ty, esz, hl)) as [st2 r] eqn:Et.
  destruct (p_tag_tail_facts _ _ _ _ _ _ _ _ _ Et) as [A [B [C _]]]. cbn [fst].
  eapply KI_same; eassumption.
Qed.

(* ------------------------------------------------------------------ read_next / next / try_recover *)
Lemma p_read_next_K c em : c_buffered c = [] -> forall fuel st, KI em st -> KI em (p_read_next fuel c st).
Proof.
  intros Hbuf. destruct fuel as [|f]; intros st HK.
  - cbn [p_read_next]. eapply KI_same; [| | |exact HK]; reflexivity.
  - rewrite p_read_next_unfold. cbn zeta.
    set (st1 := ppop_frames st _). assert (H1 : KI em st1) by (apply KI_pop, HK).
    unfold p_read_tag_checked. destruct (b_bytes st1) eqn:Eb.
    + destruct (c_emit_eof c); [apply KI_pop, H1|exact H1].
    + pose proof (p_read_tag_K c em st1 H1) as H2. destruct (p_read_tag_eff c st1) as [_ Hse].
      pose proof (p_read_tag_tiles c st1) as Hst.
      destruct (p_read_tag c st1) as [st2 r2]. cbn [fst snd] in *.
      destruct r2 as [p|e|].
      * specialize (Hse p eq_refl). destruct (Hst st2 p eq_refl) as [_ [_ [_ [Hstart _]]]].
        set (st3 := ppop_frames st2 _). assert (H3 : KI em st3) by (apply KI_pop, H2).
        destruct (p_tag p) as [id v|id|id|id cs] eqn:Ep; try discriminate Hse; cbn [tag_id] in *.
        -- apply KI_push_elem, H3.
        -- rewrite Hbuf. cbn [mem_id existsb].
           apply (KI_push_start em st3 {| f_id := id; f_size := p_size p; f_start := p_start p; f_data := p_data p |}), H3.
      * apply KI_push_err, H2.
      * eapply KI_same; [| | |exact H2]; reflexivity.
Qed.

Definition nres_pairs (r : nres) : list (tag * N) := match r with NItem t o => [(t, o)] | _ => [] end.

Lemma p_next_K c em st : c_buffered c = [] -> KI em st -> KI (em ++ nres_pairs (snd (p_next c st))) (fst (p_next c st)).
Proof.
  intros Hbuf HK. unfold p_next.
  assert (H1 : KI em (match b_queue st with [] => p_read_next (b_fuel st) c st | _ :: _ => st end)).
  { destruct (b_queue st); [apply p_read_next_K; assumption|exact HK]. }
  set (st1 := match b_queue st with [] => _ | _ => _ end) in *. unfold KI in H1.
  destruct (b_queue st1) as [|[t o|e] q] eqn:Eq; cbn [fst snd nres_pairs].
  - rewrite app_nil_r. unfold KI. rewrite Eq. exact H1.
  - unfold KI. cbn [pset_last pset_queue b_queue b_stack b_det]. cbn [all_q flat_map] in H1.
    rewrite <- app_assoc. exact H1.
  - rewrite app_nil_r. unfold KI. cbn [pset_queue b_queue b_stack b_det]. cbn [all_q flat_map app] in H1. exact H1.
Qed.

Lemma p_recover_loop_K c em : forall fuel st, KI em st -> KI em (fst (p_recover_loop fuel c st)).
Proof.
  induction fuel as [|f IH]; intros st HK; cbn [p_recover_loop].
  - cbn [fst]. eapply KI_same; [| | |exact HK]; reflexivity.
  - destruct (b_bytes st) eqn:Eb; [exact HK|].
    assert (HK0 : KI em (pconsume st 1)) by (eapply KI_same; [| | |exact HK]; reflexivity).
    pose proof (p_header_K c em _ HK0) as HK2.
    destruct (p_header c (pconsume st 1)) as [st2 r]. cbn [fst] in HK2.
    destruct r as [h|e|]; cbn [fst].
    + exact HK2.
    + apply IH, HK2.
    + eapply KI_same; [| | |exact HK2]; reflexivity.
Qed.

Lemma p_try_recover_K c em st : KI em st -> KI em (fst (p_try_recover c st)).
Proof.
  intros HK. unfold p_try_recover. pose proof (p_recover_loop_K c em (b_fuel st) st HK) as H.
  destruct (p_recover_loop (b_fuel st) c st) as [st1 [e|]]; cbn [fst] in *; [exact H|].
  unfold KI in *. cbn [pset_stack b_queue b_stack b_det]. rewrite grow_frames_fr. exact H.
Qed.

(* ------------------------------------------------------------------ runs *)
Definition accepted_off (items : list (tag * N)) : Prop := exists base, zero_base base /\ chk_off base items <> None.

Lemma accepted_off_prefix a b : accepted_off (a ++ b) -> accepted_off a.
Proof. intros [base [Hz H]]. exists base. split; [exact Hz|eapply chk_off_prefix, H]. Qed.

Lemma KI_accepted em st : KI em st -> accepted_off em.
Proof. intros [base [Hz [H _]]]. exists base. split; [exact Hz|]. eapply chk_off_prefix. rewrite H. discriminate. Qed.

(* all items of a run, with their offsets *)
Definition out_pairs (outs : list rout) : list (tag * N) := all_q (out_items outs).

Lemma out_pairs_app a b : out_pairs (a ++ b) = out_pairs a ++ out_pairs b.
Proof. unfold out_pairs. rewrite out_items_app. apply all_q_app. Qed.

Lemma out_pairs_bad b : out_pairs [bad_out b] = [].
Proof. destruct b; reflexivity. Qed.

Section OffRuns.
Variable c : cfg.
Hypothesis Hbuf : c_buffered c = [].

Lemma p_run_all_K : forall limit em st, KI em st ->
  accepted_off (em ++ out_pairs (snd (p_run_all limit c st))) /\
  (b_bad (fst (p_run_all limit c st)) = None ->
   KI (em ++ out_pairs (snd (p_run_all limit c st))) (fst (p_run_all limit c st))).
Proof.
  induction limit as [|l IH]; intros em st HK; cbn [p_run_all].
  - cbn [fst snd out_pairs out_items all_q flat_map]. rewrite app_nil_r. split; [eapply KI_accepted, HK|intros _; exact HK].
  - pose proof (p_next_K c em st Hbuf HK) as H1. destruct (p_next c st) as [st1 r]. cbn [fst snd] in H1.
    destruct (b_bad st1) as [b|] eqn:Eb.
    { cbn [fst snd]. rewrite out_pairs_bad, app_nil_r. split; [|rewrite Eb; discriminate].
      eapply accepted_off_prefix, KI_accepted, H1. }
    destruct r as [t o|e|]; cbn [nres_pairs] in H1.
    + specialize (IH _ _ H1). destruct (p_run_all l c st1) as [st2 outs]. cbn [fst snd] in *.
      change (OItem t o :: outs) with ([OItem t o] ++ outs). rewrite out_pairs_app.
      change (out_pairs [OItem t o]) with [(t, o)]. rewrite app_assoc. exact IH.
    + cbn [fst snd out_pairs out_items all_q flat_map app]. rewrite app_nil_r in *. split; [eapply KI_accepted, H1|intros _; exact H1].
    + cbn [fst snd out_pairs out_items all_q flat_map app]. rewrite app_nil_r in *. split; [eapply KI_accepted, H1|intros _; exact H1].
Qed.

Lemma p_run_ops_K limit : forall ops em st, KI em st ->
  accepted_off (em ++ out_pairs (snd (p_run_ops c limit st ops))).
Proof.
  induction ops as [|op ops IH]; intros em st HK; cbn [p_run_ops].
  - cbn [snd out_pairs out_items all_q flat_map]. rewrite app_nil_r. eapply KI_accepted, HK.
  - destruct op.
    + pose proof (p_next_K c em st Hbuf HK) as H1. destruct (p_next c st) as [st1 r]. cbn [fst snd] in H1.
      destruct (b_bad st1) as [b|].
      { cbn [snd]. rewrite out_pairs_bad, app_nil_r. eapply accepted_off_prefix, KI_accepted, H1. }
      specialize (IH _ _ H1). destruct (p_run_ops c limit st1 ops) as [st2 outs]. cbn [snd] in *.
      destruct r as [t o|e|]; cbn [nres_pairs] in *.
      * change (OItem t o :: outs) with ([OItem t o] ++ outs). rewrite out_pairs_app.
        change (out_pairs [OItem t o]) with [(t, o)]. rewrite app_assoc. exact IH.
      * rewrite app_nil_r in IH. exact IH.
      * rewrite app_nil_r in IH. exact IH.
    + pose proof (p_try_recover_K c em st HK) as H1. destruct (p_try_recover c st) as [st1 r]. cbn [fst] in H1.
      destruct (b_bad st1) as [b|].
      { cbn [snd]. rewrite out_pairs_bad, app_nil_r. eapply KI_accepted, H1. }
      specialize (IH _ _ H1). destruct (p_run_ops c limit st1 ops) as [st2 outs]. cbn [snd] in *.
      destruct r as [e|]; exact IH.
    + destruct (p_run_all_K limit em st HK) as [Ha Hj]. destruct (p_run_all limit c st) as [st1 outs1]. cbn [fst snd] in *.
      destruct (b_bad st1); [exact Ha|].
      specialize (IH _ _ (Hj eq_refl)). destruct (p_run_ops c limit st1 ops) as [st2 outs]. cbn [snd] in *.
      rewrite out_pairs_app, app_assoc. exact IH.
Qed.

End OffRuns.

Lemma KI_init input : KI [] (p_init input).
Proof. exists []. cbn. split; [constructor|split; reflexivity]. Qed.

(* C03, End offsets: for every input and every sequence of next() / try_recover() / drain operations, with nothing buffered
   and any tolerance settings, every End item names the innermost open master and reports exactly the offset of the Start
   item that opened it; the Ends that close implied ancestors of a mid-document start (the base) report offset 0 *)
Theorem run_end_offsets : forall c input ops, c_buffered c = [] ->
  exists base, zero_base base /\ chk_off base (out_pairs (p_run c input ops)) <> None.
Proof.
  intros c input ops Hbuf. unfold p_run.
  apply (p_run_ops_K c Hbuf _ ops [] (p_init input)). apply KI_init.
Qed.

(* with Ends emitted at the end of the input: when the drain ends with None nothing is left open *)
Theorem eof_closes_all_off : forall c input, c_buffered c = [] -> c_emit_eof c = true ->
  forall outs, p_run c input [RAll] = outs ++ [ONone] ->
  exists base, zero_base base /\ chk_off base (out_pairs outs) = Some [].
Proof.
  intros c input Hbuf Heof outs. unfold p_run. cbn [p_run_ops].
  set (limit := (4 * length input + 64)%nat).
  destruct (p_run_all_K c Hbuf limit [] (p_init input) (KI_init _)) as [_ HK].
  pose proof (p_run_all_none c Hbuf Heof limit (p_init input) outs) as Hn.
  destruct (p_run_all limit c (p_init input)) as [st1 outs1]. cbn [fst snd] in *.
  assert (Hs : snd (match b_bad st1 with Some _ => (st1, outs1) | None => (st1, outs1 ++ []) end) = outs1).
  { destruct (b_bad st1); cbn [snd]; [reflexivity|apply app_nil_r]. }
  rewrite Hs. intros Hq. destruct (Hn Hq) as [Hb [Hqe Hst]]. specialize (HK Hb).
  unfold KI in HK. rewrite Hqe, Hst, Hq, out_pairs_app in HK. cbn [all_q flat_map map out_pairs out_items app] in HK.
  rewrite !app_nil_r in HK. destruct HK as [base [Hz [H _]]]. exists base. split; [exact Hz|exact H].
Qed.

(* ================================================================== buffered masters *)
(* C03 with buffered masters: when the run completes (items and the final None only), its items with every Full item unrolled
   -- Start and End at the offset the Full item reports, the children in between (Proofs/BufferSim.Unr) -- are the items of
   the reader with nothing buffered: their Start and element items tile the input from offset 0 and every End reports the
   offset of its Start.  In particular a Full item reports the offset at which its master's header starts. *)
Theorem buffered_run_tiles_and_offsets : forall c input,
  let outs := p_run c input [RAll] in
  (forall o, In o outs -> match o with OItem _ _ | ONone => True | _ => False end) ->
  ~ In OLimit (p_run (unbuffered c) input [RAll]) ->
  exists U, Unr (out_items outs) U /\ Tiled (c_sp c) 0 input (ne_q U) /\
            exists base, zero_base base /\ chk_off base (all_q U) <> None.
Proof.
  intros c input outs H Hl. exists (out_items (p_run (unbuffered c) input [RAll])).
  split; [apply buffered_run_unrolls_items; assumption|]. split.
  - exact (run_all_tiles (unbuffered c) input eq_refl).
  - exact (run_end_offsets (unbuffered c) input [RAll] eq_refl).
Qed.

(* the item limit of the unbuffered run is no obstacle when the unrolled sequence is shorter than 4 * |input| + 64 *)
Theorem buffered_run_tiles_and_offsets_short : forall c input,
  let outs := p_run c input [RAll] in
  (forall o, In o outs -> match o with OItem _ _ | ONone => True | _ => False end) ->
  (length (flat (out_tags outs)) < 4 * length input + 64)%nat ->
  exists U, Unr (out_items outs) U /\ Tiled (c_sp c) 0 input (ne_q U) /\
            exists base, zero_base base /\ chk_off base (all_q U) <> None.
Proof.
  intros c input outs H Hlen. apply buffered_run_tiles_and_offsets; [exact H|apply short_no_limit; assumption].
Qed.
