(* C01, writer half and write -> read round trip, second class of documents: elements and masters may be declared with
   ARBITRARY paths, global placeholders included; the only requirement on a declared path is that it MATCHES the chain of
   masters the element is written in ([path_matches (get_path sp id) ids = true]) — which is exactly the writer's own check
   ([w_validate]: every open master counts as known-size, nothing is ended, the declared path is matched against the ids of the
   open masters).  [wconfg] is [wconf] of Proofs/WriteEnc.v with that path condition; the layout proofs are those of
   WriteEnc.v / WriteFull.v / WriteMixed.v (the path is used for the validation step only).
   For documents whose masters all have a known size the reader half is Proofs/RoundTripKnown.v ([kconf], [dstart]). *)
From Ebml Require Import Base Tools Spec Writer Reader Pure Encode.
From Ebml Require Import Proofs.Tactics Proofs.BytesProofs Proofs.VintProofs Proofs.DecodersProofs Proofs.SpecProofs Proofs.WriterProofs Proofs.PureProofs Proofs.RollUp Proofs.RoundTrip Proofs.RoundTripKnown Proofs.WriteEnc Proofs.WriteFull Proofs.WriteMixed.
Import ListNotations.
Local Open Scope N_scope.

(* ------------------------------------------------------------------ conformance as the writer needs it, paths matched *)
Fixpoint wconfg (sp : spec) (d : bool) (ids : list N) (t : rtree) : Prop :=
  match t with
  | RLeaf id v pl sl =>
      path_matches (get_path sp id) ids = true /\
      exists ty, get_type sp id = Some ty /\ ty <> DMaster /\ vshape ty v /\ pl = payload_of v /\ field_ok d sl (N.of_nat (length pl))
  | RNode id sz cs =>
      path_matches (get_path sp id) ids = true /\ get_type sp id = Some DMaster /\ (forall sl, sz = Some sl -> field_ok d sl (flen cs)) /\
      (fix all (l : list rtree) : Prop := match l with [] => True | x :: l' => wconfg sp d (ids ++ [id]) x /\ all l' end) cs
  end.

Lemma wconfg_node sp d ids id sz cs : wconfg sp d ids (RNode id sz cs) <->
  path_matches (get_path sp id) ids = true /\ get_type sp id = Some DMaster /\ (forall sl, sz = Some sl -> field_ok d sl (flen cs)) /\
  Forall (wconfg sp d (ids ++ [id])) cs.
Proof.
  cbn [wconfg].
  assert (H : (fix all (l : list rtree) : Prop := match l with [] => True | x :: l' => wconfg sp d (ids ++ [id]) x /\ all l' end) cs
              <-> Forall (wconfg sp d (ids ++ [id])) cs).
  { induction cs as [|x l IH]; [split; [constructor|trivial]|]. split.
    - intros [Hx Hl]. constructor; [exact Hx|apply IH, Hl].
    - intros HF. apply Forall_cons_iff in HF. destruct HF as [Hx Hl]. split; [exact Hx|apply IH, Hl]. }
  tauto.
Qed.

(* the placeholder-free class of Proofs/WriteEnc.v is contained *)
Lemma wconf_wconfg sp d : forall t ids, wconf sp d ids t -> wconfg sp d ids t.
Proof.
  induction t as [id v pl sl|id sz cs IH] using rtree_ind'; intros ids H.
  - destruct H as [Hp Hrest]. split; [rewrite Hp; apply path_matches_ids|exact Hrest].
  - apply wconf_node in H. destruct H as [H1 [H2 [H3 H4]]]. apply wconfg_node.
    split; [rewrite H1; apply path_matches_ids|]. split; [exact H2|]. split; [exact H3|].
    clear H3. induction cs as [|x l IHl]; [constructor|].
    apply Forall_cons_iff in IH. destruct IH as [Hx Hl]. apply Forall_cons_iff in H4. destruct H4 as [Hcx Hcl].
    constructor; [apply Hx, Hcx|apply IHl; assumption].
Qed.

(* the writer's path check: the declared path against the ids of the open masters, outermost first *)
Lemma validate_match sp id o ids : path_matches (get_path sp id) ids = true -> rev (open_ids o) = ids -> w_validate sp id o = true.
Proof.
  intros Hp Hi. unfold w_validate, validate_tag_path.
  rewrite count_ended_all_known by (apply Forall_forall; intros x Hx; apply in_map_iff in Hx; destruct Hx as [y [<- _]]; reflexivity).
  cbn [skipn]. rewrite map_map. cbn [fst]. unfold open_ids in Hi. rewrite Hi. exact Hp.
Qed.

(* ------------------------------------------------------------------ one write call per tag *)
Definition Wtree_g (sp : spec) (d : bool) (t : rtree) : Prop :=
  forall ids st, wconfg sp d ids t -> w_script st = [] -> rev (open_ids (w_open st)) = ids -> (has_known (w_open st) = false -> w_buf st = []) ->
  exists st', wrun_ok sp st (wops_tree d t) st' /\ w_open st' = w_open st /\ w_script st' = [] /\ image st' = image st ++ enc_tree t /\
    (has_known (w_open st) = true -> w_dest st' = w_dest st) /\ (has_known (w_open st) = false -> w_buf st' = []).

Lemma write_forest_g sp d : forall l, Forall (Wtree_g sp d) l -> forall ids st, Forall (wconfg sp d ids) l -> w_script st = [] ->
  rev (open_ids (w_open st)) = ids -> (has_known (w_open st) = false -> w_buf st = []) ->
  exists st', wrun_ok sp st (wops_forest d l) st' /\ w_open st' = w_open st /\ w_script st' = [] /\ image st' = image st ++ enc_forest l /\
    (has_known (w_open st) = true -> w_dest st' = w_dest st) /\ (has_known (w_open st) = false -> w_buf st' = []).
Proof.
  induction l as [|x l IH]; intros HW ids st Hc Hs Hi Hinv.
  - exists st. split; [apply wrun_ok_nil|]. cbn [enc_forest]. rewrite app_nil_r. repeat split; auto.
  - apply Forall_cons_iff in HW. destruct HW as [HWx HWl]. apply Forall_cons_iff in Hc. destruct Hc as [Hcx Hcl].
    destruct (HWx _ st Hcx Hs Hi Hinv) as [st1 [R1 [O1 [S1 [I1 [K1 U1]]]]]].
    assert (Hinv1 : has_known (w_open st1) = false -> w_buf st1 = []) by (rewrite O1; exact U1).
    assert (Hi1 : rev (open_ids (w_open st1)) = ids) by (rewrite O1; exact Hi).
    destruct (IH HWl _ st1 Hcl S1 Hi1 Hinv1) as [st2 [R2 [O2 [S2 [I2 [K2 U2]]]]]].
    exists st2. split; [cbn [wops_forest]; eapply wrun_ok_app; eassumption|].
    split; [congruence|]. split; [exact S2|]. split; [rewrite I2, I1; cbn [enc_forest]; rewrite app_assoc; reflexivity|].
    rewrite O1 in K2, U2. split; [intros Hk; rewrite (K2 Hk); exact (K1 Hk)|exact U2].
Qed.

Lemma write_tree_g sp d : forall t, Wtree_g sp d t.
Proof.
  induction t as [id v pl sl|id sz cs IH] using rtree_ind'; unfold Wtree_g; intros ids st Hc Hs Hi Hinv.
  - (* an element *)
    destruct Hc as [Hpath [ty [Hty [Hnm [Hshape [Hpl Hf]]]]]]. subst pl.
    assert (Hsl : (1 <= sl <= 8)%nat) by (destruct Hf; assumption).
    assert (Hb : buffer_tag sp (TElem id v) (wopt d sl) st =
                 (append (append st (id_bytes id)) (venc sl (N.of_nat (length (payload_of v))) ++ payload_of v), WOk)).
    { assert (Hty2 : raw_type (TElem id v) (get_type sp id) = Some ty) by (rewrite Hty; apply raw_type_vshape, Hshape). rewrite buffer_tag_eq; raw_simpl. cbn [tag_id is_master_tag negb]. rewrite Hty2.
      assert (Hu : o_unknown (wopt d sl) = false) by (destruct d; reflexivity). rewrite Hu. cbn [andb].
      assert (Hm : is_master_ty (Some ty) = false) by (destruct ty; try reflexivity; contradiction Hnm; reflexivity). rewrite Hm. cbn [andb].
      unfold should_validate; raw_simpl. cbn [tag_id]. rewrite Hty2.
      assert (Hv : match ty with DMaster => negb (is_end (TElem id v)) | _ => true end = true) by (destruct ty; reflexivity). rewrite Hv.
      rewrite (validate_match sp id (w_open st) ids Hpath Hi). cbn [negb andb].
      unfold buffer_act; raw_simpl. rewrite Hu. cbn [tag_id]. rewrite Hty2, (size_len_of_wopt d sl Hsl).
      destruct ty; try (contradiction Hnm; reflexivity); apply write_leaf; assumption. }
    destruct (write_step sp st _ _ _ Hb Hs) as [st' [Hstep [Ho [Hsc [Him [Hk Hu]]]]]].
    cbn [append set_buf w_open w_buf] in Ho, Him, Hk, Hu.
    exists st'. split; [cbn [wops_tree]; eapply wrun_ok_cons; [exact Hstep|apply wrun_ok_nil]|].
    split; [exact Ho|]. split; [exact Hsc|]. split; [rewrite Him; unfold image; cbn [enc_tree]; rewrite <- !app_assoc; reflexivity|].
    split; [intros Hkn; apply Hk, Hkn|exact Hu].
  - (* a master *)
    apply wconfg_node in Hc. destruct Hc as [Hpath [Hty [Hsz Hcs]]]. rewrite wops_tree_node.
    assert (Hval : w_validate sp id (w_open st) = true) by (apply (validate_match sp id (w_open st) ids Hpath Hi)).
    destruct sz as [sl|].
    + (* known size: the children are held back, the header is inserted in front of them at the End *)
      pose proof (Hsz sl eq_refl) as Hf. assert (Hsl : (1 <= sl <= 8)%nat) by (destruct Hf; assumption).
      assert (Hb : buffer_tag sp (TStart id) (wopt d sl) st = (start_tag st id (wsl d sl), WOk)).
      { rewrite buffer_tag_eq; raw_simpl. cbn [tag_id is_master_tag negb]. rewrite Hty.
        assert (Hu : o_unknown (wopt d sl) = false) by (destruct d; reflexivity). rewrite Hu. cbn [andb is_master_ty].
        unfold should_validate; raw_simpl. cbn [tag_id is_end negb]. rewrite Hty, Hval. cbn [negb andb].
        unfold buffer_act; raw_simpl. rewrite Hu. cbn [tag_id]. rewrite Hty, (size_len_of_wopt d sl Hsl). reflexivity. }
      destruct (write_step sp st _ _ _ Hb Hs) as [st1 [Hstep1 [Ho1 [Hsc1 [Him1 [Hk1 _]]]]]].
      cbn [start_tag set_open w_open w_buf] in Ho1, Him1, Hk1.
      assert (Hkn1 : has_known (w_open st1) = true) by (rewrite Ho1; reflexivity).
      destruct (Hk1 eq_refl) as [Hd1 Hb1].
      assert (Hi1 : rev (open_ids (w_open st1)) = ids ++ [id]) by (rewrite Ho1; unfold open_ids in *; cbn [map rev fst]; rewrite Hi; reflexivity).
      assert (Hinv1 : has_known (w_open st1) = false -> w_buf st1 = []) by (rewrite Hkn1; discriminate).
      destruct (write_forest_g sp d cs IH _ st1 Hcs Hsc1 Hi1 Hinv1) as [st2 [R2 [O2 [S2 [I2 [K2 _]]]]]].
      pose proof (K2 Hkn1) as Hd2.
      assert (Hb2 : w_buf st2 = w_buf st ++ enc_forest cs).
      { unfold image in I2. rewrite Hd2, Hb1, <- app_assoc in I2. apply app_inv_head in I2. exact I2. }
      (* the End *)
      assert (He : buffer_tag sp (TEnd id) o_default st2 =
                   (set_open (set_buf st2 (w_buf st ++ id_bytes id ++ venc sl (flen cs) ++ enc_forest cs)) (w_open st), WOk)).
      { rewrite (end_step sp st2 id Hty). unfold end_tag. rewrite O2, Ho1. rewrite N.eqb_refl, Hb2, app_length.
        destruct (Nat.ltb_spec (length (w_buf st) + length (enc_forest cs)) (length (w_buf st))); [lia|].
        replace (length (w_buf st) + length (enc_forest cs) - length (w_buf st))%nat with (length (enc_forest cs)) by lia.
        fold (flen cs). rewrite (size_to_vint_field d sl (flen cs) Hf).
        rewrite firstn_app, firstn_all, Nat.sub_diag, skipn_app, skipn_all, Nat.sub_diag. cbn [firstn skipn app]. rewrite app_nil_r. reflexivity. }
      destruct (write_step sp st2 _ _ _ He S2) as [st3 [Hstep3 [Ho3 [Hsc3 [Him3 [Hk3 Hu3]]]]]].
      cbn [set_open set_buf w_open w_buf] in Ho3, Him3, Hk3, Hu3.
      exists st3. split.
      { eapply wrun_ok_cons; [exact Hstep1|]. eapply wrun_ok_app; [exact R2|]. eapply wrun_ok_cons; [exact Hstep3|apply wrun_ok_nil]. }
      split; [exact Ho3|]. split; [exact Hsc3|]. split.
      { rewrite Him3, Hd2, Hd1. unfold image. rewrite enc_tree_node, <- !app_assoc. reflexivity. }
      split; [intros Hkn; destruct (Hk3 Hkn) as [Hd3 _]; rewrite Hd3, Hd2, Hd1; reflexivity|exact Hu3].
    + (* unknown size: the header goes out at once *)
      assert (Hb : buffer_tag sp (TStart id) opts_unknown st = (start_unknown_size_tag st id, WOk)).
      { rewrite buffer_tag_eq; raw_simpl. cbn [tag_id is_master_tag negb opts_unknown o_unknown]. rewrite Hty. cbn [andb is_master_ty negb].
        unfold should_validate; raw_simpl. cbn [tag_id is_end negb]. rewrite Hty, Hval. cbn [negb andb].
        unfold buffer_act; raw_simpl. cbn [o_unknown opts_unknown]. reflexivity. }
      destruct (write_step sp st _ _ _ Hb Hs) as [st1 [Hstep1 [Ho1 [Hsc1 [Him1 [Hk1 Hu1]]]]]].
      cbn [start_unknown_size_tag set_open set_buf w_open w_buf] in Ho1, Him1, Hk1, Hu1.
      assert (Hkn1 : has_known (w_open st1) = has_known (w_open st)) by (rewrite Ho1; reflexivity).
      assert (Hi1 : rev (open_ids (w_open st1)) = ids ++ [id]) by (rewrite Ho1; unfold open_ids in *; cbn [map rev fst]; rewrite Hi; reflexivity).
      assert (Hinv1 : has_known (w_open st1) = false -> w_buf st1 = []) by (rewrite Ho1; exact Hu1).
      destruct (write_forest_g sp d cs IH _ st1 Hcs Hsc1 Hi1 Hinv1) as [st2 [R2 [O2 [S2 [I2 [K2 U2]]]]]].
      assert (He : buffer_tag sp (TEnd id) o_default st2 = (set_open st2 (w_open st), WOk)).
      { rewrite (end_step sp st2 id Hty). unfold end_tag. rewrite O2, Ho1. rewrite N.eqb_refl. reflexivity. }
      destruct (write_step sp st2 _ _ _ He S2) as [st3 [Hstep3 [Ho3 [Hsc3 [Him3 [Hk3 Hu3]]]]]].
      cbn [set_open w_open w_buf] in Ho3, Him3, Hk3, Hu3.
      exists st3. split.
      { eapply wrun_ok_cons; [exact Hstep1|]. eapply wrun_ok_app; [exact R2|]. eapply wrun_ok_cons; [exact Hstep3|apply wrun_ok_nil]. }
      split; [exact Ho3|]. split; [exact Hsc3|]. split.
      { rewrite Him3. fold (image st2). rewrite I2, Him1, enc_tree_node. unfold image. rewrite <- !app_assoc. reflexivity. }
      split; [|exact Hu3].
      intros Hkn. destruct (Hk3 Hkn) as [Hd3 _]. rewrite Hd3. rewrite Hkn1 in K2. rewrite (K2 Hkn). destruct (Hk1 Hkn) as [Hx _]. exact Hx.
Qed.

(* writing a document — any mix of known- and unknown-size masters, declared paths with global placeholders — tag by tag into a
   destination that accepts everything: every call succeeds and the destination holds exactly the structural encoding *)
Theorem writer_encodes_g sp d f : Forall (wconfg sp d []) f ->
  Forall (fun r => fst r = WOk) (fst (run_writer sp (wops_forest d f) [])) /\ snd (run_writer sp (wops_forest d f) []) = enc_forest f.
Proof.
  intros Hc.
  assert (HW : Forall (Wtree_g sp d) f) by (apply Forall_forall; intros t _; apply write_tree_g).
  destruct (write_forest_g sp d f HW [] (w_init []) Hc eq_refl eq_refl (fun _ => eq_refl)) as [st' [[R1 R2] [_ [_ [Him [_ Hu]]]]]].
  unfold run_writer. destruct (wrun sp (w_init []) (wops_forest d f)) as [st rs]. cbn [fst snd] in *. subst st'.
  split; [exact R2|]. unfold image in Him. rewrite (Hu eq_refl), app_nil_r in Him. exact Him.
Qed.

(* ------------------------------------------------------------------ what is written is read back *)
(* a written document whose masters all have a known size belongs to the reader's second class *)
Lemma wconfg_kconf c d : forall t ids, wconfg (c_sp c) d ids t -> rconf c t -> all_known t -> kconf c ids t.
Proof.
  induction t as [id v pl sl|id sz cs IH] using rtree_ind'; intros ids Hw Hr Hk.
  - destruct Hw as [Hpath [ty [Hty [Hnm [Hshape [Hpl [Hsl [Hlt _]]]]]]]]. destruct Hr as [Hid [Hv Hmax]]. subst pl.
    destruct (payload_decodes ty v Hshape Hv) as [Hdec Hwf]. cbn [kconf].
    split; [exact Hid|]. split; [exact Hsl|]. split; [exact Hlt|]. split; [exact Hwf|].
    split; [exists ty; split; [exact Hty|split; [exact Hnm|exact Hdec]]|]. split; [exact Hpath|exact Hmax].
  - apply wconfg_node in Hw. apply rconf_node in Hr. apply all_known_node in Hk. apply kconf_node.
    destruct Hw as [Hpath [Hty [Hsz Hcs]]]. destruct Hr as [Hid [Hmax Hrs]]. destruct Hk as [Hnn Hks].
    split; [exact Hid|]. split.
    { destruct sz as [sl|]; [|contradiction Hnn; reflexivity]. exists sl. destruct (Hsz sl eq_refl) as [H1 [H2 _]].
      split; [reflexivity|split; assumption]. }
    split; [exact Hty|]. split; [exact Hpath|]. split; [exact Hmax|].
    clear Hsz Hmax. induction cs as [|x l IHl]; [constructor|].
    apply Forall_cons_iff in IH. destruct IH as [Hx Hl]. apply Forall_cons_iff in Hcs. destruct Hcs as [Hcx Hcl].
    apply Forall_cons_iff in Hrs. destruct Hrs as [Hrx Hrl]. apply Forall_cons_iff in Hks. destruct Hks as [Hkx Hkl].
    constructor; [apply Hx; assumption|apply IHl; assumption].
Qed.

(* C01, second class: what the writer emits for a tag sequence whose elements are declared with paths — global placeholders
   allowed — that match the masters they are written in, every master of known size, is read back as exactly that sequence *)
Theorem write_read_roundtrip_known c d f : strict c -> c_buffered c = [] -> c_emit_eof c = true ->
  Forall (wconfg (c_sp c) d []) f -> Forall (rconf c) f -> Forall all_known f -> dstart c f ->
  Forall (fun r => fst r = WOk) (fst (run_writer (c_sp c) (wops_forest d f) [])) /\
  map out_tag (p_run c (snd (run_writer (c_sp c) (wops_forest d f) [])) [RAll]) = map op_tag (wops_forest d f) ++ [None].
Proof.
  intros Hs Hb He Hw Hr Hk Hd. destruct (writer_encodes_g (c_sp c) d f Hw) as [Hok Henc]. split; [exact Hok|].
  rewrite Henc, op_tags_forest. apply reader_roundtrip_known_tags; try assumption.
  rewrite Forall_forall in *. intros t Hin. apply (wconfg_kconf c d t []); [apply Hw, Hin|apply Hr, Hin|apply Hk, Hin].
Qed.

(* ------------------------------------------------------------------ masters given as one Full item (as Proofs/WriteFull.v) *)
Definition Bfull_g (sp : spec) (t : rtree) : Prop :=
  forall ids st, wconfg sp true ids t -> all_known t -> rev (open_ids (w_open st)) = ids ->
  buffer_tag sp (full_tag t) o_default st = (set_buf st (w_buf st ++ enc_tree t), WOk).

Lemma children_full_g sp floor : forall cs, Forall (Bfull_g sp) cs -> forall ids st, Forall (wconfg sp true ids) cs -> Forall all_known cs ->
  rev (open_ids (w_open st)) = ids -> (floor <= length (w_open st))%nat ->
  children_loop sp floor (map full_tag cs) st = (set_buf st (w_buf st ++ enc_forest cs), WOk).
Proof.
  induction cs as [|x l IH]; intros HB ids st Hc Hk Hi Hfl.
  - cbn [map children_loop enc_forest]. rewrite app_nil_r, set_buf_eta. reflexivity.
  - apply Forall_cons_iff in HB. destruct HB as [HBx HBl]. apply Forall_cons_iff in Hc. destruct Hc as [Hcx Hcl].
    apply Forall_cons_iff in Hk. destruct Hk as [Hkx Hkl].
    cbn [map]. unfold children_loop. fold (children_loop sp). rewrite (HBx ids st Hcx Hkx Hi). cbn [set_buf w_open].
    destruct (Nat.ltb_spec (length (w_open st)) floor); [lia|].
    rewrite (IH HBl ids (set_buf st (w_buf st ++ enc_tree x)) Hcl Hkl Hi Hfl). cbn [set_buf w_open w_buf w_dest w_script enc_forest].
    rewrite <- app_assoc. reflexivity.
Qed.

Lemma buffer_full_g sp : forall t, Bfull_g sp t.
Proof.
  induction t as [id v pl sl|id sz cs IH] using rtree_ind'; unfold Bfull_g; intros ids st Hc Hk Hi.
  - (* an element *)
    destruct Hc as [Hpath [ty [Hty [Hnm [Hshape [Hpl Hf]]]]]]. subst pl. cbn [full_tag].
    assert (Hsl : (1 <= sl <= 8)%nat) by (destruct Hf; assumption).
    assert (Hty2 : raw_type (TElem id v) (get_type sp id) = Some ty) by (rewrite Hty; apply raw_type_vshape, Hshape). rewrite buffer_tag_eq; raw_simpl. cbn [tag_id is_master_tag negb o_default o_unknown andb]. rewrite Hty2.
    assert (Hm : is_master_ty (Some ty) = false) by (destruct ty; try reflexivity; contradiction Hnm; reflexivity). rewrite Hm. cbn [andb].
    unfold should_validate; raw_simpl. cbn [tag_id]. rewrite Hty2.
    assert (Hv : match ty with DMaster => negb (is_end (TElem id v)) | _ => true end = true) by (destruct ty; reflexivity). rewrite Hv.
    rewrite (validate_match sp id (w_open st) ids Hpath Hi). cbn [negb andb].
    unfold buffer_act; raw_simpl. cbn [o_unknown o_default tag_id]. rewrite Hty2.
    change (size_len_of o_default) with (wsl true sl).
    assert (Hw : write_element st id (Some ty) v (wsl true sl) =
                 (append (append st (id_bytes id)) (venc sl (N.of_nat (length (payload_of v))) ++ payload_of v), WOk)) by (apply write_leaf; assumption).
    destruct ty; try (contradiction Hnm; reflexivity); rewrite Hw; unfold append, set_buf; cbn [w_open w_buf w_dest w_script enc_tree]; rewrite <- !app_assoc; reflexivity.
  - (* a master given as Full *)
    apply wconfg_node in Hc. destruct Hc as [Hpath [Hty [Hsz Hcs]]]. apply all_known_node in Hk. destruct Hk as [Hsn Hks].
    destruct sz as [sl|]; [|contradiction Hsn; reflexivity]. pose proof (Hsz sl eq_refl) as Hf.
    rewrite full_tag_node, buffer_tag_eq; raw_simpl. cbn [tag_id is_master_tag negb o_default o_unknown andb]. rewrite Hty. cbn [is_master_ty andb negb].
    unfold should_validate; raw_simpl. cbn [tag_id is_end negb]. rewrite Hty, (validate_match sp id (w_open st) ids Hpath Hi). cbn [negb andb].
    unfold buffer_act; raw_simpl. cbn [o_unknown o_default tag_id]. rewrite Hty.
    change (size_len_of o_default) with O.
    set (st1 := start_tag st id 0).
    assert (Hi1 : rev (open_ids (w_open st1)) = ids ++ [id]) by (unfold st1, start_tag, open_ids in *; cbn [set_open w_open map rev fst]; rewrite Hi; reflexivity).
    assert (Hfl : (S (length (w_open st)) <= length (w_open st1))%nat) by (unfold st1, start_tag; cbn [set_open w_open length]; lia).
    rewrite (children_full_g sp _ cs IH (ids ++ [id]) st1 Hcs Hks Hi1 Hfl).
    unfold end_tag, st1, start_tag. cbn [set_buf set_open w_open w_buf]. rewrite N.eqb_refl, app_length.
    destruct (Nat.ltb_spec (length (w_buf st) + length (enc_forest cs)) (length (w_buf st))); [lia|].
    replace (length (w_buf st) + length (enc_forest cs) - length (w_buf st))%nat with (length (enc_forest cs)) by lia.
    fold (flen cs). change O with (wsl true sl). rewrite (size_to_vint_field true sl (flen cs) Hf).
    rewrite firstn_app, firstn_all, Nat.sub_diag, skipn_app, skipn_all, Nat.sub_diag. cbn [firstn skipn app]. rewrite app_nil_r.
    rewrite enc_tree_node. unfold set_buf, set_open. cbn [w_open w_buf w_dest w_script]. reflexivity.
Qed.

(* conformance of a tree written as one item ([fconf] of Proofs/WriteFull.v with matched paths) *)
Definition fconfg (sp : spec) (d : bool) (ids : list N) (t : rtree) : Prop :=
  match t with
  | RLeaf _ _ _ _ => wconfg sp d ids t
  | RNode id sz cs =>
      path_matches (get_path sp id) ids = true /\ get_type sp id = Some DMaster /\ (forall sl, sz = Some sl -> field_ok d sl (flen cs)) /\
      Forall (wconfg sp true (ids ++ [id])) cs /\ Forall all_known cs
  end.

Lemma fconf_fconfg sp d ids t : fconf sp d ids t -> fconfg sp d ids t.
Proof.
  destruct t as [id v pl sl|id sz cs]; intros H; [apply wconf_wconfg, H|].
  destruct H as [Hp [Hty [Hsz [Hcs Hks]]]]. split; [rewrite Hp; apply path_matches_ids|]. split; [exact Hty|]. split; [exact Hsz|].
  split; [|exact Hks]. rewrite Forall_forall in *. intros x Hin. apply wconf_wconfg, Hcs, Hin.
Qed.

Lemma write_full_g sp d t ids st : fconfg sp d ids t -> w_script st = [] -> rev (open_ids (w_open st)) = ids ->
  (has_known (w_open st) = false -> w_buf st = []) ->
  exists st', wstep sp st (OpWrite (full_tag t) (top_opt d t)) = (st', WOk) /\ w_open st' = w_open st /\ w_script st' = [] /\
    image st' = image st ++ enc_tree t /\ (has_known (w_open st) = true -> w_dest st' = w_dest st) /\
    (has_known (w_open st) = false -> w_buf st' = []).
Proof.
  intros Hc Hs Hi Hinv. destruct t as [id v pl sl|id sz cs].
  - (* an element: as in write_tree_g *)
    destruct (write_tree_g sp d (RLeaf id v pl sl) ids st Hc Hs Hi Hinv) as [st' [[R1 R2] [O1 [S1 [I1 [K1 U1]]]]]].
    cbn [wops_tree wrun] in R1, R2. cbn [full_tag top_opt].
    destruct (wstep sp st (OpWrite (TElem id v) (wopt d sl))) as [s r] eqn:Es.
    assert (Hr : r = WOk) by (destruct r; cbn [snd] in R2; inversion R2 as [|? ? Hh _]; subst; try discriminate Hh; reflexivity).
    subst r. cbn [fst] in R1. subst s. exists st'. repeat split; assumption.
  - destruct Hc as [Hpath [Hty [Hsz [Hcs Hks]]]]. rewrite full_tag_node. cbn [top_opt].
    assert (Hval : w_validate sp id (w_open st) = true) by (apply (validate_match sp id (w_open st) ids Hpath Hi)).
    assert (HB : Forall (Bfull_g sp) cs) by (apply Forall_forall; intros x _; apply buffer_full_g).
    destruct sz as [sl|].
    + pose proof (Hsz sl eq_refl) as Hf. assert (Hsl : (1 <= sl <= 8)%nat) by (destruct Hf; assumption).
      set (st1 := start_tag st id (wsl d sl)).
      assert (Hi1 : rev (open_ids (w_open st1)) = ids ++ [id]) by (unfold st1, start_tag, open_ids in *; cbn [set_open w_open map rev fst]; rewrite Hi; reflexivity).
      assert (Hfl : (S (length (w_open st)) <= length (w_open st1))%nat) by (unfold st1, start_tag; cbn [set_open w_open length]; lia).
      assert (Hb : buffer_tag sp (TFull id (map full_tag cs)) (wopt d sl) st =
                   (set_buf st (w_buf st ++ enc_tree (RNode id (Some sl) cs)), WOk)).
      { rewrite buffer_tag_eq; raw_simpl. cbn [tag_id is_master_tag negb]. rewrite Hty.
        assert (Hu : o_unknown (wopt d sl) = false) by (destruct d; reflexivity). rewrite Hu. cbn [andb is_master_ty negb].
        unfold should_validate; raw_simpl. cbn [tag_id is_end negb]. rewrite Hty, Hval. cbn [negb andb].
        unfold buffer_act; raw_simpl. rewrite Hu. cbn [tag_id]. rewrite Hty, (size_len_of_wopt d sl Hsl). fold st1.
        rewrite (children_full_g sp _ cs HB (ids ++ [id]) st1 Hcs Hks Hi1 Hfl).
        unfold end_tag, st1, start_tag. cbn [set_buf set_open w_open w_buf]. rewrite N.eqb_refl, app_length.
        destruct (Nat.ltb_spec (length (w_buf st) + length (enc_forest cs)) (length (w_buf st))); [lia|].
        replace (length (w_buf st) + length (enc_forest cs) - length (w_buf st))%nat with (length (enc_forest cs)) by lia.
        fold (flen cs). rewrite (size_to_vint_field d sl (flen cs) Hf).
        rewrite firstn_app, firstn_all, Nat.sub_diag, skipn_app, skipn_all, Nat.sub_diag. cbn [firstn skipn app]. rewrite app_nil_r.
        rewrite enc_tree_node. unfold set_buf, set_open. cbn [w_open w_buf w_dest w_script]. reflexivity. }
      destruct (write_step sp st _ _ _ Hb Hs) as [st' [Hstep [Ho [Hsc [Him [Hk Hu]]]]]]. cbn [set_buf w_open w_buf] in Ho, Him, Hk, Hu.
      exists st'. split; [exact Hstep|]. split; [exact Ho|]. split; [exact Hsc|]. split; [rewrite Him; unfold image; rewrite app_assoc; reflexivity|].
      split; [intros Hkn; apply Hk, Hkn|exact Hu].
    + set (st1 := start_unknown_size_tag st id).
      assert (Hi1 : rev (open_ids (w_open st1)) = ids ++ [id]) by (unfold st1, start_unknown_size_tag, open_ids in *; cbn [set_open set_buf w_open map rev fst]; rewrite Hi; reflexivity).
      assert (Hfl : (S (length (w_open st)) <= length (w_open st1))%nat) by (unfold st1, start_unknown_size_tag; cbn [set_open set_buf w_open length]; lia).
      assert (Hb : buffer_tag sp (TFull id (map full_tag cs)) opts_unknown st =
                   (set_buf st (w_buf st ++ enc_tree (RNode id None cs)), WOk)).
      { rewrite buffer_tag_eq; raw_simpl. cbn [tag_id is_master_tag negb opts_unknown o_unknown]. rewrite Hty. cbn [andb is_master_ty negb].
        unfold should_validate; raw_simpl. cbn [tag_id is_end negb]. rewrite Hty, Hval. cbn [negb andb].
        unfold buffer_act; raw_simpl. cbn [o_unknown opts_unknown tag_id]. fold st1.
        rewrite (children_full_g sp _ cs HB (ids ++ [id]) st1 Hcs Hks Hi1 Hfl).
        unfold end_tag, st1, start_unknown_size_tag. cbn [set_buf set_open w_open w_buf]. rewrite N.eqb_refl.
        rewrite enc_tree_node. unfold set_buf, set_open. cbn [w_open w_buf w_dest w_script]. rewrite <- !app_assoc. reflexivity. }
      destruct (write_step sp st _ _ _ Hb Hs) as [st' [Hstep [Ho [Hsc [Him [Hk Hu]]]]]]. cbn [set_buf w_open w_buf] in Ho, Him, Hk, Hu.
      exists st'. split; [exact Hstep|]. split; [exact Ho|]. split; [exact Hsc|]. split; [rewrite Him; unfold image; rewrite app_assoc; reflexivity|].
      split; [intros Hkn; apply Hk, Hkn|exact Hu].
Qed.

Lemma write_fulls_g sp d : forall l ids st, Forall (fconfg sp d ids) l -> w_script st = [] -> rev (open_ids (w_open st)) = ids ->
  (has_known (w_open st) = false -> w_buf st = []) ->
  exists st', wrun_ok sp st (fops d l) st' /\ w_open st' = w_open st /\ w_script st' = [] /\ image st' = image st ++ enc_forest l /\
    (has_known (w_open st) = true -> w_dest st' = w_dest st) /\ (has_known (w_open st) = false -> w_buf st' = []).
Proof.
  induction l as [|x l IH]; intros ids st Hc Hs Hi Hinv.
  - exists st. split; [apply wrun_ok_nil|]. cbn [enc_forest]. rewrite app_nil_r. repeat split; auto.
  - apply Forall_cons_iff in Hc. destruct Hc as [Hcx Hcl].
    destruct (write_full_g sp d x ids st Hcx Hs Hi Hinv) as [st1 [R1 [O1 [S1 [I1 [K1 U1]]]]]].
    assert (Hinv1 : has_known (w_open st1) = false -> w_buf st1 = []) by (rewrite O1; exact U1).
    assert (Hi1 : rev (open_ids (w_open st1)) = ids) by (rewrite O1; exact Hi).
    destruct (IH ids st1 Hcl S1 Hi1 Hinv1) as [st2 [R2 [O2 [S2 [I2 [K2 U2]]]]]].
    exists st2. split; [cbn [fops map]; eapply wrun_ok_cons; [exact R1|exact R2]|].
    split; [congruence|]. split; [exact S2|]. split; [rewrite I2, I1; cbn [enc_forest]; rewrite app_assoc; reflexivity|].
    rewrite O1 in K2, U2. split; [intros Hk; rewrite (K2 Hk); exact (K1 Hk)|exact U2].
Qed.

Theorem full_encodes_g sp d f : Forall (fconfg sp d []) f ->
  Forall (fun r => fst r = WOk) (fst (run_writer sp (fops d f) [])) /\ snd (run_writer sp (fops d f) []) = enc_forest f.
Proof.
  intros Hc.
  destruct (write_fulls_g sp d f [] (w_init []) Hc eq_refl eq_refl (fun _ => eq_refl)) as [st' [[R1 R2] [_ [_ [Him [_ Hu]]]]]].
  unfold run_writer. destruct (wrun sp (w_init []) (fops d f)) as [st rs]. cbn [fst snd] in *. subst st'.
  split; [exact R2|]. unfold image in Him. rewrite (Hu eq_refl), app_nil_r in Him. exact Him.
Qed.

Lemma fconfg_kconf c d t ids : fconfg (c_sp c) d ids t -> rconf c t -> all_known t -> kconf c ids t.
Proof.
  destruct t as [id v pl sl|id sz cs]; intros Hf Hr Hk; [apply (wconfg_kconf c d); assumption|].
  destruct Hf as [Hpath [Hty [Hsz [Hcs _]]]]. apply rconf_node in Hr. destruct Hr as [Hid [Hmax Hrs]].
  apply all_known_node in Hk. destruct Hk as [Hnn Hks]. apply kconf_node.
  split; [exact Hid|]. split.
  { destruct sz as [sl|]; [|contradiction Hnn; reflexivity]. exists sl. destruct (Hsz sl eq_refl) as [H1 [H2 _]].
    split; [reflexivity|split; assumption]. }
  split; [exact Hty|]. split; [exact Hpath|]. split; [exact Hmax|].
  rewrite Forall_forall in *. intros x Hin. apply (wconfg_kconf c true); [apply Hcs, Hin|apply Hrs, Hin|apply Hks, Hin].
Qed.

(* C01, second class, masters given as Full: every call succeeds and the strict reader yields the Full items unrolled *)
Theorem full_write_read_roundtrip_known c d f : strict c -> c_buffered c = [] -> c_emit_eof c = true ->
  Forall (fconfg (c_sp c) d []) f -> Forall (rconf c) f -> Forall all_known f -> dstart c f ->
  Forall (fun r => fst r = WOk) (fst (run_writer (c_sp c) (fops d f) [])) /\
  map out_tag (p_run c (snd (run_writer (c_sp c) (fops d f) [])) [RAll]) = map Some (flat (map full_tag f)) ++ [None].
Proof.
  intros Hs Hb He Hw Hr Hk Hd. destruct (full_encodes_g (c_sp c) d f Hw) as [Hok Henc]. split; [exact Hok|].
  rewrite Henc, flat_full_tags. apply reader_roundtrip_known_tags; try assumption.
  rewrite Forall_forall in *. intros t Hin. apply (fconfg_kconf c d t []); [apply Hw, Hin|apply Hr, Hin|apply Hk, Hin].
Qed.

(* ------------------------------------------------------------------ arbitrary mixes of Full and separate (as Proofs/WriteMixed.v) *)
Fixpoint pconfg (sp : spec) (d : bool) (ids : list N) (t : rtree) (p : pres) {struct t} : Prop :=
  match t with
  | RLeaf _ _ _ _ => wconfg sp d ids t
  | RNode id sz cs =>
      match p with
      | PFull => fconfg sp d ids t
      | PSep ps =>
          path_matches (get_path sp id) ids = true /\ get_type sp id = Some DMaster /\ (forall sl, sz = Some sl -> field_ok d sl (flen cs)) /\
          (fix all (l : list rtree) (ps : list pres) {struct l} : Prop :=
             match l with [] => True | x :: l' => pconfg sp d (ids ++ [id]) x (phd ps) /\ all l' (tl ps) end) cs ps
      end
  end.
Fixpoint pconfg_forest (sp : spec) (d : bool) (ids : list N) (l : list rtree) (ps : list pres) {struct l} : Prop :=
  match l with [] => True | x :: l' => pconfg sp d ids x (phd ps) /\ pconfg_forest sp d ids l' (tl ps) end.

Lemma pconfg_leaf sp d ids id v pl sl p : pconfg sp d ids (RLeaf id v pl sl) p = wconfg sp d ids (RLeaf id v pl sl).
Proof. reflexivity. Qed.

Lemma pconfg_full sp d ids id sz cs : pconfg sp d ids (RNode id sz cs) PFull = fconfg sp d ids (RNode id sz cs).
Proof. reflexivity. Qed.

Lemma pconfg_sep sp d ids id sz cs ps : pconfg sp d ids (RNode id sz cs) (PSep ps) <->
  path_matches (get_path sp id) ids = true /\ get_type sp id = Some DMaster /\ (forall sl, sz = Some sl -> field_ok d sl (flen cs)) /\
  pconfg_forest sp d (ids ++ [id]) cs ps.
Proof.
  cbn [pconfg].
  assert (H : forall l qs, (fix all (l : list rtree) (ps : list pres) {struct l} : Prop :=
                 match l with [] => True | x :: l' => pconfg sp d (ids ++ [id]) x (phd ps) /\ all l' (tl ps) end) l qs
              = pconfg_forest sp d (ids ++ [id]) l qs).
  { induction l as [|x l IH]; intros qs; [reflexivity|]. cbn [pconfg_forest]. rewrite <- IH. reflexivity. }
  rewrite H. tauto.
Qed.

Lemma pconf_pconfg sp d : forall t ids p, pconf sp d ids t p -> pconfg sp d ids t p.
Proof.
  induction t as [id v pl sl|id sz cs IH] using rtree_ind'; intros ids p H.
  - rewrite pconfg_leaf. rewrite pconf_leaf in H. apply wconf_wconfg, H.
  - destruct p as [|ps].
    + rewrite pconfg_full. rewrite pconf_full in H. apply fconf_fconfg, H.
    + apply pconf_sep in H. destruct H as [Hp [Hty [Hsz Hcs]]]. apply pconfg_sep.
      split; [rewrite Hp; apply path_matches_ids|]. split; [exact Hty|]. split; [exact Hsz|].
      clear Hsz. revert ps Hcs. induction cs as [|x l IHl]; intros ps Hcs; [exact I|].
      apply Forall_cons_iff in IH. destruct IH as [Hx Hl]. cbn [pconf_forest] in Hcs. destruct Hcs as [Hcx Hcl].
      cbn [pconfg_forest]. split; [apply Hx, Hcx|apply (IHl Hl), Hcl].
Qed.

Definition Wpres_g (sp : spec) (d : bool) (t : rtree) (p : pres) : Prop :=
  forall ids st, pconfg sp d ids t p -> w_script st = [] -> rev (open_ids (w_open st)) = ids -> (has_known (w_open st) = false -> w_buf st = []) ->
  exists st', wrun_ok sp st (pops d t p) st' /\ w_open st' = w_open st /\ w_script st' = [] /\ image st' = image st ++ enc_tree t /\
    (has_known (w_open st) = true -> w_dest st' = w_dest st) /\ (has_known (w_open st) = false -> w_buf st' = []).

Lemma write_pres_forest_g sp d : forall l, Forall (fun t => forall p, Wpres_g sp d t p) l -> forall ps ids st, pconfg_forest sp d ids l ps ->
  w_script st = [] -> rev (open_ids (w_open st)) = ids -> (has_known (w_open st) = false -> w_buf st = []) ->
  exists st', wrun_ok sp st (pops_forest d l ps) st' /\ w_open st' = w_open st /\ w_script st' = [] /\ image st' = image st ++ enc_forest l /\
    (has_known (w_open st) = true -> w_dest st' = w_dest st) /\ (has_known (w_open st) = false -> w_buf st' = []).
Proof.
  induction l as [|x l IH]; intros HW ps ids st Hc Hs Hi Hinv.
  - exists st. split; [apply wrun_ok_nil|]. cbn [enc_forest]. rewrite app_nil_r. repeat split; auto.
  - apply Forall_cons_iff in HW. destruct HW as [HWx HWl]. cbn [pconfg_forest] in Hc. destruct Hc as [Hcx Hcl].
    destruct (HWx (phd ps) ids st Hcx Hs Hi Hinv) as [st1 [R1 [O1 [S1 [I1 [K1 U1]]]]]].
    assert (Hinv1 : has_known (w_open st1) = false -> w_buf st1 = []) by (rewrite O1; exact U1).
    assert (Hi1 : rev (open_ids (w_open st1)) = ids) by (rewrite O1; exact Hi).
    destruct (IH HWl (tl ps) ids st1 Hcl S1 Hi1 Hinv1) as [st2 [R2 [O2 [S2 [I2 [K2 U2]]]]]].
    exists st2. split; [cbn [pops_forest]; eapply wrun_ok_app; eassumption|].
    split; [congruence|]. split; [exact S2|]. split; [rewrite I2, I1; cbn [enc_forest]; rewrite app_assoc; reflexivity|].
    rewrite O1 in K2, U2. split; [intros Hk; rewrite (K2 Hk); exact (K1 Hk)|exact U2].
Qed.

Lemma write_pres_g sp d : forall t p, Wpres_g sp d t p.
Proof.
  induction t as [id v pl sl|id sz cs IH] using rtree_ind'; intros p; unfold Wpres_g; intros ids st Hc Hs Hi Hinv.
  - (* an element: the presentation does not matter *)
    rewrite pops_leaf. rewrite pconfg_leaf in Hc. exact (write_tree_g sp d (RLeaf id v pl sl) ids st Hc Hs Hi Hinv).
  - destruct p as [|ps].
    + (* a master given as one Full item *)
      rewrite pops_full. rewrite pconfg_full in Hc.
      destruct (write_full_g sp d (RNode id sz cs) ids st Hc Hs Hi Hinv) as [st' [Hstep [Ho [Hsc [Him [Hk Hu]]]]]].
      exists st'. split; [eapply wrun_ok_cons; [exact Hstep|apply wrun_ok_nil]|].
      split; [exact Ho|]. split; [exact Hsc|]. split; [exact Him|]. split; [exact Hk|exact Hu].
    + (* a master written as Start, children, End: as in write_tree_g, the children by the induction hypothesis *)
      apply pconfg_sep in Hc. destruct Hc as [Hpath [Hty [Hsz Hcs]]]. rewrite pops_sep.
      assert (Hval : w_validate sp id (w_open st) = true) by (apply (validate_match sp id (w_open st) ids Hpath Hi)).
      destruct sz as [sl|].
      * pose proof (Hsz sl eq_refl) as Hf. assert (Hsl : (1 <= sl <= 8)%nat) by (destruct Hf; assumption).
        assert (Hb : buffer_tag sp (TStart id) (wopt d sl) st = (start_tag st id (wsl d sl), WOk)).
        { rewrite buffer_tag_eq; raw_simpl. cbn [tag_id is_master_tag negb]. rewrite Hty.
          assert (Hu : o_unknown (wopt d sl) = false) by (destruct d; reflexivity). rewrite Hu. cbn [andb is_master_ty].
          unfold should_validate; raw_simpl. cbn [tag_id is_end negb]. rewrite Hty, Hval. cbn [negb andb].
          unfold buffer_act; raw_simpl. rewrite Hu. cbn [tag_id]. rewrite Hty, (size_len_of_wopt d sl Hsl). reflexivity. }
        cbn [node_opt].
        destruct (write_step sp st _ _ _ Hb Hs) as [st1 [Hstep1 [Ho1 [Hsc1 [Him1 [Hk1 _]]]]]].
        cbn [start_tag set_open w_open w_buf] in Ho1, Him1, Hk1.
        assert (Hkn1 : has_known (w_open st1) = true) by (rewrite Ho1; reflexivity).
        destruct (Hk1 eq_refl) as [Hd1 Hb1].
        assert (Hi1 : rev (open_ids (w_open st1)) = ids ++ [id]) by (rewrite Ho1; unfold open_ids in *; cbn [map rev fst]; rewrite Hi; reflexivity).
        assert (Hinv1 : has_known (w_open st1) = false -> w_buf st1 = []) by (rewrite Hkn1; discriminate).
        destruct (write_pres_forest_g sp d cs IH ps _ st1 Hcs Hsc1 Hi1 Hinv1) as [st2 [R2 [O2 [S2 [I2 [K2 _]]]]]].
        pose proof (K2 Hkn1) as Hd2.
        assert (Hb2 : w_buf st2 = w_buf st ++ enc_forest cs).
        { unfold image in I2. rewrite Hd2, Hb1, <- app_assoc in I2. apply app_inv_head in I2. exact I2. }
        assert (He : buffer_tag sp (TEnd id) o_default st2 =
                     (set_open (set_buf st2 (w_buf st ++ id_bytes id ++ venc sl (flen cs) ++ enc_forest cs)) (w_open st), WOk)).
        { rewrite (end_step sp st2 id Hty). unfold end_tag. rewrite O2, Ho1. rewrite N.eqb_refl, Hb2, app_length.
          destruct (Nat.ltb_spec (length (w_buf st) + length (enc_forest cs)) (length (w_buf st))); [lia|].
          replace (length (w_buf st) + length (enc_forest cs) - length (w_buf st))%nat with (length (enc_forest cs)) by lia.
          fold (flen cs). rewrite (size_to_vint_field d sl (flen cs) Hf).
          rewrite firstn_app, firstn_all, Nat.sub_diag, skipn_app, skipn_all, Nat.sub_diag. cbn [firstn skipn app]. rewrite app_nil_r. reflexivity. }
        destruct (write_step sp st2 _ _ _ He S2) as [st3 [Hstep3 [Ho3 [Hsc3 [Him3 [Hk3 Hu3]]]]]].
        cbn [set_open set_buf w_open w_buf] in Ho3, Him3, Hk3, Hu3.
        exists st3. split.
        { eapply wrun_ok_cons; [exact Hstep1|]. eapply wrun_ok_app; [exact R2|]. eapply wrun_ok_cons; [exact Hstep3|apply wrun_ok_nil]. }
        split; [exact Ho3|]. split; [exact Hsc3|]. split.
        { rewrite Him3, Hd2, Hd1. unfold image. rewrite enc_tree_node, <- !app_assoc. reflexivity. }
        split; [intros Hkn; destruct (Hk3 Hkn) as [Hd3 _]; rewrite Hd3, Hd2, Hd1; reflexivity|exact Hu3].
      * assert (Hb : buffer_tag sp (TStart id) opts_unknown st = (start_unknown_size_tag st id, WOk)).
        { rewrite buffer_tag_eq; raw_simpl. cbn [tag_id is_master_tag negb opts_unknown o_unknown]. rewrite Hty. cbn [andb is_master_ty negb].
          unfold should_validate; raw_simpl. cbn [tag_id is_end negb]. rewrite Hty, Hval. cbn [negb andb].
          unfold buffer_act; raw_simpl. cbn [o_unknown opts_unknown]. reflexivity. }
        cbn [node_opt].
        destruct (write_step sp st _ _ _ Hb Hs) as [st1 [Hstep1 [Ho1 [Hsc1 [Him1 [Hk1 Hu1]]]]]].
        cbn [start_unknown_size_tag set_open set_buf w_open w_buf] in Ho1, Him1, Hk1, Hu1.
        assert (Hkn1 : has_known (w_open st1) = has_known (w_open st)) by (rewrite Ho1; reflexivity).
        assert (Hi1 : rev (open_ids (w_open st1)) = ids ++ [id]) by (rewrite Ho1; unfold open_ids in *; cbn [map rev fst]; rewrite Hi; reflexivity).
        assert (Hinv1 : has_known (w_open st1) = false -> w_buf st1 = []) by (rewrite Ho1; exact Hu1).
        destruct (write_pres_forest_g sp d cs IH ps _ st1 Hcs Hsc1 Hi1 Hinv1) as [st2 [R2 [O2 [S2 [I2 [K2 U2]]]]]].
        assert (He : buffer_tag sp (TEnd id) o_default st2 = (set_open st2 (w_open st), WOk)).
        { rewrite (end_step sp st2 id Hty). unfold end_tag. rewrite O2, Ho1. rewrite N.eqb_refl. reflexivity. }
        destruct (write_step sp st2 _ _ _ He S2) as [st3 [Hstep3 [Ho3 [Hsc3 [Him3 [Hk3 Hu3]]]]]].
        cbn [set_open w_open w_buf] in Ho3, Him3, Hk3, Hu3.
        exists st3. split.
        { eapply wrun_ok_cons; [exact Hstep1|]. eapply wrun_ok_app; [exact R2|]. eapply wrun_ok_cons; [exact Hstep3|apply wrun_ok_nil]. }
        split; [exact Ho3|]. split; [exact Hsc3|]. split.
        { rewrite Him3. fold (image st2). rewrite I2, Him1, enc_tree_node. unfold image. rewrite <- !app_assoc. reflexivity. }
        split; [|exact Hu3].
        intros Hkn. destruct (Hk3 Hkn) as [Hd3 _]. rewrite Hd3. rewrite Hkn1 in K2. rewrite (K2 Hkn). destruct (Hk1 Hkn) as [Hx _]. exact Hx.
Qed.

(* whatever the presentation, every call succeeds and the bytes are the structural encoding *)
Theorem mixed_encodes_g sp d f ps : pconfg_forest sp d [] f ps ->
  Forall (fun r => fst r = WOk) (fst (run_writer sp (pops_forest d f ps) [])) /\
  snd (run_writer sp (pops_forest d f ps) []) = enc_forest f.
Proof.
  intros Hc.
  assert (HW : Forall (fun t => forall p, Wpres_g sp d t p) f) by (apply Forall_forall; intros t _; apply write_pres_g).
  destruct (write_pres_forest_g sp d f HW ps [] (w_init []) Hc eq_refl eq_refl (fun _ => eq_refl)) as [st' [[R1 R2] [_ [_ [Him [_ Hu]]]]]].
  unfold run_writer. destruct (wrun sp (w_init []) (pops_forest d f ps)) as [st rs]. cbn [fst snd] in *. subst st'.
  split; [exact R2|]. unfold image in Him. rewrite (Hu eq_refl), app_nil_r in Him. exact Him.
Qed.

Corollary presentation_irrelevant_g sp d f ps1 ps2 : pconfg_forest sp d [] f ps1 -> pconfg_forest sp d [] f ps2 ->
  snd (run_writer sp (pops_forest d f ps1) []) = snd (run_writer sp (pops_forest d f ps2) []).
Proof.
  intros H1 H2. destruct (mixed_encodes_g sp d f ps1 H1) as [_ ->]. destruct (mixed_encodes_g sp d f ps2 H2) as [_ ->]. reflexivity.
Qed.

Lemma pconfg_kconf c d : forall t ids p, pconfg (c_sp c) d ids t p -> rconf c t -> all_known t -> kconf c ids t.
Proof.
  induction t as [id v pl sl|id sz cs IH] using rtree_ind'; intros ids p Hw Hr Hk.
  - rewrite pconfg_leaf in Hw. apply (wconfg_kconf c d); assumption.
  - destruct p as [|ps].
    + rewrite pconfg_full in Hw. apply (fconfg_kconf c d); assumption.
    + apply pconfg_sep in Hw. apply rconf_node in Hr. apply all_known_node in Hk. apply kconf_node.
      destruct Hw as [Hpath [Hty [Hsz Hcs]]]. destruct Hr as [Hid [Hmax Hrs]]. destruct Hk as [Hnn Hks].
      split; [exact Hid|]. split.
      { destruct sz as [sl|]; [|contradiction Hnn; reflexivity]. exists sl. destruct (Hsz sl eq_refl) as [H1 [H2 _]].
        split; [reflexivity|split; assumption]. }
      split; [exact Hty|]. split; [exact Hpath|]. split; [exact Hmax|].
      clear Hsz Hmax. revert ps Hcs. induction cs as [|x l IHl]; intros ps Hcs; [constructor|].
      apply Forall_cons_iff in IH. destruct IH as [Hx Hl]. cbn [pconfg_forest] in Hcs. destruct Hcs as [Hcx Hcl].
      apply Forall_cons_iff in Hrs. destruct Hrs as [Hrx Hrl]. apply Forall_cons_iff in Hks. destruct Hks as [Hkx Hkl].
      constructor; [apply (Hx _ (phd ps)); assumption|apply (IHl Hl Hrl Hkl (tl ps)); assumption].
Qed.

Lemma pconfg_forest_kconf c d ids : forall l ps, pconfg_forest (c_sp c) d ids l ps -> Forall (rconf c) l -> Forall all_known l ->
  Forall (kconf c ids) l.
Proof.
  induction l as [|x l IH]; intros ps Hc Hr Hk; [constructor|]. cbn [pconfg_forest] in Hc. destruct Hc as [Hcx Hcl].
  apply Forall_cons_iff in Hr. destruct Hr as [Hrx Hrl]. apply Forall_cons_iff in Hk. destruct Hk as [Hkx Hkl].
  constructor; [apply (pconfg_kconf c d x ids (phd ps)); assumption|apply (IH (tl ps)); assumption].
Qed.

(* the tags written under a presentation, Full items unrolled, are the tags of the document *)
Definition wtags (ops : list wop) : list tag := flat_map (fun op => match op with OpWrite t _ => [t] | _ => [] end) ops.

Lemma wtags_app a b : wtags (a ++ b) = wtags a ++ wtags b.
Proof. unfold wtags. apply flat_map_app. Qed.

Lemma pops_tags d : forall t p, flat (wtags (pops d t p)) = tags_tree t.
Proof.
  induction t as [id v pl sl|id sz cs IH] using rtree_ind'; intros p; [reflexivity|].
  destruct p as [|ps].
  - rewrite pops_full. cbn [wtags flat_map app]. apply flat_full_tag.
  - rewrite pops_sep, tags_tree_node.
    change (OpWrite (TStart id) (node_opt d sz) :: pops_forest d cs ps ++ [OpWrite (TEnd id) o_default])
      with ([OpWrite (TStart id) (node_opt d sz)] ++ pops_forest d cs ps ++ [OpWrite (TEnd id) o_default]).
    rewrite !wtags_app, !flat_app. cbn [wtags flat_map app flat flat1]. f_equal. f_equal.
    revert ps. induction cs as [|x l IHl]; intros ps; [reflexivity|]. apply Forall_cons_iff in IH. destruct IH as [Hx Hl].
    cbn [pops_forest tags_forest]. rewrite wtags_app. fold (flat (wtags (pops d x (phd ps)) ++ wtags (pops_forest d l (tl ps)))).
    rewrite flat_app, Hx. f_equal. apply (IHl Hl).
Qed.

Lemma pops_forest_tags d : forall l ps, flat (wtags (pops_forest d l ps)) = tags_forest l.
Proof.
  induction l as [|x l IH]; intros ps; [reflexivity|]. cbn [pops_forest tags_forest]. rewrite wtags_app, flat_app, pops_tags, IH. reflexivity.
Qed.

(* C01, second class, any mix of Full and separately written masters *)
Theorem mixed_write_read_roundtrip_known c d f ps : strict c -> c_buffered c = [] -> c_emit_eof c = true ->
  pconfg_forest (c_sp c) d [] f ps -> Forall (rconf c) f -> Forall all_known f -> dstart c f ->
  Forall (fun r => fst r = WOk) (fst (run_writer (c_sp c) (pops_forest d f ps) [])) /\
  map out_tag (p_run c (snd (run_writer (c_sp c) (pops_forest d f ps) [])) [RAll]) = map Some (flat (wtags (pops_forest d f ps))) ++ [None].
Proof.
  intros Hs Hb He Hw Hr Hk Hd. destruct (mixed_encodes_g (c_sp c) d f ps Hw) as [Hok Henc]. split; [exact Hok|].
  rewrite Henc, pops_forest_tags. apply reader_roundtrip_known_tags; try assumption.
  apply (pconfg_forest_kconf c d [] f ps); assumption.
Qed.
