(* Proofs about the model of the derive crate (Model/Derive.v): what an accepted declaration's
   table contains, internal consistency of the generated constructors/accessors, spec_ok, and
   one rejection lemma per malformation class. *)
From Ebml Require Import Base Tools Spec Reader Derive Proofs.Tactics.

Local Open Scope N_scope.

(* ------------------------------------------------------------------ small facts *)

Lemma optN_eqb_eq a b : optN_eqb a b = true <-> a = b.
Proof.
  destruct a, b; simpl; split; intro H; try discriminate; try reflexivity.
  - apply N.eqb_eq in H. now subst.
  - inversion H. apply N.eqb_refl.
Qed.

Lemma ppart_eqb_eq a b : ppart_eqb a b = true <-> a = b.
Proof.
  destruct a, b; simpl; split; intro H; try discriminate.
  - apply N.eqb_eq in H. now subst.
  - inversion H. apply N.eqb_refl.
  - apply andb_true_iff in H. destruct H as [H1 H2].
    apply optN_eqb_eq in H1. apply optN_eqb_eq in H2. now subst.
  - inversion H; subst. apply andb_true_iff. split; now apply optN_eqb_eq.
Qed.

Lemma dtype_eqb_eq a b : dtype_eqb a b = true <-> a = b.
Proof. destruct a, b; simpl; split; intro H; try discriminate; reflexivity. Qed.

Lemma list_eqb_eq {A} (eqb : A -> A -> bool) :
  (forall a b, eqb a b = true <-> a = b) -> forall l1 l2, list_eqb eqb l1 l2 = true <-> l1 = l2.
Proof.
  intros He. induction l1 as [|x l1 IH]; destruct l2 as [|y l2]; simpl; split; intro H; try discriminate; try reflexivity.
  - apply andb_true_iff in H. destruct H as [H1 H2]. apply He in H1. apply IH in H2. now subst.
  - inversion H; subst. apply andb_true_iff. split. now apply He. now apply IH.
Qed.

Lemma existsb_eqb_in n l : existsb (N.eqb n) l = true <-> In n l.
Proof.
  rewrite existsb_exists. split.
  - intros [x [Hx He]]. apply N.eqb_eq in He. now subst.
  - intro H. exists n. split. assumption. apply N.eqb_refl.
Qed.

Lemma has_dup_false l : has_dup l = false <-> NoDup l.
Proof.
  induction l as [|x l IH]; simpl.
  - split; intro; [constructor | reflexivity].
  - rewrite orb_false_iff. split.
    + intros [H1 H2]. constructor.
      * intro Hin. apply existsb_eqb_in in Hin. congruence.
      * now apply IH.
    + intro H. inversion H; subst. split.
      * destruct (existsb (N.eqb x) l) eqn:E; [|reflexivity]. apply existsb_eqb_in in E. contradiction.
      * now apply IH.
Qed.

Lemma map_opt_Forall2 {A B} (f : A -> option B) : forall l r,
  map_opt f l = Some r -> Forall2 (fun x y => f x = Some y) l r.
Proof.
  induction l as [|x l IH]; simpl; intros r H.
  - inversion H. constructor.
  - destruct (f x) eqn:E; [|discriminate]. destruct (map_opt f l) eqn:E2; [|discriminate].
    inversion H; subst. constructor. assumption. now apply IH.
Qed.

Lemma map_opt_none {A B} (f : A -> option B) : forall l x, In x l -> f x = None -> map_opt f l = None.
Proof.
  induction l as [|y l IH]; simpl; intros x Hin Hx. contradiction.
  destruct Hin as [->|Hin].
  - now rewrite Hx.
  - destruct (f y); [|reflexivity]. now rewrite (IH x Hin Hx).
Qed.

Lemma Forall2_in_l {A B} (R : A -> B -> Prop) l1 l2 x :
  Forall2 R l1 l2 -> In x l1 -> exists y, In y l2 /\ R x y.
Proof.
  induction 1; simpl; intro Hin. contradiction.
  destruct Hin as [->|Hin]. eauto. destruct (IHForall2 Hin) as [y' [? ?]]. eauto.
Qed.

Lemma Forall2_in_r {A B} (R : A -> B -> Prop) l1 l2 y :
  Forall2 R l1 l2 -> In y l2 -> exists x, In x l1 /\ R x y.
Proof.
  induction 1; simpl; intro Hin. contradiction.
  destruct Hin as [->|Hin]. eauto. destruct (IHForall2 Hin) as [x' [? ?]]. eauto.
Qed.

Lemma Forall2_map_eq {A B C} (R : A -> B -> Prop) (f : A -> C) (g : B -> C) l1 l2 :
  Forall2 R l1 l2 -> (forall x y, R x y -> f x = g y) -> map f l1 = map g l2.
Proof. induction 1; simpl; intro H'. reflexivity. f_equal. now apply H'. now apply IHForall2. Qed.

(* ------------------------------------------------------------------ scan_attrs *)

Lemma attr_step_shape names a x a' : attr_step names a x = Some a' ->
  match x with
  | AId i => a_id a = None /\ i <= u64_max /\ a' = {| a_id := Some i; a_ty := a_ty a; a_path := a_path a |}
  | AType t => a_ty a = None /\ exists ty, t = Some ty /\ a' = {| a_id := a_id a; a_ty := Some ty; a_path := a_path a |}
  | APath ps => a_path a = None /\ ps <> [] /\ check_parts names false ps = true /\
                a' = {| a_id := a_id a; a_ty := a_ty a; a_path := Some ps |}
  | AOther => a' = a
  end.
Proof.
  destruct x; simpl.
  - destruct (a_id a); [discriminate|]. destruct (id <=? u64_max) eqn:E; [|discriminate].
    intro H; inversion H. repeat split. apply N.leb_le. assumption.
  - destruct (a_ty a); [discriminate|]. destruct ty; [|discriminate]. intro H; inversion H. split; eauto.
  - destruct (a_path a); [discriminate|]. destruct parts as [|p ps]; [discriminate|].
    destruct (check_parts names false (p :: ps)) eqn:E; [|discriminate]. intro H; inversion H.
    repeat split. discriminate.
  - intro H; inversion H. reflexivity.
Qed.

Lemma scan_app names : forall l1 l2 a,
  scan_attrs names a (l1 ++ l2) =
  match scan_attrs names a l1 with Some a1 => scan_attrs names a1 l2 | None => None end.
Proof.
  induction l1 as [|x l1 IH]; simpl; intros. reflexivity.
  destruct (attr_step names a x); [apply IH | reflexivity].
Qed.

(* the id slot *)
Lemma scan_id names : forall l a a', scan_attrs names a l = Some a' ->
  (forall i, In (AId i) l -> a_id a = None /\ a_id a' = Some i /\ i <= u64_max) /\
  ((forall i, ~ In (AId i) l) -> a_id a' = a_id a) /\
  (forall i, a_id a' = Some i -> a_id a = Some i \/ In (AId i) l).
Proof.
  induction l as [|x l IH]; simpl; intros a a' H.
  - inversion H; subst. repeat split; try contradiction; auto.
  - destruct (attr_step names a x) as [a1|] eqn:E; [|discriminate].
    apply attr_step_shape in E. destruct (IH _ _ H) as [I1 [I2 I3]].
    destruct x.
    + destruct E as [E0 [E1 E2]]. subst a1. simpl in *.
      assert (Hno : forall i, ~ In (AId i) l).
      { intros i Hi. destruct (I1 i Hi) as [C _]. discriminate. }
      split; [|split].
      * intros i [Hi|Hi]; [|exfalso; eapply Hno; eauto]. inversion Hi; subst.
        rewrite (I2 Hno). auto.
      * intros Hn. exfalso. apply (Hn id). now left.
      * intros i Hi. rewrite (I2 Hno) in Hi. inversion Hi; subst. right. now left.
    + destruct E as [E0 [ty' [E1 E2]]]. subst a1. simpl in *.
      split; [|split].
      * intros i [Hi|Hi]; [discriminate|]. auto.
      * intros Hn. apply I2. intros i Hi. apply (Hn i). now right.
      * intros i Hi. destruct (I3 i Hi); auto.
    + destruct E as [E0 [E1 [E2 E3]]]. subst a1. simpl in *.
      split; [|split].
      * intros i [Hi|Hi]; [discriminate|]. auto.
      * intros Hn. apply I2. intros i Hi. apply (Hn i). now right.
      * intros i Hi. destruct (I3 i Hi); auto.
    + subst a1. split; [|split].
      * intros i [Hi|Hi]; [discriminate|]. auto.
      * intros Hn. apply I2. intros i Hi. apply (Hn i). now right.
      * intros i Hi. destruct (I3 i Hi); auto.
Qed.

(* the data_type slot *)
Lemma scan_ty names : forall l a a', scan_attrs names a l = Some a' ->
  (forall t, In (AType t) l -> a_ty a = None /\ exists ty, t = Some ty /\ a_ty a' = Some ty) /\
  ((forall t, ~ In (AType t) l) -> a_ty a' = a_ty a) /\
  (forall ty, a_ty a' = Some ty -> a_ty a = Some ty \/ In (AType (Some ty)) l).
Proof.
  induction l as [|x l IH]; simpl; intros a a' H.
  - inversion H; subst. repeat split; try contradiction; auto.
  - destruct (attr_step names a x) as [a1|] eqn:E; [|discriminate].
    apply attr_step_shape in E. destruct (IH _ _ H) as [I1 [I2 I3]].
    destruct x.
    + destruct E as [E0 [E1 E2]]. subst a1. simpl in *.
      split; [|split].
      * intros t [Hi|Hi]; [discriminate|]. auto.
      * intros Hn. apply I2. intros t Hi. apply (Hn t). now right.
      * intros t Hi. destruct (I3 t Hi); auto.
    + destruct E as [E0 [ty' [E1 E2]]]. subst a1 ty. simpl in *.
      assert (Hno : forall t, ~ In (AType t) l).
      { intros t Hi. destruct (I1 t Hi) as [C _]. discriminate. }
      split; [|split].
      * intros t [Hi|Hi]; [|exfalso; eapply Hno; eauto]. inversion Hi; subst.
        split; [assumption|]. exists ty'. split; [reflexivity|]. now rewrite (I2 Hno).
      * intros Hn. exfalso. apply (Hn (Some ty')). now left.
      * intros t Hi. rewrite (I2 Hno) in Hi. inversion Hi; subst. right. now left.
    + destruct E as [E0 [E1 [E2 E3]]]. subst a1. simpl in *.
      split; [|split].
      * intros t [Hi|Hi]; [discriminate|]. auto.
      * intros Hn. apply I2. intros t Hi. apply (Hn t). now right.
      * intros t Hi. destruct (I3 t Hi); auto.
    + subst a1. split; [|split].
      * intros t [Hi|Hi]; [discriminate|]. auto.
      * intros Hn. apply I2. intros t Hi. apply (Hn t). now right.
      * intros t Hi. destruct (I3 t Hi); auto.
Qed.

(* the doc_path slot *)
Lemma scan_path names : forall l a a', scan_attrs names a l = Some a' ->
  (forall p, In (APath p) l -> a_path a = None /\ a_path a' = Some p /\ p <> [] /\ check_parts names false p = true) /\
  ((forall p, ~ In (APath p) l) -> a_path a' = a_path a) /\
  (forall p, a_path a' = Some p -> a_path a = Some p \/ In (APath p) l).
Proof.
  induction l as [|x l IH]; simpl; intros a a' H.
  - inversion H; subst. repeat split; try contradiction; auto.
  - destruct (attr_step names a x) as [a1|] eqn:E; [|discriminate].
    apply attr_step_shape in E. destruct (IH _ _ H) as [I1 [I2 I3]].
    destruct x.
    + destruct E as [E0 [E1 E2]]. subst a1. simpl in *.
      split; [|split].
      * intros t [Hi|Hi]; [discriminate|]. auto.
      * intros Hn. apply I2. intros t Hi. apply (Hn t). now right.
      * intros t Hi. destruct (I3 t Hi); auto.
    + destruct E as [E0 [ty' [E1 E2]]]. subst a1. simpl in *.
      split; [|split].
      * intros t [Hi|Hi]; [discriminate|]. auto.
      * intros Hn. apply I2. intros t Hi. apply (Hn t). now right.
      * intros t Hi. destruct (I3 t Hi); auto.
    + destruct E as [E0 [E1 [E2 E3]]]. subst a1. simpl in *.
      assert (Hno : forall t, ~ In (APath t) l).
      { intros t Hi. destruct (I1 t Hi) as [C _]. discriminate. }
      split; [|split].
      * intros t [Hi|Hi]; [|exfalso; eapply Hno; eauto]. inversion Hi; subst.
        rewrite (I2 Hno). auto.
      * intros Hn. exfalso. apply (Hn parts). now left.
      * intros t Hi. rewrite (I2 Hno) in Hi. inversion Hi; subst. right. now left.
    + subst a1. split; [|split].
      * intros t [Hi|Hi]; [discriminate|]. auto.
      * intros Hn. apply I2. intros t Hi. apply (Hn t). now right.
      * intros t Hi. destruct (I3 t Hi); auto.
Qed.

(* an attribute that no accumulator accepts makes the scan fail *)
Lemma scan_bad_attr names x : (forall a, attr_step names a x = None) ->
  forall l a, In x l -> scan_attrs names a l = None.
Proof.
  intros Hx. induction l as [|y l IH]; simpl; intros a Hin. contradiction.
  destruct Hin as [->|Hin]. now rewrite Hx.
  destruct (attr_step names a y); [now apply IH | reflexivity].
Qed.

Definition same_kind (x y : attr) : bool :=
  match x, y with
  | AId _, AId _ | AType _, AType _ | APath _, APath _ => true
  | _, _ => false
  end.

Lemma scan_dup_attr names l1 x l2 y l3 a :
  same_kind x y = true -> scan_attrs names a (l1 ++ x :: l2 ++ y :: l3) = None.
Proof.
  intros Hk. rewrite scan_app. destruct (scan_attrs names a l1) as [a1|]; [|reflexivity].
  simpl. destruct (attr_step names a1 x) as [a2|] eqn:E; [|reflexivity].
  destruct (scan_attrs names a2 (l2 ++ y :: l3)) as [a'|] eqn:E2; [|reflexivity]. exfalso.
  apply attr_step_shape in E.
  assert (Hy : In y (l2 ++ y :: l3)) by (apply in_or_app; right; now left).
  destruct x, y; try discriminate.
  - destruct E as [_ [_ ->]]. destruct (scan_id _ _ _ _ E2) as [I1 _].
    destruct (I1 _ Hy) as [C _]. discriminate.
  - destruct E as [_ [ty' [_ ->]]]. destruct (scan_ty _ _ _ _ E2) as [I1 _].
    destruct (I1 _ Hy) as [C _]. discriminate.
  - destruct E as [_ [_ [_ ->]]]. destruct (scan_path _ _ _ _ E2) as [I1 _].
    destruct (I1 _ Hy) as [C _]. discriminate.
Qed.

(* ------------------------------------------------------------------ check_parts *)

Lemma check_parts_ident names : forall p b n,
  check_parts names b p = true -> In (PPIdent n) p -> In n names.
Proof.
  induction p as [|x p IH]; simpl; intros b n H Hin. contradiction.
  destruct x.
  - apply andb_true_iff in H. destruct H as [H1 H2]. destruct Hin as [Hin|Hin].
    + inversion Hin; subst. now apply existsb_eqb_in.
    + eauto.
  - destruct Hin as [Hin|Hin]; [discriminate|].
    repeat (apply andb_true_iff in H; destruct H as [H ?]). eauto.
Qed.

Lemma check_parts_max0 names : forall p b mn,
  In (PPGlobal mn (Some 0)) p -> check_parts names b p = false.
Proof.
  induction p as [|x p IH]; simpl; intros b mn Hin. contradiction.
  destruct Hin as [->|Hin].
  - cbn [check_parts]. replace (optN_eqb (Some 0) (Some 0)) with true by (symmetry; now apply optN_eqb_eq).
    cbn [negb]. now rewrite !andb_false_r.
  - destruct x.
    + rewrite (IH _ _ Hin). apply andb_false_r.
    + rewrite (IH _ _ Hin). apply andb_false_r.
Qed.

Lemma check_parts_adjacent names : forall pre b a1 a2 b1 b2 post,
  check_parts names b (pre ++ PPGlobal a1 a2 :: PPGlobal b1 b2 :: post) = false.
Proof.
  induction pre as [|x pre IH]; simpl; intros.
  - rewrite !andb_false_r. reflexivity.
  - destruct x; rewrite IH; apply andb_false_r.
Qed.

Lemma check_parts_overflow names : forall p b mn mx,
  In (PPGlobal mn mx) p -> fits_u64 mn && fits_u64 mx = false -> check_parts names b p = false.
Proof.
  induction p as [|x p IH]; simpl; intros b mn mx Hin Hf. contradiction.
  destruct Hin as [->|Hin].
  - now rewrite Hf.
  - destruct x; rewrite (IH _ _ _ Hin Hf); apply andb_false_r.
Qed.

(* ------------------------------------------------------------------ variant_from_syn *)

Lemma from_syn_spec names v pv : variant_from_syn names v = Some pv ->
  pv_name pv = v_name v /\
  (forall i, In (AId i) (v_attrs v) -> i = pv_id pv) /\ In (AId (pv_id pv)) (v_attrs v) /\
  (forall t, In (AType t) (v_attrs v) -> t = Some (pv_ty pv)) /\ In (AType (Some (pv_ty pv))) (v_attrs v) /\
  (forall p, In (APath p) (v_attrs v) -> pv_path pv = Some p) /\
  ((forall p, ~ In (APath p) (v_attrs v)) -> pv_path pv = None) /\
  (forall p, pv_path pv = Some p -> In (APath p) (v_attrs v) /\ p <> [] /\ check_parts names false p = true).
Proof.
  unfold variant_from_syn. destruct (scan_attrs names acc0 (v_attrs v)) as [a|] eqn:E; [|discriminate].
  destruct (a_id a) as [i|] eqn:Ei; [|discriminate]. destruct (a_ty a) as [t|] eqn:Et; [|discriminate].
  intro H; inversion H; subst; clear H. simpl.
  destruct (scan_id _ _ _ _ E) as [A1 [A2 A3]].
  destruct (scan_ty _ _ _ _ E) as [B1 [B2 B3]].
  destruct (scan_path _ _ _ _ E) as [C1 [C2 C3]].
  split; [reflexivity|]. split; [|split; [|split; [|split; [|split; [|split]]]]].
  - intros j Hj. destruct (A1 j Hj) as [_ [Hj' _]]. congruence.
  - destruct (A3 i Ei) as [C|C]; [discriminate|assumption].
  - intros t' Ht. destruct (B1 t' Ht) as [_ [ty' [-> Hty]]]. congruence.
  - destruct (B3 t Et) as [C|C]; [discriminate|assumption].
  - intros p Hp. now destruct (C1 p Hp) as [_ [Hp' _]].
  - intros Hn. now rewrite (C2 Hn).
  - intros p Hp. destruct (C3 p Hp) as [C|C]; [discriminate|].
    split; [assumption|]. destruct (C1 p C) as [_ [_ [? ?]]]. auto.
Qed.

(* ------------------------------------------------------------------ name lookup, last identifier *)

Lemma lookup_name_in : forall pvs n v, lookup_name pvs n = Some v -> In v pvs /\ pv_name v = n.
Proof.
  induction pvs as [|x pvs IH]; simpl; intros n v H. discriminate.
  destruct (lookup_name pvs n) eqn:E.
  - inversion H; subst. destruct (IH _ _ E). auto.
  - destruct (pv_name x =? n) eqn:E2; [|discriminate]. inversion H; subst.
    apply N.eqb_eq in E2. auto.
Qed.

Lemma lookup_name_some : forall pvs n, In n (map pv_name pvs) -> exists v, lookup_name pvs n = Some v.
Proof.
  induction pvs as [|x pvs IH]; simpl; intros n H. contradiction.
  destruct (lookup_name pvs n) eqn:E; [eauto|].
  destruct H as [H|H].
  - subst. rewrite N.eqb_refl. eauto.
  - destruct (IH _ H) as [v Hv]. congruence.
Qed.

Definition no_ident (ps : list ppart) : Prop := forall m, ~ In (PPIdent m) ps.

Lemma last_ident_none : forall ps, last_ident ps = None -> no_ident ps.
Proof.
  induction ps as [|p ps IH]; simpl; intros H m Hin. contradiction.
  destruct (last_ident ps) as [[k n]|] eqn:E; [discriminate|].
  destruct p; [discriminate|]. destruct Hin as [Hin|Hin]; [discriminate|]. exact (IH eq_refl m Hin).
Qed.

Lemma last_ident_some : forall ps k n, last_ident ps = Some (k, n) ->
  exists pre post, ps = pre ++ PPIdent n :: post /\ length pre = k /\ no_ident post /\ firstn k ps = pre.
Proof.
  induction ps as [|p ps IH]; simpl; intros k n H. discriminate.
  destruct (last_ident ps) as [[k' n']|] eqn:E.
  - inversion H; subst. destruct (IH _ _ eq_refl) as [pre [post [-> [Hl [Hn Hf]]]]].
    exists (p :: pre), post. simpl. repeat split; auto. now rewrite Hf.
  - destruct p; [|discriminate]. inversion H; subst. exists [], ps. simpl. repeat split.
    now apply last_ident_none.
Qed.

Lemma last_ident_of_split : forall pre n post, no_ident post ->
  last_ident (pre ++ PPIdent n :: post) = Some (length pre, n).
Proof.
  intros pre n post Hn.
  assert (Hpost : last_ident post = None).
  { clear pre. induction post as [|p post IH]; simpl. reflexivity.
    rewrite IH.
    - destruct p; [|reflexivity]. exfalso. apply (Hn name). now left.
    - intros m Hm. apply (Hn m). now right. }
  induction pre as [|p pre IH]; simpl.
  - now rewrite Hpost.
  - now rewrite IH.
Qed.

(* ------------------------------------------------------------------ validate_path *)

Definition named_master (pvs : list pvariant) (n : N) : Prop :=
  exists w, lookup_name pvs n = Some w /\ pv_ty w = DMaster.

(* one unfolding, as a specification *)
Lemma validate_path_step pvs fuel o parts k n :
  validate_path pvs (S fuel) o = true -> pv_path o = Some parts -> last_ident parts = Some (k, n) ->
  exists parent, lookup_name pvs n = Some parent /\ pv_ty parent = DMaster /\
                 path_or_empty parent = firstn k parts /\ validate_path pvs fuel parent = true.
Proof.
  simpl. intros H Hp Hl. rewrite Hp, Hl in H.
  destruct (lookup_name pvs n) as [parent|]; [|discriminate].
  repeat (apply andb_true_iff in H; destruct H as [H ?]).
  exists parent. repeat split; auto.
  - now apply dtype_eqb_eq.
  - now apply (list_eqb_eq ppart_eqb ppart_eqb_eq).
Qed.

Lemma validate_path_masters pvs : forall fuel o, validate_path pvs fuel o = true ->
  forall n, In (PPIdent n) (path_or_empty o) -> named_master pvs n.
Proof.
  induction fuel as [|fuel IH]; intros o H n Hin. discriminate.
  unfold path_or_empty in Hin. destruct (pv_path o) as [parts|] eqn:Hp; [|contradiction].
  destruct (last_ident parts) as [[k m]|] eqn:Hl.
  - destruct (validate_path_step _ _ _ _ _ _ H Hp Hl) as [parent [L1 [L2 [L3 L4]]]].
    destruct (last_ident_some _ _ _ Hl) as [pre [post [-> [Hlen [Hno Hf]]]]].
    apply in_app_or in Hin. destruct Hin as [Hin|[Hin|Hin]].
    + apply (IH parent L4). rewrite L3, Hf. assumption.
    + inversion Hin; subst. exists parent. auto.
    + exfalso. exact (Hno n Hin).
  - exfalso. exact (last_ident_none _ Hl n Hin).
Qed.

(* the fuel handed out by validate_all is enough: more fuel never changes the answer *)
Lemma validate_path_fuel pvs : forall f1 f2 o,
  (length (path_or_empty o) < f1)%nat -> (length (path_or_empty o) < f2)%nat ->
  validate_path pvs f1 o = validate_path pvs f2 o.
Proof.
  induction f1 as [|f1 IH]; intros f2 o H1 H2. lia.
  destruct f2 as [|f2]. lia.
  simpl. unfold path_or_empty in H1, H2. destruct (pv_path o) as [parts|] eqn:Hp; [|reflexivity].
  destruct (last_ident parts) as [[k n]|] eqn:Hl; [|reflexivity].
  destruct (lookup_name pvs n) as [parent|]; [|reflexivity].
  destruct (dtype_eqb (pv_ty parent) DMaster); [|reflexivity]. simpl.
  destruct (length (path_or_empty parent) =? k)%nat eqn:Ek; [|reflexivity]. simpl.
  destruct (list_eqb ppart_eqb (path_or_empty parent) (firstn k parts)); [|reflexivity]. simpl.
  apply Nat.eqb_eq in Ek.
  destruct (last_ident_some _ _ _ Hl) as [pre [post [-> [Hlen _]]]].
  rewrite app_length in H1, H2. simpl in H1, H2.
  apply IH; lia.
Qed.

(* ------------------------------------------------------------------ the table *)

Definition entry_of (all : list pvariant) (v : pvariant) : entry :=
  {| e_id := pv_id v; e_ty := pv_ty v; e_path := map (resolve all) (path_or_empty v) |}.

Definition paths_of (all l : list pvariant) : list (N * list part) :=
  flat_map (fun v => match pv_path v with
                     | Some p => [(pv_id v, map (resolve all) p)]
                     | None => []
                     end) l.

Lemma assoc_first_none {A} : forall (l : list (N * A)) k, ~ In k (map fst l) -> assoc_first l k = None.
Proof.
  induction l as [|[k' a] l IH]; simpl; intros k H. reflexivity.
  destruct (k' =? k) eqn:E.
  - apply N.eqb_eq in E. exfalso. apply H. now left.
  - apply IH. intro. apply H. now right.
Qed.

Lemma paths_of_ids all : forall l k, In k (map fst (paths_of all l)) -> In k (map pv_id l).
Proof.
  induction l as [|v l IH]; simpl; intros k H. contradiction.
  rewrite map_app in H. apply in_app_or in H. destruct H as [H|H].
  - destruct (pv_path v); simpl in H; [|contradiction]. destruct H as [H|[]]. now left.
  - right. now apply IH.
Qed.

Lemma assoc_paths_of all : forall l v, NoDup (map pv_id l) -> In v l ->
  assoc_first (paths_of all l) (pv_id v) =
  match pv_path v with Some p => Some (map (resolve all) p) | None => None end.
Proof.
  induction l as [|x l IH]; simpl; intros v Hnd Hin. contradiction.
  inversion Hnd; subst. destruct Hin as [->|Hin].
  - destruct (pv_path v) eqn:E; simpl.
    + now rewrite N.eqb_refl.
    + apply assoc_first_none. intro C. apply paths_of_ids in C. contradiction.
  - assert (Hne : pv_id x <> pv_id v).
    { intro C. apply H1. rewrite C. now apply in_map. }
    destruct (pv_path x); simpl.
    + apply N.eqb_neq in Hne. rewrite Hne. now apply IH.
    + now apply IH.
Qed.

Lemma get_impl_eq pvs : NoDup (map pv_id pvs) -> get_impl pvs = map (entry_of pvs) pvs.
Proof.
  intro Hnd. unfold get_impl, gen_types. rewrite map_map. apply map_ext_in.
  intros v Hin. unfold entry_of. simpl. f_equal.
  change (gen_paths pvs) with (paths_of pvs pvs). rewrite (assoc_paths_of pvs pvs v Hnd Hin).
  unfold path_or_empty. destruct (pv_path v); reflexivity.
Qed.

Lemma find_entry_map all : forall l v, NoDup (map pv_id l) -> In v l ->
  find_entry (map (entry_of all) l) (pv_id v) = Some (entry_of all v).
Proof.
  induction l as [|x l IH]; simpl; intros v Hnd Hin. contradiction.
  inversion Hnd; subst. destruct Hin as [->|Hin].
  - now rewrite N.eqb_refl.
  - assert (Hne : pv_id x <> pv_id v).
    { intro C. apply H1. rewrite C. now apply in_map. }
    apply N.eqb_neq in Hne. rewrite Hne. now apply IH.
Qed.

Lemma find_entry_none all : forall l i, ~ In i (map pv_id l) -> find_entry (map (entry_of all) l) i = None.
Proof.
  induction l as [|x l IH]; simpl; intros i H. reflexivity.
  destruct (pv_id x =? i) eqn:E.
  - apply N.eqb_eq in E. exfalso. apply H. now left.
  - apply IH. intro. apply H. now right.
Qed.

Lemma find_entry_in : forall sp id e, find_entry sp id = Some e -> In e sp /\ e_id e = id.
Proof.
  induction sp as [|x sp IH]; simpl; intros id e H. discriminate.
  destruct (e_id x =? id) eqn:E.
  - inversion H; subst. apply N.eqb_eq in E. auto.
  - destruct (IH _ _ H). auto.
Qed.

(* ------------------------------------------------------------------ derive_full *)

Definition names_of (d : decl) : list N := map v_name (with_globals d).

Lemma derive_full_spec d pvs : derive_full d = Some pvs ->
  Forall2 (fun v pv => variant_from_syn (names_of d) v = Some pv) (with_globals d) pvs /\
  NoDup (map pv_id pvs) /\ validate_all pvs = true /\ map pv_name pvs = names_of d.
Proof.
  unfold derive_full. fold (names_of d).
  destruct (map_opt (variant_from_syn (names_of d)) (with_globals d)) as [r|] eqn:E; [|discriminate].
  destruct (has_dup (map pv_id r)) eqn:E2; [discriminate|].
  destruct (validate_all r) eqn:E3; [|discriminate]. intro H; inversion H; subst.
  apply map_opt_Forall2 in E. repeat split; auto.
  - now apply has_dup_false.
  - symmetry. unfold names_of. apply (Forall2_map_eq _ _ _ _ _ E).
    intros x y Hxy. apply from_syn_spec in Hxy. symmetry. tauto.
Qed.

Lemma derive_spec d sp : derive d = Some sp ->
  exists pvs, derive_full d = Some pvs /\ sp = map (entry_of pvs) pvs.
Proof.
  unfold derive. destruct (derive_full d) as [pvs|] eqn:E; [|discriminate].
  intro H; inversion H; subst. exists pvs. split; [reflexivity|].
  apply get_impl_eq. now destruct (derive_full_spec _ _ E) as [_ [? _]].
Qed.

Lemma validate_all_in pvs v : validate_all pvs = true -> In v pvs ->
  forall n, In (PPIdent n) (path_or_empty v) -> named_master pvs n.
Proof.
  unfold validate_all. rewrite forallb_forall. intros H Hin n Hn.
  specialize (H v Hin). unfold path_or_empty in Hn. destruct (pv_path v) as [p|] eqn:Hp; [|contradiction].
  apply (validate_path_masters pvs _ v H). unfold path_or_empty. now rewrite Hp.
Qed.

(* "resolved": what a declared path part becomes in the table *)
Definition resolved (d' : decl) (pp : ppart) (x : part) : Prop :=
  match pp with
  | PPGlobal a b => x = PGlobal a b
  | PPIdent n => exists w i, In w d' /\ v_name w = n /\ In (AId i) (v_attrs w) /\ x = PId i
  end.

Section Accepted.
  Variables (d : decl) (sp : spec).
  Hypothesis Hd : derive d = Some sp.

  Lemma accepted_entry v i : In v (with_globals d) -> In (AId i) (v_attrs v) ->
    exists pvs pv, derive_full d = Some pvs /\ In pv pvs /\
      variant_from_syn (names_of d) v = Some pv /\ pv_id pv = i /\
      find_entry sp i = Some (entry_of pvs pv).
  Proof.
    intros Hin Hi. destruct (derive_spec _ _ Hd) as [pvs [Hf ->]].
    destruct (derive_full_spec _ _ Hf) as [F [Hnd [Hv Hn]]].
    destruct (Forall2_in_l _ _ _ _ F Hin) as [pv [Hpv Hs]].
    exists pvs, pv. repeat split; auto.
    - destruct (from_syn_spec _ _ _ Hs) as [_ [H1 _]]. symmetry. now apply H1.
    - destruct (from_syn_spec _ _ _ Hs) as [_ [H1 _]]. rewrite (H1 i Hi). now apply find_entry_map.
  Qed.

  Lemma accepted_type v i ty : In v (with_globals d) -> In (AId i) (v_attrs v) ->
    In (AType (Some ty)) (v_attrs v) -> get_type sp i = Some ty.
  Proof.
    intros Hin Hi Ht. destruct (accepted_entry v i Hin Hi) as [pvs [pv [_ [_ [Hs [_ Hfe]]]]]].
    unfold get_type. rewrite Hfe. simpl.
    destruct (from_syn_spec _ _ _ Hs) as [_ [_ [_ [H1 _]]]]. specialize (H1 _ Ht). congruence.
  Qed.

  Lemma accepted_path v i p : In v (with_globals d) -> In (AId i) (v_attrs v) ->
    In (APath p) (v_attrs v) -> Forall2 (resolved (with_globals d)) p (get_path sp i).
  Proof.
    intros Hin Hi Hp. destruct (accepted_entry v i Hin Hi) as [pvs [pv [Hf [Hpv [Hs [_ Hfe]]]]]].
    unfold get_path. rewrite Hfe. simpl.
    destruct (derive_full_spec _ _ Hf) as [F [Hnd [Hv Hn]]].
    destruct (from_syn_spec _ _ _ Hs) as [_ [_ [_ [_ [_ [H1 [_ H2]]]]]]].
    unfold path_or_empty. rewrite (H1 _ Hp). destruct (H2 _ (H1 _ Hp)) as [_ [_ Hc]].
    assert (Hall : forall n, In (PPIdent n) p -> In n (names_of d)).
    { intros n Hn'. eapply check_parts_ident; eauto. }
    clear - Hall F Hn. induction p as [|x p IH]; simpl; constructor.
    - destruct x; simpl; [|reflexivity].
      assert (Hx : In name (map pv_name pvs)) by (rewrite Hn; apply Hall; now left).
      destruct (lookup_name_some _ _ Hx) as [w Hw]. rewrite Hw.
      destruct (lookup_name_in _ _ _ Hw) as [Hwin Hwn].
      destruct (Forall2_in_r _ _ _ _ F Hwin) as [v0 [Hv0 Hs0]].
      destruct (from_syn_spec _ _ _ Hs0) as [E1 [_ [E2 _]]].
      exists v0, (pv_id w). repeat split; auto. congruence.
    - apply IH. intros n Hn'. apply Hall. now right.
  Qed.

  Lemma accepted_no_path v i : In v (with_globals d) -> In (AId i) (v_attrs v) ->
    (forall p, ~ In (APath p) (v_attrs v)) -> get_path sp i = [].
  Proof.
    intros Hin Hi Hp. destruct (accepted_entry v i Hin Hi) as [pvs [pv [_ [_ [Hs [_ Hfe]]]]]].
    unfold get_path. rewrite Hfe. simpl.
    destruct (from_syn_spec _ _ _ Hs) as [_ [_ [_ [_ [_ [_ [H1 _]]]]]]].
    unfold path_or_empty. now rewrite (H1 Hp).
  Qed.

  Lemma accepted_undeclared i : (forall v, In v (with_globals d) -> ~ In (AId i) (v_attrs v)) ->
    get_type sp i = None /\ get_path sp i = [].
  Proof.
    intros Hno. destruct (derive_spec _ _ Hd) as [pvs [Hf ->]].
    destruct (derive_full_spec _ _ Hf) as [F _].
    assert (Hni : ~ In i (map pv_id pvs)).
    { intro C. apply in_map_iff in C. destruct C as [pv [<- Hpv]].
      destruct (Forall2_in_r _ _ _ _ F Hpv) as [v [Hv Hs]].
      destruct (from_syn_spec _ _ _ Hs) as [_ [_ [H1 _]]]. exact (Hno v Hv H1). }
    unfold get_type, get_path. rewrite (find_entry_none pvs pvs i Hni). auto.
  Qed.

  Lemma accepted_distinct : NoDup (map e_id sp).
  Proof.
    destruct (derive_spec _ _ Hd) as [pvs [Hf ->]].
    destruct (derive_full_spec _ _ Hf) as [_ [Hnd _]]. now rewrite map_map.
  Qed.

  Lemma accepted_globals :
    get_type sp 191 = Some DBinary /\ get_path sp 191 = [PGlobal (Some 1) None] /\
    get_type sp 236 = Some DBinary /\ get_path sp 236 = [PGlobal None None].
  Proof.
    assert (Hc : In crc32_variant (with_globals d)) by (apply in_or_app; right; simpl; auto).
    assert (Hv : In void_variant (with_globals d)) by (apply in_or_app; right; simpl; auto).
    repeat split.
    - apply (accepted_type crc32_variant); simpl; auto.
    - assert (H := accepted_path crc32_variant 191 [PPGlobal (Some 1) None] Hc).
      simpl in H. specialize (H (or_introl eq_refl) (or_intror (or_intror (or_introl eq_refl)))).
      inversion H as [|? ? ? ? H1 H2]; subst. inversion H2; subst. simpl in H1. now subst.
    - apply (accepted_type void_variant); simpl; auto.
    - assert (H := accepted_path void_variant 236 [PPGlobal None None] Hv).
      simpl in H. specialize (H (or_introl eq_refl) (or_intror (or_intror (or_introl eq_refl)))).
      inversion H as [|? ? ? ? H1 H2]; subst. inversion H2; subst. simpl in H1. now subst.
  Qed.

  Lemma accepted_spec_ok : spec_ok sp.
  Proof.
    destruct (derive_spec _ _ Hd) as [pvs [Hf ->]].
    destruct (derive_full_spec _ _ Hf) as [_ [Hnd [Hv _]]].
    intros e i He Hi. apply in_map_iff in He. destruct He as [v [<- Hvin]]. simpl in Hi.
    apply in_map_iff in Hi. destruct Hi as [pp [Hr Hpp]].
    destruct pp as [n|a b]; simpl in Hr; [|discriminate].
    destruct (validate_all_in _ _ Hv Hvin n Hpp) as [w [Hw Hm]].
    rewrite Hw in Hr. inversion Hr; subst.
    destruct (lookup_name_in _ _ _ Hw) as [Hwin _].
    unfold get_type. rewrite (find_entry_map pvs pvs w Hnd Hwin). simpl. now rewrite Hm.
  Qed.
End Accepted.

(* what the iterator's implied-parent seeding needs *)
Lemma spec_ok_implied sp : spec_ok sp -> forall id, implied_stack sp (get_path sp id) <> None.
Proof.
  intros Hok id. unfold implied_stack.
  assert (H : forallb (fun x => match x with PId i => is_master_ty (get_type sp i) | PGlobal _ _ => true end)
                      (get_path sp id) = true).
  { unfold get_path. destruct (find_entry sp id) as [e|] eqn:E; [|reflexivity].
    apply find_entry_in in E. destruct E as [Hin _].
    apply forallb_forall. intros x Hx. destruct x; [|reflexivity].
    now rewrite (Hok e id0 Hin Hx). }
  rewrite H. discriminate.
Qed.

Lemma accepted_implied d sp : derive d = Some sp -> forall id, implied_stack sp (get_path sp id) <> None.
Proof. intros H. apply spec_ok_implied. eapply accepted_spec_ok; eauto. Qed.

(* ------------------------------------------------------------------ constructors / accessors *)

Lemma assoc_ctor ty : forall l id nm,
  assoc_first (map (fun v => (pv_id v, pv_name v)) (filter (fun v => dtype_eqb (pv_ty v) ty) l)) id = Some nm ->
  exists v, In v l /\ pv_id v = id /\ pv_ty v = ty /\ pv_name v = nm.
Proof.
  induction l as [|x l IH]; simpl; intros id nm H. discriminate.
  destruct (dtype_eqb (pv_ty x) ty) eqn:Et; simpl in H.
  - destruct (pv_id x =? id) eqn:E.
    + inversion H; subst. apply N.eqb_eq in E. apply dtype_eqb_eq in Et. exists x. auto.
    + destruct (IH _ _ H) as [v [? ?]]. exists v. auto.
  - destruct (IH _ _ H) as [v [? ?]]. exists v. auto.
Qed.

Lemma assoc_ctor_in ty : forall l v, NoDup (map pv_id l) -> In v l -> pv_ty v = ty ->
  assoc_first (map (fun v => (pv_id v, pv_name v)) (filter (fun v => dtype_eqb (pv_ty v) ty) l)) (pv_id v)
  = Some (pv_name v).
Proof.
  induction l as [|x l IH]; simpl; intros v Hnd Hin Hty. contradiction.
  inversion Hnd; subst. destruct Hin as [->|Hin].
  - assert (E : dtype_eqb (pv_ty v) (pv_ty v) = true) by now apply dtype_eqb_eq.
    rewrite E. simpl. now rewrite N.eqb_refl.
  - assert (Hne : pv_id x <> pv_id v).
    { intro C. apply H1. rewrite C. now apply in_map. }
    destruct (dtype_eqb (pv_ty x) (pv_ty v)); simpl.
    + apply N.eqb_neq in Hne. rewrite Hne. now apply IH.
    + now apply IH.
Qed.

Lemma ctor_iff d pvs : derive_full d = Some pvs -> forall ty id,
  (exists nm, ctor_result pvs ty id = Some nm) <-> get_type (get_impl pvs) id = Some ty.
Proof.
  intros Hf ty id. destruct (derive_full_spec _ _ Hf) as [_ [Hnd _]].
  rewrite (get_impl_eq _ Hnd). unfold ctor_result, gen_ctor, get_type. split.
  - intros [nm H]. apply assoc_ctor in H. destruct H as [v [Hin [<- [<- _]]]].
    now rewrite (find_entry_map pvs pvs v Hnd Hin).
  - destruct (find_entry (map (entry_of pvs) pvs) id) as [e|] eqn:E; [|discriminate].
    intro H. inversion H; subst. apply find_entry_in in E. destruct E as [Hin <-].
    apply in_map_iff in Hin. destruct Hin as [v [<- Hv]]. simpl.
    exists (pv_name v). now apply assoc_ctor_in.
Qed.

Lemma assoc_get_id : forall l v (tl : list (N * option N)), NoDup (map pv_name l) -> In v l ->
  assoc_first (map (fun v => (pv_name v, Some (pv_id v))) l ++ tl) (pv_name v) = Some (Some (pv_id v)).
Proof.
  induction l as [|x l IH]; simpl; intros v tl Hnd Hin. contradiction.
  inversion Hnd; subst. destruct Hin as [->|Hin].
  - now rewrite N.eqb_refl.
  - assert (Hne : pv_name x <> pv_name v).
    { intro C. apply H1. rewrite C. now apply in_map. }
    apply N.eqb_neq in Hne. rewrite Hne. now apply IH.
Qed.

(* a constructed tag answers get_id with the id it was constructed for, and exactly the accessor
   of its type; the hypotheses on names are what rustc enforces (distinct variant names, none
   called RawTag) *)
Lemma ctor_accessors d pvs : derive_full d = Some pvs ->
  NoDup (names_of d) -> ~ In rawtag_name (names_of d) ->
  forall ty id nm self, ctor_result pvs ty id = Some nm ->
    get_id_result pvs nm self = Some id /\ forall ty', acc_result pvs ty' nm = true <-> ty' = ty.
Proof.
  intros Hf Hnd Hraw ty id nm self H.
  destruct (derive_full_spec _ _ Hf) as [_ [_ [_ Hn]]]. rewrite <- Hn in Hnd, Hraw.
  apply assoc_ctor in H. destruct H as [v [Hin [<- [<- <-]]]]. split.
  - unfold get_id_result, gen_get_id. now rewrite (assoc_get_id pvs v _ Hnd Hin).
  - intro ty'. unfold acc_result, gen_acc. rewrite existsb_app, orb_true_iff. split.
    + intros [H|H].
      * apply existsb_eqb_in in H. apply in_map_iff in H. destruct H as [w [Hw Hwin]].
        apply filter_In in Hwin. destruct Hwin as [Hwin Ht]. apply dtype_eqb_eq in Ht.
        assert (w = v); [|now subst].
        clear - Hnd Hw Hwin Hin. induction pvs as [|x l IH]; simpl in *. contradiction.
        inversion Hnd; subst. destruct Hwin as [->|Hwin], Hin as [->|Hin]; auto.
        -- exfalso. apply H1. rewrite Hw. now apply in_map.
        -- exfalso. apply H1. rewrite <- Hw. now apply in_map.
      * exfalso. destruct (dtype_eqb ty' DBinary); simpl in H; [|discriminate].
        rewrite orb_false_r in H. apply N.eqb_eq in H. apply Hraw. rewrite <- H. now apply in_map.
    + intros ->. left. apply existsb_eqb_in. apply in_map. apply filter_In. split; auto. now apply dtype_eqb_eq.
Qed.

(* the raw-tag variant answers get_id with its own id and only as_binary *)
Lemma raw_accessors pvs self : ~ In rawtag_name (map pv_name pvs) ->
  get_id_result pvs rawtag_name self = Some self /\
  forall ty, acc_result pvs ty rawtag_name = true <-> ty = DBinary.
Proof.
  intros Hraw. split.
  - unfold get_id_result, gen_get_id.
    assert (H : forall l (tl : list (N * option N)), ~ In rawtag_name (map pv_name l) ->
              assoc_first (map (fun v => (pv_name v, Some (pv_id v))) l ++ tl) rawtag_name = assoc_first tl rawtag_name).
    { induction l as [|x l IH]; simpl; intros tl Hn. reflexivity.
      destruct (pv_name x =? rawtag_name) eqn:E.
      - apply N.eqb_eq in E. exfalso. apply Hn. now left.
      - apply IH. intro. apply Hn. now right. }
    rewrite (H _ _ Hraw). simpl. reflexivity.
  - intro ty. unfold acc_result, gen_acc. rewrite existsb_app, orb_true_iff. split.
    + intros [H|H].
      * exfalso. apply existsb_eqb_in in H. apply in_map_iff in H. destruct H as [w [Hw Hwin]].
        apply filter_In in Hwin. apply Hraw. rewrite <- Hw. apply in_map. tauto.
      * destruct (dtype_eqb ty DBinary) eqn:E; simpl in H; [|discriminate]. now apply dtype_eqb_eq.
    + intros ->. right. simpl. reflexivity.
Qed.

(* ------------------------------------------------------------------ rejections *)

Lemma reject_from_syn d v : In v (with_globals d) -> variant_from_syn (names_of d) v = None -> derive d = None.
Proof.
  intros Hin Hn. unfold derive, derive_full. fold (names_of d).
  now rewrite (map_opt_none _ _ _ Hin Hn).
Qed.

Lemma in_user d v : In v d -> In v (with_globals d).
Proof. intro. apply in_or_app. now left. Qed.

Lemma from_syn_scan_none names v : scan_attrs names acc0 (v_attrs v) = None -> variant_from_syn names v = None.
Proof. unfold variant_from_syn. now intros ->. Qed.

Lemma reject_missing_id d v : In v (with_globals d) -> (forall i, ~ In (AId i) (v_attrs v)) -> derive d = None.
Proof.
  intros Hin Hno. apply (reject_from_syn d v Hin). unfold variant_from_syn.
  destruct (scan_attrs (names_of d) acc0 (v_attrs v)) as [a|] eqn:E; [|reflexivity].
  destruct (scan_id _ _ _ _ E) as [_ [H _]]. rewrite (H Hno). reflexivity.
Qed.

Lemma reject_missing_type d v : In v (with_globals d) -> (forall t, ~ In (AType t) (v_attrs v)) -> derive d = None.
Proof.
  intros Hin Hno. apply (reject_from_syn d v Hin). unfold variant_from_syn.
  destruct (scan_attrs (names_of d) acc0 (v_attrs v)) as [a|] eqn:E; [|reflexivity].
  destruct (scan_ty _ _ _ _ E) as [_ [H _]]. rewrite (H Hno). simpl. now destruct (a_id a).
Qed.

Lemma reject_unknown_type d v : In v (with_globals d) -> In (AType None) (v_attrs v) -> derive d = None.
Proof.
  intros Hin Ht. apply (reject_from_syn d v Hin). apply from_syn_scan_none.
  apply (scan_bad_attr _ (AType None)); [|assumption]. intro a. simpl. now destruct (a_ty a).
Qed.

Lemma reject_dup_attr d v l1 x l2 y l3 : In v (with_globals d) ->
  v_attrs v = l1 ++ x :: l2 ++ y :: l3 -> same_kind x y = true -> derive d = None.
Proof.
  intros Hin Ha Hk. apply (reject_from_syn d v Hin). apply from_syn_scan_none.
  rewrite Ha. now apply scan_dup_attr.
Qed.

Lemma reject_bad_path d v p : In v (with_globals d) -> In (APath p) (v_attrs v) ->
  check_parts (names_of d) false p = false -> derive d = None.
Proof.
  intros Hin Hp Hc. apply (reject_from_syn d v Hin). apply from_syn_scan_none.
  apply (scan_bad_attr _ (APath p)); [|assumption]. intro a. simpl.
  destruct (a_path a); [reflexivity|]. destruct p; [reflexivity|]. now rewrite Hc.
Qed.

Lemma reject_unknown_ident d v p n : In v (with_globals d) -> In (APath p) (v_attrs v) ->
  In (PPIdent n) p -> ~ In n (names_of d) -> derive d = None.
Proof.
  intros Hin Hp Hn Hnot. apply (reject_bad_path d v p Hin Hp).
  destruct (check_parts (names_of d) false p) eqn:E; [|reflexivity].
  exfalso. apply Hnot. eapply check_parts_ident; eauto.
Qed.

Lemma reject_max0 d v p mn : In v (with_globals d) -> In (APath p) (v_attrs v) ->
  In (PPGlobal mn (Some 0)) p -> derive d = None.
Proof. intros Hin Hp Hg. apply (reject_bad_path d v p Hin Hp). eapply check_parts_max0; eauto. Qed.

Lemma reject_adjacent d v pre a1 a2 b1 b2 post : In v (with_globals d) ->
  In (APath (pre ++ PPGlobal a1 a2 :: PPGlobal b1 b2 :: post)) (v_attrs v) -> derive d = None.
Proof. intros Hin Hp. apply (reject_bad_path d v _ Hin Hp). apply check_parts_adjacent. Qed.

Lemma reject_empty_path d v : In v (with_globals d) -> In (APath []) (v_attrs v) -> derive d = None.
Proof.
  intros Hin Hp. apply (reject_from_syn d v Hin). apply from_syn_scan_none.
  apply (scan_bad_attr _ (APath [])); [|assumption]. intro a. simpl. now destruct (a_path a).
Qed.

Lemma reject_id_overflow d v i : In v (with_globals d) -> In (AId i) (v_attrs v) -> u64_max < i -> derive d = None.
Proof.
  intros Hin Hi Hlt. apply (reject_from_syn d v Hin). apply from_syn_scan_none.
  apply (scan_bad_attr _ (AId i)); [|assumption]. intro a. simpl. destruct (a_id a); [reflexivity|].
  apply N.leb_gt in Hlt. now rewrite Hlt.
Qed.

Lemma Forall2_split3 {A B} (R : A -> B -> Prop) l1 x l2 y l3 r :
  Forall2 R (l1 ++ x :: l2 ++ y :: l3) r ->
  exists r1 x' r2 y' r3, r = r1 ++ x' :: r2 ++ y' :: r3 /\ R x x' /\ R y y'.
Proof.
  intro H. apply Forall2_app_inv_l in H. destruct H as [r1 [r' [_ [H ->]]]].
  inversion H as [|? x' ? r'' Hx H']; subst.
  apply Forall2_app_inv_l in H'. destruct H' as [r2 [r''' [_ [H' ->]]]].
  inversion H' as [|? y' ? r3 Hy _]; subst.
  exists r1, x', r2, y', r3. auto.
Qed.

Lemma reject_dup_id d l1 v1 l2 v2 l3 i : with_globals d = l1 ++ v1 :: l2 ++ v2 :: l3 ->
  In (AId i) (v_attrs v1) -> In (AId i) (v_attrs v2) -> derive d = None.
Proof.
  intros Hs H1 H2. unfold derive. destruct (derive_full d) as [pvs|] eqn:E; [|reflexivity]. exfalso.
  destruct (derive_full_spec _ _ E) as [F [Hnd _]]. rewrite Hs in F.
  apply Forall2_split3 in F. destruct F as [r1 [p1 [r2 [p2 [r3 [-> [S1 S2]]]]]]].
  destruct (from_syn_spec _ _ _ S1) as [_ [A1 _]]. destruct (from_syn_spec _ _ _ S2) as [_ [A2 _]].
  rewrite map_app in Hnd. simpl in Hnd. apply NoDup_remove_2 in Hnd. apply Hnd.
  apply in_or_app. right. rewrite map_app. apply in_or_app. right. simpl. left.
  rewrite <- (A1 i H1), <- (A2 i H2). reflexivity.
Qed.

(* a user variant that re-declares the id of Crc32 or Void collides with the appended one *)
Lemma reject_global_id d v : In v d -> In (AId 191) (v_attrs v) \/ In (AId 236) (v_attrs v) -> derive d = None.
Proof.
  intros Hin H. apply in_split in Hin. destruct Hin as [l1 [l2 ->]]. destruct H as [H|H].
  - apply (reject_dup_id _ l1 v l2 crc32_variant [void_variant] 191).
    + unfold with_globals. now rewrite <- app_assoc.
    + assumption.
    + simpl. auto.
  - apply (reject_dup_id _ l1 v (l2 ++ [crc32_variant]) void_variant [] 236).
    + unfold with_globals. rewrite <- !app_assoc. reflexivity.
    + assumption.
    + simpl. auto.
Qed.

(* parent = the last identifier of the path *)
Lemma validated_parent d pvs v pre n post : derive_full d = Some pvs ->
  In v (with_globals d) -> In (APath (pre ++ PPIdent n :: post)) (v_attrs v) -> no_ident post ->
  exists w parent, In w (with_globals d) /\ v_name w = n /\
    variant_from_syn (names_of d) w = Some parent /\ pv_ty parent = DMaster /\ path_or_empty parent = pre.
Proof.
  intros Hf Hin Hp Hno. destruct (derive_full_spec _ _ Hf) as [F [_ [Hv _]]].
  destruct (Forall2_in_l _ _ _ _ F Hin) as [pv [Hpv Hs]].
  destruct (from_syn_spec _ _ _ Hs) as [_ [_ [_ [_ [_ [H1 _]]]]]]. specialize (H1 _ Hp).
  unfold validate_all in Hv. rewrite forallb_forall in Hv. specialize (Hv pv Hpv). rewrite H1 in Hv.
  destruct (validate_path_step _ _ _ _ _ _ Hv H1 (last_ident_of_split pre n post Hno))
    as [parent [L1 [L2 [L3 _]]]].
  destruct (lookup_name_in _ _ _ L1) as [Hpin Hpn].
  destruct (Forall2_in_r _ _ _ _ F Hpin) as [w [Hw Hws]].
  exists w, parent. repeat split; auto.
  - destruct (from_syn_spec _ _ _ Hws) as [E _]. congruence.
  - rewrite L3. rewrite firstn_app, firstn_all, Nat.sub_diag. simpl. apply app_nil_r.
Qed.

Lemma reject_non_master_parent d v pre n post : In v (with_globals d) ->
  In (APath (pre ++ PPIdent n :: post)) (v_attrs v) -> no_ident post ->
  (forall w, In w (with_globals d) -> v_name w = n -> ~ In (AType (Some DMaster)) (v_attrs w)) ->
  derive d = None.
Proof.
  intros Hin Hp Hno Hnm. unfold derive. destruct (derive_full d) as [pvs|] eqn:E; [|reflexivity]. exfalso.
  destruct (validated_parent _ _ _ _ _ _ E Hin Hp Hno) as [w [parent [Hw [Hn [Hs [Hm _]]]]]].
  apply (Hnm w Hw Hn). destruct (from_syn_spec _ _ _ Hs) as [_ [_ [_ [_ [H _]]]]]. now rewrite Hm in H.
Qed.

(* the path a variant declares for itself: its doc_path, or the empty path without one *)
Definition declared_path (w : variant) (q : list ppart) : Prop :=
  In (APath q) (v_attrs w) \/ (q = [] /\ forall q', ~ In (APath q') (v_attrs w)).

Lemma reject_path_mismatch d v pre n post : In v (with_globals d) ->
  In (APath (pre ++ PPIdent n :: post)) (v_attrs v) -> no_ident post ->
  (forall w, In w (with_globals d) -> v_name w = n -> ~ declared_path w pre) ->
  derive d = None.
Proof.
  intros Hin Hp Hno Hnm. unfold derive. destruct (derive_full d) as [pvs|] eqn:E; [|reflexivity]. exfalso.
  destruct (validated_parent _ _ _ _ _ _ E Hin Hp Hno) as [w [parent [Hw [Hn [Hs [_ Hpath]]]]]].
  apply (Hnm w Hw Hn). destruct (from_syn_spec _ _ _ Hs) as [_ [_ [_ [_ [_ [H1 [_ H3]]]]]]].
  unfold path_or_empty in Hpath. destruct (pv_path parent) as [q|] eqn:Eq.
  - subst q. left. now destruct (H3 _ eq_refl).
  - right. split; [now subst|]. intros q' Hq'. specialize (H1 _ Hq'). discriminate.
Qed.

(* ------------------------------------------------------------------ easy_ebml lowering *)

Lemma easy_lower_spec ev v : easy_lower ev = Some v ->
  exists pre, ev_path ev = pre ++ [PPIdent (v_name v)] /\
    v_attrs v = [AId (ev_id ev); AType (ev_ty ev)] ++ match pre with [] => [] | _ => [APath pre] end.
Proof.
  unfold easy_lower. destruct (rev (ev_path ev)) as [|x rpre] eqn:E; [discriminate|].
  destruct x as [name|]; [|discriminate]. intro H; inversion H; subst; clear H. simpl.
  exists (rev rpre). split.
  - rewrite <- (rev_involutive (ev_path ev)), E. reflexivity.
  - destruct rpre as [|y r]; simpl. reflexivity.
    destruct (rev r ++ [y]) eqn:E2; [|reflexivity]. now destruct (rev r).
Qed.

(* ------------------------------------------------------------------ examples *)

(* the repository's test specification (tests/test_spec.rs), names 3.. in declaration order *)
Definition m (name id : N) (ty : dtype) (path : list ppart) : variant :=
  {| v_name := name;
     v_attrs := [AId id; AType (Some ty)] ++ match path with [] => [] | _ => [APath path] end |}.

Definition test_decl : decl :=
  [ m 3 0x81 DMaster [];
    m 4 0x4101 DUInt [PPIdent 3];
    m 5 0x4102 DUtf8 [PPIdent 3];
    m 6 0x4103 DMaster [PPIdent 3];
    m 7 0x210301 DUInt [PPIdent 3; PPIdent 6];
    m 8 0x1a45dfa3 DMaster [];
    m 9 0x18538067 DMaster [];
    m 10 0x83 DUInt [PPIdent 9];
    m 11 0x1F43B675 DMaster [PPIdent 9];
    m 12 0x97 DUInt [PPIdent 9; PPIdent 11];
    m 13 0x4100 DUInt [PPIdent 9; PPIdent 11];
    m 14 0xa1 DBinary [PPIdent 9; PPIdent 11];
    m 15 0xa3 DBinary [PPIdent 9; PPIdent 11] ].

Definition e (id : N) (ty : dtype) (path : list part) : entry := {| e_id := id; e_ty := ty; e_path := path |}.

Lemma ex_test_spec : derive test_decl = Some
  [ e 0x81 DMaster []; e 0x4101 DUInt [PId 0x81]; e 0x4102 DUtf8 [PId 0x81]; e 0x4103 DMaster [PId 0x81];
    e 0x210301 DUInt [PId 0x81; PId 0x4103]; e 0x1a45dfa3 DMaster []; e 0x18538067 DMaster [];
    e 0x83 DUInt [PId 0x18538067]; e 0x1F43B675 DMaster [PId 0x18538067];
    e 0x97 DUInt [PId 0x18538067; PId 0x1F43B675]; e 0x4100 DUInt [PId 0x18538067; PId 0x1F43B675];
    e 0xa1 DBinary [PId 0x18538067; PId 0x1F43B675]; e 0xa3 DBinary [PId 0x18538067; PId 0x1F43B675];
    e 0xbf DBinary [PGlobal (Some 1) None]; e 0xec DBinary [PGlobal None None] ].
Proof. vm_compute. reflexivity. Qed.

(* attributes in another order, an unrelated attribute, a recursive master behind a trailing
   placeholder, an element below it (intermediate placeholder), an 8-byte id *)
Definition rec_decl : decl :=
  [ {| v_name := 3; v_attrs := [AOther; AType (Some DMaster); AId 0x81] |};
    {| v_name := 4; v_attrs := [APath [PPIdent 3; PPGlobal (Some 0) None]; AId 0x4301; AType (Some DMaster)] |};
    {| v_name := 5; v_attrs := [AType (Some DFloat); APath [PPIdent 3; PPGlobal (Some 0) None; PPIdent 4]; AOther;
                                AId 0x01ffffffffffffff] |};
    {| v_name := 6; v_attrs := [AId 0x4302; AType (Some DSInt); APath [PPIdent 3; PPGlobal None (Some 2)]] |} ].

Lemma ex_rec_spec : derive rec_decl = Some
  [ e 0x81 DMaster []; e 0x4301 DMaster [PId 0x81; PGlobal (Some 0) None];
    e 0x01ffffffffffffff DFloat [PId 0x81; PGlobal (Some 0) None; PId 0x4301];
    e 0x4302 DSInt [PId 0x81; PGlobal None (Some 2)];
    e 0xbf DBinary [PGlobal (Some 1) None]; e 0xec DBinary [PGlobal None None] ].
Proof. vm_compute. reflexivity. Qed.

(* one concrete rejected declaration per malformation class *)
Lemma ex_rejections :
  (* duplicate id *)
  derive [m 3 0x81 DMaster []; m 4 0x81 DUInt [PPIdent 3]] = None /\
  (* user-declared Crc32 id *)
  derive [m 3 0x81 DMaster []; m 4 0xbf DBinary [PPIdent 3]] = None /\
  (* unknown parent *)
  derive [m 3 0x81 DMaster []; m 4 0x82 DUInt [PPIdent 9]] = None /\
  (* non-master parent (also for a master child: the defect fixed as D16 accepted it) *)
  derive [m 3 0x81 DMaster []; m 4 0x82 DUInt [PPIdent 3]; m 5 0x83 DMaster [PPIdent 3; PPIdent 4]] = None /\
  (* path shorter / longer / different from the parent's path *)
  derive [m 3 0x81 DMaster []; m 4 0x82 DMaster [PPIdent 3]; m 5 0x83 DUInt [PPIdent 4]] = None /\
  derive [m 3 0x81 DMaster []; m 4 0x82 DMaster [PPIdent 3]; m 5 0x83 DUInt [PPIdent 3; PPIdent 3; PPIdent 4]] = None /\
  derive [m 3 0x81 DMaster []; m 6 0x84 DMaster []; m 4 0x82 DMaster [PPIdent 3]; m 5 0x83 DUInt [PPIdent 6; PPIdent 4]] = None /\
  derive [m 3 0x81 DMaster []; m 4 0x82 DMaster [PPIdent 3]; m 5 0x83 DUInt [PPIdent 3; PPGlobal None None; PPIdent 4]] = None /\
  (* maximum 0, adjacent placeholders *)
  derive [m 3 0x81 DMaster []; m 4 0x82 DUInt [PPIdent 3; PPGlobal None (Some 0)]] = None /\
  derive [m 3 0x81 DMaster []; m 4 0x82 DUInt [PPIdent 3; PPGlobal None None; PPGlobal (Some 1) None]] = None /\
  (* missing id, missing type, unknown type name, duplicate attribute *)
  derive [{| v_name := 3; v_attrs := [AType (Some DMaster)] |}] = None /\
  derive [{| v_name := 3; v_attrs := [AId 0x81] |}] = None /\
  derive [{| v_name := 3; v_attrs := [AId 0x81; AType None] |}] = None /\
  derive [{| v_name := 3; v_attrs := [AId 0x81; AType (Some DMaster); AId 0x81] |}] = None.
Proof. vm_compute. repeat split; reflexivity. Qed.

(* the same declarations with the malformation removed are accepted *)
Lemma ex_accepted_neighbours :
  derive [m 3 0x81 DMaster []; m 4 0x82 DUInt [PPIdent 3]] <> None /\
  derive [m 3 0x81 DMaster []; m 4 0x82 DMaster [PPIdent 3]; m 5 0x83 DUInt [PPIdent 3; PPIdent 4]] <> None /\
  derive [m 3 0x81 DMaster []; m 4 0x82 DUInt [PPIdent 3; PPGlobal None (Some 1)]] <> None /\
  derive [m 3 0x81 DMaster []; m 4 0x82 DUInt [PPIdent 3; PPGlobal None None]] <> None /\
  derive [] <> None.
Proof. vm_compute. repeat split; discriminate. Qed.

(* the easy_ebml form of the first five variants of the test specification lowers to the same table *)
Lemma ex_easy :
  easy_derive [ {| ev_path := [PPIdent 3]; ev_ty := Some DMaster; ev_id := 0x81 |};
                {| ev_path := [PPIdent 3; PPIdent 4]; ev_ty := Some DUInt; ev_id := 0x4101 |};
                {| ev_path := [PPIdent 3; PPIdent 6]; ev_ty := Some DMaster; ev_id := 0x4103 |};
                {| ev_path := [PPIdent 3; PPIdent 6; PPIdent 7]; ev_ty := Some DUInt; ev_id := 0x210301 |} ]
  = derive [m 3 0x81 DMaster []; m 4 0x4101 DUInt [PPIdent 3]; m 6 0x4103 DMaster [PPIdent 3];
            m 7 0x210301 DUInt [PPIdent 3; PPIdent 6]] /\
  easy_derive [ {| ev_path := [PPIdent 3; PPGlobal None None]; ev_ty := Some DMaster; ev_id := 0x81 |} ] = None.
Proof. vm_compute. split; reflexivity. Qed.
