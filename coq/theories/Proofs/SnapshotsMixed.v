(* C10: snapshots of the destination while masters are still open, (1) when the complete trees of the levels and of the innermost
   forest are presented in ANY mix of Full items and separate calls (the presentations of Proofs/WriteMixed.v), and (2) when any
   number of rejected calls (calls that return an error other than an I/O error, Proofs/AuditWriter.v) are inserted at arbitrary
   positions of the call sequence.  (3) Every prefix of a presentation of a conforming document is such an open call sequence,
   so the snapshot theorems apply after every call. *)
From Ebml Require Import Base Tools Spec Writer Reader Pure Encode.
From Ebml Require Import Proofs.Tactics Proofs.BytesProofs Proofs.VintProofs Proofs.DecodersProofs Proofs.SpecProofs Proofs.WriterProofs Proofs.ReaderIO Proofs.Refine Proofs.PureProofs Proofs.RollUp Proofs.RoundTrip Proofs.WriteEnc Proofs.WriteFull Proofs.WriteMixed Proofs.Nesting Proofs.Partial Proofs.Recover Proofs.Snapshots Proofs.AuditWriter Proofs.WriteEncG.
Import ListNotations.
Local Open Scope N_scope.

(* ------------------------------------------------------------------ 1. the calls, with presentations *)
(* P gives, level by level, the presentations of the complete sibling trees of that level (missing ones: Full); the open master
   of a level is necessarily a Start call *)
Fixpoint pops_levels (d : bool) (L : list level) (P : list (list pres)) : list wop :=
  match L with
  | [] => []
  | lv :: L' => pops_forest d (lv_f lv) (hd [] P) ++ level_start d lv :: pops_levels d L' (tl P)
  end.
Definition pops_open (d : bool) (L : list level) (P : list (list pres)) (f : list rtree) (ps : list pres) : list wop :=
  pops_levels d L P ++ pops_forest d f ps.

Fixpoint pconf_levels (sp : spec) (d : bool) (ids : list N) (L : list level) (P : list (list pres)) : Prop :=
  match L with
  | [] => True
  | lv :: L' =>
      pconf_forest sp d ids (lv_f lv) (hd [] P) /\ get_type sp (lv_id lv) = Some DMaster /\ get_path sp (lv_id lv) = map PId ids /\
      pconf_levels sp d (ids ++ [lv_id lv]) L' (tl P)
  end.

(* the all-separate presentation of the levels is the call sequence of Proofs/Snapshots.v *)
Definition all_sep_levels (L : list level) : list (list pres) := map (fun lv => map all_sep (lv_f lv)) L.

Lemma pops_levels_all_sep d : forall L, pops_levels d L (all_sep_levels L) = wops_levels d L.
Proof.
  induction L as [|lv L IH]; [reflexivity|]. cbn [pops_levels wops_levels all_sep_levels map hd tl]. fold (all_sep_levels L).
  rewrite pops_forest_all_sep, IH. reflexivity.
Qed.

Lemma pops_open_all_sep d L f : pops_open d L (all_sep_levels L) f (map all_sep f) = wops_open d L f.
Proof. unfold pops_open, wops_open. rewrite pops_levels_all_sep, pops_forest_all_sep. reflexivity. Qed.

Lemma pconf_levels_all_sep sp d : forall L ids, pconf_levels sp d ids L (all_sep_levels L) <-> wconf_levels sp d ids L.
Proof.
  induction L as [|lv L IH]; intros ids; [reflexivity|]. cbn [pconf_levels wconf_levels all_sep_levels map hd tl]. fold (all_sep_levels L).
  rewrite pconf_forest_all_sep, IH. reflexivity.
Qed.

Lemma write_pres_forest' sp d l ps ids st : pconf_forest sp d ids l ps ->
  w_script st = [] -> rev (open_ids (w_open st)) = ids -> (has_known (w_open st) = false -> w_buf st = []) ->
  exists st', wrun_ok sp st (pops_forest d l ps) st' /\ w_open st' = w_open st /\ w_script st' = [] /\ image st' = image st ++ enc_forest l /\
    (has_known (w_open st) = true -> w_dest st' = w_dest st) /\ (has_known (w_open st) = false -> w_buf st' = []).
Proof.
  apply write_pres_forest. apply Forall_forall. intros t _. apply write_pres.
Qed.

Lemma write_plevels sp d : forall L P ids st, pconf_levels sp d ids L P -> w_script st = [] -> rev (open_ids (w_open st)) = ids ->
  (has_known (w_open st) = false -> w_buf st = []) ->
  exists st', wrun_ok sp st (pops_levels d L P) st' /\ w_script st' = [] /\ rev (open_ids (w_open st')) = lv_ids ids L /\
    has_known (w_open st') = has_known (w_open st) || levels_known L /\ image st' = image st ++ wbytes_levels L /\
    (has_known (w_open st) = true -> w_dest st' = w_dest st) /\ (has_known (w_open st') = false -> w_buf st' = []).
Proof.
  induction L as [|lv L IH]; intros P ids st Hc Hs Hi Hinv.
  - exists st. split; [apply wrun_ok_nil|]. cbn [lv_ids wbytes_levels]. unfold levels_known. cbn [existsb].
    rewrite orb_false_r, app_nil_r. repeat split; auto.
  - destruct Hc as [Hf [Hty [Hpath HL]]].
    destruct (write_pres_forest' sp d (lv_f lv) (hd [] P) ids st Hf Hs Hi Hinv) as [st1 [R1 [O1 [S1 [I1 [K1 U1]]]]]].
    assert (Hi1 : rev (open_ids (w_open st1)) = ids) by (rewrite O1; exact Hi).
    assert (Hinv1 : has_known (w_open st1) = false -> w_buf st1 = []) by (rewrite O1; exact U1).
    destruct (level_start_step sp d lv ids st1 Hty Hpath S1 Hi1 Hinv1) as [st2 [Hstep2 [S2 [Hi2 [Hkn2 [I2 [K2 U2]]]]]]].
    destruct (IH (tl P) _ st2 HL S2 Hi2 U2) as [st3 [R3 [S3 [Hi3 [Hkn3 [I3 [K3 U3]]]]]]].
    exists st3. split.
    { cbn [pops_levels]. eapply wrun_ok_app; [exact R1|]. eapply wrun_ok_cons; [exact Hstep2|exact R3]. }
    split; [exact S3|]. split; [exact Hi3|]. rewrite O1 in Hkn2.
    split; [rewrite Hkn3, Hkn2; unfold levels_known; cbn [existsb]; rewrite orb_assoc; reflexivity|].
    split; [rewrite I3, I2, I1; cbn [wbytes_levels]; rewrite <- !app_assoc; reflexivity|].
    split; [|exact U3].
    intros Hkn. assert (Hk2 : has_known (w_open st2) = true) by (rewrite Hkn2, Hkn; reflexivity).
    rewrite (K3 Hk2), (K2 Hk2). apply K1, Hkn.
Qed.

(* the streaming case, any presentation *)
Theorem snapshot_mixed_bytes sp d L P f ps : Forall lv_unknown L -> pconf_levels sp d [] L P -> pconf_forest sp d (lv_ids [] L) f ps ->
  Forall (fun r => fst r = WOk) (fst (run_writer sp (pops_open d L P f ps) [])) /\
  snd (run_writer sp (pops_open d L P f ps) []) = enc_levels L ++ enc_forest f.
Proof.
  intros HU HL Hf. destruct (wbytes_unknown L HU) as [Hb Hk].
  destruct (write_plevels sp d L P [] (w_init []) HL eq_refl eq_refl (fun _ => eq_refl)) as [st1 [R1 [S1 [Hi1 [Hkn1 [I1 [_ U1]]]]]]].
  rewrite Hk in Hkn1. cbn [w_init w_open has_known existsb orb] in Hkn1. rewrite Hb in I1.
  destruct (write_pres_forest' sp d f ps _ st1 Hf S1 Hi1 U1) as [st2 [R2 [O2 [S2 [I2 [_ U2]]]]]].
  assert (R : wrun_ok sp (w_init []) (pops_open d L P f ps) st2) by (unfold pops_open; eapply wrun_ok_app; eassumption).
  destruct (run_writer_ok sp _ _ R) as [Hok Hd]. split; [exact Hok|]. rewrite Hd.
  unfold image in I2. rewrite (U2 Hkn1), app_nil_r in I2. rewrite I2. fold (image st1). rewrite I1. reflexivity.
Qed.

Lemma pops_levels_app d : forall A B P, pops_levels d (A ++ B) P = pops_levels d A P ++ pops_levels d B (skipn (length A) P).
Proof.
  induction A as [|lv A IH]; intros B P; [reflexivity|]. cbn [app pops_levels length]. rewrite IH, <- app_assoc. cbn [app].
  destruct P; cbn [tl skipn]; [destruct (length A)|]; reflexivity.
Qed.

Lemma pconf_levels_app sp d : forall A B P ids, pconf_levels sp d ids (A ++ B) P <->
  pconf_levels sp d ids A P /\ pconf_levels sp d (lv_ids ids A) B (skipn (length A) P).
Proof.
  induction A as [|lv A IH]; intros B P ids; [cbn [app pconf_levels lv_ids length skipn]; tauto|].
  cbn [app pconf_levels lv_ids length]. rewrite IH.
  assert (E : skipn (length A) (tl P) = skipn (Datatypes.S (length A)) P) by (destruct P; cbn [tl skipn]; [destruct (length A)|]; reflexivity).
  rewrite E. tauto.
Qed.

(* the held case, any presentation *)
Theorem snapshot_mixed_held sp d L1 lvk L2 P f ps : Forall lv_unknown L1 -> lv_size lvk <> None ->
  pconf_levels sp d [] (L1 ++ lvk :: L2) P -> pconf_forest sp d (lv_ids [] (L1 ++ lvk :: L2)) f ps ->
  Forall (fun r => fst r = WOk) (fst (run_writer sp (pops_open d (L1 ++ lvk :: L2) P f ps) [])) /\
  snd (run_writer sp (pops_open d (L1 ++ lvk :: L2) P f ps) []) = enc_levels L1 ++ enc_forest (lv_f lvk).
Proof.
  intros HU Hkn HL Hf. destruct (wbytes_unknown L1 HU) as [Hb Hk].
  apply pconf_levels_app in HL. destruct HL as [HL1 HLk]. set (Pk := skipn (length L1) P) in *.
  cbn [pconf_levels] in HLk. destruct HLk as [Hfk [Hty [Hpath HL2]]].
  rewrite lv_ids_app in Hf. cbn [lv_ids] in Hf.
  destruct (write_plevels sp d L1 P [] (w_init []) HL1 eq_refl eq_refl (fun _ => eq_refl)) as [st1 [R1 [S1 [Hi1 [Hkn1 [I1 [_ U1]]]]]]].
  rewrite Hk in Hkn1. cbn [w_init w_open has_known existsb orb] in Hkn1. rewrite Hb in I1.
  assert (Hd1 : w_dest st1 = enc_levels L1).
  { unfold image in I1. rewrite (U1 Hkn1), app_nil_r in I1. exact I1. }
  destruct (write_pres_forest' sp d (lv_f lvk) (hd [] Pk) _ st1 Hfk S1 Hi1 U1) as [st2 [R2 [O2 [S2 [I2 [_ U2]]]]]].
  assert (Hd2 : w_dest st2 = enc_levels L1 ++ enc_forest (lv_f lvk)).
  { unfold image in I2. rewrite (U2 Hkn1), (U1 Hkn1), !app_nil_r, Hd1 in I2. exact I2. }
  assert (Hi2 : rev (open_ids (w_open st2)) = lv_ids [] L1) by (rewrite O2; exact Hi1).
  assert (Hinv2 : has_known (w_open st2) = false -> w_buf st2 = []) by (rewrite O2; exact U2).
  destruct (level_start_step sp d lvk _ st2 Hty Hpath S2 Hi2 Hinv2) as [st3 [Hstep3 [S3 [Hi3 [Hkn3 [_ [K3 U3]]]]]]].
  assert (Hk3 : has_known (w_open st3) = true).
  { rewrite Hkn3. unfold lv_known. destruct (lv_size lvk); [apply orb_true_r|contradiction Hkn; reflexivity]. }
  destruct (write_plevels sp d L2 (tl Pk) _ st3 HL2 S3 Hi3 U3) as [st4 [R4 [S4 [Hi4 [Hkn4 [_ [K4 U4]]]]]]].
  assert (Hk4 : has_known (w_open st4) = true) by (rewrite Hkn4, Hk3; reflexivity).
  destruct (write_pres_forest' sp d f ps _ st4 Hf S4 Hi4 U4) as [st5 [R5 [_ [_ [_ [K5 _]]]]]].
  assert (R : wrun_ok sp (w_init []) (pops_open d (L1 ++ lvk :: L2) P f ps) st5).
  { unfold pops_open. rewrite pops_levels_app. fold Pk. cbn [pops_levels]. rewrite <- !app_assoc.
    eapply wrun_ok_app; [exact R1|]. eapply wrun_ok_app; [exact R2|]. cbn [app]. eapply wrun_ok_cons; [exact Hstep3|].
    eapply wrun_ok_app; [exact R4|exact R5]. }
  destruct (run_writer_ok sp _ _ R) as [Hok Hd]. split; [exact Hok|]. rewrite Hd, (K5 Hk4), (K4 Hk3), (K3 Hk3). exact Hd2.
Qed.

(* ------------------------------------------------------------------ the reader side *)
Lemma pconf_conf c d : forall t p ids, pconf (c_sp c) d ids t p -> rconf c t -> conf c ids t.
Proof.
  induction t as [id v pl sl|id sz cs IH] using rtree_ind'; intros p ids Hw Hr.
  - rewrite pconf_leaf in Hw. apply (wconf_conf c d); assumption.
  - destruct p as [|ps]; [rewrite pconf_full in Hw; apply (fconf_conf c d); assumption|].
    apply pconf_sep in Hw. destruct Hw as [Hpath [Hty [Hsz Hcs]]]. apply rconf_node in Hr. destruct Hr as [Hid [Hmax Hrs]]. apply conf_node.
    split; [exact Hid|]. split; [intros sl Hsl; destruct (Hsz sl Hsl) as [H1 [H2 _]]; split; assumption|].
    split; [exact Hty|]. split; [exact Hpath|]. split; [exact Hmax|].
    clear Hsz Hmax. revert ps Hcs. induction cs as [|x l IHl]; intros ps Hcs; [constructor|].
    apply Forall_cons_iff in IH. destruct IH as [Hx Hl]. apply Forall_cons_iff in Hrs. destruct Hrs as [Hrx Hrl].
    cbn [pconf_forest] in Hcs. destruct Hcs as [Hcx Hcl].
    constructor; [apply (Hx (phd ps)); assumption|apply (IHl Hl Hrl (tl ps)); assumption].
Qed.

Lemma pconf_forest_conf c d ids : forall l ps, pconf_forest (c_sp c) d ids l ps -> Forall (rconf c) l -> Forall (conf c ids) l.
Proof.
  induction l as [|x l IH]; intros ps Hc Hr; [constructor|]. cbn [pconf_forest] in Hc. destruct Hc as [Hcx Hcl].
  apply Forall_cons_iff in Hr. destruct Hr as [Hrx Hrl]. constructor; [apply (pconf_conf c d x (phd ps)); assumption|apply (IH (tl ps)); assumption].
Qed.

Lemma pconf_levels_conf c d : forall L P ids inner, pconf_levels (c_sp c) d ids L P -> rconf_levels c L -> Forall lv_unknown L ->
  conf_levels c ids L inner.
Proof.
  induction L as [|lv L IH]; intros P ids inner Hw Hr HU; [exact I|].
  destruct Hw as [Hf [Hty [Hpath HL]]]. apply Forall_cons_iff in Hr. destruct Hr as [[Hrf Hid] HrL].
  apply Forall_cons_iff in HU. destruct HU as [Hn HU]. unfold lv_unknown in Hn. cbn [conf_levels]. rewrite Hn.
  split; [apply (pconf_forest_conf c d ids _ (hd [] P)); assumption|].
  split; [exact Hid|]. split; [exact Hty|]. split; [exact Hpath|]. split; [exact I|].
  split; [unfold size_ok; cbn [fesz]; destruct (c_max c); exact I|]. split; [intros n Hx; discriminate Hx|].
  apply (IH (tl P)); assumption.
Qed.

Lemma snapshot_mixed_conf c d L P f ps : Forall lv_unknown L -> pconf_levels (c_sp c) d [] L P ->
  pconf_forest (c_sp c) d (lv_ids [] L) f ps -> rconf_levels c L -> Forall (rconf c) f -> conf_tdoc c (snapshot_doc L f).
Proof.
  intros HU HL Hf HrL Hrf. unfold conf_tdoc, snapshot_doc. cbn [td_levels td_f td_tail].
  split; [apply (pconf_levels_conf c d L P); assumption|]. split; [|exact I].
  apply (pconf_forest_conf c d _ f ps); assumption.
Qed.

Theorem snapshot_mixed_parses c d L P f ps : strict c -> c_buffered c = [] -> c_emit_eof c = true ->
  Forall lv_unknown L -> pconf_levels (c_sp c) d [] L P -> pconf_forest (c_sp c) d (lv_ids [] L) f ps ->
  rconf_levels c L -> Forall (rconf c) f ->
  p_run c (snd (run_writer (c_sp c) (pops_open d L P f ps) [])) [RAll] = out_tdoc (snapshot_doc L f).
Proof.
  intros Hs Hb He HU HL Hf HrL Hrf. destruct (snapshot_mixed_bytes (c_sp c) d L P f ps HU HL Hf) as [_ Henc].
  rewrite Henc, <- enc_snapshot. apply truncated_run; try assumption. apply (snapshot_mixed_conf c d L P f ps); assumption.
Qed.

Theorem snapshot_mixed_held_parses c d L1 lvk L2 P f ps : strict c -> c_buffered c = [] -> c_emit_eof c = true ->
  Forall lv_unknown L1 -> lv_size lvk <> None ->
  pconf_levels (c_sp c) d [] (L1 ++ lvk :: L2) P -> pconf_forest (c_sp c) d (lv_ids [] (L1 ++ lvk :: L2)) f ps ->
  rconf_levels c L1 -> Forall (rconf c) (lv_f lvk) ->
  p_run c (snd (run_writer (c_sp c) (pops_open d (L1 ++ lvk :: L2) P f ps) [])) [RAll] = out_tdoc (snapshot_doc L1 (lv_f lvk)).
Proof.
  intros Hs Hb He HU Hkn HL Hf HrL Hrf. destruct (snapshot_mixed_held (c_sp c) d L1 lvk L2 P f ps HU Hkn HL Hf) as [_ Henc].
  rewrite Henc, <- enc_snapshot. apply truncated_run; try assumption.
  apply pconf_levels_app in HL. destruct HL as [HL1 [Hfk _]].
  apply (snapshot_mixed_conf c d L1 P (lv_f lvk) (hd [] (skipn (length L1) P))); assumption.
Qed.

(* the tags read back: every tag written so far — Full items unrolled into Start, children, End — then the Ends of the open
   masters, innermost first *)
Theorem snapshot_mixed_out_tags c d L P f ps : strict c -> c_buffered c = [] -> c_emit_eof c = true ->
  Forall lv_unknown L -> pconf_levels (c_sp c) d [] L P -> pconf_forest (c_sp c) d (lv_ids [] L) f ps ->
  rconf_levels c L -> Forall (rconf c) f ->
  out_tags (p_run c (snd (run_writer (c_sp c) (pops_open d L P f ps) [])) [RAll]) = tags_levels L ++ tags_forest f ++ open_ends L.
Proof.
  intros Hs Hb He HU HL Hf HrL Hrf. apply out_tag_tags.
  rewrite (snapshot_mixed_parses c d L P f ps Hs Hb He HU HL Hf HrL Hrf). apply snapshot_out_tag.
Qed.

(* the tags of the calls, Full items unrolled: exactly the tags of the levels and of the innermost forest *)
Lemma pops_levels_tags d : forall L P, flat (wtags (pops_levels d L P)) = tags_levels L.
Proof.
  induction L as [|lv L IH]; intros P; [reflexivity|]. cbn [pops_levels tags_levels].
  change (level_start d lv :: pops_levels d L (tl P)) with ([level_start d lv] ++ pops_levels d L (tl P)).
  rewrite !wtags_app, !flat_app, pops_forest_tags, IH. reflexivity.
Qed.

Lemma pops_open_tags d L P f ps : flat (wtags (pops_open d L P f ps)) = tags_levels L ++ tags_forest f.
Proof. unfold pops_open. rewrite wtags_app, flat_app, pops_levels_tags, pops_forest_tags. reflexivity. Qed.

(* ------------------------------------------------------------------ 2. rejected calls in between *)
(* a call is rejected in state st: it returns an error that is not an I/O error (a write_raw payload shorter than 2^56-1 bytes) *)
Definition rejected (sp : spec) (st : wst) (op : wop) : Prop :=
  raw_exists op /\ exists st' e, wstep sp st op = (st', WErr e) /\ forall x, e <> EIo x.

(* [rej_insert sp st ops ops']: ops' is ops with calls inserted at arbitrary positions, each of which is rejected in the state
   the run from st has reached at that point *)
Inductive rej_insert (sp : spec) : wst -> list wop -> list wop -> Prop :=
| RI_nil : forall st, rej_insert sp st [] []
| RI_rej : forall st op ops ops', rejected sp st op -> rej_insert sp st ops ops' -> rej_insert sp st ops (op :: ops')
| RI_keep : forall st op ops ops', rej_insert sp (fst (wstep sp st op)) ops ops' -> rej_insert sp st (op :: ops) (op :: ops').

Definition res_ok (r : wres) : bool := match r with WOk => true | _ => false end.
Definition row_ok (r : wres * nat) : bool := res_ok (fst r).
(* the calls that returned Ok, in order *)
Definition accepted_calls (ops : list wop) (rs : list (wres * nat)) : list wop :=
  map fst (filter (fun p => row_ok (snd p)) (combine ops rs)).
(* a result is Ok or a rejection *)
Definition ok_or_rejected (r : wres * nat) : Prop := fst r = WOk \/ exists e, fst r = WErr e /\ forall x, e <> EIo x.

Lemma rejected_skip sp st op ops : rejected sp st op ->
  exists e, (forall x, e <> EIo x) /\ wrun sp st (op :: ops) = (fst (wrun sp st ops), (WErr e, length (w_dest st)) :: snd (wrun sp st ops)).
Proof.
  intros [Hc [st' [e [Hs Hio]]]]. pose proof (wstep_atomic _ _ _ _ _ Hc Hs Hio) as E. subst st'.
  exists e. split; [exact Hio|]. apply wrun_skip, Hs.
Qed.

Theorem rej_insert_run sp : forall st ops ops', rej_insert sp st ops ops' ->
  Forall (fun r => fst r = WOk) (snd (wrun sp st ops)) ->
  fst (wrun sp st ops') = fst (wrun sp st ops) /\
  filter row_ok (snd (wrun sp st ops')) = snd (wrun sp st ops) /\
  accepted_calls ops' (snd (wrun sp st ops')) = ops /\
  Forall ok_or_rejected (snd (wrun sp st ops')) /\
  length (snd (wrun sp st ops')) = length ops'.
Proof.
  intros st ops ops' H. induction H as [st|st op ops ops' Hrej H IH|st op ops ops' H IH]; intros Hok.
  - cbn [wrun fst snd filter]. repeat split; constructor.
  - destruct (IH Hok) as [I1 [I2 [I3 [I4 I5]]]]. destruct (rejected_skip sp st op ops' Hrej) as [e [Hio E]]. rewrite E. cbn [fst snd].
    split; [exact I1|]. split; [cbn [filter row_ok res_ok fst]; exact I2|].
    split; [unfold accepted_calls in *; cbn [combine filter row_ok res_ok fst snd]; exact I3|].
    split; [constructor; [right; exists e; split; [reflexivity|exact Hio]|exact I4]|]. cbn [length]. rewrite I5. reflexivity.
  - cbn [wrun] in Hok |- *. destruct (wstep sp st op) as [s r] eqn:Es. cbn [fst] in H, IH.
    assert (Hr : r = WOk).
    { destruct r; [reflexivity| |]; [destruct (wrun sp s ops); cbn [snd] in Hok|cbn [snd] in Hok]; inversion Hok as [|? ? Hh _]; subst; discriminate Hh. }
    subst r. destruct (wrun sp s ops) as [s1 rs1] eqn:E1. destruct (wrun sp s ops') as [s2 rs2] eqn:E2. cbn [fst snd] in *.
    apply Forall_cons_iff in Hok. destruct Hok as [_ Hok]. destruct (IH Hok) as [I1 [I2 [I3 [I4 I5]]]].
    split; [exact I1|]. split; [cbn [filter row_ok res_ok fst]; rewrite I2; reflexivity|].
    split; [unfold accepted_calls in *; cbn [combine filter row_ok res_ok fst snd map]; rewrite I3; reflexivity|].
    split; [constructor; [left; reflexivity|exact I4]|]. cbn [length]. rewrite I5. reflexivity.
Qed.

(* the same for whole runs of the writer over the accepting destination *)
Theorem rej_insert_writer sp ops ops' : rej_insert sp (w_init []) ops ops' ->
  Forall (fun r => fst r = WOk) (fst (run_writer sp ops [])) ->
  snd (run_writer sp ops' []) = snd (run_writer sp ops []) /\
  filter row_ok (fst (run_writer sp ops' [])) = fst (run_writer sp ops []) /\
  accepted_calls ops' (fst (run_writer sp ops' [])) = ops /\
  Forall ok_or_rejected (fst (run_writer sp ops' [])) /\
  length (fst (run_writer sp ops' [])) = length ops'.
Proof.
  intros H Hok. unfold run_writer in *. pose proof (rej_insert_run sp _ _ _ H) as R.
  destruct (wrun sp (w_init []) ops) as [s1 rs1]. destruct (wrun sp (w_init []) ops') as [s2 rs2]. cbn [fst snd] in *.
  destruct (R Hok) as [I1 [I2 [I3 [I4 I5]]]]. subst s2. repeat split; assumption.
Qed.

(* inserting rejected calls is compatible with prefixes: a prefix of ops' is a prefix of ops with rejected calls inserted *)
Lemma rej_insert_prefix sp : forall st ops ops', rej_insert sp st ops ops' -> forall a' b', ops' = a' ++ b' ->
  exists a b, ops = a ++ b /\ rej_insert sp st a a'.
Proof.
  intros st ops ops' H. induction H as [st|st op ops ops' Hrej H IH|st op ops ops' H IH]; intros a' b' E.
  - destruct a'; [|discriminate E]. exists [], []. split; [reflexivity|constructor].
  - destruct a' as [|x a'].
    + exists [], ops. split; [reflexivity|constructor].
    + cbn [app] in E. injection E as -> E. destruct (IH a' b' E) as [a [b [E1 R]]]. exists a, b. split; [exact E1|apply RI_rej; assumption].
  - destruct a' as [|x a'].
    + exists [], (op :: ops). split; [reflexivity|constructor].
    + cbn [app] in E. injection E as -> E. destruct (IH a' b' E) as [a [b [E1 R]]]. exists (x :: a), b.
      split; [rewrite E1; reflexivity|apply RI_keep; exact R].
Qed.

(* no insertion at all *)
Lemma rej_insert_refl sp : forall ops st, rej_insert sp st ops ops.
Proof. induction ops as [|op ops IH]; intros st; [constructor|apply RI_keep, IH]. Qed.

(* the snapshot theorems with rejected calls in between *)
Theorem snapshot_with_rejected sp d L P f ps ops' : Forall lv_unknown L -> pconf_levels sp d [] L P -> pconf_forest sp d (lv_ids [] L) f ps ->
  rej_insert sp (w_init []) (pops_open d L P f ps) ops' ->
  snd (run_writer sp ops' []) = enc_levels L ++ enc_forest f /\
  accepted_calls ops' (fst (run_writer sp ops' [])) = pops_open d L P f ps /\
  filter row_ok (fst (run_writer sp ops' [])) = fst (run_writer sp (pops_open d L P f ps) []) /\
  Forall ok_or_rejected (fst (run_writer sp ops' [])) /\ length (fst (run_writer sp ops' [])) = length ops'.
Proof.
  intros HU HL Hf H. destruct (snapshot_mixed_bytes sp d L P f ps HU HL Hf) as [Hok Henc].
  destruct (rej_insert_writer sp _ _ H Hok) as [I1 [I2 [I3 [I4 I5]]]]. rewrite I1, Henc. repeat split; assumption.
Qed.

Theorem snapshot_held_with_rejected sp d L1 lvk L2 P f ps ops' : Forall lv_unknown L1 -> lv_size lvk <> None ->
  pconf_levels sp d [] (L1 ++ lvk :: L2) P -> pconf_forest sp d (lv_ids [] (L1 ++ lvk :: L2)) f ps ->
  rej_insert sp (w_init []) (pops_open d (L1 ++ lvk :: L2) P f ps) ops' ->
  snd (run_writer sp ops' []) = enc_levels L1 ++ enc_forest (lv_f lvk) /\
  accepted_calls ops' (fst (run_writer sp ops' [])) = pops_open d (L1 ++ lvk :: L2) P f ps /\
  filter row_ok (fst (run_writer sp ops' [])) = fst (run_writer sp (pops_open d (L1 ++ lvk :: L2) P f ps) []) /\
  Forall ok_or_rejected (fst (run_writer sp ops' [])) /\ length (fst (run_writer sp ops' [])) = length ops'.
Proof.
  intros HU Hkn HL Hf H. destruct (snapshot_mixed_held sp d L1 lvk L2 P f ps HU Hkn HL Hf) as [Hok Henc].
  destruct (rej_insert_writer sp _ _ H Hok) as [I1 [I2 [I3 [I4 I5]]]]. rewrite I1, Henc. repeat split; assumption.
Qed.

(* ... and the destination parses to exactly the accepted tags (Full items unrolled), then the Ends of the open masters *)
Theorem snapshot_with_rejected_parses c d L P f ps ops' : strict c -> c_buffered c = [] -> c_emit_eof c = true ->
  Forall lv_unknown L -> pconf_levels (c_sp c) d [] L P -> pconf_forest (c_sp c) d (lv_ids [] L) f ps ->
  rconf_levels c L -> Forall (rconf c) f ->
  rej_insert (c_sp c) (w_init []) (pops_open d L P f ps) ops' ->
  p_run c (snd (run_writer (c_sp c) ops' [])) [RAll] = out_tdoc (snapshot_doc L f) /\
  out_tags (p_run c (snd (run_writer (c_sp c) ops' [])) [RAll]) =
    flat (wtags (accepted_calls ops' (fst (run_writer (c_sp c) ops' [])))) ++ open_ends L.
Proof.
  intros Hs Hb He HU HL Hf HrL Hrf H. destruct (snapshot_with_rejected (c_sp c) d L P f ps ops' HU HL Hf H) as [E1 [E2 _]].
  destruct (snapshot_mixed_bytes (c_sp c) d L P f ps HU HL Hf) as [_ Henc].
  rewrite E2, E1, <- Henc, pops_open_tags, <- app_assoc.
  split; [apply snapshot_mixed_parses; assumption|apply snapshot_mixed_out_tags; assumption].
Qed.

(* ------------------------------------------------------------------ 3. every prefix of a presentation is an open call sequence *)
(* the level a separately written master (id, size option sz) leaves open right after its Start *)
Definition node_level (id : N) (sz : option nat) : level :=
  {| lv_f := []; lv_id := id; lv_sl := match sz with Some sl => sl | None => O end;
     lv_size := match sz with Some _ => Some 0 | None => None end |}.

Lemma level_start_node d id sz : level_start d (node_level id sz) = OpWrite (TStart id) (node_opt d sz).
Proof. destruct sz; reflexivity. Qed.

(* what a closure step yields: the prefix [a], made under the chain [ids], is an open call sequence with conforming pieces; the
   reader-side conditions carry over; an all-separate presentation stays all-separate *)
Definition open_seq (sp : spec) (d : bool) (c : cfg) (ids : list N) (a : list wop) (rc : Prop) (sep : Prop) : Prop :=
  exists L P f ps, a = pops_open d L P f ps /\ pconf_levels sp d ids L P /\ pconf_forest sp d (lv_ids ids L) f ps /\
    (rc -> rconf_levels c L /\ Forall (rconf c) f) /\ (sep -> P = all_sep_levels L /\ ps = map all_sep f).

Lemma open_seq_weaken sp d c ids a (rc rc' sep sep' : Prop) : (rc' -> rc) -> (sep' -> sep) ->
  open_seq sp d c ids a rc sep -> open_seq sp d c ids a rc' sep'.
Proof.
  intros H1 H2 [L [P [f [ps [E [HL [Hf [Hr Hs]]]]]]]]. exists L, P, f, ps.
  split; [exact E|]. split; [exact HL|]. split; [exact Hf|]. split; [intros X; apply Hr, H1, X|intros X; apply Hs, H2, X].
Qed.

Lemma open_seq_empty sp d c ids rc sep : open_seq sp d c ids [] rc sep.
Proof.
  exists [], [], [], []. split; [reflexivity|]. split; [exact I|]. split; [exact I|].
  split; [intros _; split; constructor|intros _; split; reflexivity].
Qed.

Lemma open_seq_whole sp d c ids t p : pconf sp d ids t p -> open_seq sp d c ids (pops d t p) (rconf c t) (p = all_sep t).
Proof.
  intros Hc. exists [], [], [t], [p]. unfold pops_open. cbn [pops_levels pops_forest phd tl app lv_ids pconf_forest pconf_levels].
  split; [rewrite app_nil_r; reflexivity|]. split; [exact I|]. split; [split; [exact Hc|exact I]|].
  split; [intros Hr; split; [constructor|constructor; [exact Hr|constructor]]|intros ->; split; reflexivity].
Qed.

(* a complete tree in front of an open call sequence *)
Lemma open_seq_prepend sp d c ids x p a rc sep : pconf sp d ids x p -> open_seq sp d c ids a rc sep ->
  open_seq sp d c ids (pops d x p ++ a) (rconf c x /\ rc) (p = all_sep x /\ sep).
Proof.
  intros Hx [L [P [f [ps [E [HL [Hf [Hr Hs]]]]]]]]. subst a. destruct L as [|lv L].
  - exists [], [], (x :: f), (p :: ps). unfold pops_open. cbn [pops_levels pops_forest phd tl app lv_ids pconf_forest pconf_levels] in *.
    split; [reflexivity|]. split; [exact I|]. split; [split; assumption|].
    split.
    + intros [Hrx Hrc]. destruct (Hr Hrc) as [_ Hrf]. split; constructor; assumption.
    + intros [-> Hsep]. destruct (Hs Hsep) as [_ ->]. split; reflexivity.
  - set (lv' := {| lv_f := x :: lv_f lv; lv_id := lv_id lv; lv_sl := lv_sl lv; lv_size := lv_size lv |}).
    exists (lv' :: L), ((p :: hd [] P) :: tl P), f, ps. unfold pops_open.
    cbn [pops_levels pops_forest phd tl hd app lv_ids pconf_forest pconf_levels lv_f lv_id lv'] in *.
    destruct HL as [Hlf [Hty [Hpath HL]]].
    split; [rewrite <- !app_assoc; reflexivity|]. split; [split; [split; assumption|]; split; [exact Hty|]; split; [exact Hpath|exact HL]|].
    split; [exact Hf|]. split.
    + intros [Hrx Hrc]. destruct (Hr Hrc) as [HrL Hrf]. apply Forall_cons_iff in HrL. destruct HrL as [[Hr1 Hr2] HrL].
      split; [|exact Hrf]. constructor; [|exact HrL]. cbn [lv_f lv_id]. split; [constructor; assumption|exact Hr2].
    + intros [-> Hsep]. destruct (Hs Hsep) as [-> ->]. split; reflexivity.
Qed.

(* an open master in front of an open call sequence made inside it *)
Lemma open_seq_start sp d c ids id sz a rc sep : get_type sp id = Some DMaster -> get_path sp id = map PId ids ->
  open_seq sp d c (ids ++ [id]) a rc sep ->
  open_seq sp d c ids (OpWrite (TStart id) (node_opt d sz) :: a) (idok id /\ rc) sep.
Proof.
  intros Hty Hpath [L [P [f [ps [E [HL [Hf [Hr Hs]]]]]]]]. subst a.
  exists (node_level id sz :: L), ([] :: P), f, ps. unfold pops_open.
  cbn [pops_levels pops_forest hd tl app lv_ids pconf_forest pconf_levels]. rewrite level_start_node.
  replace (lv_f (node_level id sz)) with (@nil rtree) by (destruct sz; reflexivity).
  replace (lv_id (node_level id sz)) with id by (destruct sz; reflexivity).
  cbn [pops_forest pconf_forest app].
  split; [reflexivity|]. split; [split; [exact I|]; split; [exact Hty|]; split; [exact Hpath|exact HL]|]. split; [exact Hf|].
  split.
  - intros [Hid Hrc]. destruct (Hr Hrc) as [HrL Hrf]. split; [|exact Hrf]. constructor; [|exact HrL].
    replace (lv_f (node_level id sz)) with (@nil rtree) by (destruct sz; reflexivity).
    replace (lv_id (node_level id sz)) with id by (destruct sz; reflexivity). split; [constructor|exact Hid].
  - intros Hsep. destruct (Hs Hsep) as [-> ->]. split; [|reflexivity].
    unfold all_sep_levels. cbn [map]. replace (lv_f (node_level id sz)) with (@nil rtree) by (destruct sz; reflexivity). reflexivity.
Qed.

Definition Qtree (sp : spec) (d : bool) (c : cfg) (t : rtree) : Prop :=
  forall p ids a b, pconf sp d ids t p -> pops d t p = a ++ b -> open_seq sp d c ids a (rconf c t) (p = all_sep t).

Lemma prefix_forest sp d c : forall l, Forall (Qtree sp d c) l -> forall ps ids a b, pconf_forest sp d ids l ps ->
  pops_forest d l ps = a ++ b -> open_seq sp d c ids a (Forall (rconf c) l) (ps = map all_sep l).
Proof.
  induction l as [|x l IH]; intros HQ ps ids a b Hc E.
  - cbn [pops_forest] in E. symmetry in E. apply app_eq_nil in E. destruct E as [-> _]. apply open_seq_empty.
  - apply Forall_cons_iff in HQ. destruct HQ as [Qx Ql]. cbn [pops_forest pconf_forest] in E, Hc. destruct Hc as [Hcx Hcl].
    apply app_eq_app in E. destruct E as [m [[E1 E2]|[E1 E2]]].
    + (* the prefix ends inside x *)
      eapply open_seq_weaken; [| |exact (Qx (phd ps) ids a m Hcx E1)].
      * intros Hr. apply Forall_cons_iff in Hr. apply Hr.
      * intros ->. reflexivity.
    + (* x is complete *)
      subst a. eapply open_seq_weaken; [| |apply (open_seq_prepend sp d c ids x (phd ps) m _ _ Hcx (IH Ql (tl ps) ids m b Hcl E2))].
      * intros Hr. apply Forall_cons_iff in Hr. exact Hr.
      * intros ->. split; reflexivity.
Qed.

Lemma single_prefix {A} (x : A) a b : [x] = a ++ b -> a = [] \/ a = [x].
Proof.
  destruct a as [|y a]; [left; reflexivity|]. cbn [app]. intros E. injection E as <- E. symmetry in E. apply app_eq_nil in E.
  destruct E as [-> _]. right; reflexivity.
Qed.

Lemma prefix_tree sp d c : forall t, Qtree sp d c t.
Proof.
  induction t as [id v pl sl|id sz cs IH] using rtree_ind'; unfold Qtree; intros p ids a b Hc E.
  - cbn [pops] in E. destruct (single_prefix _ _ _ E) as [-> | ->]; [apply open_seq_empty|].
    change [OpWrite (TElem id v) (wopt d sl)] with (pops d (RLeaf id v pl sl) p). apply open_seq_whole, Hc.
  - destruct p as [|ps].
    + rewrite pops_full in E. destruct (single_prefix _ _ _ E) as [-> | ->]; [apply open_seq_empty|].
      rewrite <- pops_full. apply open_seq_whole, Hc.
    + pose proof Hc as Hc0. apply pconf_sep in Hc. destruct Hc as [Hpath [Hty [Hsz Hcs]]]. rewrite pops_sep in E.
      destruct a as [|x a]; [apply open_seq_empty|]. cbn [app] in E. injection E as <- E.
      assert (Hin : forall m, pops_forest d cs ps = a ++ m ->
                open_seq sp d c ids (OpWrite (TStart id) (node_opt d sz) :: a) (rconf c (RNode id sz cs)) (PSep ps = all_sep (RNode id sz cs))).
      { intros m Em. eapply open_seq_weaken; [| |apply (open_seq_start sp d c ids id sz a _ _ Hty Hpath (prefix_forest sp d c cs IH ps _ a m Hcs Em))].
        - intros Hr. apply rconf_node in Hr. destruct Hr as [Hid [_ Hrs]]. split; assumption.
        - rewrite all_sep_node. intros Hs. injection Hs as ->. reflexivity. }
      apply app_eq_app in E. destruct E as [m [[E1 E2]|[E1 E2]]]; [exact (Hin m E1)|].
      destruct m as [|e m]; [rewrite app_nil_r in E1; apply (Hin []); rewrite app_nil_r; symmetry; exact E1|].
      cbn [app] in E2. injection E2 as <- E2. symmetry in E2. apply app_eq_nil in E2. destruct E2 as [-> ->]. subst a.
      rewrite <- pops_sep. apply open_seq_whole, Hc0.
Qed.

(* every prefix of any presentation of a conforming document is an open call sequence: after every call the snapshot theorems
   apply to some levels L and forest f' *)
Theorem prefix_is_open sp d c f ps a b : pconf_forest sp d [] f ps -> pops_forest d f ps = a ++ b ->
  exists L P f' ps', a = pops_open d L P f' ps' /\ pconf_levels sp d [] L P /\ pconf_forest sp d (lv_ids [] L) f' ps' /\
    (Forall (rconf c) f -> rconf_levels c L /\ Forall (rconf c) f').
Proof.
  intros Hc E.
  assert (HQ : Forall (Qtree sp d c) f) by (apply Forall_forall; intros t _; apply prefix_tree).
  destruct (prefix_forest sp d c f HQ ps [] a b Hc E) as [L [P [f' [ps' [E1 [HL [Hf [Hr _]]]]]]]].
  exists L, P, f', ps'. repeat split; try assumption; apply Hr; assumption.
Qed.

(* the separate-call presentation: every prefix of [wops_forest d f] is [wops_open d L f'] *)
Theorem prefix_is_wops_open sp d c f a b : Forall (wconf sp d []) f -> wops_forest d f = a ++ b ->
  exists L f', a = wops_open d L f' /\ wconf_levels sp d [] L /\ Forall (wconf sp d (lv_ids [] L)) f' /\
    (Forall (rconf c) f -> rconf_levels c L /\ Forall (rconf c) f').
Proof.
  intros Hc E. rewrite <- pops_forest_all_sep in E. apply pconf_forest_all_sep in Hc.
  assert (HQ : Forall (Qtree sp d c) f) by (apply Forall_forall; intros t _; apply prefix_tree).
  destruct (prefix_forest sp d c f HQ _ [] a b Hc E) as [L [P [f' [ps' [E1 [HL [Hf [Hr Hs]]]]]]]].
  destruct (Hs eq_refl) as [-> ->]. rewrite pops_open_all_sep in E1. apply pconf_levels_all_sep in HL. apply pconf_forest_all_sep in Hf.
  exists L, f'. repeat split; try assumption; apply Hr; assumption.
Qed.

(* the open masters are all of unknown size, or there is an outermost one of known size *)
Lemma levels_split : forall L, Forall lv_unknown L \/
  exists L1 lvk L2, L = L1 ++ lvk :: L2 /\ Forall lv_unknown L1 /\ lv_size lvk <> None.
Proof.
  induction L as [|lv L IH]; [left; constructor|]. destruct (lv_size lv) as [n|] eqn:En.
  - right. exists [], lv, L. split; [reflexivity|]. split; [constructor|rewrite En; discriminate].
  - destruct IH as [HU|[L1 [lvk [L2 [E [HU Hk]]]]]]; [left; constructor; assumption|].
    right. exists (lv :: L1), lvk, L2. split; [rewrite E; reflexivity|]. split; [constructor; assumption|exact Hk].
Qed.

(* after every call: a conforming document in any presentation, any rejected calls in between, cut after any number of calls
   a'.  The accepted calls are an open call sequence for some L, f'; the destination holds the encoding of everything accepted
   when every open master has unknown size, and otherwise exactly what precedes the outermost open master of known size *)
Theorem snapshot_after_every_call sp d c f ps ops' a' b' : pconf_forest sp d [] f ps ->
  rej_insert sp (w_init []) (pops_forest d f ps) ops' -> ops' = a' ++ b' ->
  exists L P f' pf, accepted_calls a' (fst (run_writer sp a' [])) = pops_open d L P f' pf /\
    pconf_levels sp d [] L P /\ pconf_forest sp d (lv_ids [] L) f' pf /\
    (Forall (rconf c) f -> rconf_levels c L /\ Forall (rconf c) f') /\
    Forall ok_or_rejected (fst (run_writer sp a' [])) /\ length (fst (run_writer sp a' [])) = length a' /\
    (Forall lv_unknown L -> snd (run_writer sp a' []) = enc_levels L ++ enc_forest f') /\
    (forall L1 lvk L2, L = L1 ++ lvk :: L2 -> Forall lv_unknown L1 -> lv_size lvk <> None ->
       snd (run_writer sp a' []) = enc_levels L1 ++ enc_forest (lv_f lvk)).
Proof.
  intros Hc H E. destruct (rej_insert_prefix sp _ _ _ H a' b' E) as [a [b [Ea Ra]]].
  destruct (prefix_is_open sp d c f ps a b Hc Ea) as [L [P [f' [pf [E1 [HL [Hf Hr]]]]]]]. subst a.
  exists L, P, f', pf.
  assert (Hok : Forall (fun r => fst r = WOk) (fst (run_writer sp (pops_open d L P f' pf) []))).
  { destruct (levels_split L) as [HU|[L1 [lvk [L2 [EL [HU Hk]]]]]].
    - apply (snapshot_mixed_bytes sp d L P f' pf HU HL Hf).
    - subst L. apply (snapshot_mixed_held sp d L1 lvk L2 P f' pf HU Hk HL Hf). }
  destruct (rej_insert_writer sp _ _ Ra Hok) as [I1 [I2 [I3 [I4 I5]]]].
  split; [exact I3|]. split; [exact HL|]. split; [exact Hf|]. split; [exact Hr|]. split; [exact I4|]. split; [exact I5|].
  rewrite I1. split.
  - intros HU. apply (snapshot_mixed_bytes sp d L P f' pf HU HL Hf).
  - intros L1 lvk L2 EL HU Hk. subst L. apply (snapshot_mixed_held sp d L1 lvk L2 P f' pf HU Hk HL Hf).
Qed.

(* ... and in the streaming case the strict reader parses the destination to exactly the accepted tags (Full items unrolled),
   followed by the Ends of the open masters *)
Theorem snapshot_after_every_call_parses c d f ps ops' a' b' : strict c -> c_buffered c = [] -> c_emit_eof c = true ->
  pconf_forest (c_sp c) d [] f ps -> Forall (rconf c) f ->
  rej_insert (c_sp c) (w_init []) (pops_forest d f ps) ops' -> ops' = a' ++ b' ->
  exists L P f' pf, accepted_calls a' (fst (run_writer (c_sp c) a' [])) = pops_open d L P f' pf /\
    (Forall lv_unknown L ->
       p_run c (snd (run_writer (c_sp c) a' [])) [RAll] = out_tdoc (snapshot_doc L f') /\
       out_tags (p_run c (snd (run_writer (c_sp c) a' [])) [RAll]) =
         flat (wtags (accepted_calls a' (fst (run_writer (c_sp c) a' [])))) ++ open_ends L) /\
    (forall L1 lvk L2, L = L1 ++ lvk :: L2 -> Forall lv_unknown L1 -> lv_size lvk <> None ->
       p_run c (snd (run_writer (c_sp c) a' [])) [RAll] = out_tdoc (snapshot_doc L1 (lv_f lvk))).
Proof.
  intros Hs Hb He Hc Hrc H E. destruct (rej_insert_prefix (c_sp c) _ _ _ H a' b' E) as [a [b [Ea Ra]]].
  destruct (prefix_is_open (c_sp c) d c f ps a b Hc Ea) as [L [P [f' [pf [E1 [HL [Hf Hr]]]]]]]. subst a.
  destruct (Hr Hrc) as [HrL Hrf]. exists L, P, f', pf.
  assert (Hok : Forall (fun r => fst r = WOk) (fst (run_writer (c_sp c) (pops_open d L P f' pf) []))).
  { destruct (levels_split L) as [HU|[L1 [lvk [L2 [EL [HU Hk]]]]]].
    - apply (snapshot_mixed_bytes (c_sp c) d L P f' pf HU HL Hf).
    - subst L. apply (snapshot_mixed_held (c_sp c) d L1 lvk L2 P f' pf HU Hk HL Hf). }
  destruct (rej_insert_writer (c_sp c) _ _ Ra Hok) as [I1 [_ [I3 _]]].
  split; [exact I3|]. split.
  - intros HU. apply (snapshot_with_rejected_parses c d L P f' pf a'); assumption.
  - intros L1 lvk L2 EL HU Hk. subst L. rewrite I1. apply Forall_app in HrL. destruct HrL as [HrL1 HrLk].
    apply Forall_cons_iff in HrLk. destruct HrLk as [[Hrk _] _].
    apply (snapshot_mixed_held_parses c d L1 lvk L2 P f' pf); assumption.
Qed.
