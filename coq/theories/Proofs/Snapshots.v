(* C10: snapshots of the destination while masters are still open.  A call sequence that leaves masters open is described by
   the levels of Proofs/Partial.v: for each open master (outermost first) the complete sibling trees written before its Start,
   then the complete trees written at the innermost level.  While every open master has unknown size the destination holds
   exactly the encoding of everything written so far, and it parses to exactly the tags written so far (followed by the Ends of
   the open masters, which the reader supplies at the end of the input).  Once a known-size master is open the destination
   stays at what preceded the outermost such master. *)
From Ebml Require Import Base Tools Spec Writer Reader Pure Encode.
From Ebml Require Import Proofs.Tactics Proofs.BytesProofs Proofs.VintProofs Proofs.DecodersProofs Proofs.SpecProofs Proofs.WriterProofs Proofs.ReaderIO Proofs.Refine Proofs.PureProofs Proofs.RoundTrip Proofs.WriteEnc Proofs.Nesting Proofs.Partial Proofs.Recover.
Import ListNotations.
Local Open Scope N_scope.

(* ------------------------------------------------------------------ the calls *)
(* the Start call of the master a level leaves open: unknown size by option when lv_size = None, else a known-size Start with
   default options (d = true) or the explicit width lv_sl (d = false) *)
Definition level_start (d : bool) (lv : level) : wop :=
  OpWrite (TStart (lv_id lv)) (match lv_size lv with None => opts_unknown | Some _ => wopt d (lv_sl lv) end).
Fixpoint wops_levels (d : bool) (L : list level) : list wop :=
  match L with [] => [] | lv :: L' => wops_forest d (lv_f lv) ++ level_start d lv :: wops_levels d L' end.
Definition wops_open (d : bool) (L : list level) (f : list rtree) : list wop := wops_levels d L ++ wops_forest d f.

(* writer-side conformance of the levels: the complete trees conform, every opened master is declared a master below the chain
   of masters open at that point *)
Fixpoint wconf_levels (sp : spec) (d : bool) (ids : list N) (L : list level) : Prop :=
  match L with
  | [] => True
  | lv :: L' =>
      Forall (wconf sp d ids) (lv_f lv) /\ get_type sp (lv_id lv) = Some DMaster /\ get_path sp (lv_id lv) = map PId ids /\
      wconf_levels sp d (ids ++ [lv_id lv]) L'
  end.

Definition lv_unknown (lv : level) : Prop := lv_size lv = None.
Definition lv_known (lv : level) : bool := match lv_size lv with Some _ => true | None => false end.
Definition levels_known (L : list level) : bool := existsb lv_known L.

(* what a level adds to the image (delivered bytes followed by the working buffer): the header of a known-size master is not
   there before its End *)
Definition lv_hdr (lv : level) : list N := match lv_size lv with None => id_bytes (lv_id lv) ++ unknown_marker | Some _ => [] end.
Fixpoint wbytes_levels (L : list level) : list N :=
  match L with [] => [] | lv :: L' => enc_forest (lv_f lv) ++ lv_hdr lv ++ wbytes_levels L' end.

Lemma wbytes_unknown : forall L, Forall lv_unknown L -> wbytes_levels L = enc_levels L /\ levels_known L = false.
Proof.
  induction L as [|lv L IH]; intros HU; [split; reflexivity|].
  apply Forall_cons_iff in HU. destruct HU as [Hn HU]. destruct (IH HU) as [IH1 IH2]. unfold lv_unknown in Hn.
  unfold levels_known in *. cbn [wbytes_levels enc_levels existsb]. rewrite IH1, IH2. unfold lv_hdr, lv_known. rewrite Hn. cbn [fld orb].
  rewrite <- !app_assoc. split; reflexivity.
Qed.

Lemma wops_levels_app d : forall A B, wops_levels d (A ++ B) = wops_levels d A ++ wops_levels d B.
Proof. induction A as [|lv A IH]; intros B; [reflexivity|]. cbn [app wops_levels]. rewrite IH, <- app_assoc. reflexivity. Qed.

Lemma lv_ids_app : forall A B ids, lv_ids ids (A ++ B) = lv_ids (lv_ids ids A) B.
Proof. induction A as [|lv A IH]; intros B ids; [reflexivity|]. cbn [app lv_ids]. apply IH. Qed.

Lemma wconf_levels_app sp d : forall A B ids, wconf_levels sp d ids (A ++ B) <-> wconf_levels sp d ids A /\ wconf_levels sp d (lv_ids ids A) B.
Proof.
  induction A as [|lv A IH]; intros B ids; [cbn [app wconf_levels lv_ids]; tauto|].
  cbn [app wconf_levels lv_ids]. rewrite IH. tauto.
Qed.

(* ------------------------------------------------------------------ one Start call that stays open *)
Lemma has_known_cons x o : has_known (x :: o) = (match snd (fst x) with WKnown _ => true | WUnknown => false end) || has_known o.
Proof. reflexivity. Qed.

Lemma open_ids_push id sz sl o ids : rev (open_ids o) = ids -> rev (open_ids ((id, sz, sl) :: o)) = ids ++ [id].
Proof. intros H. unfold open_ids in *. cbn [map rev fst]. rewrite H. reflexivity. Qed.

Lemma level_start_step sp d lv ids st :
  get_type sp (lv_id lv) = Some DMaster -> get_path sp (lv_id lv) = map PId ids -> w_script st = [] ->
  rev (open_ids (w_open st)) = ids -> (has_known (w_open st) = false -> w_buf st = []) ->
  exists st', wstep sp st (level_start d lv) = (st', WOk) /\ w_script st' = [] /\ rev (open_ids (w_open st')) = ids ++ [lv_id lv] /\
    has_known (w_open st') = has_known (w_open st) || lv_known lv /\ image st' = image st ++ lv_hdr lv /\
    (has_known (w_open st') = true -> w_dest st' = w_dest st) /\ (has_known (w_open st') = false -> w_buf st' = []).
Proof.
  intros Hty Hpath Hs Hi Hinv. set (id := lv_id lv) in *.
  assert (Hval : w_validate sp id (w_open st) = true) by (apply (validate_chain sp id (w_open st) ids Hpath Hi)).
  unfold level_start, lv_known, lv_hdr. fold id. destruct (lv_size lv) as [n|].
  - (* known size: nothing is added to the buffer *)
    assert (Hu : o_unknown (wopt d (lv_sl lv)) = false) by (destruct d; reflexivity).
    assert (Hb : buffer_tag sp (TStart id) (wopt d (lv_sl lv)) st = (start_tag st id (size_len_of (wopt d (lv_sl lv))), WOk)).
    { rewrite buffer_tag_eq; raw_simpl. cbn [tag_id is_master_tag negb]. rewrite Hty, Hu. cbn [andb is_master_ty].
      unfold should_validate; raw_simpl. cbn [tag_id is_end negb]. rewrite Hty, Hval. cbn [negb andb].
      unfold buffer_act; raw_simpl. rewrite Hu. cbn [tag_id]. rewrite Hty. reflexivity. }
    destruct (write_step sp st _ _ _ Hb Hs) as [st1 [Hstep1 [Ho1 [Hsc1 [Him1 [Hk1 _]]]]]].
    cbn [start_tag set_open w_open w_buf] in Ho1, Him1, Hk1.
    assert (Hkn1 : has_known (w_open st1) = true) by (rewrite Ho1; reflexivity).
    destruct (Hk1 eq_refl) as [Hd1 Hb1].
    exists st1. split; [exact Hstep1|]. split; [exact Hsc1|]. split; [rewrite Ho1; apply open_ids_push, Hi|].
    split; [rewrite Hkn1, orb_true_r; reflexivity|]. split; [rewrite Him1, app_nil_r; reflexivity|].
    split; [intros _; exact Hd1|rewrite Hkn1; discriminate].
  - (* unknown size: the header goes out at once *)
    assert (Hb : buffer_tag sp (TStart id) opts_unknown st = (start_unknown_size_tag st id, WOk)).
    { rewrite buffer_tag_eq; raw_simpl. cbn [tag_id is_master_tag negb opts_unknown o_unknown]. rewrite Hty. cbn [andb is_master_ty negb].
      unfold should_validate; raw_simpl. cbn [tag_id is_end negb]. rewrite Hty, Hval. cbn [negb andb].
      unfold buffer_act; raw_simpl. cbn [o_unknown opts_unknown]. reflexivity. }
    destruct (write_step sp st _ _ _ Hb Hs) as [st1 [Hstep1 [Ho1 [Hsc1 [Him1 [Hk1 Hu1]]]]]].
    cbn [start_unknown_size_tag set_open set_buf w_open w_buf] in Ho1, Him1, Hk1, Hu1.
    assert (Hkn1 : has_known (w_open st1) = has_known (w_open st)) by (rewrite Ho1; reflexivity).
    exists st1. split; [exact Hstep1|]. split; [exact Hsc1|]. split; [rewrite Ho1; apply open_ids_push, Hi|].
    split; [rewrite Hkn1, orb_false_r; reflexivity|]. split; [rewrite Him1; unfold image; rewrite <- app_assoc; reflexivity|].
    rewrite Ho1. split; [intros Hkn; destruct (Hk1 Hkn) as [Hx _]; exact Hx|exact Hu1].
Qed.

(* ------------------------------------------------------------------ all the levels, from any state *)
Lemma write_levels sp d : forall L ids st, wconf_levels sp d ids L -> w_script st = [] -> rev (open_ids (w_open st)) = ids ->
  (has_known (w_open st) = false -> w_buf st = []) ->
  exists st', wrun_ok sp st (wops_levels d L) st' /\ w_script st' = [] /\ rev (open_ids (w_open st')) = lv_ids ids L /\
    has_known (w_open st') = has_known (w_open st) || levels_known L /\ image st' = image st ++ wbytes_levels L /\
    (has_known (w_open st) = true -> w_dest st' = w_dest st) /\ (has_known (w_open st') = false -> w_buf st' = []).
Proof.
  induction L as [|lv L IH]; intros ids st Hc Hs Hi Hinv.
  - exists st. split; [apply wrun_ok_nil|]. cbn [lv_ids wbytes_levels]. unfold levels_known. cbn [existsb].
    rewrite orb_false_r, app_nil_r. repeat split; auto.
  - destruct Hc as [Hf [Hty [Hpath HL]]].
    assert (HW : Forall (Wtree sp d) (lv_f lv)) by (apply Forall_forall; intros t _; apply write_tree).
    destruct (write_forest sp d (lv_f lv) HW ids st Hf Hs Hi Hinv) as [st1 [R1 [O1 [S1 [I1 [K1 U1]]]]]].
    assert (Hi1 : rev (open_ids (w_open st1)) = ids) by (rewrite O1; exact Hi).
    assert (Hinv1 : has_known (w_open st1) = false -> w_buf st1 = []) by (rewrite O1; exact U1).
    destruct (level_start_step sp d lv ids st1 Hty Hpath S1 Hi1 Hinv1) as [st2 [Hstep2 [S2 [Hi2 [Hkn2 [I2 [K2 U2]]]]]]].
    destruct (IH _ st2 HL S2 Hi2 U2) as [st3 [R3 [S3 [Hi3 [Hkn3 [I3 [K3 U3]]]]]]].
    exists st3. split.
    { cbn [wops_levels]. eapply wrun_ok_app; [exact R1|]. eapply wrun_ok_cons; [exact Hstep2|exact R3]. }
    split; [exact S3|]. split; [exact Hi3|]. rewrite O1 in Hkn2.
    split; [rewrite Hkn3, Hkn2; unfold levels_known; cbn [existsb]; rewrite orb_assoc; reflexivity|].
    split; [rewrite I3, I2, I1; cbn [wbytes_levels]; rewrite <- !app_assoc; reflexivity|].
    split; [|exact U3].
    intros Hkn. assert (Hk2 : has_known (w_open st2) = true) by (rewrite Hkn2, Hkn; reflexivity).
    rewrite (K3 Hk2), (K2 Hk2). apply K1, Hkn.
Qed.

Lemma run_writer_ok sp ops st' : wrun_ok sp (w_init []) ops st' ->
  Forall (fun r => fst r = WOk) (fst (run_writer sp ops [])) /\ snd (run_writer sp ops []) = w_dest st'.
Proof.
  intros [R1 R2]. unfold run_writer. destruct (wrun sp (w_init []) ops) as [st rs]. cbn [fst snd] in *. subst st'.
  split; [exact R2|reflexivity].
Qed.

(* ------------------------------------------------------------------ Theorem 1: the streaming case *)
Theorem snapshot_bytes sp d L f : Forall lv_unknown L -> wconf_levels sp d [] L -> Forall (wconf sp d (lv_ids [] L)) f ->
  Forall (fun r => fst r = WOk) (fst (run_writer sp (wops_open d L f) [])) /\
  snd (run_writer sp (wops_open d L f) []) = enc_levels L ++ enc_forest f.
Proof.
  intros HU HL Hf. destruct (wbytes_unknown L HU) as [Hb Hk].
  destruct (write_levels sp d L [] (w_init []) HL eq_refl eq_refl (fun _ => eq_refl)) as [st1 [R1 [S1 [Hi1 [Hkn1 [I1 [_ U1]]]]]]].
  rewrite Hk in Hkn1. cbn [w_init w_open has_known existsb orb] in Hkn1. rewrite Hb in I1.
  assert (HW : Forall (Wtree sp d) f) by (apply Forall_forall; intros t _; apply write_tree).
  destruct (write_forest sp d f HW _ st1 Hf S1 Hi1 U1) as [st2 [R2 [O2 [S2 [I2 [_ U2]]]]]].
  assert (R : wrun_ok sp (w_init []) (wops_open d L f) st2) by (unfold wops_open; eapply wrun_ok_app; eassumption).
  destruct (run_writer_ok sp _ _ R) as [Hok Hd]. split; [exact Hok|]. rewrite Hd.
  unfold image in I2. rewrite (U2 Hkn1), app_nil_r in I2. rewrite I2. fold (image st1). rewrite I1. reflexivity.
Qed.

(* ------------------------------------------------------------------ Theorem 3: the held case *)
Theorem snapshot_held sp d L1 lvk L2 f : Forall lv_unknown L1 -> lv_size lvk <> None ->
  wconf_levels sp d [] (L1 ++ lvk :: L2) -> Forall (wconf sp d (lv_ids [] (L1 ++ lvk :: L2))) f ->
  Forall (fun r => fst r = WOk) (fst (run_writer sp (wops_open d (L1 ++ lvk :: L2) f) [])) /\
  snd (run_writer sp (wops_open d (L1 ++ lvk :: L2) f) []) = enc_levels L1 ++ enc_forest (lv_f lvk).
Proof.
  intros HU Hkn HL Hf. destruct (wbytes_unknown L1 HU) as [Hb Hk].
  apply wconf_levels_app in HL. destruct HL as [HL1 HLk]. cbn [wconf_levels] in HLk. destruct HLk as [Hfk [Hty [Hpath HL2]]].
  rewrite lv_ids_app in Hf. cbn [lv_ids] in Hf.
  destruct (write_levels sp d L1 [] (w_init []) HL1 eq_refl eq_refl (fun _ => eq_refl)) as [st1 [R1 [S1 [Hi1 [Hkn1 [I1 [_ U1]]]]]]].
  rewrite Hk in Hkn1. cbn [w_init w_open has_known existsb orb] in Hkn1. rewrite Hb in I1.
  assert (Hd1 : w_dest st1 = enc_levels L1).
  { unfold image in I1. rewrite (U1 Hkn1), app_nil_r in I1. exact I1. }
  assert (HWk : Forall (Wtree sp d) (lv_f lvk)) by (apply Forall_forall; intros t _; apply write_tree).
  destruct (write_forest sp d (lv_f lvk) HWk _ st1 Hfk S1 Hi1 U1) as [st2 [R2 [O2 [S2 [I2 [_ U2]]]]]].
  assert (Hd2 : w_dest st2 = enc_levels L1 ++ enc_forest (lv_f lvk)).
  { unfold image in I2. rewrite (U2 Hkn1), (U1 Hkn1), !app_nil_r, Hd1 in I2. exact I2. }
  assert (Hi2 : rev (open_ids (w_open st2)) = lv_ids [] L1) by (rewrite O2; exact Hi1).
  assert (Hinv2 : has_known (w_open st2) = false -> w_buf st2 = []) by (rewrite O2; exact U2).
  destruct (level_start_step sp d lvk _ st2 Hty Hpath S2 Hi2 Hinv2) as [st3 [Hstep3 [S3 [Hi3 [Hkn3 [_ [K3 U3]]]]]]].
  assert (Hk3 : has_known (w_open st3) = true).
  { rewrite Hkn3. unfold lv_known. destruct (lv_size lvk); [apply orb_true_r|contradiction Hkn; reflexivity]. }
  destruct (write_levels sp d L2 _ st3 HL2 S3 Hi3 U3) as [st4 [R4 [S4 [Hi4 [Hkn4 [_ [K4 U4]]]]]]].
  assert (Hk4 : has_known (w_open st4) = true) by (rewrite Hkn4, Hk3; reflexivity).
  assert (HW : Forall (Wtree sp d) f) by (apply Forall_forall; intros t _; apply write_tree).
  destruct (write_forest sp d f HW _ st4 Hf S4 Hi4 U4) as [st5 [R5 [_ [_ [_ [K5 _]]]]]].
  assert (R : wrun_ok sp (w_init []) (wops_open d (L1 ++ lvk :: L2) f) st5).
  { unfold wops_open. rewrite wops_levels_app. cbn [wops_levels]. rewrite <- !app_assoc.
    eapply wrun_ok_app; [exact R1|]. eapply wrun_ok_app; [exact R2|]. cbn [app]. eapply wrun_ok_cons; [exact Hstep3|].
    eapply wrun_ok_app; [exact R4|exact R5]. }
  destruct (run_writer_ok sp _ _ R) as [Hok Hd]. split; [exact Hok|]. rewrite Hd, (K5 Hk4), (K4 Hk3), (K3 Hk3). exact Hd2.
Qed.

(* ------------------------------------------------------------------ the reader side *)
Definition rconf_levels (c : cfg) (L : list level) : Prop := Forall (fun lv => Forall (rconf c) (lv_f lv) /\ idok (lv_id lv)) L.

Lemma wconf_levels_conf c d : forall L ids inner, wconf_levels (c_sp c) d ids L -> rconf_levels c L -> Forall lv_unknown L ->
  conf_levels c ids L inner.
Proof.
  induction L as [|lv L IH]; intros ids inner Hw Hr HU; [exact I|].
  destruct Hw as [Hf [Hty [Hpath HL]]]. apply Forall_cons_iff in Hr. destruct Hr as [[Hrf Hid] HrL].
  apply Forall_cons_iff in HU. destruct HU as [Hn HU]. unfold lv_unknown in Hn. cbn [conf_levels]. rewrite Hn.
  split. { rewrite Forall_forall in *. intros t Hin. apply (wconf_conf c d t ids); [apply Hf, Hin|apply Hrf, Hin]. }
  split; [exact Hid|]. split; [exact Hty|]. split; [exact Hpath|]. split; [exact I|].
  split; [unfold size_ok; cbn [fesz]; destruct (c_max c); exact I|]. split; [intros n Hx; discriminate Hx|].
  apply IH; assumption.
Qed.

Definition snapshot_doc (L : list level) (f : list rtree) : tdoc := {| td_levels := L; td_f := f; td_tail := CutBoundary |}.

Lemma snapshot_conf c d L f : Forall lv_unknown L -> wconf_levels (c_sp c) d [] L -> Forall (wconf (c_sp c) d (lv_ids [] L)) f ->
  rconf_levels c L -> Forall (rconf c) f -> conf_tdoc c (snapshot_doc L f).
Proof.
  intros HU HL Hf HrL Hrf. unfold conf_tdoc, snapshot_doc. cbn [td_levels td_f td_tail].
  split; [apply (wconf_levels_conf c d); assumption|]. split; [|exact I].
  rewrite Forall_forall in *. intros t Hin. apply (wconf_conf c d t _); [apply Hf, Hin|apply Hrf, Hin].
Qed.

Lemma enc_snapshot L f : enc_tdoc (snapshot_doc L f) = enc_levels L ++ enc_forest f.
Proof. unfold enc_tdoc, snapshot_doc. cbn [td_levels td_f td_tail tail_bytes]. rewrite app_nil_r. reflexivity. Qed.

(* Theorem 2: the delivered bytes parse to everything written so far, then the Ends of the open masters, then None *)
Theorem snapshot_parses c d L f : strict c -> c_buffered c = [] -> c_emit_eof c = true ->
  Forall lv_unknown L -> wconf_levels (c_sp c) d [] L -> Forall (wconf (c_sp c) d (lv_ids [] L)) f ->
  rconf_levels c L -> Forall (rconf c) f ->
  p_run c (snd (run_writer (c_sp c) (wops_open d L f) [])) [RAll] = out_tdoc (snapshot_doc L f).
Proof.
  intros Hs Hb He HU HL Hf HrL Hrf. destruct (snapshot_bytes (c_sp c) d L f HU HL Hf) as [_ Henc].
  rewrite Henc, <- enc_snapshot. apply truncated_run; try assumption. apply (snapshot_conf c d); assumption.
Qed.

(* the held case parses to what precedes the outermost known-size open master *)
Theorem snapshot_held_parses c d L1 lvk L2 f : strict c -> c_buffered c = [] -> c_emit_eof c = true ->
  Forall lv_unknown L1 -> lv_size lvk <> None ->
  wconf_levels (c_sp c) d [] (L1 ++ lvk :: L2) -> Forall (wconf (c_sp c) d (lv_ids [] (L1 ++ lvk :: L2))) f ->
  rconf_levels c L1 -> Forall (rconf c) (lv_f lvk) ->
  p_run c (snd (run_writer (c_sp c) (wops_open d (L1 ++ lvk :: L2) f) [])) [RAll] = out_tdoc (snapshot_doc L1 (lv_f lvk)).
Proof.
  intros Hs Hb He HU Hkn HL Hf HrL Hrf. destruct (snapshot_held (c_sp c) d L1 lvk L2 f HU Hkn HL Hf) as [_ Henc].
  rewrite Henc, <- enc_snapshot. apply truncated_run; try assumption.
  apply wconf_levels_app in HL. destruct HL as [HL1 [Hfk _]]. apply (snapshot_conf c d); assumption.
Qed.

(* ------------------------------------------------------------------ the tags *)
Fixpoint tags_levels (L : list level) : list tag :=
  match L with [] => [] | lv :: L' => tags_forest (lv_f lv) ++ TStart (lv_id lv) :: tags_levels L' end.
(* the Ends of the masters the levels leave open, innermost first *)
Definition open_ends (L : list level) : list tag := map TEnd (rev (map lv_id L)).

Lemma op_tags_levels d : forall L, map op_tag (wops_levels d L) = map Some (tags_levels L).
Proof.
  induction L as [|lv L IH]; [reflexivity|]. cbn [wops_levels tags_levels]. rewrite !map_app, op_tags_forest. cbn [map].
  rewrite IH. reflexivity.
Qed.

Lemma op_tags_open d L f : map op_tag (wops_open d L f) = map Some (tags_levels L ++ tags_forest f).
Proof. unfold wops_open. rewrite !map_app, op_tags_levels, op_tags_forest. reflexivity. Qed.

Lemma out_tag_ends T : map out_tag (map end_out T) = map Some (ends_of T).
Proof. unfold ends_of. rewrite !map_map. reflexivity. Qed.

Lemma forest_out_tag l off T :
  map out_tag (outs_forest off l T) ++ map Some (ends_of (pend_after off l T)) = map Some (ends_of T ++ tags_forest l).
Proof.
  destruct l as [|x l']; [cbn [outs_forest pend_after tags_forest map app]; rewrite app_nil_r; reflexivity|].
  unfold outs_forest, pend_after. rewrite !map_app, out_tag_ends, <- app_assoc. f_equal.
  rewrite <- out_tag_ends, <- map_app, open_close_forest. apply items_tags_forest.
Qed.

Lemma levels_out_tag : forall L off T,
  map out_tag (lv_outs off T L) ++ map Some (ends_of (lv_T off T L)) = map Some (ends_of T ++ tags_levels L).
Proof.
  induction L as [|lv L IH]; intros off T; [cbn [lv_outs lv_T tags_levels map app]; rewrite app_nil_r; reflexivity|].
  cbn [lv_outs lv_T tags_levels]. rewrite !map_app, out_tag_ends. cbn [map out_tag]. rewrite <- !app_assoc. cbn [app].
  rewrite IH. cbn [ends_of map app]. rewrite app_assoc, forest_out_tag, map_app, <- app_assoc. reflexivity.
Qed.

Lemma stk_ends : forall L off stk, ends_of (lv_stk off stk L) = open_ends L ++ ends_of stk.
Proof.
  induction L as [|lv L IH]; intros off stk; [reflexivity|]. cbn [lv_stk]. rewrite IH. unfold open_ends. cbn [map rev].
  rewrite map_app, <- app_assoc. reflexivity.
Qed.

Lemma snapshot_out_tag L f :
  map out_tag (out_tdoc (snapshot_doc L f)) = map Some (tags_levels L ++ tags_forest f ++ open_ends L) ++ [None].
Proof.
  unfold out_tdoc, snapshot_doc. cbn [td_levels td_f td_tail].
  rewrite !map_app, !out_tag_ends, stk_ends. cbn [ends_of map app]. rewrite app_nil_r.
  rewrite <- !app_assoc.
  rewrite (app_assoc (map out_tag (outs_forest _ _ _))), forest_out_tag, map_app, <- app_assoc.
  rewrite (app_assoc (map out_tag (lv_outs _ _ _))), levels_out_tag. cbn [ends_of map app]. reflexivity.
Qed.

Lemma out_tag_tags : forall outs ts, map out_tag outs = map Some ts ++ [None] -> out_tags outs = ts.
Proof.
  induction outs as [|o outs IH]; intros ts H.
  - destruct ts; discriminate H.
  - destruct ts as [|t ts]; cbn [map app] in H.
    + injection H as H1 H2. destruct outs; [|discriminate H2]. destruct o; cbn [out_tag] in H1; try discriminate; reflexivity.
    + injection H as H1 H2. destruct o; cbn [out_tag] in H1; try discriminate. injection H1 as ->.
      unfold out_tags in *. cbn [flat_map app]. rewrite (IH ts H2). reflexivity.
Qed.

(* the tags read from the snapshot: exactly the tags of the calls made, then the Ends of the open masters innermost first, then
   the end of the input *)
Theorem snapshot_tags c d L f : strict c -> c_buffered c = [] -> c_emit_eof c = true ->
  Forall lv_unknown L -> wconf_levels (c_sp c) d [] L -> Forall (wconf (c_sp c) d (lv_ids [] L)) f ->
  rconf_levels c L -> Forall (rconf c) f ->
  map out_tag (p_run c (snd (run_writer (c_sp c) (wops_open d L f) [])) [RAll]) =
    map op_tag (wops_open d L f) ++ map Some (open_ends L) ++ [None].
Proof.
  intros Hs Hb He HU HL Hf HrL Hrf. rewrite (snapshot_parses c d L f Hs Hb He HU HL Hf HrL Hrf), snapshot_out_tag, op_tags_open.
  rewrite !map_app, <- !app_assoc. reflexivity.
Qed.

Theorem snapshot_out_tags c d L f : strict c -> c_buffered c = [] -> c_emit_eof c = true ->
  Forall lv_unknown L -> wconf_levels (c_sp c) d [] L -> Forall (wconf (c_sp c) d (lv_ids [] L)) f ->
  rconf_levels c L -> Forall (rconf c) f ->
  out_tags (p_run c (snd (run_writer (c_sp c) (wops_open d L f) [])) [RAll]) = tags_levels L ++ tags_forest f ++ open_ends L.
Proof.
  intros Hs Hb He HU HL Hf HrL Hrf. apply out_tag_tags.
  rewrite (snapshot_parses c d L f Hs Hb He HU HL Hf HrL Hrf). apply snapshot_out_tag.
Qed.
