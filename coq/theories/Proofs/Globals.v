(* C07: global elements (declared path with a placeholder, e.g. Void, Crc32) never close an unknown-size master. *)
From Ebml Require Import Base Tools Spec Reader.
From Ebml Require Import Proofs.Tactics Proofs.SpecProofs.
Import ListNotations.

Definition has_global (p : list part) : bool := existsb (fun x => match x with PGlobal _ _ => true | PId _ => false end) p.

Lemma list_eqb_parts_eq : forall a b, list_eqb part_eqb a b = true -> has_global a = has_global b.
Proof.
  induction a as [|x a IH]; intros [|y b] H; cbn [list_eqb] in H; try discriminate; [reflexivity|].
  apply Bool.andb_true_iff in H. destruct H as [Hxy Hab]. cbn [has_global existsb]. fold (has_global a) (has_global b). rewrite (IH b Hab).
  destruct x, y; cbn [part_eqb] in Hxy; try discriminate; reflexivity.
Qed.

(* an element whose declared path contains a placeholder does not end a master whose declared path names all its parents,
   unless that master's path names the element itself as a parent (which no specification does for a non-master) *)
Lemma global_never_ends sp m g : has_global (get_path sp g) = true -> has_global (get_path sp m) = false ->
  is_parent sp m g = false -> is_ended_by sp m g = false.
Proof.
  intros Hg Hm Hp. unfold is_ended_by. rewrite Hp. cbn [orb].
  assert (Hs : is_sibling sp m g = false).
  { unfold is_sibling. destruct (get_type sp g); [|reflexivity]. cbn [andb].
    destruct (list_eqb part_eqb (get_path sp m) (get_path sp g)) eqn:E; [|reflexivity].
    apply list_eqb_parts_eq in E. rewrite Hg, Hm in E. discriminate. }
  rewrite Hs. cbn [orb]. unfold is_root. destruct (get_type sp g); [|reflexivity].
  destruct (get_path sp g); [discriminate Hg|reflexivity].
Qed.

(* hence, with only such masters open, a global element closes nothing: it is read as a child of the innermost one *)
Lemma global_closes_nothing sp g : has_global (get_path sp g) = true -> forall stk,
  Forall (fun f => has_global (get_path sp (fst f)) = false /\ is_parent sp (fst f) g = false) stk -> count_ended sp g stk = O.
Proof.
  intros Hg. induction stk as [|[id known] tl IH]; intros H; [reflexivity|]. apply Forall_cons_iff in H. destruct H as [[Hm Hp] Ht].
  cbn [count_ended]. destruct known; [reflexivity|]. rewrite (IH Ht). cbn [Nat.ltb Nat.leb]. cbn [fst] in *.
  rewrite (global_never_ends sp id g Hg Hm Hp). reflexivity.
Qed.
