(* C05 (no hang): the recursion budget the model is run with is always sufficient, and a full drain always ends within the
   call bound.  In the Rust code read_next/buffer_master are mutually recursive plain calls and try_recover is a plain loop;
   the model gives them a budget ([b_fuel], fixed at creation to 4 * |input| + 64) and reports its exhaustion as [OFuel]; a
   drain ([RAll]) is cut after 4 * |input| + 64 calls and reports [OLimit].  Here: on well-formed bytes neither outcome is
   possible (the second one for specifications whose declared paths are shorter than 2 * |input| + 64).
   The progress measure: every successfully read header consumes at least one byte; every loop iteration of buffer_master
   that does not end the loop has read a header; at the end of the input at most two more iterations happen. *)
From Ebml Require Import Base Tools Spec Reader Pure Proofs.Tactics Proofs.BytesProofs Proofs.VintProofs Proofs.ReaderIO Proofs.Refine Proofs.PureProofs Proofs.NoPanic.

Arguments vint_len : simpl never.
Arguments read_vint : simpl never.

(* ------------------------------------------------------------------ lists *)
Lemma splitN_snd_le : forall l k, (length (snd (splitN k l)) <= length l)%nat.
Proof.
  induction l as [|x l IH]; intros k; cbn [splitN]; [cbn; lia|].
  destruct (k =? 0); [cbn; lia|]. specialize (IH (N.pred k)). destruct (splitN (N.pred k) l) as [a b]. cbn [snd length] in *. lia.
Qed.

Lemma splitN_snd_lt : forall l k, 0 < k -> l <> [] -> (length (snd (splitN k l)) < length l)%nat.
Proof.
  intros [|x l] k Hk Hl; [contradiction|]. cbn [splitN]. destruct (N.eqb_spec k 0) as [->|_]; [lia|].
  pose proof (splitN_snd_le l (N.pred k)) as H. destruct (splitN (N.pred k) l) as [a b]. cbn [snd length] in *. lia.
Qed.

Lemma nth_skipn {A} : forall (l : list A) s x, nth_error l s = Some x -> skipn s l = x :: skipn (S s) l.
Proof.
  induction l as [|a l IH]; intros s x H; [destruct s; discriminate|].
  destruct s as [|s]; [inversion H; reflexivity|].
  change (skipn s l = x :: skipn (S s) l). apply IH. exact H.
Qed.

Lemma in_last_skipn {A} : forall (l : list A) pos x, (pos < length (l ++ [x]))%nat -> In x (skipn pos (l ++ [x])).
Proof.
  induction l as [|a l IH]; intros pos x H.
  - destruct pos as [|pos]; [left; reflexivity|cbn in H; lia].
  - destruct pos as [|pos]; [apply in_or_app; right; left; reflexivity|].
    change (In x (skipn pos (l ++ [x]))). apply IH. cbn [app length] in H. lia.
Qed.

(* number of successful items in a queue *)
Fixpoint okc (q : list qitem) : nat :=
  match q with [] => O | QOk _ _ :: tl => S (okc tl) | QErr _ :: tl => okc tl end.

Lemma okc_app a b : okc (a ++ b) = (okc a + okc b)%nat.
Proof. induction a as [|[t o|e] a IH]; cbn [okc app]; [reflexivity|rewrite IH; reflexivity|exact IH]. Qed.

Lemma okc_ends l : okc (map end_item l) = length l.
Proof. induction l as [|f l IH]; [reflexivity|]. cbn [map length]. unfold end_item at 1. cbn [okc]. rewrite IH. reflexivity. Qed.

Lemma okc_firstn_skipn k q : okc q = (okc (firstn k q) + okc (skipn k q))%nat.
Proof. rewrite <- okc_app, firstn_skipn. reflexivity. Qed.

Lemma scan_queue_nf id : forall l pos p, scan_queue id l pos = (p, false) ->
  p = (pos + length l)%nat /\ Forall (fun x => qitem_is_err x = false) l.
Proof.
  induction l as [|x l IH]; intros pos p H; cbn [scan_queue] in H.
  - inversion H; subst. split; [cbn; lia|constructor].
  - destruct (qitem_is_err x) eqn:Ex; cbn [orb] in H; [discriminate|].
    destruct (qitem_is_end_of id x); [discriminate|]. destruct (IH _ _ H) as [A B].
    split; [cbn [length]; lia|constructor; assumption].
Qed.

Lemma exhausted_skip off : forall stk, exhausted_count off (skipn (exhausted_count off stk) stk) = O.
Proof.
  induction stk as [|f tl IH]; [reflexivity|]. cbn [exhausted_count]. cbn zeta.
  destruct (0 <? exhausted_count off tl)%nat eqn:E.
  - cbn [skipn]. exact IH.
  - apply Nat.ltb_ge in E. destruct (frame_exhausted off f) eqn:Ef.
    + cbn [skipn]. lia.
    + cbn [skipn exhausted_count]. cbn zeta. rewrite Ef. destruct (Nat.ltb_spec 0 (exhausted_count off tl)); [lia|reflexivity].
Qed.

(* ------------------------------------------------------------------ the longest declared path of a specification *)
Definition spec_depth (sp : spec) : nat := fold_right (fun e m => Nat.max (length (e_path e)) m) O sp.

Lemma get_path_depth sp id : (length (get_path sp id) <= spec_depth sp)%nat.
Proof.
  unfold get_path, spec_depth. induction sp as [|e sp IH]; cbn [find_entry fold_right]; [cbn; lia|].
  destruct (e_id e =? id); [lia|]. lia.
Qed.

Lemma implied_stack_len sp p stk : implied_stack sp p = Some stk -> (length stk <= length p)%nat.
Proof.
  unfold implied_stack. destruct (forallb _ p); [|discriminate]. intros H; inversion H; subst. rewrite rev_length.
  clear. induction p as [|[i|a b] p IH]; cbn [flat_map app length]; lia.
Qed.

Section Term.
Variable c : cfg.

(* how much the stack can grow when the document path is determined *)
Definition slack : nat := if c_allow_hier c then O else spec_depth (c_sp c).
Definition sd (st : pst) : nat := (length (b_stack st) + (if b_det st then O else slack))%nat.
Definition nb (st : pst) : nat := length (b_bytes st).
(* the potential: bounds the number of items that can still be emitted *)
Definition psi (st : pst) : nat := (okc (b_queue st) + sd st + 2 * nb st)%nat.
Definition nf (st : pst) : Prop := b_bad st <> Some BFuel.

Definition mono (st st1 : pst) : Prop :=
  wf_bytes (b_bytes st1) /\ (nb st1 <= nb st)%nat /\ b_fuel st1 = b_fuel st /\ (psi st1 <= psi st)%nat.

Lemma mono_intro st st1 : wf_bytes (b_bytes st1) -> (nb st1 <= nb st)%nat -> b_fuel st1 = b_fuel st -> (psi st1 <= psi st)%nat -> mono st st1.
Proof. intros. repeat split; assumption. Qed.
Lemma mono_refl st : wf_bytes (b_bytes st) -> mono st st.
Proof. intros H. apply mono_intro; [exact H|apply le_n|reflexivity|apply le_n]. Qed.
Lemma mono_trans a b d : mono a b -> mono b d -> mono a d.
Proof. intros (A1 & A2 & A3 & A4) (B1 & B2 & B3 & B4). apply mono_intro; [exact B1|lia|congruence|lia]. Qed.

Lemma nf_same st st' : b_bad st' = b_bad st -> nf st -> nf st'.
Proof. unfold nf. intros ->. auto. Qed.
Lemma nf_panic st : nf st -> nf (pset_bad st BPanic).
Proof. unfold nf, pset_bad. cbn [b_bad]. destruct (b_bad st); [auto|discriminate]. Qed.

Lemma psi_pop st k : psi (ppop_frames st k) = psi st.
Proof.
  unfold psi, sd, nb, ppop_frames, ppush_q, pset_queue, pset_stack. cbn [b_queue b_stack b_det b_bytes].
  rewrite okc_app, okc_ends. pose proof (f_equal (@length frame) (firstn_skipn k (b_stack st))) as H. rewrite app_length in H. lia.
Qed.
Lemma psi_push_ok st t o : psi (ppush_q st [QOk t o]) = S (psi st).
Proof. unfold psi, sd, nb, ppush_q, pset_queue. cbn [b_queue b_stack b_det b_bytes]. rewrite okc_app. cbn [okc]. lia. Qed.
Lemma psi_push_err st e : psi (ppush_q st [QErr e]) = psi st.
Proof. unfold psi, sd, nb, ppush_q, pset_queue. cbn [b_queue b_stack b_det b_bytes]. rewrite okc_app. cbn [okc]. lia. Qed.
Lemma psi_push_frame st f : psi (pset_stack st (f :: b_stack st) (b_det st)) = S (psi st).
Proof. unfold psi, sd, nb, pset_stack. cbn [b_queue b_stack b_det b_bytes length]. lia. Qed.

(* ------------------------------------------------------------------ the header and one tag *)
Lemma p_hier_step_cases st id ty :
  fst (p_hier_step c st id ty) = st \/ fst (p_hier_step c st id ty) = pset_bad st BPanic \/
  exists stk, b_det st = false /\ c_allow_hier c = false /\ (length stk <= spec_depth (c_sp c))%nat /\
              fst (p_hier_step c st id ty) = pset_stack st (b_stack st ++ stk) true.
Proof.
  unfold p_hier_step. destruct (c_allow_hier c) eqn:Eh; cbn [negb andb]; [left; reflexivity|].
  destruct ty as [d|]; [|left; reflexivity].
  destruct (b_det st) eqn:Ed.
  - destruct (_ && _); left; reflexivity.
  - destruct (all_ids _).
    + destruct (implied_stack _ _) as [stk|] eqn:Ei.
      * right; right. exists stk. pose proof (implied_stack_len _ _ _ Ei) as H1. pose proof (get_path_depth (c_sp c) id) as H2.
        destruct (_ && _); cbn [fst]; (split; [reflexivity|split; [reflexivity|split; [lia|reflexivity]]]).
      * right; left; reflexivity.
    + destruct (_ && _); left; reflexivity.
Qed.

Lemma p_header_cases st :
  fst (p_header c st) = st \/ fst (p_header c st) = pset_bad st BPanic \/
  exists stk, b_det st = false /\ c_allow_hier c = false /\ (length stk <= spec_depth (c_sp c))%nat /\
              fst (p_header c st) = pset_stack st (b_stack st ++ stk) true.
Proof.
  rewrite p_header_unfold. destruct (p_tag_id st) as [[id idl]|e|]; try (left; reflexivity).
  unfold p_hdr_tail. destruct (read_vint _) as [[[size sl]|]|e1|]; try (left; reflexivity).
  destruct (is_numeric _ && _); [left; reflexivity|]. destruct (negb (c_allow_id c) && _); [left; reflexivity|].
  pose proof (p_hier_step_cases st id (get_type (c_sp c) id)) as Hq.
  destruct (p_hier_step _ _ _ _) as [st1 [e1|]]; cbn [fst] in *; [exact Hq|].
  destruct (b_bad st1); [exact Hq|]. destruct (_ && _); [exact Hq|].
  destruct (c_max c); destruct (ebml_size size sl); try destruct (_ <? _); exact Hq.
Qed.

Definition hdr_ok (st st1 : pst) : Prop :=
  b_bytes st1 = b_bytes st /\ b_fuel st1 = b_fuel st /\ b_queue st1 = b_queue st /\ (sd st1 <= sd st)%nat /\ (nf st -> nf st1).

Lemma p_header_sum st : hdr_ok st (fst (p_header c st)).
Proof.
  destruct (p_header_cases st) as [->|[->|(stk & Hd & Hh & Hl & ->)]].
  - repeat split; auto.
  - split; [reflexivity|]. split; [reflexivity|]. split; [reflexivity|]. split; [apply le_n|apply nf_panic].
  - split; [reflexivity|]. split; [reflexivity|]. split; [reflexivity|]. split; [|intros H; exact H].
    unfold sd, slack. cbn [pset_stack b_stack b_det]. rewrite app_length, Hd, Hh. lia.
Qed.

Lemma p_tag_id_pos st id idl : wf_bytes (b_bytes st) -> p_tag_id st = Ok (id, idl) -> (1 <= idl)%nat.
Proof.
  unfold p_tag_id. destruct (b_bytes st) as [|b0 tl]; [discriminate|]. intros Hw.
  destruct (N.eqb_spec b0 0) as [->|Hne]; [intros H; inversion H; lia|].
  destruct (_ <? _); [discriminate|]. intros H; inversion H; subst. inversion Hw; subst.
  assert (Hr : 0 < b0 < 256) by lia. apply vint_len_range in Hr. lia.
Qed.

Lemma p_tag_tail_state st ts id ty esz hl st' r : p_tag_tail c st ts (id, ty, esz, hl) = (st', r) ->
  st' = pconsume st (N.of_nat hl) \/ exists size, st' = pconsume (pconsume st (N.of_nat hl)) size.
Proof.
  unfold p_tag_tail. cbn zeta.
  destruct ty as [[]|]; try (intros H; inversion H; left; reflexivity);
    (destruct esz as [size|]; [|intros H; inversion H; left; reflexivity]);
    (destruct (_ <? size); [intros H; inversion H; left; reflexivity|]);
    try (destruct (arr_to_u64 _)); try (destruct (arr_to_i64 _)); try (destruct (arr_to_f64 _)); try (destruct (utf8_valid _));
    intros H; inversion H; right; exists size; reflexivity.
Qed.

Lemma p_read_tag_sum st st' r : wf_bytes (b_bytes st) -> p_read_tag c st = (st', r) ->
  wf_bytes (b_bytes st') /\ (nb st' <= nb st)%nat /\ b_fuel st' = b_fuel st /\ b_queue st' = b_queue st /\ (sd st' <= sd st)%nat /\
  (nf st -> nf st') /\ (forall p, r = Ok p -> (nb st' < nb st)%nat).
Proof.
  intros Hw. rewrite p_read_tag_unfold. destruct (p_header_sum st) as (Hb & Hf & Hq & Hs & Hn).
  destruct (p_header c st) as [st1 [h|e|]] eqn:Eh; cbn [fst] in *.
  - destruct h as [[[id ty] esz] hl]. intros Ht.
    destruct (p_header_ok_facts _ _ _ _ _ _ _ Eh) as (_ & _ & _ & idl & size & sl & Et & _ & Hhl & _ & Hlen).
    pose proof (p_tag_id_pos _ _ _ Hw Et) as Hidl.
    assert (Hc : wf_bytes (b_bytes (pconsume st1 (N.of_nat hl))) /\ (nb (pconsume st1 (N.of_nat hl)) < nb st)%nat).
    { split; [apply wf_splitN_snd; rewrite Hb; exact Hw|]. unfold nb. cbn [pconsume b_bytes]. rewrite Hb.
      apply splitN_snd_lt; [lia|]. unfold blen in Hlen. destruct (b_bytes st); [cbn in Hlen; lia|discriminate]. }
    destruct Hc as [Hc1 Hc2].
    destruct (p_tag_tail_state st1 (b_off st) id ty esz hl st' r Ht) as [->|[sz ->]].
    + split; [exact Hc1|]. split; [lia|]. split; [exact Hf|]. split; [exact Hq|]. split; [exact Hs|]. split; [exact Hn|intros; exact Hc2].
    + assert (Hle : (nb (pconsume (pconsume st1 (N.of_nat hl)) sz) <= nb (pconsume st1 (N.of_nat hl)))%nat) by apply splitN_snd_le.
      split; [apply wf_splitN_snd; exact Hc1|]. split; [lia|]. split; [exact Hf|]. split; [exact Hq|]. split; [exact Hs|].
      split; [exact Hn|intros; lia].
  - intros H; inversion H; subst. split; [rewrite Hb; exact Hw|]. split; [unfold nb; rewrite Hb; apply le_n|].
    split; [exact Hf|]. split; [exact Hq|]. split; [exact Hs|]. split; [exact Hn|discriminate].
  - intros H; inversion H; subst. split; [rewrite Hb; exact Hw|]. split; [unfold nb; rewrite Hb; apply le_n|].
    split; [exact Hf|]. split; [exact Hq|]. split; [exact Hs|]. split; [exact Hn|discriminate].
Qed.

(* ------------------------------------------------------------------ read_next / buffer_master never increase the potential *)
Lemma p_bm_finish_mono tid ts pre st pos : wf_bytes (b_bytes st) -> mono st (p_bm_finish tid ts pre st pos).
Proof.
  intros Hw. unfold p_bm_finish.
  destruct (nth_error (skipn pre (b_queue st)) (pos - pre)) as [[t o|e]|] eqn:En.
  - apply mono_intro; [exact Hw|apply le_n|reflexivity|].
    unfold psi, sd, nb. cbn [pset_queue b_queue b_stack b_det b_bytes]. rewrite !okc_app. cbn [okc].
    pose proof (okc_firstn_skipn pre (b_queue st)) as H1.
    pose proof (okc_firstn_skipn (pos - pre) (skipn pre (b_queue st))) as H2.
    rewrite (nth_skipn _ _ _ En) in H2. cbn [okc] in H2. lia.
  - apply mono_intro; [exact Hw|apply le_n|reflexivity|].
    unfold psi, sd, nb. cbn [pset_queue b_queue b_stack b_det b_bytes]. rewrite !okc_app. cbn [okc].
    pose proof (okc_firstn_skipn pre (b_queue st)) as H1. lia.
  - apply mono_intro; [exact Hw|apply le_n|reflexivity|apply le_n].
Qed.

Lemma nf_finish tid ts pre st pos : nf st -> nf (p_bm_finish tid ts pre st pos).
Proof.
  intros H. unfold p_bm_finish. destruct (nth_error _ _) as [[t o|e]|]; [exact H|exact H|apply nf_panic, H].
Qed.

Lemma rn_bm_mono : forall fuel,
  (forall st, wf_bytes (b_bytes st) -> mono st (p_read_next fuel c st)) /\
  (forall tid ts pre pos st, wf_bytes (b_bytes st) -> mono st (p_buffer_master fuel c tid ts pre pos st)).
Proof.
  induction fuel as [|f [IH1 IH2]].
  - split; intros; (apply mono_intro; [assumption|apply le_n|reflexivity|apply le_n]).
  - split.
    + intros st Hw. rewrite p_read_next_unfold. cbn zeta.
      set (st0 := ppop_frames st _).
      assert (M0 : mono st st0) by (apply mono_intro; [exact Hw|apply le_n|reflexivity|unfold st0; rewrite psi_pop; apply le_n]).
      unfold p_read_tag_checked. destruct (b_bytes st0) eqn:Eb.
      * destruct (c_emit_eof c); [|exact M0]. eapply mono_trans; [exact M0|].
        apply mono_intro; [apply M0|apply le_n|reflexivity|rewrite psi_pop; apply le_n].
      * destruct (p_read_tag c st0) as [st2 r2] eqn:Er.
        destruct (p_read_tag_sum st0 st2 r2 (proj1 M0) Er) as (W2 & N2 & F2 & Q2 & S2 & _ & L2).
        eapply mono_trans; [exact M0|].
        assert (P2 : (psi st2 <= psi st0)%nat) by (unfold psi; rewrite Q2; lia).
        destruct r2 as [p|e|].
        -- assert (P3 : (psi st2 + 2 <= psi st0)%nat) by (specialize (L2 p eq_refl); unfold psi; rewrite Q2; lia).
           assert (Push : forall t, mono st0 (ppush_q (ppop_frames st2 (count_ended (c_sp c) (tag_id (p_tag p)) (stack_view (b_stack st2)))) [QOk t (p_start p)])).
           { intros t. apply mono_intro; [exact W2|exact N2|exact F2|]. rewrite psi_push_ok, psi_pop. lia. }
           destruct (p_tag p) eqn:Ep; try apply Push.
           set (st3 := ppop_frames st2 _).
           set (st4 := pset_stack st3 _ _).
           assert (P4 : psi st4 = S (psi st2)) by (unfold st4; rewrite psi_push_frame; unfold st3; rewrite psi_pop; reflexivity).
           destruct (mem_id _ _).
           ++ eapply mono_trans; [|apply IH2; exact W2].
              apply mono_intro; [exact W2|exact N2|exact F2|lia].
           ++ apply mono_intro; [exact W2|exact N2|exact F2|]. rewrite psi_push_ok. lia.
        -- apply mono_intro; [exact W2|exact N2|exact F2|]. rewrite psi_push_err. exact P2.
        -- apply mono_intro; [exact W2|exact N2|exact F2|exact P2].
    + intros tid ts pre pos st Hw. rewrite p_buffer_master_unfold. cbn zeta.
      destruct (_ <=? pos)%nat.
      * pose proof (IH1 st Hw) as M1. set (st1 := p_read_next f c st) in *.
        destruct (b_bad st1); [exact M1|]. destruct (_ <=? pos)%nat.
        -- eapply mono_trans; [exact M1|]. apply mono_intro; [apply M1|apply le_n|reflexivity|rewrite psi_push_err; apply le_n].
        -- destruct (scan_queue _ _ _) as [p [|]]; (eapply mono_trans; [exact M1|]); [apply p_bm_finish_mono, M1|apply IH2, M1].
      * destruct (scan_queue _ _ _) as [p [|]]; [apply p_bm_finish_mono, Hw|apply IH2, Hw].
Qed.

(* ------------------------------------------------------------------ what one read_next achieves *)
Definition ends_err (q : list qitem) : Prop := exists q' e, q = q' ++ [QErr e].
(* nothing left to do: no input, no exhausted master, (when the end of the input closes masters) no open master *)
Definition quiet (st : pst) : Prop :=
  b_bytes st = [] /\ exhausted_count (b_off st) (b_stack st) = O /\ (c_emit_eof c = true -> b_stack st = []).

Lemma rn_progress f st : wf_bytes (b_bytes st) -> b_bad (p_read_next f c st) = None ->
  (nb (p_read_next f c st) < nb st)%nat \/ ends_err (b_queue (p_read_next f c st)) \/ quiet (p_read_next f c st).
Proof.
  intros Hw. destruct f as [|f].
  - change (p_read_next 0 c st) with (pset_bad st BFuel). unfold pset_bad. cbn [b_bad]. destruct (b_bad st); discriminate.
  - rewrite p_read_next_unfold. cbn zeta. set (st0 := ppop_frames st _).
    unfold p_read_tag_checked. destruct (b_bytes st0) eqn:Eb.
    + intros _. right; right. destruct (c_emit_eof c) eqn:Ee.
      * split; [exact Eb|]. cbn [ppop_frames ppush_q pset_queue pset_stack b_stack b_off]. rewrite skipn_all.
        split; [reflexivity|intros _; reflexivity].
      * split; [exact Eb|]. split; [apply exhausted_skip|intros H; rewrite Ee in H; discriminate].
    + destruct (p_read_tag c st0) as [st2 r2] eqn:Er.
      destruct (p_read_tag_sum st0 st2 r2 Hw Er) as (W2 & N2 & F2 & Q2 & S2 & _ & L2).
      destruct r2 as [p|e|].
      * intros _. left. specialize (L2 p eq_refl). destruct (p_tag p); try exact L2.
        destruct (mem_id _ _); [|exact L2].
        match goal with |- (nb (p_buffer_master f c ?a ?b ?d ?e ?s) < _)%nat =>
          destruct (proj2 (rn_bm_mono f) a b d e s W2) as (_ & M & _) end.
        eapply Nat.le_lt_trans; [exact M|exact L2].
      * intros _. right; left. exists (b_queue st2), e. reflexivity.
      * unfold pset_bad. cbn [b_bad]. destruct (b_bad st2); discriminate.
Qed.

Lemma quiet_rn f st : quiet st ->
  b_bad (p_read_next (S f) c st) = b_bad st /\ length (b_queue (p_read_next (S f) c st)) = length (b_queue st).
Proof.
  intros (Hb & He & Hs). rewrite p_read_next_unfold. cbn zeta. rewrite He.
  unfold p_read_tag_checked. change (b_bytes (ppop_frames st 0)) with (b_bytes st). rewrite Hb.
  destruct (c_emit_eof c) eqn:Ee.
  - split; [reflexivity|]. cbn [ppop_frames ppush_q pset_queue pset_stack b_queue b_stack b_det]. rewrite (Hs eq_refl).
    cbn [skipn firstn map length]. rewrite !app_nil_r. reflexivity.
  - split; [reflexivity|]. cbn [ppop_frames ppush_q pset_queue pset_stack b_queue b_stack b_det firstn map]. rewrite app_nil_r. reflexivity.
Qed.

Lemma quiet_bm fuel tid ts pre pos st : quiet st -> nf st -> (length (b_queue st) <= pos)%nat -> (2 <= fuel)%nat ->
  nf (p_buffer_master fuel c tid ts pre pos st).
Proof.
  intros Hq Hn Hl Hf. destruct fuel as [|[|f]]; [lia|lia|].
  rewrite p_buffer_master_unfold. cbn zeta. destruct (quiet_rn f st Hq) as [B L].
  destruct (Nat.leb_spec (length (b_queue st)) pos) as [_|Hgt]; [|lia].
  destruct (b_bad (p_read_next (S f) c st)) eqn:Eb.
  - unfold nf in *. rewrite Eb, B. exact Hn.
  - rewrite L. destruct (Nat.leb_spec (length (b_queue st)) pos) as [_|Hgt]; [|lia].
    unfold nf. cbn [ppush_q pset_queue b_bad]. rewrite Eb. discriminate.
Qed.

(* ------------------------------------------------------------------ the budget suffices *)
Lemma rn_bm_fuel : forall fuel,
  (forall st, wf_bytes (b_bytes st) -> nf st -> (2 * nb st + 2 <= fuel)%nat -> nf (p_read_next fuel c st)) /\
  (forall tid ts pre pos st, wf_bytes (b_bytes st) -> nf st -> (length (b_queue st) <= pos)%nat -> (2 * nb st + 3 <= fuel)%nat ->
     nf (p_buffer_master fuel c tid ts pre pos st)).
Proof.
  induction fuel as [|f [IH1 IH2]]; [split; intros; lia|]. split.
  - intros st Hw Hn Hf. rewrite p_read_next_unfold. cbn zeta. set (st0 := ppop_frames st _).
    unfold p_read_tag_checked. destruct (b_bytes st0) eqn:Eb.
    + destruct (c_emit_eof c); exact Hn.
    + destruct (p_read_tag c st0) as [st2 r2] eqn:Er.
      destruct (p_read_tag_sum st0 st2 r2 Hw Er) as (W2 & N2 & F2 & Q2 & S2 & Hn2 & L2). specialize (Hn2 Hn).
      destruct r2 as [p|e|]; [|exact Hn2|apply nf_panic, Hn2].
      specialize (L2 p eq_refl). change (nb st0) with (nb st) in L2.
      destruct (p_tag p); try exact Hn2. destruct (mem_id _ _); [|exact Hn2].
      apply IH2; [exact W2|exact Hn2|apply le_n|]. change (2 * nb st2 + 3 <= f)%nat. lia.
  - intros tid ts pre pos st Hw Hn Hl Hf. rewrite p_buffer_master_unfold. cbn zeta.
    destruct (Nat.leb_spec (length (b_queue st)) pos) as [_|Hgt]; [|lia].
    assert (Hn1 : nf (p_read_next f c st)) by (apply IH1; [exact Hw|exact Hn|lia]).
    pose proof (rn_progress f st Hw) as Hp. pose proof (proj1 (rn_bm_mono f) st Hw) as M1.
    set (st1 := p_read_next f c st) in *.
    destruct (b_bad st1) eqn:Eb1; [exact Hn1|]. specialize (Hp eq_refl).
    destruct (Nat.leb_spec (length (b_queue st1)) pos) as [Hle1|Hgt1]; [exact Hn1|].
    destruct (scan_queue tid (skipn pos (b_queue st1)) pos) as [p found] eqn:Es. destruct found; [apply nf_finish, Hn1|].
    destruct (scan_queue_nf _ _ _ _ Es) as [Hp1 Hne]. rewrite skipn_length in Hp1.
    destruct M1 as (W1 & N1 & _ & _).
    destruct Hp as [Hlt|[Herr|Hq]].
    + apply IH2; [exact W1|exact Hn1|lia|lia].
    + exfalso. destruct Herr as (q' & e & Hq'). rewrite Hq' in Hgt1, Hne.
      pose proof (in_last_skipn q' pos (QErr e) Hgt1) as Hin. rewrite Forall_forall in Hne. specialize (Hne _ Hin). discriminate.
    + apply quiet_bm; [exact Hq|exact Hn1|lia|lia].
Qed.

(* ------------------------------------------------------------------ try_recover: one byte per iteration *)
Lemma pconsume_mono st k : wf_bytes (b_bytes st) -> mono st (pconsume st k).
Proof.
  intros Hw. assert (H : (nb (pconsume st k) <= nb st)%nat) by apply splitN_snd_le.
  apply mono_intro; [apply wf_splitN_snd, Hw|exact H|reflexivity|].
  unfold psi. change (b_queue (pconsume st k)) with (b_queue st). change (sd (pconsume st k)) with (sd st). lia.
Qed.

Lemma hdr_mono st st1 : wf_bytes (b_bytes st) -> hdr_ok st st1 -> mono st st1.
Proof.
  intros Hw (Hb & Hf & Hq & Hs & _). apply mono_intro; [rewrite Hb; exact Hw|unfold nb; rewrite Hb; apply le_n|exact Hf|].
  unfold psi, nb. rewrite Hq, Hb. lia.
Qed.

Lemma p_recover_loop_mono : forall fuel st, wf_bytes (b_bytes st) -> mono st (fst (p_recover_loop fuel c st)).
Proof.
  induction fuel as [|f IH]; intros st Hw; cbn [p_recover_loop]; [apply mono_intro; [exact Hw|apply le_n|reflexivity|apply le_n]|].
  destruct (b_bytes st) eqn:Eb; [cbn [fst]; apply mono_refl; rewrite Eb; exact Hw|].
  assert (Hw' : wf_bytes (b_bytes st)) by (rewrite Eb; exact Hw).
  pose proof (pconsume_mono st 1 Hw') as Mc. pose proof (p_header_sum (pconsume st 1)) as Hh.
  pose proof (hdr_mono _ _ (proj1 Mc) Hh) as Mh.
  destruct (p_header c (pconsume st 1)) as [st2 [h|e|]]; cbn [fst] in *.
  - eapply mono_trans; [exact Mc|exact Mh].
  - eapply mono_trans; [exact Mc|]. eapply mono_trans; [exact Mh|]. apply IH, Mh.
  - eapply mono_trans; [exact Mc|exact Mh].
Qed.

Lemma p_recover_loop_fuel : forall fuel st, wf_bytes (b_bytes st) -> nf st -> (nb st + 1 <= fuel)%nat ->
  nf (fst (p_recover_loop fuel c st)).
Proof.
  induction fuel as [|f IH]; intros st Hw Hn Hf; [lia|]. cbn [p_recover_loop].
  destruct (b_bytes st) eqn:Eb; [exact Hn|].
  assert (Hw' : wf_bytes (b_bytes st)) by (rewrite Eb; exact Hw).
  assert (Hlt : (nb (pconsume st 1) < nb st)%nat) by (apply splitN_snd_lt; [lia|rewrite Eb; discriminate]).
  destruct (p_header_sum (pconsume st 1)) as (Hb & _ & _ & _ & Hn2). specialize (Hn2 Hn).
  destruct (p_header c (pconsume st 1)) as [st2 [h|e|]]; cbn [fst] in *.
  - exact Hn2.
  - apply IH; [rewrite Hb; apply wf_splitN_snd, Hw'|exact Hn2|]. unfold nb in *. rewrite Hb. lia.
  - apply nf_panic, Hn2.
Qed.

(* the run invariant *)
Definition Inv (st : pst) : Prop := wf_bytes (b_bytes st) /\ nf st /\ (2 * nb st + 2 <= b_fuel st)%nat.

Lemma inv_mono st st1 : Inv st -> mono st st1 -> nf st1 -> Inv st1.
Proof. intros (A1 & A2 & A3) (B1 & B2 & B3 & B4) Hn. split; [exact B1|]. split; [exact Hn|]. rewrite B3. lia. Qed.

Lemma p_try_recover_inv st : Inv st -> nf (fst (p_try_recover c st)) /\ mono st (fst (p_try_recover c st)).
Proof.
  intros (Hw & Hn & Hf). unfold p_try_recover.
  assert (H1 : nf (fst (p_recover_loop (b_fuel st) c st))) by (apply p_recover_loop_fuel; [exact Hw|exact Hn|lia]).
  pose proof (p_recover_loop_mono (b_fuel st) st Hw) as M1.
  destruct (p_recover_loop (b_fuel st) c st) as [st1 [e|]]; cbn [fst] in *; [split; assumption|].
  split; [exact H1|]. eapply mono_trans; [exact M1|].
  apply mono_intro; [apply M1|apply le_n|reflexivity|].
  unfold psi, sd, nb, grow_frames. cbn [pset_stack b_queue b_stack b_det b_bytes]. rewrite map_length. apply le_n.
Qed.

Definition item_weight (r : nres) : nat := match r with NItem _ _ => 1%nat | _ => O end.

Lemma p_next_inv st : Inv st ->
  nf (fst (p_next c st)) /\ mono st (fst (p_next c st)) /\ (psi (fst (p_next c st)) + item_weight (snd (p_next c st)) <= psi st)%nat.
Proof.
  intros (Hw & Hn & Hf). unfold p_next.
  assert (H1 : nf (match b_queue st with [] => p_read_next (b_fuel st) c st | _ :: _ => st end) /\
               mono st (match b_queue st with [] => p_read_next (b_fuel st) c st | _ :: _ => st end)).
  { destruct (b_queue st); [|split; [exact Hn|apply mono_refl, Hw]].
    split; [apply rn_bm_fuel; assumption|apply rn_bm_mono, Hw]. }
  set (st1 := match b_queue st with [] => _ | _ => _ end) in *. destruct H1 as [Hn1 M1].
  pose proof M1 as (W1 & N1 & F1 & P1).
  destruct (b_queue st1) as [|[t o|e] q] eqn:Eq; cbn [fst snd item_weight].
  - split; [exact Hn1|]. split; [exact M1|lia].
  - assert (P : (psi (pset_last (pset_queue st1 q) o) + 1 <= psi st)%nat).
    { unfold psi in *. change (sd (pset_last (pset_queue st1 q) o)) with (sd st1). change (nb (pset_last (pset_queue st1 q) o)) with (nb st1).
      cbn [pset_last pset_queue b_queue]. rewrite Eq in P1. cbn [okc] in P1. lia. }
    split; [exact Hn1|]. split; [|exact P]. apply mono_intro; [exact W1|exact N1|exact F1|lia].
  - assert (P : (psi (pset_queue st1 q) <= psi st)%nat).
    { unfold psi in *. change (sd (pset_queue st1 q)) with (sd st1). change (nb (pset_queue st1 q)) with (nb st1).
      cbn [pset_queue b_queue]. rewrite Eq in P1. cbn [okc] in P1. lia. }
    split; [exact Hn1|]. split; [|lia]. apply mono_intro; [exact W1|exact N1|exact F1|exact P].
Qed.

Definition fine (o : rout) : Prop := o <> bad_out BFuel.

Lemma bad_out_fine st b : nf st -> b_bad st = Some b -> fine (bad_out b).
Proof. unfold nf, fine. intros Hn Hb. destruct b; [discriminate|]. exfalso. exact (Hn Hb). Qed.

Lemma bad_out_not_limit b : bad_out b <> OLimit.
Proof. destruct b; discriminate. Qed.

Lemma p_run_all_term : forall limit st, Inv st ->
  nf (fst (p_run_all limit c st)) /\ mono st (fst (p_run_all limit c st)) /\
  Forall fine (snd (p_run_all limit c st)) /\
  ((psi st < limit)%nat -> ~ In OLimit (snd (p_run_all limit c st))) /\
  (length (snd (p_run_all limit c st)) <= S (psi st))%nat.
Proof.
  induction limit as [|l IH]; intros st Hi; cbn [p_run_all].
  - cbn [fst snd]. split; [apply Hi|]. split; [apply mono_refl, Hi|]. split; [repeat constructor; discriminate|].
    split; [intros H; lia|cbn [length]; lia].
  - destruct (p_next_inv st Hi) as (Hn1 & M1 & P1). destruct (p_next c st) as [st1 r]. cbn [fst snd] in *.
    destruct (b_bad st1) as [b|] eqn:Eb.
    + cbn [fst snd]. split; [exact Hn1|]. split; [exact M1|]. split; [constructor; [eapply bad_out_fine; eassumption|constructor]|].
      split; [intros _ [H|[]]; exact (bad_out_not_limit b H)|cbn [length]; lia].
    + destruct r as [t o|e|]; cbn [item_weight] in P1.
      * destruct (IH st1 (inv_mono st st1 Hi M1 Hn1)) as (A & B & C & D & E).
        destruct (p_run_all l c st1) as [st2 outs]. cbn [fst snd] in *.
        split; [exact A|]. split; [eapply mono_trans; eassumption|]. split; [constructor; [discriminate|exact C]|].
        split; [|cbn [length]; lia]. intros Hl [H|H]; [discriminate|]. apply D; [lia|exact H].
      * cbn [fst snd]. split; [exact Hn1|]. split; [exact M1|]. split; [repeat constructor; discriminate|].
        split; [intros _ [H|[]]; discriminate|cbn [length]; lia].
      * cbn [fst snd]. split; [exact Hn1|]. split; [exact M1|]. split; [repeat constructor; discriminate|].
        split; [intros _ [H|[]]; discriminate|cbn [length]; lia].
Qed.

Lemma p_run_ops_term limit : forall ops st, Inv st ->
  Forall fine (snd (p_run_ops c limit st ops)) /\ ((psi st < limit)%nat -> ~ In OLimit (snd (p_run_ops c limit st ops))).
Proof.
  induction ops as [|op ops IH]; intros st Hi; cbn [p_run_ops]; [split; [constructor|intros _ []]|]. destruct op.
  - destruct (p_next_inv st Hi) as (Hn1 & M1 & P1). destruct (p_next c st) as [st1 r]. cbn [fst snd] in *.
    destruct (b_bad st1) as [b|] eqn:Eb.
    + cbn [snd]. split; [constructor; [eapply bad_out_fine; eassumption|constructor]|intros _ [H|[]]; exact (bad_out_not_limit b H)].
    + destruct (IH st1 (inv_mono st st1 Hi M1 Hn1)) as [A B]. destruct (p_run_ops c limit st1 ops) as [st2 outs]. cbn [snd] in *.
      split; [constructor; [destruct r; discriminate|exact A]|].
      intros Hl [H|H]; [destruct r; discriminate|]. apply B; [lia|exact H].
  - destruct (p_try_recover_inv st Hi) as (Hn1 & M1). destruct (p_try_recover c st) as [st1 r]. cbn [fst] in *.
    destruct (b_bad st1) as [b|] eqn:Eb.
    + cbn [snd]. split; [constructor; [eapply bad_out_fine; eassumption|constructor]|intros _ [H|[]]; exact (bad_out_not_limit b H)].
    + destruct (IH st1 (inv_mono st st1 Hi M1 Hn1)) as [A B]. destruct (p_run_ops c limit st1 ops) as [st2 outs]. cbn [snd] in *.
      split; [constructor; [destruct r; discriminate|exact A]|].
      intros Hl [H|H]; [destruct r; discriminate|]. apply B; [destruct M1 as (_ & _ & _ & M1); lia|exact H].
  - destruct (p_run_all_term limit st Hi) as (Hn1 & M1 & C & D & _). destruct (p_run_all limit c st) as [st1 outs1]. cbn [fst snd] in *.
    destruct (b_bad st1) as [b|] eqn:Eb; [cbn [snd]; split; [exact C|exact D]|].
    destruct (IH st1 (inv_mono st st1 Hi M1 Hn1)) as [A B]. destruct (p_run_ops c limit st1 ops) as [st2 outs]. cbn [snd] in *.
    split; [apply Forall_app; split; assumption|]. intros Hl H. apply in_app_or in H. destruct H as [H|H]; [exact (D Hl H)|].
    apply B; [destruct M1 as (_ & _ & _ & M1); lia|exact H].
Qed.

Lemma inv_init input : wf_bytes input -> Inv (p_init input).
Proof.
  intros Hw. split; [exact Hw|]. split; [unfold nf; cbn; discriminate|].
  unfold nb, p_init, default_fuel. cbn [b_bytes b_fuel]. lia.
Qed.

Lemma psi_init input : psi (p_init input) = (slack + 2 * length input)%nat.
Proof. unfold psi, sd, nb, p_init. cbn [b_queue b_stack b_det b_bytes okc length]. lia. Qed.

End Term.

(* ------------------------------------------------------------------ the theorems *)
(* the recursion budget is never exhausted: read_next/buffer_master and the try_recover loop terminate *)
Theorem run_never_out_of_fuel : forall c input ops, wf_bytes input ->
  Forall (fun o => o <> bad_out BFuel) (p_run c input ops).
Proof. intros c input ops Hw. unfold p_run. apply (p_run_ops_term c). apply inv_init, Hw. Qed.

(* a drain always ends within the call bound, when no declared path is longer than 2 * |input| + 63 (or the hierarchy is
   not checked); for deeper specifications it does not: Props/C05.v has the example *)
Theorem drain_within_limit : forall c input ops, wf_bytes input -> (slack c < 2 * length input + 64)%nat ->
  ~ In OLimit (p_run c input ops).
Proof.
  intros c input ops Hw Hs. unfold p_run. apply (p_run_ops_term c); [apply inv_init, Hw|]. rewrite psi_init. lia.
Qed.

(* the linear bound on the number of items of a drain (for any call bound) *)
Theorem drain_length : forall c input limit, wf_bytes input ->
  (length (snd (p_run_all limit c (p_init input))) <= slack c + 2 * length input + 1)%nat.
Proof.
  intros c input limit Hw. destruct (p_run_all_term c limit (p_init input) (inv_init input Hw)) as (_ & _ & _ & _ & H).
  rewrite psi_init in H. lia.
Qed.

(* ... and for the buffered machine with any capacity and any chunking of the reads *)
Corollary buffered_run_never_out_of_fuel : forall c cap0 script input ops, wf_bytes input -> calm script ->
  Forall (fun o => o <> bad_out BFuel) (run_reader c cap0 script input ops).
Proof. intros c cap0 script input ops Hw Hc. rewrite buffered_refines_pure by exact Hc. apply run_never_out_of_fuel, Hw. Qed.

Corollary buffered_drain_within_limit : forall c cap0 script input ops, wf_bytes input -> calm script ->
  (slack c < 2 * length input + 64)%nat -> ~ In OLimit (run_reader c cap0 script input ops).
Proof. intros c cap0 script input ops Hw Hc Hs. rewrite buffered_refines_pure by exact Hc. apply drain_within_limit; assumption. Qed.

(* the side condition in terms of the specification's entries *)
Lemma spec_depth_le sp d : (forall e, In e sp -> (length (e_path e) <= d)%nat) -> (spec_depth sp <= d)%nat.
Proof.
  unfold spec_depth. induction sp as [|e sp IH]; intros H; cbn [fold_right]; [lia|].
  assert (H1 : (length (e_path e) <= d)%nat) by (apply H; left; reflexivity).
  assert (H2 : (fold_right (fun e m => Nat.max (length (e_path e)) m) O sp <= d)%nat) by (apply IH; intros e0 He; apply H; right; exact He).
  lia.
Qed.

Corollary drain_within_limit_paths : forall c input ops, wf_bytes input ->
  (forall e, In e (c_sp c) -> (length (e_path e) <= 63)%nat) -> ~ In OLimit (p_run c input ops).
Proof.
  intros c input ops Hw Hp. apply drain_within_limit; [exact Hw|]. unfold slack. destruct (c_allow_hier c); [lia|].
  pose proof (spec_depth_le (c_sp c) 63 Hp). lia.
Qed.

Corollary drain_within_limit_lenient : forall c input ops, wf_bytes input -> c_allow_hier c = true -> ~ In OLimit (p_run c input ops).
Proof. intros c input ops Hw Hh. apply drain_within_limit; [exact Hw|]. unfold slack. rewrite Hh. lia. Qed.
