(* C14: recovery after inserted junk.  Built on the level machinery of Proofs/Partial.v. *)
From Ebml Require Import Base Tools Spec Writer Reader Pure Encode.
From Ebml Require Import Proofs.Tactics Proofs.BytesProofs Proofs.VintProofs Proofs.DecodersProofs Proofs.SpecProofs Proofs.ReaderIO Proofs.Refine Proofs.PureProofs Proofs.RoundTrip Proofs.Nesting Proofs.Partial.
Import ListNotations.
Local Open Scope N_scope.

(* once the position in the document is determined, a header check leaves the state alone *)
Lemma p_header_det c st : b_det st = true -> fst (p_header c st) = st.
Proof.
  intros Hd. rewrite p_header_unfold. destruct (p_tag_id st) as [[id idl]|e|]; try reflexivity.
  unfold p_hdr_tail. destruct (read_vint _) as [[[size sl]|]|e1|]; try reflexivity.
  destruct (is_numeric _ && _); [reflexivity|]. destruct (negb (c_allow_id c) && _); [reflexivity|].
  assert (Hh : fst (p_hier_step c st id (get_type (c_sp c) id)) = st).
  { unfold p_hier_step. destruct (negb (c_allow_hier c) && _); [|reflexivity]. rewrite Hd. destruct (_ && _); reflexivity. }
  destruct (p_hier_step c st id (get_type (c_sp c) id)) as [st1 [e1|]]; cbn [fst] in *; subst st1; [reflexivity|].
  destruct (b_bad st); [reflexivity|]. destruct (_ && _); [reflexivity|].
  destruct (c_max c); destruct (ebml_size size sl); try destruct (_ <? _); reflexivity.
Qed.

(* the state after k bytes have been skipped *)
Fixpoint skip_bytes (st : pst) (k : nat) : pst := match k with O => st | S k' => skip_bytes (pconsume st 1) k' end.

(* [junk c st k]: at none of the next k positions after the current one does a header pass the checks *)
Fixpoint junk (c : cfg) (st : pst) (k : nat) : Prop :=
  match k with
  | O => True
  | S k' => (exists e, snd (p_header c (pconsume st 1)) = Err e) /\ junk c (pconsume st 1) k'
  end.

Lemma skip_bytes_facts : forall k st, (k <= length (b_bytes st))%nat ->
  b_bytes (skip_bytes st k) = skipn k (b_bytes st) /\ b_off (skip_bytes st k) = b_off st + N.of_nat k /\
  b_stack (skip_bytes st k) = b_stack st /\ b_queue (skip_bytes st k) = b_queue st /\ b_det (skip_bytes st k) = b_det st /\
  b_bad (skip_bytes st k) = b_bad st /\ b_fuel (skip_bytes st k) = b_fuel st.
Proof.
  induction k as [|k IH]; intros st Hk; cbn [skip_bytes].
  - rewrite N.add_0_r. repeat split.
  - destruct (b_bytes st) as [|b0 tl] eqn:Eb; [cbn in Hk; lia|].
    assert (Hc : b_bytes (pconsume st 1) = tl).
    { unfold pconsume. cbn [b_bytes]. rewrite Eb. change 1 with (N.of_nat (length [b0])). change (b0 :: tl) with ([b0] ++ tl). rewrite splitN_exact. reflexivity. }
    assert (Hk' : (k <= length (b_bytes (pconsume st 1)))%nat) by (rewrite Hc; cbn in Hk; lia).
    destruct (IH (pconsume st 1) Hk') as [I1 [I2 [I3 [I4 [I5 [I6 I7]]]]]].
    rewrite I1, I2, I3, I4, I5, I6, I7, Hc. cbn [skipn pconsume b_off b_stack b_queue b_det b_bad b_fuel]. repeat split. lia.
Qed.

(* the recovery loop walks over the junk and stops at the first header that passes *)
Lemma recover_loop_junk c : forall k st fuel h, b_det st = true -> (k < fuel)%nat -> (k < length (b_bytes st))%nat ->
  junk c st k -> p_header c (skip_bytes st (S k)) = (skip_bytes st (S k), Ok h) ->
  p_recover_loop fuel c st = (skip_bytes st (S k), None).
Proof.
  induction k as [|k IH]; intros st fuel h Hd Hf Hl Hj Hok.
  - destruct fuel as [|f]; [lia|]. cbn [p_recover_loop]. destruct (b_bytes st) as [|b0 tl] eqn:Eb; [cbn in Hl; lia|].
    cbn [skip_bytes] in Hok. rewrite Hok. reflexivity.
  - destruct fuel as [|f]; [lia|]. cbn [p_recover_loop]. destruct (b_bytes st) as [|b0 tl] eqn:Eb; [cbn in Hl; lia|].
    destruct Hj as [[e He] Hj'].
    assert (Hd1 : b_det (pconsume st 1) = true) by exact Hd.
    pose proof (p_header_det c (pconsume st 1) Hd1) as Hsame.
    destruct (p_header c (pconsume st 1)) as [s r] eqn:Eh. cbn [fst snd] in *. subst s r.
    assert (Hc : b_bytes (pconsume st 1) = tl).
    { unfold pconsume. cbn [b_bytes]. rewrite Eb. change 1 with (N.of_nat (length [b0])). change (b0 :: tl) with ([b0] ++ tl). rewrite splitN_exact. reflexivity. }
    apply (IH (pconsume st 1) f h Hd1); [lia|rewrite Hc; cbn in Hl; lia|exact Hj'|exact Hok].
Qed.

(* ------------------------------------------------------------------ the state after the error has been reported *)
Lemma run_err_st c : forall q st e n, b_queue st = q_ok q ++ [QErr e] -> b_bad st = None ->
  snd (p_run_all (length q + S n) c st) = o_ok q ++ [OErr e] /\
  same_parse st (fst (p_run_all (length q + S n) c st)) /\ b_queue (fst (p_run_all (length q + S n) c st)) = [].
Proof.
  induction q as [|[t o] q IH]; intros st e n Hq Hb.
  - cbn [q_ok map app length Nat.add] in *. cbn [p_run_all]. unfold p_next. rewrite Hq. cbn iota. rewrite Hq.
    cbn [pset_queue b_bad]. rewrite Hb. cbn [fst snd]. split; [reflexivity|]. split; [repeat split|reflexivity].
  - cbn [q_ok map fst snd app] in Hq. cbn [length Nat.add p_run_all].
    rewrite (p_next_pop c st t o (q_ok q ++ [QErr e]) Hq).
    set (st1 := pset_last (pset_queue st (q_ok q ++ [QErr e])) o).
    assert (Hb1 : b_bad st1 = None) by exact Hb. rewrite Hb1.
    destruct (IH st1 e n eq_refl Hb1) as [I1 [I2 I3]]. destruct (p_run_all (length q + S n) c st1) as [st2 outs]. cbn [fst snd] in *.
    split; [rewrite I1; reflexivity|]. split; [exact I2|exact I3].
Qed.

Lemma err_run_st c st Sk e st2 : b_stack st = Sk -> b_queue st = [] -> b_bad st = None -> (1 <= b_fuel st)%nat -> b_bytes st <> [] ->
  p_read_tag c (ppop_frames st (exhausted_count (b_off st) Sk)) = (st2, Err e) ->
  b_queue st2 = b_queue (ppop_frames st (exhausted_count (b_off st) Sk)) -> b_bad st2 = None -> b_fuel st2 = b_fuel st ->
  forall n, let r := p_run_all (exhausted_count (b_off st) Sk + S n) c st in
    snd r = map end_out (firstn (exhausted_count (b_off st) Sk) Sk) ++ [OErr e] /\ same_parse st2 (fst r) /\ b_queue (fst r) = [].
Proof.
  intros Hs Hq Hbad Hf Hne Hread Hq2 Hb2 Hf2 n.
  set (k1 := exhausted_count (b_off st) Sk) in *.
  assert (Hrn : p_read_next (b_fuel st) c st = ppush_q st2 [QErr e]).
  { destruct (b_fuel st) as [|f] eqn:Ef; [lia|]. rewrite p_read_next_unfold. cbn zeta. rewrite Hs. fold k1.
    unfold p_read_tag_checked.
    assert (Hb1 : b_bytes (ppop_frames st k1) = b_bytes st) by reflexivity. rewrite Hb1.
    destruct (b_bytes st) as [|b0 tl] eqn:Eb; [contradiction Hne; reflexivity|]. rewrite Hread. reflexivity. }
  assert (Hqn : b_queue (ppush_q st2 [QErr e]) = q_ok (map end_pair (firstn k1 Sk)) ++ [QErr e]).
  { unfold ppush_q, pset_queue. cbn [b_queue]. rewrite Hq2. unfold ppop_frames, ppush_q, pset_queue, pset_stack. cbn [b_queue b_stack].
    rewrite Hq, Hs. cbn [app]. unfold q_ok. rewrite map_map. reflexivity. }
  cbn zeta. replace (k1 + S n)%nat with (S (k1 + n)) by lia.
  rewrite (run_refill c st (k1 + n) Hq); rewrite Hrn.
  - pose proof (run_err_st c (map end_pair (firstn k1 Sk)) (ppush_q st2 [QErr e]) e n Hqn Hb2) as Hr.
    rewrite map_length, firstn_length in Hr.
    assert (Hk : (k1 <= length Sk)%nat) by apply exh_le. rewrite Nat.min_l in Hr by exact Hk.
    replace (S (k1 + n)) with (k1 + S n)%nat by lia. destruct Hr as [R1 [R2 R3]].
    split; [rewrite R1; unfold o_ok; rewrite map_map; reflexivity|]. split; [exact R2|exact R3].
  - rewrite Hqn. destruct (q_ok _); discriminate.
  - exact Hf2.
Qed.

(* ------------------------------------------------------------------ enlarging the open known-size masters *)
Lemma grow_unknown d : forall T, Forall unknownF T -> grow_frames d T = T.
Proof.
  induction T as [|f T IH]; intros H; [reflexivity|]. inversion H as [|? ? Hf Ht]; subst. cbn [grow_frames map].
  unfold unknownF in Hf. rewrite Hf. f_equal. apply IH, Ht.
Qed.

Lemma grow_app d a b : grow_frames d (a ++ b) = grow_frames d a ++ grow_frames d b.
Proof. unfold grow_frames. apply map_app. Qed.

Lemma grow_ids d stk : ids_of (grow_frames d stk) = ids_of stk.
Proof.
  unfold ids_of, grow_frames. rewrite map_map. f_equal. apply map_ext. intros f. destruct (f_size f); reflexivity.
Qed.

Lemma grow_room d stk e : room stk e -> room (grow_frames d stk) (e + d).
Proof.
  unfold room, grow_frames. intros H. rewrite Forall_forall in *. intros f Hin. apply in_map_iff in Hin. destruct Hin as [g [<- Hg]].
  specialize (H g Hg). destruct (f_size g) as [n|] eqn:Es; cbn [f_size f_data]; [lia|rewrite Es; exact I].
Qed.

(* ------------------------------------------------------------------ helper facts *)
Lemma pending_rest c st T stk ids total : pre c st T stk ids total -> 0 < total ->
  let k1 := exhausted_count (b_off st) (T ++ stk) in
  (k1 <= length T)%nat /\ skipn k1 (T ++ stk) = skipn k1 T ++ stk /\ firstn k1 (T ++ stk) = firstn k1 T /\ Forall unknownF (skipn k1 T).
Proof.
  intros [Hs Hq Hbad Hf Hd Hpend Hsib Hids Hchain Hroom] Hpos. cbn zeta.
  pose proof (room_not_exhausted _ _ _ Hroom Hpos) as Hne.
  rewrite (exh_app _ T stk (exh_none _ stk Hne)).
  set (k1 := exhausted_count (b_off st) T).
  assert (Hk1 : (k1 <= length T)%nat) by apply exh_le.
  split; [exact Hk1|]. split; [apply skipn_app_le, Hk1|]. split; [apply firstn_app_le, Hk1|].
  apply Forall_forall. intros f Hin. apply (pend_not_exh (b_off st)).
  - rewrite Forall_forall in Hpend. apply Hpend. eapply in_skipn, Hin.
  - pose proof (exh_rest (b_off st) T) as Hr. rewrite Forall_forall in Hr. apply Hr, Hin.
Qed.

Lemma existsb_ext' {A} (f g : A -> bool) : forall l, (forall x, f x = g x) -> existsb f l = existsb g l.
Proof. induction l as [|a l IH]; intros H; [reflexivity|]. cbn [existsb]. rewrite H, IH by exact H. reflexivity. Qed.

Lemma invalid_size_shift st s d sz : b_stack s = b_stack st -> b_off s = b_off st + d ->
  p_invalid_tag_size s sz = p_invalid_tag_size st (d + sz).
Proof.
  intros Hs Ho. unfold p_invalid_tag_size. rewrite Hs, Ho. apply existsb_ext'. intros f. destruct (f_size f); [|reflexivity].
  rewrite N.add_assoc. reflexivity.
Qed.

(* the header of a conforming tree passes every check wherever the tree fits *)
Lemma header_ok_tree c s ids x rest : strict c -> conf c ids x -> b_bytes s = enc_tree x ++ rest -> wf_bytes rest -> b_bad s = None ->
  hier_ok c s (root_id x) -> (forall sz, sz <= tlen x -> p_invalid_tag_size s sz = false) ->
  exists h s', p_header c s = (s', Ok h) /\ same_but_det s s'.
Proof.
  intros Hstrict Hconf Hb Hwf Hbad Hhier Hroom.
  destruct x as [id v pl sl|id sz cs]; cbn [root_id] in *.
  - destruct Hconf as [Hid [Hsl [Hlt [Hwfp [[ty [Hty [Hnm Hdec]]] [_ Hmax]]]]]]. cbn [enc_tree] in Hb. rewrite <- !app_assoc in Hb.
    assert (Hsz : N.of_nat (length pl) < 2 ^ (7 * N.of_nat sl)) by lia.
    pose proof (ebml_size_known _ _ Hlt) as Hes.
    assert (Hr : p_invalid_tag_size s (N.of_nat (length (id_bytes id) + sl) + match ebml_size (N.of_nat (length pl)) sl with SKnown n => n | SUnknown => 0 end) = false).
    { rewrite Hes. apply Hroom. rewrite tlen_leaf. cbn [hdr_len]. lia. }
    assert (Hm : size_ok c (ebml_size (N.of_nat (length pl)) sl)) by (rewrite Hes; exact Hmax).
    destruct (p_header_conf c s id ty sl _ (pl ++ rest) Hstrict Hid Hsl Hsz (wf_app _ _ Hwfp Hwf) Hb Hty (decodes_numeric ty pl v Hdec) Hbad Hhier Hr Hm)
      as [s' [Hh Hsame]]. eexists. exists s'. split; [exact Hh|exact Hsame].
  - pose proof (conf_wf c _ ids Hconf) as [Hwt _]. apply conf_node in Hconf. destruct Hconf as [Hid [Hsz [Hty [_ [Hmax Hcs]]]]].
    rewrite enc_tree_node in Hb, Hwt. rewrite <- !app_assoc in Hb.
    assert (Hwb : wf_bytes (enc_forest cs ++ rest)).
    { apply wf_app; [|exact Hwf]. unfold wf_bytes in *. rewrite !Forall_app in Hwt. tauto. }
    assert (Hx : exists sl' size, (1 <= sl' <= 8)%nat /\ size < 2 ^ (7 * N.of_nat sl') /\
                 match sz with Some sl => venc sl (flen cs) | None => unknown_marker end = venc sl' size /\
                 ebml_size size sl' = node_esz sz cs /\ node_sl sz = sl').
    { destruct sz as [sl|].
      - destruct (Hsz sl eq_refl) as [H1 H2]. exists sl, (flen cs). split; [exact H1|]. split; [lia|]. split; [reflexivity|].
        split; [apply ebml_size_known, H2|reflexivity].
      - exists 8%nat, (2 ^ 56 - 1). split; [lia|]. split; [reflexivity|]. split; [reflexivity|]. split; reflexivity. }
    destruct Hx as [sl' [size [Hsl [Hsize [Hfield [Hes Hnsl]]]]]]. rewrite Hfield in Hb.
    assert (Hr : p_invalid_tag_size s (N.of_nat (length (id_bytes id) + sl') + match ebml_size size sl' with SKnown n => n | SUnknown => 0 end) = false).
    { rewrite Hes. apply Hroom. rewrite tlen_node, hdr_len_node, Hnsl. destruct sz; cbn [node_esz]; lia. }
    assert (Hm : size_ok c (ebml_size size sl')) by (rewrite Hes; exact Hmax).
    assert (Hnum : is_numeric (Some DMaster) = true -> size <= 8) by discriminate.
    destruct (p_header_conf c s id DMaster sl' size _ Hstrict Hid Hsl Hsize Hwb Hb Hty Hnum Hbad Hhier Hr Hm) as [s' [Hh Hsame]].
    eexists. exists s'. split; [exact Hh|exact Hsame].
Qed.

Definition junk_from (c : cfg) (st : pst) (k : nat) : Prop :=
  forall s, same_parse st s -> (exists e, snd (p_header c s) = Err e) /\ junk c s k.

(* ------------------------------------------------------------------ one recovery *)
Lemma recover_step c st T stk ids total jk x rest :
  strict c -> c_buffered c = [] -> pre c st T stk ids total -> b_det st = true ->
  b_bytes st = jk ++ enc_tree x ++ rest -> jk <> [] -> wf_bytes rest -> conf c ids x ->
  N.of_nat (length jk) + tlen x <= total -> (length jk <= b_fuel st)%nat ->
  junk_from c (ppop_frames st (exhausted_count (b_off st) (T ++ stk))) (length jk - 1) ->
  let k1 := exhausted_count (b_off st) (T ++ stk) in
  forall n, exists e0 Sr,
    snd (p_run_all (k1 + S n) c st) = map end_out (firstn k1 T) ++ [OErr e0] /\
    b_bad (fst (p_run_all (k1 + S n) c st)) = None /\ p_try_recover c (fst (p_run_all (k1 + S n) c st)) = (Sr, None) /\
    pre c Sr (skipn k1 T) (grow_frames (N.of_nat (length jk)) stk) ids total /\
    b_bytes Sr = enc_tree x ++ rest /\ b_off Sr = b_off st + N.of_nat (length jk) /\ b_fuel Sr = b_fuel st /\ b_det Sr = true.
Proof.
  intros Hstrict Hnb Hpre Hdet Hb Hjk Hwf Hconf Htot Hfuel Hjunk. cbn zeta. intros n.
  set (j := length jk) in *.
  assert (Hj1 : (1 <= j)%nat) by (unfold j; destruct jk; [contradiction Hjk; reflexivity|cbn; lia]).
  assert (Hidx : get_path (c_sp c) (root_id x) = map PId ids /\ get_type (c_sp c) (root_id x) <> None).
  { destruct x as [id v pl sl|id sz cs].
    - destruct Hconf as [_ [_ [_ [_ [[ty [Hty _]] [Hpath _]]]]]]. cbn [root_id]. rewrite Hty. split; [assumption|discriminate].
    - pose proof Hconf as Hc'. apply conf_node in Hc'. destruct Hc' as [_ [_ [Hty [Hpath _]]]]. cbn [root_id]. rewrite Hty. split; [assumption|discriminate]. }
  destruct Hidx as [Hpath Htyn].
  assert (Hpos : 0 < total) by (pose proof (conf_wf c x ids Hconf) as [_ H2]; lia).
  pose proof (pre_step c st T stk ids _ (root_id x) Hpre Hpos Hpath Htyn Hnb) as Hstep.
  pose proof (prep c st T stk ids (root_id x) _ Hstep) as Hprep. cbn zeta in Hprep.
  destruct Hprep as [P1 [P2 [P3 [P4 [P5 [P6 [P7 [Phier Proom]]]]]]]].
  destruct (pending_rest c st T stk ids total Hpre Hpos) as [Hk1 [Hsk [Hfi Hunk]]].
  pose proof Hpre as [Hs Hq Hbad Hf _ Hpend Hsib Hids Hchain Hroom]. rewrite Hs in *.
  set (k1 := exhausted_count (b_off st) (T ++ stk)) in *.
  set (st_a := ppop_frames st k1) in *.
  (* the first error *)
  assert (Hsp : same_parse st_a st_a) by (repeat split).
  destruct (Hjunk st_a Hsp) as [[e0 He0] _].
  assert (Hda : b_det st_a = true) by (rewrite P4; exact Hdet).
  pose proof (p_header_det c st_a Hda) as Hsame_a.
  assert (Hh0 : p_header c st_a = (st_a, Err e0)).
  { destruct (p_header c st_a) as [s r]. cbn [fst snd] in *. subst. reflexivity. }
  assert (Hne : b_bytes st <> []) by (rewrite Hb; destruct jk; [contradiction Hjk; reflexivity|discriminate]).
  pose proof (err_run_st c st (T ++ stk) e0 st_a Hs Hq Hbad Hf Hne (header_err_read c st_a e0 Hh0) eq_refl P3 P5 n) as Herr.
  cbn zeta in Herr. fold k1 in Herr. destruct Herr as [R1 [R2 R3]]. rewrite Hfi in R1.
  set (S0 := fst (p_run_all (k1 + S n) c st)) in *.
  destruct R2 as [Q1 [Q2 [Q3 [Q4 [Q5 Q6]]]]].
  (* the recovery loop *)
  destruct (Hjunk S0 (conj Q1 (conj Q2 (conj Q3 (conj Q4 (conj Q5 Q6)))))) as [_ HjS].
  assert (Hlen0 : b_bytes S0 = jk ++ enc_tree x ++ rest) by (rewrite Q1, P1; exact Hb).
  assert (Hjl : (j <= length (b_bytes S0))%nat) by (rewrite Hlen0, app_length; unfold j; lia).
  destruct (skip_bytes_facts j S0 Hjl) as [K1 [K2 [K3 [K4 [K5 [K6 K7]]]]]].
  set (SJ := skip_bytes S0 j) in *.
  assert (KB : b_bytes SJ = enc_tree x ++ rest).
  { rewrite K1, Hlen0. unfold j. rewrite skipn_app, skipn_all, Nat.sub_diag. reflexivity. }
  assert (Hdj : b_det SJ = true) by (rewrite K5, Q4; exact Hda).
  assert (HhJ : hier_ok c SJ (root_id x)).
  { unfold hier_ok in *. rewrite Hdj, K3, Q3. rewrite Hda in Phier. exact Phier. }
  assert (HrJ : forall sz, sz <= tlen x -> p_invalid_tag_size SJ sz = false).
  { intros sz Hsz. rewrite (invalid_size_shift st_a SJ (N.of_nat j) sz); [apply Proom; lia|rewrite K3, Q3; reflexivity|rewrite K2, Q2; reflexivity]. }
  assert (HbJ : b_bad SJ = None) by (rewrite K6, Q5; exact P3).
  destruct (header_ok_tree c SJ ids x rest Hstrict Hconf KB Hwf HbJ HhJ HrJ) as [h [s' [HhOk _]]].
  pose proof (p_header_det c SJ Hdj) as HsJ. rewrite HhOk in HsJ. cbn [fst] in HsJ. subst s'.
  assert (Hloop : p_recover_loop (b_fuel S0) c S0 = (SJ, None)).
  { unfold SJ. replace j with (S (j - 1)) by lia. apply (recover_loop_junk c (j - 1) S0 (b_fuel S0) h).
    - rewrite Q4. exact Hda.
    - rewrite Q6, P5. lia.
    - lia.
    - exact HjS.
    - replace (S (j - 1)) with j by lia. exact HhOk. }
  exists e0. eexists. split; [exact R1|]. split; [rewrite Q5; exact P3|].
  split; [unfold p_try_recover; rewrite Hloop; reflexivity|].
  assert (Hdiff : b_off SJ - b_off S0 = N.of_nat j) by (rewrite K2; lia).
  rewrite Hdiff, K3, Q3, P7, Hsk, grow_app, (grow_unknown _ _ Hunk).
  split.
  - constructor; cbn [pset_stack b_stack b_queue b_bad b_fuel b_det b_off].
    + reflexivity.
    + rewrite K4. exact R3.
    + exact HbJ.
    + rewrite K7, Q6, P5. exact Hf.
    + left. exact Hdj.
    + apply Forall_forall. intros f Hin. left. rewrite Forall_forall in Hunk. apply Hunk, Hin.
    + intros d Hne'. rewrite last_skipn.
      * apply Hsib. intros E. rewrite E in Hne'. destruct k1; contradiction Hne'; reflexivity.
      * destruct (Nat.lt_ge_cases k1 (length T)) as [Hlt|Hge]; [exact Hlt|]. rewrite skipn_all2 in Hne' by exact Hge. contradiction Hne'. reflexivity.
    + rewrite grow_ids. exact Hids.
    + exact Hchain.
    + rewrite K2, Q2, P2. replace (b_off st + N.of_nat j + total) with (b_off st + total + N.of_nat j) by lia. apply grow_room, Hroom.
  - cbn [pset_stack b_bytes b_off b_fuel b_det]. split; [exact KB|]. split; [rewrite K2, Q2, P2; reflexivity|]. split; [rewrite K7, Q6, P5; reflexivity|exact Hdj].
Qed.

(* ------------------------------------------------------------------ the rest of a document, seen from inside open masters:
   one forest per open master (innermost first: what is still to come inside it), and one for the top level *)
Fixpoint rights_ok (c : cfg) (ids : list N) (off : N) (stk : list frame) (rs : list (list rtree)) {struct rs} : Prop :=
  match rs with
  | [] => False
  | r0 :: rs' =>
      Forall (conf c ids) r0 /\ room stk (off + flen r0) /\
      match stk with
      | [] => rs' = []
      | fr :: stk' => pendF (off + flen r0) fr /\ rights_ok c (removelast ids) (off + flen r0) stk' rs'
      end
  end.

Lemma rights_ok_cons c ids off stk r0 rs' : rights_ok c ids off stk (r0 :: rs') <->
  Forall (conf c ids) r0 /\ room stk (off + flen r0) /\
  match stk with [] => rs' = [] | fr :: stk' => pendF (off + flen r0) fr /\ rights_ok c (removelast ids) (off + flen r0) stk' rs' end.
Proof. split; intros H; exact H. Qed.

Fixpoint rights_outs (off : N) (T : list frame) (stk : list frame) (rs : list (list rtree)) {struct rs} : list rout :=
  match rs with
  | [] => []
  | r0 :: rs' =>
      outs_forest off r0 T ++
      match stk with
      | [] => map end_out (pend_after off r0 T) ++ [ONone]
      | fr :: stk' => rights_outs (off + flen r0) (pend_after off r0 T ++ [fr]) stk' rs'
      end
  end.

Fixpoint enc_rights (rs : list (list rtree)) : list N := match rs with [] => [] | r0 :: rs' => enc_forest r0 ++ enc_rights rs' end.

Lemma wf_rights c : forall rs ids off stk, rights_ok c ids off stk rs -> wf_bytes (enc_rights rs).
Proof.
  induction rs as [|r0 rs IH]; intros ids off stk H; [constructor|]. apply rights_ok_cons in H. destruct H as [Hc [_ Hm]]. cbn [enc_rights].
  apply wf_app; [apply (conf_wf_forest c ids r0 Hc)|]. destruct stk as [|fr stk']; [subst rs; constructor|].
  destruct Hm as [_ Hr]. apply (IH _ _ _ Hr).
Qed.

Lemma chain_prefix sp ids a : chain_paths sp (ids ++ [a]) -> chain_paths sp ids /\ get_path sp a = map PId ids.
Proof.
  unfold chain_paths. intros H. split.
  - intros i b Hn. assert (Hi : (i < length ids)%nat) by (apply nth_error_Some; rewrite Hn; discriminate).
    specialize (H i b). rewrite nth_error_app1 in H by exact Hi. rewrite (H Hn), firstn_app.
    replace (i - length ids)%nat with O by lia. cbn [firstn]. rewrite app_nil_r. reflexivity.
  - specialize (H (length ids) a). rewrite nth_error_app2, Nat.sub_diag in H by lia. rewrite (H eq_refl), firstn_app, firstn_all, Nat.sub_diag.
    cbn [firstn]. rewrite app_nil_r. reflexivity.
Qed.

Lemma parse_rights c : strict c -> c_buffered c = [] -> c_emit_eof c = true ->
  forall rs ids st T stk, rights_ok c ids (b_off st) stk rs -> pre c st T stk ids (flen (hd [] rs)) -> (stk <> [] -> b_det st = true) ->
  b_bytes st = enc_rights rs ->
  forall n, snd (p_run_all (length (rights_outs (b_off st) T stk rs) + n) c st) = rights_outs (b_off st) T stk rs.
Proof.
  intros Hstrict Hnb He. induction rs as [|r0 rs IH]; intros ids st T stk Hok Hpre Hdet Hb n; [contradiction Hok|].
  apply rights_ok_cons in Hok. destruct Hok as [Hc [Hroom Hm]]. cbn [hd] in Hpre. cbn [enc_rights] in Hb. cbn [rights_outs].
  assert (HP : Forall (Ptree c) r0) by (apply Forall_forall; intros t _; apply parse_tree; assumption).
  assert (Hwr : wf_bytes (enc_rights rs)).
  { destruct stk as [|fr stk']; [subst rs; constructor|]. destruct Hm as [_ Hr]. apply (wf_rights c _ _ _ _ Hr). }
  destruct (parse_forest c r0 HP ids Hc st T stk _ Hpre Hb Hwr) as [st1 [Hat1 [Hd1 [Hd1' Hrun1]]]].
  destruct Hat1 as [A1 [A2 [A3 [A4 [A5 A6]]]]].
  pose proof Hpre as [Hs Hq Hbad Hf Hd Hpend Hsib Hids Hchain _].
  destruct (pend_after_ok c ids r0 (b_off st) T Hc Hpend Hsib) as [Hp2 Hs2].
  rewrite app_length, <- Nat.add_assoc, Hrun1. unfold rcat. cbn [snd]. f_equal.
  destruct stk as [|fr stk'].
  - (* top level: the end of the input closes what is pending *)
    subst rs. cbn [enc_rights] in A1. rewrite app_nil_r in A3.
    assert (Hf1 : (1 <= b_fuel st1)%nat) by (rewrite A6; exact Hf).
    pose proof (eof_ends c st1 n A1 A4 A5 Hf1 He) as Hend. rewrite A3 in Hend.
    rewrite app_length, map_length. cbn [length]. replace (length (pend_after (b_off st) r0 T) + 1 + n)%nat with (length (pend_after (b_off st) r0 T) + S n)%nat by lia.
    exact Hend.
  - (* the enclosing master: it is now pending as well *)
    destruct Hm as [Hfr Hr].
    assert (Hdt : b_det st1 = true) by (apply Hd1, Hdet; discriminate).
    assert (Hids' : ids = ids_of stk' ++ [f_id fr]) by (rewrite <- Hids; unfold ids_of; reflexivity).
    rewrite Hids' in Hchain. destruct (chain_prefix _ _ _ Hchain) as [Hch' Hpfr].
    assert (Hrl : removelast ids = ids_of stk') by (rewrite Hids'; apply removelast_last).
    rewrite Hrl in Hr.
    assert (Hpre1 : pre c st1 (pend_after (b_off st) r0 T ++ [fr]) stk' (ids_of stk') (flen (hd [] rs))).
    { constructor.
      - rewrite A3, <- app_assoc. reflexivity.
      - exact A4.
      - exact A5.
      - rewrite A6. exact Hf.
      - left. exact Hdt.
      - rewrite A2. apply Forall_app. split; [exact Hp2|constructor; [exact Hfr|constructor]].
      - intros d _. rewrite last_last. exact Hpfr.
      - reflexivity.
      - exact Hch'.
      - rewrite A2. destruct rs as [|r1 rs']; [contradiction Hr|]. apply rights_ok_cons in Hr. destruct Hr as [_ [Hr1 _]]. exact Hr1. }
    rewrite <- A2. apply (IH (ids_of stk') st1 _ stk'); [rewrite A2; exact Hr|exact Hpre1|intros _; exact Hdt|exact A1].
Qed.

(* ------------------------------------------------------------------ small transfers *)
Lemma pre_retotal c st T stk ids t t' : pre c st T stk ids t -> room stk (b_off st + t') -> pre c st T stk ids t'.
Proof. intros [] Hr. constructor; assumption. Qed.

Lemma pendF_grow off d fr : pendF off fr ->
  pendF (off + d) (match f_size fr with
                   | SKnown n => {| f_id := f_id fr; f_size := SKnown (n + d); f_start := f_start fr; f_data := f_data fr |}
                   | SUnknown => fr end).
Proof.
  intros [H|[n [H Hn]]]; [rewrite H; left; exact H|]. rewrite H. right. exists (n + d). cbn [f_size f_data]. split; [reflexivity|lia].
Qed.

Lemma rights_ok_shift c d : forall rs ids off stk, rights_ok c ids off stk rs -> rights_ok c ids (off + d) (grow_frames d stk) rs.
Proof.
  induction rs as [|r0 rs IH]; intros ids off stk H; [exact H|]. apply rights_ok_cons in H. apply rights_ok_cons.
  destruct H as [Hc [Hr Hm]]. split; [exact Hc|]. split.
  - replace (off + d + flen r0) with (off + flen r0 + d) by lia. apply grow_room, Hr.
  - destruct stk as [|fr stk']; [exact Hm|]. cbn [grow_frames map]. destruct Hm as [Hp Hrest].
    replace (off + d + flen r0) with (off + flen r0 + d) by lia. split; [apply pendF_grow, Hp|apply IH, Hrest].
Qed.

Lemma flen_app a b : flen (a ++ b) = flen a + flen b.
Proof. induction a as [|x a IH]; [reflexivity|]. cbn [app]. rewrite !flen_cons, IH. lia. Qed.

Lemma rights_ok_prepend c ids off stk f1 r0 rs : Forall (conf c ids) f1 -> rights_ok c ids (off + flen f1) stk (r0 :: rs) ->
  rights_ok c ids off stk ((f1 ++ r0) :: rs).
Proof.
  intros Hf H. apply rights_ok_cons in H. apply rights_ok_cons. destruct H as [Hc [Hr Hm]]. rewrite flen_app, N.add_assoc.
  split; [apply Forall_app; split; assumption|]. split; [exact Hr|exact Hm].
Qed.

Lemma same_parse_trans a b d : same_parse a b -> same_parse b d -> same_parse a d.
Proof. intros [A1 [A2 [A3 [A4 [A5 A6]]]]] [B1 [B2 [B3 [B4 [B5 B6]]]]]. repeat split; congruence. Qed.

Lemma junk_from_same c s1 s2 k : junk_from c s1 k -> same_parse s1 s2 -> junk_from c s2 k.
Proof. intros H Hs s Hs2. apply H. eapply same_parse_trans; eassumption. Qed.

(* ------------------------------------------------------------------ tags *)
Definition ends_of (T : list frame) : list tag := map (fun f => TEnd (f_id f)) T.

Fixpoint rtags (stk : list frame) (rs : list (list rtree)) {struct rs} : list tag :=
  match rs with
  | [] => []
  | r0 :: rs' => tags_forest r0 ++ match stk with [] => [] | fr :: stk' => TEnd (f_id fr) :: rtags stk' rs' end
  end.

Lemma out_tags_ends T : out_tags (map end_out T) = ends_of T.
Proof. induction T as [|f T IH]; [reflexivity|]. cbn [map]. unfold out_tags in *. cbn [flat_map end_out app]. rewrite IH. reflexivity. Qed.

Lemma out_tags_items_forest l off : out_tags (items_forest off l) = tags_forest l.
Proof.
  pose proof (items_tags_forest l off) as H. revert H. generalize (items_forest off l) (tags_forest l).
  induction l0 as [|o l0 IH]; intros l1 H; destruct l1 as [|t l1]; try discriminate; [reflexivity|].
  cbn [map] in H. injection H as H1 H2. destruct o; cbn [out_tag] in H1; try discriminate. injection H1 as ->.
  unfold out_tags in *. cbn [flat_map app]. rewrite (IH l1 H2). reflexivity.
Qed.

(* the items of a forest and the Ends it leaves pending are, as tags, the Ends of what was pending before and its tags *)
Lemma forest_tags l off T : out_tags (outs_forest off l T) ++ ends_of (pend_after off l T) = ends_of T ++ tags_forest l.
Proof.
  destruct l as [|x l']; [cbn [outs_forest pend_after tags_forest]; rewrite app_nil_r; reflexivity|].
  unfold outs_forest, pend_after. rewrite out_tags_app, out_tags_ends, <- app_assoc. f_equal.
  rewrite <- out_tags_ends, <- out_tags_app, open_close_forest. apply out_tags_items_forest.
Qed.

Lemma ends_of_app a b : ends_of (a ++ b) = ends_of a ++ ends_of b.
Proof. unfold ends_of. apply map_app. Qed.

Lemma rights_tags : forall rs off T stk, length rs = S (length stk) ->
  out_tags (rights_outs off T stk rs) = ends_of T ++ rtags stk rs.
Proof.
  induction rs as [|r0 rs IH]; intros off T stk Hl; [discriminate|]. cbn [rights_outs rtags]. rewrite out_tags_app.
  destruct stk as [|fr stk'].
  - rewrite out_tags_app, out_tags_ends. cbn [out_tags flat_map]. rewrite app_nil_r, app_nil_r. apply forest_tags.
  - cbn [length] in Hl. rewrite (IH _ _ stk') by lia. rewrite ends_of_app. cbn [ends_of map].
    rewrite <- !app_assoc. rewrite (app_assoc (out_tags _)), forest_tags, <- !app_assoc. reflexivity.
Qed.

Lemma rights_len c : forall rs ids off stk, rights_ok c ids off stk rs -> length rs = S (length stk).
Proof.
  induction rs as [|r0 rs IH]; intros ids off stk H; [contradiction H|]. apply rights_ok_cons in H. destruct H as [_ [_ Hm]].
  destruct stk as [|fr stk']; [subst rs; reflexivity|]. destruct Hm as [_ Hr]. cbn [length]. rewrite (IH _ _ _ Hr). reflexivity.
Qed.

Lemma rtags_grow d : forall rs stk, rtags (grow_frames d stk) rs = rtags stk rs.
Proof.
  induction rs as [|r0 rs IH]; intros stk; [reflexivity|]. cbn [rtags]. destruct stk as [|fr stk']; [reflexivity|].
  cbn [grow_frames map]. fold (grow_frames d stk'). rewrite IH. destruct (f_size fr); reflexivity.
Qed.

(* how many outputs the rest of the document gives *)
Lemma rights_outs_len c : forall rs ids off T stk, rights_ok c ids off stk rs ->
  (length (rights_outs off T stk rs) <= length T + length stk + length (enc_rights rs) + 1)%nat.
Proof.
  induction rs as [|r0 rs IH]; intros ids off T stk H; [contradiction H|]. apply rights_ok_cons in H. destruct H as [Hc [_ Hm]].
  cbn [rights_outs enc_rights]. rewrite !app_length. pose proof (outs_pend_len c ids r0 off T Hc) as H1.
  destruct stk as [|fr stk'].
  - subst rs. rewrite app_length, map_length. cbn [length enc_rights]. lia.
  - destruct Hm as [_ Hr]. specialize (IH _ (off + flen r0) (pend_after off r0 T ++ [fr]) stk' Hr). rewrite app_length in IH. cbn [length] in *. lia.
Qed.

(* ------------------------------------------------------------------ whole documents seen from a position inside *)
Record zdoc : Type := { z_levels : list level; z_rights : list (list rtree) }.
Definition enc_zdoc (z : zdoc) : list N := enc_levels (z_levels z) ++ enc_rights (z_rights z).
Definition conf_zdoc (c : cfg) (z : zdoc) : Prop :=
  conf_levels c [] (z_levels z) (flen (hd [] (z_rights z))) /\
  rights_ok c (lv_ids [] (z_levels z)) (levels_len (z_levels z)) (lv_stk 0 [] (z_levels z)) (z_rights z).
Definition out_zdoc (z : zdoc) : list rout :=
  lv_outs 0 [] (z_levels z) ++ rights_outs (levels_len (z_levels z)) (lv_T 0 [] (z_levels z)) (lv_stk 0 [] (z_levels z)) (z_rights z).

Lemma lv_stk_nonempty : forall L off stk, lv_stk off stk L <> [] -> L <> [] \/ stk <> [].
Proof. intros [|lv L] off stk H; [right; exact H|left; discriminate]. Qed.

Lemma init_pre c input total : pre c (p_init input) [] [] [] total.
Proof.
  constructor; try reflexivity.
  - unfold p_init, default_fuel. cbn [b_fuel]. lia.
  - right. repeat split.
  - constructor.
  - intros d Hn. contradiction Hn. reflexivity.
  - intros i a Hn. destruct i; discriminate.
  - constructor.
Qed.

Theorem zipper_run c z : strict c -> c_buffered c = [] -> c_emit_eof c = true -> conf_zdoc c z ->
  p_run c (enc_zdoc z) [RAll] = out_zdoc z.
Proof.
  intros Hstrict Hnb He [HL Hr]. unfold p_run. rewrite run_ops_all. destruct z as [L rs]. cbn [z_levels z_rights] in *.
  unfold enc_zdoc, out_zdoc. cbn [z_levels z_rights].
  set (input := enc_levels L ++ enc_rights rs). set (st0 := p_init input).
  pose proof (wf_rights c rs _ _ _ Hr) as Hwr.
  destruct (descend c Hstrict Hnb L [] st0 [] [] _ _ HL (init_pre c input _) eq_refl Hwr) as [st1 [Hpre1 [B1 [B2 [B3 [_ [Hd1 Hrun1]]]]]]].
  change (b_off st0) with 0 in *. rewrite N.add_0_l in B2.
  set (T1 := lv_T 0 [] L) in *. set (stk1 := lv_stk 0 [] L) in *. set (ids1 := lv_ids [] L) in *.
  rewrite <- B2 in Hr.
  assert (Hdet : stk1 <> [] -> b_det st1 = true).
  { intros Hne. apply Hd1. destruct (lv_stk_nonempty L 0 [] Hne) as [H|H]; [exact H|contradiction H; reflexivity]. }
  pose proof (lv_len c L [] 0 [] [] _ HL) as Hc1. cbn [length] in Hc1. fold T1 stk1 in Hc1.
  pose proof (rights_outs_len c rs ids1 (b_off st1) T1 stk1 Hr) as Hc2.
  assert (Hin : length input = (length (enc_levels L) + length (enc_rights rs))%nat) by (unfold input; apply app_length).
  set (a := length (lv_outs 0 [] L)) in *. set (b := length (rights_outs (b_off st1) T1 stk1 rs)) in *.
  replace (4 * length input + 64)%nat with (a + (b + (4 * length input + 64 - a - b)))%nat by lia.
  rewrite Hrun1. unfold rcat. cbn [snd].
  rewrite (parse_rights c Hstrict Hnb He rs ids1 st1 T1 stk1 Hr Hpre1 Hdet B1). rewrite B2. reflexivity.
Qed.

(* ------------------------------------------------------------------ C14: junk between two tags *)
Record ddoc : Type := { d_levels : list level; d_f1 : list rtree; d_junk : list N; d_x : rtree; d_f2 : list rtree;
                        d_rights : list (list rtree) }.
Definition enc_ddoc (d : ddoc) : list N :=
  enc_levels (d_levels d) ++ enc_forest (d_f1 d) ++ d_junk d ++ enc_rights ((d_x d :: d_f2 d) :: d_rights d).
(* the undamaged document *)
Definition undamaged (d : ddoc) : zdoc := {| z_levels := d_levels d; z_rights := (d_f1 d ++ d_x d :: d_f2 d) :: d_rights d |}.

(* where the reader stands when it meets the junk: the masters pending or open, and the parse state the junk is judged in *)
Definition d_off2 (d : ddoc) : N := levels_len (d_levels d) + flen (d_f1 d).
Definition d_pend (d : ddoc) : list frame := pend_after (levels_len (d_levels d)) (d_f1 d) (lv_T 0 [] (d_levels d)).
Definition d_stk (d : ddoc) : list frame := lv_stk 0 [] (d_levels d).
Definition d_k1 (d : ddoc) : nat := exhausted_count (d_off2 d) (d_pend d ++ d_stk d).
Definition junk_state (d : ddoc) : pst :=
  {| b_bytes := d_junk d ++ enc_rights ((d_x d :: d_f2 d) :: d_rights d); b_off := d_off2 d;
     b_stack := skipn (d_k1 d) (d_pend d ++ d_stk d); b_queue := []; b_last := 0; b_det := true; b_bad := None;
     b_fuel := default_fuel [] (enc_ddoc d) |}.

Definition out_ddoc (d : ddoc) (e0 : rerr) : list rout :=
  let j := N.of_nat (length (d_junk d)) in
  lv_outs 0 [] (d_levels d) ++ outs_forest (levels_len (d_levels d)) (d_f1 d) (lv_T 0 [] (d_levels d)) ++
  map end_out (firstn (d_k1 d) (d_pend d)) ++ [OErr e0; ORecOk] ++
  rights_outs (d_off2 d + j) (skipn (d_k1 d) (d_pend d)) (grow_frames j (d_stk d)) ((d_x d :: d_f2 d) :: d_rights d).

Lemma run_ops_3 c limit st s1 o1 s2 o3 :
  p_run_all limit c st = (s1, o1) -> b_bad s1 = None -> p_try_recover c s1 = (s2, None) -> b_bad s2 = None ->
  snd (p_run_all limit c s2) = o3 ->
  snd (p_run_ops c limit st [RAll; RRecover; RAll]) = o1 ++ ORecOk :: o3.
Proof.
  intros H1 Hb1 H2 Hb2 H3. cbn [p_run_ops]. rewrite H1, Hb1, H2, Hb2.
  destruct (p_run_all limit c s2) as [s3 o3']. cbn [snd] in H3. subst o3'. destruct (b_bad s3); cbn [snd]; rewrite ?app_nil_r; reflexivity.
Qed.

Lemma rights_ok_unprepend c ids off stk f1 r0 rs : rights_ok c ids off stk ((f1 ++ r0) :: rs) ->
  Forall (conf c ids) f1 /\ rights_ok c ids (off + flen f1) stk (r0 :: rs).
Proof.
  intros H. apply rights_ok_cons in H. destruct H as [Hc [Hr Hm]]. apply Forall_app in Hc. destruct Hc as [Hc1 Hc2].
  split; [exact Hc1|]. apply rights_ok_cons. rewrite flen_app, N.add_assoc in Hr, Hm. split; [exact Hc2|]. split; [exact Hr|exact Hm].
Qed.

Lemma grow_length d stk : length (grow_frames d stk) = length stk.
Proof. unfold grow_frames. apply map_length. Qed.

Theorem damaged_run c d : strict c -> c_buffered c = [] -> c_emit_eof c = true -> conf_zdoc c (undamaged d) ->
  d_junk d <> [] -> wf_bytes (d_junk d) -> (d_levels d <> [] \/ d_f1 d <> []) ->
  room (d_stk d) (d_off2 d + N.of_nat (length (d_junk d)) + tlen (d_x d)) ->
  junk_from c (junk_state d) (length (d_junk d) - 1) ->
  exists e0, p_run c (enc_ddoc d) [RAll; RRecover; RAll] = out_ddoc d e0.
Proof.
  intros Hstrict Hnb He [HL Hr] Hjk Hwj Hsome Hfits Hjunk.
  unfold junk_state, out_ddoc, d_k1, d_pend, d_stk, d_off2, enc_ddoc in *.
  destruct d as [L f1 jk x f2 rs']. cbn [d_levels d_f1 d_junk d_x d_f2 d_rights undamaged z_levels z_rights hd] in *.
  set (rs2 := (x :: f2) :: rs') in *.
  set (input := enc_levels L ++ enc_forest f1 ++ jk ++ enc_rights rs2) in *. set (st0 := p_init input).
  set (T1 := lv_T 0 [] L) in *. set (stk1 := lv_stk 0 [] L) in *. set (ids1 := lv_ids [] L) in *.
  set (off1 := levels_len L) in *. set (j := length jk) in *.
  destruct (rights_ok_unprepend c ids1 off1 stk1 f1 (x :: f2) rs' Hr) as [Hf1 Hr2]. fold rs2 in Hr2.
  pose proof (wf_rights c rs2 _ _ _ Hr2) as Hwr2.
  assert (Hw1 : wf_bytes (enc_forest f1 ++ jk ++ enc_rights rs2)).
  { apply wf_app; [apply (conf_wf_forest c ids1 f1 Hf1)|apply wf_app; assumption]. }
  destruct (descend c Hstrict Hnb L [] st0 [] [] _ _ HL (init_pre c input _) eq_refl Hw1) as [st1 [Hpre1 [B1 [B2 [B3 [_ [Hd1 Hrun1]]]]]]].
  change (b_off st0) with 0 in *. rewrite N.add_0_l in B2. fold T1 stk1 ids1 off1 in Hpre1, Hrun1, B2.
  (* the trees in front of the junk *)
  assert (HP : Forall (Ptree c) f1) by (apply Forall_forall; intros t _; apply parse_tree; assumption).
  assert (Hle : flen f1 <= flen (f1 ++ x :: f2)) by (rewrite flen_app; lia).
  assert (Hpre1' : pre c st1 T1 stk1 ids1 (flen f1)) by (eapply pre_weaken; [exact Hle|exact Hpre1]).
  assert (Hw2 : wf_bytes (jk ++ enc_rights rs2)) by (apply wf_app; assumption).
  destruct (parse_forest c f1 HP ids1 Hf1 st1 T1 stk1 _ Hpre1' B1 Hw2) as [st2 [Hat2 [Hd2 [Hd2' Hrun2]]]].
  rewrite B2 in Hat2, Hrun2.
  assert (Hat2' : at_ st2 (b_bytes st2) (b_off st1 + flen f1) (pend_after (b_off st1) f1 T1 ++ stk1) (b_fuel st1)).
  { rewrite B2. destruct Hat2 as [A1 [A2 [A3 [A4 [A5 A6]]]]]. repeat split; assumption. }
  pose proof (pre_after_forest c st1 st2 T1 stk1 ids1 _ f1 Hpre1 Hf1 Hle Hat2' Hd2 Hd2') as Hpre2. rewrite B2 in Hpre2.
  destruct Hat2 as [A1 [A2 [A3 [A4 [A5 A6]]]]].
  set (Pend := pend_after off1 f1 T1) in *.
  assert (Hdet2 : b_det st2 = true).
  { destruct Hsome as [HLn|Hfn]; [apply Hd2, Hd1, HLn|apply Hd2', Hfn]. }
  assert (Hpre2' : pre c st2 Pend stk1 ids1 (N.of_nat j + tlen x)).
  { eapply pre_retotal; [exact Hpre2|]. rewrite A2, N.add_assoc. exact Hfits. }
  (* the junk, judged in the reader's state *)
  set (k1 := exhausted_count (off1 + flen f1) (Pend ++ stk1)) in *.
  assert (Hk1e : exhausted_count (b_off st2) (Pend ++ stk1) = k1) by (rewrite A2; reflexivity).
  assert (Hjunk2 : junk_from c (ppop_frames st2 (exhausted_count (b_off st2) (Pend ++ stk1))) (j - 1)).
  { eapply junk_from_same; [exact Hjunk|]. rewrite Hk1e. unfold same_parse, ppop_frames, ppush_q, pset_queue, pset_stack.
    cbn [b_bytes b_off b_stack b_det b_bad b_fuel]. rewrite A1, A2, A3, A5, A6, B3, Hdet2. repeat split. }
  assert (Hb2 : b_bytes st2 = jk ++ enc_tree x ++ (enc_forest f2 ++ enc_rights rs')).
  { rewrite A1. unfold rs2. cbn [enc_rights enc_forest]. rewrite <- !app_assoc. reflexivity. }
  assert (Hwrest : wf_bytes (enc_forest f2 ++ enc_rights rs')).
  { unfold rs2 in Hwr2. cbn [enc_rights enc_forest] in Hwr2. rewrite <- app_assoc in Hwr2. unfold wf_bytes in *. rewrite Forall_app in Hwr2. tauto. }
  pose proof Hr2 as Hr2'. apply rights_ok_cons in Hr2'. destruct Hr2' as [Hcx [Hroom2 _]].
  assert (Hconfx : conf c ids1 x) by (inversion Hcx; assumption).
  assert (Hin : length input = (length (enc_levels L) + (length (enc_forest f1) + (j + length (enc_rights rs2))))%nat)
    by (unfold input, j; rewrite !app_length; reflexivity).
  assert (Hfuel : (j <= b_fuel st2)%nat) by (rewrite A6, B3; unfold st0, p_init, default_fuel; cbn [b_fuel]; lia).
  (* counting *)
  pose proof (lv_len c L [] 0 [] [] _ HL) as Hc1. cbn [length] in Hc1. fold T1 stk1 in Hc1.
  pose proof (outs_pend_len c ids1 f1 off1 T1 Hf1) as Hc2. fold Pend in Hc2.
  assert (Hpos : 0 < N.of_nat j + tlen x) by (pose proof (conf_wf c x ids1 Hconfx) as [_ H2]; lia).
  destruct (pending_rest c st2 Pend stk1 ids1 _ Hpre2' Hpos) as [Hk1 _]. rewrite Hk1e in Hk1.
  set (a := length (lv_outs 0 [] L)) in *. set (b := length (outs_forest off1 f1 T1)) in *.
  set (n1 := (4 * length input + 64 - a - b - k1 - 1)%nat).
  destruct (recover_step c st2 Pend stk1 ids1 _ jk x _ Hstrict Hnb Hpre2' Hdet2 Hb2 Hjk Hwrest Hconfx (N.le_refl _) Hfuel Hjunk2 n1)
    as [e0 [Sr [R1 [R2 [R3 [R4 [R5 [R6 [R7 R8]]]]]]]]].
  rewrite Hk1e in R1, R2, R3, R4.
  exists e0. unfold p_run. fold input. fold st0.
  (* the first drain *)
  assert (Hlim : (4 * length input + 64 = a + (b + (k1 + S n1)))%nat) by (unfold n1; lia).
  assert (Hrun12 : p_run_all (4 * length input + 64) c st0 =
                   (fst (p_run_all (k1 + S n1) c st2),
                    lv_outs 0 [] L ++ outs_forest off1 f1 T1 ++ map end_out (firstn k1 Pend) ++ [OErr e0])).
  { rewrite Hlim, Hrun1, Hrun2. unfold rcat. cbn [fst snd]. rewrite R1. reflexivity. }
  (* the second drain *)
  assert (Hr3 : rights_ok c ids1 (b_off Sr) (grow_frames (N.of_nat j) stk1) rs2).
  { rewrite R6, A2. apply rights_ok_shift. exact Hr2. }
  assert (Hpre3 : pre c Sr (skipn k1 Pend) (grow_frames (N.of_nat j) stk1) ids1 (flen (hd [] rs2))).
  { eapply pre_retotal; [exact R4|]. apply rights_ok_cons in Hr3. destruct Hr3 as [_ [H3 _]]. exact H3. }
  assert (Hb3 : b_bytes Sr = enc_rights rs2).
  { rewrite R5. unfold rs2. cbn [enc_rights enc_forest]. rewrite <- !app_assoc. reflexivity. }
  pose proof (rights_outs_len c rs2 ids1 (b_off Sr) (skipn k1 Pend) (grow_frames (N.of_nat j) stk1) Hr3) as Hc3.
  rewrite grow_length, skipn_length in Hc3.
  set (b2 := length (rights_outs (b_off Sr) (skipn k1 Pend) (grow_frames (N.of_nat j) stk1) rs2)) in *.
  pose proof (parse_rights c Hstrict Hnb He rs2 ids1 Sr _ _ Hr3 Hpre3 (fun _ => R8) Hb3 (4 * length input + 64 - b2)) as Hrun3. fold b2 in Hrun3.
  replace (b2 + (4 * length input + 64 - b2))%nat with (4 * length input + 64)%nat in Hrun3 by lia.
  destruct R4 as [_ _ Rbad _ _ _ _ _ _ _].
  rewrite (run_ops_3 c _ st0 _ _ Sr _ Hrun12 R2 R3 Rbad Hrun3). rewrite R6, A2. rewrite <- !app_assoc. reflexivity.
Qed.

Lemma tags_forest_app a b : tags_forest (a ++ b) = tags_forest a ++ tags_forest b.
Proof. induction a as [|x a IH]; [reflexivity|]. cbn [app tags_forest]. rewrite IH, app_assoc. reflexivity. Qed.

(* recovery loses nothing: apart from the one error and the successful recovery, the damaged document reads as the same tag
   sequence as the undamaged one *)
Theorem recovery_loses_nothing c d : strict c -> c_buffered c = [] -> c_emit_eof c = true -> conf_zdoc c (undamaged d) ->
  d_junk d <> [] -> wf_bytes (d_junk d) -> (d_levels d <> [] \/ d_f1 d <> []) ->
  room (d_stk d) (d_off2 d + N.of_nat (length (d_junk d)) + tlen (d_x d)) ->
  junk_from c (junk_state d) (length (d_junk d) - 1) ->
  out_tags (p_run c (enc_ddoc d) [RAll; RRecover; RAll]) = out_tags (p_run c (enc_zdoc (undamaged d)) [RAll]).
Proof.
  intros Hstrict Hnb He Hz Hjk Hwj Hsome Hfits Hjunk.
  destruct (damaged_run c d Hstrict Hnb He Hz Hjk Hwj Hsome Hfits Hjunk) as [e0 Hd]. rewrite Hd.
  rewrite (zipper_run c (undamaged d) Hstrict Hnb He Hz). destruct Hz as [_ Hr].
  unfold out_ddoc, out_zdoc, d_k1, d_pend, d_stk, d_off2, undamaged in *. cbn [z_levels z_rights] in *.
  destruct d as [L f1 jk x f2 rs']. cbn [d_levels d_f1 d_junk d_x d_f2 d_rights] in *.
  set (T1 := lv_T 0 [] L) in *. set (stk1 := lv_stk 0 [] L) in *. set (off1 := levels_len L) in *.
  set (Pend := pend_after off1 f1 T1). set (k1 := exhausted_count (off1 + flen f1) (Pend ++ stk1)).
  pose proof (rights_len c _ _ _ _ Hr) as Hlen. cbn [length] in Hlen.
  rewrite !out_tags_app, out_tags_ends. cbn [out_tags flat_map app].
  rewrite !(rights_tags _ _ _ _) by (cbn [length]; rewrite ?grow_length; exact Hlen).
  rewrite rtags_grow. cbn [rtags]. rewrite tags_forest_app. f_equal.
  rewrite <- !app_assoc. rewrite (app_assoc (ends_of (firstn k1 Pend))), <- ends_of_app, firstn_skipn.
  rewrite (app_assoc (out_tags _)). unfold Pend. rewrite forest_tags, <- !app_assoc. reflexivity.
Qed.

(* ------------------------------------------------------------------ header checks see only the parse fields of a state *)
Lemma p_hier_step_cong c s1 s2 id ty : same_parse s1 s2 ->
  same_parse (fst (p_hier_step c s1 id ty)) (fst (p_hier_step c s2 id ty)) /\ snd (p_hier_step c s1 id ty) = snd (p_hier_step c s2 id ty).
Proof.
  intros [H1 [H2 [H3 [H4 [H5 H6]]]]]. unfold p_hier_step. destruct (negb (c_allow_hier c) && _); [|split; [repeat split; assumption|reflexivity]].
  rewrite H4. destruct (b_det s1) eqn:Ed; cbn zeta iota.
  - rewrite H4, Ed, H3. destruct (true && _); cbn [fst snd]; (split; [repeat split; congruence|reflexivity]).
  - destruct (all_ids _); cbn zeta iota.
    + destruct (implied_stack _ _) as [stk|]; cbn zeta iota.
      * cbn [pset_stack b_det b_stack]. rewrite H3. destruct (true && _); cbn [fst snd]; (split; [repeat split; cbn [pset_stack b_bytes b_off b_stack b_det b_bad b_fuel]; congruence|reflexivity]).
      * split; [|reflexivity]. unfold pset_bad. repeat split; cbn [fst b_bytes b_off b_stack b_det b_bad b_fuel]; try congruence. rewrite H5. reflexivity.
    + rewrite H4, Ed, H3. destruct (false && _); cbn [fst snd]; (split; [repeat split; congruence|reflexivity]).
Qed.

Lemma p_header_cong c s1 s2 : same_parse s1 s2 -> snd (p_header c s1) = snd (p_header c s2).
Proof.
  intros Hs. pose proof Hs as [H1 [H2 [H3 [H4 [H5 H6]]]]]. rewrite !p_header_unfold. unfold p_tag_id, blen. rewrite H1, H2.
  destruct (b_bytes s1) as [|b0 tl] eqn:Eb; [reflexivity|].
  assert (Hx : forall id idl, snd (p_hdr_tail c s1 id idl) = snd (p_hdr_tail c s2 id idl)).
  { intros id idl. unfold p_hdr_tail. rewrite H1, H2, Eb. destruct (read_vint _) as [[[size sl]|]|e1|]; try reflexivity.
    destruct (is_numeric _ && _); [reflexivity|]. destruct (negb (c_allow_id c) && _); [reflexivity|].
    destruct (p_hier_step_cong c s1 s2 id (get_type (c_sp c) id) Hs) as [[G1 [G2 [G3 [G4 [G5 G6]]]]] Gs].
    destruct (p_hier_step c s1 id (get_type (c_sp c) id)) as [t1 r1]. destruct (p_hier_step c s2 id (get_type (c_sp c) id)) as [t2 r2].
    cbn [fst snd] in *. subst r2. destruct r1 as [e|]; [reflexivity|]. rewrite G5. destruct (b_bad t1); [reflexivity|].
    assert (Hinv : forall sz, p_invalid_tag_size t2 sz = p_invalid_tag_size t1 sz) by (intros sz; unfold p_invalid_tag_size; rewrite G2, G3; reflexivity).
    rewrite Hinv. destruct (negb (c_allow_over c) && _); [reflexivity|].
    destruct (c_max c); destruct (ebml_size size sl); try destruct (_ <? _); reflexivity. }
  destruct (b0 =? 0); [apply Hx|]. destruct (_ <? _); [reflexivity|apply Hx].
Qed.

Lemma pconsume_cong s1 s2 k : same_parse s1 s2 -> same_parse (pconsume s1 k) (pconsume s2 k).
Proof. intros [H1 [H2 [H3 [H4 [H5 H6]]]]]. unfold same_parse, pconsume. cbn [b_bytes b_off b_stack b_det b_bad b_fuel]. rewrite H1, H2. repeat split; assumption. Qed.

Lemma junk_cong c : forall k s1 s2, same_parse s1 s2 -> junk c s1 k -> junk c s2 k.
Proof.
  induction k as [|k IH]; intros s1 s2 Hs Hj; [exact I|]. destruct Hj as [[e He] Hj']. cbn [junk].
  pose proof (pconsume_cong s1 s2 1 Hs) as Hs1. split; [exists e; rewrite <- (p_header_cong c _ _ Hs1); exact He|apply (IH _ _ Hs1 Hj')].
Qed.

Lemma junk_from_intro c st k : (exists e, snd (p_header c st) = Err e) -> junk c st k -> junk_from c st k.
Proof.
  intros [e He] Hj s Hs. split; [exists e; rewrite <- (p_header_cong c _ _ Hs); exact He|apply (junk_cong c k st s Hs Hj)].
Qed.

(* [junk_run c st k]: a header check fails at the current position and at each of the next k - 1 ones *)
Definition junk_run (c : cfg) (st : pst) (k : nat) : Prop := (exists e, snd (p_header c st) = Err e) /\ junk c st (k - 1).

Theorem damaged_run' c d : strict c -> c_buffered c = [] -> c_emit_eof c = true -> conf_zdoc c (undamaged d) ->
  d_junk d <> [] -> wf_bytes (d_junk d) -> (d_levels d <> [] \/ d_f1 d <> []) ->
  room (d_stk d) (d_off2 d + N.of_nat (length (d_junk d)) + tlen (d_x d)) ->
  junk_run c (junk_state d) (length (d_junk d)) ->
  exists e0, p_run c (enc_ddoc d) [RAll; RRecover; RAll] = out_ddoc d e0.
Proof. intros H1 H2 H3 H4 H5 H6 H7 H8 [H9 H10]. apply damaged_run; try assumption. apply junk_from_intro; assumption. Qed.

Theorem recovery_loses_nothing' c d : strict c -> c_buffered c = [] -> c_emit_eof c = true -> conf_zdoc c (undamaged d) ->
  d_junk d <> [] -> wf_bytes (d_junk d) -> (d_levels d <> [] \/ d_f1 d <> []) ->
  room (d_stk d) (d_off2 d + N.of_nat (length (d_junk d)) + tlen (d_x d)) ->
  junk_run c (junk_state d) (length (d_junk d)) ->
  out_tags (p_run c (enc_ddoc d) [RAll; RRecover; RAll]) = out_tags (p_run c (enc_zdoc (undamaged d)) [RAll]).
Proof. intros H1 H2 H3 H4 H5 H6 H7 H8 [H9 H10]. apply recovery_loses_nothing; try assumption. apply junk_from_intro; assumption. Qed.
